(* Proofs/TypesValueProofs2.v — every value inhabits the type it reports when computing that type sums no types of
   different shapes (value_clash = false): lists may hold structs and tuples of equal shape. *)
From Octo Require Import Types TypesClash ValueInd TypesIsProofs TypesSoundProofs TypesSumFuel TypesSumProofs2 TypesValueProofs.

Definition vc_step (acc : outcome (option ty) * bool) (x : value) : outcome (option ty) * bool :=
  match fst acc, type_of_value x with
  | Ok None, Ok t => (Ok (Some t), snd acc)
  | Ok (Some e), Ok t => (obind (tsum e t) (fun s => Ok (Some s)), snd acc || sum_clash e t)
  | _, _ => (Err 1, true)
  end.

Lemma value_clash_list : forall l,
  value_clash (VList l) = existsb value_clash l || snd (fold_left vc_step l (Ok None, false)).
Proof. reflexivity. Qed.

Lemma vc_step_mono : forall acc x, snd acc = true -> snd (vc_step acc x) = true.
Proof. intros [o fl] x H. simpl in H. subst. unfold vc_step. simpl. destruct o as [[e|]| |], (type_of_value x); reflexivity. Qed.
Lemma vc_fold_mono : forall l acc, snd acc = true -> snd (fold_left vc_step l acc) = true.
Proof. induction l as [|x l IH]; intros acc H; [exact H|]. simpl. apply IH. apply vc_step_mono. exact H. Qed.

Definition tov_inv (o : option ty) (seen : list value) : Prop :=
  match o with
  | None => seen = []
  | Some e => forallb (fun x => has_type x e) seen = true
  end.

Lemma vc_fold : forall l,
  Forall (fun x => exists t, type_of_value x = Ok t /\ has_type x t = true) l ->
  forall o seen, tov_inv o seen -> snd (fold_left vc_step l (Ok o, false)) = false ->
  exists o', fold_left tov_step l (Ok o) = Ok o' /\ tov_inv o' (seen ++ l).
Proof.
  induction 1 as [|x l [t [Et Ht]] _ IH]; intros o seen Inv C.
  - exists o. split; [reflexivity|]. rewrite app_nil_r. exact Inv.
  - cbn [fold_left] in *.
    assert (E1 : tov_step (Ok o) x = match o with None => Ok (Some t) | Some e => obind (tsum e t) (fun s => Ok (Some s)) end).
    { unfold tov_step. simpl. rewrite Et. reflexivity. }
    rewrite E1. replace (seen ++ x :: l) with ((seen ++ [x]) ++ l) by (rewrite <- app_assoc; reflexivity).
    unfold vc_step at 2 in C. simpl in C. rewrite Et in C. destruct o as [e|].
    + simpl in C. destruct (sum_clash e t) eqn:Ec.
      { rewrite vc_fold_mono in C by reflexivity. discriminate. }
      destruct (sum_upper e t Ec) as [s [Es [H1 H2]]]. rewrite Es in *. simpl in *.
      apply IH; [|exact C]. simpl. rewrite forallb_app. apply andb_true_iff. split.
      * simpl in Inv. rewrite forallb_forall in *. intros y Hy. apply (is_sound e s y H1). apply Inv. exact Hy.
      * simpl. rewrite (is_sound t s x H2 Ht). reflexivity.
    + simpl in Inv. subst seen. apply IH; [|exact C]. simpl. rewrite Ht. reflexivity.
Qed.

Theorem value_type_noclash : forall v, value_clash v = false ->
  exists t, type_of_value v = Ok t /\ has_type v t = true.
Proof.
  induction v as [ | z | b | b | s | ns loc | z | l IH | l IH | l IH ] using value_ind'; intro C;
    try (eexists; split; reflexivity).
  - rewrite value_clash_list in C. apply orb_false_iff in C. destruct C as [C1 C2].
    assert (F : Forall (fun x => exists t, type_of_value x = Ok t /\ has_type x t = true) l).
    { rewrite Forall_forall in *. intros x Hx. apply (IH x Hx). destruct (value_clash x) eqn:E; [|reflexivity].
      assert (existsb value_clash l = true) by (apply existsb_exists; exists x; auto). congruence. }
    destruct (vc_fold l F None [] eq_refl C2) as [o' [E H]]. rewrite type_of_value_list, E. simpl. destruct o' as [e|].
    + exists (TList (Some e)). split; [reflexivity | exact H].
    + simpl in H. subst l. exists (TList None). split; reflexivity.
  - simpl in C. assert (F : Forall (fun x => exists t, type_of_value x = Ok t /\ has_type x t = true) l).
    { rewrite Forall_forall in *. intros x Hx. apply (IH x Hx). destruct (value_clash x) eqn:E; [|reflexivity].
      assert (existsb value_clash l = true) by (apply existsb_exists; exists x; auto). congruence. }
    destruct (outcome_all_map_tov l F) as [ts [E H]].
    exists (TStruct (map (fun t => (empty_name, t)) ts)). split.
    + change (type_of_value (VStruct l)) with (obind (outcome_all (map type_of_value l)) (fun ts => Ok (TStruct (map (fun t => (empty_name, t)) ts)))).
      rewrite E. reflexivity.
    + rewrite has_type_struct, fields_ok_empty_names. exact H.
  - simpl in C. assert (F : Forall (fun x => exists t, type_of_value x = Ok t /\ has_type x t = true) l).
    { rewrite Forall_forall in *. intros x Hx. apply (IH x Hx). destruct (value_clash x) eqn:E; [|reflexivity].
      assert (existsb value_clash l = true) by (apply existsb_exists; exists x; auto). congruence. }
    destruct (outcome_all_map_tov l F) as [ts [E H]].
    exists (TTuple ts). split.
    + change (type_of_value (VTuple l)) with (obind (outcome_all (map type_of_value l)) (fun ts => Ok (TTuple ts))).
      rewrite E. reflexivity.
    + rewrite has_type_tuple. exact H.
Qed.

(* a list of one-field structs of different field types and of equal-arity tuples: outside the class, inside the theorem *)
Example value_type_noclash_nontrivial :
  value_clash (VList [VStruct [VInt 1]; VStruct [VStr [97]]; VStruct [VNull]]) = false /\
  value_clash (VList [VTuple [VInt 1; VStr []]; VTuple [VFloat 0; VNull]]) = false /\
  value_clash (VList [VStruct [VInt 1; VInt 2]; VStruct [VFloat 0; VFloat 0]]) = true /\
  value_clash (VList [VTuple [VInt 1]; VTuple [VInt 1; VInt 2]]) = true.
Proof. vm_compute. repeat split; reflexivity. Qed.
