(* Proofs/WireProofs.v — proofs about Model/Wire.v (C26). *)
From Octo Require Import Wire ValueInd.

(* ------------------------------------------------------------------------------------------------ *)
(* timestamps and durations *)
Lemma ts_roundtrip : forall ns, ts_as_time (Some (ts_new ns)) = ns.
Proof.
  intro ns. unfold ts_as_time, ts_new, e9; simpl.
  pose proof (Z.div_mod ns 1000000000). lia.
Qed.

Lemma wrap64_id : forall z, in_int64 z -> wrap64 z = z.
Proof.
  intros z [H1 H2]. unfold wrap64, two63, two64 in *.
  rewrite Z.mod_small; lia.
Qed.

Lemma quot_facts : forall d, let q := Z.quot d e9 in let r := d - q * e9 in
  (0 <= d -> 0 <= q /\ 0 <= r < e9) /\ (d <= 0 -> q <= 0 /\ - e9 < r <= 0).
Proof.
  intro d. cbv zeta. assert (He : e9 = 1000000000) by reflexivity. split; intro Hd.
  - rewrite Z.quot_div_nonneg by lia.
    pose proof (Z.div_mod d e9 ltac:(lia)). pose proof (Z.mod_pos_bound d e9 ltac:(lia)).
    pose proof (Z.div_pos d e9 Hd ltac:(lia)). lia.
  - assert (Hq : Z.quot d e9 = - ((- d) / e9)).
    { rewrite <- (Z.opp_involutive d) at 1. rewrite Z.quot_opp_l by lia. rewrite Z.quot_div_nonneg by lia. reflexivity. }
    rewrite Hq.
    pose proof (Z.div_mod (- d) e9 ltac:(lia)). pose proof (Z.mod_pos_bound (- d) e9 ltac:(lia)).
    pose proof (Z.div_pos (- d) e9 ltac:(lia) ltac:(lia)). unfold e9 in *. lia.
Qed.

Lemma pd_roundtrip : forall d, in_int64 d -> pd_as_duration (Some (pd_new d)) = d.
Proof.
  intros d Hd. unfold pd_as_duration, pd_new. cbn [pd_seconds pd_nanos].
  pose proof (quot_facts d) as [Hpos Hneg]. cbv zeta in Hpos, Hneg.
  set (q := Z.quot d e9) in *. set (r := d - q * e9) in *.
  assert (He : e9 = 1000000000) by reflexivity.
  assert (Hin : in_int64 (q * e9)).
  { unfold in_int64, two63 in *. destruct (Z_le_gt_dec 0 d); [specialize (Hpos l)|specialize (Hneg ltac:(lia))]; lia. }
  rewrite (wrap64_id _ Hin).
  assert (Hq2 : Z.quot (q * e9) e9 = q) by (apply Z.quot_mul; lia).
  rewrite Hq2, Z.eqb_refl. cbn [negb orb].
  replace (q * e9 + r) with d by (unfold r; lia).
  rewrite (wrap64_id _ Hd).
  destruct (q <? 0) eqn:E1; destruct (0 <? q) eqn:E2; destruct (r <? 0) eqn:E3;
    destruct (0 <? r) eqn:E4; destruct (0 <? d) eqn:E5; destruct (d <? 0) eqn:E6; cbn; try reflexivity;
    exfalso; repeat match goal with
                    | H : (_ <? _) = true |- _ => apply Z.ltb_lt in H
                    | H : (_ <? _) = false |- _ => apply Z.ltb_ge in H
                    end;
    (destruct (Z_le_gt_dec 0 d); [specialize (Hpos ltac:(assumption))|specialize (Hneg ltac:(lia))]); lia.
Qed.

(* ------------------------------------------------------------------------------------------------ *)
(* loops *)
Lemma omap_map : forall {A B C} (f : B -> outcome C) (g : A -> B) (h : A -> C) (l : list A),
  Forall (fun x => f (g x) = Ok (h x)) l -> omap f (map g l) = Ok (map h l).
Proof.
  intros A B C f g h l H. induction H as [|x l Hx Hl IH]; [reflexivity|].
  change (omap f (map g (x :: l))) with (obind (f (g x)) (fun y => obind (omap f (map g l)) (fun ys => Ok (y :: ys)))).
  rewrite Hx, IH. reflexivity.
Qed.

Lemma forallb_Forall : forall {A} (f : A -> bool) l, forallb f l = true -> Forall (fun x => f x = true) l.
Proof. intros A f l H. apply Forall_forall. intros x Hx. eapply forallb_forall in H; eauto. Qed.

Lemma Forall_impl2 : forall {A} (P Q R : A -> Prop) l,
  (forall x, P x -> Q x -> R x) -> Forall P l -> Forall Q l -> Forall R l.
Proof. intros A P Q R l H HP. induction HP; intro HQ; inversion HQ; subst; constructor; auto. Qed.

Lemma map_id_Forall : forall {A} (f : A -> A) l, Forall (fun x => f x = x) l -> map f l = l.
Proof. intros A f l H. induction H; simpl; congruence. Qed.

(* ------------------------------------------------------------------------------------------------ *)
(* values *)
Lemma value_roundtrip : forall v, value_int_ok v = true -> to_native (to_proto v) = Ok (normalise v).
Proof.
  induction v using value_ind'; intro Hok; try reflexivity.
  - change (to_native (to_proto (VTime ns loc))) with (Ok (VTime (ts_as_time (Some (ts_new ns))) loc_utc)).
    rewrite ts_roundtrip. reflexivity.
  - change (to_native (to_proto (VDur z))) with (Ok (VDur (pd_as_duration (Some (pd_new z))))).
    simpl in Hok. rewrite pd_roundtrip; [reflexivity|].
    unfold in_int64b in Hok. apply andb_true_iff in Hok. destruct Hok as [A B].
    apply Z.leb_le in A. apply Z.ltb_lt in B. split; assumption.
  - simpl in Hok. apply forallb_Forall in Hok.
    change (to_native (to_proto (VList l))) with (obind (omap to_native (map to_proto l)) (fun vs => Ok (VList vs))).
    rewrite (omap_map to_native to_proto normalise); [reflexivity|].
    eapply Forall_impl2; [|exact H|exact Hok]. simpl. auto.
  - simpl in Hok. apply forallb_Forall in Hok.
    change (to_native (to_proto (VStruct l))) with (obind (omap to_native (map to_proto l)) (fun vs => Ok (VStruct vs))).
    rewrite (omap_map to_native to_proto normalise); [reflexivity|].
    eapply Forall_impl2; [|exact H|exact Hok]. simpl. auto.
  - simpl in Hok. apply forallb_Forall in Hok.
    change (to_native (to_proto (VTuple l))) with (obind (omap to_native (map to_proto l)) (fun vs => Ok (VTuple vs))).
    rewrite (omap_map to_native to_proto normalise); [reflexivity|].
    eapply Forall_impl2; [|exact H|exact Hok]. simpl. auto.
Qed.

(* the trip changes nothing that Value.Compare or the harness' structural comparison can see *)
Lemma list_eqb_refl_Forall : forall {A} (eqb : A -> A -> bool) (f : A -> A) l,
  Forall (fun x => eqb (f x) x = true) l -> list_eqb eqb (map f l) l = true.
Proof. intros A eqb f l H. induction H; simpl; [reflexivity|]. rewrite H, IHForall. reflexivity. Qed.

Lemma Zlist_eqb_refl : forall s, list_eqb Z.eqb s s = true.
Proof. induction s; simpl; [reflexivity|]. rewrite Z.eqb_refl. assumption. Qed.

Lemma normalise_value_eqb : forall v, value_eqb (normalise v) v = true.
Proof.
  induction v using value_ind'; simpl; try reflexivity; try apply Z.eqb_refl.
  - destruct b; reflexivity.
  - apply Zlist_eqb_refl.
  - apply list_eqb_refl_Forall; assumption.
  - apply list_eqb_refl_Forall; assumption.
  - apply list_eqb_refl_Forall; assumption.
Qed.

Lemma normalise_idem : forall v, normalise (normalise v) = normalise v.
Proof.
  induction v using value_ind'; simpl; try reflexivity; f_equal; rewrite map_map; apply map_ext_Forall; assumption.
Qed.

(* ------------------------------------------------------------------------------------------------ *)
(* types *)
Section WtyInd.
  Variable P : wty -> Prop.
  Hypothesis HNull : P WNull.
  Hypothesis HInt : P WInt.
  Hypothesis HFloat : P WFloat.
  Hypothesis HBool : P WBool.
  Hypothesis HStr : P WStr.
  Hypothesis HTime : P WTime.
  Hypothesis HDur : P WDur.
  Hypothesis HAny : P WAny.
  Hypothesis HListN : P (WList None).
  Hypothesis HListS : forall e, P e -> P (WList (Some e)).
  Hypothesis HStruct : forall fs, Forall (fun f => P (snd f)) fs -> P (WStruct fs).
  Hypothesis HTuple : forall l, Forall P l -> P (WTuple l).
  Hypothesis HUnion : forall l, Forall P l -> P (WUnion l).

  Fixpoint wty_ind' (t : wty) : P t :=
    let go := fix go (l : list wty) : Forall P l :=
      match l with
      | [] => Forall_nil P
      | x :: xs => Forall_cons x (wty_ind' x) (go xs)
      end in
    let gof := fix gof (l : list (list Z * wty)) : Forall (fun f => P (snd f)) l :=
      match l with
      | [] => Forall_nil _
      | x :: xs => Forall_cons x (wty_ind' (snd x)) (gof xs)
      end in
    match t with
    | WNull => HNull | WInt => HInt | WFloat => HFloat | WBool => HBool | WStr => HStr | WTime => HTime
    | WDur => HDur | WAny => HAny
    | WList None => HListN
    | WList (Some e) => HListS e (wty_ind' e)
    | WStruct fs => HStruct fs (gof fs)
    | WTuple l => HTuple l (go l)
    | WUnion l => HUnion l (go l)
    end.
End WtyInd.

Lemma struct_fields_roundtrip : forall fs,
  Forall (fun f => type_to_native (type_to_proto (snd f)) = Ok (snd f)) fs ->
  (fix go (fs : list (list Z * ptype)) : outcome (list (list Z * wty)) :=
     match fs with
     | [] => Ok []
     | f :: r => obind (type_to_native (snd f)) (fun t' => obind (go r) (fun r' => Ok ((fst f, t') :: r')))
     end) (map (fun f => (fst f, type_to_proto (snd f))) fs) = Ok fs.
Proof.
  intros fs H. induction H as [|[n t] l Hx Hl IH]; [reflexivity|].
  simpl in *. rewrite Hx. simpl. rewrite IH. reflexivity.
Qed.

Lemma type_roundtrip : forall t, type_to_native (type_to_proto t) = Ok t.
Proof.
  induction t using wty_ind'; try reflexivity.
  - simpl. rewrite IHt. reflexivity.
  - change (type_to_native (type_to_proto (WStruct fs))) with
      (obind ((fix go (fs : list (list Z * ptype)) : outcome (list (list Z * wty)) :=
                 match fs with
                 | [] => Ok []
                 | f :: r => obind (type_to_native (snd f)) (fun t' => obind (go r) (fun r' => Ok ((fst f, t') :: r')))
                 end) (map (fun f => (fst f, type_to_proto (snd f))) fs)) (fun fs => Ok (WStruct fs))).
    rewrite struct_fields_roundtrip by assumption. reflexivity.
  - change (type_to_native (type_to_proto (WTuple l))) with (obind (omap type_to_native (map type_to_proto l)) (fun es => Ok (WTuple es))).
    rewrite (omap_map type_to_native type_to_proto (fun x => x)) by assumption. rewrite map_id. reflexivity.
  - change (type_to_native (type_to_proto (WUnion l))) with (obind (omap type_to_native (map type_to_proto l)) (fun es => Ok (WUnion es))).
    rewrite (omap_map type_to_native type_to_proto (fun x => x)) by assumption. rewrite map_id. reflexivity.
Qed.

(* ------------------------------------------------------------------------------------------------ *)
(* schema, record, metadata, contexts *)
Lemma wrap32_id : forall z, in_int32 z -> wrap32 z = z.
Proof. intros z [H1 H2]. unfold wrap32, two31, two32 in *. rewrite Z.mod_small; lia. Qed.

Lemma field_roundtrip : forall f, field_to_native (field_to_proto f) = Ok f.
Proof. intros [n t]. unfold field_to_native, field_to_proto. simpl. rewrite type_roundtrip. reflexivity. Qed.

Lemma fields_roundtrip : forall fs, omap field_to_native (map field_to_proto fs) = Ok fs.
Proof.
  intro fs. rewrite (omap_map field_to_native field_to_proto (fun x => x)).
  - rewrite map_id. reflexivity.
  - apply Forall_forall. intros. apply field_roundtrip.
Qed.

Lemma schema_roundtrip : forall s, in_int32 (s_time_field s) -> schema_to_native (schema_to_proto s) = Ok s.
Proof.
  intros [fs tf nr] H. unfold schema_to_native, schema_to_proto. simpl in *.
  rewrite fields_roundtrip. simpl. rewrite wrap32_id by assumption. reflexivity.
Qed.

Lemma values_roundtrip : forall vs, forallb value_int_ok vs = true ->
  omap to_native (map to_proto vs) = Ok (map normalise vs).
Proof.
  intros vs H. apply omap_map. apply forallb_Forall in H.
  eapply Forall_impl; [|exact H]. intros. apply value_roundtrip. assumption.
Qed.

Lemma record_roundtrip : forall r, forallb value_int_ok (r_values r) = true ->
  record_to_native (record_to_proto r) = Ok (record_normalise r).
Proof.
  intros [vs re et loc] H. unfold record_to_native, record_to_proto, record_normalise.
  cbn [pr_values pr_retraction pr_event_time r_values r_retraction r_event_time r_event_loc] in *.
  rewrite values_roundtrip by assumption. cbn [obind]. rewrite ts_roundtrip. reflexivity.
Qed.

Lemma meta_roundtrip : forall m, in_int32 (m_type m) ->
  meta_to_native (meta_to_proto m) = mkwmeta (m_type m) (m_watermark m) loc_utc.
Proof.
  intros [ty w l] H. unfold meta_to_native, meta_to_proto.
  cbn [pm_type pm_watermark m_type m_watermark m_loc] in *.
  rewrite wrap32_id by assumption. rewrite ts_roundtrip. reflexivity.
Qed.

Lemma ctx_loop : forall {A B} (f : list A -> outcome (list B)) (l : list (list A)) (res : list (list B)) acc,
  Forall2 (fun a b => f a = Ok b) l res ->
  fold_left (fun acc fr => obind acc (fun out => obind (f fr) (fun fs => Ok (fs :: out)))) (rev l) (Ok acc) = Ok (res ++ acc).
Proof.
  intros A B f l res acc H. revert acc. induction H as [|a b l res Hab Hl IH]; intro acc; [reflexivity|].
  simpl. rewrite fold_left_app. rewrite IH. simpl. rewrite Hab. reflexivity.
Qed.

Lemma pctx_roundtrip : forall c, pctx_to_native (pctx_to_proto c) = Ok c.
Proof.
  intro c. unfold pctx_to_native, pctx_to_proto.
  rewrite (ctx_loop (omap field_to_native) (map (map field_to_proto) c) c []).
  - rewrite app_nil_r. reflexivity.
  - induction c; simpl; constructor; [apply fields_roundtrip|assumption].
Qed.

Lemma ectx_roundtrip : forall c, forallb (forallb value_int_ok) c = true ->
  ectx_to_native (ectx_to_proto c) = Ok (map (map normalise) c).
Proof.
  intros c H. unfold ectx_to_native, ectx_to_proto.
  rewrite (ctx_loop (omap to_native) (map (map to_proto) c) (map (map normalise) c) []).
  - rewrite app_nil_r. reflexivity.
  - induction c; simpl in *; constructor.
    + apply values_roundtrip. apply andb_true_iff in H. tauto.
    + apply IHc. apply andb_true_iff in H. tauto.
Qed.

(* ------------------------------------------------------------------------------------------------ *)
(* TypeFn guards *)
Definition cond_holds (c : tfcond) (ts : list wty) : Prop :=
  match c with
  | CLen n => Z.of_nat (length ts) = n
  | CTid i tid => exists t, nth_error ts i = Some t /\ wty_id t = tid
  | CEq i j => exists a b, nth_error ts i = Some a /\ nth_error ts j = Some b /\ wty_equals a b = true
  end.

Lemma tf_accepts_holds : forall cs ts, tf_accepts cs ts = Ok true -> forall c, In c cs -> cond_holds c ts.
Proof.
  induction cs as [|c0 cs IH]; intros ts H c Hin; [destruct Hin|].
  destruct Hin as [<-|Hin].
  - destruct c0; simpl in *.
    + destruct (Z.of_nat (length ts) =? n) eqn:E; [apply Z.eqb_eq in E; assumption|discriminate].
    + destruct (nth_error ts i) eqn:E; [|discriminate].
      destruct (wty_id w =? tid) eqn:E2; [|discriminate]. apply Z.eqb_eq in E2. eauto.
    + destruct (nth_error ts i) eqn:E; [|discriminate].
      destruct (nth_error ts j) eqn:E1; [|discriminate].
      destruct (wty_equals w w0) eqn:E2; [|discriminate]. eauto 6.
  - apply IH; [|assumption]. destruct c0; simpl in H.
    + destruct (Z.of_nat (length ts) =? n); [assumption|discriminate].
    + destruct (nth_error ts i); [|discriminate]. destruct (wty_id w =? tid); [assumption|discriminate].
    + destruct (nth_error ts i); [|discriminate]. destruct (nth_error ts j); [|discriminate].
      destruct (wty_equals w w0); [assumption|discriminate].
Qed.

Lemma incompatible_excludes : forall a b ts,
  conds_incompatible a b = true -> tf_accepts a ts = Ok true -> tf_accepts b ts = Ok true -> False.
Proof.
  intros a b ts Hinc Ha Hb. unfold conds_incompatible in Hinc.
  apply existsb_exists in Hinc. destruct Hinc as [x [Hx Hinc]].
  apply existsb_exists in Hinc. destruct Hinc as [y [Hy Hxy]].
  pose proof (tf_accepts_holds _ _ Ha _ Hx) as Cx. pose proof (tf_accepts_holds _ _ Hb _ Hy) as Cy.
  destruct x, y; try discriminate; simpl in *.
  - apply negb_true_iff, Z.eqb_neq in Hxy. congruence.
  - apply andb_true_iff in Hxy. destruct Hxy as [E1 E2]. apply Nat.eqb_eq in E1. subst.
    apply negb_true_iff, Z.eqb_neq in E2.
    destruct Cx as [t1 [N1 I1]]. destruct Cy as [t2 [N2 I2]]. congruence.
Qed.

Lemma safe_tail_total : forall n r ts, forallb (cond_idx_lt n) r = true -> Z.of_nat (length ts) = n ->
  exists b, tf_accepts r ts = Ok b.
Proof.
  induction r as [|c r IH]; intros ts Hs Hl; [exists true; reflexivity|].
  simpl in Hs. apply andb_true_iff in Hs. destruct Hs as [Hc Hr].
  destruct c; simpl in *.
  - destruct (Z.of_nat (length ts) =? n0); [apply IH; assumption|eauto].
  - apply Z.ltb_lt in Hc.
    destruct (nth_error ts i) eqn:E.
    + destruct (wty_id w =? tid); [apply IH; assumption|eauto].
    + apply nth_error_None in E. lia.
  - apply andb_true_iff in Hc. destruct Hc as [H1 H2]. apply Z.ltb_lt in H1. apply Z.ltb_lt in H2.
    destruct (nth_error ts i) eqn:E; [|apply nth_error_None in E; lia].
    destruct (nth_error ts j) eqn:E2; [|apply nth_error_None in E2; lia].
    destruct (wty_equals w w0); [apply IH; assumption|eauto].
Qed.

Lemma safe_total : forall cs ts, conds_safe cs = true -> exists b, tf_accepts cs ts = Ok b.
Proof.
  intros [|c r] ts H; [exists true; reflexivity|].
  destruct c; try discriminate. simpl in *.
  destruct (Z.of_nat (length ts) =? n) eqn:E; [|eauto].
  apply Z.eqb_eq in E. eapply safe_tail_total; eassumption.
Qed.

(* ------------------------------------------------------------------------------------------------ *)
(* resolution after transport *)
Definition pair_ok (k d : wdesc) : Prop :=
  sig_match k (strip d) = true ->
  exists ck cd, wd_typefn k = Some ck /\ wd_typefn d = Some cd /\ conds_incompatible ck cd = true.

Lemma desc_rows_ok_pairs : forall ds before, desc_rows_ok before ds = true ->
  forall i d, nth_error ds i = Some d ->
    (forall k, In k (before ++ firstn i ds) -> pair_ok k d) /\ sig_match d (strip d) = true.
Proof.
  induction ds as [|d0 ds IH]; intros before H i d Hn; [destruct i; discriminate|].
  simpl in H. repeat (apply andb_true_iff in H; destruct H as [H ?]).
  destruct i as [|i].
  - simpl in Hn. inversion Hn; subst d0. simpl. rewrite app_nil_r. split; [|assumption].
    intros k Hk Hm. eapply forallb_forall in H; [|exact Hk]. rewrite Hm in H.
    destruct (wd_typefn k), (wd_typefn d); try discriminate. eauto.
  - simpl in Hn. destruct (IH _ H0 i d Hn) as [A B]. split; [|assumption].
    intros k Hk. apply A. simpl in Hk. rewrite <- app_assoc. simpl. assumption.
Qed.

Lemma desc_rows_ok_safe : forall ds before, desc_rows_ok before ds = true -> forall k, In k ds -> desc_safe k = true.
Proof.
  induction ds as [|d0 ds IH]; intros before H k Hk; [destruct Hk|].
  simpl in H. repeat (apply andb_true_iff in H; destruct H as [H ?]).
  destruct Hk as [<-|Hk]; [assumption|]. eapply IH; eassumption.
Qed.

Lemma sig_match_strict : forall k sg, sig_match k sg = true -> wd_strict k = sg_strict sg.
Proof.
  intros k sg H. unfold sig_match in H. repeat (apply andb_true_iff in H; destruct H as [H ?]).
  apply eqb_prop. assumption.
Qed.

Lemma repop_find_hit : forall ds d ats i n,
  nth_error ds i = Some d ->
  (forall k, In k (firstn i ds) -> pair_ok k d) ->
  (forall k, In k ds -> desc_safe k = true) ->
  sig_match d (strip d) = true ->
  host_accepts d ats ->
  repop_find ds (strip d) ats n = Ok (Some (n + i)%nat).
Proof.
  induction ds as [|d0 ds IH]; intros d ats i n Hn Hp Hs Hm Ha; [destruct i; discriminate|].
  destruct i as [|i].
  - simpl in Hn. inversion Hn; subst d0. simpl. rewrite Hm.
    unfold host_accepts in Ha. destruct (wd_typefn d).
    + rewrite Ha. simpl. rewrite Nat.add_0_r. reflexivity.
    + rewrite Nat.add_0_r. reflexivity.
  - simpl in Hn. simpl.
    assert (Hrest : repop_find ds (strip d) ats (S n) = Ok (Some (n + S i)%nat)).
    { replace (n + S i)%nat with (S n + i)%nat by lia. apply IH; auto.
      - intros k Hk. apply Hp. simpl. right. assumption.
      - intros k Hk. apply Hs. right. assumption. }
    destruct (sig_match d0 (strip d)) eqn:E; [|assumption].
    destruct (Hp d0 (or_introl eq_refl) E) as [ck [cd [Hk [Hd Hinc]]]].
    rewrite Hk.
    assert (Hsafe : conds_safe ck = true).
    { specialize (Hs d0 (or_introl eq_refl)). unfold desc_safe in Hs. rewrite Hk in Hs. assumption. }
    pose proof (sig_match_strict _ _ E) as Hst. simpl in Hst. rewrite Hst.
    destruct (safe_total ck (eff_types (wd_strict d) ats) Hsafe) as [b Hb]. rewrite Hb. simpl.
    destruct b; [|assumption].
    exfalso. unfold host_accepts in Ha. rewrite Hd in Ha. eapply incompatible_excludes; eassumption.
Qed.

Lemma lookup_name_In : forall tbl n ds, lookup_name tbl n = Some ds -> exists n', In (n', ds) tbl.
Proof.
  induction tbl as [|[n0 ds0] tbl IH]; intros n ds H; [discriminate|].
  simpl in H. destruct (list_eqb Z.eqb n0 n).
  - inversion H; subst. exists n0. left. reflexivity.
  - destruct (IH _ _ H) as [n' Hn']. exists n'. right. assumption.
Qed.

Theorem repopulate_finds_same : forall tbl, table_ok tbl = true ->
  forall name ds i d ats,
    lookup_name tbl name = Some ds -> nth_error ds i = Some d -> host_accepts d ats ->
    repopulate tbl name (strip d) ats = Ok (Some i, true).
Proof.
  intros tbl Hok name ds i d ats Hl Hn Ha.
  unfold table_ok in Hok. apply andb_true_iff in Hok. destruct Hok as [Hok _].
  destruct (lookup_name_In _ _ _ Hl) as [n' Hin].
  eapply forallb_forall in Hok; [|exact Hin]. simpl in Hok.
  destruct (desc_rows_ok_pairs _ _ Hok i d Hn) as [Hp Hm]. simpl in Hp.
  unfold repopulate. rewrite Hl.
  rewrite (repop_find_hit ds d ats i 0 Hn Hp (desc_rows_ok_safe _ _ Hok) Hm Ha). reflexivity.
Qed.

(* an unknown signature is rejected (outOk = false) and an unknown name as well *)
Lemma repop_find_none : forall ds recv ats n,
  (forall d, In d ds -> sig_match d recv = false) -> repop_find ds recv ats n = Ok None.
Proof.
  induction ds as [|d ds IH]; intros recv ats n H; [reflexivity|].
  simpl. rewrite (H d (or_introl eq_refl)). apply IH. intros. apply H. right. assumption.
Qed.

Theorem repopulate_rejects_unknown : forall tbl name recv ats,
  (forall ds, lookup_name tbl name = Some ds -> forall d, In d ds -> sig_match d recv = false) ->
  repopulate tbl name recv ats = Ok (None, false).
Proof.
  intros tbl name recv ats H. unfold repopulate. destruct (lookup_name tbl name) as [ds|]; [|reflexivity].
  rewrite repop_find_none; [reflexivity|]. apply H. reflexivity.
Qed.

(* a descriptor is only ever installed when outOk stays true, and it passes the four checks *)
Lemma repop_find_sound : forall ds recv ats n i, repop_find ds recv ats n = Ok (Some i) ->
  exists d, nth_error ds (i - n) = Some d /\ (n <= i)%nat /\ sig_match d recv = true /\ host_accepts d ats.
Proof.
  induction ds as [|d ds IH]; intros recv ats n i H; [discriminate|].
  simpl in H.
  assert (Hrec : repop_find ds recv ats (S n) = Ok (Some i) ->
                 exists d0, nth_error (d :: ds) (i - n) = Some d0 /\ (n <= i)%nat /\ sig_match d0 recv = true /\ host_accepts d0 ats).
  { intro Hr. destruct (IH _ _ _ _ Hr) as [d0 [A [B [C D]]]]. exists d0.
    replace (i - n)%nat with (S (i - S n))%nat by lia. simpl. repeat split; auto; lia. }
  destruct (sig_match d recv) eqn:E; [|auto].
  unfold host_accepts. destruct (wd_typefn d) as [cs|] eqn:Et.
  - destruct (tf_accepts cs (eff_types (wd_strict d) ats)) as [b| |] eqn:Eb; try discriminate. simpl in H.
    destruct b; [|auto]. inversion H; subst. exists d. rewrite Nat.sub_diag. simpl.
    repeat split; auto. unfold host_accepts. rewrite Et. assumption.
  - inversion H; subst. exists d. rewrite Nat.sub_diag. simpl. repeat split; auto.
    unfold host_accepts. rewrite Et. exact I.
Qed.

(* ------------------------------------------------------------------------------------------------ *)
(* expressions *)
Section WexprInd.
  Variable P : wexpr -> Prop.
  Hypothesis HVar : forall t n l, P (XVar t n l).
  Hypothesis HConst : forall t v, P (XConst t v).
  Hypothesis HCall : forall t n sg fn args, Forall P args -> P (XCall t n sg fn args).
  Hypothesis HAnd : forall t args, Forall P args -> P (XAnd t args).
  Hypothesis HOr : forall t args, Forall P args -> P (XOr t args).
  Hypothesis HCoalesce : forall t args, Forall P args -> P (XCoalesce t args).
  Hypothesis HTuple : forall t args, Forall P args -> P (XTuple t args).
  Hypothesis HAssert : forall t e tg, P e -> P (XAssert t e tg).
  Hypothesis HCast : forall t e tid, P e -> P (XCast t e tid).
  Hypothesis HField : forall t e f, P e -> P (XField t e f).

  Fixpoint wexpr_ind' (e : wexpr) : P e :=
    let go := fix go (l : list wexpr) : Forall P l :=
      match l with
      | [] => Forall_nil P
      | x :: xs => Forall_cons x (wexpr_ind' x) (go xs)
      end in
    match e with
    | XVar t n l => HVar t n l
    | XConst t v => HConst t v
    | XCall t n sg fn args => HCall t n sg fn args (go args)
    | XAnd t args => HAnd t args (go args)
    | XOr t args => HOr t args (go args)
    | XCoalesce t args => HCoalesce t args (go args)
    | XTuple t args => HTuple t args (go args)
    | XAssert t e' tg => HAssert t e' tg (wexpr_ind' e')
    | XCast t e' tid => HCast t e' tid (wexpr_ind' e')
    | XField t e' f => HField t e' f (wexpr_ind' e')
    end.
End WexprInd.

Lemma repop_many_ok : forall (f : wexpr -> outcome (wexpr * bool)) (g : wexpr -> wexpr) l,
  Forall (fun x => f (g x) = Ok (x, true)) l -> repop_many f (map g l) = Ok (l, true).
Proof.
  intros f g l H. induction H as [|x l Hx Hl IH]; [reflexivity|].
  change (repop_many f (map g (x :: l))) with
    (obind (f (g x)) (fun xb => obind (repop_many f (map g l)) (fun lb => Ok (fst xb :: fst lb, snd xb && snd lb)))).
  rewrite Hx, IH. reflexivity.
Qed.

Theorem repop_expr_roundtrip : forall tbl, table_ok tbl = true ->
  forall e, well_resolved tbl e -> repop_expr tbl (strip_expr e) = Ok (e, true).
Proof.
  intros tbl Hok. unfold repop_expr.
  assert (Hmany : forall args,
    Forall (fun e => well_resolved tbl e -> repop_expr_gen (repopulate tbl) (strip_expr e) = Ok (e, true)) args ->
    Forall (well_resolved tbl) args ->
    repop_many (repop_expr_gen (repopulate tbl)) (map strip_expr args) = Ok (args, true)).
  { intros args H1 H2. apply repop_many_ok. eapply Forall_impl2; [|exact H1|exact H2]. simpl. auto. }
  induction e using wexpr_ind'; intro Hwr; inversion Hwr; subst; try reflexivity.
  - (* call *)
    match goal with
    | Hl : lookup_name tbl _ = Some ?ds, Hn : nth_error ?ds ?i = Some ?d, Ha : host_accepts ?d _,
      Hf : Forall (well_resolved tbl) args |- _ =>
      cbn [strip_expr repop_expr_gen]; rewrite (Hmany args H Hf); cbn [obind fst snd];
      rewrite (repopulate_finds_same tbl Hok _ _ _ _ _ Hl Hn Ha); reflexivity
    end.
  - cbn [strip_expr repop_expr_gen]. rewrite Hmany by assumption. reflexivity.
  - cbn [strip_expr repop_expr_gen]. rewrite Hmany by assumption. reflexivity.
  - cbn [strip_expr repop_expr_gen]. rewrite Hmany by assumption. reflexivity.
  - cbn [strip_expr repop_expr_gen]. rewrite Hmany by assumption. reflexivity.
  - cbn [strip_expr repop_expr_gen]. rewrite IHe by assumption. reflexivity.
  - cbn [strip_expr repop_expr_gen]. rewrite IHe by assumption. reflexivity.
  - cbn [strip_expr repop_expr_gen]. rewrite IHe by assumption. reflexivity.
Qed.
