(* Proofs/LimitOracleProofs.v — the executable oracles of C05 decide the Props the theorems are stated with. *)
From Coq Require Import Sorted.
From Octo Require Import Operators LimitOrder CompareLaws ChangelogLemmas OperatorsProofs LimitOrderProofs.

Lemma count_rows_cons a l x : count_rows (a :: l) x = (if row_eqb a x then 1 else 0) + count_rows l x.
Proof. unfold count_rows. cbn [map consolidate]. change (sign (ins a)) with 1. reflexivity. Qed.

Lemma count_rows_cong l a b : row_eqb a b = true -> count_rows l a = count_rows l b.
Proof. intro H. unfold count_rows. apply consolidate_cong. exact H. Qed.

Lemma count_pos_in l x : 0 < count_rows l x <-> exists y, In y l /\ row_eqb y x = true.
Proof.
  induction l as [|a l IH]; [unfold count_rows; simpl; split; [lia | intros [y [[] _]]]|].
  rewrite count_rows_cons. pose proof (count_rows_nonneg l x). split.
  - intro H0. destruct (row_eqb a x) eqn:E; [exists a; split; [left; reflexivity | exact E]|].
    destruct (proj1 IH ltac:(lia)) as [y [I Ey]]. exists y. split; [right; exact I | exact Ey].
  - intros [y [[<-|I] Ey]]; [rewrite Ey; lia|]. assert (0 < count_rows l x) by (apply IH; eauto). destruct (row_eqb a x); lia.
Qed.

Lemma sub_bagb_complete out rows : sub_bag out rows -> sub_bagb out rows = true.
Proof. intro H. unfold sub_bagb. apply forallb_forall. intros x _. apply Z.leb_le. apply H. Qed.

Theorem is_limit_ofb_iff n rows out : is_limit_ofb n rows out = true <-> is_limit_of n rows out.
Proof.
  split; [apply is_limit_ofb_sound|]. intros [S L]. unfold is_limit_ofb. rewrite (sub_bagb_complete _ _ S). apply Z.eqb_eq. exact L.
Qed.

(* removing one copy *)
Lemma count_remove_one y : forall l x,
  count_rows (remove_one y l) x = count_rows l x - (if (0 <? count_rows l y) && row_eqb y x then 1 else 0).
Proof.
  induction l as [|a l IH]; intro x; [unfold count_rows; simpl; lia|].
  cbn [remove_one]. rewrite !count_rows_cons. pose proof (count_rows_nonneg l y) as Ny.
  destruct (row_eqb a y) eqn:Eay.
  - destruct (Z.ltb_spec 0 (1 + count_rows l y)); [|lia]. cbn [andb].
    rewrite (row_eqb_cong a y x Eay). destruct (row_eqb y x); lia.
  - rewrite count_rows_cons, IH. cbv iota. rewrite (Z.add_0_l (count_rows l y)).
    destruct ((0 <? count_rows l y) && row_eqb y x); lia.
Qed.

Lemma count_bag_minus : forall out rows x, sub_bag out rows ->
  count_rows (bag_minus rows out) x = count_rows rows x - count_rows out x.
Proof.
  unfold bag_minus. induction out as [|o out IH]; intros rows x S; [cbn [fold_left]; change (count_rows [] x) with 0; lia|].
  cbn [fold_left]. rewrite IH.
  - rewrite count_remove_one, count_rows_cons.
    assert (0 < count_rows rows o).
    { specialize (S o). rewrite count_rows_cons, row_eqb_refl in S. pose proof (count_rows_nonneg out o). lia. }
    destruct (Z.ltb_spec 0 (count_rows rows o)); [|lia]. cbn [andb]. destruct (row_eqb o x); lia.
  - intro y. rewrite count_remove_one. specialize (S y). rewrite count_rows_cons in S.
    destruct ((0 <? count_rows rows o) && row_eqb o y) eqn:B.
    + apply andb_true_iff in B. destruct B as [_ E]. rewrite E in S. lia.
    + destruct (row_eqb o y) eqn:E; [|lia].
      (* o ~ y but count rows o = 0: then count out y <= count rows y - 1 anyway *)
      rewrite andb_true_r in B. apply Z.ltb_ge in B. pose proof (count_rows_nonneg rows o).
      rewrite (count_rows_cong rows o y E) in B. pose proof (count_rows_nonneg out y). lia.
Qed.

Lemma key_le_cong_r ks a b b' : key_congruent ks -> row_eqb b b' = true -> key_le ks a b = key_le ks a b'.
Proof.
  intros Hk E. unfold key_le.
  pose proof (lex_laws dcmp (okey ks a) ltac:(apply Forall_forall; intros; apply dcmp_laws)) as La.
  rewrite (cl_congr _ _ La (okey ks b) (okey ks b') (okey_cong ks b b' Hk E)). reflexivity.
Qed.

(* the whole oracle: soundness needs nothing, completeness needs key expressions that respect row equality *)
Theorem is_top_nb_sound ks n rows out : is_top_nb ks n rows out = true -> is_top_n ks n rows out.
Proof.
  unfold is_top_nb. rewrite !andb_true_iff. intros [[Lm So] Bd]. apply is_limit_ofb_sound in Lm.
  split; [exact Lm|]. split; [exact So|]. exists (bag_minus rows out). split.
  - intro x. rewrite (count_bag_minus out rows x (proj1 Lm)). lia.
  - unfold boundary_ok in Bd. rewrite forallb_forall in Bd. intros a b Ia Ib.
    specialize (Bd a Ia). rewrite forallb_forall in Bd. apply (Bd b Ib).
Qed.

Theorem is_top_nb_complete ks n rows out : key_congruent ks -> is_top_n ks n rows out -> is_top_nb ks n rows out = true.
Proof.
  intros Hk [Lm [So [rest [Cnt Bd]]]]. unfold is_top_nb. rewrite (proj2 (is_limit_ofb_iff n rows out) Lm), So. cbn [andb].
  unfold boundary_ok. apply forallb_forall. intros a Ia. apply forallb_forall. intros b Ib.
  assert (P : 0 < count_rows rest b).
  { pose proof (count_bag_minus out rows b (proj1 Lm)) as E. specialize (Cnt b).
    assert (0 < count_rows (bag_minus rows out) b) by (apply count_pos_in; exists b; split; [exact Ib | apply row_eqb_refl]). lia. }
  apply count_pos_in in P. destruct P as [b' [Ib' E]].
  rewrite <- (key_le_cong_r ks a b' b Hk E). apply (Bd a b' Ia Ib').
Qed.

Theorem is_top_nb_iff ks n rows out : key_congruent ks -> (is_top_nb ks n rows out = true <-> is_top_n ks n rows out).
Proof. intro Hk. split; [apply is_top_nb_sound | apply (is_top_nb_complete ks n rows out Hk)]. Qed.


(* the oracle used for a nested ORDER BY ... LIMIT shown as a table: a top-n as a set (no order of printing) *)
Definition is_top_n_set (ks : okeys) (n : Z) (rows out : list row) : Prop :=
  is_limit_of n rows out /\
  exists rest, (forall x, count_rows out x + count_rows rest x = count_rows rows x) /\
               forall a b, In a out -> In b rest -> key_le ks a b = true.

Theorem is_top_n_setb_sound ks n rows out : is_top_n_setb ks n rows out = true -> is_top_n_set ks n rows out.
Proof.
  unfold is_top_n_setb. rewrite andb_true_iff. intros [Lm Bd]. apply is_limit_ofb_sound in Lm.
  split; [exact Lm|]. exists (bag_minus rows out). split.
  - intro x. rewrite (count_bag_minus out rows x (proj1 Lm)). lia.
  - unfold boundary_ok in Bd. rewrite forallb_forall in Bd. intros a b Ia Ib.
    specialize (Bd a Ia). rewrite forallb_forall in Bd. apply (Bd b Ib).
Qed.

Theorem is_top_n_setb_iff ks n rows out : key_congruent ks ->
  (is_top_n_setb ks n rows out = true <-> is_top_n_set ks n rows out).
Proof.
  intro Hk. split; [apply is_top_n_setb_sound|]. intros [Lm [rest [Cnt Bd]]].
  unfold is_top_n_setb. rewrite (proj2 (is_limit_ofb_iff n rows out) Lm). cbn [andb].
  unfold boundary_ok. apply forallb_forall. intros a Ia. apply forallb_forall. intros b Ib.
  assert (P : 0 < count_rows rest b).
  { pose proof (count_bag_minus out rows b (proj1 Lm)) as E. specialize (Cnt b).
    assert (0 < count_rows (bag_minus rows out) b) by (apply count_pos_in; exists b; split; [exact Ib | apply row_eqb_refl]). lia. }
  apply count_pos_in in P. destruct P as [b' [Ib' E]].
  rewrite <- (key_le_cong_r ks a b' b Hk E). apply (Bd a b' Ia Ib').
Qed.

(* a top-n in printing order is in particular a top-n as a set; same bag, same verdict *)
Lemma is_top_n_is_set ks n rows out : is_top_n ks n rows out -> is_top_n_set ks n rows out.
Proof. intros [Lm [_ R]]. split; assumption. Qed.

Lemma key_le_cong_l ks a a' b : key_congruent ks -> row_eqb a a' = true -> key_le ks a b = key_le ks a' b.
Proof.
  intros Hk E. unfold key_le.
  pose proof (lex_laws dcmp (okey ks a) ltac:(apply Forall_forall; intros; apply dcmp_laws)) as La.
  rewrite (cl_congl _ _ La (okey ks a') (okey ks b) (okey_cong ks a a' Hk E)). reflexivity.
Qed.

Lemma is_top_n_set_same_bag ks n rows out out' : key_congruent ks ->
  (forall x, count_rows out x = count_rows out' x) -> is_top_n_set ks n rows out -> is_top_n_set ks n rows out'.
Proof.
  intros Hk Same [Lm [rest [Cnt Bd]]]. split; [apply (is_limit_of_out_same_bag n rows out out' Same Lm)|].
  exists rest. split; [intro x; rewrite <- Same; apply Cnt|].
  intros a b Ia Ib.
  assert (P : 0 < count_rows out a) by (rewrite Same; apply count_pos_in; exists a; split; [exact Ia | apply row_eqb_refl]).
  apply count_pos_in in P. destruct P as [a' [Ia' E]].
  rewrite <- (key_le_cong_l ks a' a b Hk E). apply (Bd a' b Ia' Ib).
Qed.
