(* Proofs/ConcurrencyProofs.v — invariants, progress and termination of the LTSs of Model/Concurrency.v. *)
From Octo Require Import Base Concurrency.
From Coq Require Import Wf_nat Arith.
Open Scope nat_scope.

(* ------------------------------------------------------------------------------------------------ *)
(* lists of jobs                                                                                    *)
(* ------------------------------------------------------------------------------------------------ *)

Lemma lines_app : forall a b, lines (a ++ b) = lines a + lines b.
Proof. intros. unfold lines. rewrite map_app, list_sum_app. reflexivity. Qed.

Lemma lines_cons : forall j l, lines (j :: l) = jsize j + lines l.
Proof. reflexivity. Qed.

Lemma lines_nil : lines [] = 0.
Proof. reflexivity. Qed.

Lemma take_job_some : forall id l j r, take_job id l = Some (j, r) ->
  length l = S (length r) /\ lines l = jsize j + lines r /\ jstart j = id.
Proof.
  induction l as [|x l IH]; simpl; intros j r H; [discriminate|].
  destruct (jstart x =? id) eqn:E.
  - inversion H; subst. apply Nat.eqb_eq in E. rewrite lines_cons. auto.
  - destruct (take_job id l) as [[y r']|] eqn:T; [|discriminate]. inversion H; subst.
    destruct (IH _ _ eq_refl) as (A & B & C). simpl. rewrite !lines_cons, A, B. repeat split; lia.
Qed.

Lemma take_job_in : forall id l, In id (map jstart l) -> exists j r, take_job id l = Some (j, r).
Proof.
  induction l as [|x l IH]; simpl; intros H; [contradiction|].
  destruct (jstart x =? id) eqn:E; [eauto|].
  destruct H as [H|H]; [apply Nat.eqb_neq in E; contradiction|].
  destruct (IH H) as (j & r & T). rewrite T. eauto.
Qed.

Lemma take_job_defined_in : forall id l j r, take_job id l = Some (j, r) -> In id (map jstart l).
Proof.
  induction l as [|x l IH]; simpl; intros j r H; [discriminate|].
  destruct (jstart x =? id) eqn:E; [apply Nat.eqb_eq in E; auto|].
  destruct (take_job id l) as [[y r']|] eqn:T; [|discriminate]. right. eapply IH. reflexivity.
Qed.

Lemma job_err_lt : forall bad j e, job_err bad j = Some e -> e < jsize j.
Proof.
  induction bad as [|l bad IH]; simpl; intros j e H; [discriminate|].
  destruct ((jstart j <=? l) && (l <? jstart j + jsize j)) eqn:E.
  - apply andb_true_iff in E. destruct E as [A B]. apply Nat.leb_le in A. apply Nat.ltb_lt in B.
    destruct (job_err bad j) as [e0|] eqn:F; inversion H; subst.
    + specialize (IH _ _ F). lia.
    + lia.
  - eauto.
Qed.

(* ------------------------------------------------------------------------------------------------ *)
(* JSON: reachability                                                                               *)
(* ------------------------------------------------------------------------------------------------ *)

Inductive jreach (p : jparams) : jstate -> Prop :=
| jreach_init : jreach p (jinit p)
| jreach_step : forall s l s', jreach p s -> jstep p s l = Some s' -> jreach p s'.

Lemma jrun_reach : forall p tr s s', jreach p s -> jrun p s tr = Some s' -> jreach p s'.
Proof.
  induction tr as [|l tr IH]; simpl; intros s s' R H.
  - inversion H; subst; auto.
  - destruct (jstep p s l) eqn:E; [|discriminate]. eapply IH; [eapply jreach_step; eauto|auto].
Qed.

Lemma jrun_snoc : forall p tr s0 s l s', jrun p s0 tr = Some s -> jstep p s l = Some s' -> jrun p s0 (tr ++ [l]) = Some s'.
Proof.
  induction tr as [|x tr IH]; simpl; intros s0 s l s' H E.
  - inversion H; subst. rewrite E. reflexivity.
  - destruct (jstep p s0 x); [eauto|discriminate].
Qed.

Lemma jreach_run : forall p s, jreach p s -> exists tr, jrun p (jinit p) tr = Some s.
Proof.
  intros p s R. induction R as [|s l s' R IH E].
  - exists []. reflexivity.
  - destruct IH as [tr H]. exists (tr ++ [l]). eapply jrun_snoc; eauto.
Qed.

(* enabled = the labels on which step is defined *)
Lemma jenabled_iff : forall p s l, In l (jenabled p s) <-> exists s', jstep p s l = Some s'.
Proof.
  intros p s l. unfold jenabled. rewrite filter_In. unfold jdefined. split.
  - intros [_ H]. destruct (jstep p s l); [eauto|discriminate].
  - intros [s' H]. rewrite H. split; [|reflexivity].
    unfold jcandidates. apply in_or_app.
    destruct l; try (left; simpl; tauto); right; unfold jstep in H.
    + destruct (take_job id (q_jobs (j_q s))) as [[j r]|] eqn:T; try discriminate.
      apply take_job_defined_in in T. do 2 (apply in_or_app; right). apply in_or_app; left. apply in_map; exact T.
    + destruct (take_job id (q_busy (j_q s))) as [[j r]|] eqn:T; try discriminate.
      apply take_job_defined_in in T. apply in_or_app; left. apply in_map; exact T.
    + destruct (take_job id (q_busy (j_q s))) as [[j r]|] eqn:T; try discriminate.
      apply take_job_defined_in in T. apply in_or_app; right. apply in_or_app; left. apply in_map; exact T.
    + destruct (take_job id (q_out (j_q s))) as [[j r]|] eqn:T; try (destruct (c_pc (j_c s)); discriminate).
      apply take_job_defined_in in T. do 3 (apply in_or_app; right). apply in_map; exact T.
Qed.

(* ------------------------------------------------------------------------------------------------ *)
(* JSON: termination measure (no invariant needed: every step of every state decreases it)          *)
(* ------------------------------------------------------------------------------------------------ *)

Definition wr (r : rpc) : nat :=
  match r with RScan => 11 | RSelect false => 19 | RSelect true => 10 | REnq false => 18 | REnq true => 9
             | RSendDone => 2 | RExit => 0 end.
Definition wc (c : cpc) : nat := match c with CSel => 1 | CTok j => 3 + jsize j | CProc _ => 2 | CRet => 0 end.

Definition jmeasure (s : jstate) : nat :=
  10 * r_left (j_r s) + r_cur (j_r s) + wr (r_pc (j_r s))
  + (6 * length (q_jobs (j_q s)) + lines (q_jobs (j_q s)))
  + (5 * length (q_busy (j_q s)) + lines (q_busy (j_q s)))
  + (4 * length (q_out (j_q s)) + lines (q_out (j_q s)))
  + (match q_done (j_q s) with Some _ => 1 | None => 0 end)
  + wc (c_pc (j_c s)) + c_unprod (j_c s) + (if c_ext (j_c s) then 0 else 1) + (if r_err (j_r s) then 0 else 10).

Ltac destr_match H :=
  match type of H with
  | context [match ?x with _ => _ end] => destruct x eqn:?
  | context [if ?x then _ else _] => destruct x eqn:?
  end.

Ltac step_cases H :=
  unfold jstep in H; simpl in H;
  repeat (first [discriminate H | destr_match H; simpl in H]);
  try discriminate H; inversion H; subst; clear H.

Lemma jstep_measure : forall p s l s', jstep p s l = Some s' -> jmeasure s' < jmeasure s.
Proof.
  intros p [[lf cu rp lr re] [tk jb bs ou dn] [cp ds rc up pl ex]] l s' H.
  destruct l; step_cases H; unfold jmeasure; simpl;
    repeat rewrite ?app_length, ?lines_app, ?lines_cons, ?lines_nil; simpl;
    try match goal with T : take_job _ _ = Some _ |- _ => apply take_job_some in T; destruct T as (? & ? & ?) end;
    try match goal with T : job_err _ _ = Some _ |- _ => apply job_err_lt in T end;
    repeat match goal with |- context [if ?b then _ else _] => destruct b end;
    unfold lines in *; simpl in *; try lia.
Qed.

Definition jnext (p : jparams) (s' s : jstate) : Prop := exists l, jstep p s l = Some s'.

Lemma json_wf : forall p, well_founded (jnext p).
Proof.
  intros p. apply well_founded_lt_compat with (f := jmeasure).
  intros x y [l H]. eapply jstep_measure; eauto.
Qed.

Lemma jrun_bound : forall p tr s s', jrun p s tr = Some s' -> length tr + jmeasure s' <= jmeasure s.
Proof.
  induction tr as [|l tr IH]; simpl; intros s s' H.
  - inversion H; subst. lia.
  - destruct (jstep p s l) as [s1|] eqn:E; [|discriminate].
    apply jstep_measure in E. specialize (IH _ _ H). lia.
Qed.

Lemma jmeasure_init : forall p, jmeasure (jinit p) = 10 * jp_n p + 23.
Proof. intros. unfold jmeasure, jinit, lines. simpl. lia. Qed.

(* ------------------------------------------------------------------------------------------------ *)
(* JSON: the inductive invariant                                                                    *)
(* ------------------------------------------------------------------------------------------------ *)

Definition held (c : cpc) : nat := match c with CTok j => jsize j | _ => 0 end.
Definition proc_err (c : cpc) : bool := match c with CProc true => true | _ => false end.
Definition is_rexit (r : rpc) : bool := match r with RExit => true | _ => false end.

Record Inv (p : jparams) (s : jstate) : Prop := mkInv {
  (* every result that can still reach outChan is covered by a token, and tokens fit in outChan *)
  inv_tok : outstanding s <= q_tokens (j_q s);
  inv_cap : q_tokens (j_q s) <= jp_ct p;
  (* until cancellation no token is lost *)
  inv_eq : jcancelled s = false -> outstanding s = q_tokens (j_q s);
  inv_busy : length (q_busy (j_q s)) <= jp_w p;
  (* linesRead = lines received + lines in flight, until cancellation *)
  inv_lines : jcancelled s = false -> proc_err (c_pc (j_c s)) = false ->
              r_lread (j_r s) = c_recvl (j_c s) + lines (q_jobs (j_q s)) + lines (q_busy (j_q s))
                                + lines (q_out (j_q s)) + held (c_pc (j_c s));
  (* the done channel is written once, by the exiting reader *)
  inv_done1 : is_rexit (r_pc (j_r s)) = false -> q_done (j_q s) = None /\ c_dseen (j_c s) = false;
  inv_done2 : is_rexit (r_pc (j_r s)) = true -> jcancelled s = false -> q_done (j_q s) <> None \/ c_dseen (j_c s) = true;
  (* a consumer back at the select after `done` still misses lines *)
  inv_sel : c_pc (j_c s) = CSel -> c_dseen (j_c s) = true -> c_recvl (j_c s) <> r_lread (j_r s);
  (* the scanner only fails on a closed file after Run has returned *)
  inv_rerr : r_err (j_r s) = true -> c_pc (j_c s) = CRet
}.

Lemma inv_init : forall p, Inv p (jinit p).
Proof.
  intros p. constructor; unfold jinit, outstanding, jcancelled; simpl; try lia; auto; try discriminate.
Qed.

Ltac inv_goal :=
  constructor; unfold outstanding, jcancelled, exit_test in *; simpl in *;
  repeat rewrite ?app_length, ?lines_app, ?lines_cons, ?lines_nil in *; simpl in *;
  try match goal with T : take_job _ _ = Some _ |- _ => apply take_job_some in T; destruct T as (? & ? & ?) end;
  intros;
  repeat match goal with
         | H : _ && _ = true |- _ => apply andb_true_iff in H; destruct H
         | H : _ || _ = false |- _ => apply orb_false_iff in H; destruct H
         | H : (_ =? _) = true |- _ => apply Nat.eqb_eq in H
         | H : (_ =? _) = false |- _ => apply Nat.eqb_neq in H
         | H : (_ <? _) = true |- _ => apply Nat.ltb_lt in H
         | H : (_ <? _) = false |- _ => apply Nat.ltb_ge in H
         end.

Lemma inv_step : forall p s l s', Inv p s -> jstep p s l = Some s' -> Inv p s'.
Proof.
  intros p [[lf cu rp lr re] [tk jb bs ou dn] [cp ds rc up pl ex]] l s' [I1 I2 I3 I4 I5 I6 I7 I8 I9] H.
  unfold outstanding, jcancelled in *; simpl in *.
  destruct l; step_cases H; inv_goal;
    try solve [ lia | congruence | discriminate | tauto
              | destruct ex; simpl in *; try discriminate; lia
              | destruct ex; simpl in *; try discriminate; intuition (try lia; try congruence)
              | intuition (try lia; try congruence; try discriminate)
              | subst; simpl in *; unfold lines in *; simpl in *;
                repeat match goal with
                       | H : _ && _ = false |- _ => apply andb_false_iff in H; destruct H
                       | H : (_ =? _) = false |- _ => apply Nat.eqb_neq in H
                       end; intuition (try lia; try congruence; try discriminate) ].
Qed.

Lemma inv_reach : forall p s, jreach p s -> Inv p s.
Proof. intros p s R. induction R; [apply inv_init|eapply inv_step; eauto]. Qed.

(* ------------------------------------------------------------------------------------------------ *)
(* JSON: the theorems                                                                               *)
(* ------------------------------------------------------------------------------------------------ *)

(* a worker that holds a result can always send it: outChan has room, whatever the consumer does *)
Lemma json_workers_never_block : forall p s, jvalid p -> jreach p s ->
  forall j, In j (q_busy (j_q s)) ->
  length (q_out (j_q s)) < jp_co p /\ exists s', jstep p s (JSend (jstart j)) = Some s'.
Proof.
  intros p s V R j Hin. pose proof (inv_reach _ _ R) as I. destruct I as [I1 I2 _ _ _ _ _ _ _].
  destruct V as (_ & _ & _ & _ & Vco).
  assert (L : length (q_out (j_q s)) < jp_co p).
  { unfold outstanding in I1. destruct (q_busy (j_q s)); [contradiction|]. simpl in I1. lia. }
  split; [exact L|].
  destruct (take_job_in (jstart j) (q_busy (j_q s))) as (x & r & T); [apply in_map; exact Hin|].
  unfold jstep. rewrite T. apply Nat.ltb_lt in L. rewrite L. eauto.
Qed.

(* the pool never waits for a consumer: while a job is queued or held, some worker step is enabled *)
Lemma json_pool_live : forall p s, jvalid p -> jreach p s ->
  (q_jobs (j_q s) <> [] \/ q_busy (j_q s) <> []) ->
  exists l s', is_worker_label l = true /\ jstep p s l = Some s'.
Proof.
  intros p s V R H. pose proof (inv_reach _ _ R) as I.
  destruct (q_busy (j_q s)) as [|j bs] eqn:B.
  - destruct H as [H|H]; [|congruence]. destruct (q_jobs (j_q s)) as [|x js] eqn:J; [congruence|].
    exists (JTake (jstart x)). unfold jstep. rewrite J, B. simpl. rewrite Nat.eqb_refl. destruct V as (Vw & _).
    assert (E : 0 <? jp_w p = true) by (apply Nat.ltb_lt; lia). rewrite E. eauto.
  - destruct (json_workers_never_block p s V R j) as (_ & s' & S); [rewrite B; left; reflexivity|].
    exists (JSend (jstart j)), s'. split; [reflexivity|exact S].
Qed.

Definition reader_label (l : jlabel) : bool :=
  match l with JScan | JScanTrunc | JEof | JEofClosed | JTok | JRCancel | JEnq | JDone => true | _ => false end.

(* the reader goroutine: it can only wait for a token, and then only while Run has not been cancelled *)
Lemma json_reader_live : forall p s, jvalid p -> jreach p s ->
  q_jobs (j_q s) = [] -> is_rexit (r_pc (j_r s)) = false ->
  (forall f, r_pc (j_r s) = RSelect f -> q_tokens (j_q s) < jp_ct p \/ jcancelled s = true) ->
  exists l s', reader_label l = true /\ jstep p s l = Some s'.
Proof.
  intros p [[lf cu rp lr re] [tk jb bs ou dn] [cp ds rc up pl ex]] V R J X T. simpl in *. subst jb.
  pose proof (inv_reach _ _ R) as I. destruct I as [_ _ _ _ _ I6 _ _ I9]. simpl in I6, I9.
  destruct V as (_ & _ & Vcj & _).
  destruct rp; try discriminate.
  - destruct re; [rewrite (I9 eq_refl); exists JEofClosed; unfold jstep; simpl; eauto|].
    destruct lf; [exists JEof|exists JScan]; unfold jstep; simpl; eauto.
  - destruct (T fin eq_refl) as [A|A].
    + exists JTok. unfold jstep; simpl. apply Nat.ltb_lt in A. rewrite A. eauto.
    + exists JRCancel. unfold jstep; simpl. unfold jcancelled in *. simpl in *. rewrite A. eauto.
  - exists JEnq. unfold jstep; simpl. assert (E : 0 <? jp_cj p = true) by (apply Nat.ltb_lt; lia). rewrite E. eauto.
  - exists JDone. unfold jstep; simpl. destruct (I6 eq_refl) as [D _]. subst dn. eauto.
Qed.

(* no deadlock: every reachable state that is not final has an enabled step that is not the environment's *)
Lemma json_progress : forall p s, jvalid p -> jreach p s -> jfinalb s = false ->
  exists l s', is_env_label l = false /\ jstep p s l = Some s'.
Proof.
  intros p s V R F. pose proof (inv_reach _ _ R) as I.
  destruct (q_jobs (j_q s)) as [|x js] eqn:J; [destruct (q_busy (j_q s)) as [|y bs] eqn:B|].
  2:{ destruct (json_pool_live p s V R) as (l & s' & W & S); [right; congruence|].
      exists l, s'. split; [destruct l; simpl in *; congruence|exact S]. }
  2:{ destruct (json_pool_live p s V R) as (l & s' & W & S); [left; congruence|].
      exists l, s'. split; [destruct l; simpl in *; congruence|exact S]. }
  (* no job queued or held *)
  destruct s as [[lf cu rp lr re] [tk jb bs ou dn] [cp ds rc up pl ex]]. simpl in *. subst jb bs.
  destruct I as [I1 I2 I3 I4 I5 I6 I7 I8 I9]. unfold outstanding, jcancelled, jfinalb in *. simpl in *.
  (* the consumer can move unless it is at the select with nothing to receive *)
  assert (CT : forall j, cp = CTok j -> exists l s', is_env_label l = false /\
            jstep p (mkjstate (mkreader lf cu rp lr re) (mkpool tk [] [] ou dn) (mkcons cp ds rc up pl ex)) l = Some s').
  { intros j E. subst cp. exists JTokRel. unfold jstep; simpl. destruct tk; [lia|].
    destruct (job_err (jp_bad p) j); eauto. }
  destruct cp as [|j|e|].
  - (* CSel *)
    destruct ou as [|o ou].
    + destruct ex.
      * exists JCtx. unfold jstep; simpl. eauto.
      * simpl in *. destruct (is_rexit rp) eqn:RX.
        -- destruct (I7 eq_refl eq_refl) as [D|D].
           ++ destruct dn as [e|]; [|congruence]. exists JRecvDone. unfold jstep; simpl. destruct e; eauto.
           ++ exfalso. apply (I8 eq_refl D). specialize (I5 eq_refl eq_refl). unfold lines in I5. simpl in I5. lia.
        -- destruct (json_reader_live p _ V R) as (l & s' & W & S); simpl; auto.
           { intros f E. subst rp. left. specialize (I3 eq_refl). simpl in I3.
             destruct V as (_ & _ & _ & Vct & _). lia. }
           exists l, s'. split; [destruct l; simpl in *; congruence|exact S].
    + exists (JRecv (jstart o)). unfold jstep; simpl. rewrite Nat.eqb_refl. eauto.
  - eapply CT; reflexivity.
  - destruct e; [exists JParseErr|exists JProcEnd]; unfold jstep; simpl; eauto.
  - (* CRet: cancelled, so the reader escapes *)
    simpl in F. destruct (is_rexit rp) eqn:RX; [destruct rp; simpl in *; discriminate|].
    destruct (json_reader_live p _ V R) as (l & s' & W & S); simpl; auto.
    { intros f E. right. unfold jcancelled. simpl. apply orb_true_r. }
    exists l, s'. split; [destruct l; simpl in *; congruence|exact S].
Qed.

(* after Run has returned nothing waits for the consumer: it never moves again, and the reader and the
   workers always have a step of their own until they are quiescent *)
Lemma json_early_exit : forall p s, jvalid p -> jreach p s -> c_pc (j_c s) = CRet ->
  (jfinalb s = false -> exists l s', is_consumer_label l = false /\ is_env_label l = false /\ jstep p s l = Some s')
  /\ (forall l s', jstep p s l = Some s' -> is_consumer_label l = false /\ c_pc (j_c s') = CRet).
Proof.
  intros p s V R C. split.
  - intros F.
    destruct (q_jobs (j_q s)) as [|x js] eqn:J; [destruct (q_busy (j_q s)) as [|y bs] eqn:B|].
    2:{ destruct (json_pool_live p s V R) as (l & s' & W & S); [right; congruence|].
        exists l, s'. repeat split; [destruct l; simpl in *; congruence..|exact S]. }
    2:{ destruct (json_pool_live p s V R) as (l & s' & W & S); [left; congruence|].
        exists l, s'. repeat split; [destruct l; simpl in *; congruence..|exact S]. }
    destruct (json_reader_live p s V R) as (l & s' & W & S); auto.
    + unfold jfinalb in F. rewrite C, J, B in F. simpl in F.
      destruct (r_pc (j_r s)); simpl in *; auto; discriminate.
    + intros f E. right. unfold jcancelled. rewrite C. apply orb_true_r.
    + exists l, s'. repeat split; [destruct l; simpl in *; congruence..|exact S].
  - intros l s' H. destruct s as [[lf cu rp lr re] [tk jb bs ou dn] [cp ds rc up pl ex]]. simpl in C. subst cp.
    destruct l; step_cases H; simpl; auto.
Qed.

(* a trace accepted by the checker is a run of the LTS into a reachable final state *)
Lemma jtrace_accepts_sound : forall p tr, jtrace_accepts p tr = true ->
  exists s, jrun p (jinit p) tr = Some s /\ jreach p s /\ jfinalb s = true.
Proof.
  intros p tr H. unfold jtrace_accepts in H. destruct (jrun p (jinit p) tr) as [s|] eqn:E; [|discriminate].
  exists s. repeat split; auto. eapply jrun_reach; [apply jreach_init|exact E].
Qed.

(* the executable oracle decides the token part of the invariant *)
Lemma tokens_okb_iff : forall p s, tokens_okb p s = true <->
  (outstanding s <= q_tokens (j_q s) /\ q_tokens (j_q s) <= jp_ct p
   /\ length (q_busy (j_q s)) + length (q_out (j_q s)) <= jp_co p /\ length (q_busy (j_q s)) <= jp_w p).
Proof.
  intros. unfold tokens_okb. rewrite !andb_true_iff, !Nat.leb_le. tauto.
Qed.

Lemma tokens_okb_reach : forall p s, jvalid p -> jreach p s -> tokens_okb p s = true /\ send_room_okb p s = true.
Proof.
  intros p s V R. pose proof (inv_reach _ _ R) as I. destruct I as [I1 I2 _ I4 _ _ _ _ _].
  destruct V as (_ & _ & _ & _ & Vco). split.
  - apply tokens_okb_iff. pose proof I1 as I1'. unfold outstanding in I1. repeat split; try lia.
  - unfold send_room_okb. destruct (q_busy (j_q s)) eqn:B; [reflexivity|].
    apply Nat.ltb_lt. unfold outstanding in I1. rewrite B in I1. simpl in I1. lia.
Qed.

Lemma jvalidb_iff : forall p, jvalidb p = true <-> jvalid p.
Proof. intros. unfold jvalidb, jvalid. rewrite !andb_true_iff, !Nat.leb_le. tauto. Qed.

(* the hypothesis ct <= co is needed: with a token channel larger than outChan a worker can be stuck
   behind a consumer that is busy elsewhere *)
Lemma json_tokens_above_out_blocks :
  exists p tr s, jp_ct p > jp_co p /\ jrun p (jinit p) tr = Some s /\
                 exists j, In j (q_busy (j_q s)) /\ jstep p s (JSend (jstart j)) = None /\ c_pc (j_c s) = CSel.
Proof.
  exists (mkjparams 1 2 1 4 2 1 false [] None).
  exists [JScan; JTok; JEnq; JScan; JTok; JEnq; JTake 0; JSend 0; JTake 1].
  eexists. split; [simpl; lia|]. split; [vm_compute; reflexivity|].
  exists (1, 1). split; [simpl; auto|]. split; reflexivity.
Qed.

Lemma json_run_bound : forall p tr s, jrun p (jinit p) tr = Some s -> length tr <= 10 * jp_n p + 23.
Proof. intros p tr s H. apply jrun_bound in H. rewrite jmeasure_init in H. lia. Qed.

Lemma json_workers_never_block_full : forall p s, jvalid p -> jreach p s ->
  outstanding s <= q_tokens (j_q s) /\ q_tokens (j_q s) <= jp_ct p /\ jp_ct p <= jp_co p /\
  forall j, In j (q_busy (j_q s)) ->
    length (q_out (j_q s)) < jp_co p /\ exists s', jstep p s (JSend (jstart j)) = Some s'.
Proof.
  intros p s V R. pose proof (inv_reach _ _ R) as I. destruct I as [I1 I2 _ _ _ _ _ _ _].
  split; [exact I1|]. split; [exact I2|]. split; [destruct V as (_ & _ & _ & _ & V); exact V|].
  intros j H. exact (json_workers_never_block p s V R j H).
Qed.

(* the constants read from the source satisfy the hypotheses when this boolean check computes to true *)
Definition consts_okb (b bt cj ct co cd : Z) (caps : list Z) : bool :=
  (1 <=? nn b) && (1 <=? nn bt) && (1 <=? nn cj) && (1 <=? nn ct) && (nn ct <=? nn co) && (nn cd =? 1)
  && forallb (fun c => 1 <=? nn c) caps.

Lemma consts_valid_of_check : forall b bt cj ct co cd caps, consts_okb b bt cj ct co cd caps = true ->
  forall w n rerr bad plimit, 1 <= w ->
  jvalid (mkjparams w n (nn b) (nn cj) (nn ct) (nn co) rerr bad plimit)
  /\ jvalid (mkjparams w n (nn bt) (nn cj) (nn ct) (nn co) rerr bad plimit)
  /\ nn cd = 1 /\ Forall (fun c => 1 <= nn c) caps.
Proof.
  intros b bt cj ct co cd caps A w n rerr bad plimit W. unfold consts_okb in A.
  repeat (apply andb_true_iff in A; destruct A as [A ?]).
  repeat match goal with H : (_ <=? _) = true |- _ => apply Nat.leb_le in H end.
  unfold jvalid; simpl. repeat split; auto.
  - apply Nat.eqb_eq; assumption.
  - apply Forall_forall. intros c Hc. rewrite forallb_forall in H. apply Nat.leb_le. auto.
Qed.

(* ------------------------------------------------------------------------------------------------ *)
(* join                                                                                             *)
(* ------------------------------------------------------------------------------------------------ *)

Inductive nreach (p : nparams) : nstate -> Prop :=
| nreach_init : nreach p ninit
| nreach_step : forall s l s', nreach p s -> nstep p s l = Some s' -> nreach p s'.

Lemma nrun_reach : forall p tr s s', nreach p s -> nrun p s tr = Some s' -> nreach p s'.
Proof.
  induction tr as [|l tr IH]; simpl; intros s s' R H.
  - inversion H; subst; auto.
  - destruct (nstep p s l) eqn:E; [|discriminate]. eapply IH; [eapply nreach_step; eauto|auto].
Qed.

Lemma nenabled_iff : forall p s l, In l (nenabled p s) <-> exists s', nstep p s l = Some s'.
Proof.
  intros p s l. unfold nenabled. rewrite filter_In. unfold ndefined. split.
  - intros [_ H]. destruct (nstep p s l); [eauto|discriminate].
  - intros [s' H]. rewrite H. split; [|reflexivity]. unfold ncandidates. destruct l as [[]|[]|[]|[]|[]]; simpl; tauto.
Qed.

Definition wp (x : ppc) : nat := match x with PSend => 4 | PClose => 1 | PDone => 0 end.
Definition wm (m : mpc) : nat := match m with MBoth => 2 | MOnly _ => 1 | MRet => 0 end.
Definition pmeasure (n : nat) (x : nprod) : nat := 3 * (n - p_sent x) + 2 * length (p_ch x) + wp (p_pc x).
Definition nmeasure (p : nparams) (s : nstate) : nat :=
  pmeasure (np_nl p) (n_l s) + pmeasure (np_nr p) (n_r s) + wm (n_m s).

Ltac nstep_cases H :=
  unfold nstep in H; simpl in H;
  repeat (first [discriminate H | destr_match H; simpl in H]);
  try discriminate H; inversion H; subst; clear H.

Ltac bool_hyps :=
  repeat match goal with
         | H : _ && _ = true |- _ => apply andb_true_iff in H; destruct H
         | H : (_ =? _) = true |- _ => apply Nat.eqb_eq in H
         | H : (_ =? _) = false |- _ => apply Nat.eqb_neq in H
         | H : (_ <? _) = true |- _ => apply Nat.ltb_lt in H
         | H : (_ <? _) = false |- _ => apply Nat.ltb_ge in H
         | H : negb _ = true |- _ => apply negb_true_iff in H
         end.

Lemma nstep_measure : forall p s l s', nstep p s l = Some s' -> nmeasure p s' < nmeasure p s.
Proof.
  intros p [[sl pl cl kl] [sr pr cr kr] m a] l s' H.
  destruct l as [[]|[]|[]|[]|[]]; nstep_cases H; unfold act; simpl;
    repeat (match goal with |- context [match ?x with _ => _ end] => destruct x eqn:? end; simpl);
    unfold nmeasure, pmeasure; simpl; repeat rewrite ?app_length; simpl; bool_hyps; simpl in *; try lia.
Qed.

Definition nnext (p : nparams) (s' s : nstate) : Prop := exists l, nstep p s l = Some s'.

Lemma join_wf : forall p, well_founded (nnext p).
Proof.
  intros p. apply well_founded_lt_compat with (f := nmeasure p).
  intros x y [l H]. eapply nstep_measure; eauto.
Qed.

Lemma nrun_bound : forall p tr s s', nrun p s tr = Some s' -> length tr + nmeasure p s' <= nmeasure p s.
Proof.
  induction tr as [|l tr IH]; simpl; intros s s' H.
  - inversion H; subst. lia.
  - destruct (nstep p s l) as [s1|] eqn:E; [|discriminate].
    apply nstep_measure in E. specialize (IH _ _ H). lia.
Qed.

Definition pinv (n : nat) (x : nprod) : Prop :=
  p_sent x <= n /\ (p_closed x = true <-> p_pc x = PDone)
  /\ length (p_ch x) <= p_sent x + (match p_pc x with PSend => 0 | _ => 1 end).
Definition NInv (p : nparams) (s : nstate) : Prop := pinv (np_nl p) (n_l s) /\ pinv (np_nr p) (n_r s).

Lemma ninv_init : forall p, NInv p ninit.
Proof. intros p. unfold NInv, pinv, ninit; simpl. repeat split; try lia; intros; discriminate. Qed.

Lemma ninv_step : forall p s l s', NInv p s -> nstep p s l = Some s' -> NInv p s'.
Proof.
  intros p [[sl pl cl kl] [sr pr cr kr] m a] l s' [(A1 & A2 & A3) (B1 & B2 & B3)] H. simpl in *.
  destruct l as [[]|[]|[]|[]|[]]; nstep_cases H; unfold act; simpl;
    repeat (match goal with |- context [match ?x with _ => _ end] => destruct x eqn:? end; simpl);
    unfold NInv, pinv; simpl; repeat rewrite ?app_length; simpl; bool_hyps; simpl in *;
    repeat split; try lia; try tauto; try congruence; try (intros; discriminate);
    try (destruct pl; simpl in *; lia); try (destruct pr; simpl in *; lia).
Qed.

Lemma ninv_reach : forall p s, nreach p s -> NInv p s.
Proof. intros p s R. induction R; [apply ninv_init|eapply ninv_step; eauto]. Qed.

(* the side the main loop is certainly listening to *)
Definition watched (m : mpc) : side := match m with MOnly d => d | _ => SL end.

(* producer d together with the main loop can always make a step while the main loop listens to d *)
Lemma join_side_live : forall p s d, nvalid p -> NInv p s -> listens (n_m s) d = true ->
  exists l s', nstep p s l = Some s'.
Proof.
  intros p s d V I L.
  assert (X : pinv (np_n p d) (nget s d)) by (destruct I; destruct d; assumption).
  destruct X as (X1 & X2 & X3). unfold nvalid in V.
  destruct (p_ch (nget s d)) as [|m0 rest] eqn:C.
  - destruct (p_closed (nget s d)) eqn:K.
    + exists (NClosed d). unfold nstep. rewrite L, K, C. simpl.
      destruct (n_m s); eauto. simpl in L. discriminate.
    + destruct (p_pc (nget s d)) eqn:P.
      * destruct (p_sent (nget s d) <? np_n p d) eqn:Lt.
        -- exists (NSend d). unfold nstep. rewrite P, Lt, C. simpl.
           assert (E : 0 <? np_cap p = true) by (apply Nat.ltb_lt; lia). rewrite E. eauto.
        -- apply Nat.ltb_ge in Lt. assert (E : p_sent (nget s d) =? np_n p d = true) by (apply Nat.eqb_eq; lia).
           destruct (np_err p d) eqn:Er.
           ++ exists (NErr d). unfold nstep. rewrite P, E, Er, C. simpl.
              assert (E2 : 0 <? np_cap p = true) by (apply Nat.ltb_lt; lia). rewrite E2. eauto.
           ++ exists (NClose d). unfold nstep. rewrite P, E, Er. simpl. eauto.
      * exists (NClose d). unfold nstep. rewrite P. eauto.
      * destruct X2 as [_ X2]. specialize (X2 eq_refl). discriminate.
  - exists (NRecv d). unfold nstep. rewrite L, C. destruct m0; eauto.
Qed.

Lemma join_progress : forall p s, nvalid p -> nreach p s -> nfinalb s = false -> exists l s', nstep p s l = Some s'.
Proof.
  intros p s V R F. apply (join_side_live p s (watched (n_m s)) V (ninv_reach _ _ R)).
  unfold nfinalb in F. destruct (n_m s) as [|[]|]; simpl; auto; discriminate.
Qed.

(* producers of inputs that fit into the channel never block, whatever the main loop does *)
Lemma join_producer_fits : forall p s d, nvalid p -> nreach p s -> np_n p d + 1 <= np_cap p ->
  p_pc (nget s d) <> PDone -> exists l s', is_producer_label d l = true /\ nstep p s l = Some s'.
Proof.
  intros p s d V R Fit ND. pose proof (ninv_reach _ _ R) as I.
  assert (X : pinv (np_n p d) (nget s d)) by (destruct I; destruct d; assumption).
  destruct X as (X1 & X2 & X3).
  destruct (p_pc (nget s d)) eqn:P; [| |congruence].
  - simpl in X3. destruct (p_sent (nget s d) <? np_n p d) eqn:Lt.
    + exists (NSend d). eexists. split; [destruct d; reflexivity|]. unfold nstep. rewrite P, Lt.
      apply Nat.ltb_lt in Lt. assert (E : length (p_ch (nget s d)) <? np_cap p = true) by (apply Nat.ltb_lt; lia).
      rewrite E. reflexivity.
    + apply Nat.ltb_ge in Lt. assert (E : p_sent (nget s d) =? np_n p d = true) by (apply Nat.eqb_eq; lia).
      destruct (np_err p d) eqn:Er.
      * exists (NErr d). eexists. split; [destruct d; reflexivity|]. unfold nstep. rewrite P, E, Er.
        assert (E2 : length (p_ch (nget s d)) <? np_cap p = true) by (apply Nat.ltb_lt; lia). rewrite E2. reflexivity.
      * exists (NClose d). eexists. split; [destruct d; reflexivity|]. unfold nstep. rewrite P, E, Er. reflexivity.
  - exists (NClose d). eexists. split; [destruct d; reflexivity|]. unfold nstep. rewrite P. reflexivity.
Qed.

(* the documented goroutine leak: after an early return a producer with more input than the channel
   holds stays blocked on its send for ever (the query itself is over) *)
Definition stuck_left (p : nparams) (s : nstate) : Prop :=
  n_m s = MRet /\ p_pc (n_l s) = PSend /\ p_sent (n_l s) < np_nl p /\ length (p_ch (n_l s)) = np_cap p.

Lemma stuck_left_step : forall p s l s', stuck_left p s -> nstep p s l = Some s' ->
  stuck_left p s' /\ n_l s' = n_l s /\ is_producer_label SL l = false.
Proof.
  intros p [[sl pl cl kl] [sr pr cr kr] m a] l s' (A & B & C & D) H. simpl in *. subst m pl.
  unfold stuck_left.
  destruct l as [[]|[]|[]|[]|[]]; nstep_cases H; simpl; bool_hyps; try lia; repeat split; auto.
Qed.

Lemma stuck_left_forever : forall p tr s s', stuck_left p s -> nrun p s tr = Some s' ->
  stuck_left p s' /\ n_l s' = n_l s /\ forallb (fun l => negb (is_producer_label SL l)) tr = true.
Proof.
  induction tr as [|l tr IH]; simpl; intros s s' St H.
  - inversion H; subst. auto.
  - destruct (nstep p s l) as [s1|] eqn:E; [|discriminate].
    destruct (stuck_left_step _ _ _ _ St E) as (S1 & Eq & Pl).
    destruct (IH _ _ S1 H) as (S2 & Eq2 & Fa). rewrite Pl. simpl. split; [exact S2|]. split; [congruence|exact Fa].
Qed.

Lemma join_leak_exists : exists p tr s, nvalid p /\ nrun p ninit tr = Some s /\ nfinalb s = true /\ stuck_left p s.
Proof.
  exists (mknparams 3 0 false false 1 (Some 0)), [NSend SL; NRecv SL; NSend SL]. eexists.
  split; [unfold nvalid; simpl; lia|]. split; [vm_compute; reflexivity|].
  split; [reflexivity|]. unfold stuck_left; simpl. repeat split; lia.
Qed.

Lemma join_run_bound : forall p tr s, nrun p ninit tr = Some s -> length tr <= 3 * (np_nl p + np_nr p) + 10.
Proof. intros p tr s H. apply nrun_bound in H. unfold nmeasure, pmeasure, ninit in H. simpl in H. lia. Qed.

Lemma join_leak_forever :
  exists p tr s, nvalid p /\ nrun p ninit tr = Some s /\ nfinalb s = true /\ stuck_left p s /\
    forall tr' s', nrun p s tr' = Some s' ->
      n_l s' = n_l s /\ forallb (fun l => negb (is_producer_label SL l)) tr' = true.
Proof.
  destruct join_leak_exists as (p & tr & s & V & R & F & St). exists p, tr, s.
  split; [exact V|]. split; [exact R|]. split; [exact F|]. split; [exact St|].
  intros tr' s' H. destruct (stuck_left_forever p tr' s s' St H) as (_ & A & B). auto.
Qed.

(* ---- join: macro steps, early return ---- *)

Lemma nget_nset : forall s d x, nget (nset s d x) d = x.
Proof. intros s [] x; reflexivity. Qed.

Lemma nset_nset : forall s d x y, nset (nset s d x) d y = nset s d y.
Proof. intros s [] x y; reflexivity. Qed.

Lemma nset_nget : forall s d, nset s d (nget s d) = s.
Proof. intros [l r m a] []; reflexivity. Qed.

Lemma nsend_many_run : forall p d k s s', nsend_many p s d k = Some s' -> nrun p s (repeat (NSend d) k) = Some s'.
Proof.
  induction k as [|k IH]; intros s s' H; unfold nsend_many in H;
    destruct (p_pc (nget s d)) eqn:P; try discriminate;
    destruct ((p_sent (nget s d) + _ <=? np_n p d) && (length (p_ch (nget s d)) + _ <=? np_cap p) && negb (p_closed (nget s d))) eqn:G;
    try discriminate; inversion H; subst; clear H;
    apply andb_true_iff in G; destruct G as [G C]; apply andb_true_iff in G; destruct G as [G1 G2];
    apply Nat.leb_le in G1; apply Nat.leb_le in G2; apply negb_true_iff in C.
  - simpl. f_equal. rewrite Nat.add_0_r, app_nil_r. rewrite <- P, <- C.
    rewrite <- (nset_nget s d) at 1. f_equal. destruct (nget s d); reflexivity.
  - assert (E1 : p_sent (nget s d) <? np_n p d = true) by (apply Nat.ltb_lt; lia).
    assert (E2 : length (p_ch (nget s d)) <? np_cap p = true) by (apply Nat.ltb_lt; lia).
    assert (St : nstep p s (NSend d) = Some (nset s d (mkprod (S (p_sent (nget s d))) PSend (p_ch (nget s d) ++ [MData]) false))).
    { unfold nstep. rewrite P, E1, E2. reflexivity. }
    change (repeat (NSend d) (S k)) with (NSend d :: repeat (NSend d) k). cbn [nrun]. rewrite St.
    apply IH. unfold nsend_many. rewrite nget_nset. cbn [p_pc p_sent p_ch p_closed].
    rewrite app_length. cbn [length].
    assert (F1 : S (p_sent (nget s d)) + k <=? np_n p d = true) by (apply Nat.leb_le; lia).
    assert (F2 : length (p_ch (nget s d)) + 1 + k <=? np_cap p = true) by (apply Nat.leb_le; lia).
    rewrite F1, F2. cbn [andb negb]. rewrite nset_nset. f_equal. f_equal.
    rewrite <- app_assoc. cbn [app]. replace (S (p_sent (nget s d)) + k) with (p_sent (nget s d) + S k) by lia. reflexivity.
Qed.

Lemma nrun_app : forall p a b s s1 s2, nrun p s a = Some s1 -> nrun p s1 b = Some s2 -> nrun p s (a ++ b) = Some s2.
Proof.
  induction a as [|l a IH]; simpl; intros b s s1 s2 A B.
  - inversion A; subst; exact B.
  - destruct (nstep p s l); [eauto|discriminate].
Qed.

(* a replay accepted with macro steps is a run of the LTS *)
Lemma nrun_macro_sound : forall p ms s s', nrun_macro p s ms = Some s' -> nrun p s (nexpand ms) = Some s'.
Proof.
  induction ms as [|m ms IH]; intros s s' H.
  - exact H.
  - destruct m as [d k|l]; cbn [nrun_macro] in H.
    + destruct (nsend_many p s d k) as [s1|] eqn:E; [|discriminate].
      change (nexpand (NMany d k :: ms)) with (repeat (NSend d) k ++ nexpand ms).
      eapply nrun_app; [apply nsend_many_run; exact E|apply IH; exact H].
    + destruct (nstep p s l) as [s1|] eqn:E; [|discriminate].
      change (nexpand (NOne l :: ms)) with (l :: nexpand ms). cbn [nrun]. rewrite E. apply IH; exact H.
Qed.

Lemma c29j_tie_sound : forall c, c29j_tie c = true ->
  nvalid (c29j_params c) /\ exists s, nrun (c29j_params c) ninit (nexpand (kj_trace c)) = Some s /\ nreach (c29j_params c) s /\ nfinalb s = true.
Proof.
  intros c H. unfold c29j_tie in H. apply andb_true_iff in H. destruct H as [V H].
  split; [apply Nat.leb_le; exact V|].
  destruct (nrun_macro (c29j_params c) ninit (kj_trace c)) as [s|] eqn:E; [|discriminate].
  repeat (apply andb_true_iff in H; destruct H as [H ?]).
  apply nrun_macro_sound in E. exists s. repeat split; auto. eapply nrun_reach; [apply nreach_init|exact E].
Qed.

Definition is_main_label (l : nlabel) : bool := match l with NRecv _ | NClosed _ => true | _ => false end.

(* Early return: the step in which the main loop receives a source's error message, or a message whose
   processing fails (LIMIT reached downstream, produce/key error), is a step of the main loop alone and ends in
   a final state: Run has returned.  No step of a producer is needed, and the producers are left as they were
   (one message shorter) - in particular still blocked if they were. *)
Lemma join_early_return_alone : forall p s d s',
  n_m s <> MRet -> nstep p s (NRecv d) = Some s' ->
  (hd_error (p_ch (nget s d)) = Some MErr \/ np_fail p = Some (n_acts s)) ->
  nfinalb s' = true /\
  p_sent (nget s' SL) = p_sent (nget s SL) /\ p_sent (nget s' SR) = p_sent (nget s SR) /\
  p_pc (nget s' SL) = p_pc (nget s SL) /\ p_pc (nget s' SR) = p_pc (nget s SR) /\
  p_ch (nget s' (other d)) = p_ch (nget s (other d)) /\ p_ch (nget s d) = (match hd_error (p_ch (nget s d)) with Some m => m | None => MData end) :: p_ch (nget s' d).
Proof.
  intros p [[sl pl cl kl] [sr pr cr kr] m a] d s' NM H E. simpl in *.
  destruct d; nstep_cases H; simpl in *; unfold act in *; simpl in *;
    destruct E as [E|E]; try discriminate; try (rewrite E in *; simpl in *; rewrite ?Nat.eqb_refl in *);
    repeat (match goal with |- context [match ?x with _ => _ end] => destruct x eqn:? end; simpl in *);
    bool_hyps; try congruence; try lia; repeat split; auto.
Qed.

(* once Run has returned it stays returned, whatever the producers do or fail to do *)
Lemma nfinal_stable : forall p s l s', nstep p s l = Some s' -> nfinalb s = true -> nfinalb s' = true /\ is_main_label l = false.
Proof.
  intros p [[sl pl cl kl] [sr pr cr kr] m a] l s' H F. unfold nfinalb in F. simpl in F. destruct m; try discriminate.
  destruct l as [[]|[]|[]|[]|[]]; nstep_cases H; simpl; auto.
Qed.
