(* Proofs/TriggerProofs.v — laws of the ordered association lists standing for google/btree, and of the
   four triggers of execution/triggers.go (what "pending" means, what Poll returns). *)
From Octo Require Import Triggers CompareLaws.

(* ---------- association lists under a comparator whose equivalence is transitive ---------- *)
Section MapLaws.
  Context {K V : Type}.
  Variable less : K -> K -> bool.
  Hypothesis irrefl : forall a, less a a = false.
  Hypothesis eqv_trans : forall a b c, m_eqv less a b = true -> m_eqv less b c = true -> m_eqv less a c = true.

  Notation eqv := (m_eqv less).
  Notation get := (@m_get K V less).
  Notation mem := (@m_mem K V less).
  Notation del := (@m_del K V less).
  Notation sins := (@m_sins K V less).
  Notation put := (@m_put K V less).

  Lemma eqv_refl a : eqv a a = true.
  Proof. unfold m_eqv. rewrite irrefl. reflexivity. Qed.
  Lemma eqv_sym a b : eqv a b = eqv b a.
  Proof. unfold m_eqv. apply andb_comm. Qed.
  Lemma eqv_cong a b c : eqv a b = true -> eqv a c = eqv b c.
  Proof.
    intro H. destruct (eqv a c) eqn:E1, (eqv b c) eqn:E2; try reflexivity.
    - rewrite eqv_sym in H. rewrite (eqv_trans b a c H E1) in E2. discriminate.
    - rewrite (eqv_trans a b c H E2) in E1. discriminate.
  Qed.
  Lemma eqv_cong_r a b c : eqv b c = true -> eqv a b = eqv a c.
  Proof. intro H. rewrite (eqv_sym a b), (eqv_sym a c). apply eqv_cong. exact H. Qed.

  Lemma get_some k m e : get k m = Some e -> In e m /\ eqv k (fst e) = true.
  Proof.
    induction m as [|x r IH]; simpl; [discriminate|]. destruct (eqv k (fst x)) eqn:E.
    - intro H. inversion H; subst. auto.
    - intro H. destruct (IH H). auto.
  Qed.
  Lemma mem_get k m : mem k m = true <-> exists e, get k m = Some e.
  Proof.
    induction m as [|x r IH]; simpl.
    - split; [discriminate | intros [e H]; discriminate].
    - destruct (eqv k (fst x)); simpl; [split; eauto | exact IH].
  Qed.
  Lemma mem_false_get k m : mem k m = false <-> get k m = None.
  Proof.
    destruct (get k m) eqn:G.
    - assert (mem k m = true) by (apply mem_get; eauto). split; congruence.
    - destruct (mem k m) eqn:M; [|tauto]. apply mem_get in M. destruct M as [e He]. congruence.
  Qed.
  Lemma get_cong k k' m : eqv k k' = true -> get k m = get k' m.
  Proof.
    intro H. induction m as [|x r IH]; simpl; [reflexivity|].
    rewrite (eqv_cong k k' (fst x) H), IH. reflexivity.
  Qed.
  Lemma mem_cong k k' m : eqv k k' = true -> mem k m = mem k' m.
  Proof.
    intro H. induction m as [|x r IH]; simpl; [reflexivity|].
    rewrite (eqv_cong k k' (fst x) H), IH. reflexivity.
  Qed.

  Lemma mem_del k k' m : mem k (del k' m) = negb (eqv k k') && mem k m.
  Proof.
    induction m as [|x r IH]; simpl; [rewrite andb_false_r; reflexivity|].
    destruct (eqv k' (fst x)) eqn:E; simpl.
    - rewrite IH. destruct (eqv k k') eqn:E2; simpl; [reflexivity|].
      destruct (eqv k (fst x)) eqn:E3; [|reflexivity].
      rewrite eqv_sym in E. rewrite (eqv_trans k (fst x) k' E3 E) in E2. discriminate.
    - rewrite IH. destruct (eqv k k') eqn:E2; simpl; [|reflexivity].
      rewrite (eqv_cong k k' (fst x) E2), E. reflexivity.
  Qed.
  Lemma get_del k k' m : get k (del k' m) = if eqv k k' then None else get k m.
  Proof.
    induction m as [|x r IH]; simpl; [destruct (eqv k k'); reflexivity|].
    destruct (eqv k' (fst x)) eqn:E; simpl.
    - rewrite IH. destruct (eqv k k') eqn:E2; [reflexivity|].
      destruct (eqv k (fst x)) eqn:E3; [|reflexivity].
      rewrite eqv_sym in E. rewrite (eqv_trans k (fst x) k' E3 E) in E2. discriminate.
    - rewrite IH. destruct (eqv k k') eqn:E2; [|reflexivity].
      rewrite (eqv_cong k k' (fst x) E2), E. reflexivity.
  Qed.
  Lemma del_absent k m : mem k m = false -> del k m = m.
  Proof.
    induction m as [|x r IH]; simpl; [reflexivity|]. intro H. apply orb_false_iff in H. destruct H as [H1 H2].
    rewrite H1. simpl. rewrite IH by exact H2. reflexivity.
  Qed.
  Lemma in_del e k m : In e (del k m) <-> In e m /\ eqv k (fst e) = false.
  Proof. unfold m_del. rewrite filter_In. rewrite negb_true_iff. tauto. Qed.

  Lemma mem_sins k k' v m : mem k (sins k' v m) = eqv k k' || mem k m.
  Proof.
    induction m as [|x r IH]; simpl; [reflexivity|]. destruct (less k' (fst x)); simpl; [reflexivity|].
    rewrite IH. destruct (eqv k (fst x)), (eqv k k'); reflexivity.
  Qed.
  Lemma get_sins k k' v m : mem k' m = false -> get k (sins k' v m) = if eqv k k' then Some (k', v) else get k m.
  Proof.
    induction m as [|x r IH]; simpl; intro H; [destruct (eqv k k'); reflexivity|].
    apply orb_false_iff in H. destruct H as [H1 H2].
    destruct (less k' (fst x)); simpl; [destruct (eqv k k'); reflexivity|].
    destruct (eqv k (fst x)) eqn:E.
    - destruct (eqv k k') eqn:E2; [|reflexivity].
      rewrite eqv_sym in E2. rewrite (eqv_trans k' k (fst x) E2 E) in H1. discriminate.
    - apply IH. exact H2.
  Qed.
  Lemma in_sins e k v m : In e (sins k v m) <-> e = (k, v) \/ In e m.
  Proof.
    induction m as [|x r IH]; simpl; [intuition|]. destruct (less k (fst x)); simpl; [intuition|].
    rewrite IH. intuition.
  Qed.

  Lemma mem_put k k' v m : mem k (put k' v m) = eqv k k' || mem k m.
  Proof. unfold m_put. rewrite mem_sins, mem_del. destruct (eqv k k'); reflexivity. Qed.
  Lemma get_put k k' v m : get k (put k' v m) = if eqv k k' then Some (k', v) else get k m.
  Proof.
    unfold m_put. rewrite get_sins.
    - rewrite get_del. destruct (eqv k k'); reflexivity.
    - rewrite mem_del, eqv_refl. reflexivity.
  Qed.
  Lemma in_put e k v m : In e (put k v m) <-> e = (k, v) \/ (In e m /\ eqv k (fst e) = false).
  Proof. unfold m_put. rewrite in_sins, in_del. tauto. Qed.

  (* no two entries are the same item *)
  Fixpoint m_nd (m : list (K * V)) : Prop :=
    match m with [] => True | e :: r => mem (fst e) r = false /\ m_nd r end.

  Lemma nd_del k m : m_nd m -> m_nd (del k m).
  Proof.
    induction m as [|x r IH]; simpl; [tauto|]. intros [H1 H2].
    destruct (eqv k (fst x)); simpl; [auto|]. split; [|auto].
    rewrite mem_del, H1. apply andb_false_r.
  Qed.
  Lemma nd_sins k v m : m_nd m -> mem k m = false -> m_nd (sins k v m).
  Proof.
    induction m as [|x r IH]; simpl; [tauto|]. intros [H1 H2] H. apply orb_false_iff in H. destruct H as [H3 H4].
    destruct (less k (fst x)); simpl.
    - rewrite H3, H4. auto.
    - split; [|auto]. rewrite mem_sins, H1. rewrite eqv_sym, H3. reflexivity.
  Qed.
  Lemma nd_put k v m : m_nd m -> m_nd (put k v m).
  Proof.
    intro H. unfold m_put. apply nd_sins; [apply nd_del; exact H|].
    rewrite mem_del, eqv_refl. reflexivity.
  Qed.

  Lemma nd_get_in e m : m_nd m -> In e m -> get (fst e) m = Some e.
  Proof.
    induction m as [|x r IH]; simpl; [tauto|]. intros [H1 H2] [H|H].
    - subst. rewrite eqv_refl. reflexivity.
    - destruct (eqv (fst e) (fst x)) eqn:E; [|auto].
      assert (mem (fst x) r = true).
      { unfold m_mem. apply existsb_exists. exists e. split; [exact H | rewrite eqv_sym; exact E]. }
      congruence.
  Qed.

  (* sums over the entries *)
  Definition msum (f : K * V -> Z) (m : list (K * V)) : Z := zsum (map f m).

  Lemma msum_sins f k v m : msum f (sins k v m) = f (k, v) + msum f m.
  Proof.
    unfold msum. induction m as [|x r IH]; simpl; [reflexivity|].
    destruct (less k (fst x)); simpl; [reflexivity|]. rewrite IH. lia.
  Qed.
  Lemma msum_del f k m : m_nd m ->
    msum f (del k m) = msum f m - match get k m with Some e => f e | None => 0 end.
  Proof.
    unfold msum. induction m as [|x r IH]; simpl; [reflexivity|]. intros [H1 H2].
    destruct (eqv k (fst x)) eqn:E; simpl.
    - rewrite del_absent; [lia|]. rewrite (mem_cong k (fst x) r E). exact H1.
    - rewrite IH by exact H2. lia.
  Qed.
  Lemma msum_put f k v m : m_nd m ->
    msum f (put k v m) = msum f m - match get k m with Some e => f e | None => 0 end + f (k, v).
  Proof. intro H. unfold m_put. rewrite msum_sins, msum_del by exact H. lia. Qed.

  (* only the entry of one class contributes *)
  Lemma msum_class f k m : m_nd m ->
    (forall e, In e m -> eqv k (fst e) = false -> f e = 0) ->
    msum f m = match get k m with Some e => f e | None => 0 end.
  Proof.
    unfold msum. induction m as [|x r IH]; simpl; [reflexivity|]. intros [H1 H2] H.
    destruct (eqv k (fst x)) eqn:E.
    - assert (Z0 : zsum (map f r) = 0).
      { clear IH. assert (Hm : mem k r = false) by (rewrite (mem_cong k (fst x) r E); exact H1).
        assert (Hr : forall e, In e r -> f e = 0).
        { intros e He. apply H; [right; exact He|].
          destruct (eqv k (fst e)) eqn:E2; [|reflexivity].
          assert (mem k r = true). { unfold m_mem. apply existsb_exists. exists e. auto. } congruence. }
        clear -Hr. induction r as [|y r IH]; simpl; [reflexivity|].
        rewrite (Hr y (or_introl eq_refl)), IH; [reflexivity|]. intros e He. apply Hr. right. exact He. }
      lia.
    - rewrite (H x (or_introl eq_refl) E). rewrite IH; [lia | exact H2 |].
      intros e He. apply H. right. exact He.
  Qed.
End MapLaws.

(* ---------- the two comparators ---------- *)
Notation geq := (m_eqv slices_less).

Lemma slices_less_lex : forall a b, slices_less a b = (lex_cmp vcompare a b =? -1).
Proof.
  induction a as [|x xs IH]; intros [|y ys]; try reflexivity.
  rewrite lex_cons. simpl. destruct (Z.eqb_spec (vcompare x y) 0) as [e|ne]; [apply IH | reflexivity].
Qed.

Lemma geq_row_eqb a b : geq a b = row_eqb a b.
Proof.
  unfold m_eqv, row_eqb. rewrite !slices_less_lex. rewrite (cl_anti _ _ (row_laws a) b).
  destruct (cl_range _ _ (row_laws a) b) as [E|[E|E]]; rewrite E; reflexivity.
Qed.

Lemma sl_irrefl a : slices_less a a = false.
Proof. rewrite slices_less_lex, (cl_refl _ _ (row_laws a)). reflexivity. Qed.
Lemma geq_trans a b c : geq a b = true -> geq b c = true -> geq a c = true.
Proof. rewrite !geq_row_eqb. apply row_eqb_trans. Qed.
Lemma geq_refl a : geq a a = true.
Proof. rewrite geq_row_eqb. apply row_eqb_refl. Qed.
Lemma geq_sym a b : geq a b = geq b a.
Proof. apply eqv_sym. Qed.

Notation weq := (m_eqv wless).

Lemma weq_spec a b : weq a b = (wk_ns a =? wk_ns b) && geq (snd a) (snd b).
Proof.
  unfold m_eqv at 1. unfold wless. rewrite (Z.eqb_sym (wk_ns b) (wk_ns a)).
  destruct (Z.eqb_spec (wk_ns a) (wk_ns b)) as [e|ne]; simpl; [reflexivity|].
  destruct (Z.ltb_spec (wk_ns a) (wk_ns b)); simpl; [reflexivity|].
  destruct (Z.ltb_spec (wk_ns b) (wk_ns a)); simpl; [reflexivity | lia].
Qed.
Lemma wl_irrefl a : wless a a = false.
Proof. unfold wless. rewrite Z.eqb_refl. apply sl_irrefl. Qed.
Lemma weq_trans a b c : weq a b = true -> weq b c = true -> weq a c = true.
Proof.
  rewrite !weq_spec, !andb_true_iff, !Z.eqb_eq. intros [H1 H2] [H3 H4]. split; [congruence|].
  apply (geq_trans _ _ _ H2 H4).
Qed.

(* equivalent keys carry the same instant in every column *)
Lemma vtime_cong v v' : vcompare v v' = 0 -> fst (vtime v) = fst (vtime v').
Proof.
  intro H. destruct v, v'; try reflexivity; try (tid_solve; discriminate).
  rewrite vc_time in H. unfold zcmp in H. simpl.
  destruct (Z.ltb_spec ns ns0); [discriminate|]. destruct (Z.ltb_spec ns0 ns); [discriminate | lia].
Qed.
Lemma key_time_cong idx : forall k k', geq k k' = true -> fst (key_time idx k) = fst (key_time idx k').
Proof.
  intros k k'. rewrite geq_row_eqb. unfold row_eqb, key_time. revert idx k'.
  induction k as [|x xs IH]; intros idx [|y ys]; try (simpl; discriminate).
  - reflexivity.
  - rewrite lex_cons. destruct (Z.eqb_spec (vcompare x y) 0) as [e|ne].
    + intro H. destruct idx; simpl; [apply vtime_cong; exact e | apply IH; exact H].
    + intro H. apply Z.eqb_eq in H. contradiction.
Qed.
Lemma weq_keys idx k k' : weq (key_time idx k, k) (key_time idx k', k') = geq k k'.
Proof.
  rewrite weq_spec. simpl. destruct (geq k k') eqn:E; [|apply andb_false_r].
  unfold wk_ns. simpl. rewrite (key_time_cong idx k k' E), Z.eqb_refl. reflexivity.
Qed.

(* ---------- the triggers ---------- *)
(* key k is pending in the trigger: a later Poll (at the latest the one at end of stream) returns it *)
Definition pending (s : tstate) (k : gkey) : bool :=
  match s with
  | SCount _ counts _ fire => m_mem slices_less k counts || existsb (geq k) fire
  | SWm idx tks _ _ => m_mem wless (key_time idx k, k) tks
  | SEos keys _ => m_mem slices_less k keys
  end.

Lemma pending_cong s k k' : geq k k' = true -> pending s k = pending s k'.
Proof.
  intro H. destruct s; simpl.
  - rewrite (mem_cong slices_less geq_trans k k' _ H). f_equal.
    induction fire as [|x r IH]; simpl; [reflexivity|].
    rewrite (eqv_cong slices_less geq_trans k k' x H), IH. reflexivity.
  - apply (mem_cong wless weq_trans). rewrite weq_keys. exact H.
  - apply (mem_cong slices_less geq_trans). exact H.
Qed.

(* KeyReceived(k) makes exactly the class of k pending (and keeps what was pending) *)
Lemma pending_key s k k' : pending (t_key wless k s) k' = geq k' k || pending s k'.
Proof.
  destruct s; simpl.
  - destruct (m_get slices_less k counts) as [[sk c]|] eqn:G.
    + apply (get_some slices_less) in G. destruct G as [_ G]. simpl in G.
      rewrite (eqv_cong_r slices_less geq_trans k' k sk G).
      destruct ((c + 1) mod two64 =? n); simpl.
      * rewrite (mem_del slices_less geq_trans), existsb_app. cbn [existsb].
        destruct (geq k' sk), (m_mem slices_less k' counts); destruct (existsb (geq k') fire); reflexivity.
      * rewrite (mem_put slices_less geq_trans).
        destruct (geq k' sk), (m_mem slices_less k' counts); reflexivity.
    + destruct ((0 + 1) mod two64 =? n); simpl.
      * rewrite (mem_del slices_less geq_trans), existsb_app. cbn [existsb].
        destruct (geq k' k), (m_mem slices_less k' counts); destruct (existsb (geq k') fire); reflexivity.
      * rewrite (mem_put slices_less geq_trans).
        destruct (geq k' k), (m_mem slices_less k' counts); reflexivity.
  - rewrite (mem_put wless weq_trans), weq_keys. reflexivity.
  - rewrite (mem_put slices_less geq_trans). reflexivity.
Qed.

Lemma pending_wm w s k : pending (t_wm w s) k = pending s k.
Proof. destruct s; reflexivity. Qed.
Lemma pending_eos s k : pending (t_eos s) k = pending s k.
Proof. destruct s; reflexivity. Qed.

Lemma mem_fold_del idx (ks : list gkey) : forall (tks : list (wkey * unit)) k,
  m_mem wless (key_time idx k, k) (fold_left (fun m k0 => m_del wless (key_time idx k0, k0) m) ks tks)
  = negb (existsb (geq k) ks) && m_mem wless (key_time idx k, k) tks.
Proof.
  induction ks as [|k0 r IH]; intros tks k; simpl; [reflexivity|].
  rewrite IH, (mem_del wless weq_trans), weq_keys.
  destruct (geq k k0), (existsb (geq k) r); reflexivity.
Qed.

(* Poll clears "pending" only for keys it returns *)
Lemma poll_pending s out s' k : t_poll wless s = (out, s') ->
  pending s k = true -> pending s' k = true \/ existsb (geq k) out = true.
Proof.
  destruct s; simpl; intro H; inversion H; subst; clear H; simpl.
  - intro P. apply orb_true_iff in P. destruct P as [P|P].
    + left. rewrite P. reflexivity.
    + right. rewrite existsb_app. apply orb_true_iff. left. exact P.
  - intro P. rewrite mem_fold_del, P, andb_true_r.
    match goal with |- context [existsb (geq k) ?l] => destruct (existsb (geq k) l) end; auto.
  - auto.
Qed.

Definition t_is_eos (s : tstate) : bool :=
  match s with SCount _ _ e _ => e | SWm _ _ e _ => e | SEos _ e => e end.
Lemma t_eos_is_eos s : t_is_eos (t_eos s) = true.
Proof. destruct s; reflexivity. Qed.

Lemma existsb_map_fst {V} (k : gkey) (m : list (gkey * V)) :
  existsb (geq k) (map fst m) = m_mem slices_less k m.
Proof. induction m as [|x r IH]; simpl; [reflexivity | rewrite IH; reflexivity]. Qed.

(* after EndOfStreamReached, Poll returns every pending key *)
Lemma poll_eos_all s out s' k : t_is_eos s = true -> t_poll wless s = (out, s') ->
  pending s k = true -> existsb (geq k) out = true.
Proof.
  destruct s; simpl; intros E H; subst; inversion H; subst; clear H; simpl.
  - intro P. rewrite existsb_app, existsb_map_fst. rewrite orb_comm. exact P.
  - intro P. unfold m_mem in P. apply existsb_exists in P. destruct P as [e [He Pe]].
    apply existsb_exists. exists (snd (fst e)). split.
    + apply in_map_iff. exists e. auto.
    + rewrite weq_spec in Pe. apply andb_true_iff in Pe. exact (proj2 Pe).
  - intro P. rewrite existsb_map_fst. exact P.
Qed.

(* ---------- MultiTrigger ---------- *)
Lemma mt_poll_spec : forall l out l', mt_poll wless l = (out, l') ->
  Forall2 (fun s s' => exists o, t_poll wless s = (o, s') /\ incl o out) l l'.
Proof.
  induction l as [|s r IH]; simpl; intros out l' H.
  - inversion H. constructor.
  - destruct (t_poll wless s) as [o s'] eqn:P. destruct (mt_poll wless r) as [o2 r'] eqn:R.
    inversion H; subst; clear H. constructor.
    + exists o. split; [exact P | apply incl_appl, incl_refl].
    + specialize (IH o2 r' eq_refl). clear -IH. induction IH as [|a b la lb [o' [H1 H2]] _ IH2]; constructor; [|exact IH2].
      exists o'. split; [exact H1 | apply incl_appr; exact H2].
Qed.

Lemma existsb_incl (k : gkey) a b : incl a b -> existsb (geq k) a = true -> existsb (geq k) b = true.
Proof.
  intros I H. apply existsb_exists in H. destruct H as [x [Hx E]]. apply existsb_exists. exists x. auto.
Qed.

(* the map laws at the group-key comparator *)
Definition g_get_put {V} := @get_put (list value) V slices_less sl_irrefl geq_trans.
Definition g_get_del {V} := @get_del (list value) V slices_less geq_trans.
Definition g_get_cong {V} := @get_cong (list value) V slices_less geq_trans.
Definition g_msum_put {V} := @msum_put (list value) V slices_less sl_irrefl geq_trans.
Definition g_msum_del {V} := @msum_del (list value) V slices_less sl_irrefl geq_trans.
Definition g_msum_class {V} := @msum_class (list value) V slices_less sl_irrefl geq_trans.
Definition g_nd_put {V} := @nd_put (list value) V slices_less sl_irrefl geq_trans.
Definition g_nd_del {V} := @nd_del (list value) V slices_less geq_trans.
Definition g_nd_get_in {V} := @nd_get_in (list value) V slices_less sl_irrefl.
Definition g_eqv_cong_r := @eqv_cong_r (list value) slices_less geq_trans.
