(* Proofs/SourcesCsvProjProofs.v — C23 (4): the CSV source returns one record per CSV record, in order, and
   values[i] is the cell of the column named fields[i], for every subset of used columns. *)
From Octo Require Import SourcesCsvProj SourcesScanProofs.
From Coq Require Import Arith.
Local Open Scope nat_scope.

Lemma mem_name_in : forall n l, mem_name n l = true <-> In n l.
Proof.
  induction l; simpl. split; [discriminate|tauto].
  rewrite orb_true_iff, IHl, bytes_eqb_eq. tauto.
Qed.

Lemma select_in : forall {X} keep (l : list X) x, In x (select keep l) -> In x l.
Proof.
  induction keep as [|b k IH]; intros l x H. destruct l; simpl in H; contradiction.
  destruct l as [|y r]; simpl in H. destruct b; contradiction.
  destruct b. destruct H; subst; simpl; auto. simpl; auto.
Qed.

Fixpoint positions_from (off : nat) (keep : list bool) : list nat :=
  match keep with
  | [] => []
  | true :: k => off :: positions_from (S off) k
  | false :: k => positions_from (S off) k
  end.

Lemma indices_positions : forall used names keep off,
  Forall2 (fun n b => mem_name n used = b) names keep ->
  indices_to_read used off names = positions_from off keep.
Proof.
  intros used names keep off H. revert off. induction H; intros off; simpl; auto.
  rewrite H. destruct y; rewrite IHForall2; auto.
Qed.

Lemma mem_select : forall names keep used, NoDup names -> length keep = length names ->
  (forall n, In n names -> mem_name n used = mem_name n (select keep names)) ->
  Forall2 (fun n b => mem_name n used = b) names keep.
Proof.
  induction names as [|n0 r IH]; intros keep used Hnd Hlen Hu; destruct keep as [|b k]; try discriminate. constructor.
  inversion Hnd as [|? ? Hni Hnd']; subst. constructor.
  - rewrite (Hu n0 (or_introl eq_refl)). simpl. destruct b.
    + simpl. replace (bytes_eqb n0 n0) with true; auto. symmetry. apply bytes_eqb_eq; auto.
    + destruct (mem_name n0 (select k r)) eqn:E; auto. apply mem_name_in in E. apply select_in in E. contradiction.
  - apply IH; auto. intros n Hn. rewrite (Hu n (or_intror Hn)). simpl. destruct b; auto. simpl.
    replace (bytes_eqb n0 n) with false; auto. symmetry.
    destruct (bytes_eqb n0 n) eqn:E; auto. apply bytes_eqb_eq in E. subst. contradiction.
Qed.

Lemma select_combine_fst : forall {X Y} keep (a : list X) (b : list Y), length a = length b ->
  map fst (select keep (combine a b)) = select keep a.
Proof.
  induction keep as [|k ks IH]; intros a b H. destruct a, b; reflexivity.
  destruct a, b; try discriminate; simpl. destruct k; reflexivity.
  destruct k; simpl; [f_equal|]; apply IH; simpl in H; lia.
Qed.

Section P.
  Context {T C V : Type}.
  Variable conv : T -> C -> outcome V.

  Lemma row_values_spec : forall keep names tys cells fpre rpre,
    length names = length keep -> length tys = length keep -> length cells = length keep ->
    row_values conv (fpre ++ select keep (combine names tys)) (rpre ++ cells) (length fpre) (positions_from (length rpre) keep)
    = spec_values conv (select keep tys) (select keep cells).
  Proof.
    induction keep as [|b k IH]; intros names tys cells fpre rpre Hn Ht Hc.
    - destruct tys, cells; reflexivity.
    - destruct names as [|n names], tys as [|t tys], cells as [|c cells]; try discriminate.
      simpl in Hn, Ht, Hc. destruct b.
      + simpl positions_from. simpl select. cbn [row_values spec_values].
        rewrite (nth_error_app2 rpre) by lia. rewrite Nat.sub_diag. simpl nth_error.
        rewrite (nth_error_app2 fpre) by lia. rewrite Nat.sub_diag. simpl nth_error. cbn [snd].
        destruct (conv t c); auto.
        replace (fpre ++ (n, t) :: select k (combine names tys)) with ((fpre ++ [(n, t)]) ++ select k (combine names tys))
          by (rewrite <- app_assoc; reflexivity).
        replace (rpre ++ c :: cells) with ((rpre ++ [c]) ++ cells) by (rewrite <- app_assoc; reflexivity).
        replace (S (length fpre)) with (length (fpre ++ [(n, t)])) by (rewrite app_length; simpl; lia).
        replace (S (length rpre)) with (length (rpre ++ [c])) by (rewrite app_length; simpl; lia).
        rewrite IH by lia. reflexivity.
      + simpl positions_from. simpl select.
        replace (rpre ++ c :: cells) with ((rpre ++ [c]) ++ cells) by (rewrite <- app_assoc; reflexivity).
        replace (S (length rpre)) with (length (rpre ++ [c])) by (rewrite app_length; simpl; lia).
        apply IH; lia.
  Qed.

  Theorem run_rows_spec : forall names tys keep rows,
    NoDup names -> length tys = length names -> length keep = length names ->
    Forall (fun r => length r = length names) rows ->
    let fields := select keep (combine names tys) in
    run_rows conv fields (indices_to_read (map fst fields) 0 names) rows = spec_rows conv keep tys rows.
  Proof.
    intros names tys keep rows Hnd Ht Hk Hrows fields. unfold fields.
    rewrite select_combine_fst by lia.
    rewrite (indices_positions _ names keep 0) by (apply mem_select; auto).
    induction rows as [|r rest IH]; simpl; auto.
    inversion Hrows as [|? ? Hr Hrest]; subst.
    pose proof (row_values_spec keep names tys r [] []) as E. simpl in E. rewrite E by lia.
    destruct (spec_values conv (select keep tys) (select keep r)); auto. rewrite IH; auto.
  Qed.

  (* when no conversion fails there is exactly one record per CSV record, in order *)
  Lemma spec_rows_ok : forall keep tys rows out,
    spec_rows conv keep tys rows = (out, Ok tt) ->
    Forall2 (fun r vs => spec_values conv (select keep tys) (select keep r) = Ok vs) rows out.
  Proof.
    induction rows as [|r rest IH]; simpl; intros out H. inversion H; constructor.
    destruct (spec_values conv (select keep tys) (select keep r)) eqn:E; try (inversion H; fail).
    destruct (spec_rows conv keep tys rest) as [o e] eqn:E2. inversion H; subst. constructor; auto.
  Qed.

  Variable cell_text : C -> bytes.

  (* the datasource as a whole: names from the header (or column_i), any pruned field list *)
  Theorem csv_run_spec : forall header records names data tys keep,
    csv_names cell_text header records = Ok (names, data) ->
    NoDup names -> length tys = length names -> length keep = length names ->
    Forall (fun r => length r = length names) data ->
    csv_run conv header names (select keep (combine names tys)) records = spec_rows conv keep tys data.
  Proof.
    intros header records names data tys keep Hn Hnd Ht Hk Hrows. unfold csv_run, csv_names in *.
    destruct header.
    - destruct records as [|h rest]; inversion Hn; subst. apply run_rows_spec; auto.
    - destruct records as [|r rest]; inversion Hn; subst.
      + destruct keep; reflexivity.
      + apply run_rows_spec; auto.
  Qed.
End P.

(* the generated names column_0, column_1, .. are pairwise different (checked by computation up to 200 columns) *)
Fixpoint nodupb (l : list bytes) : bool :=
  match l with [] => true | x :: r => negb (mem_name x r) && nodupb r end.

Lemma nodupb_sound : forall l, nodupb l = true -> NoDup l.
Proof.
  induction l; simpl; intros H. constructor.
  apply andb_true_iff in H as [H1 H2]. constructor; auto.
  intros Hin. apply mem_name_in in Hin. rewrite Hin in H1. discriminate.
Qed.

Lemma column_names_nodup_200 : forall n, n <= 200 -> NoDup (map column_i (seq 0 n)).
Proof.
  intros n Hn. assert (H : NoDup (map column_i (seq 0 200))) by (apply nodupb_sound; vm_compute; reflexivity).
  replace 200 with (n + (200 - n)) in H by lia. rewrite seq_app, map_app in H.
  clear Hn. revert H. generalize (map column_i (seq (0 + n) (200 - n))). intros l H.
  induction (map column_i (seq 0 n)); simpl in *. constructor.
  inversion H; subst. constructor. intros Hin. apply H2. apply in_or_app; auto. auto.
Qed.
