(* Proofs/OptimizerProofs.v — every optimizer rule of Model/Optimizer.v preserves the denotation of a well-shaped
   plan (as a list, hence as a bag), keeps it well-shaped and keeps the root schema; so does the fixpoint driver. *)
From Octo Require Import Plan Optimizer PlanLemmas GenOptimizer CompareLaws.

(* ---- VariablesUsed (when it does not panic) is the list of variables of the expression ---- *)
Lemma ocollect_ok {A} (f : A -> outcome (list name)) (g : A -> list name) l :
  Forall (fun a => forall vs, f a = Ok vs -> vs = g a) l ->
  forall vs, ocollect f l = Ok vs -> vs = flat_map g l.
Proof.
  induction 1 as [|x l Hx Hl IH]; simpl; intros vs Hv.
  - inversion Hv. reflexivity.
  - destruct (f x) as [a| |] eqn:E; simpl in Hv; try discriminate.
    destruct (ocollect f l) as [b| |] eqn:E2; simpl in Hv; try discriminate.
    inversion Hv. rewrite (Hx a eq_refl), (IH b eq_refl). reflexivity.
Qed.
Lemma variables_used_ok c e : forall vs, variables_used c e = Ok vs -> vs = expr_vars e.
Proof.
  induction e using expr_ind'; simpl; intros vs Hv;
    try (inversion Hv; reflexivity);
    try (eapply ocollect_ok; [exact H | exact Hv]); auto.
  destruct (vu_complete c); [|discriminate]. eapply ocollect_ok; [exact H | exact Hv].
Qed.

Lemma var_matches_self n : var_matches_field n n = true.
Proof. unfold var_matches_field. rewrite name_eqb_refl. reflexivity. Qed.
Lemma uses_false_notin fs vars : uses_vars_from_schema fs vars = false -> forall n, In n vars -> ~ In n fs.
Proof.
  unfold uses_vars_from_schema. intros H n Hn Hf.
  assert (existsb (fun n => existsb (var_matches_field n) fs) vars = true); [|congruence].
  apply existsb_exists. exists n. split; [exact Hn|]. apply existsb_exists. exists n. split; [exact Hf|apply var_matches_self].
Qed.

Section Sound.
  Variable db : name -> name -> list (name * name) -> list (name -> value).
  Variable fn_sem : name -> list value -> value.
  Variable assert_sem : name -> value -> value.
  Variable cast_sem : Z -> value -> value.
  Variable other_sem : Z -> name -> list value -> value.
  Variable agg_sem : name -> list value -> value.
  Variable key_eqb : list value -> list value -> bool.
  Variable distinct_sel : list row -> list nat.
  Variable ost_sel : list (list value) -> list Z -> option value -> list nat.
  Variable tvf_sem : name -> list (name * value) -> list (name * name) -> option (schema * list row) -> list row.

  Notation eval := (eval fn_sem assert_sem cast_sem other_sem).
  Notation evals := (evals fn_sem assert_sem cast_sem other_sem).
  Notation keep := (keep fn_sem assert_sem cast_sem other_sem).
  Notation den := (den_plan db fn_sem assert_sem cast_sem other_sem agg_sem key_eqb distinct_sel ost_sel tvf_sem).

  Definition good (p p' : plan) : Prop :=
    shapeb p' = true /\ schema_of p' = schema_of p /\ forall env, den p' env = den p env.
  Definition nt_sound (f : nt) : Prop := forall p p' c, shapeb p = true -> f p = Ok (p', c) -> good p p'.

  Lemma good_refl p : shapeb p = true -> good p p.
  Proof. intros H. repeat split; auto. Qed.
  Lemma good_trans a b c : good a b -> good b c -> good a c.
  Proof.
    intros [H1 [H2 H3]] [H4 [H5 H6]]. repeat split; [exact H4 | congruence | intros env; rewrite H6; apply H3].
  Qed.
  Lemma good_fields p p' : good p p' -> fields_of p' = fields_of p.
  Proof. intros [_ [H _]]. unfold fields_of. rewrite H. reflexivity. Qed.

  Lemma rows_len p env r : shapeb p = true -> In r (den p env) -> length r = length (fields_of p).
  Proof. intros Hs Hin. eapply den_rows_len; eauto. Qed.

  (* ---- TransformNode: a sound node transformer applied bottom-up is sound ---- *)
  Ltac split_shape H :=
    repeat match type of H with (_ && _ = true) => apply andb_true_iff in H; let H' := fresh H in destruct H as [H H'] end.

  Lemma fin_sound f N N' p' (h : plan * bool -> bool) c :
    nt_sound f -> good N N' -> obind (f N') (fun r => Ok (fst r, h r)) = Ok (p', c) -> good N p'.
  Proof.
    intros Hf HN H. destruct (f N') as [[q cq]| |] eqn:E; simpl in H; try discriminate. inversion H; subst.
    eapply good_trans; [exact HN|]. eapply Hf; [apply HN|exact E].
  Qed.

  Lemma tr_node_sound f : nt_sound f -> forall p p' c, shapeb p = true -> tr_node f p = Ok (p', c) -> good p p'.
  Proof.
    intros Hf. induction p; intros p' c Hs H; simpl in H.
    - eapply fin_sound; [exact Hf | apply good_refl; exact Hs | exact H].
    - destruct (tr_node f p) as [[q cq]| |] eqn:E; simpl in H; try discriminate.
      simpl in Hs. split_shape Hs. destruct (IHp q cq Hs0 eq_refl) as [G1 [G2 G3]].
      eapply fin_sound; [exact Hf | | exact H]. repeat split; simpl.
      + rewrite G2, Hs, G1. reflexivity.
      + intros env. rewrite G3. reflexivity.
    - destruct (tr_node f p) as [[q cq]| |] eqn:E; simpl in H; try discriminate.
      simpl in Hs. split_shape Hs. destruct (IHp q cq Hs0 eq_refl) as [G1 [G2 G3]].
      eapply fin_sound; [exact Hf | | exact H]. repeat split; simpl.
      + rewrite G2, Hs, G1. reflexivity.
      + intros env. unfold fields_of. rewrite G3, G2. reflexivity.
    - destruct (tr_node f p) as [[q cq]| |] eqn:E; simpl in H; try discriminate.
      simpl in Hs. split_shape Hs. destruct (IHp q cq Hs0 eq_refl) as [G1 [G2 G3]].
      eapply fin_sound; [exact Hf | | exact H]. repeat split; simpl.
      + rewrite Hs, Hs1, G1. reflexivity.
      + intros env. unfold fields_of. rewrite G3, G2. reflexivity.
    - destruct (tr_node f p1) as [[q1 c1]| |] eqn:E1; simpl in H; try discriminate.
      destruct (tr_node f p2) as [[q2 c2]| |] eqn:E2; simpl in H; try discriminate.
      simpl in Hs. split_shape Hs.
      destruct (IHp1 q1 c1 Hs1 eq_refl) as [G1 [G2 G3]]. destruct (IHp2 q2 c2 Hs0 eq_refl) as [K1 [K2 K3]].
      eapply fin_sound; [exact Hf | | exact H]. repeat split; simpl.
      + unfold fields_of. rewrite G2, K2. unfold fields_of in Hs. rewrite Hs, Hs2, G1, K1. reflexivity.
      + intros env. unfold fields_of. rewrite G2, K2, G3.
        apply flat_map_ext_in. intros lr _. rewrite K3. reflexivity.
    - destruct (tr_node f p1) as [[q1 c1]| |] eqn:E1; simpl in H; try discriminate.
      destruct (tr_node f p2) as [[q2 c2]| |] eqn:E2; simpl in H; try discriminate.
      simpl in Hs. split_shape Hs.
      destruct (IHp1 q1 c1 Hs1 eq_refl) as [G1 [G2 G3]]. destruct (IHp2 q2 c2 Hs0 eq_refl) as [K1 [K2 K3]].
      eapply fin_sound; [exact Hf | | exact H]. repeat split; simpl.
      + unfold fields_of. rewrite G2, K2. unfold fields_of in Hs, Hs2. rewrite Hs, Hs2, G1, K1. reflexivity.
      + intros env. unfold fields_of. rewrite G2, G3.
        apply flat_map_ext_in. intros sr _. rewrite K3. reflexivity.
    - destruct (tr_node f p) as [[q cq]| |] eqn:E; simpl in H; try discriminate.
      simpl in Hs. split_shape Hs. destruct (IHp q cq Hs0 eq_refl) as [G1 [G2 G3]].
      eapply fin_sound; [exact Hf | | exact H]. repeat split; simpl.
      + rewrite Hs, G1. reflexivity.
      + intros env. unfold fields_of. rewrite G3, G2. reflexivity.
    - destruct (tr_node f p) as [[q cq]| |] eqn:E; simpl in H; try discriminate.
      simpl in Hs. split_shape Hs. destruct (IHp q cq Hs0 eq_refl) as [G1 [G2 G3]].
      eapply fin_sound; [exact Hf | | exact H]. repeat split; simpl.
      + unfold fields_of. rewrite G2. unfold fields_of in Hs. rewrite Hs, Hs1, G1. reflexivity.
      + intros env. rewrite G3. reflexivity.
    - destruct (tr_node f p) as [[q cq]| |] eqn:E; simpl in H; try discriminate.
      simpl in Hs. split_shape Hs. destruct (IHp q cq Hs0 eq_refl) as [G1 [G2 G3]].
      eapply fin_sound; [exact Hf | | exact H]. repeat split; simpl.
      + rewrite G2, Hs, G1. reflexivity.
      + intros env. unfold fields_of. rewrite G3, G2. reflexivity.
    - eapply fin_sound; [exact Hf | apply good_refl; exact Hs | exact H].
    - destruct (tr_node f p) as [[q cq]| |] eqn:E; simpl in H; try discriminate.
      simpl in Hs. destruct (IHp q cq Hs eq_refl) as [G1 [G2 G3]].
      eapply fin_sound; [exact Hf | | exact H]. repeat split; simpl.
      + exact G1.
      + intros env. rewrite G3, G2. reflexivity.
  Qed.

  Lemma run_nt_sound f : nt_sound f -> forall p p' c, shapeb p = true -> run_nt f p = Ok (p', c) -> good p p'.
  Proof.
    intros Hf p p' c Hs H. unfold run_nt in H.
    destruct (tr_node f p) as [[q cq]| |] eqn:E; simpl in H; try discriminate.
    destruct cq; inversion H; subst.
    - eapply tr_node_sound; eauto.
    - apply good_refl; exact Hs.
  Qed.

  (* ---- a filter made of conjuncts ---- *)
  Definition all_true (ps : list expr) (fs : list name) (env : venv) (r : row) : bool :=
    forallb (fun e => keep e fs env r) ps.

  Lemma keep_and ps fs env r : keep (EAnd ps) fs env r = all_true ps fs env r.
  Proof. unfold Plan.keep, all_true. rewrite truthy_eval_and. reflexivity. Qed.
  Lemma keep_split e fs env r : all_true (split_by_and e) fs env r = keep e fs env r.
  Proof. unfold Plan.keep, all_true. apply split_truthy. Qed.

  Definition jrows lk rk lf rf env (L R : list row) : list row :=
    flat_map (fun lr => flat_map (fun rr =>
      if forallb2' key_match1 (evals lk ((lf, lr) :: env)) (evals rk ((rf, rr) :: env)) then [lr ++ rr] else []) R) L.
  Lemma den_sj s lk rk l r env :
    den (PStreamJoin s lk rk l r) env = jrows lk rk (fields_of l) (fields_of r) env (den l env) (den r env).
  Proof. reflexivity. Qed.
  Lemma den_filter s e src env : den (PFilter s e src) env = filter (keep e (fields_of src) env) (den src env).
  Proof. reflexivity. Qed.
  Lemma den_lj s src j env :
    den (PLookupJoin s src j) env =
    flat_map (fun sr => map (fun jr => sr ++ jr) (den j ((fields_of src, sr) :: env))) (den src env).
  Proof. reflexivity. Qed.
  Lemma and_filter_fields ps src : fields_of (and_filter ps src) = fields_of src.
  Proof. destruct ps; reflexivity. Qed.

  Lemma and_filter_good ps src : shapeb src = true ->
    shapeb (and_filter ps src) = true /\ schema_of (and_filter ps src) = schema_of src /\
    forall env, den (and_filter ps src) env = filter (all_true ps (fields_of src) env) (den src env).
  Proof.
    intros Hs. destruct ps as [|e ps]; simpl.
    - repeat split; auto. intros env. symmetry. apply filter_true. reflexivity.
    - rewrite schema_eqb_refl, Hs. repeat split; auto. intros env. apply filter_ext. intros r.
      apply (keep_and (e :: ps)).
  Qed.

  (* ---- MergeFilters ---- *)
  Lemma merge_sound c : nt_sound (merge_nt c).
  Proof.
    intros p p' ch Hs H. destruct p; simpl in H; try (inversion H; subst; apply good_refl; exact Hs).
    destruct p; simpl in H; try (inversion H; subst; apply good_refl; exact Hs).
    inversion H; subst; clear H. simpl in Hs. split_shape Hs. split_shape Hs0.
    apply schema_eqb_eq in Hs. simpl in Hs. subst s. apply schema_eqb_eq in Hs0. subst s0.
    repeat split; simpl.
    - rewrite schema_eqb_refl, Hs1. reflexivity.
    - intros env. rewrite filter_filter. apply filter_ext. intros r. unfold fields_of at 2. simpl.
      rewrite keep_and. unfold all_true.
      destruct (merge_inner_first c); rewrite forallb_app.
      + fold (all_true (split_by_and pred0) (fields_of p) env r). fold (all_true (split_by_and pred) (fields_of p) env r).
        rewrite !keep_split. reflexivity.
      + fold (all_true (split_by_and pred0) (fields_of p) env r). fold (all_true (split_by_and pred) (fields_of p) env r).
        rewrite !keep_split. apply andb_comm.
  Qed.

  (* ---- PushDownFilterPredicatesToDatasource: the datasources of a well-shaped plan reject push-down ---- *)
  Lemma ds_pushdown_sound : nt_sound ds_pushdown_nt.
  Proof.
    intros p p' ch Hs H. destruct p; simpl in H; try (inversion H; subst; apply good_refl; exact Hs).
    destruct p; simpl in H; try (inversion H; subst; apply good_refl; exact Hs).
    simpl in Hs. split_shape Hs. apply Z.eqb_eq in Hs0. subst policy.
    unfold ds_push, impl_push in H. simpl in H. inversion H; subst. apply good_refl.
    simpl. rewrite Hs. reflexivity.
  Qed.

  (* ---- predicates that only see one side of a concatenated record ---- *)
  Lemma keep_left e lf rf env (lr rr : row) :
    length lf = length lr -> (forall n, In n (expr_vars e) -> ~ In n rf) ->
    keep e (lf ++ rf) env (lr ++ rr) = keep e lf env lr.
  Proof.
    intros Hl Hv. unfold Plan.keep. f_equal. apply eval_ext. intros n Hn. apply lookup_app_left; auto.
  Qed.
  Lemma keep_right e lf rf env (lr rr : row) :
    length lf = length lr -> (forall n, In n (expr_vars e) -> ~ In n lf) ->
    keep e (lf ++ rf) env (lr ++ rr) = keep e rf env rr.
  Proof.
    intros Hl Hv. unfold Plan.keep. f_equal. apply eval_ext. intros n Hn. apply lookup_app_right; auto.
  Qed.
  Lemma keep_nested e sfs jf env (sr jr : row) :
    length sfs = length sr -> (forall x, In x sfs -> ~ In x jf) ->
    keep e (sfs ++ jf) env (sr ++ jr) = keep e jf ((sfs, sr) :: env) jr.
  Proof.
    intros Hl Hd. unfold Plan.keep. f_equal. apply eval_ext. intros n _. apply lookup_app_nested; auto.
  Qed.

  Lemma flat_map_nil {A B} (f : A -> list B) l : (forall x, In x l -> f x = []) -> flat_map f l = [].
  Proof. induction l as [|x l IH]; simpl; intros H; [reflexivity|]. rewrite (H x), IH; auto. Qed.

  (* ---- PushDownFilterPredicatesIntoStreamJoinBranch ---- *)
  Lemma sj_branch_split_sem c lf rf ps st pl pr :
    sj_branch_split c lf rf ps = Ok (st, pl, pr) ->
    forall env (lr rr : row), length lf = length lr ->
      all_true ps (lf ++ rf) env (lr ++ rr) =
      all_true st (lf ++ rf) env (lr ++ rr) && all_true pl lf env lr && all_true pr rf env rr.
  Proof.
    revert st pl pr. induction ps as [|e ps IH]; intros st pl pr H env lr rr Hl; simpl in H.
    - inversion H; subst. reflexivity.
    - destruct (variables_used c e) as [vars| |] eqn:Ev; simpl in H; try discriminate.
      destruct (sj_branch_split c lf rf ps) as [[[st0 pl0] pr0]| |] eqn:Es; simpl in H; try discriminate.
      apply variables_used_ok in Ev. subst vars. inversion H; subst; clear H.
      simpl. rewrite (IH st0 pl0 pr0 eq_refl env lr rr Hl).
      destruct (uses_vars_from_schema lf (expr_vars e)) eqn:Ul; destruct (uses_vars_from_schema rf (expr_vars e)) eqn:Ur; simpl.
      + rewrite <- !andb_assoc. reflexivity.
      + rewrite (keep_left e lf rf env lr rr Hl (uses_false_notin _ _ Ur)).
        destruct (keep e lf env lr), (all_true st0 (lf ++ rf) env (lr ++ rr)), (all_true pl0 lf env lr), (all_true pr0 rf env rr); reflexivity.
      + rewrite (keep_right e lf rf env lr rr Hl (uses_false_notin _ _ Ul)).
        destruct (keep e rf env rr), (all_true st0 (lf ++ rf) env (lr ++ rr)), (all_true pl0 lf env lr), (all_true pr0 rf env rr); reflexivity.
      + pose proof (keep_left e lf rf env lr rr Hl (uses_false_notin _ _ Ur)) as K1.
        pose proof (keep_right e lf rf env lr rr Hl (uses_false_notin _ _ Ul)) as K2.
        rewrite <- K2, K1.
        destruct (keep e lf env lr), (all_true st0 (lf ++ rf) env (lr ++ rr)), (all_true pl0 lf env lr), (all_true pr0 rf env rr); reflexivity.
  Qed.

  Lemma join_filter_pushdown (K : row -> row -> bool) (q qst : row -> bool) (PL PR : row -> bool) (L R : list row) :
    (forall lr rr, In lr L -> In rr R -> q (lr ++ rr) = qst (lr ++ rr) && PL lr && PR rr) ->
    filter q (flat_map (fun lr => flat_map (fun rr => if K lr rr then [lr ++ rr] else []) R) L) =
    filter qst (flat_map (fun lr => flat_map (fun rr => if K lr rr then [lr ++ rr] else []) (filter PR R)) (filter PL L)).
  (* (K is any match condition) *)
  Proof.
    intros Hq. rewrite !filter_flat_map, flat_map_filter. apply flat_map_ext_in. intros lr Hlr.
    destruct (PL lr) eqn:EL.
    - rewrite !filter_flat_map, flat_map_filter. apply flat_map_ext_in. intros rr Hrr.
      destruct (PR rr) eqn:ER; destruct (K lr rr); simpl; try reflexivity.
      + rewrite (Hq lr rr Hlr Hrr), EL, ER, !andb_true_r. reflexivity.
      + rewrite (Hq lr rr Hlr Hrr), EL, ER, !andb_false_r. reflexivity.
    - rewrite filter_flat_map. apply flat_map_nil. intros rr Hrr.
      destruct (K lr rr); simpl; [|reflexivity]. rewrite (Hq lr rr Hlr Hrr), EL, andb_false_r. reflexivity.
  Qed.

  Lemma sj_branch_sound c : nt_sound (sj_branch_nt c).
  Proof.
    intros p p' ch Hs H. destruct p; simpl in H; try (inversion H; subst; apply good_refl; exact Hs).
    destruct p; simpl in H; try (inversion H; subst; apply good_refl; exact Hs).
    destruct (sj_branch_split c (fields_of p1) (fields_of p2) (split_by_and pred)) as [[[st pl] pr]| |] eqn:Es;
      simpl in H; try discriminate.
    destruct (Nat.eqb (length st) (length (split_by_and pred))); inversion H; subst; clear H;
      [apply good_refl; exact Hs|].
    simpl in Hs. split_shape Hs. split_shape Hs0.
    apply schema_eqb_eq in Hs. simpl in Hs. subst s. apply list_eqb_name_eq in Hs0.
    destruct (and_filter_good pl p1 Hs2) as [A1 [A2 A3]]. destruct (and_filter_good pr p2 Hs1) as [B1 [B2 B3]].
    set (J := PStreamJoin s0 lkey rkey (and_filter pl p1) (and_filter pr p2)).
    assert (HJ : shapeb J = true).
    { simpl. unfold fields_of. rewrite A2, B2. fold (fields_of p1). fold (fields_of p2).
      rewrite Hs0, list_eqb_name_refl, Hs3, A1, B1. reflexivity. }
    destruct (and_filter_good st J HJ) as [C1 [C2 C3]].
    repeat split; [exact C1 | rewrite C2; reflexivity |].
    intros env. rewrite C3. unfold J at 2. rewrite den_filter, !den_sj, !and_filter_fields, A3, B3.
    assert (FJ : fields_of J = fields_of p1 ++ fields_of p2) by (unfold J, fields_of; simpl; exact Hs0).
    assert (FO : fields_of (PStreamJoin s0 lkey rkey p1 p2) = fields_of p1 ++ fields_of p2) by (unfold fields_of; simpl; exact Hs0).
    rewrite FJ, FO. symmetry.
    erewrite filter_ext; [|intros r; symmetry; apply keep_split].
    apply join_filter_pushdown. intros lr rr Hlr Hrr.
    apply (sj_branch_split_sem _ _ _ _ _ _ _ Es). symmetry. eapply rows_len; eauto.
  Qed.

  (* ---- PushDownFilterPredicatesIntoStreamJoinKey ---- *)
  Lemma truthy_eq_sem a b : truthy (eq_sem a b) = key_match1 a b.
  Proof.
    unfold eq_sem, key_match1. destruct (is_null a); simpl; [reflexivity|]. destruct (is_null b); simpl; [reflexivity|].
    destruct (vcompare a b =? 0); reflexivity.
  Qed.
  Lemma forallb2'_app {A B} (f : A -> B -> bool) a1 a2 b1 b2 :
    length a1 = length b1 -> forallb2' f (a1 ++ a2) (b1 ++ b2) = forallb2' f a1 b1 && forallb2' f a2 b2.
  Proof.
    revert b1; induction a1 as [|x a1 IH]; intros [|y b1] H; simpl in *; try discriminate; [reflexivity|].
    rewrite IH by auto. rewrite andb_assoc. reflexivity.
  Qed.

  Lemma sj_key_split_sem c lf rf ps st la ra :
    sj_key_split c lf rf ps = Ok (st, la, ra) ->
    forall env (lr rr : row), length lf = length lr ->
      all_true ps (lf ++ rf) env (lr ++ rr) =
      all_true st (lf ++ rf) env (lr ++ rr) &&
      forallb2' key_match1 (evals la ((lf, lr) :: env)) (evals ra ((rf, rr) :: env)).
  Proof.
    revert st la ra. induction ps as [|e ps IH]; intros st la ra H env lr rr Hl; simpl in H.
    - inversion H; subst. reflexivity.
    - match type of H with obind ?X _ = _ => destruct X as [k| |] eqn:Ek; simpl in H; try discriminate end.
      destruct (sj_key_split c lf rf ps) as [[[st0 la0] ra0]| |] eqn:Es; simpl in H; try discriminate.
      specialize (IH st0 la0 ra0 eq_refl env lr rr Hl).
      assert (Hnone : k = None -> all_true (e :: ps) (lf ++ rf) env (lr ++ rr) =
                all_true (e :: st0) (lf ++ rf) env (lr ++ rr) &&
                forallb2' key_match1 (evals la0 ((lf, lr) :: env)) (evals ra0 ((rf, rr) :: env))).
      { intros _. simpl. rewrite IH. rewrite andb_assoc. reflexivity. }
      destruct k as [[x y]|]; [|inversion H; subst; apply Hnone; reflexivity].
      inversion H; subst; clear H Hnone.
      (* e is  a = b  with one side on each branch *)
      destruct e; try discriminate. destruct args as [|a [|b [|? ?]]]; try discriminate.
      destruct (name_eqb f "="%string) eqn:Ef; try discriminate.
      destruct (variables_used c a) as [va| |] eqn:Ea; simpl in Ek; try discriminate.
      destruct (variables_used c b) as [vb| |] eqn:Eb; simpl in Ek; try discriminate.
      apply variables_used_ok in Ea. apply variables_used_ok in Eb. subst va vb.
      simpl. rewrite IH. unfold Plan.keep at 1. simpl. rewrite Ef, truthy_eq_sem.
      destruct (uses_vars_from_schema lf (expr_vars a)) eqn:Al; destruct (uses_vars_from_schema rf (expr_vars a)) eqn:Ar;
      destruct (uses_vars_from_schema lf (expr_vars b)) eqn:Bl; destruct (uses_vars_from_schema rf (expr_vars b)) eqn:Br;
        simpl in Ek; try discriminate; inversion Ek; subst x y; clear Ek.
      + rewrite (eval_ext _ _ _ _ a _ ((lf, lr) :: env)) by (intros n Hn; apply lookup_app_left; [exact Hl | exact (uses_false_notin _ _ Ar n Hn)]).
        rewrite (eval_ext _ _ _ _ b _ ((rf, rr) :: env)) by (intros n Hn; apply lookup_app_right; [exact Hl | exact (uses_false_notin _ _ Bl n Hn)]).
        destruct (key_match1 _ _), (all_true st (lf ++ rf) env (lr ++ rr)); reflexivity.
      + rewrite (eval_ext _ _ _ _ b _ ((lf, lr) :: env)) by (intros n Hn; apply lookup_app_left; [exact Hl | exact (uses_false_notin _ _ Br n Hn)]).
        rewrite (eval_ext _ _ _ _ a _ ((rf, rr) :: env)) by (intros n Hn; apply lookup_app_right; [exact Hl | exact (uses_false_notin _ _ Al n Hn)]).
        assert (Hsym : forall u v, key_match1 u v = key_match1 v u).
        { intros u v. unfold key_match1. rewrite (vcompare_antisym u v).
          destruct (is_null u), (is_null v); simpl; try reflexivity.
          destruct (Z.eqb_spec (vcompare u v) 0), (Z.eqb_spec (- vcompare u v) 0); try reflexivity; lia. }
        rewrite Hsym.
        destruct (key_match1 _ _), (all_true st (lf ++ rf) env (lr ++ rr)); reflexivity.
  Qed.

  Lemma sj_key_split_len c lf rf ps st la ra : sj_key_split c lf rf ps = Ok (st, la, ra) -> length la = length ra.
  Proof.
    revert st la ra. induction ps as [|e ps IH]; intros st la ra H; simpl in H.
    - inversion H; reflexivity.
    - match type of H with obind ?X _ = _ => destruct X as [k| |]; simpl in H; try discriminate end.
      destruct (sj_key_split c lf rf ps) as [[[st0 la0] ra0]| |] eqn:Es; simpl in H; try discriminate.
      specialize (IH _ _ _ eq_refl). destruct k as [[x y]|]; inversion H; subst; simpl; congruence.
  Qed.

  Lemma join_filter_to_key (K K2 : row -> row -> bool) (q qst : row -> bool) (L R : list row) :
    (forall lr rr, In lr L -> In rr R -> q (lr ++ rr) = qst (lr ++ rr) && K2 lr rr) ->
    filter q (flat_map (fun lr => flat_map (fun rr => if K lr rr then [lr ++ rr] else []) R) L) =
    filter qst (flat_map (fun lr => flat_map (fun rr => if K lr rr && K2 lr rr then [lr ++ rr] else []) R) L).
  Proof.
    intros Hq. rewrite !filter_flat_map. apply flat_map_ext_in. intros lr Hlr.
    rewrite !filter_flat_map. apply flat_map_ext_in. intros rr Hrr.
    destruct (K lr rr); simpl; [|reflexivity]. rewrite (Hq lr rr Hlr Hrr).
    destruct (K2 lr rr); simpl; [rewrite andb_true_r; reflexivity | rewrite andb_false_r; reflexivity].
  Qed.

  Lemma sj_key_sound c : nt_sound (sj_key_nt c).
  Proof.
    intros p p' ch Hs H. destruct p; simpl in H; try (inversion H; subst; apply good_refl; exact Hs).
    destruct p; simpl in H; try (inversion H; subst; apply good_refl; exact Hs).
    destruct (sj_key_split c (fields_of p1) (fields_of p2) (split_by_and pred)) as [[[st la] ra]| |] eqn:Es;
      simpl in H; try discriminate.
    destruct (Nat.eqb (length st) (length (split_by_and pred))); inversion H; subst; clear H;
      [apply good_refl; exact Hs|].
    simpl in Hs. split_shape Hs. split_shape Hs0.
    apply schema_eqb_eq in Hs. simpl in Hs. subst s. apply list_eqb_name_eq in Hs0.
    apply Nat.eqb_eq in Hs3. pose proof (sj_key_split_len _ _ _ _ _ _ _ Es) as Hlen.
    set (J := PStreamJoin s0 (lkey ++ la) (rkey ++ ra) p1 p2).
    assert (HJ : shapeb J = true).
    { simpl. rewrite Hs0, list_eqb_name_refl, Hs2, Hs1, !app_length, Hs3, Hlen, Nat.eqb_refl. reflexivity. }
    destruct (and_filter_good st J HJ) as [C1 [C2 C3]].
    repeat split; [exact C1 | rewrite C2; reflexivity |].
    intros env. rewrite C3. unfold J at 2. rewrite den_filter, !den_sj.
    assert (FJ : fields_of J = fields_of p1 ++ fields_of p2) by (unfold J, fields_of; simpl; exact Hs0).
    assert (FO : fields_of (PStreamJoin s0 lkey rkey p1 p2) = fields_of p1 ++ fields_of p2) by (unfold fields_of; simpl; exact Hs0).
    rewrite FJ, FO. symmetry.
    erewrite filter_ext; [|intros r; symmetry; apply keep_split].
    unfold jrows.
    rewrite (join_filter_to_key _ (fun lr rr => forallb2' key_match1 (evals la ((fields_of p1, lr) :: env)) (evals ra ((fields_of p2, rr) :: env)))
               _ (all_true st (fields_of p1 ++ fields_of p2) env)).
    - f_equal. apply flat_map_ext_in. intros lr _. apply flat_map_ext_in. intros rr _.
      unfold Plan.evals. rewrite !map_app. rewrite forallb2'_app by (rewrite !map_length; exact Hs3). reflexivity.
    - intros lr rr Hlr Hrr. apply (sj_key_split_sem _ _ _ _ _ _ _ Es). symmetry. eapply rows_len; eauto.
  Qed.

  (* ---- PushDownFilterPredicatesIntoLookupJoinBranch ---- *)
  Lemma lj_split_sem c sfs jf ps psrc pj :
    lj_split c jf ps = Ok (psrc, pj) -> (forall x, In x sfs -> ~ In x jf) ->
    forall env (sr jr : row), length sfs = length sr ->
      all_true ps (sfs ++ jf) env (sr ++ jr) = all_true psrc sfs env sr && all_true pj jf ((sfs, sr) :: env) jr.
  Proof.
    intros H Hd. revert psrc pj H. induction ps as [|e ps IH]; intros psrc pj H env sr jr Hl; simpl in H.
    - inversion H; subst. reflexivity.
    - destruct (variables_used c e) as [vars| |] eqn:Ev; simpl in H; try discriminate.
      destruct (lj_split c jf ps) as [[ps0 pj0]| |] eqn:Es; simpl in H; try discriminate.
      apply variables_used_ok in Ev. subst vars. specialize (IH ps0 pj0 eq_refl env sr jr Hl).
      destruct (uses_vars_from_schema jf (expr_vars e)) eqn:U; simpl in H; inversion H; subst; clear H; simpl; rewrite IH.
      + rewrite (keep_nested e sfs jf env sr jr Hl Hd).
        destruct (keep e jf ((sfs, sr) :: env) jr), (all_true _ sfs env sr), (all_true _ jf ((sfs, sr) :: env) jr); reflexivity.
      + rewrite (keep_left e sfs jf env sr jr Hl (uses_false_notin _ _ U)). rewrite andb_assoc. reflexivity.
  Qed.

  Lemma disjointb_spec a b : disjointb a b = true -> forall x, In x a -> ~ In x b.
  Proof.
    unfold disjointb. rewrite forallb_forall. intros H x Hx. specialize (H x Hx).
    apply negb_true_iff in H. apply mem_false. exact H.
  Qed.

  Lemma lj_branch_sound c : nt_sound (lj_branch_nt c).
  Proof.
    intros p p' ch Hs H. destruct p; simpl in H; try (inversion H; subst; apply good_refl; exact Hs).
    destruct p; simpl in H; try (inversion H; subst; apply good_refl; exact Hs).
    destruct (lj_split c (fields_of p2) (split_by_and pred)) as [[psrc pj]| |] eqn:Es; simpl in H; try discriminate.
    inversion H; subst; clear H.
    simpl in Hs. split_shape Hs. split_shape Hs0.
    apply schema_eqb_eq in Hs. simpl in Hs. subst s. apply list_eqb_name_eq in Hs0.
    pose proof (disjointb_spec _ _ Hs3) as Hd.
    destruct (and_filter_good psrc p1 Hs2) as [A1 [A2 A3]].
    set (j' := match pj with [] => p2 | _ :: _ => PFilter (schema_of p2) (EAnd (map (set_nonlevel0 (fields_of p1)) pj)) p2 end).
    assert (Hj : shapeb j' = true /\ schema_of j' = schema_of p2 /\
                 forall env, den j' env = filter (all_true pj (fields_of p2) env) (den p2 env)).
    { unfold j'. destruct pj as [|e0 pj0].
      - repeat split; auto. intros env. symmetry. apply filter_true. reflexivity.
      - cbv beta iota. repeat split.
        + simpl. rewrite schema_eqb_refl, Hs1. reflexivity.
        + intros env. rewrite den_filter. apply filter_ext. intros r. unfold Plan.keep at 1.
          change (EAnd (map (set_nonlevel0 (fields_of p1)) (e0 :: pj0))) with (set_nonlevel0 (fields_of p1) (EAnd (e0 :: pj0))).
          rewrite eval_set_nonlevel0. apply (keep_and (e0 :: pj0)). }
    destruct Hj as [B1 [B2 B3]]. clearbody j'.
    repeat split.
    - simpl. unfold fields_of. rewrite A2, B2. fold (fields_of p1). fold (fields_of p2).
      rewrite Hs0, list_eqb_name_refl, Hs3, A1, B1. reflexivity.
    - intros env. rewrite den_filter, !den_lj, and_filter_fields, A3.
      assert (FO : fields_of (PLookupJoin s0 p1 p2) = fields_of p1 ++ fields_of p2) by (unfold fields_of; simpl; exact Hs0).
      rewrite FO. symmetry.
      erewrite filter_ext; [|intros r; symmetry; apply keep_split].
      rewrite filter_flat_map, flat_map_filter. apply flat_map_ext_in. intros sr Hsr.
      assert (Hl : length (fields_of p1) = length sr) by (symmetry; eapply rows_len; eauto).
      rewrite B3. rewrite filter_map_comm.
      destruct (all_true psrc (fields_of p1) env sr) eqn:EP.
      + f_equal. apply filter_ext. intros jr.
        rewrite (lj_split_sem _ _ _ _ _ _ Es Hd env sr jr Hl), EP. reflexivity.
      + assert (Hnil : filter (fun x => all_true (split_by_and pred) (fields_of p1 ++ fields_of p2) env (sr ++ x))
                         (den p2 ((fields_of p1, sr) :: env)) = []).
        { induction (den p2 ((fields_of p1, sr) :: env)) as [|jr t IHt]; simpl; [reflexivity|].
          rewrite (lj_split_sem _ _ _ _ _ _ Es Hd env sr jr Hl), EP. simpl. exact IHt. }
        rewrite Hnil. reflexivity.
  Qed.

  (* ---- the five filter rules, as run by Optimize ---- *)
  Definition rule_sound (r : rule) : Prop := forall p p' c, shapeb p = true -> r p = Ok (p', c) -> good p p'.

  Definition filter_rule_name (nm : string) : bool :=
    String.eqb nm "PushDownFilterPredicatesToDatasource" || String.eqb nm "PushDownFilterPredicatesIntoLookupJoinBranch" ||
    String.eqb nm "PushDownFilterPredicatesIntoStreamJoinBranch" || String.eqb nm "PushDownFilterPredicatesIntoStreamJoinKey" ||
    String.eqb nm "MergeFilters".

  Lemma filter_rule_sound c nm : filter_rule_name nm = true -> rule_sound (apply_rule c nm).
  Proof.
    unfold filter_rule_name. intros H.
    repeat (apply orb_true_iff in H; destruct H as [H|H]); apply String.eqb_eq in H; subst nm;
      unfold apply_rule, rule_of_name; simpl; intros p p' ch Hs Hr.
    - eapply run_nt_sound; [apply ds_pushdown_sound | exact Hs | exact Hr].
    - eapply run_nt_sound; [apply lj_branch_sound | exact Hs | exact Hr].
    - eapply run_nt_sound; [apply sj_branch_sound | exact Hs | exact Hr].
    - eapply run_nt_sound; [apply sj_key_sound | exact Hs | exact Hr].
    - eapply run_nt_sound; [apply merge_sound | exact Hs | exact Hr].
  Qed.

  (* ---- Optimize: any list of sound rules, iterated any number of rounds ---- *)
  Lemma optimize_round_sound c rules : Forall (fun nm => rule_sound (apply_rule c nm)) rules ->
    forall p ch p' ch', shapeb p = true -> optimize_round c rules p ch = Ok (p', ch') -> good p p'.
  Proof.
    induction 1 as [|nm rules Hnm Hrules IH]; intros p ch p' ch' Hs H; simpl in H.
    - inversion H; subst. apply good_refl; exact Hs.
    - destruct (apply_rule c nm p) as [[q cq]| |] eqn:E; simpl in H; try discriminate.
      destruct cq.
      + pose proof (Hnm p q true Hs E) as G. eapply good_trans; [exact G|]. eapply IH; [apply G | exact H].
      + eapply IH; [exact Hs | exact H].
  Qed.
  Lemma optimize_with_sound c rules : Forall (fun nm => rule_sound (apply_rule c nm)) rules ->
    forall fuel p p', shapeb p = true -> optimize_with c rules fuel p = Ok p' -> good p p'.
  Proof.
    intros HF. induction fuel as [|n IH]; intros p p' Hs H; simpl in H; [discriminate|].
    destruct (optimize_round c rules p false) as [[q cq]| |] eqn:E; simpl in H; try discriminate.
    pose proof (optimize_round_sound c rules HF p false q cq Hs E) as G.
    destruct cq.
    - eapply good_trans; [exact G|]. eapply IH; [apply G | exact H].
    - inversion H; subst. exact G.
  Qed.

  (* ---- column pruning: the algebraic core of the three remove-unused rules ---- *)
  (* dropping the i-th expression of a map is dropping the i-th column of its output *)
  Lemma map_prune s es src i env :
    den (PMap (schema_remove i s) (remove_nth i es) src) env = map (remove_nth i) (den (PMap s es src) env).
  Proof.
    simpl. rewrite map_map. apply map_ext. intros r. unfold Plan.evals.
    generalize ((fields_of src, r) :: env). intros e0. revert i. induction es as [|e es IH]; intros [|i]; simpl; auto.
    rewrite IH. reflexivity.
  Qed.
  (* dropping a field of a datasource's schema is dropping that column of its rows, when no pushed-down predicate
     mentions the field *)
  Lemma lookup_pruned n f fs (r : row) i env :
    NoDup fs -> length fs = length r -> last_index f fs = Some i -> n <> f ->
    lookup n ((remove_nth i fs, remove_nth i r) :: env) = lookup n ((fs, r) :: env).
  Proof.
    intros Hnd Hl Hi Hn. simpl.
    assert (H : assoc n (combine (remove_nth i fs) (remove_nth i r)) = assoc n (combine fs r)); [|rewrite H; reflexivity].
    revert r i Hl Hi. induction fs as [|x fs IH]; intros [|v r] i Hl Hi; simpl in *; try discriminate.
    inversion Hnd as [|? ? Hx Hnd']; subst.
    destruct (last_index f fs) as [j|] eqn:Ej.
    - inversion Hi; subst. simpl. destruct (name_eqb n x); [reflexivity|]. apply IH; auto.
    - destruct (name_eqb x f) eqn:Exf; [|discriminate]. inversion Hi; subst. apply name_eqb_eq in Exf. subst x.
      simpl. destruct (name_eqb n f) eqn:Enf; [apply name_eqb_eq in Enf; contradiction | reflexivity].
  Qed.
  Lemma datasource_prune s n al mp pol preds i f env :
    NoDup (sf s) -> last_index f (sf s) = Some i -> (forall e, In e preds -> ~ In f (expr_vars e)) ->
    den (PDatasource (schema_remove i s) n al mp pol preds) env =
    map (remove_nth i) (den (PDatasource s n al mp pol preds) env).
  Proof.
    intros Hnd Hi Hp. simpl.
    assert (Hrow : forall rec : name -> value, map rec (remove_nth i (sf s)) = remove_nth i (map rec (sf s))).
    { intros rec. clear. revert i. induction (sf s) as [|x l IH]; intros [|i]; simpl; auto. rewrite IH. reflexivity. }
    rewrite !filter_map_comm, map_map.
    rewrite (map_ext _ _ Hrow). f_equal. apply filter_ext. intros rec.
    apply forallb_ext_in. intros e He. unfold Plan.keep. f_equal. apply eval_ext. intros v Hv.
    rewrite Hrow. apply lookup_pruned with (f := f); auto.
    - rewrite map_length. reflexivity.
    - intros ->. exact (Hp e He Hv).
  Qed.
End Sound.

(* ---- the pinned tree: witnesses ---- *)
Local Open Scope string_scope.
Definition w_ds (al : string) (f : string) : plan :=
  PDatasource (mkS [f] (-1)) (al ++ ".json") al [(al ++ ".a", f)] 0 [].
(* SELECT ... FROM t JOIN u ON t.a IN (1, 2) *)
Definition w_in_tuple : plan :=
  PFilter (mkS ["t.a_0"; "u.a_0"] (-1))
    (ECall "in" [EVar "t.a_0" true; EOther 7 "" [EConst (VInt 1); EConst (VInt 2)]])
    (PStreamJoin (mkS ["t.a_0"; "u.a_0"] (-1)) [] [] (w_ds "t" "t.a_0") (w_ds "u" "u.a_0")).
Lemma pinned_variables_used_panics :
  wf_plan w_in_tuple /\
  apply_rule pinned_cfg "PushDownFilterPredicatesIntoStreamJoinBranch" w_in_tuple = Panic panic_unexhaustive_expression /\
  (exists fuel, optimize pinned_cfg fuel w_in_tuple = Panic panic_unexhaustive_expression) /\
  is_ok (optimize fixed_cfg 8 w_in_tuple) = true.
Proof. repeat split; try (exists 8%nat); vm_compute; reflexivity. Qed.

(* SELECT x.a FROM (SELECT 1 AS a, unnest(l) AS u FROM l.json t) x *)
Definition w_unnest : plan :=
  PMap (mkS ["x.a_0"] (-1)) [EVar "a_0" true]
    (PUnnest (mkS ["a_0"; "u_0"] (-1)) "u_0"
       (PMap (mkS ["a_0"; "u_0"] (-1)) [EConst (VInt 1); EVar "t.l_0" true]
          (PDatasource (mkS ["t.l_0"] (-1)) "l.json" "t" [("t.l", "t.l_0")] 0 []))).
Definition w_db (l : list value) : name -> name -> list (name * name) -> list (name -> value) :=
  fun _ _ _ => map (fun v => fun _ : name => v) l.
Definition w_den (km_pinned : bool) (tables : list value) (p : plan) : list row :=
  (if km_pinned then den_plan_pinned else den_plan)
    (w_db tables) (fun _ _ => VNull) (fun _ v => v) (fun _ v => v) (fun _ _ _ => VNull) (fun _ _ => VNull)
    (fun a b => list_eqb value_eqb a b) (fun rows => seq 0 (length rows)) (fun ks _ _ => seq 0 (length ks))
    (fun _ _ _ _ => []) p [].
Lemma pinned_unnest_field_pruned :
  wf_plan w_unnest /\
  exists p', apply_rule pinned_cfg "RemoveUnusedMapFields" w_unnest = Ok (p', true) /\
             shapeb p' = false /\                          (* the Unnest names a field its schema no longer has *)
             w_den false [VList [VInt 7; VInt 8]] p' <> w_den false [VList [VInt 7; VInt 8]] w_unnest /\
             apply_rule fixed_cfg "RemoveUnusedMapFields" w_unnest = Ok (w_unnest, false).
Proof.
  split; [vm_compute; reflexivity|]. eexists. split; [vm_compute; reflexivity|].
  split; [vm_compute; reflexivity|]. split; [vm_compute; discriminate | vm_compute; reflexivity].
Qed.

(* SELECT ... FROM t JOIN u ON t.a = u.a  with a NULL key on both sides, under the pinned join (NULL = NULL) *)
Definition w_join_eq : plan :=
  PFilter (mkS ["t.a_0"; "u.a_0"] (-1)) (ECall "=" [EVar "t.a_0" true; EVar "u.a_0" true])
    (PStreamJoin (mkS ["t.a_0"; "u.a_0"] (-1)) [] [] (w_ds "t" "t.a_0") (w_ds "u" "u.a_0")).
Lemma pinned_join_null_keys_match :
  wf_plan w_join_eq /\
  exists p', apply_rule fixed_cfg "PushDownFilterPredicatesIntoStreamJoinKey" w_join_eq = Ok (p', true) /\
             w_den true [VNull] w_join_eq = [] /\ w_den true [VNull] p' = [[VNull; VNull]] /\
             w_den false [VNull] p' = [].
Proof.
  split; [vm_compute; reflexivity|]. eexists. split; [vm_compute; reflexivity|].
  repeat split; vm_compute; reflexivity.
Qed.

Lemma wf_shape scope p : wf_planb scope p = true -> shapeb p = true.
Proof. unfold wf_planb. intros H. apply andb_true_iff in H. apply H. Qed.
