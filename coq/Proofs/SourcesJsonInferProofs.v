(* Proofs/SourcesJsonInferProofs.v — C24: nested JSON inference.  Witnesses: on /repo main before the
   duplicate-key fix a row the schema was inferred from is rejected at execution; after it the same rows
   are accepted.  (The general statement is open, see Properties/C24.v.) *)
From Octo Require Import Types SourcesJsonInfer.

Definition kk : bytes := [107].
Definition ko : bytes := [111].
Definition num1 : jval := JVNum 4607182418800017408.
Definition str_s : jval := JVStr [115] None None.

(* {"o":{"k":1,"k":"s"}} : described as o: {k: Float; k: String}; the row itself does not fit *)
Theorem json_main_duplicate_key_refuted :
  exists rows fs r, infer_json_nested false rows = Ok fs /\ In r (firstn 100 rows) /\
    exists e, exec_json_row true (nschema fs) r = Err e.
Proof.
  exists [[(ko, JVObj [(kk, num1); (kk, str_s)])]], [(ko, TStruct [(kk, TFloat); (kk, TStr)])], [(ko, JVObj [(kk, num1); (kk, str_s)])].
  split. vm_compute. reflexivity. split. simpl; auto. exists e_not_representable. vm_compute. reflexivity.
Qed.

(* {"o":{"k":1}} then {"o":{"k":"s","k":2}} : the struct merge keeps the last k (Float), reading takes the first *)
Theorem json_main_duplicate_key_merge_refuted :
  exists rows fs r, infer_json_nested false rows = Ok fs /\ In r (firstn 100 rows) /\
    exists e, exec_json_row true (nschema fs) r = Err e.
Proof.
  exists [[(ko, JVObj [(kk, num1)])]; [(ko, JVObj [(kk, str_s); (kk, num1)])]], [(ko, TStruct [(kk, TFloat)])], [(ko, JVObj [(kk, str_s); (kk, num1)])].
  split. vm_compute. reflexivity. split. simpl; auto. exists e_not_representable. vm_compute. reflexivity.
Qed.

(* after the fix both files are read *)
Example json_fixed_duplicate_keys :
  let rows1 := [[(ko, JVObj [(kk, num1); (kk, str_s)])]] in
  let rows2 := [[(ko, JVObj [(kk, num1)])]; [(ko, JVObj [(kk, str_s); (kk, num1)])]] in
  (exists fs, infer_json_nested true rows1 = Ok fs /\ preview_rows_accepted (nschema fs) rows1 = true) /\
  (exists fs, infer_json_nested true rows2 = Ok fs /\ preview_rows_accepted (nschema fs) rows2 = true).
Proof. split; eexists; split; vm_compute; reflexivity. Qed.

(* nested lists, objects with different keys, a null: {"a":[{"x":1},{"y":[]}]}, {"a":[{"y":[1]}]}, {"a":null} *)
Example json_nested_inference_example :
  let kx := [120] in let ky := [121] in let ka := [97] in
  let rows := [[(ka, JVArr [JVObj [(kx, num1)]; JVObj [(ky, JVArr [])]])]; [(ka, JVArr [JVObj [(ky, JVArr [num1])]])]; [(ka, JVNull)]] in
  infer_json_nested true rows
  = Ok [(ka, TUnion [TNull; TList (Some (TStruct [(kx, TUnion [TNull; TFloat]); (ky, TUnion [TNull; TList (Some TFloat)])]))])] /\
  preview_rows_accepted (nschema [(ka, TUnion [TNull; TList (Some (TStruct [(kx, TUnion [TNull; TFloat]); (ky, TUnion [TNull; TList (Some TFloat)])]))])]) rows = true.
Proof. split; vm_compute; reflexivity. Qed.
