(* Proofs/TypesInterProofs.v — TypeSum of two types that both are c is c (for normal-form c, outside the finding's
   class), hence TypeIntersection(a,b) is contained in a and in b. *)
From Coq Require Import Sorted.
From Octo Require Import Types TypesClash TypesIsProofs TypesSumFuel TypesTransProofs TypesSumProofs TypesSumProofs2.

(* ---- a normal-form union has one alternative per TypeID ---- *)
Lemma ascending_strong : forall l, ascending l = true -> StronglySorted Z.lt l.
Proof.
  induction l as [|x l IH]; intro H; [constructor|]. destruct l as [|y l]; [constructor; constructor|].
  simpl in H. apply andb_true_iff in H. destruct H as [Hxy Hr]. specialize (IH Hr). apply Z.ltb_lt in Hxy.
  constructor; [exact IH|]. constructor; [exact Hxy|].
  inversion IH as [|? ? _ Fy]; subst. rewrite Forall_forall in *. intros z Hz. specialize (Fy z Hz). lia.
Qed.

Lemma sorted_unique_tid : forall C c1 c2, StronglySorted Z.lt (map tyid C) -> In c1 C -> In c2 C -> tyid c1 = tyid c2 -> c1 = c2.
Proof.
  induction C as [|c C IH]; intros c1 c2 S H1 H2 E; [destruct H1|]. simpl in S. inversion S as [|? ? S' F]; subst.
  rewrite Forall_forall in F.
  destruct H1 as [H1|H1], H2 as [H2|H2]; subst.
  - reflexivity.
  - exfalso. specialize (F (tyid c2) (in_map tyid C c2 H2)). lia.
  - exfalso. specialize (F (tyid c1) (in_map tyid C c1 H1)). lia.
  - apply IH; assumption.
Qed.

Definition is_container (t : ty) : bool :=
  match t with TList (Some _) | TStruct _ | TTuple _ => true | _ => false end.

Lemma container_is_tid : forall a c, is_container a = true -> is_union c = false -> is_any c = false ->
  is_rel a c = Is -> tyid c = tyid a.
Proof.
  intros a c Ca Uc Ac H. destruct a as [ | | | | | | |[x|]|f|l|al| ]; try discriminate Ca;
    destruct c; try discriminate Uc; try discriminate Ac; simpl in H; try discriminate H; reflexivity.
Qed.

Lemma wf_union_parts : forall C, wf_ty (TUnion C) = true ->
  (forall c, In c C -> wf_ty c = true /\ is_union c = false /\ is_any c = false) /\ StronglySorted Z.lt (map tyid C).
Proof.
  intros C H. simpl in H. repeat (apply andb_true_iff in H; destruct H as [H ?]).
  split; [|apply ascending_strong; assumption].
  intros c Hc. rewrite forallb_forall in *. split; [auto|].
  specialize (H1 c Hc). apply andb_true_iff in H1. destruct H1 as [U A].
  split; [destruct (is_union c); [discriminate|reflexivity]|].
  destruct c; try reflexivity. discriminate A.
Qed.

(* two containers of one kind that both are c are both the same alternative of c *)
Lemma common_alt : forall a b c, wf_ty c = true -> is_container a = true -> is_container b = true -> tyid a = tyid b ->
  is_rel a c = Is -> is_rel b c = Is ->
  is_any c = true \/
  exists c', wf_ty c' = true /\ is_union c' = false /\ is_any c' = false /\ is_rel a c' = Is /\ is_rel b c' = Is /\
             (forall r, is_rel r c' = Is -> is_rel r c = Is).
Proof.
  intros a b c W Ca Cb T Ha Hb. destruct (is_any c) eqn:A; [left; reflexivity|]. right.
  assert (Ua : is_union a = false) by (destruct a as [ | | | | | | |[x|]|f|l|al| ]; try discriminate Ca; reflexivity).
  assert (Ub : is_union b = false) by (destruct b as [ | | | | | | |[x|]|f|l|al| ]; try discriminate Cb; reflexivity).
  destruct (is_union c) eqn:U.
  - destruct c as [ | | | | | | | | | |C| ]; try discriminate U.
    destruct (wf_union_parts C W) as [P S].
    apply (is_rel_union_r_Is a C Ua) in Ha. destruct Ha as [c1 [H1 E1]].
    apply (is_rel_union_r_Is b C Ub) in Hb. destruct Hb as [c2 [H2 E2]].
    destruct (P c1 H1) as [W1 [U1 A1]]. destruct (P c2 H2) as [W2 [U2 A2]].
    assert (c1 = c2).
    { apply (sorted_unique_tid C c1 c2 S H1 H2). rewrite (container_is_tid a c1 Ca U1 A1 E1), (container_is_tid b c2 Cb U2 A2 E2). exact T. }
    subst c2. exists c1. repeat split; try assumption. intros r Hr. apply (is_in_union r C c1 H1 Hr).
  - exists c. repeat split; try assumption. auto.
Qed.

Definition lub_ok (x y r : ty) : Prop :=
  forall c, wf_ty c = true -> is_rel x c = Is -> is_rel y c = Is -> is_rel r c = Is.

Lemma wf_struct_fields : forall fs, wf_ty (TStruct fs) = true -> Forall (fun f => wf_ty (snd f) = true) fs.
Proof. intros fs H. simpl in H. apply Forall_forall. rewrite forallb_forall in H. exact H. Qed.
Lemma wf_tuple_elems : forall es, wf_ty (TTuple es) = true -> Forall (fun e => wf_ty e = true) es.
Proof. intros es H. simpl in H. apply Forall_forall. rewrite forallb_forall in H. exact H. Qed.

Section LevelLub.
  Variable rec : ty -> ty -> outcome ty.
  Variable recc : ty -> ty -> bool.
  Hypothesis Hrec : forall x y r, rec x y = Ok r -> recc x y = false -> lub_ok x y r.

  Lemma zip_fields_lub : forall f1 f2 fs cf, map fst f1 = map fst f2 ->
    outcome_all (zip_fields rec f1 f2) = Ok fs -> fields_clash recc f1 f2 = false ->
    Forall (fun f => wf_ty (snd f) = true) cf ->
    fields_rel f1 cf = Is -> fields_rel f2 cf = Is -> fields_rel fs cf = Is.
  Proof.
    induction f1 as [|[n x] r1 IH]; intros [|[m y] r2] fs cf E H C W H1 H2; simpl in E; try discriminate.
    - simpl in H. inversion H; subst. exact H1.
    - injection E as En Er. subst m. simpl in H, C. apply orb_false_iff in C. destruct C as [C1 C2].
      destruct (rec x y) as [s| |] eqn:Es; simpl in H; try discriminate H.
      destruct (outcome_all (zip_fields rec r1 r2)) as [fs'| |] eqn:Ef; simpl in H; try discriminate H. inversion H; subst.
      destruct cf as [|[k z] cf]; simpl in H1; try discriminate H1. simpl in H2.
      destruct (bytes_eqb n k) eqn:B; simpl in H1, H2; try discriminate H1.
      destruct (is_rel x z) eqn:R1; simpl in H1; try discriminate H1.
      destruct (is_rel y z) eqn:R2; simpl in H2; try discriminate H2.
      inversion W as [|? ? Wz Wcf]; subst. simpl in Wz.
      simpl. rewrite B. simpl. rewrite (Hrec x y s Es C1 z Wz R1 R2). simpl.
      apply (IH r2 fs' cf Er Ef C2 Wcf H1 H2).
  Qed.

  Lemma tuple_merge_lub : forall l2 l1 es ce, length l1 = length l2 ->
    tuple_merge rec l2 l1 = Ok es -> elems_clash recc l2 l1 = false ->
    Forall (fun e => wf_ty e = true) ce ->
    elems_rel l1 ce = Is -> elems_rel l2 ce = Is -> elems_rel es ce = Is.
  Proof.
    induction l2 as [|y l2 IH]; intros [|x l1] es ce L H C W H1 H2; simpl in L; try discriminate.
    - simpl in H. inversion H; subst. exact H1.
    - simpl in H, C. apply orb_false_iff in C. destruct C as [C1 C2].
      destruct (rec y x) as [s| |] eqn:Es; simpl in H; try discriminate H.
      destruct (tuple_merge rec l2 l1) as [es'| |] eqn:Et; simpl in H; try discriminate H. inversion H; subst.
      destruct ce as [|z ce]; simpl in H1; try discriminate H1. simpl in H2.
      destruct (is_rel x z) eqn:R1; simpl in H1; try discriminate H1.
      destruct (is_rel y z) eqn:R2; simpl in H2; try discriminate H2.
      inversion W as [|? ? Wz Wce]; subst.
      simpl. rewrite (Hrec y x s Es C1 z Wz R2 R1). simpl.
      apply (IH l1 es' ce ltac:(lia) Et C2 Wce H1 H2).
  Qed.

  Lemma sum_flat_lub : forall a b r, sum_flat rec a b = Ok r -> clash_flat recc a b = false -> lub_ok a b r.
  Proof.
    intros a b r H C c W Ha Hb. unfold sum_flat in H. unfold clash_flat in C.
    destruct (is_rel a b) eqn:Eab; cbv beta iota delta [is_Is] in H, C; try (inversion H; subst; exact Hb).
    all: destruct (is_rel b a) eqn:Eba; cbv beta iota delta [is_Is] in H, C; try (inversion H; subst; exact Ha).
    all: destruct a as [ | | | | | | |[x|]|f1|l1|alts1| ], b as [ | | | | | | |[y|]|f2|l2|alts2| ];
      try (inversion H; subst; apply is_rel_union_l_Is; intros z Hz; apply (proj1 (sort_in _ _)) in Hz;
           destruct Hz as [Hz|[Hz|[]]]; subst; assumption);
      try (inversion H; subst; assumption).
    all: match type of Ha with is_rel ?a _ = Is => match type of Hb with is_rel ?b _ = Is =>
             destruct (common_alt a b c W eq_refl eq_refl eq_refl Ha Hb) as [A|[c' [W' [U' [A' [Ha' [Hb' K]]]]]]];
             [destruct c; try discriminate A; apply is_rel_any | apply K; clear K Ha Hb]
         end end.
    all: match type of H with
         | context [struct_merge] =>
             apply orb_false_iff in C; destruct C as [C1 C2]; apply negb_false_iff in C1;
             rewrite (struct_merge_aligned rec f1 f2 C1) in H;
             destruct (outcome_all (zip_fields rec f1 f2)) as [fs| |] eqn:Ef; simpl in H; try discriminate H; inversion H; subst;
             destruct c' as [ | | | | | | | |cf| | | ]; try discriminate U'; try discriminate A'; simpl in Ha'; try discriminate Ha';
             rewrite is_rel_struct in *;
             apply (zip_fields_lub f1 f2 fs cf (shapes_ok_names f1 f2 C1) Ef C2 (wf_struct_fields cf W') Ha' Hb')
         | context [tuple_merge] =>
             apply orb_false_iff in C; destruct C as [C1 C2]; apply negb_false_iff in C1; apply Nat.eqb_eq in C1;
             rewrite C1, Nat.ltb_irrefl in H;
             destruct (tuple_merge rec l2 l1) as [es| |] eqn:Et; simpl in H; try discriminate H; inversion H; subst;
             destruct c' as [ | | | | | | | | |ce| | ]; try discriminate U'; try discriminate A'; simpl in Ha'; try discriminate Ha';
             rewrite is_rel_tuple in *;
             apply (tuple_merge_lub l2 l1 es ce C1 Et C2 (wf_tuple_elems ce W') Ha' Hb')
         | _ =>
             destruct (rec x y) as [s| |] eqn:E; simpl in H; try discriminate H; inversion H; subst;
             destruct c' as [ | | | | | | |[z|]| | | | ]; try discriminate U'; try discriminate A'; simpl in Ha', Hb'; try discriminate Ha';
             destruct (is_rel x z) eqn:R1; try discriminate Ha'; destruct (is_rel y z) eqn:R2; try discriminate Hb';
             simpl in W'; simpl; rewrite (Hrec x y s E C z W' R1 R2); reflexivity
         end.
  Qed.

  Lemma replace_first_lub : forall alts b l c, wf_ty c = true ->
    replace_first_tid rec alts b = Some (Ok l) -> clash_first_tid recc alts b = false ->
    (forall a, In a alts -> is_rel a c = Is) -> is_rel b c = Is -> (forall x, In x l -> is_rel x c = Is).
  Proof.
    induction alts as [|a alts IH]; intros b l c W H C Ha Hb; simpl in H, C; [discriminate|].
    destruct (tyid a =? tyid b).
    - destruct (sum_flat rec a b) as [s| |] eqn:E; simpl in H; try discriminate H. inversion H; subst.
      intros x [Hx|Hx]; [subst; apply (sum_flat_lub a b x E C c W (Ha a (or_introl eq_refl)) Hb) | apply Ha; right; exact Hx].
    - destruct (replace_first_tid rec alts b) as [o|] eqn:E; [|discriminate].
      destruct o as [l'| |]; simpl in H; try discriminate H. inversion H; subst.
      intros x [Hx|Hx]; [subst; apply Ha; left; reflexivity|].
      apply (IH b l' c W E C (fun a0 H0 => Ha a0 (or_intror H0)) Hb x Hx).
  Qed.

  Lemma sum_union_single_lub : forall alts b r,
    sum_union_single rec alts b = Ok r -> clash_first_tid recc alts b = false -> lub_ok (TUnion alts) b r.
  Proof.
    intros alts b r H C c W Ha Hb. unfold sum_union_single in H. rewrite is_rel_union_l_Is in Ha.
    destruct (replace_first_tid rec alts b) as [o|] eqn:E.
    - destruct o as [l| |]; simpl in H; try discriminate H. inversion H; subst.
      apply is_rel_union_l_Is. apply (replace_first_lub alts b l c W E C Ha Hb).
    - inversion H; subst. apply is_rel_union_l_Is. intros x Hx. apply (proj1 (sort_in _ _)) in Hx.
      apply in_app_or in Hx. destruct Hx as [Hx|[Hx|[]]]; [apply Ha; exact Hx | subst; exact Hb].
  Qed.

  Lemma type_sum_level_lub : forall b a r,
    type_sum_level rec a b = Ok r -> clash_level rec recc a b = false -> lub_ok a b r.
  Proof.
    induction b as [ | | | | | | | |e IHe|fs IH|es IH|alts2 IH| ] using ty_ind'; intros a r H C c W Ha Hb;
      rewrite type_sum_level_eq in H; rewrite clash_level_eq in C;
      (match type of H with context [is_Is (is_rel a ?b)] => destruct (is_rel a b) eqn:Eab; destruct (is_rel b a) eqn:Eba end;
       cbv beta iota delta [is_Is] in H, C;
       try (inversion H; subst; exact Hb);
       try (inversion H; subst; exact Ha)).
    all: destruct a as [ | | | | | | | e1 | fs1 | es1 | alts1 | ];
      try (apply (sum_flat_lub _ _ r H C c W Ha Hb));
      try (apply (sum_union_single_lub _ _ r H C c W Ha Hb));
      try (apply (sum_union_single_lub alts2 _ r H C c W Hb Ha)).
    (* both unions *)
    all: assert (G : forall l o r, (forall x, In x l -> In x alts2) -> is_rel o c = Is ->
          (fix fold (l : list ty) (out : outcome ty) : outcome ty :=
             match l with [] => out | bk :: rest => fold rest (obind out (fun o => type_sum_level rec o bk)) end) l (Ok o) = Ok r ->
          (fix fold (l : list ty) (out : outcome ty) : bool :=
             match l with
             | [] => false
             | bk :: rest => match out with
                             | Ok o => clash_level rec recc o bk || fold rest (type_sum_level rec o bk)
                             | _ => true
                             end
             end) l (Ok o) = false ->
          is_rel r c = Is);
      [ induction l as [|bk l IHl]; intros o r0 Hl Ho Hf Cf;
        [ inversion Hf; subst; exact Ho
        | simpl in Hf; apply orb_false_iff in Cf; destruct Cf as [Cf1 Cf2];
          destruct (type_sum_level rec o bk) as [o'| |] eqn:Eo;
          [ rewrite Forall_forall in IH;
            apply (IHl o' r0 (fun x Hx => Hl x (or_intror Hx))
                       (IH bk (Hl bk (or_introl eq_refl)) o o' Eo Cf1 c W Ho (proj1 (is_rel_union_l_Is alts2 c) Hb bk (Hl bk (or_introl eq_refl)))) Hf Cf2)
          | exfalso; revert Hf; apply fold_not_ok; intros; discriminate
          | exfalso; revert Hf; apply fold_not_ok; intros; discriminate ] ]
      | apply (G alts2 (TUnion alts1) r (fun x Hx => Hx) Ha H C) ].
  Qed.
End LevelLub.

Theorem sum_lub_gen : forall f a b r, type_sum f a b = Ok r -> sum_clash_f f a b = false -> lub_ok a b r.
Proof.
  induction f as [|f IH]; intros a b r H C; [discriminate H|].
  simpl in H, C. apply (type_sum_level_lub (type_sum f) (sum_clash_f f) IH b a r H C).
Qed.

(* TypeSum is the least upper bound among normal-form types: if a and b both are c, so is their sum *)
Theorem sum_least : forall a b c s, wf_ty c = true -> sum_clash a b = false -> tsum a b = Ok s ->
  is_rel a c = Is -> is_rel b c = Is -> is_rel s c = Is.
Proof. intros a b c s W C E Ha Hb. apply (sum_lub_gen _ a b s E C c W Ha Hb). Qed.

(* ---- TypeIntersection ---- *)
Lemma prim_is : forall t p, In p (prims t) -> is_rel p t = Is.
Proof.
  induction t as [ | | | | | | | |e IHe|fs IH|es IH|alts IH| ] using ty_ind'; intros p H;
    try (destruct H as [H|[]]; subst; apply is_refl).
  simpl in H. apply in_flat_map in H. destruct H as [a [Ha Hp]]. rewrite Forall_forall in IH.
  apply (is_in_union p alts a Ha). apply (IH a Ha p Hp).
Qed.

Lemma inter_clash_step_fst : forall other acc t, fst (inter_clash_step other acc t) = inter_step other (fst acc) t.
Proof.
  intros other [o fl] t. unfold inter_clash_step. simpl. destruct o as [[out|]| |]; try reflexivity.
  destruct (is_Is (is_rel t other)) eqn:E; [reflexivity|]. simpl. unfold inter_step. simpl. rewrite E. reflexivity.
Qed.
Lemma inter_clash_step_mono : forall other acc t, snd acc = true -> snd (inter_clash_step other acc t) = true.
Proof.
  intros other [o fl] t H. simpl in H. subst. unfold inter_clash_step. simpl. destruct o as [[out|]| |]; try reflexivity.
  destruct (is_Is (is_rel t other)); reflexivity.
Qed.
Lemma inter_clash_fold_mono : forall other l acc, snd acc = true -> snd (fold_left (inter_clash_step other) l acc) = true.
Proof. induction l as [|t l IH]; intros acc H; [exact H|]. simpl. apply IH. apply inter_clash_step_mono. exact H. Qed.
Lemma inter_clash_fold_fst : forall other l acc, fst (fold_left (inter_clash_step other) l acc) = fold_left (inter_step other) l (fst acc).
Proof. induction l as [|t l IH]; intro acc; [reflexivity|]. simpl. rewrite IH, inter_clash_step_fst. reflexivity. Qed.

Definition inter_inv (a b : ty) (o : outcome (option ty)) : Prop :=
  match o with
  | Ok None => True
  | Ok (Some out) => is_rel out a = Is /\ is_rel out b = Is
  | _ => False
  end.

(* one loop: [mine] is the operand whose alternatives are visited, [other] the one they are tested against *)
Lemma inter_loop : forall mine other, wf_ty mine = true -> wf_ty other = true ->
  forall l, (forall p, In p l -> is_rel p mine = Is) ->
  forall acc, inter_inv mine other (fst acc) ->
    snd (fold_left (inter_clash_step other) l acc) = false ->
    inter_inv mine other (fst (fold_left (inter_clash_step other) l acc)).
Proof.
  intros mine other Wm Wo. induction l as [|p l IH]; intros Hl acc Inv C; [exact Inv|]. simpl in *.
  assert (C1 : snd (inter_clash_step other acc p) = false).
  { destruct (snd (inter_clash_step other acc p)) eqn:E; [|reflexivity]. rewrite inter_clash_fold_mono in C by exact E. discriminate. }
  apply IH; [intros q Hq; apply Hl; right; exact Hq | | exact C].
  destruct acc as [o fl]. unfold inter_clash_step in *. simpl in *. destruct o as [[out|]| |]; try contradiction.
  - destruct (is_rel p other) eqn:E; simpl in *; try exact Inv.
    apply orb_false_iff in C1. destruct C1 as [_ C1]. destruct Inv as [I1 I2].
    unfold inter_step. simpl. rewrite E. simpl.
    destruct (sum_fuel_enough out p) as [s [Es _]]. rewrite Es. simpl. split.
    + apply (sum_least out p mine s Wm C1 Es I1 (Hl p (or_introl eq_refl))).
    + apply (sum_least out p other s Wo C1 Es I2 E).
  - unfold inter_step. simpl. destruct (is_rel p other) eqn:E; simpl; try exact I.
    split; [apply Hl; left; reflexivity | exact E].
Qed.

Theorem inter_lower : forall a b t, wf_ty a = true -> wf_ty b = true -> inter_clash a b = false ->
  type_inter a b = Ok (Some t) -> is_rel t a = Is /\ is_rel t b = Is.
Proof.
  intros a b t Wa Wb C H. unfold inter_clash in C. unfold type_inter in H.
  set (acc1 := fold_left (inter_clash_step b) (prims a) (Ok None, false)) in *.
  assert (C1 : snd acc1 = false).
  { destruct (snd acc1) eqn:E; [|reflexivity]. rewrite inter_clash_fold_mono in C by exact E. discriminate. }
  assert (I1 : inter_inv a b (fst acc1)).
  { apply (inter_loop a b Wa Wb (prims a) (prim_is a) (Ok None, false) I C1). }
  assert (I2 : inter_inv b a (fst (fold_left (inter_clash_step a) (prims b) acc1))).
  { apply (inter_loop b a Wb Wa (prims b) (prim_is b) acc1); [|exact C].
    destruct (fst acc1) as [[out|]| |]; simpl in *; tauto. }
  rewrite inter_clash_fold_fst in I2. unfold acc1 in I2. rewrite inter_clash_fold_fst in I2. simpl in I2.
  rewrite H in I2. simpl in I2. tauto.
Qed.
