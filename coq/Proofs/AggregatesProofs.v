(* Proofs/AggregatesProofs.v — C14: every aggregate of aggregates/*.go reports, after any valid add/retract
   history, the aggregate of the net multiset computed from scratch.  Model: Model/Aggregates.v. *)
From Coq Require Import Sorted.
From Octo Require Import Aggregates CompareLaws.


(* ---- Compare-classes ---- *)
Lemma veq_refl a : veq a a = true.
Proof. unfold veq. rewrite vcompare_refl. reflexivity. Qed.
Lemma veq_sym a b : veq a b = veq b a.
Proof. unfold veq. rewrite (vcompare_antisym b a). destruct (vcompare_range b a) as [E|[E|E]]; rewrite E; reflexivity. Qed.
Lemma veq_cong a b c : veq a b = true -> veq a c = veq b c.
Proof. unfold veq. rewrite Z.eqb_eq. intro H. rewrite (vcompare_eq_cong a b c H). reflexivity. Qed.
Lemma veq_cong_r a b c : veq b c = true -> veq a b = veq a c.
Proof. unfold veq. rewrite Z.eqb_eq. intro H. rewrite (vcompare_eq_cong_r a b c H). reflexivity. Qed.
Lemma veq_trans a b c : veq a b = true -> veq b c = true -> veq a c = true.
Proof. intros H1 H2. rewrite (veq_cong a b c H1). exact H2. Qed.

Lemma delta_cases r : delta r = 1 \/ delta r = -1.
Proof. destruct r; simpl; auto. Qed.

(* ---- algebra of net / ccount ---- *)
Lemma net_app a b v : net (a ++ b) v = net a v + net b v.
Proof. induction a as [|[r x] t IH]; simpl; [reflexivity | rewrite IH; lia]. Qed.
Lemma ccount_app a b v : ccount (a ++ b) v = ccount a v + ccount b v.
Proof. induction a as [|x t IH]; simpl; [reflexivity | rewrite IH; lia]. Qed.
Lemma hsum_app f a b : hsum f (a ++ b) = hsum f a + hsum f b.
Proof. induction a as [|[r x] t IH]; simpl; [reflexivity | rewrite IH; lia]. Qed.
Lemma lsum_app f a b : lsum f (a ++ b) = lsum f a + lsum f b.
Proof. induction a as [|x t IH]; simpl; [reflexivity | rewrite IH; lia]. Qed.

Lemma net_cong h a b : veq a b = true -> net h a = net h b.
Proof. intro H. induction h as [|[r x] t IH]; simpl; [reflexivity|]. rewrite (veq_cong_r x a b H), IH. reflexivity. Qed.
Lemma ccount_cong l a b : veq a b = true -> ccount l a = ccount l b.
Proof. intro H. induction l as [|x t IH]; simpl; [reflexivity|]. rewrite (veq_cong_r x a b H), IH. reflexivity. Qed.
Lemma ccount_nonneg l v : 0 <= ccount l v.
Proof. induction l as [|x t IH]; simpl; [lia | destruct (veq x v); lia]. Qed.
Lemma ccount_in l x : In x l -> 1 <= ccount l x.
Proof.
  induction l as [|y t IH]; simpl; [contradiction|]. intros [E|H].
  - subst. rewrite veq_refl. pose proof (ccount_nonneg t x). lia.
  - specialize (IH H). destruct (veq y x); lia.
Qed.
Lemma ccount_pos_ex l v : 1 <= ccount l v -> exists x, In x l /\ veq x v = true.
Proof.
  induction l as [|y t IH]; simpl; [lia|]. intro H. destruct (veq y v) eqn:E.
  - exists y. auto.
  - destruct (IH ltac:(lia)) as [x [Hi Hx]]. exists x. auto.
Qed.

(* the history seen as a signed list of values; a list as an all-additions history *)
Definition as_hist (r : bool) (l : list value) : hist := map (fun x => (r, x)) l.
Lemma net_as_hist r l v : net (as_hist r l) v = delta r * ccount l v.
Proof. induction l as [|x t IH]; simpl; [lia|]. rewrite IH. destruct r, (veq x v); simpl delta; lia. Qed.
Lemma hsum_as_hist f r l : hsum f (as_hist r l) = delta r * lsum f l.
Proof. induction l as [|x t IH]; simpl; [lia|]. rewrite IH. destruct r; simpl delta; lia. Qed.

(* ---- a signed list whose net is zero in every class has f-sum zero, for class-invariant f ---- *)
Definition class_inv (f : value -> Z) : Prop := forall a b, veq a b = true -> f a = f b.

Definition in_class (x : value) (e : bool * value) : bool := veq (snd e) x.
Definition out_class (x : value) (e : bool * value) : bool := negb (veq (snd e) x).

Lemma hsum_split f x h : hsum f h = hsum f (filter (in_class x) h) + hsum f (filter (out_class x) h).
Proof.
  induction h as [|[r y] t IH]; simpl; [reflexivity|].
  change (out_class x (r, y)) with (negb (in_class x (r, y))).
  destruct (in_class x (r, y)); simpl; lia.
Qed.
Lemma hsum_in_class f x h : class_inv f -> hsum f (filter (in_class x) h) = net h x * f x.
Proof.
  intro F. induction h as [|[r y] t IH]; simpl; [reflexivity|]. unfold in_class at 1; simpl.
  destruct (veq y x) eqn:E; simpl; rewrite IH; [rewrite (F y x E)|]; lia.
Qed.
Lemma net_out_class x h v : net (filter (out_class x) h) v = if veq x v then 0 else net h v.
Proof.
  induction h as [|[r y] t IH]; simpl; [destruct (veq x v); reflexivity|].
  unfold out_class at 1; simpl. destruct (veq y x) eqn:E; simpl; rewrite IH.
  - destruct (veq x v) eqn:E2; [reflexivity|]. rewrite (veq_cong y x v E), E2. lia.
  - destruct (veq x v) eqn:E2; [|reflexivity].
    assert (veq y v = false) as ->.
    { destruct (veq y v) eqn:E3; [|reflexivity]. rewrite (veq_cong_r y x v E2), E3 in E. discriminate. }
    lia.
Qed.
Lemma filter_length_le {A} (p : A -> bool) l : (length (filter p l) <= length l)%nat.
Proof. induction l as [|x t IH]; simpl; [lia | destruct (p x); simpl; lia]. Qed.

Lemma zero_net_zero_sum f : class_inv f -> forall n h, (length h <= n)%nat -> (forall v, net h v = 0) -> hsum f h = 0.
Proof.
  intros F n. induction n as [|n IH]; intros h L Z.
  - destruct h; [reflexivity | simpl in L; lia].
  - destruct h as [|[r x] t]; [reflexivity|].
    rewrite (hsum_split f x), (hsum_in_class f x _ F), (Z x), Z.mul_0_l, Z.add_0_l.
    apply IH.
    + simpl. unfold out_class at 1; simpl. rewrite veq_refl. simpl.
      pose proof (filter_length_le (out_class x) t). simpl in L. lia.
    + intro v. rewrite net_out_class. destruct (veq x v); [reflexivity | apply Z].
Qed.

(* the sum over a history equals the sum over any list that represents its net multiset *)
Theorem hsum_represents f h l : class_inv f -> represents l h -> hsum f h = lsum f l.
Proof.
  intros F R.
  assert (Z : hsum f (h ++ as_hist true l) = 0).
  { apply (zero_net_zero_sum f F (length (h ++ as_hist true l))); [lia|].
    intro v. rewrite net_app, net_as_hist, (R v). simpl delta. lia. }
  rewrite hsum_app, hsum_as_hist in Z. simpl delta in Z. lia.
Qed.

Lemma const_one_inv : class_inv (fun _ => 1). Proof. intros a b _. reflexivity. Qed.
Lemma lsum_one l : lsum (fun _ => 1) l = zlen l.
Proof. unfold zlen. induction l as [|x t IH]; [reflexivity|]. cbn [lsum length]. rewrite IH, Nat2Z.inj_succ. lia. Qed.

Lemma int_of_inv : class_inv int_of.
Proof.
  intros a b H. unfold veq in H. apply Z.eqb_eq in H.
  destruct a, b; try reflexivity; try (tid_solve; lia).
  vc_same. simpl. revert H. zcmp_tac.
Qed.
Lemma dur_of_inv : class_inv dur_of.
Proof.
  intros a b H. unfold veq in H. apply Z.eqb_eq in H.
  destruct a, b; try reflexivity; try (tid_solve; lia).
  vc_same. simpl. revert H. zcmp_tac.
Qed.

(* ---- running ---- *)
Lemma run_snoc W h e : run W (h ++ [e]) = add W (run W h) (fst e) (snd e).
Proof. unfold run. rewrite fold_left_app. reflexivity. Qed.

Lemma obs_from_length W s h : length (obs_from W s h) = length h.
Proof. revert s. induction h as [|e t IH]; intro s; simpl; [reflexivity | rewrite IH; reflexivity]. Qed.

(* the k-th observation is the Trigger of the state after the first k+1 Adds *)
Lemma obs_from_app W s a b :
  obs_from W s (a ++ b) = obs_from W s a ++ obs_from W (fold_left (fun s e => add W s (fst e) (snd e)) a s) b.
Proof. revert s. induction a as [|e t IH]; intro s; simpl; [reflexivity | rewrite IH; reflexivity]. Qed.
Lemma run_obs_snoc W h e : run_obs W (h ++ [e]) = run_obs W h ++ [trig W (run W (h ++ [e]))].
Proof. unfold run_obs. rewrite obs_from_app. simpl. rewrite run_snoc. reflexivity. Qed.

(* ---- int64 ---- *)
Lemma wrap64_range z : in_int64 (wrap64 z).
Proof. unfold in_int64, wrap64. pose proof (Z.mod_pos_bound (z + two63) two64 eq_refl). unfold two63, two64 in *. lia. Qed.
Lemma wrap64_small z : in_int64 z -> wrap64 z = z.
Proof. unfold in_int64, wrap64. intro H. rewrite Z.mod_small; unfold two63, two64 in *; lia. Qed.
Lemma wrap64_add_l a b : wrap64 (wrap64 a + b) = wrap64 (a + b).
Proof.
  unfold wrap64. f_equal.
  replace ((a + two63) mod two64 - two63 + b + two63) with ((a + two63) mod two64 + b) by lia.
  rewrite Zplus_mod_idemp_l. f_equal; lia.
Qed.
Lemma wrap64_sub_l a b : wrap64 (wrap64 a - b) = wrap64 (a - b).
Proof. replace (wrap64 a - b) with (wrap64 a + - b) by lia. rewrite wrap64_add_l. f_equal; lia. Qed.

Lemma quot_in_int64 s c : in_int64 s -> 1 <= c -> in_int64 (Z.quot s c).
Proof.
  unfold in_int64. intros Hs Hc.
  destruct (Z.le_gt_cases 0 s) as [P|N].
  - rewrite Z.quot_div_nonneg by lia.
    pose proof (Z.div_pos s c P ltac:(lia)). pose proof (Z.div_le_upper_bound s c s ltac:(lia) ltac:(nia)).
    unfold two63 in *. lia.
  - replace s with (- (- s)) by lia. rewrite Z.quot_opp_l by lia. rewrite Z.quot_div_nonneg by lia.
    pose proof (Z.div_pos (- s) c ltac:(lia) ltac:(lia)).
    pose proof (Z.div_le_upper_bound (- s) c (- s) ltac:(lia) ltac:(nia)).
    unfold two63 in *. lia.
Qed.

(* ---- count.go, sum.go, average.go ---- *)
Lemma run_count h : run Count h = wrap64 (hsum (fun _ => 1) h).
Proof.
  induction h as [|[r v] IH] using rev_ind; [reflexivity|].
  rewrite run_snoc, hsum_app, IHIH. simpl.
  destruct r; simpl delta.
  - rewrite wrap64_sub_l. f_equal; lia.
  - rewrite wrap64_add_l. f_equal; lia.
Qed.

Lemma run_sum64 f mk h : run (SumG add64 sub64 0 f mk) h = wrap64 (hsum f h).
Proof.
  induction h as [|[r v] IH] using rev_ind; [reflexivity|].
  rewrite run_snoc, hsum_app, IHIH. simpl. unfold add64, sub64.
  destruct r; simpl delta.
  - rewrite wrap64_sub_l. f_equal; lia.
  - rewrite wrap64_add_l. f_equal; lia.
Qed.

Lemma run_avg64 f dv h :
  run (AvgG add64 sub64 0 f dv) h = (wrap64 (hsum f h), wrap64 (hsum (fun _ => 1) h)).
Proof.
  induction h as [|[r v] IH] using rev_ind; [reflexivity|].
  rewrite run_snoc, !hsum_app, IHIH. simpl. unfold add64, sub64.
  destruct r; simpl delta.
  - rewrite !wrap64_sub_l. f_equal; f_equal; lia.
  - rewrite !wrap64_add_l. f_equal; f_equal; lia.
Qed.

(* the same algorithm over the integers computes the exact sum *)
Lemma run_sum_exact f h : run (SumExact f) h = hsum f h.
Proof.
  induction h as [|[r v] IH] using rev_ind; [reflexivity|].
  rewrite run_snoc, hsum_app, IHIH. simpl. destruct r; simpl delta; lia.
Qed.

Theorem count_correct : agg_correct Count (fun l o => o = scr_count l).
Proof.
  intros h l R _. simpl. rewrite run_count, (hsum_represents _ h l const_one_inv R), lsum_one. reflexivity.
Qed.

Theorem sum64_correct f mk : class_inv f ->
  agg_correct (SumG add64 sub64 0 f mk) (fun l o => o = scr_sum f mk l).
Proof.
  intros F h l R _. simpl. rewrite run_sum64, (hsum_represents f h l F R). reflexivity.
Qed.

Lemma zlen_pos l : l <> [] -> 1 <= zlen l.
Proof. destruct l; [congruence|]. intros _. unfold zlen. simpl length. lia. Qed.

Theorem avg64_correct f mk : class_inv f ->
  agg_correct (AvgG add64 sub64 0 f (div64 mk)) (fun l o => zlen l < two63 -> o = scr_avg f mk l).
Proof.
  intros F h l R NE B. simpl. rewrite run_avg64. simpl.
  rewrite (hsum_represents f h l F R), (hsum_represents _ h l const_one_inv R), lsum_one.
  pose proof (zlen_pos l NE) as P.
  rewrite (wrap64_small (zlen l)) by (unfold in_int64, two63 in *; lia).
  unfold div64. destruct (Z.eqb_spec (zlen l) 0); [lia|].
  unfold scr_avg. rewrite wrap64_small; [reflexivity|].
  apply quot_in_int64; [apply wrap64_range | exact P].
Qed.

Theorem sum_exact_correct f : class_inv f ->
  agg_correct (SumExact f) (fun l o => o = Ok (VInt (lsum f l))).
Proof.
  intros F h l R _. simpl. rewrite run_sum_exact, (hsum_represents f h l F R). reflexivity.
Qed.


(* ---- the btree abstraction: sorted association list ---- *)
Fixpoint tcount (t : list (value * Z)) (v : value) : Z :=
  match t with [] => 0 | (k, c) :: rest => (if veq k v then c else 0) + tcount rest v end.

Definition trun (h : hist) : list (value * Z) := fold_left (fun s e => tree_add s (fst e) (snd e)) h [].

Lemma vless_not_veq a b : vless a b = true -> veq a b = false.
Proof. unfold vless, veq. rewrite Z.eqb_eq. intros ->. reflexivity. Qed.
Lemma vless_not_veq_r a b : vless a b = true -> veq b a = false.
Proof. intro H. rewrite veq_sym. apply vless_not_veq. exact H. Qed.
Lemma not_vless_veq a b : vless a b = false -> vless b a = false -> veq a b = true.
Proof.
  unfold vless, veq. rewrite !Z.eqb_neq, Z.eqb_eq, (vcompare_antisym a b).
  destruct (vcompare_range a b) as [E|[E|E]]; lia.
Qed.
Lemma vless_trans a b c : vless a b = true -> vless b c = true -> vless a c = true.
Proof. unfold vless. rewrite !Z.eqb_eq. apply vcompare_lt_trans. Qed.
Lemma vless_le a b : vless a b = true -> vcompare a b <= 0.
Proof. unfold vless. rewrite Z.eqb_eq. lia. Qed.

Lemma tcount_tree_add t r v x :
  tcount (tree_add t r v) x = tcount t x + (if veq v x then delta r else 0).
Proof.
  induction t as [|[k c] rest IH]; simpl; [lia|].
  destruct (vless k v) eqn:L1; [simpl; rewrite IH; lia|].
  destruct (vless v k) eqn:L2; [simpl; lia|].
  pose proof (not_vless_veq k v L1 L2) as E. rewrite <- (veq_cong k v x E).
  destruct (Z.eqb_spec (c + delta r) 0); simpl; destruct (veq k x); lia.
Qed.

Lemma trun_snoc h e : trun (h ++ [e]) = tree_add (trun h) (fst e) (snd e).
Proof. unfold trun. rewrite fold_left_app. reflexivity. Qed.

Lemma tcount_trun h x : tcount (trun h) x = net h x.
Proof.
  induction h as [|[r v] h IH] using rev_ind; [reflexivity|].
  rewrite trun_snoc, tcount_tree_add, IH, net_app. simpl. lia.
Qed.

Definition key_lt (a b : value * Z) : Prop := vless (fst a) (fst b) = true.
Definition tsorted (t : list (value * Z)) : Prop := StronglySorted key_lt t.

Lemma tree_add_lb t r v x :
  Forall (fun e => vless x (fst e) = true) t -> vless x v = true ->
  Forall (fun e => vless x (fst e) = true) (tree_add t r v).
Proof.
  induction t as [|[k c] rest IH]; intros F L; simpl; [repeat constructor; exact L|].
  inversion F as [|? ? Hk Hrest]; subst. simpl in Hk.
  destruct (vless k v); [constructor; [exact Hk | apply IH; assumption]|].
  destruct (vless v k); [repeat constructor; assumption|].
  destruct (c + delta r =? 0); [exact Hrest | constructor; assumption].
Qed.

Lemma tree_add_sorted t r v : tsorted t -> tsorted (tree_add t r v).
Proof.
  unfold tsorted. induction t as [|[k c] rest IH]; intro S; simpl; [repeat constructor|].
  inversion S as [|? ? Srest Fk]; subst.
  destruct (vless k v) eqn:L1.
  - constructor; [apply IH; exact Srest|]. apply tree_add_lb; assumption.
  - destruct (vless v k) eqn:L2.
    + constructor; [exact S|]. constructor; [exact L2|].
      eapply Forall_impl; [|exact Fk]. intros e He. unfold key_lt in *. simpl in *.
      eapply vless_trans; eassumption.
    + destruct (c + delta r =? 0); [exact Srest | constructor; assumption].
Qed.

Lemma tree_add_nonzero t r v :
  Forall (fun e => snd e <> 0) t -> Forall (fun e => snd e <> 0) (tree_add t r v).
Proof.
  induction t as [|[k c] rest IH]; intro F; simpl.
  - constructor; [destruct r; simpl; lia | constructor].
  - inversion F as [|? ? Hc Hrest]; subst.
    destruct (vless k v); [constructor; [exact Hc | apply IH; exact Hrest]|].
    destruct (vless v k); [constructor; [destruct r; simpl; lia | exact F]|].
    destruct (Z.eqb_spec (c + delta r) 0); [exact Hrest | constructor; [exact n | exact Hrest]].
Qed.

Lemma trun_inv h : tsorted (trun h) /\ Forall (fun e => snd e <> 0) (trun h).
Proof.
  induction h as [|e h [S N]] using rev_ind; [split; constructor|].
  rewrite trun_snoc. split; [apply tree_add_sorted | apply tree_add_nonzero]; assumption.
Qed.

Lemma tcount_zero t x : Forall (fun e => veq (fst e) x = false) t -> tcount t x = 0.
Proof.
  induction 1 as [|[k c] rest Hk _ IH]; simpl; [reflexivity|]. simpl in Hk. rewrite Hk, IH. reflexivity.
Qed.

(* at most one entry per class: the count stored with a key is the multiplicity of its class *)
Lemma tsorted_unique t : tsorted t -> forall k c, In (k, c) t -> tcount t k = c.
Proof.
  induction 1 as [|[k0 c0] rest S IH F]; intros k c I; [contradiction|].
  simpl. destruct I as [E|I].
  - inversion E; subst. rewrite veq_refl, tcount_zero; [lia|].
    eapply Forall_impl; [|exact F]. intros e He. apply vless_not_veq_r. exact He.
  - rewrite (IH k c I).
    rewrite Forall_forall in F. specialize (F (k, c) I). unfold key_lt in F. simpl in F.
    rewrite (vless_not_veq _ _ F). lia.
Qed.

Lemma tcount_nonzero_ex t x : tcount t x <> 0 -> exists k c, In (k, c) t /\ veq k x = true.
Proof.
  induction t as [|[k c] rest IH]; simpl; [congruence|]. intro H.
  destruct (veq k x) eqn:E; [exists k, c; auto|].
  destruct (IH ltac:(lia)) as [k' [c' [I E']]]. exists k', c'. auto.
Qed.

Lemma represents_nonneg l h v : represents l h -> 0 <= net h v.
Proof. intro R. rewrite <- (R v). apply ccount_nonneg. Qed.

(* when no class is negative, every stored count is positive (negative counts of early retractions are gone) *)
Lemma trun_positive h l : represents l h -> Forall (fun e => 0 < snd e) (trun h).
Proof.
  intro R. destruct (trun_inv h) as [S N]. rewrite Forall_forall in *. intros [k c] I. simpl.
  pose proof (tsorted_unique _ S k c I) as U. rewrite tcount_trun in U.
  pose proof (represents_nonneg l h k R). specialize (N (k, c) I). simpl in N. lia.
Qed.

(* every member of a representing list has its class stored in the tree *)
Lemma trun_has_class h l x : represents l h -> In x l -> exists k c, In (k, c) (trun h) /\ veq k x = true.
Proof.
  intros R I. apply tcount_nonzero_ex. rewrite tcount_trun, <- (R x). pose proof (ccount_in l x I). lia.
Qed.
(* every stored key with a positive count has a member of its class in the list *)
Lemma trun_key_in_list h l k c : represents l h -> In (k, c) (trun h) ->
  exists x, In x l /\ veq k x = true.
Proof.
  intros R I. destruct (trun_inv h) as [S _].
  pose proof (tsorted_unique _ S k c I) as U. rewrite tcount_trun, <- (R k) in U.
  pose proof (trun_positive h l R) as P. rewrite Forall_forall in P. specialize (P _ I). simpl in P.
  destruct (ccount_pos_ex l k ltac:(lia)) as [x [Hx E]]. exists x. split; [exact Hx | rewrite veq_sym; exact E].
Qed.

(* ---- min.go ---- *)
Theorem min_correct : agg_correct Min (fun l o => exists m, o = Ok m /\ is_least m l = true).
Proof.
  intros h l R NE. change (run Min h) with (trun h). simpl.
  destruct (trun_inv h) as [S _].
  destruct (trun h) as [|[k0 c0] rest] eqn:T.
  - destruct l as [|x l']; [congruence|].
    destruct (trun_has_class h (x :: l') x R (or_introl eq_refl)) as [k [c [I _]]]. rewrite T in I. contradiction.
  - exists k0. split; [reflexivity|]. unfold is_least. apply andb_true_intro. split.
    + destruct (trun_key_in_list h l k0 c0 R) as [x [Hx E]]; [rewrite T; left; reflexivity|].
      apply existsb_exists. exists x. auto.
    + apply forallb_forall. intros x Hx. apply Z.leb_le.
      destruct (trun_has_class h l x R Hx) as [k [c [I E]]]. rewrite T in I.
      unfold veq in E. apply Z.eqb_eq in E. rewrite <- (vcompare_eq_cong_r k0 k x E).
      destruct I as [I|I].
      * inversion I; subst. rewrite vcompare_refl. lia.
      * inversion S as [|? ? _ F]; subst. rewrite Forall_forall in F. apply vless_le. apply (F _ I).
Qed.

(* ---- max.go ---- *)
Lemma last_key_spec t : tsorted t -> forall km, last_key t = Some km ->
  (exists c, In (km, c) t) /\ forall k c, In (k, c) t -> k = km \/ vless k km = true.
Proof.
  induction 1 as [|[k0 c0] rest S IH F]; intros km L; [discriminate|].
  destruct rest as [|e2 rest'].
  - simpl in L. inversion L; subst. split; [exists c0; left; reflexivity|].
    intros k c [E|[]]. inversion E; auto.
  - assert (L' : last_key (e2 :: rest') = Some km) by (destruct e2; exact L).
    destruct (IH km L') as [[c Ic] A]. split; [exists c; right; exact Ic|].
    intros k c' [E|I]; [|apply A with c'; exact I].
    inversion E; subst. right.
    rewrite Forall_forall in F. specialize (F _ Ic). exact F.
Qed.
Lemma last_key_none t : last_key t = None -> t = [].
Proof.
  induction t as [|[k c] rest IH]; [reflexivity|]. simpl. destruct rest; [discriminate|]. intro H.
  specialize (IH H). discriminate.
Qed.

Theorem max_correct : agg_correct Max (fun l o => exists m, o = Ok m /\ is_greatest m l = true).
Proof.
  intros h l R NE. change (run Max h) with (trun h). simpl.
  destruct (trun_inv h) as [S _].
  destruct (last_key (trun h)) as [km|] eqn:L.
  - destruct (last_key_spec _ S km L) as [[cm Im] A].
    exists km. split; [reflexivity|]. unfold is_greatest. apply andb_true_intro. split.
    + destruct (trun_key_in_list h l km cm R Im) as [x [Hx E]]. apply existsb_exists. exists x. auto.
    + apply forallb_forall. intros x Hx. apply Z.leb_le.
      destruct (trun_has_class h l x R Hx) as [k [c [I E]]].
      unfold veq in E. apply Z.eqb_eq in E. rewrite <- (vcompare_eq_cong k x km E).
      destruct (A k c I) as [->|Lt]; [rewrite vcompare_refl; lia | apply vless_le; exact Lt].
  - apply last_key_none in L. destruct l as [|x l']; [congruence|].
    destruct (trun_has_class h (x :: l') x R (or_introl eq_refl)) as [k [c [I _]]]. rewrite L in I. contradiction.
Qed.

(* ---- array.go ---- *)
Definition vle (a b : value) : Prop := vcompare a b <= 0.

Lemma ccount_repeat k n v : ccount (repeat k n) v = if veq k v then Z.of_nat n else 0.
Proof.
  induction n as [|n IH]; [destruct (veq k v); reflexivity|].
  cbn [repeat ccount]. rewrite IH, Nat2Z.inj_succ. destruct (veq k v); lia.
Qed.

Lemma ccount_expand t v : Forall (fun e => 0 < snd e) t -> ccount (expand t) v = tcount t v.
Proof.
  induction 1 as [|[k c] rest Hc _ IH]; [reflexivity|]. simpl in Hc. simpl.
  rewrite ccount_app, ccount_repeat, IH, Z2Nat.id by lia. reflexivity.
Qed.

Lemma in_expand t x : In x (expand t) -> exists c, In (x, c) t.
Proof.
  induction t as [|[k c] rest IH]; simpl; [contradiction|]. intro I. apply in_app_or in I. destruct I as [I|I].
  - apply repeat_spec in I. subst. exists c. auto.
  - destruct (IH I) as [c' I']. exists c'. auto.
Qed.

Lemma ss_repeat_app k n e : StronglySorted vle e -> Forall (vle k) e -> StronglySorted vle (repeat k n ++ e).
Proof.
  intros S F. induction n as [|n IH]; [exact S|]. simpl. constructor; [exact IH|].
  apply Forall_app. split; [|exact F]. apply Forall_forall. intros y Hy. apply repeat_spec in Hy. subst.
  unfold vle. rewrite vcompare_refl. lia.
Qed.

Lemma expand_sorted t : tsorted t -> StronglySorted vle (expand t).
Proof.
  induction 1 as [|[k c] rest S IH F]; [constructor|]. simpl. apply ss_repeat_app; [exact IH|].
  apply Forall_forall. intros y Hy. destruct (in_expand _ _ Hy) as [c' I].
  rewrite Forall_forall in F. apply vless_le. apply (F _ I).
Qed.

Lemma ss_sortedb e : StronglySorted vle e -> sortedb e = true.
Proof.
  induction 1 as [|x xs S IH F]; [reflexivity|]. destruct xs as [|y ys]; [reflexivity|].
  change (sortedb (x :: y :: ys)) with ((vcompare x y <=? 0) && sortedb (y :: ys)).
  rewrite IH. inversion F; subst. apply andb_true_intro. split; [apply Z.leb_le; assumption | reflexivity].
Qed.
Lemma sortedb_ss e : sortedb e = true -> StronglySorted vle e.
Proof.
  induction e as [|x xs IH]; [constructor|]. intro H. destruct xs as [|y ys]; [repeat constructor|].
  change (sortedb (x :: y :: ys)) with ((vcompare x y <=? 0) && sortedb (y :: ys)) in H.
  apply andb_prop in H. destruct H as [H1 H2]. apply Z.leb_le in H1. specialize (IH H2).
  constructor; [exact IH|]. constructor; [exact H1|].
  inversion IH as [|? ? _ F]; subst. eapply Forall_impl; [|exact F]. intros z Hz. unfold vle in *.
  eapply vcompare_trans; eassumption.
Qed.

Theorem array_correct :
  agg_correct Array (fun l o => exists e, o = Ok (VList e) /\ is_sorted_expansion e l = true).
Proof.
  intros h l R _. change (run Array h) with (trun h). simpl.
  exists (expand (trun h)). split; [reflexivity|]. destruct (trun_inv h) as [S _].
  unfold is_sorted_expansion. apply andb_true_intro. split.
  - apply ss_sortedb, expand_sorted, S.
  - apply forallb_forall. intros v _. apply Z.eqb_eq.
    rewrite (ccount_expand _ v (trun_positive h l R)), tcount_trun. symmetry. apply R.
Qed.

(* what the executable predicates mean *)
Lemma is_least_spec m l : is_least m l = true <->
  (exists x, In x l /\ vcompare m x = 0) /\ (forall x, In x l -> vcompare m x <= 0).
Proof.
  unfold is_least. rewrite andb_true_iff, existsb_exists, forallb_forall. unfold veq.
  split; intros [[x [H1 H2]] H3]; (split; [exists x; split; [exact H1 | apply Z.eqb_eq; exact H2] | intros y Hy; apply Z.leb_le; apply H3; exact Hy]).
Qed.
Lemma is_greatest_spec m l : is_greatest m l = true <->
  (exists x, In x l /\ vcompare m x = 0) /\ (forall x, In x l -> vcompare x m <= 0).
Proof.
  unfold is_greatest. rewrite andb_true_iff, existsb_exists, forallb_forall. unfold veq.
  split; intros [[x [H1 H2]] H3]; (split; [exists x; split; [exact H1 | apply Z.eqb_eq; exact H2] | intros y Hy; apply Z.leb_le; apply H3; exact Hy]).
Qed.
Lemma is_sorted_expansion_spec e l : is_sorted_expansion e l = true <->
  StronglySorted vle e /\ (forall v, ccount e v = ccount l v).
Proof.
  unfold is_sorted_expansion. rewrite andb_true_iff, forallb_forall. split.
  - intros [S C]. split; [apply sortedb_ss; exact S|]. intro v.
    destruct (Z.le_gt_cases 1 (ccount e v)) as [P|N].
    + destruct (ccount_pos_ex e v P) as [x [Hx E]].
      rewrite <- (ccount_cong e x v E), <- (ccount_cong l x v E). apply Z.eqb_eq. apply C. apply in_or_app. auto.
    + destruct (Z.le_gt_cases 1 (ccount l v)) as [P2|N2].
      * destruct (ccount_pos_ex l v P2) as [x [Hx E]].
        rewrite <- (ccount_cong e x v E), <- (ccount_cong l x v E). apply Z.eqb_eq. apply C. apply in_or_app. auto.
      * pose proof (ccount_nonneg e v). pose proof (ccount_nonneg l v). lia.
  - intros [S C]. split; [apply ss_sortedb; exact S|]. intros v _. apply Z.eqb_eq. apply C.
Qed.


(* ---- distinct.go ---- *)
(* the hashmap finds a key exactly when it is Compare-equal: equal values have equal hash feeds (C09) *)
Lemma hm_same_veq k v : hm_same k v = veq k v.
Proof.
  unfold hm_same, veq. destruct (Z.eqb_spec (vcompare k v) 0) as [E|]; [|reflexivity].
  unfold vhash. rewrite (vcompare_enc k v E). apply Z.eqb_refl.
Qed.

Definition supp (n : Z) : Z := if 0 <? n then 1 else 0.

Lemma tcount_dist_entry g k c1 r v rest x :
  tcount (fst (dist_entry g k c1 r v rest)) x = (if veq k x then c1 else 0) + tcount rest x.
Proof.
  unfold dist_entry. destruct ((c1 =? 1) && negb r); simpl; [reflexivity|].
  destruct (Z.eqb_spec c1 0); simpl; [subst; destruct (veq k x); lia | reflexivity].
Qed.

(* the map counts every class with its signed multiplicity — for the code before and after the fix *)
Lemma tcount_dist_upd g m r v x :
  tcount (fst (dist_upd g m r v)) x = tcount m x + (if veq v x then delta r else 0).
Proof.
  induction m as [|[k c] rest IH]; simpl.
  - rewrite tcount_dist_entry. simpl. destruct (veq v x); lia.
  - rewrite hm_same_veq. destruct (veq k v) eqn:E.
    + rewrite tcount_dist_entry, <- (veq_cong k v x E). destruct (veq k x); lia.
    + destruct (dist_upd g rest r v) as [rest' fw]. simpl in *. rewrite IH. lia.
Qed.

(* at most one entry per class *)
Fixpoint huniq (m : list (value * Z)) : Prop :=
  match m with
  | [] => True
  | (k, _) :: rest => Forall (fun e => veq k (fst e) = false) rest /\ huniq rest
  end.

Lemma dist_entry_forall g (Q : value -> Prop) k c1 r v rest :
  Q k -> Forall (fun e => Q (fst e)) rest -> Forall (fun e => Q (fst e)) (fst (dist_entry g k c1 r v rest)).
Proof.
  intros Hk F. unfold dist_entry. destruct ((c1 =? 1) && negb r); simpl; [constructor; assumption|].
  destruct (c1 =? 0); simpl; [assumption | constructor; assumption].
Qed.
Lemma dist_upd_forall g (Q : value -> Prop) m r v :
  Forall (fun e => Q (fst e)) m -> Q v -> Forall (fun e => Q (fst e)) (fst (dist_upd g m r v)).
Proof.
  induction m as [|[k c] rest IH]; intros F Hv; simpl; [apply dist_entry_forall; [exact Hv | constructor]|].
  inversion F as [|? ? Hk Hrest]; subst. simpl in Hk.
  destruct (hm_same k v); [apply dist_entry_forall; assumption|].
  specialize (IH Hrest Hv). destruct (dist_upd g rest r v) as [rest' fw]. simpl in *. constructor; assumption.
Qed.
Lemma dist_entry_uniq g k c1 r v rest :
  Forall (fun e => veq k (fst e) = false) rest -> huniq rest -> huniq (fst (dist_entry g k c1 r v rest)).
Proof.
  intros F U. unfold dist_entry. destruct ((c1 =? 1) && negb r); simpl; [split; assumption|].
  destruct (c1 =? 0); simpl; [assumption | split; assumption].
Qed.
Lemma dist_upd_uniq g m r v : huniq m -> huniq (fst (dist_upd g m r v)).
Proof.
  induction m as [|[k c] rest IH]; intro U; simpl; [apply dist_entry_uniq; [constructor | exact I]|].
  destruct U as [F U]. rewrite hm_same_veq. destruct (veq k v) eqn:E; [apply dist_entry_uniq; assumption|].
  pose proof (dist_upd_forall g (fun y => veq k y = false) rest r v F E) as F'. specialize (IH U).
  destruct (dist_upd g rest r v) as [rest' fw]. simpl in *. split; assumption.
Qed.

Lemma uniq_tcount_head k c rest v : Forall (fun e => veq k (fst e) = false) rest -> veq k v = true ->
  tcount ((k, c) :: rest) v = c.
Proof.
  intros F E. simpl. rewrite E, tcount_zero; [lia|]. eapply Forall_impl; [|exact F]. intros e He. simpl in He.
  rewrite veq_sym, <- (veq_cong k v (fst e) E). exact He.
Qed.

(* what the fixed code forwards, in terms of the class multiplicity after the Add *)
Definition fw_spec (c1 : Z) (r : bool) (v : value) : option (bool * value) :=
  if (c1 =? 1) && negb r then Some (false, v) else if (c1 =? 0) && r then Some (true, v) else None.
(* ... and the code before the fix *)
Definition fw_spec_pinned (c1 : Z) (r : bool) (v : value) : option (bool * value) :=
  if (c1 =? 1) && negb r then Some (false, v) else if c1 =? 0 then Some (true, v) else None.

Lemma dist_entry_fw k c1 r v rest : snd (dist_entry true k c1 r v rest) = fw_spec c1 r v.
Proof.
  unfold dist_entry, fw_spec. destruct ((c1 =? 1) && negb r); [reflexivity|].
  destruct (c1 =? 0), r; reflexivity.
Qed.
Lemma dist_upd_fw m r v : huniq m -> snd (dist_upd true m r v) = fw_spec (tcount m v + delta r) r v.
Proof.
  induction m as [|[k c] rest IH]; intro U; simpl dist_upd; [rewrite dist_entry_fw; reflexivity|].
  destruct U as [F U]. rewrite hm_same_veq. destruct (veq k v) eqn:E.
  - rewrite dist_entry_fw, (uniq_tcount_head k c rest v F E). reflexivity.
  - specialize (IH U). destruct (dist_upd true rest r v) as [rest' fw]. simpl in *. rewrite E, IH. reflexivity.
Qed.

(* the map and the history forwarded to the wrapped aggregate *)
Definition dacc (s : list (value * Z) * hist) (e : bool * value) : list (value * Z) * hist :=
  let '(m', fw) := dist_step (fst s) (fst e) (snd e) in
  (m', snd s ++ match fw with Some x => [x] | None => [] end).
Definition dstate (h : hist) : list (value * Z) * hist := fold_left dacc h ([], []).
Definition dhist (h : hist) : hist := snd (dstate h).

Lemma dstate_snoc h e : dstate (h ++ [e]) = dacc (dstate h) e.
Proof. unfold dstate. rewrite fold_left_app. reflexivity. Qed.

Lemma run_distinct W h : run (Distinct W) h = (fst (dstate h), run W (dhist h)).
Proof.
  unfold dhist. induction h as [|[r v] h IH] using rev_ind; [reflexivity|].
  rewrite run_snoc, dstate_snoc, IH. unfold dacc, dist_step. simpl.
  destruct (dist_upd true (fst (dstate h)) r v) as [m' [x|]]; simpl.
  - rewrite run_snoc. reflexivity.
  - rewrite app_nil_r. reflexivity.
Qed.

Lemma dstate_inv h : (forall x, tcount (fst (dstate h)) x = net h x) /\ huniq (fst (dstate h)).
Proof.
  induction h as [|[r v] h [C U]] using rev_ind; [split; [reflexivity | exact I]|].
  rewrite dstate_snoc. unfold dacc, dist_step. simpl.
  pose proof (tcount_dist_upd true (fst (dstate h)) r v) as T. pose proof (dist_upd_uniq true (fst (dstate h)) r v U) as U'.
  destruct (dist_upd true (fst (dstate h)) r v) as [m' fw]. simpl in *. split; [|exact U'].
  intro x. rewrite T, C, net_app. simpl. lia.
Qed.

(* For EVERY history — retractions may precede the additions they cancel — what is forwarded has, in every
   class, multiplicity 1 if the class is present (net > 0) and 0 otherwise. *)
Lemma dhist_net h : forall x, net (dhist h) x = supp (net h x).
Proof.
  unfold dhist. induction h as [|[r v] h IH] using rev_ind; intro x; [reflexivity|].
  destruct (dstate_inv h) as [C U].
  rewrite dstate_snoc. unfold dacc, dist_step. cbn [fst snd].
  pose proof (dist_upd_fw (fst (dstate h)) r v U) as FW.
  destruct (dist_upd true (fst (dstate h)) r v) as [m' fw]. cbn [fst snd] in *. subst fw.
  rewrite C, (net_app h). cbn [net]. rewrite Z.add_0_r.
  assert (K : veq v x = true -> net h x = net h v) by (intro E; symmetry; apply net_cong; exact E).
  unfold fw_spec, supp in *.
  destruct r; simpl negb; simpl delta; rewrite ?andb_false_r, ?andb_true_r.
  - destruct (Z.eqb_spec (net h v + -1) 0); cbn [andb].
    + rewrite net_app, IH. simpl. destruct (veq v x) eqn:E; [rewrite (K eq_refl)|];
        repeat match goal with |- context [0 <? ?a] => destruct (Z.ltb_spec 0 a) end; lia.
    + rewrite app_nil_r, IH. destruct (veq v x) eqn:E; [rewrite (K eq_refl)|];
        repeat match goal with |- context [0 <? ?a] => destruct (Z.ltb_spec 0 a) end; lia.
  - destruct (Z.eqb_spec (net h v + 1) 1).
    + rewrite net_app, IH. simpl. destruct (veq v x) eqn:E; [rewrite (K eq_refl)|];
        repeat match goal with |- context [0 <? ?a] => destruct (Z.ltb_spec 0 a) end; lia.
    + rewrite app_nil_r, IH. destruct (veq v x) eqn:E; [rewrite (K eq_refl)|];
        repeat match goal with |- context [0 <? ?a] => destruct (Z.ltb_spec 0 a) end; lia.
Qed.

Lemma supp_nonneg n : 0 <= supp n.
Proof. unfold supp. destruct (0 <? n); lia. Qed.

(* the generic wrapper theorem *)
Theorem distinct_correct W spec :
  agg_correct W spec ->
  agg_correct (Distinct W) (fun l o => forall l', support_of l' l -> spec l' o).
Proof.
  intros C h l R NE l' SUP. rewrite run_distinct. simpl.
  apply C.
  - intro v. rewrite (dhist_net h v), (SUP v), (R v). reflexivity.
  - destruct l as [|x l0]; [congruence|]. intro E. subst l'.
    specialize (SUP x). pose proof (ccount_in (x :: l0) x (or_introl eq_refl)) as P.
    destruct (Z.ltb_spec 0 (ccount (x :: l0) x)); simpl in SUP; lia.
Qed.

(* the support exists and is computed by vnub *)
Lemma ccount_filter_out x l v :
  ccount (filter (fun y => negb (veq x y)) l) v = if veq x v then 0 else ccount l v.
Proof.
  induction l as [|y t IH]; simpl; [destruct (veq x v); reflexivity|].
  destruct (veq x y) eqn:E; simpl; rewrite IH.
  - destruct (veq x v) eqn:E2; [reflexivity|]. rewrite <- (veq_cong x y v E), E2. lia.
  - destruct (veq x v) eqn:E2; [|reflexivity].
    assert (veq y v = false) as ->; [|lia].
    destruct (veq y v) eqn:E3; [|reflexivity]. rewrite (veq_cong_r x y v E3), E2 in E. discriminate.
Qed.
Theorem vnub_support l : support_of (vnub l) l.
Proof.
  intro v. induction l as [|x t IH]; [reflexivity|]. simpl. rewrite ccount_filter_out, IH.
  pose proof (ccount_nonneg t v). destruct (veq x v);
    repeat match goal with |- context [0 <? ?a] => destruct (Z.ltb_spec 0 a) end; lia.
Qed.


(* ---- the executable net multiset: members present and retractions still owed ---- *)
Lemma remove_class_count l x l1 : remove_class l x = Some l1 ->
  forall v, ccount l1 v = ccount l v - (if veq x v then 1 else 0).
Proof.
  revert l1. induction l as [|y ys IH]; intros l1 H v; simpl in H; [discriminate|].
  destruct (veq y x) eqn:E.
  - inversion H; subst. simpl. rewrite (veq_cong y x v E). destruct (veq x v); lia.
  - destruct (remove_class ys x) as [ys'|] eqn:R; [|discriminate]. inversion H; subst.
    simpl. rewrite (IH ys' eq_refl v). lia.
Qed.
Lemma remove_class_none l x : remove_class l x = None -> ccount l x = 0.
Proof.
  induction l as [|y ys IH]; simpl; [reflexivity|]. destruct (veq y x); [discriminate|].
  destruct (remove_class ys x); [discriminate|]. intros _. rewrite IH; reflexivity.
Qed.
Lemma remove_class_length l x l1 : remove_class l x = Some l1 -> (length l1 <= length l)%nat.
Proof.
  revert l1. induction l as [|y ys IH]; intros l1 H; simpl in H; [discriminate|].
  destruct (veq y x); [inversion H; subst; simpl; lia|].
  destruct (remove_class ys x) as [ys'|]; [|discriminate]. inversion H; subst. specialize (IH ys' eq_refl). simpl. lia.
Qed.
Lemma remove_class_incl l x l1 : remove_class l x = Some l1 -> forall y, In y l1 -> In y l.
Proof.
  revert l1. induction l as [|z zs IH]; intros l1 H y I; simpl in H; [discriminate|].
  destruct (veq z x); [inversion H; subst; right; exact I|].
  destruct (remove_class zs x) as [zs'|]; [|discriminate]. inversion H; subst.
  destruct I as [->|I]; [left; reflexivity | right; apply (IH zs' eq_refl); exact I].
Qed.

Definition signed_rep (s : list value * list value) (h : hist) : Prop :=
  forall v, ccount (fst s) v - ccount (snd s) v = net h v.

Lemma netl_step_rep s h e : signed_rep s h -> signed_rep (netl_step s e) (h ++ [e]).
Proof.
  destruct s as [l d], e as [r x]. unfold signed_rep, netl_step. cbn [fst snd]. intros R v.
  rewrite net_app. cbn [net]. specialize (R v). destruct r; cbn [delta].
  - destruct (remove_class l x) as [l'|] eqn:E; cbn [fst snd].
    + rewrite (remove_class_count _ _ _ E v). destruct (veq x v); lia.
    + rewrite ccount_app. simpl. destruct (veq x v); lia.
  - destruct (remove_class d x) as [d'|] eqn:E; cbn [fst snd].
    + rewrite (remove_class_count _ _ _ E v). destruct (veq x v); lia.
    + rewrite ccount_app. simpl. destruct (veq x v); lia.
Qed.
Lemma netl_snoc h e : netl (h ++ [e]) = netl_step (netl h) e.
Proof. unfold netl. rewrite fold_left_app. reflexivity. Qed.
Lemma netl_rep h : signed_rep (netl h) h.
Proof.
  induction h as [|e h IH] using rev_ind; [intro v; reflexivity|]. rewrite netl_snoc. apply netl_step_rep. exact IH.
Qed.

(* soundness of the executable guard: nothing owed -> the list represents the net multiset *)
Theorem netl_sound h l : netl h = (l, []) -> represents l h.
Proof. intros E v. pose proof (netl_rep h v) as R. rewrite E in R. simpl in R. lia. Qed.

(* a class is never both present and owed *)
Definition disjoint_state (s : list value * list value) : Prop := Forall (fun y => ccount (fst s) y = 0) (snd s).
Lemma netl_step_disjoint s e : disjoint_state s -> disjoint_state (netl_step s e).
Proof.
  destruct s as [l d], e as [r x]. unfold disjoint_state, netl_step. cbn [fst snd]. intro D. destruct r.
  - destruct (remove_class l x) as [l'|] eqn:E; cbn [fst snd].
    + eapply Forall_impl; [|exact D]. intros y Hy. pose proof (remove_class_count _ _ _ E y). pose proof (ccount_nonneg l' y).
      cbn beta in *. destruct (veq x y); lia.
    + apply Forall_app. split; [exact D|]. constructor; [apply remove_class_none; exact E | constructor].
  - destruct (remove_class d x) as [d'|] eqn:E; cbn [fst snd].
    + rewrite Forall_forall in *. intros y Hy. apply D. apply (remove_class_incl _ _ _ E). exact Hy.
    + rewrite Forall_forall in *. intros y Hy. rewrite ccount_app, (D y Hy). simpl.
      destruct (veq x y) eqn:V; [|reflexivity].
      pose proof (remove_class_none _ _ E) as Z. rewrite (ccount_cong d x y V) in Z. pose proof (ccount_in d y Hy). lia.
Qed.
Lemma netl_disjoint h : disjoint_state (netl h).
Proof. induction h as [|e h IH] using rev_ind; [constructor|]. rewrite netl_snoc. apply netl_step_disjoint. exact IH. Qed.

(* completeness: whenever no class is negative, nothing is owed — the oracle then does look at the value *)
Theorem netl_complete h : (forall v, 0 <= net h v) -> snd (netl h) = [].
Proof.
  intro N. pose proof (netl_rep h) as R. pose proof (netl_disjoint h) as D. unfold signed_rep, disjoint_state in *.
  destruct (netl h) as [l d]. cbn [fst snd] in *. destruct d as [|y d']; [reflexivity|].
  inversion D as [|? ? Hy _]; subst. specialize (R y). specialize (N y).
  pose proof (ccount_in (y :: d') y (or_introl eq_refl)). lia.
Qed.

Lemma netl_step_length s e : (length (fst (netl_step s e)) <= S (length (fst s)))%nat.
Proof.
  destruct s as [l d], e as [r x]. unfold netl_step. cbn [fst snd]. destruct r.
  - destruct (remove_class l x) as [l'|] eqn:E; cbn [fst]; [pose proof (remove_class_length _ _ _ E)|]; lia.
  - destruct (remove_class d x); cbn [fst]; [lia|]. rewrite app_length. simpl. lia.
Qed.
Lemma netl_length h : (length (fst (netl h)) <= length h)%nat.
Proof.
  induction h as [|e h IH] using rev_ind; [simpl; lia|]. rewrite netl_snoc, app_length. simpl.
  pose proof (netl_step_length (netl h) e). lia.
Qed.

(* ---- the model meets the executable oracle, for every aggregate of the table without a float sum ---- *)
Lemma outcome_eqb_int z : outcome_eqb (Ok (VInt z)) (Ok (VInt z)) = true.
Proof. simpl. apply Z.eqb_refl. Qed.
Lemma outcome_eqb_dur z : outcome_eqb (Ok (VDur z)) (Ok (VDur z)) = true.
Proof. simpl. apply Z.eqb_refl. Qed.

Lemma vnub_length l : zlen (vnub l) <= zlen l.
Proof.
  unfold zlen. induction l as [|x t IH]; [simpl; lia|]. simpl vnub. simpl length.
  pose proof (filter_length_le (fun y => negb (veq x y)) (vnub t)). lia.
Qed.

Theorem model_meets_oracle k : float_free k = true ->
  agg_correct (agg_of k) (fun l o => zlen l < two63 -> forall n A, scratch_ok k n A l o = true).
Proof.
  induction k; intro FF; try discriminate; simpl agg_of.
  - intros h l R NE _ n A. rewrite (count_correct h l R NE). apply outcome_eqb_int.
  - intros h l R NE _ n A. unfold SumInt. rewrite (sum64_correct int_of VInt int_of_inv h l R NE). apply outcome_eqb_int.
  - intros h l R NE _ n A. unfold SumDur. rewrite (sum64_correct dur_of VDur dur_of_inv h l R NE). apply outcome_eqb_dur.
  - intros h l R NE B n A. unfold AvgInt. rewrite (avg64_correct int_of VInt int_of_inv h l R NE B). apply outcome_eqb_int.
  - intros h l R NE B n A. unfold AvgDur. rewrite (avg64_correct dur_of VDur dur_of_inv h l R NE B). apply outcome_eqb_dur.
  - intros h l R NE _ n A. destruct (min_correct h l R NE) as [m [-> L]]. exact L.
  - intros h l R NE _ n A. destruct (max_correct h l R NE) as [m [-> L]]. exact L.
  - intros h l R NE _ n A. destruct (array_correct h l R NE) as [e [-> L]]. exact L.
  - simpl in FF. specialize (IHk FF). intros h l R NE B n A.
    pose proof (distinct_correct _ _ IHk h l R NE (vnub l) (vnub_support l)) as D. simpl in D.
    apply D. pose proof (vnub_length l). lia.
Qed.

(* run on its own observations, the oracle of the differential check accepts the model: for EVERY history,
   after every Add that leaves a net multiset without negative classes and with at least one member *)
Lemma spec_from_model k : float_free k = true -> forall h h0 n A,
  Z.of_nat (length (h0 ++ h)) < two63 ->
  spec_from k n A (netl h0) h (obs_from (agg_of k) (run (agg_of k) h0) h) = true.
Proof.
  intros FF h. induction h as [|e t IH]; intros h0 n A B; [reflexivity|].
  replace (h0 ++ e :: t) with ((h0 ++ [e]) ++ t) in B by (rewrite <- app_assoc; reflexivity).
  cbn [obs_from spec_from]. rewrite <- run_snoc, <- netl_snoc.
  apply andb_true_intro. split; [|apply IH; exact B].
  destruct (netl (h0 ++ [e])) as [l d] eqn:E. destruct l as [|x l']; [reflexivity|]. destruct d; [|reflexivity].
  apply (model_meets_oracle k FF (h0 ++ [e]) (x :: l') (netl_sound _ _ E)); [discriminate|].
  pose proof (netl_length (h0 ++ [e])) as L. rewrite E in L. cbn [fst] in L.
  unfold zlen. rewrite !app_length in B. rewrite app_length in L. simpl in *. lia.
Qed.

Theorem model_passes_c14_spec k h : float_free k = true ->
  Z.of_nat (length h) < two63 -> c14_spec (k, h, run_obs (agg_of k) h) = true.
Proof. intros FF B. unfold c14_spec, run_obs. apply (spec_from_model k FF h [] 0 0). exact B. Qed.

(* ---- float sums: retracting a non-finite value, or overflowing, loses the sum ---- *)
Definition fb_one : Z := 4607182418800017408.     (* 1.0 *)
Definition fb_pinf : Z := 9218868437227405312.    (* +Inf *)
Definition fb_max : Z := 9218868437227405311.     (* MaxFloat64 *)

Definition nonfinite_hist : hist := [(false, VFloat fb_pinf); (false, VFloat fb_one); (true, VFloat fb_pinf)].
Definition overflow_hist : hist := [(false, VFloat fb_max); (false, VFloat fb_max); (true, VFloat fb_max)].

Lemma float_sum_nonfinite_witness :
  represents [VFloat fb_one] nonfinite_hist /\
  trig SumFloat (run SumFloat nonfinite_hist) = Ok (VFloat f_canon_nan) /\
  trig AvgFloat (run AvgFloat nonfinite_hist) = Ok (VFloat f_canon_nan) /\
  c14_spec (KSumFloat, nonfinite_hist, run_obs SumFloat nonfinite_hist) = false.
Proof.
  split; [apply netl_sound; vm_compute; reflexivity|]. split; [vm_compute; reflexivity|]. split; vm_compute; reflexivity.
Qed.

Lemma float_sum_overflow_witness :
  represents [VFloat fb_max] overflow_hist /\
  forallb (fun e => fl_finite (float_of (snd e))) overflow_hist = true /\
  trig SumFloat (run SumFloat overflow_hist) = Ok (VFloat fb_pinf) /\
  c14_spec (KSumFloat, overflow_hist, run_obs SumFloat overflow_hist) = false.
Proof.
  split; [apply netl_sound; vm_compute; reflexivity|]. split; [vm_compute; reflexivity|]. split; vm_compute; reflexivity.
Qed.

(* ---- the code before the fix: Distinct forwarded a retraction when an addition cancelled an early retraction ---- *)
Definition early_retraction_hist : hist := [(true, VInt 7); (false, VInt 7); (false, VInt 9)].
Lemma distinct_pinned_witness :
  represents [VInt 9] early_retraction_hist /\
  trig (Distinct_pinned Count) (run (Distinct_pinned Count) early_retraction_hist) = Ok (VInt 0) /\
  trig (Distinct Count) (run (Distinct Count) early_retraction_hist) = Ok (VInt 1) /\
  c14_spec (KDistinct KCount, early_retraction_hist, run_obs (Distinct_pinned Count) early_retraction_hist) = false.
Proof.
  split; [apply netl_sound; vm_compute; reflexivity|]. split; [vm_compute; reflexivity|]. split; vm_compute; reflexivity.
Qed.

(* ---- the statements in the form Properties/C14.v gives them ---- *)
Lemma min_correct_prop h l : represents l h -> l <> [] ->
  exists m, trig Min (run Min h) = Ok m /\
            (exists x, In x l /\ vcompare m x = 0) /\ (forall x, In x l -> vcompare m x <= 0).
Proof.
  intros R NE. destruct (min_correct h l R NE) as [m [E L]]. exists m. split; [exact E|].
  apply is_least_spec. exact L.
Qed.
Lemma max_correct_prop h l : represents l h -> l <> [] ->
  exists m, trig Max (run Max h) = Ok m /\
            (exists x, In x l /\ vcompare m x = 0) /\ (forall x, In x l -> vcompare x m <= 0).
Proof.
  intros R NE. destruct (max_correct h l R NE) as [m [E L]]. exists m. split; [exact E|].
  apply is_greatest_spec. exact L.
Qed.
Lemma array_correct_prop h l : represents l h -> l <> [] ->
  exists e, trig Array (run Array h) = Ok (VList e) /\
            StronglySorted (fun a b => vcompare a b <= 0) e /\ (forall v, ccount e v = ccount l v).
Proof.
  intros R NE. destruct (array_correct h l R NE) as [e [E L]]. exists e. split; [exact E|].
  apply is_sorted_expansion_spec. exact L.
Qed.

Lemma float_sum_nonfinite_refuted : exists h l,
  represents l h /\ l = [VFloat fb_one] /\
  trig SumFloat (run SumFloat h) = Ok (VFloat f_canon_nan) /\
  trig AvgFloat (run AvgFloat h) = Ok (VFloat f_canon_nan) /\
  c14_spec (KSumFloat, h, run_obs SumFloat h) = false.
Proof.
  exists nonfinite_hist, [VFloat fb_one]. destruct float_sum_nonfinite_witness as [R [S [A O]]].
  split; [exact R|]. split; [reflexivity|]. split; [exact S|]. split; [exact A | exact O].
Qed.
Lemma float_sum_overflow_refuted : exists h l,
  represents l h /\ l = [VFloat fb_max] /\
  forallb (fun e => fl_finite (float_of (snd e))) h = true /\
  trig SumFloat (run SumFloat h) = Ok (VFloat fb_pinf) /\
  c14_spec (KSumFloat, h, run_obs SumFloat h) = false.
Proof.
  exists overflow_hist, [VFloat fb_max]. destruct float_sum_overflow_witness as [R [F [S O]]].
  split; [exact R|]. split; [reflexivity|]. split; [exact F|]. split; [exact S | exact O].
Qed.
Lemma distinct_pinned_refuted : exists h l,
  represents l h /\ l = [VInt 9] /\
  trig (Distinct_pinned Count) (run (Distinct_pinned Count) h) = Ok (VInt 0) /\
  trig (Distinct Count) (run (Distinct Count) h) = Ok (VInt 1) /\
  c14_spec (KDistinct KCount, h, run_obs (Distinct_pinned Count) h) = false.
Proof.
  exists early_retraction_hist, [VInt 9]. destruct distinct_pinned_witness as [R [P [F O]]].
  split; [exact R|]. split; [reflexivity|]. split; [exact P|]. split; [exact F | exact O].
Qed.

Lemma sum_algorithms_are_one :
  SumFloat = SumG fl_add fl_sub 0 float_of VFloat /\ SumInt = SumG add64 sub64 0 int_of VInt /\
  forall f, SumExact f = SumG Z.add Z.sub 0 f VInt.
Proof. repeat split. Qed.
