(* Proofs/TypesValueProofs.v — commutativity for related operands; Value.Type; refutation witnesses. *)
From Octo Require Import Types ValueInd TypesIsProofs TypesSoundProofs TypesSumFuel TypesTransProofs TypesSumProofs.

(* ---- commutativity, for related operands ---- *)
Theorem sum_comm_related : forall a b, is_rel a b = Is \/ is_rel b a = Is ->
  exists s1 s2, tsum a b = Ok s1 /\ tsum b a = Ok s2 /\ ty_equals s1 s2 = true.
Proof.
  intros a b H. unfold tsum, sum_fuel. simpl. rewrite !type_sum_level_eq.
  destruct (is_rel a b) eqn:Eab; destruct (is_rel b a) eqn:Eba; simpl;
    try (destruct H; discriminate).
  all: eexists; eexists; split; [reflexivity | split; [reflexivity|]]; unfold ty_equals; rewrite ?Eab, ?Eba, ?is_refl; reflexivity.
Qed.

(* ---- every value inhabits the type it reports, when its lists hold no structs / tuples ---- *)
Fixpoint v_st_free (v : value) : bool :=
  match v with
  | VList l => forallb v_st_free l
  | VStruct _ | VTuple _ => false
  | _ => true
  end.
Fixpoint lists_flat (v : value) : bool :=
  match v with
  | VList l => forallb v_st_free l
  | VStruct l | VTuple l => forallb lists_flat l
  | _ => true
  end.

Definition tov_step (acc : outcome (option ty)) (x : value) : outcome (option ty) :=
  obind acc (fun o => obind (type_of_value x) (fun t =>
    match o with
    | None => Ok (Some t)
    | Some e => obind (tsum e t) (fun s => Ok (Some s))
    end)).

Lemma type_of_value_list : forall l,
  type_of_value (VList l) = obind (fold_left tov_step l (Ok None)) (fun e => Ok (TList e)).
Proof. reflexivity. Qed.

Lemma tsum_upper_stfree : forall a b, st_free a = true -> st_free b = true ->
  exists s, tsum a b = Ok s /\ upper a b s.
Proof.
  intros a b Sa Sb. destruct (sum_fuel_enough a b) as [s [E _]]. exists s. split; [exact E|].
  apply (sum_upper_stfree_gen _ a b s Sa Sb E).
Qed.

Lemma tov_fold : forall l,
  Forall (fun x => exists t, type_of_value x = Ok t /\ st_free t = true /\ has_type x t = true) l ->
  forall o seen,
    (match o with
     | None => seen = []
     | Some e => st_free e = true /\ forallb (fun x => has_type x e) seen = true
     end) ->
    exists o', fold_left tov_step l (Ok o) = Ok o' /\
      match o' with
      | None => seen ++ l = []
      | Some e => st_free e = true /\ forallb (fun x => has_type x e) (seen ++ l) = true
      end.
Proof.
  induction 1 as [|x l [t [Et [St Ht]]] _ IH]; intros o seen Ho.
  - exists o. split; [reflexivity|]. rewrite app_nil_r. exact Ho.
  - cbn [fold_left].
    assert (E1 : tov_step (Ok o) x = match o with None => Ok (Some t) | Some e => obind (tsum e t) (fun s => Ok (Some s)) end).
    { unfold tov_step. simpl. rewrite Et. reflexivity. }
    rewrite E1.
    replace (seen ++ x :: l) with ((seen ++ [x]) ++ l) by (rewrite <- app_assoc; reflexivity).
    destruct o as [e|].
    + destruct Ho as [Se Hs]. destruct (tsum_upper_stfree e t Se St) as [s [Es [Ss [H1 H2]]]]. rewrite Es. simpl.
      apply IH. split; [exact Ss|]. rewrite forallb_app. apply andb_true_iff. split.
      * rewrite forallb_forall in *. intros y Hy. apply (is_sound e s y H1). apply Hs. exact Hy.
      * simpl. rewrite (is_sound t s x H2 Ht). reflexivity.
    + subst seen. apply IH. split; [exact St|]. simpl. rewrite Ht. reflexivity.
Qed.

Lemma value_type_stfree : forall v, v_st_free v = true ->
  exists t, type_of_value v = Ok t /\ st_free t = true /\ has_type v t = true.
Proof.
  induction v as [ | z | b | b | s | ns loc | z | l IH | l IH | l IH ] using value_ind'; intro S; try discriminate S;
    try (eexists; split; [reflexivity | split; reflexivity]).
  simpl in S. rewrite type_of_value_list.
  assert (F : Forall (fun x => exists t, type_of_value x = Ok t /\ st_free t = true /\ has_type x t = true) l).
  { rewrite Forall_forall in *. rewrite forallb_forall in S. intros x Hx. apply (IH x Hx). apply S. exact Hx. }
  destruct (tov_fold l F None [] eq_refl) as [o' [E H]]. rewrite E. simpl. destruct o' as [e|].
  - destruct H as [Se Hl]. exists (TList (Some e)). split; [reflexivity | split; [exact Se | exact Hl]].
  - simpl in H. subst l. exists (TList None). split; [reflexivity | split; reflexivity].
Qed.

Lemma outcome_all_map_tov : forall l,
  Forall (fun x => exists t, type_of_value x = Ok t /\ has_type x t = true) l ->
  exists ts, outcome_all (map type_of_value l) = Ok ts /\ elems_ok ts l = true.
Proof.
  induction 1 as [|x l [t [Et Ht]] _ [ts [Ets Hts]]].
  - exists []. split; reflexivity.
  - exists (t :: ts). simpl. rewrite Et. simpl. rewrite Ets. simpl. split; [reflexivity|]. rewrite Ht. exact Hts.
Qed.

Lemma fields_ok_empty_names : forall ts l, fields_ok (map (fun t => (empty_name, t)) ts) l = elems_ok ts l.
Proof. induction ts as [|t ts IH]; intros [|x l]; simpl; try reflexivity. rewrite IH. reflexivity. Qed.

Theorem value_type_partial : forall v, lists_flat v = true ->
  exists t, type_of_value v = Ok t /\ has_type v t = true.
Proof.
  induction v as [ | z | b | b | s | ns loc | z | l IH | l IH | l IH ] using value_ind'; intro S;
    try (eexists; split; reflexivity).
  - destruct (value_type_stfree (VList l) S) as [t [E [_ H]]]. exists t. split; assumption.
  - simpl in S. assert (F : Forall (fun x => exists t, type_of_value x = Ok t /\ has_type x t = true) l).
    { rewrite Forall_forall in *. rewrite forallb_forall in S. intros x Hx. apply (IH x Hx). apply S. exact Hx. }
    destruct (outcome_all_map_tov l F) as [ts [E H]].
    exists (TStruct (map (fun t => (empty_name, t)) ts)). split.
    + change (type_of_value (VStruct l)) with (obind (outcome_all (map type_of_value l)) (fun ts => Ok (TStruct (map (fun t => (empty_name, t)) ts)))).
      rewrite E. reflexivity.
    + rewrite has_type_struct, fields_ok_empty_names. exact H.
  - simpl in S. assert (F : Forall (fun x => exists t, type_of_value x = Ok t /\ has_type x t = true) l).
    { rewrite Forall_forall in *. rewrite forallb_forall in S. intros x Hx. apply (IH x Hx). apply S. exact Hx. }
    destruct (outcome_all_map_tov l F) as [ts [E H]].
    exists (TTuple ts). split.
    + change (type_of_value (VTuple l)) with (obind (outcome_all (map type_of_value l)) (fun ts => Ok (TTuple ts))).
      rewrite E. reflexivity.
    + rewrite has_type_tuple. exact H.
Qed.

(* ---- witnesses on the pinned tree and for the finding that stays ---- *)
Definition nm (c : Z) : list Z := [c].
Lemma sum_upper_refuted_struct :
  exists a b s, wf_ty a = true /\ wf_ty b = true /\ tsum a b = Ok s /\ is_rel a s <> Is.
Proof. exists (TStruct [(nm 97, TInt)]), (TStruct [(nm 98, TInt)]). eexists. vm_compute. repeat split; discriminate. Qed.
Lemma sum_upper_refuted_tuple :
  exists a b s, wf_ty a = true /\ wf_ty b = true /\ tsum a b = Ok s /\ is_rel a s <> Is.
Proof. exists (TTuple [TInt]), (TTuple [TStr; TInt]). eexists. vm_compute. repeat split; discriminate. Qed.
Lemma value_type_refuted_list_of_structs :
  exists v t, type_of_value v = Ok t /\ has_type v t = false.
Proof. exists (VList [VStruct [VInt 1; VInt 2]; VStruct [VFloat 0; VFloat 0]]). eexists. vm_compute. split; reflexivity. Qed.
Lemma value_type_pinned_refuted :
  exists v t, type_of_value_pinned v = Ok t /\ has_type v t = false.
Proof. exists (VStruct [VInt 1]). eexists. vm_compute. split; reflexivity. Qed.
Lemma inter_pinned_refuted :
  exists a b i, type_inter_pinned a b = Ok (Some i) /\ is_rel i b <> Is.
Proof. exists (TUnion [TInt; TStr]), TInt. eexists. vm_compute. split; [reflexivity | discriminate]. Qed.

Theorem sum_upper_partial : forall a b, st_free a = true -> st_free b = true ->
  exists s, tsum a b = Ok s /\ is_rel a s = Is /\ is_rel b s = Is.
Proof. intros a b Sa Sb. destruct (tsum_upper_stfree a b Sa Sb) as [s [E [_ [H1 H2]]]]. exists s. auto. Qed.
