(* Proofs/PluginsFsProofs.v — C27: crash safety of the staged Install and of AddRepository. *)
From Octo Require Import Plugins PluginsProofs PluginsFs PluginsJson.
From Coq Require Import Permutation.

Local Arguments bytes_eqb : simpl never.
Local Arguments print_version : simpl never.
Local Arguments dir_of : simpl never.
Local Opaque print_version.

(* ---------------- paths and the finite map ---------------- *)
Lemma path_eqb_eq : forall a b, path_eqb a b = true <-> a = b.
Proof.
  induction a as [|x a IH]; destruct b as [|y b]; simpl; split; intro H; try reflexivity; try discriminate.
  - apply andb_true_iff in H. destruct H as [H1 H2]. apply bytes_eqb_eq in H1. apply IH in H2. congruence.
  - inversion H; subst. rewrite bytes_eqb_refl. simpl. apply IH. reflexivity.
Qed.
Lemma path_eqb_refl : forall a, path_eqb a a = true.
Proof. intro a. apply path_eqb_eq. reflexivity. Qed.
Lemma path_eqb_neq : forall a b, a <> b -> path_eqb a b = false.
Proof. intros a b H. destruct (path_eqb a b) eqn:E; [apply path_eqb_eq in E; contradiction|reflexivity]. Qed.
Lemma path_eqb_false : forall a b, path_eqb a b = false -> a <> b.
Proof. intros a b H E. subst. rewrite path_eqb_refl in H. discriminate. Qed.

Lemma get_del_same : forall f p, fs_get (fs_del f p) p = None.
Proof.
  induction f as [|[q n] t IH]; intro p; simpl; [reflexivity|].
  destruct (path_eqb q p) eqn:E; simpl; [apply IH|]. rewrite E. apply IH.
Qed.
Lemma get_del_other : forall f p q, q <> p -> fs_get (fs_del f p) q = fs_get f q.
Proof.
  induction f as [|[r n] t IH]; intros p q H; simpl; [reflexivity|].
  destruct (path_eqb r p) eqn:E; simpl.
  - apply path_eqb_eq in E. subst r. rewrite (path_eqb_neq p q) by congruence. apply IH. exact H.
  - destruct (path_eqb r q); [reflexivity|apply IH; exact H].
Qed.
Lemma get_set_same : forall f p n, fs_get (fs_set f p n) p = Some n.
Proof. intros. unfold fs_set. simpl. rewrite path_eqb_refl. reflexivity. Qed.
Lemma get_set_other : forall f p n q, q <> p -> fs_get (fs_set f p n) q = fs_get f q.
Proof. intros f p n q H. unfold fs_set. simpl. rewrite (path_eqb_neq p q) by congruence. apply get_del_other. exact H. Qed.

Lemma get_add_name_other : forall f p q, q <> parent p -> fs_get (add_name f p) q = fs_get f q.
Proof.
  intros f p q H. unfold add_name. destruct (fs_get f (parent p)) as [[ns|c]|]; try reflexivity.
  destruct (existsb _ ns); [reflexivity|]. apply get_set_other. exact H.
Qed.
Lemma get_del_name_other : forall f p q, q <> parent p -> fs_get (del_name f p) q = fs_get f q.
Proof.
  intros f p q H. unfold del_name. destruct (fs_get f (parent p)) as [[ns|c]|]; try reflexivity.
  apply get_set_other. exact H.
Qed.

(* the paths a non-rename step can change *)
Definition subject (o : fs_op) : path :=
  match o with Mkdir p | Unlink p | Create p | Write p _ => p | Rename s _ => s end.
Definition is_rename (o : fs_op) : bool := match o with Rename _ _ => true | _ => false end.

Lemma frame : forall f o q, is_rename o = false -> q <> subject o -> q <> parent (subject o) ->
  fs_get (apply_op f o) q = fs_get f q.
Proof.
  intros f o q R H1 H2. destruct o as [p|p|p|p d|s d]; simpl in *; try discriminate.
  - destruct (fs_get f p); [reflexivity|]. rewrite get_add_name_other by exact H2. apply get_set_other. exact H1.
  - rewrite get_del_name_other by exact H2. apply get_del_other. exact H1.
  - destruct (fs_get f p) as [[ns|c]|]; try reflexivity.
    + apply get_set_other. exact H1.
    + rewrite get_add_name_other by exact H2. apply get_set_other. exact H1.
  - destruct (fs_get f p) as [[ns|c]|]; try reflexivity. apply get_set_other. exact H1.
Qed.

(* a write never changes anything but its own file *)
Lemma frame_write : forall f p d q, q <> p -> fs_get (apply_op f (Write p d)) q = fs_get f q.
Proof.
  intros f p d q H. simpl. destruct (fs_get f p) as [[ns|c]|]; try reflexivity. apply get_set_other. exact H.
Qed.

(* ---------------- crash = a prefix of the steps, plus possibly a torn write ---------------- *)
Lemma crash_app_lt : forall A B f k t, (k < length A)%nat -> crash (A ++ B) f k t = crash A f k t.
Proof.
  induction A as [|a A IH]; intros B f k t H; simpl in H; [lia|].
  destruct k; simpl; [destruct a; reflexivity|]. apply IH. lia.
Qed.
Lemma crash_app_ge : forall A B f k t, (length A <= k)%nat ->
  crash (A ++ B) f k t = crash B (run_ops A f) (k - length A) t.
Proof.
  induction A as [|a A IH]; intros B f k t H; simpl in *.
  - rewrite Nat.sub_0_r. reflexivity.
  - destruct k; [lia|]. simpl. apply IH. lia.
Qed.
Lemma crash_all : forall A f k t, (length A <= k)%nat -> crash A f k t = run_ops A f.
Proof.
  induction A as [|a A IH]; intros f k t H; simpl in *; [destruct k; reflexivity|].
  destruct k; [lia|]. apply IH. lia.
Qed.

(* an invariant kept by every step of a list, and by every torn prefix of its writes, holds after any crash *)
Definition keeps (I : fs -> Prop) (o : fs_op) : Prop :=
  (forall g, I g -> I (apply_op g o)) /\
  (forall p d n, o = Write p d -> forall g, I g -> I (apply_op g (Write p (firstn n d)))).

Lemma crash_keeps : forall (I : fs -> Prop) ops f k t,
  I f -> Forall (keeps I) ops -> I (crash ops f k t).
Proof.
  intros I ops. induction ops as [|o ops IH]; intros f k t Hf Hk; [destruct k; exact Hf|].
  inversion Hk as [|? ? [K1 K2] Hk']; subst. destruct k; simpl.
  - destruct o; try exact Hf. apply (K2 p d t eq_refl). exact Hf.
  - apply IH; [apply K1; exact Hf|exact Hk'].
Qed.
Lemma run_keeps : forall (I : fs -> Prop) ops f, I f -> Forall (keeps I) ops -> I (run_ops ops f).
Proof.
  intros I ops f Hf Hk. rewrite <- (crash_all ops f (length ops) 0%nat) by lia. apply crash_keeps; assumption.
Qed.

(* ---------------- generic facts about mapM / outcomes ---------------- *)
Lemma mapM_ext_in : forall {A B} (g g' : A -> outcome B) l,
  (forall x, In x l -> g x = g' x) -> mapM g l = mapM g' l.
Proof.
  induction l as [|x t IH]; intro H; simpl; [reflexivity|].
  rewrite (H x) by (left; reflexivity). rewrite IH; [reflexivity|]. intros y Hy. apply H. right. exact Hy.
Qed.

Definition orel {A B} (R : A -> B -> Prop) (o : outcome A) (o' : outcome B) : Prop :=
  match o, o' with
  | Ok a, Ok b => R a b
  | Err e, Err e' => e = e'
  | Panic s, Panic s' => s = s'
  | _, _ => False
  end.

Lemma orel_bind : forall {A B A' B'} (R : A -> A' -> Prop) (Q : B -> B' -> Prop) o o' k k',
  orel R o o' -> (forall a a', R a a' -> orel Q (k a) (k' a')) -> orel Q (obind o k) (obind o' k').
Proof. intros. destruct o, o'; simpl in *; try contradiction; auto. Qed.

Lemma mapM_rel : forall {A B B'} (R : B -> B' -> Prop) (g : A -> outcome B) (g' : A -> outcome B') l,
  (forall x, In x l -> orel R (g x) (g' x)) -> orel (Forall2 R) (mapM g l) (mapM g' l).
Proof.
  induction l as [|x t IH]; intro H; simpl; [constructor|].
  apply (orel_bind R); [apply H; left; reflexivity|]. intros a a' Ra.
  apply (orel_bind (Forall2 R)); [apply IH; intros y Hy; apply H; right; exact Hy|].
  intros b b' Rb. simpl. constructor; assumption.
Qed.

Lemma orel_eq_refl : forall {A} (o : outcome A), orel eq o o.
Proof. destruct o; simpl; reflexivity. Qed.

(* ---------------- prefixes ---------------- *)
Lemma strip_prefix_app : forall s p r, strip_prefix s p = Some r -> p = s ++ r.
Proof.
  induction s as [|a s IH]; intros p r H; simpl in *; [congruence|].
  destruct p as [|b p]; [discriminate|]. destruct (bytes_eqb a b) eqn:E; [|discriminate].
  apply bytes_eqb_eq in E. subst. f_equal. apply IH. exact H.
Qed.
Lemma strip_prefix_self : forall s r, strip_prefix s (s ++ r) = Some r.
Proof. induction s as [|a s IH]; intro r; simpl; [reflexivity|]. rewrite bytes_eqb_refl. apply IH. Qed.
Lemma under_app : forall s r, under s (s ++ r) = true.
Proof. intros. unfold under. rewrite strip_prefix_self. reflexivity. Qed.
Lemma under_self : forall s, under s s = true.
Proof. intro s. rewrite <- (app_nil_r s) at 2. apply under_app. Qed.
Lemma path_eqb_app_l : forall s a b, path_eqb (s ++ a) (s ++ b) = path_eqb a b.
Proof. induction s as [|x s IH]; intros; simpl; [reflexivity|]. rewrite bytes_eqb_refl. simpl. apply IH. Qed.
Lemma under_neq : forall s p q, under s p = true -> under s q = false -> p <> q.
Proof. intros s p q H1 H2 E. subst. congruence. Qed.

Lemma in_get : forall f q n, In (q, n) f -> fs_get f q <> None.
Proof.
  induction f as [|[r m] t IH]; intros q n H; [destruct H|]. simpl.
  destruct (path_eqb r q) eqn:E; [discriminate|]. destruct H as [H|H]; [inversion H; subst; rewrite path_eqb_refl in E; discriminate|].
  eapply IH. exact H.
Qed.

(* ---------------- rename ---------------- *)
Definition rekey (s d : path) (e : path * node) : path * node :=
  match strip_prefix s (fst e) with Some r => (d ++ r, snd e) | None => e end.
Definition moved (s d : path) (g : fs) : fs := map (rekey s d) (filter (fun e => negb (under d (fst e))) g).

Lemma apply_rename : forall g s d, apply_op g (Rename s d) = add_name (del_name (moved s d g) s) d.
Proof. reflexivity. Qed.

Lemma moved_other : forall s d g q, under s q = false -> under d q = false -> fs_get (moved s d g) q = fs_get g q.
Proof.
  intros s d g q Hs Hd. unfold moved. induction g as [|[key n] t IH]; simpl; [reflexivity|].
  destruct (under d key) eqn:Ud; simpl.
  - rewrite (path_eqb_neq key q) by (eapply under_neq; eauto). exact IH.
  - unfold rekey at 1. simpl. destruct (strip_prefix s key) as [r|] eqn:St; simpl.
    + apply strip_prefix_app in St. subst key.
      rewrite (path_eqb_neq (d ++ r) q) by (eapply under_neq; [apply under_app|exact Hd]).
      rewrite (path_eqb_neq (s ++ r) q) by (eapply under_neq; [apply under_app|exact Hs]). exact IH.
    + destruct (path_eqb key q); [reflexivity|exact IH].
Qed.

Lemma moved_target : forall s d g r, under d (s ++ r) = false -> fs_get (moved s d g) (d ++ r) = fs_get g (s ++ r).
Proof.
  intros s d g r Hd. unfold moved. induction g as [|[key n] t IH]; simpl; [reflexivity|].
  destruct (under d key) eqn:Ud; simpl.
  - rewrite (path_eqb_neq key (s ++ r)) by (eapply under_neq; eauto). exact IH.
  - unfold rekey at 1. simpl. destruct (strip_prefix s key) as [r'|] eqn:St; simpl.
    + apply strip_prefix_app in St. subst key. rewrite !path_eqb_app_l. destruct (path_eqb r' r); [reflexivity|exact IH].
    + assert (Us : under s key = false) by (unfold under; rewrite St; reflexivity).
      rewrite (path_eqb_neq key (d ++ r)) by (intro E; subst; rewrite under_app in Ud; discriminate).
      rewrite (path_eqb_neq key (s ++ r)) by (intro E; subst; rewrite under_app in Us; discriminate). exact IH.
Qed.

Lemma moved_source : forall s d g q, under s q = true -> under d q = false -> fs_get (moved s d g) q = None.
Proof.
  intros s d g q Hs Hd. unfold moved. induction g as [|[key n] t IH]; simpl; [reflexivity|].
  destruct (under d key) eqn:Ud; simpl; [exact IH|].
  unfold rekey at 1. simpl. destruct (strip_prefix s key) as [r|] eqn:St; simpl.
  - rewrite (path_eqb_neq (d ++ r) q) by (eapply under_neq; [apply under_app|exact Hd]). exact IH.
  - assert (Us : under s key = false) by (unfold under; rewrite St; reflexivity).
    rewrite (path_eqb_neq key q) by (intro E; subst; congruence). exact IH.
Qed.

(* ---------------- the start-up view while Install works in the staging directory ---------------- *)
Definition nonstaging (r : bytes) : bool := negb (bytes_eqb staging_name r).

Definition same_view (f0 f : fs) : Prop :=
  (forall q, under S q = false -> q <> P -> fs_get f q = fs_get f0 q) /\
  (exists ns0 ns, fs_get f0 P = Some (Dir ns0) /\ fs_get f P = Some (Dir ns) /\
                  filter nonstaging ns = filter nonstaging ns0).

Lemma same_view_refl : forall f0 ns0, fs_get f0 P = Some (Dir ns0) -> same_view f0 f0.
Proof. intros f0 ns0 H. split; [reflexivity|]. exists ns0, ns0. auto. Qed.

Lemma under_S_inv : forall p, under S p = true -> exists r, p = s_plugins :: staging_name :: r.
Proof.
  intros p H. unfold under in H. destruct (strip_prefix S p) as [r|] eqn:E; [|discriminate].
  apply strip_prefix_app in E. exists r. exact E.
Qed.

Lemma parent_under_S : forall p, under S p = true -> p = S \/ under S (parent p) = true.
Proof.
  intros p H. destruct (under_S_inv p H) as [r E]. subst p. destruct r as [|x r]; [left; reflexivity|right].
  unfold parent. change (s_plugins :: staging_name :: x :: r) with (S ++ (x :: r)).
  assert (R : removelast (S ++ x :: r) = S ++ removelast (x :: r)) by (apply removelast_app; discriminate).
  rewrite R. apply under_app.
Qed.

Lemma P_not_under_S : under S P = false.
Proof. reflexivity. Qed.

Lemma filter_nonstaging_del : forall ns,
  filter nonstaging (filter (fun n => negb (bytes_eqb (base S) n)) ns) = filter nonstaging ns.
Proof.
  induction ns as [|n t IH]; simpl; [reflexivity|]. change (base S) with staging_name.
  unfold nonstaging at 2. destruct (bytes_eqb staging_name n) eqn:E; simpl; [exact IH|].
  unfold nonstaging at 1. rewrite E. simpl. f_equal. exact IH.
Qed.

Lemma filter_nonstaging_add : forall ns, filter nonstaging (base S :: ns) = filter nonstaging ns.
Proof. intro ns. reflexivity. Qed.

Lemma step_under_S : forall f0 g o, same_view f0 g -> is_rename o = false -> under S (subject o) = true ->
  same_view f0 (apply_op g o).
Proof.
  intros f0 g o [V1 (ns0 & ns & H0 & Hg & Hf)] R U. split.
  - intros q Uq Nq. rewrite <- (V1 q Uq Nq). apply frame; [exact R| |].
    + intro E. subst. congruence.
    + destruct (parent_under_S _ U) as [E|E]; [rewrite E; exact Nq|intro E'; subst; congruence].
  - exists ns0. destruct (parent_under_S _ U) as [E|E].
    + (* the step is on the staging directory itself: the entry list of plugins/ changes by that name only *)
      destruct o as [p|p|p|p d|s d]; simpl in *; try discriminate; subst p.
      * destruct (fs_get g S); [exists ns; auto|].
        unfold add_name. change (parent S) with P. rewrite get_set_other by discriminate. rewrite Hg.
        destruct (existsb (bytes_eqb (base S)) ns).
        -- exists ns. rewrite get_set_other by discriminate. auto.
        -- exists (base S :: ns). rewrite get_set_same. split; [assumption|]. split; [reflexivity|].
           rewrite filter_nonstaging_add. exact Hf.
      * unfold del_name. change (parent S) with P. rewrite get_del_other by discriminate. rewrite Hg.
        eexists. rewrite get_set_same. split; [assumption|]. split; [reflexivity|]. rewrite filter_nonstaging_del. exact Hf.
      * destruct (fs_get g S) as [[l|c]|].
        -- exists ns. auto.
        -- exists ns. rewrite get_set_other by discriminate. auto.
        -- unfold add_name. change (parent S) with P. rewrite get_set_other by discriminate. rewrite Hg.
           destruct (existsb (bytes_eqb (base S)) ns).
           ++ exists ns. rewrite get_set_other by discriminate. auto.
           ++ exists (base S :: ns). rewrite get_set_same. split; [assumption|]. split; [reflexivity|].
              rewrite filter_nonstaging_add. exact Hf.
      * exists ns. destruct (fs_get g S) as [[l|c]|]; auto. rewrite get_set_other by discriminate. auto.
    + exists ns. split; [assumption|]. split; [|exact Hf]. rewrite <- Hg. apply frame; [exact R| |].
      * intro E'. rewrite <- E' in U. discriminate.
      * intro E'. rewrite <- E' in E. discriminate.
Qed.

Lemma keeps_under_S : forall f0 o, is_rename o = false -> under S (subject o) = true -> keeps (same_view f0) o.
Proof.
  intros f0 o R U. split.
  - intros g Hg. apply step_under_S; assumption.
  - intros p d n E g Hg. subst o. apply (step_under_S f0 g (Write p (firstn n d))); assumption.
Qed.

Lemma keeps_mkdir_existing : forall f0 q, under S q = false -> fs_get f0 q <> None -> keeps (same_view f0) (Mkdir q).
Proof.
  intros f0 q U H. split; [|intros; discriminate].
  intros g Hg. simpl. destruct (path_eqb q P) eqn:E.
  - apply path_eqb_eq in E. subst q. destruct Hg as [V1 (ns0 & ns & H0 & Hg & Hf)]. rewrite Hg. split; [exact V1|]. exists ns0, ns. auto.
  - destruct Hg as [V1 V2]. rewrite (V1 q U (path_eqb_false _ _ E)). destruct (fs_get f0 q); [split; assumption|congruence].
Qed.

(* what start-up reads is unchanged *)
Lemma view_tree : forall f0 f, same_view f0 f -> tree_of_fs f = tree_of_fs f0.
Proof.
  intros f0 f [V1 (ns0 & ns & H0 & Hg & Hf)]. unfold tree_of_fs. rewrite H0, Hg.
  change (fun r => negb (bytes_eqb staging_name r)) with nonstaging. rewrite Hf.
  apply mapM_ext_in. intros r Hr. apply filter_In in Hr. destruct Hr as [_ Hr].
  unfold nonstaging in Hr. apply negb_true_iff in Hr.
  assert (U2 : forall rest, under S (s_plugins :: r :: rest) = false).
  { intro rest. unfold under, S. simpl. rewrite Hr. reflexivity. }
  unfold read_repo, read_dir. rewrite (V1 [s_plugins; r]) by (auto; discriminate).
  destruct (fs_get f0 [s_plugins; r]) as [[ds|c]|]; try reflexivity. simpl.
  replace (mapM (read_plugin f r) ds) with (mapM (read_plugin f0 r) ds); [reflexivity|].
  apply mapM_ext_in. intros d _. unfold read_plugin, read_dir. rewrite (V1 [s_plugins; r; d]) by (auto; discriminate). reflexivity.
Qed.

Lemma view_ext : forall f0 f, same_view f0 f -> load_handlers f = load_handlers f0.
Proof. intros f0 f [V1 _]. unfold load_handlers. rewrite (V1 ext_path) by (try reflexivity; discriminate). reflexivity. Qed.

Lemma view_startup : forall f0 f d, same_view f0 f -> startup_db f d = startup_db f0 d.
Proof. intros f0 f d V. unfold startup_db, listing. rewrite (view_tree _ _ V), (view_ext _ _ V). reflexivity. Qed.

Lemma view_get : forall f0 f q, same_view f0 f -> under S q = false -> q <> P -> fs_get f q = fs_get f0 q.
Proof. intros f0 f q [V1 _]. apply V1. Qed.

(* ---------------- hypotheses: a further version of an installed plugin, into a fresh version directory ---------------- *)
Definition PD (i : install) : path := [s_plugins; i_repo i; dir_of (i_name i)].
Definition ver_name (i : install) : bytes := print_version (i_version i).

Record upgrade_ok (f0 : fs) (i : install) : Prop := {
  u_P : exists ns0, fs_get f0 P = Some (Dir ns0);
  u_repo : fs_get f0 [s_plugins; i_repo i] <> None;
  u_dir : exists nsd, fs_get f0 (PD i) = Some (Dir nsd) /\ ~ In (ver_name i) nsd;
  u_fresh : forall q, under (N i) q = true -> fs_get f0 q = None;
  u_nostage : i_repo i <> staging_name;
  u_parse : parse_version (ver_name i) = Some (i_version i);
  u_tmp : forall ns, fs_get f0 ext_tmp <> Some (Dir ns);
  u_name_safe : safe_str (i_name i) = true;
  u_exts_safe : forallb safe_str (i_exts i) = true }.

Definition phaseA (f0 : fs) (i : install) : list fs_op :=
  remove_all f0 S ++ mkdir_all S ++ [Create (S ++ [s_archive]); Write (S ++ [s_archive]) (i_archive i)]
  ++ unarchive_ops S (i_members i) ++ [Unlink (S ++ [s_archive])] ++ mkdir_all (parent (N i)).

Lemma install_ops_split : forall f0 i,
  install_ops f0 i =
  phaseA f0 i ++ remove_all (run_ops (phaseA f0 i) f0) (N i) ++ [Rename S (N i)]
  ++ ext_ops (run_ops (remove_all (run_ops (phaseA f0 i) f0) (N i) ++ [Rename S (N i)]) (run_ops (phaseA f0 i) f0)) i.
Proof. intros. unfold install_ops, phaseA. rewrite <- !app_assoc. reflexivity. Qed.

Lemma in_insert_path : forall p q l, In p (insert_path_desc q l) -> p = q \/ In p l.
Proof.
  induction l as [|x t IH]; simpl; intro H; [destruct H; auto|].
  destruct (path_ltb x q); simpl in H; [destruct H; auto|]. destruct H as [H|H]; [auto|]. destruct (IH H); auto.
Qed.
Lemma in_sort_paths : forall p l, In p (sort_paths_desc l) -> In p l.
Proof.
  induction l as [|x t IH]; simpl; intro H; [exact H|]. apply in_insert_path in H. destruct H; [left; congruence|right; auto].
Qed.

Lemma remove_all_keeps : forall f0 f, Forall (keeps (same_view f0)) (remove_all f S).
Proof.
  intros f0 f. unfold remove_all. apply Forall_forall. intros o Ho. apply in_map_iff in Ho. destruct Ho as (p & E & Hp). subst o.
  apply in_sort_paths in Hp. apply in_map_iff in Hp. destruct Hp as ([q n] & E & Hq). simpl in E. subst q.
  apply filter_In in Hq. destruct Hq as [_ Hq]. simpl in Hq. apply keeps_under_S; [reflexivity|exact Hq].
Qed.

Lemma under_short : forall s q, (length q < length s)%nat -> under s q = false.
Proof.
  unfold under. induction s as [|a s IH]; intros q H; simpl in *; [lia|].
  destruct q as [|b q]; [reflexivity|]. destruct (bytes_eqb a b); [|reflexivity]. apply IH. simpl in H. lia.
Qed.

Lemma under_S_plugins : forall r rest, r <> staging_name -> under S (s_plugins :: r :: rest) = false.
Proof.
  intros r rest H. unfold under, S. simpl. destruct (bytes_eqb staging_name r) eqn:E; [|reflexivity].
  apply bytes_eqb_eq in E. congruence.
Qed.

Lemma under_N_inv : forall i q, under (N i) q = true -> exists r, q = N i ++ r.
Proof. intros i q H. unfold under in H. destruct (strip_prefix (N i) q) eqn:E; [|discriminate]. apply strip_prefix_app in E. eauto. Qed.

Lemma under_N_not_S : forall i q, i_repo i <> staging_name -> under (N i) q = true -> under S q = false.
Proof. intros i q H U. destruct (under_N_inv i q U) as [r E]. subst q. apply under_S_plugins. exact H. Qed.

Lemma phaseA_keeps : forall f0 i, upgrade_ok f0 i -> Forall (keeps (same_view f0)) (phaseA f0 i).
Proof.
  intros f0 i U. unfold phaseA. destruct (u_P _ _ U) as [ns0 HP]. destruct (u_dir _ _ U) as (nsd & Hd & _).
  apply Forall_app; split; [apply remove_all_keeps|].
  apply Forall_app; split.
  { change (mkdir_all S) with [Mkdir P; Mkdir S].
    constructor; [apply keeps_mkdir_existing; [reflexivity|congruence]|].
    constructor; [apply keeps_under_S; reflexivity|constructor]. }
  apply Forall_app; split.
  { constructor; [apply keeps_under_S; [reflexivity|apply under_app]|].
    constructor; [apply keeps_under_S; [reflexivity|apply under_app]|constructor]. }
  apply Forall_app; split.
  { unfold unarchive_ops. apply Forall_concat. apply Forall_forall. intros l Hl. apply in_map_iff in Hl. destruct Hl as (m & E & _). subst l.
    constructor; [apply keeps_under_S; [reflexivity|apply under_app]|].
    constructor; [apply keeps_under_S; [reflexivity|apply under_app]|constructor]. }
  apply Forall_app; split.
  { constructor; [apply keeps_under_S; [reflexivity|apply under_app]|constructor]. }
  change (mkdir_all (parent (N i))) with [Mkdir P; Mkdir [s_plugins; i_repo i]; Mkdir (PD i)].
  constructor; [apply keeps_mkdir_existing; [reflexivity|congruence]|].
  constructor; [apply keeps_mkdir_existing; [apply under_S_plugins; apply (u_nostage _ _ U)|apply (u_repo _ _ U)]|].
  constructor; [apply keeps_mkdir_existing; [apply under_S_plugins; apply (u_nostage _ _ U)|congruence]|constructor].
Qed.

Lemma remove_all_nil : forall f p, (forall q, under p q = true -> fs_get f q = None) -> remove_all f p = [].
Proof.
  intros f p H. unfold remove_all.
  assert (E : filter (fun e => under p (fst e)) f = []).
  { assert (G : forall l, (forall q n, In (q, n) l -> In (q, n) f) -> filter (fun e => under p (fst e)) l = []).
    { induction l as [|[q n] t IH]; intro Hl; simpl; [reflexivity|].
      destruct (under p q) eqn:E.
      - exfalso. apply (in_get f q n); [apply Hl; left; reflexivity|apply H; exact E].
      - apply IH. intros q' n' Hq. apply Hl. right. exact Hq. }
    apply G. auto. }
  rewrite E. reflexivity.
Qed.

Lemma fresh_after_A : forall f0 i g, upgrade_ok f0 i -> same_view f0 g ->
  forall q, under (N i) q = true -> fs_get g q = None.
Proof.
  intros f0 i g U V q Hq. rewrite (view_get f0 g q V).
  - apply (u_fresh _ _ U). exact Hq.
  - apply (under_N_not_S i); [apply (u_nostage _ _ U)|exact Hq].
  - intro E. subst q. rewrite under_short in Hq; [discriminate|simpl; lia].
Qed.

(* ---------------- the rename into place ---------------- *)
Lemma existsb_notin : forall x l, ~ In x l -> existsb (bytes_eqb x) l = false.
Proof.
  induction l as [|y t IH]; intro H; simpl; [reflexivity|].
  destruct (bytes_eqb x y) eqn:E; [apply bytes_eqb_eq in E; subst; exfalso; apply H; left; reflexivity|].
  apply IH. intro H'. apply H. right. exact H'.
Qed.

Local Arguments apply_op : simpl never.

Section AfterRename.
  Variables (f0 : fs) (i : install) (g : fs).
  Hypothesis U : upgrade_ok f0 i.
  Hypothesis V : same_view f0 g.
  Local Notation g' := (apply_op g (Rename S (N i))).

  Lemma PD_parent : parent (N i) = PD i. Proof. reflexivity. Qed.
  Lemma N_base : base (N i) = ver_name i. Proof. reflexivity. Qed.

  Lemma ren_other : forall q, under S q = false -> under (N i) q = false -> q <> P -> q <> PD i ->
    fs_get g' q = fs_get f0 q.
  Proof.
    intros q Hs Hn HP Hd. rewrite apply_rename.
    rewrite get_add_name_other by (rewrite PD_parent; exact Hd).
    rewrite get_del_name_other by exact HP.
    rewrite moved_other by assumption. apply (view_get f0 g q V Hs HP).
  Qed.

  Lemma ren_P : exists ns0 ns, fs_get f0 P = Some (Dir ns0) /\ fs_get g' P = Some (Dir ns) /\
    filter nonstaging ns = filter nonstaging ns0.
  Proof.
    destruct V as [_ (ns0 & ns & H0 & Hg & Hf)]. exists ns0. rewrite apply_rename.
    rewrite get_add_name_other by (rewrite PD_parent; discriminate).
    unfold del_name. change (parent S) with P.
    rewrite moved_other by (try reflexivity; apply under_short; simpl; lia). rewrite Hg.
    eexists. rewrite get_set_same. split; [exact H0|]. split; [reflexivity|]. rewrite filter_nonstaging_del. exact Hf.
  Qed.

  Lemma ren_PD : exists nsd, fs_get f0 (PD i) = Some (Dir nsd) /\ fs_get g' (PD i) = Some (Dir (ver_name i :: nsd)).
  Proof.
    destruct (u_dir _ _ U) as (nsd & Hd & Hn). exists nsd. split; [exact Hd|]. rewrite apply_rename.
    unfold add_name. rewrite PD_parent, N_base.
    assert (E : fs_get (del_name (moved S (N i) g) S) (PD i) = Some (Dir nsd)).
    { rewrite get_del_name_other by discriminate.
      rewrite moved_other; [| apply under_S_plugins; apply (u_nostage _ _ U) | apply under_short; simpl; lia].
      rewrite (view_get f0 g (PD i) V); [exact Hd| apply under_S_plugins; apply (u_nostage _ _ U) | discriminate]. }
    rewrite E. rewrite existsb_notin by exact Hn. apply get_set_same.
  Qed.

  Lemma ren_target : forall r, r <> [] -> fs_get g' (N i ++ r) = fs_get g (S ++ r).
  Proof.
    intros r Hr. rewrite apply_rename.
    rewrite get_add_name_other.
    2:{ rewrite PD_parent. unfold PD, N. intro E. destruct r; [congruence|discriminate E]. }
    rewrite get_del_name_other by discriminate.
    apply moved_target.
    unfold under, S, N. simpl. destruct (bytes_eqb (i_repo i) staging_name) eqn:E; [|reflexivity].
    apply bytes_eqb_eq in E. exfalso. apply (u_nostage _ _ U). exact E.
  Qed.
End AfterRename.

(* ---------------- the listing after the rename: one more version in one plugin entry ---------------- *)
Section ListingRel.
  Variables (repo dir ver : bytes) (Vn : version).
  Hypothesis Hparse : parse_version ver = Some Vn.

  Definition pl_rel (r : bytes) (a b : bytes * list bytes) : Prop :=
    fst a = fst b /\ (snd b = snd a \/ (snd b = ver :: snd a /\ fst a = dir /\ r = repo)).
  Definition repo_rel (a b : bytes * list (bytes * list bytes)) : Prop :=
    fst a = fst b /\ Forall2 (pl_rel (fst a)) (snd a) (snd b).
  Definition md_rel (a b : plugin_md) : Prop :=
    md_name a = md_name b /\ md_repo a = md_repo b /\
    (md_versions b = md_versions a \/
     (md_versions b = insert_desc Vn (md_versions a) /\ md_name a = plugin_name dir /\ md_repo a = repo)).

  Lemma list_plugins_rel : forall r ps ps', Forall2 (pl_rel r) ps ps' ->
    orel (Forall2 md_rel) (list_plugins plugin_name r ps) (list_plugins plugin_name r ps').
  Proof.
    intros r ps ps' H. induction H as [|[d vs] [d' vs'] ps ps' [E1 E2] _ IH]; simpl; [constructor|].
    simpl in E1, E2. subst d'. destruct E2 as [E2|(E2 & Ed & Er)]; subst vs'.
    - destruct (parse_versions vs) as [pv|e|s]; simpl; auto.
      destruct (list_plugins plugin_name r ps), (list_plugins plugin_name r ps'); simpl in *; try contradiction; auto.
      constructor; [|exact IH]. unfold md_rel. simpl. auto.
    - simpl. rewrite Hparse. destruct (parse_versions vs) as [pv|e|s]; simpl; auto.
      destruct (list_plugins plugin_name r ps), (list_plugins plugin_name r ps'); simpl in *; try contradiction; auto.
      constructor; [|exact IH]. unfold md_rel. simpl. subst. split; [reflexivity|]. split; [reflexivity|]. right. repeat split; reflexivity.
  Qed.

  Lemma listed_rel : forall t t', Forall2 repo_rel t t' -> orel (Forall2 md_rel) (listed t) (listed t').
  Proof.
    intros t t' H. unfold listed. induction H as [|[r ps] [r' ps'] t t' [E1 E2] _ IH]; simpl; [constructor|].
    simpl in E1, E2. subst r'. destruct (bytes_eqb staging_name r); [exact IH|].
    pose proof (list_plugins_rel r ps ps' E2) as L.
    destruct (list_plugins plugin_name r ps), (list_plugins plugin_name r ps'); simpl in *; try contradiction; auto.
    destruct (listed_with plugin_name (bytes_eqb staging_name) t), (listed_with plugin_name (bytes_eqb staging_name) t');
      simpl in *; try contradiction; auto.
    apply Forall2_app; assumption.
  Qed.

  Lemma find_insert : forall (p : version -> bool) s,
    find p (insert_desc Vn s) = find p s \/ find p (insert_desc Vn s) = Some Vn.
  Proof.
    induction s as [|y t IH]; simpl.
    - destruct (p Vn); auto.
    - destruct (vgt Vn y); simpl.
      + destruct (p Vn); auto.
      + destruct (p y); auto.
  Qed.

  Lemma resolve_rel : forall l l' n r c, Forall2 md_rel l l' ->
    resolve l' n r c = resolve l n r c \/ (resolve l' n r c = Some Vn /\ n = plugin_name dir /\ r = repo).
  Proof.
    intros l l' n r c H. unfold resolve. induction H as [|a b l l' (E1 & E2 & E3) _ IH]; simpl; [auto|].
    assert (R : ref_is n r b = ref_is n r a) by (unfold ref_is; rewrite E1, E2; reflexivity).
    rewrite R. destruct (ref_is n r a) eqn:M; [|exact IH].
    destruct E3 as [E3|(E3 & En & Er)]; rewrite E3; [auto|].
    destruct (find_insert (check c) (md_versions a)) as [F|F]; [auto|right].
    unfold ref_is in M. apply andb_true_iff in M. destruct M as [M1 M2]. apply bytes_eqb_eq in M1. apply bytes_eqb_eq in M2.
    split; [exact F|]. split; congruence.
  Qed.
End ListingRel.

Lemma Forall2_refl_in : forall {A} (R : A -> A -> Prop) l, (forall x, R x x) -> Forall2 R l l.
Proof. induction l; constructor; auto. Qed.

Lemma orel_refl : forall {A} (R : A -> A -> Prop) (o : outcome A), (forall x, R x x) -> orel R o o.
Proof. intros A R o H. destruct o; simpl; auto. Qed.

Lemma plugin_name_dir_of' : forall n, plugin_name (dir_of n) = n.
Proof. intro n. reflexivity. Qed.

(* the listing after the rename is related to the listing before the installation *)
Lemma listing_after_rename : forall f0 i g, upgrade_ok f0 i -> same_view f0 g ->
  orel (Forall2 (md_rel (i_repo i) (dir_of (i_name i)) (i_version i)))
       (listing f0) (listing (apply_op g (Rename S (N i)))).
Proof.
  intros f0 i g U V.
  destruct (ren_P f0 i g V) as (ns0 & ns & H0 & Hg & Hf).
  destruct (ren_PD f0 i g U V) as (nsd & Hd0 & Hd').
  unfold listing. apply (orel_bind (Forall2 (repo_rel (i_repo i) (dir_of (i_name i)) (ver_name i)))).
  2:{ intros t t' Ht. apply (listed_rel _ _ (ver_name i) (i_version i) (u_parse _ _ U)). exact Ht. }
  unfold tree_of_fs. rewrite H0, Hg. change (fun r => negb (bytes_eqb staging_name r)) with nonstaging. rewrite Hf.
  apply mapM_rel. intros r Hr. apply filter_In in Hr. destruct Hr as [_ Hr].
  unfold nonstaging in Hr. apply negb_true_iff in Hr.
  assert (NS : r <> staging_name) by (intro E; subst; rewrite bytes_eqb_refl in Hr; discriminate).
  unfold read_repo, read_dir.
  rewrite (ren_other f0 i g V [s_plugins; r]);
    [| apply under_S_plugins; exact NS | apply under_short; simpl; lia | discriminate | discriminate].
  destruct (fs_get f0 [s_plugins; r]) as [[ds|c]|]; simpl; auto.
  assert (M : orel (Forall2 (pl_rel (i_repo i) (dir_of (i_name i)) (ver_name i) r))
                   (mapM (read_plugin f0 r) ds) (mapM (read_plugin (apply_op g (Rename S (N i))) r) ds)).
  { apply mapM_rel. intros d _. unfold read_plugin, read_dir.
    destruct (path_eqb [s_plugins; r; d] (PD i)) eqn:E.
    - apply path_eqb_eq in E. rewrite E, Hd0, Hd'. simpl. unfold pl_rel. simpl. split; [reflexivity|right].
      unfold PD in E. inversion E. auto.
    - rewrite (ren_other f0 i g V [s_plugins; r; d]);
        [| apply under_S_plugins; exact NS | apply under_short; simpl; lia | discriminate | apply path_eqb_false; exact E].
      destruct (fs_get f0 [s_plugins; r; d]) as [[vs|c]|]; simpl; auto. unfold pl_rel. simpl. auto. }
  destruct (mapM (read_plugin f0 r) ds), (mapM (read_plugin (apply_op g (Rename S (N i))) r) ds); simpl in *; try contradiction; auto.
  unfold repo_rel. simpl. auto.
Qed.

(* ---------------- the extension-handler file: temporary file, then rename ---------------- *)
Definition off_ext (g f : fs) : Prop :=
  (forall q, under ext_path q = false -> under ext_tmp q = false -> q <> [] -> fs_get f q = fs_get g q) /\
  (is_ok (load_handlers g) = true -> is_ok (load_handlers f) = true).

Lemma plugins_off_ext : forall rest, under ext_path (s_plugins :: rest) = false /\ under ext_tmp (s_plugins :: rest) = false.
Proof. intro rest. split; reflexivity. Qed.

Lemma off_ext_tree : forall g f, off_ext g f -> tree_of_fs f = tree_of_fs g.
Proof.
  intros g f [A _]. unfold tree_of_fs. rewrite (A P) by (try reflexivity; discriminate).
  destruct (fs_get g P) as [[ns|c]|]; try reflexivity.
  apply mapM_ext_in. intros r _. unfold read_repo, read_dir. rewrite (A [s_plugins; r]) by (try reflexivity; discriminate).
  destruct (fs_get g [s_plugins; r]) as [[ds|c]|]; try reflexivity. simpl.
  replace (mapM (read_plugin f r) ds) with (mapM (read_plugin g r) ds); [reflexivity|].
  apply mapM_ext_in. intros d _. unfold read_plugin, read_dir. rewrite (A [s_plugins; r; d]) by (try reflexivity; discriminate). reflexivity.
Qed.

Lemma off_ext_startup : forall g f d, off_ext g f -> is_ok (load_handlers g) = true -> startup_db f d = startup_db g d.
Proof.
  intros g f d O L. unfold startup_db, listing. rewrite (off_ext_tree g f O).
  destruct O as [_ B]. specialize (B L).
  destruct (load_handlers g), (load_handlers f); simpl in *; try discriminate. reflexivity.
Qed.

Lemma ext_tmp_parent : parent ext_tmp = []. Proof. reflexivity. Qed.

Lemma not_under_neq : forall s q, under s q = false -> q <> s.
Proof. intros s q H E. subst. rewrite under_self in H. discriminate. Qed.

Lemma ext_phase : forall g data k t,
  (forall ns, fs_get g ext_tmp <> Some (Dir ns)) -> json_decode data <> None ->
  off_ext g (crash (write_file ext_tmp data ++ [Rename ext_tmp ext_path]) g k t).
Proof.
  intros g data k t Htmp Hdec.
  set (g1 := apply_op g (Create ext_tmp)).
  assert (A1 : forall q, q <> ext_tmp -> q <> [] -> fs_get g1 q = fs_get g q).
  { intros q H1 H2. apply frame; [reflexivity|exact H1|exact H2]. }
  assert (T1 : fs_get g1 ext_tmp = Some (File [])).
  { unfold g1, apply_op. cbv beta iota. destruct (fs_get g ext_tmp) as [[ns|c]|] eqn:E.
    - exfalso. apply (Htmp ns). reflexivity.
    - apply get_set_same.
    - rewrite get_add_name_other by discriminate. apply get_set_same. }
  assert (W : forall d, (forall q, q <> ext_tmp -> q <> [] -> fs_get (apply_op g1 (Write ext_tmp d)) q = fs_get g q)
                        /\ fs_get (apply_op g1 (Write ext_tmp d)) ext_tmp = Some (File d)).
  { intro d. split.
    - intros q H1 H2. rewrite frame_write by exact H1. apply A1; assumption.
    - unfold apply_op. cbv beta iota. rewrite T1. apply get_set_same. }
  assert (OK : forall f, (forall q, q <> ext_tmp -> q <> [] -> fs_get f q = fs_get g q) -> off_ext g f).
  { intros f A. split; [intros q H1 H2 H3; apply A; [apply not_under_neq; exact H2|exact H3]|].
    unfold load_handlers. rewrite (A ext_path) by discriminate. auto. }
  unfold write_file. simpl app.
  destruct k as [|[|[|k]]]; simpl crash.
  - apply OK. auto.
  - fold g1. apply OK. apply (W (firstn t data)).
  - fold g1. apply OK. apply (W data).
  - fold g1. set (g2 := apply_op g1 (Write ext_tmp data)). destruct (W data) as [A2 T2]. fold g2 in A2, T2.
    assert (EK : forall X : fs, match k with 0%nat | _ => X end = X) by (intro; destruct k; reflexivity).
    rewrite apply_rename. rewrite EK. split.
    + intros q H1 H2 H3. rewrite get_add_name_other by exact H3. rewrite get_del_name_other by exact H3.
      rewrite moved_other by assumption. apply A2; [apply not_under_neq; exact H2|exact H3].
    + intros _. unfold load_handlers. rewrite get_add_name_other by discriminate. rewrite get_del_name_other by discriminate.
      rewrite <- (app_nil_r ext_path). rewrite moved_target by reflexivity. rewrite app_nil_r. rewrite T2.
      destruct (json_decode data); [reflexivity|congruence].
Qed.

(* ---------------- Install: every crash point ---------------- *)
Lemma binary_path_shape : forall r n v, binary_path r n v = [s_plugins; r; dir_of n; print_version v; dir_of n].
Proof. reflexivity. Qed.

Lemma startup_after_rename : forall f0 i g d, upgrade_ok f0 i -> same_view f0 g ->
  let g' := apply_op g (Rename S (N i)) in
  load_handlers g' = load_handlers f0 /\
  (startup_db g' d = startup_db f0 d \/
   (startup_db g' d = Ok (Some (i_version i)) /\ is_ok (startup_db f0 d) = true /\
    db_plugin d = i_name i /\ db_repo d = i_repo i)).
Proof.
  intros f0 i g d U V g'.
  assert (LH : load_handlers g' = load_handlers f0).
  { unfold load_handlers, g'. rewrite (ren_other f0 i g V ext_path); try reflexivity; discriminate. }
  split; [exact LH|].
  pose proof (listing_after_rename f0 i g U V) as L. fold g' in L.
  unfold startup_db. rewrite LH.
  destruct (listing f0) as [l|e|s], (listing g') as [l'|e'|s']; simpl in L; try contradiction; subst; auto.
  destruct (load_handlers f0) as [h|e|s]; simpl; auto.
  destruct (resolve_rel _ _ _ l l' (db_plugin d) (db_repo d) (db_cs d) L) as [R|(R & Rn & Rr)].
  - left. rewrite R. reflexivity.
  - right. rewrite R. rewrite plugin_name_dir_of' in Rn. auto.
Qed.

Lemma binaries_after_rename : forall f0 i g d v c, upgrade_ok f0 i -> same_view f0 g -> db_repo d <> staging_name ->
  binary_of f0 d v = Some (File c) -> binary_of (apply_op g (Rename S (N i))) d v = Some (File c).
Proof.
  intros f0 i g d v c U V Hd H. unfold binary_of in *. rewrite binary_path_shape in *.
  destruct (under (N i) [s_plugins; db_repo d; dir_of (db_plugin d); print_version v; dir_of (db_plugin d)]) eqn:E.
  - rewrite (u_fresh _ _ U _ E) in H. discriminate.
  - rewrite (ren_other f0 i g V); [exact H| apply under_S_plugins; exact Hd | exact E | discriminate | discriminate].
Qed.

Theorem install_crash_safe : forall f0 i k t d,
  upgrade_ok f0 i -> db_repo d <> staging_name ->
  let f := crash (install_ops f0 i) f0 k t in
  (startup_db f d = startup_db f0 d \/
   (startup_db f d = Ok (Some (i_version i)) /\ is_ok (startup_db f0 d) = true /\
    db_plugin d = i_name i /\ db_repo d = i_repo i /\ (length (phaseA f0 i) < k)%nat))
  /\ (forall v c, binary_of f0 d v = Some (File c) -> binary_of f d v = Some (File c)).
Proof.
  intros f0 i k t d U Hd f. unfold f. clear f.
  destruct (u_P _ _ U) as [ns0 HP].
  pose proof (phaseA_keeps f0 i U) as KA.
  pose proof (same_view_refl f0 ns0 HP) as V0.
  set (fA := run_ops (phaseA f0 i) f0).
  assert (VA : same_view f0 fA) by (apply run_keeps; assumption).
  assert (O7 : remove_all fA (N i) = []) by (apply remove_all_nil; apply (fresh_after_A f0 i fA U VA)).
  rewrite install_ops_split. fold fA. rewrite O7. simpl app.
  assert (OLD : forall g, same_view f0 g ->
    (startup_db g d = startup_db f0 d \/
     (startup_db g d = Ok (Some (i_version i)) /\ is_ok (startup_db f0 d) = true /\
      db_plugin d = i_name i /\ db_repo d = i_repo i /\ (length (phaseA f0 i) < k)%nat))
    /\ (forall v c, binary_of f0 d v = Some (File c) -> binary_of g d v = Some (File c))).
  { intros g Vg. split; [left; apply view_startup; exact Vg|].
    intros v c H. unfold binary_of in *. rewrite binary_path_shape in *.
    rewrite (view_get f0 g _ Vg); [exact H| apply under_S_plugins; exact Hd | discriminate]. }
  destruct (Nat.lt_ge_cases k (length (phaseA f0 i))) as [Lt|Ge].
  - rewrite crash_app_lt by exact Lt. apply OLD. apply crash_keeps; assumption.
  - rewrite crash_app_ge by exact Ge. fold fA.
    destruct (k - length (phaseA f0 i))%nat as [|k'] eqn:EK; [simpl; apply OLD; exact VA|].
    simpl crash. change (run_ops [Rename S (N i)] fA) with (apply_op fA (Rename S (N i))).
    set (g' := apply_op fA (Rename S (N i))).
    destruct (startup_after_rename f0 i fA d U VA) as [LH ST]. fold g' in LH, ST.
    assert (NEW : forall f, startup_db f d = startup_db g' d ->
              (forall q, under ext_path q = false -> under ext_tmp q = false -> q <> [] -> fs_get f q = fs_get g' q) ->
      (startup_db f d = startup_db f0 d \/
       (startup_db f d = Ok (Some (i_version i)) /\ is_ok (startup_db f0 d) = true /\
        db_plugin d = i_name i /\ db_repo d = i_repo i /\ (length (phaseA f0 i) < k)%nat))
      /\ (forall v c, binary_of f0 d v = Some (File c) -> binary_of f d v = Some (File c))).
    { intros f Hs Hq. split.
      - rewrite Hs. destruct ST as [ST|(S1 & S2 & S3 & S4)]; [left; exact ST|right]. repeat split; auto. lia.
      - intros v c H. unfold binary_of. rewrite binary_path_shape. rewrite Hq by (try reflexivity; discriminate).
        rewrite <- binary_path_shape. apply (binaries_after_rename f0 i fA d v c U VA Hd H). }
    unfold ext_ops. rewrite LH. destruct (load_handlers f0) as [old|e|s] eqn:EL.
    + assert (OE : off_ext g' (crash (write_file ext_tmp (json_encode (merged_handlers old i)) ++ [Rename ext_tmp ext_path]) g' k' t)).
      { apply ext_phase.
        - intros ns. unfold g'. rewrite (ren_other f0 i fA VA ext_tmp); try reflexivity; try discriminate. apply (u_tmp _ _ U).
        - apply (handlers_decode f0 i old (u_name_safe _ _ U) (u_exts_safe _ _ U) EL). }
      apply NEW; [apply off_ext_startup; [exact OE|rewrite LH; reflexivity]|apply OE].
    + replace (crash [] g' k' t) with g' by (destruct k'; reflexivity). apply NEW; auto.
    + replace (crash [] g' k' t) with g' by (destruct k'; reflexivity). apply NEW; auto.
Qed.

(* ---------------- plugin repository add: every crash point ---------------- *)
Lemma repo_tmp_top : forall a, parent (repo_tmp a) = []. Proof. reflexivity. Qed.

Definition off_repo (a : radd) (g f : fs) : Prop :=
  forall q, under (repo_tmp a) q = false -> under [s_repositories] q = false -> q <> [] -> fs_get f q = fs_get g q.

Lemma off_repo_startup : forall a g f d, off_repo a g f ->
  startup_db f d = startup_db g d /\ forall v, binary_of f d v = binary_of g d v.
Proof.
  intros a g f d A.
  assert (PL : forall rest, fs_get f (s_plugins :: rest) = fs_get g (s_plugins :: rest)).
  { intro rest. apply A; [| reflexivity | discriminate].
    unfold under, repo_tmp. simpl. destruct (bytes_eqb (s_repo_tmp_prefix ++ r_slug a ++ s_tmp) s_plugins) eqn:E; [|reflexivity].
    apply bytes_eqb_eq in E. discriminate E. }
  assert (EX : fs_get f ext_path = fs_get g ext_path).
  { apply A; [| reflexivity | discriminate].
    unfold under, repo_tmp, ext_path. simpl. destruct (bytes_eqb (s_repo_tmp_prefix ++ r_slug a ++ s_tmp) s_ext) eqn:E; [|reflexivity].
    apply bytes_eqb_eq in E. discriminate E. }
  split.
  - unfold startup_db, listing, load_handlers. rewrite EX.
    replace (tree_of_fs f) with (tree_of_fs g); [reflexivity|].
    unfold tree_of_fs, P. rewrite PL. destruct (fs_get g [s_plugins]) as [[ns|c]|]; try reflexivity.
    apply mapM_ext_in. intros r _. unfold read_repo, read_dir. rewrite PL.
    destruct (fs_get g [s_plugins; r]) as [[ds|c]|]; try reflexivity. simpl.
    replace (mapM (read_plugin g r) ds) with (mapM (read_plugin f r) ds); [reflexivity|].
    apply mapM_ext_in. intros d' _. unfold read_plugin, read_dir. rewrite PL. reflexivity.
  - intro v. unfold binary_of. rewrite binary_path_shape. apply PL.
Qed.

(* repositories stay readable: every entry is an old one or the complete new one *)
Definition repos_inv (a : radd) (g f : fs) : Prop :=
  repos_ok g = true -> repos_ok f = true.

Theorem add_crash_safe : forall f0 a k t d,
  (forall ns, fs_get f0 (repo_tmp a) <> Some (Dir ns)) ->
  (fs_get f0 [s_repositories] = None \/ exists ns, fs_get f0 [s_repositories] = Some (Dir ns)) ->
  (forall q, under (repo_entry a) q = true -> q <> repo_entry a -> fs_get f0 q = None) ->
  (forall ns, fs_get f0 (repo_entry a) <> Some (Dir ns)) ->
  safe_str (r_url a) = true ->
  let f := crash (add_ops a) f0 k t in
  startup_db f d = startup_db f0 d /\ (forall v, binary_of f d v = binary_of f0 d v) /\
  (repos_ok f0 = true -> repos_ok f = true).
Proof.
  intros f0 a k t d Htmp Hdir Hbelow Hent Hsafe f.
  pose proof (repo_data_decodes a Hsafe) as Hdec.
  (* after MkdirAll(repositories) *)
  set (g0 := apply_op f0 (Mkdir [s_repositories])).
  assert (G0 : forall q, q <> [s_repositories] -> q <> [] -> fs_get g0 q = fs_get f0 q).
  { intros q H1 H2. apply frame; [reflexivity|exact H1|exact H2]. }
  assert (D0 : exists ns, fs_get g0 [s_repositories] = Some (Dir ns) /\
                (fs_get f0 [s_repositories] = Some (Dir ns) \/ (fs_get f0 [s_repositories] = None /\ ns = []))).
  { unfold g0, apply_op. cbv beta iota. destruct Hdir as [Hn|[ns Hn]]; rewrite Hn.
    - exists []. split; [|right; auto]. rewrite get_add_name_other by discriminate. apply get_set_same.
    - exists ns. split; [exact Hn|left; reflexivity]. }
  destruct D0 as (ns & D0 & D0').
  assert (R0 : repos_ok f0 = true -> repos_ok g0 = true).
  { unfold repos_ok. rewrite D0. destruct D0' as [E|[E E']]; rewrite E.
    - intro H. rewrite forallb_forall in *. intros n Hn. rewrite G0 by discriminate. apply H. exact Hn.
    - subst ns. reflexivity. }
  (* the temporary file *)
  set (g1 := apply_op g0 (Create (repo_tmp a))).
  assert (TMP0 : forall ns', fs_get g0 (repo_tmp a) <> Some (Dir ns')).
  { intro ns'. rewrite G0 by discriminate. apply Htmp. }
  assert (A1 : forall q, q <> repo_tmp a -> q <> [] -> fs_get g1 q = fs_get g0 q).
  { intros q H1 H2. apply frame; [reflexivity|exact H1|exact H2]. }
  assert (T1 : fs_get g1 (repo_tmp a) = Some (File [])).
  { unfold g1, apply_op. cbv beta iota. destruct (fs_get g0 (repo_tmp a)) as [[ns'|c]|] eqn:E.
    - exfalso. apply (TMP0 ns'). reflexivity.
    - apply get_set_same.
    - rewrite get_add_name_other by discriminate. apply get_set_same. }
  assert (W : forall dd, (forall q, q <> repo_tmp a -> q <> [] -> fs_get (apply_op g1 (Write (repo_tmp a) dd)) q = fs_get g0 q)
                         /\ fs_get (apply_op g1 (Write (repo_tmp a) dd)) (repo_tmp a) = Some (File dd)).
  { intro dd. split.
    - intros q H1 H2. rewrite frame_write by exact H1. apply A1; assumption.
    - unfold apply_op. cbv beta iota. rewrite T1. apply get_set_same. }
  (* a state that agrees with g0 off the temporary file *)
  assert (SAME0 : forall h, (forall q, q <> repo_tmp a -> q <> [] -> fs_get h q = fs_get g0 q) ->
            startup_db h d = startup_db f0 d /\ (forall v, binary_of h d v = binary_of f0 d v) /\
            (repos_ok f0 = true -> repos_ok h = true)).
  { intros h A.
    assert (O : off_repo a f0 h).
    { intros q H1 H2 H3. rewrite A; [|apply not_under_neq; exact H1|exact H3]. apply G0; [apply not_under_neq; exact H2|exact H3]. }
    destruct (off_repo_startup a f0 h d O) as [S1 S2]. split; [exact S1|]. split; [exact S2|].
    intro H. specialize (R0 H). unfold repos_ok in *. rewrite A by discriminate. rewrite D0 in *.
    rewrite forallb_forall in *. intros n Hn. rewrite A by discriminate. apply R0. exact Hn. }
  unfold f, add_ops, write_file. change (mkdir_all [s_repositories]) with [Mkdir [s_repositories]]. simpl app.
  destruct k as [|[|[|[|k]]]]; simpl crash.
  - (* before the mkdir *)
    assert (O : off_repo a f0 f0) by (intros q _ _ _; reflexivity).
    destruct (off_repo_startup a f0 f0 d O). auto.
  - fold g0. apply SAME0. auto.
  - fold g0. fold g1. apply SAME0. apply (W (firstn t (repo_data a))).
  - fold g0. fold g1. apply SAME0. apply (W (repo_data a)).
  - fold g0. fold g1. set (g2 := apply_op g1 (Write (repo_tmp a) (repo_data a))).
    destruct (W (repo_data a)) as [A2 T2]. fold g2 in A2, T2.
    assert (EK : forall X : fs, match k with 0%nat | _ => X end = X) by (intro; destruct k; reflexivity).
    rewrite apply_rename. rewrite EK.
    set (m := moved (repo_tmp a) (repo_entry a) g2).
    assert (UE : under (repo_entry a) (repo_tmp a ++ []) = false).
    { unfold under, repo_entry, repo_tmp. simpl. destruct (bytes_eqb s_repositories (s_repo_tmp_prefix ++ r_slug a ++ s_tmp)) eqn:E; [|reflexivity].
      apply bytes_eqb_eq in E. discriminate E. }
    assert (M1 : forall q, under (repo_tmp a) q = false -> under (repo_entry a) q = false -> q <> [] -> fs_get m q = fs_get g0 q).
    { intros q H1 H2 H3. unfold m. rewrite moved_other by assumption. apply A2; [apply not_under_neq; exact H1|exact H3]. }
    assert (M2 : fs_get m (repo_entry a) = Some (File (repo_data a))).
    { unfold m. rewrite <- (app_nil_r (repo_entry a)). rewrite moved_target by exact UE. rewrite app_nil_r. exact T2. }
    set (m1 := del_name m (repo_tmp a)).
    assert (N1 : forall q, q <> [] -> fs_get m1 q = fs_get m q).
    { intros q H. unfold m1. apply get_del_name_other. exact H. }
    set (h := add_name m1 (repo_entry a)).
    assert (UR : under (repo_tmp a) [s_repositories] = false /\ under (repo_entry a) [s_repositories] = false).
    { split; [|apply under_short; simpl; lia].
      unfold under, repo_tmp. simpl. destruct (bytes_eqb (s_repo_tmp_prefix ++ r_slug a ++ s_tmp) s_repositories) eqn:E; [|reflexivity].
      apply bytes_eqb_eq in E. discriminate E. }
    assert (DIRm : fs_get m1 [s_repositories] = Some (Dir ns)).
    { rewrite N1 by discriminate. rewrite M1; [exact D0| apply UR | apply UR | discriminate]. }
    assert (Hh : forall q, q <> [s_repositories] -> fs_get h q = fs_get m1 q).
    { intros q H. unfold h. apply get_add_name_other. exact H. }
    assert (O : off_repo a f0 h).
    { intros q H1 H2 H3. rewrite Hh by (apply not_under_neq; exact H2). rewrite N1 by exact H3.
      rewrite M1; [apply G0; [apply not_under_neq; exact H2|exact H3] | exact H1 | | exact H3].
      destruct (under (repo_entry a) q) eqn:E; [|reflexivity].
      unfold under in E. destruct (strip_prefix (repo_entry a) q) eqn:E'; [|discriminate]. apply strip_prefix_app in E'. subst q.
      unfold repo_entry, under in H2. simpl in H2. discriminate H2. }
    destruct (off_repo_startup a f0 h d O) as [S1 S2]. split; [exact S1|]. split; [exact S2|].
    intro H. specialize (R0 H). unfold repos_ok in *. rewrite D0 in R0.
    assert (ENT : forall n, fs_get h [s_repositories; n] = if bytes_eqb (r_slug a) n then Some (File (repo_data a)) else fs_get g0 [s_repositories; n]).
    { intro n. rewrite Hh by discriminate. rewrite N1 by discriminate. destruct (bytes_eqb (r_slug a) n) eqn:E.
      - apply bytes_eqb_eq in E. subst n. exact M2.
      - rewrite M1; [reflexivity| | | discriminate].
        + unfold under, repo_tmp. simpl. destruct (bytes_eqb (s_repo_tmp_prefix ++ r_slug a ++ s_tmp) s_repositories) eqn:E2; [|reflexivity].
          apply bytes_eqb_eq in E2. discriminate E2.
        + unfold under, repo_entry. simpl. rewrite E. reflexivity. }
    assert (OKn : forall n, In n ns \/ n = r_slug a ->
              match fs_get h [s_repositories; n] with
              | Some (File c) => match json_decode c with Some _ => true | None => false end
              | _ => false end = true).
    { intros n Hn. rewrite ENT. destruct (bytes_eqb (r_slug a) n) eqn:E.
      - destruct (json_decode (repo_data a)); [reflexivity|congruence].
      - destruct Hn as [Hn|Hn]; [rewrite forallb_forall in R0; apply R0; exact Hn|].
        subst n. rewrite bytes_eqb_refl in E. discriminate. }
    unfold h at 1. unfold add_name. change (parent (repo_entry a)) with [s_repositories]. change (base (repo_entry a)) with (r_slug a).
    rewrite DIRm. destruct (existsb (bytes_eqb (r_slug a)) ns) eqn:EX.
    + fold h. rewrite DIRm. apply forallb_forall. intros n Hn. apply OKn. left. exact Hn.
    + fold h. rewrite get_set_same. apply forallb_forall. intros n Hn. apply OKn. destruct Hn as [Hn|Hn]; [right; congruence|left; exact Hn].
Qed.

(* ---------------- witnesses ---------------- *)
Module Witness.
  Definition b_core : bytes := [99;111;114;101].
  Definition b_json : bytes := [106;115;111;110].
  Definition v100 := mkV 1 0 0 [] [].
  Definition v200 := mkV 2 0 0 [] [].
  Definition bin1 : bytes := [35;33;49].
  Definition bin2 : bytes := [35;33;50].
  (* core/json 1.0.0 installed *)
  Definition f0 : fs :=
    [ ([s_plugins], Dir [b_core]);
      ([s_plugins; b_core], Dir [dir_of b_json]);
      ([s_plugins; b_core; dir_of b_json], Dir [print_version v100]);
      (version_dir b_core b_json v100, Dir [dir_of b_json]);
      (binary_path b_core b_json v100, File bin1) ].
  Definition inst200 := mkInst b_core b_json v200 [31;139;8] [(dir_of b_json, bin2)] [[106;115]].
  Definition inst100 := mkInst b_core b_json v100 [31;139;8] [(dir_of b_json, bin2)] [[106;115]].
  Definition db := mkDB [100;98] b_json b_core None.      (* a database of type json, any version *)
  Definition f0r : fs := f0 ++ [ ([s_repositories], Dir [[120]]); ([s_repositories; [120]], File (json_encode [(s_url, [104])])) ].
  Definition add := mkRadd [121] [104;116;116;112].
End Witness.
Import Witness.

(* pinned code, (1): killed after MkdirAll of the new version directory: the database resolves to 2.0.0, which has no binary *)
Lemma pinned_install_half_version :
  startup_db f0 db = Ok (Some v100) /\ binary_of f0 db v100 = Some (File bin1) /\
  let f := crash (install_ops_pinned f0 inst200) f0 4 0 in
  startup_db f db = Ok (Some v200) /\ binary_of f db v200 = None.
Proof. vm_compute. repeat split; reflexivity. Qed.

(* pinned code, (2): re-installing the only version, killed after RemoveAll: nothing is installed any more *)
Lemma pinned_reinstall_loses_version :
  startup_db f0 db = Ok (Some v100) /\
  startup_db (crash (install_ops_pinned f0 inst100) f0 2 0) db = Ok None.
Proof. vm_compute. split; reflexivity. Qed.

(* pinned code, (3): killed one byte into file_extension_handlers.json: no invocation starts *)
Lemma pinned_torn_extension_file :
  startup_db f0 db = Ok (Some v100) /\
  startup_db (crash (install_ops_pinned f0 inst200) f0 10 1) db = Err e_ext.
Proof. vm_compute. split; reflexivity. Qed.

(* pinned code, (4): killed three bytes into the repository entry: repositories cannot be listed *)
Lemma pinned_torn_repository_entry :
  repos_ok f0r = true /\ repos_ok (crash (add_ops_pinned add) f0r 2 3) = false.
Proof. vm_compute. split; reflexivity. Qed.

(* the staged Install, re-installing the only version: killed between the removal of the old copy and the rename *)
Lemma reinstall_window_loses_version :
  startup_db f0 db = Ok (Some v100) /\
  reinstall_window f0 inst100 (window_start f0 inst100 + 2) = true /\
  startup_db (crash (install_ops f0 inst100) f0 (window_start f0 inst100 + 2) 0) db = Ok None.
Proof. vm_compute. repeat split; reflexivity. Qed.

(* the hypotheses of install_crash_safe hold for the upgrade 1.0.0 -> 2.0.0 *)
Lemma get_some_key : forall f q n, fs_get f q = Some n -> In q (map fst f).
Proof.
  induction f as [|[r m] t IH]; intros q n H; simpl in *; [discriminate|].
  destruct (path_eqb r q) eqn:E; [left; apply path_eqb_eq; exact E|right; eapply IH; exact H].
Qed.

Lemma upgrade_ok_witness : upgrade_ok f0 inst200.
Proof.
  constructor.
  - eexists. reflexivity.
  - vm_compute. discriminate.
  - eexists. split; [reflexivity|]. vm_compute. intros [H|[]]. discriminate H.
  - intros q H. destruct (fs_get f0 q) eqn:E; [|reflexivity]. exfalso. apply get_some_key in E. simpl in E.
    repeat (destruct E as [E|E]; [subst q; vm_compute in H; discriminate H|]). exact E.
  - vm_compute. discriminate.
  - vm_compute. reflexivity.
  - intros ns. vm_compute. discriminate.
  - reflexivity.
  - reflexivity.
Qed.

Lemma install_witness_result :
  startup_db (crash (install_ops f0 inst200) f0 (length (install_ops f0 inst200)) 0) db = Ok (Some v200) /\
  binary_of (crash (install_ops f0 inst200) f0 (length (install_ops f0 inst200)) 0) db v200 = Some (File bin2).
Proof. vm_compute. split; reflexivity. Qed.

(* ---------------- the new binary is complete once the version directory is in place ---------------- *)
Lemma run_frame : forall ops g q,
  Forall (fun o => is_rename o = false /\ q <> subject o /\ q <> parent (subject o)) ops ->
  fs_get (run_ops ops g) q = fs_get g q.
Proof.
  induction ops as [|o ops IH]; intros g q H; [reflexivity|]. inversion H as [|? ? (R & H1 & H2) H']; subst.
  simpl. rewrite IH by exact H'. apply frame; assumption.
Qed.

Lemma run_app : forall a b g, run_ops (a ++ b) g = run_ops b (run_ops a g).
Proof. intros. unfold run_ops. apply fold_left_app. Qed.

Lemma Sn_parent : forall n, parent (S ++ [n]) = S. Proof. reflexivity. Qed.

Lemma Sn_neq : forall n m, n <> m -> S ++ [n] <> S ++ [m].
Proof. intros n m H E. apply app_inv_head in E. congruence. Qed.

Ltac len_neq := let E := fresh "E" in intro E; apply (f_equal (@length bytes)) in E; simpl in E; discriminate.
Ltac frame_list tac :=
  repeat (apply Forall_cons; [split; [reflexivity|split; [simpl; first [len_neq | tac] | simpl; len_neq]]|]); apply Forall_nil.

Lemma unarchive_members : forall members g,
  NoDup (map fst members) ->
  (forall n, In n (map fst members) -> fs_get g (S ++ [n]) = None) ->
  forall n c, In (n, c) members -> fs_get (run_ops (unarchive_ops S members) g) (S ++ [n]) = Some (File c).
Proof.
  induction members as [|[m cm] t IH]; intros g ND Hfresh n c Hin; [destruct Hin|].
  simpl in ND. inversion ND as [|? ? Hnot ND']; subst.
  change (unarchive_ops S ((m, cm) :: t)) with ([Create (S ++ [m]); Write (S ++ [m]) cm] ++ unarchive_ops S t).
  rewrite run_app.
  set (g1 := run_ops [Create (S ++ [m]); Write (S ++ [m]) cm] g).
  assert (Own : fs_get g1 (S ++ [m]) = Some (File cm)).
  { unfold g1. change (run_ops [Create (S ++ [m]); Write (S ++ [m]) cm] g) with (apply_op (apply_op g (Create (S ++ [m]))) (Write (S ++ [m]) cm)).
    set (gc := apply_op g (Create (S ++ [m]))).
    assert (E : fs_get gc (S ++ [m]) = Some (File [])).
    { unfold gc, apply_op. rewrite (Hfresh m) by (left; reflexivity).
      rewrite get_add_name_other by (rewrite Sn_parent; intro E; apply (f_equal (@length bytes)) in E; simpl in E; discriminate).
      apply get_set_same. }
    unfold apply_op. rewrite E. apply get_set_same. }
  assert (Others : forall x, x <> m -> fs_get g1 (S ++ [x]) = fs_get g (S ++ [x])).
  { intros x Hx. unfold g1. apply run_frame. frame_list ltac:(apply Sn_neq; exact Hx). }
  destruct Hin as [Hin|Hin].
  - inversion Hin; subst n c. rewrite run_frame; [exact Own|].
    unfold unarchive_ops. apply Forall_concat. apply Forall_forall. intros l Hl. apply in_map_iff in Hl. destruct Hl as ([x cx] & E & Hx). subst l. simpl.
    assert (x <> m) by (intro; subst; apply Hnot; apply in_map_iff; exists (m, cx); auto).
    frame_list ltac:(apply Sn_neq; congruence).
  - apply IH; [exact ND'| |exact Hin].
    intros x Hx. assert (x <> m) by (intro; subst; contradiction). rewrite Others by assumption. apply Hfresh. right. exact Hx.
Qed.

Theorem install_new_binary : forall f0 i k t c,
  upgrade_ok f0 i ->
  (forall q, under S q = true -> fs_get f0 q = None) ->
  NoDup (map fst (i_members i)) -> ~ In s_archive (map fst (i_members i)) ->
  In (dir_of (i_name i), c) (i_members i) ->
  (length (phaseA f0 i) < k)%nat ->
  fs_get (crash (install_ops f0 i) f0 k t) (N i ++ [dir_of (i_name i)]) = Some (File c).
Proof.
  intros f0 i k t c U Hclean ND Harch Hin Hk.
  destruct (u_P _ _ U) as [ns0 HP].
  pose proof (phaseA_keeps f0 i U) as KA.
  pose proof (same_view_refl f0 ns0 HP) as V0.
  set (fA := run_ops (phaseA f0 i) f0).
  assert (VA : same_view f0 fA) by (apply run_keeps; assumption).
  assert (O7 : remove_all fA (N i) = []) by (apply remove_all_nil; apply (fresh_after_A f0 i fA U VA)).
  (* the staged binary *)
  assert (ST : fs_get fA (S ++ [dir_of (i_name i)]) = Some (File c)).
  { unfold fA, phaseA. rewrite (remove_all_nil f0 S Hclean). rewrite app_nil_l.
    change (mkdir_all S) with [Mkdir P; Mkdir S].
    rewrite !run_app.
    set (g3 := run_ops [Create (S ++ [s_archive]); Write (S ++ [s_archive]) (i_archive i)] (run_ops [Mkdir P; Mkdir S] f0)).
    assert (NM : forall n, In n (map fst (i_members i)) -> n <> s_archive) by (intros n Hn E; subst; contradiction).
    assert (F3 : forall n, In n (map fst (i_members i)) -> fs_get g3 (S ++ [n]) = None).
    { intros n Hn. unfold g3. rewrite <- run_app. rewrite run_frame; [apply Hclean; apply under_app|].
      frame_list ltac:(apply Sn_neq; apply NM; exact Hn). }
    rewrite run_frame.
    - rewrite run_frame.
      + apply unarchive_members; [exact ND|exact F3|exact Hin].
      + assert (dir_of (i_name i) <> s_archive) by (apply NM; apply in_map_iff; exists (dir_of (i_name i), c); auto).
        frame_list ltac:(apply Sn_neq; assumption).
    - change (mkdir_all (parent (N i))) with [Mkdir P; Mkdir [s_plugins; i_repo i]; Mkdir (PD i)].
      frame_list ltac:(intro E; inversion E; apply (u_nostage _ _ U); congruence). }
  rewrite install_ops_split. fold fA. rewrite O7. simpl app.
  rewrite crash_app_ge by lia. fold fA.
  destruct (k - length (phaseA f0 i))%nat as [|k'] eqn:EK; [lia|].
  simpl crash. change (run_ops [Rename S (N i)] fA) with (apply_op fA (Rename S (N i))).
  set (g' := apply_op fA (Rename S (N i))).
  assert (G : fs_get g' (N i ++ [dir_of (i_name i)]) = Some (File c)).
  { unfold g'. rewrite (ren_target f0 i fA U) by discriminate. exact ST. }
  destruct (startup_after_rename f0 i fA (mkDB [] [] [] None) U VA) as [LH _]. fold g' in LH.
  unfold ext_ops. rewrite LH. destruct (load_handlers f0) as [old|e|s] eqn:EL.
  - assert (OE : off_ext g' (crash (write_file ext_tmp (json_encode (merged_handlers old i)) ++ [Rename ext_tmp ext_path]) g' k' t)).
    { apply ext_phase.
      - intros ns. unfold g'. rewrite (ren_other f0 i fA VA ext_tmp); try reflexivity; try discriminate. apply (u_tmp _ _ U).
      - apply (handlers_decode f0 i old (u_name_safe _ _ U) (u_exts_safe _ _ U) EL). }
    destruct OE as [A _]. rewrite A; [exact G|reflexivity|reflexivity|discriminate].
  - replace (crash [] g' k' t) with g' by (destruct k'; reflexivity). exact G.
  - replace (crash [] g' k' t) with g' by (destruct k'; reflexivity). exact G.
Qed.
