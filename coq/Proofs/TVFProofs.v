(* Proofs/TVFProofs.v — max_diff_watermark, tumble, range, poll (Model/TVF.v). *)
From Octo Require Import TVF ChangelogLemmas.
From Coq Require Import Sorted.
Local Arguments zero_ns : simpl never.
Local Arguments two62 : simpl never.
Local Arguments two63 : simpl never.
Local Arguments max_wm : simpl never.

Lemma wrap64_id z : - two63 <= z < two63 -> wrap64 z = z.
Proof.
  intro H. unfold wrap64. rewrite Z.mod_small; [lia|]. unfold two63, two64 in *. lia.
Qed.

Lemma two62_63 : two62 + two62 = two63 /\ 0 < two62. Proof. split; reflexivity. Qed.

Lemma in_range62_spec z : in_range62 z = true <-> - two62 < z < two62.
Proof. unfold in_range62. rewrite andb_true_iff, !Z.ltb_lt. tauto. Qed.

(* ---------------------------------------------------------------- rounding *)
Lemma floor_to_bounds res t : 0 < res -> floor_to res t <= t < floor_to res t + res.
Proof.
  intro H. unfold floor_to. pose proof (Z.div_mod t res ltac:(lia)). pose proof (Z.mod_pos_bound t res H). lia.
Qed.

Lemma floor_to_mono res a b : 0 < res -> a <= b -> floor_to res a <= floor_to res b.
Proof.
  intros H L. unfold floor_to. apply Z.mul_le_mono_nonneg_l; [lia|]. apply Z.div_le_mono; lia.
Qed.

Lemma floor_to_multiple res t : 0 < res -> (floor_to res t) mod res = 0.
Proof. intro H. unfold floor_to. rewrite Z.mul_comm. apply Z.mod_mul. lia. Qed.

Lemma round_fixed_floor res t :
  0 < res < two62 -> - two62 < t < two62 -> round_fixed res t = floor_to res t.
Proof.
  intros Hr Ht. destruct two62_63 as [E P62].
  unfold round_fixed, unixnano. rewrite (wrap64_id t) by lia.
  assert (Hm : (if Z.rem t res <? 0 then Z.rem t res + res else Z.rem t res) = t mod res).
  { pose proof (Z.quot_rem' t res) as Q.
    pose proof (Z.rem_bound_abs t res ltac:(lia)) as B.
    destruct (Z.ltb_spec (Z.rem t res) 0) as [Hn|Hp].
    - apply (Z.mod_unique_pos t res (Z.quot t res - 1)); lia.
    - apply (Z.mod_unique_pos t res (Z.quot t res)); lia. }
  rewrite Hm. unfold floor_to.
  pose proof (Z.div_mod t res ltac:(lia)) as D. pose proof (Z.mod_pos_bound t res ltac:(lia)).
  rewrite wrap64_id; lia.
Qed.

(* the pinned rounding is the property's rounding exactly on instants at or after the epoch, or on a boundary *)
Lemma round_pinned_floor_nonneg res t :
  0 < res < two62 -> 0 <= t < two62 -> round_pinned res t = floor_to res t.
Proof.
  intros Hr Ht. destruct two62_63 as [E P62]. unfold round_pinned, unixnano. rewrite (wrap64_id t) by lia.
  rewrite Z.quot_div_nonneg by lia.
  pose proof (Z.div_mod t res ltac:(lia)) as D. pose proof (Z.mod_pos_bound t res ltac:(lia)).
  assert (0 <= t / res) by (apply Z.div_pos; lia).
  assert (t / res <= t) by (apply Z.div_le_upper_bound; nia).
  rewrite (wrap64_id (t / res)) by lia. unfold floor_to.
  rewrite wrap64_id; lia.
Qed.

(* ---------------------------------------------------------------- spec-side lemmas *)
Lemma increases_gt last l : Forall (fun x => last < x) (increases last l).
Proof.
  revert last. induction l as [|x r IH]; intro last; simpl; [constructor|].
  destruct (Z.ltb_spec last x).
  - constructor; [assumption|]. eapply Forall_impl; [|apply IH]. simpl. intros; lia.
  - apply IH.
Qed.

Lemma increases_sorted last l : StronglySorted Z.lt (increases last l).
Proof.
  revert last. induction l as [|x r IH]; intro last; simpl; [constructor|].
  destruct (last <? x); [|apply IH]. constructor; [apply IH | apply increases_gt].
Qed.

Lemma strict_subseq_sorted l : StronglySorted Z.lt (strict_subseq l).
Proof. destruct l as [|x r]; simpl; [constructor|]. constructor; [apply increases_sorted | apply increases_gt]. Qed.

(* ---------------------------------------------------------------- the generator *)
Definition g_of (md res m : Z) : Z := floor_to res m - md.
Definition st_of (md res : Z) (mx : option Z) : mdw_state :=
  match mx with None => mdw_init | Some m => (floor_to res m, floor_to res m - md) end.
Definition wm_from (md res : Z) (mx : option Z) (ts : list Z) : list Z :=
  match mx with
  | None => strict_subseq (map (g_of md res) (running_max ts))
  | Some m => increases (g_of md res m) (map (g_of md res) (run_max m ts))
  end.
Definition mx_next (mx : option Z) (t : Z) : Z := match mx with None => t | Some m => Z.max m t end.

Lemma time_at_has idx r : has_time idx r = true -> exists loc, time_at idx r = Ok (time_of idx r, loc).
Proof.
  unfold has_time, time_of, time_at. destruct (nth_error (vals r) idx) as [[]|]; try discriminate.
  intros _. eexists. reflexivity.
Qed.


Definition keep_of (md res : Z) (mx : option Z) (t : Z) : bool :=
  match mx with None => true | Some m => g_of md res m <? t end.
Definition emit_of (md res : Z) (mx : option Z) (t : Z) : bool :=
  match mx with None => true | Some m => g_of md res m <? g_of md res (Z.max m t) end.

Lemma mdw_step_char md res idx mx r :
  0 < res < two62 -> - two62 < md < two62 ->
  has_time idx r = true -> - two62 < time_of idx r < two62 ->
  (forall m, mx = Some m -> - two62 < m < two62) ->
  let t := time_of idx r in
  mdw_step (fun t => Ok (round_fixed res t)) md idx (st_of md res mx) (Rec r) =
  Ok (st_of md res (Some (mx_next mx t)),
      (if keep_of md res mx t then [Rec (set_et r t)] else []) ++
      (if emit_of md res mx t then [WM (g_of md res (mx_next mx t))] else [])).
Proof.
  intros Hres Hmd Hht Hrng Hmx t. destruct two62_63 as [E62 P62].
  assert (Hwmd : wrap64 (- md) = - md) by (apply wrap64_id; lia).
  destruct (time_at_has idx r Hht) as [loc Hta]. fold t in Hta, Hrng.
  pose proof (floor_to_bounds res t ltac:(lia)) as Fb.
  unfold mdw_step. rewrite Hta. cbn [obind fst snd].
  rewrite (round_fixed_floor res t) by lia. cbn [obind]. rewrite Hwmd.
  replace (floor_to res t + - md) with (floor_to res t - md) by lia.
  destruct mx as [m|]; cbn [st_of mdw_init fst snd mx_next keep_of emit_of].
  - specialize (Hmx m eq_refl). unfold g_of.
    destruct (Z.ltb_spec (floor_to res m) (floor_to res t)) as [Hlt|Hge].
    + assert (Hmt : m < t).
      { destruct (Z.lt_ge_cases m t); [assumption|]. pose proof (floor_to_mono res t m ltac:(lia) ltac:(lia)). lia. }
      assert (Hmax : Z.max m t = t) by lia. rewrite Hmax.
      destruct (Z.ltb_spec (floor_to res m - md) (floor_to res t - md)); [|lia]. reflexivity.
    + assert (Hfl : floor_to res (Z.max m t) = floor_to res m).
      { destruct (Z.max_spec m t) as [[Hl Hx]|[Hl Hx]]; rewrite Hx; [|reflexivity].
        pose proof (floor_to_mono res m t ltac:(lia) ltac:(lia)). lia. }
      rewrite Hfl. destruct (Z.ltb_spec (floor_to res m - md) (floor_to res m - md)); [lia|].
      rewrite app_nil_r. reflexivity.
  - assert (Hz : zero_ns < - two63) by (unfold zero_ns, two63; lia).
    destruct (Z.ltb_spec zero_ns (floor_to res t)) as [_|Hbad]; [|lia].
    destruct (Z.ltb_spec zero_ns t) as [_|Hbad]; [|lia]. reflexivity.
Qed.


Lemma wm_from_cons md res mx t ts :
  0 < res ->
  wm_from md res mx (t :: ts) =
  (if emit_of md res mx t then [g_of md res (mx_next mx t)] else []) ++ wm_from md res (Some (mx_next mx t)) ts.
Proof.
  intro Hres.
  destruct mx as [m|]; cbn [wm_from emit_of mx_next run_max running_max map increases strict_subseq].
  - destruct (Z.ltb_spec (g_of md res m) (g_of md res (Z.max m t))) as [E|E]; [reflexivity|].
    assert (g_of md res m = g_of md res (Z.max m t)) as ->; [|reflexivity].
    unfold g_of in *. pose proof (floor_to_mono res m (Z.max m t) Hres ltac:(lia)). lia.
  - reflexivity.
Qed.

Lemma mdw_loop_char md res idx :
  0 < res < two62 -> - two62 < md < two62 ->
  forall inp mx,
    mdw_input_ok idx inp = true ->
    (forall m, mx = Some m -> - two62 < m < two62) ->
    exists out,
      mdw_loop (fun t => Ok (round_fixed res t)) md idx (st_of md res mx) inp = Ok out /\
      records out = mdw_rec_spec md res idx mx (records inp) /\
      watermarks out = wm_from md res mx (map (time_of idx) (records inp)).
Proof.
  intros Hres Hmd.
  induction inp as [|e rest IH]; intros mx Hok Hmx.
  - exists []. destruct mx; repeat split; reflexivity.
  - destruct e as [r|w].
    + unfold mdw_input_ok in Hok. cbn [records flat_map app forallb] in Hok.
      apply andb_true_iff in Hok. destruct Hok as [Hr Hrest].
      apply andb_true_iff in Hr. destruct Hr as [Hht Hrng]. apply in_range62_spec in Hrng.
      set (t := time_of idx r) in *.
      assert (Hnext : forall m, Some (mx_next mx t) = Some m -> - two62 < m < two62).
      { intros m Hm. inversion Hm; subst m. destruct mx as [m0|]; cbn [mx_next]; [|lia]. specialize (Hmx m0 eq_refl). lia. }
      destruct (IH (Some (mx_next mx t)) Hrest Hnext) as [out2 [Hrun [Hrec Hwm]]].
      cbn [mdw_loop]. rewrite (mdw_step_char md res idx mx r Hres Hmd Hht Hrng Hmx). fold t.
      cbn [obind fst snd]. rewrite Hrun. cbn [obind].
      eexists. split; [reflexivity|]. split.
      * rewrite !records_app, Hrec. cbn [records flat_map app mdw_rec_spec]. fold t.
        assert (Hk : (match mx with Some m => floor_to res m - md <? t | None => true end) = keep_of md res mx t)
          by (destruct mx; reflexivity).
        rewrite Hk.
        assert (Hn : match mx with Some m => Z.max m t | None => t end = mx_next mx t) by (destruct mx; reflexivity).
        rewrite Hn.
        destruct (keep_of md res mx t), (emit_of md res mx t); reflexivity.
      * rewrite !watermarks_app, Hwm. cbn [records flat_map app map]. fold t.
        rewrite (wm_from_cons md res mx t) by lia.
        destruct (keep_of md res mx t), (emit_of md res mx t); reflexivity.
    + destruct (IH mx Hok Hmx) as [out2 [Hrun [Hrec Hwm]]].
      cbn [mdw_loop mdw_step obind fst snd]. rewrite Hrun. cbn [obind app].
      exists out2. repeat split; assumption.
Qed.

Definition mdw_guard (md res : Z) (idx : nat) (inp : list event) : Prop :=
  0 < res < two62 /\ - two62 < md < two62 /\ mdw_input_ok idx inp = true.

Lemma mdw_run_char md res idx inp :
  mdw_guard md res idx inp ->
  exists out, mdw_run md res idx inp = Ok out /\
    watermarks out = mdw_wm_spec md res (map (time_of idx) (records inp)) /\
    records out = mdw_rec_spec md res idx None (records inp).
Proof.
  intros [Hres [Hmd Hok]].
  destruct (mdw_loop_char md res idx Hres Hmd inp None Hok ltac:(discriminate)) as [out [H1 [H2 H3]]].
  exists out. unfold mdw_run. destruct (Z.leb_spec res 0); [lia|]. auto.
Qed.

Lemma mdw_watermarks_increasing md res idx inp out :
  mdw_guard md res idx inp -> mdw_run md res idx inp = Ok out -> StronglySorted Z.lt (watermarks out).
Proof.
  intros G H. destruct (mdw_run_char md res idx inp G) as [o [H1 [H2 _]]].
  rewrite H in H1. inversion H1; subst o. rewrite H2. apply strict_subseq_sorted.
Qed.

(* ---- no panic: every record has the time field's index ---- *)
Definition has_field (idx : nat) (r : rec) : bool := (idx <? length (vals r))%nat.

Lemma time_at_field idx r : has_field idx r = true -> exists tl, time_at idx r = Ok tl.
Proof.
  unfold has_field, time_at. intro H. apply Nat.ltb_lt in H.
  destruct (nth_error (vals r) idx) as [v|] eqn:E.
  - destruct v; eexists; reflexivity.
  - apply nth_error_None in E. lia.
Qed.

Lemma mdw_loop_no_panic res md idx inp : forall st,
  forallb (has_field idx) (records inp) = true ->
  is_panic (mdw_loop (fun t => Ok (round_fixed res t)) md idx st inp) = false.
Proof.
  induction inp as [|e rest IH]; intros st H; [reflexivity|].
  destruct e as [r|w].
  - cbn [records flat_map app forallb] in H. apply andb_true_iff in H. destruct H as [Hf Hr].
    destruct (time_at_field idx r Hf) as [tl Htl].
    cbn [mdw_loop mdw_step]. rewrite Htl. cbn [obind].
    destruct (fst st <? round_fixed res (fst tl)); cbn [obind fst snd].
    + specialize (IH (round_fixed res (fst tl), round_fixed res (fst tl) + wrap64 (- md)) Hr).
      destruct (mdw_loop _ md idx _ rest); try reflexivity; discriminate.
    + specialize (IH st Hr). destruct (mdw_loop _ md idx st rest); try reflexivity; discriminate.
  - cbn [mdw_loop mdw_step obind fst snd]. specialize (IH st H).
    destruct (mdw_loop _ md idx st rest); try reflexivity; discriminate.
Qed.

Lemma mdw_run_no_panic md res idx inp :
  forallb (has_field idx) (records inp) = true -> is_panic (mdw_run md res idx inp) = false.
Proof.
  intro H. unfold mdw_run. destruct (res <=? 0); [reflexivity|]. apply mdw_loop_no_panic. exact H.
Qed.

Lemma mdw_run_rejects_bad_resolution md res idx inp : res <= 0 -> mdw_run md res idx inp = Err err_bad_argument.
Proof. intro H. unfold mdw_run. destruct (Z.leb_spec res 0); [reflexivity|lia]. Qed.

(* ---- the pinned code ---- *)
Definition pre_epoch_rec : rec := mkrec [VTime (-1500000000) 0] false zero_ns.
Lemma mdw_pinned_rounds_toward_zero :
  exists md res idx inp out,
    mdw_guard md res idx inp /\ mdw_run_pinned md res idx inp = Ok out /\
    watermarks out <> mdw_wm_spec md res (map (time_of idx) (records inp)).
Proof.
  exists 0, 1000000000, O, [Rec pre_epoch_rec], [Rec (set_et pre_epoch_rec (-1500000000)); WM (-1000000000)].
  split; [|split].
  - unfold mdw_guard. vm_compute. repeat split; reflexivity || discriminate.
  - vm_compute. reflexivity.
  - vm_compute. discriminate.
Qed.
Lemma mdw_pinned_divides_by_zero :
  exists md idx inp, forallb (has_field idx) (records inp) = true /\ mdw_run_pinned md 0 idx inp = Panic panic_divzero.
Proof. exists 0, O, [Rec pre_epoch_rec]. split; vm_compute; reflexivity. Qed.

(* ---------------------------------------------------------------- tumble *)
(* what the property says about one input event and the event emitted for it *)
Inductive tumble_rel (len off : Z) (idx : nat) : event -> event -> Prop :=
| TR_wm w : tumble_rel len off idx (WM w) (WM w)
| TR_rec r r' t loc s :
    time_at idx r = Ok (t, loc) ->
    vals r' = vals r ++ [VTime s loc; VTime (s + len) loc] ->      (* window_start, window_end appended *)
    s <= t < s + len ->
    (s - off - zero_ns) mod len = 0 ->                               (* Go counts multiples from the zero Time *)
    retr r' = retr r -> et r' = et r ->
    tumble_rel len off idx (Rec r) (Rec r').

Lemma tumble_rec_char len off idx r r' :
  0 < len -> - two63 < off < two63 ->
  tumble_rec len off idx r = Ok r' -> tumble_rel len off idx (Rec r) (Rec r').
Proof.
  intros Hlen Hoff H. unfold tumble_rec in H.
  assert (Hw : wrap64 (-1 * off) = - off) by (rewrite wrap64_id; lia). rewrite Hw in H.
  destruct (time_at idx r) as [[t loc]| |] eqn:Ht; try discriminate.
  cbn [obind fst snd] in H. inversion H; subst r'; clear H.
  unfold go_truncate. destruct (Z.leb_spec len 0); [lia|].
  set (x := t + - off - zero_ns).
  pose proof (Z.mod_pos_bound x len Hlen) as B.
  eapply TR_rec with (t := t) (loc := loc) (s := t + - off - x mod len + off); try reflexivity; try assumption.
  - replace (t + - off - zero_ns) with x by reflexivity. lia.
  - replace (t + - off - x mod len + off - off - zero_ns) with (x - x mod len) by (unfold x; lia).
    pose proof (Z.div_mod x len ltac:(lia)) as D.
    replace (x - x mod len) with ((x / len) * len) by lia. apply Z.mod_mul. lia.
Qed.

Lemma tumble_loop_char len off idx :
  0 < len -> - two63 < off < two63 ->
  forall inp out, tumble_loop len off idx inp = Ok out -> Forall2 (tumble_rel len off idx) inp out.
Proof.
  intros Hlen Hoff. induction inp as [|e rest IH]; intros out H.
  - inversion H. constructor.
  - destruct e as [r|w]; cbn [tumble_loop] in H.
    + destruct (tumble_rec len off idx r) as [r'| |] eqn:Hr; try discriminate. cbn [obind] in H.
      destruct (tumble_loop len off idx rest) as [o| |]; try discriminate. cbn [obind] in H.
      inversion H; subst out. constructor; [apply tumble_rec_char; assumption | apply IH; reflexivity].
    + destruct (tumble_loop len off idx rest) as [o| |]; try discriminate. cbn [obind] in H.
      inversion H; subst out. constructor; [constructor | apply IH; reflexivity].
Qed.

Lemma tumble_run_char len off idx inp out :
  - two63 < off < two63 -> tumble_run len off idx inp = Ok out ->
  0 < len /\ Forall2 (tumble_rel len off idx) inp out.
Proof.
  intros Hoff H. unfold tumble_run in H. destruct (Z.leb_spec len 0); [discriminate|].
  split; [lia|]. apply tumble_loop_char; assumption || lia.
Qed.

Lemma tumble_run_total len off idx inp :
  0 < len -> forallb (has_field idx) (records inp) = true -> exists out, tumble_run len off idx inp = Ok out.
Proof.
  intros Hlen. unfold tumble_run. destruct (Z.leb_spec len 0); [lia|]. clear.
  induction inp as [|e rest IH]; intro H; [eexists; reflexivity|].
  destruct e as [r|w]; cbn [tumble_loop].
  - cbn [records flat_map app forallb] in H. apply andb_true_iff in H. destruct H as [Hf Hr].
    destruct (time_at_field idx r Hf) as [tl Htl]. unfold tumble_rec. rewrite Htl. cbn [obind].
    destruct (IH Hr) as [o Ho]. rewrite Ho. cbn [obind]. eexists; reflexivity.
  - destruct (IH H) as [o Ho]. rewrite Ho. cbn [obind]. eexists; reflexivity.
Qed.

Lemma tumble_run_rejects_bad_length len off idx inp : len <= 0 -> tumble_run len off idx inp = Err err_bad_argument.
Proof. intro H. unfold tumble_run. destruct (Z.leb_spec len 0); [reflexivity|lia]. Qed.

(* when the window length divides the distance between the zero Time and the Unix epoch (every length that
   divides a day does), the multiple is also a multiple counted from the epoch *)
Lemma tumble_epoch_aligned len off s :
  0 < len -> (len | zero_ns) -> (s - off - zero_ns) mod len = 0 -> (s - off) mod len = 0.
Proof.
  intros Hlen [k Hk] H. apply Z.mod_divide in H; [|lia]. destruct H as [q Hq].
  apply Z.mod_divide; [lia|]. exists (q + k). lia.
Qed.

(* the window is determined by the clauses *)
Lemma tumble_window_unique len off t s1 s2 :
  0 < len -> s1 <= t < s1 + len -> s2 <= t < s2 + len ->
  (s1 - off - zero_ns) mod len = 0 -> (s2 - off - zero_ns) mod len = 0 -> s1 = s2.
Proof.
  intros Hlen B1 B2 M1 M2.
  apply Z.mod_divide in M1; [|lia]. apply Z.mod_divide in M2; [|lia].
  destruct M1 as [q1 Q1], M2 as [q2 Q2].
  assert (q1 = q2) by nia. subst. lia.
Qed.

Lemma tumble_pinned_accepts_empty_window :
  exists len off idx inp r',
    len <= 0 /\ tumble_run_pinned len off idx inp = Ok [Rec r'] /\
    vals r' = [VTime 5 0; VTime 5 0; VTime 5 0] (* time = window_start = window_end: time < window_end fails *).
Proof. exists 0, 0, O, [Rec (mkrec [VTime 5 0] false zero_ns)]. eexists. split; [lia|]. split; vm_compute; reflexivity. Qed.

(* ---------------------------------------------------------------- range *)
Lemma range_loop_char : forall fuel a b,
  - two63 <= a -> b < two63 -> (Z.to_nat (b - a) < fuel)%nat ->
  range_loop fuel a b = Ok (map range_rec (zseq a (Z.to_nat (b - a)))).
Proof.
  induction fuel as [|f IH]; intros a b Ha Hb Hf; [lia|].
  cbn [range_loop]. destruct (Z.ltb_spec a b) as [L|L].
  - rewrite (wrap64_id (a + 1)) by lia.
    rewrite (IH (a + 1) b) by lia. cbn [obind].
    replace (Z.to_nat (b - a)) with (S (Z.to_nat (b - (a + 1)))) by lia. reflexivity.
  - replace (Z.to_nat (b - a)) with O by lia. reflexivity.
Qed.

Lemma range_run_char a b :
  - two63 <= a < two63 -> - two63 <= b < two63 ->
  range_run a b = Ok (map range_rec (zseq a (Z.to_nat (b - a)))).
Proof. intros Ha Hb. unfold range_run. apply range_loop_char; lia. Qed.

Lemma zseq_in a n i : In i (zseq a n) <-> a <= i < a + Z.of_nat n.
Proof.
  revert a. induction n as [|n IH]; intro a; cbn [zseq In].
  - lia.
  - rewrite IH. lia.
Qed.

Lemma zseq_sorted a n : StronglySorted Z.lt (zseq a n).
Proof.
  revert a. induction n as [|n IH]; intro a; cbn [zseq]; constructor; [apply IH|].
  apply Forall_forall. intros x Hx. apply zseq_in in Hx. lia.
Qed.

Lemma int_values_range l : int_values (map range_rec l) = Some l.
Proof.
  induction l as [|x xs IH]; [reflexivity|].
  cbn [map int_values fold_right range_rec]. fold (int_values (map range_rec xs)). rewrite IH.
  rewrite Z.eqb_refl. reflexivity.
Qed.

(* ---------------------------------------------------------------- poll *)
Lemma poll_src_rows now_k loc s :
  no_wms s = true ->
  map fst (map (poll_src_event loc now_k) s) = map (fun row => Rec (mkrec (stamp now_k loc row) false now_k)) (src_rows s) /\
  flat_map snd (map (poll_src_event loc now_k) s) = map (stamp now_k loc) (src_rows s).
Proof.
  unfold no_wms, src_rows. induction s as [|e rest IH]; intro H; [split; reflexivity|].
  destruct e as [r|w].
  - cbn [watermarks flat_map app] in H. fold (watermarks rest) in H. destruct (IH H) as [I1 I2].
    cbn [map records flat_map app poll_src_event fst snd]. fold (records rest).
    rewrite I1, I2. split; reflexivity.
  - cbn [watermarks flat_map app] in H. discriminate.
Qed.

Lemma poll_rounds_char (now : nat -> Z) (loc : Z) :
  (forall k, now k <> zero_ns) ->
  forall srcs k last_now last_vals prev,
    forallb no_wms srcs = true ->
    match k with
    | O => last_now = zero_ns /\ last_vals = []
    | S k' => last_now = now k' /\ last_vals = map (stamp (now k') loc) prev
    end ->
    poll_rounds now loc (fun _ n => n) k last_now last_vals srcs = poll_spec_from now loc k prev (map src_rows srcs).
Proof.
  intros Hclock. induction srcs as [|s rest IH]; intros k last_now last_vals prev Hs Hk.
  - cbn [poll_rounds map poll_spec_from]. destruct k as [|k'].
    + destruct Hk as [-> ->]. rewrite Z.eqb_refl. reflexivity.
    + destruct Hk as [-> ->]. destruct (Z.eqb_spec (now k') zero_ns) as [E|_]; [exfalso; exact (Hclock k' E)|].
      rewrite map_map. reflexivity.
  - cbn [forallb] in Hs. apply andb_true_iff in Hs. destruct Hs as [Hs Hrest].
    destruct (poll_src_rows (now k) loc s Hs) as [P1 P2].
    cbn [poll_rounds map poll_spec_from]. rewrite P1, P2.
    rewrite (IH (S k) (now k) (map (stamp (now k) loc) (src_rows s)) (src_rows s) Hrest (conj eq_refl eq_refl)).
    unfold poll_round_spec. destruct k as [|k'].
    + destruct Hk as [-> ->]. rewrite Z.eqb_refl. cbn [app]. rewrite <- app_assoc. reflexivity.
    + destruct Hk as [-> ->]. destruct (Z.eqb_spec (now k') zero_ns) as [E|_]; [exfalso; exact (Hclock k' E)|].
      rewrite map_map. rewrite <- !app_assoc. reflexivity.
Qed.

Lemma poll_run_char now loc srcs :
  (forall k, now k <> zero_ns) -> forallb no_wms srcs = true ->
  poll_run now loc srcs = poll_spec_from now loc 0 [] (map src_rows srcs).
Proof. intros Hc Hs. unfold poll_run. apply poll_rounds_char; auto. Qed.

(* the pinned code stamps the retractions with the previous round's instant, which the watermark of that
   round has already covered *)
Lemma poll_pinned_retracts_late :
  exists now srcs w r pre post,
    (forall k, now k < now (S k)) /\
    poll_run_pinned now 0 srcs = pre ++ WM w :: Rec r :: post /\ retr r = true /\ et r <= w /\ et r <> zero_ns.
Proof.
  exists (fun k => 100 + Z.of_nat k), [[Rec (mkrec [VInt 7] false zero_ns)]; []], 100,
         (mkrec [VTime 100 0; VInt 7] true 100), [Rec (mkrec [VTime 100 0; VInt 7] false 100)], [WM 101].
  split; [intro k; lia|]. split; [vm_compute; reflexivity|]. split; [reflexivity|]. split; [cbn; lia|]. cbn. unfold zero_ns. lia.
Qed.
