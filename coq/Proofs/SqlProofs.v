(* Proofs/SqlProofs.v — C30: the reference parser reads back what the template-driven printer prints.
   Part 1: shape lemmas (what the generated templates print, node by node); they are the place where a change
   of a Format method reaches the proof.  Part 2: loops, lists, dispatch.  Part 3: parser_image and the round trip. *)
From Octo Require Import Sql.
From Coq Require Import Lia.
Open Scope Z_scope. Open Scope list_scope.

Notation pe := (print_expr templates_current).
Notation ps := (print_select templates_current).
Notation psel := (print_sel templates_current).
Notation pt := (print_table templates_current).
Notation parg := (print_tvf_arg templates_current).
Notation ptr := (print_trigger templates_current).
Notation pord := (print_order templates_current).
Notation pcte := (print_cte templates_current).
Notation commas := (join_with [TK P_comma]).

Lemma guards_hold : guards_ok = true. Proof. reflexivity. Qed.
Lemma prec_holds : prec_ok = true. Proof. reflexivity. Qed.

(* ---------------------------------------------------------------- Part 1: shapes *)
Ltac sh := intros; cbn; rewrite ?app_nil_r, <- ?app_assoc; reflexivity.

Lemma sh_and l r : pe (EAnd l r) = pe l ++ TK K_and :: pe r. Proof. sh. Qed.
Lemma sh_or l r : pe (EOr l r) = pe l ++ TK K_or :: pe r. Proof. sh. Qed.
Lemma sh_not x : pe (ENot x) = TK K_not :: pe x. Proof. sh. Qed.
Lemma sh_cmp op l r : pe (ECmp op l r) = pe l ++ cmp_str op ++ pe r. Proof. sh. Qed.
Lemma sh_is op x : pe (EIs op x) = pe x ++ is_str op. Proof. sh. Qed.
Lemma sh_bin op l r : pe (EBin op l r) = pe l ++ bin_str op ++ pe r. Proof. sh. Qed.
Lemma sh_neg x : starts_minus x && negb (is_neg x) = false -> pe (ENeg x) = TK P_minus :: pe x.
Proof. intros H. cbn. rewrite H. reflexivity. Qed.
Lemma sh_interval x u : pe (EInterval x u) = TK K_interval :: pe x ++ [TId u]. Proof. sh. Qed.
Lemma sh_convert x t : pe (EConvert x t) = TK K_convert :: TK P_lparen :: pe x ++ TK P_comma :: print_ctype t ++ [TK P_rparen]. Proof. sh. Qed.
Lemma sh_field x f : pe (EField x f) = pe x ++ [TK P_arrow; TId f]. Proof. sh. Qed.
Lemma sh_paren x : pe (EParen x) = TK P_lparen :: pe x ++ [TK P_rparen]. Proof. sh. Qed.
Lemma sh_funcstar n : pe (EFuncStar n) = [TId n; TK P_lparen; TK P_star; TK P_rparen]. Proof. sh. Qed.
Lemma sh_col0 n : pe (ECol [] n) = [TId n]. Proof. sh. Qed.
Lemma sh_col1 z t n : pe (ECol (z :: t) n) = [TId (z :: t); TK P_dot; TId n]. Proof. sh. Qed.
Lemma sh_lit l : pe (ELit l) = print_lit l. Proof. reflexivity. Qed.
Lemma sh_ctype_simple n : print_ctype (CTSimple n) = [TId n]. Proof. sh. Qed.
Lemma sh_ctype_list : print_ctype CTList = [TK P_listtype]. Proof. sh. Qed.
Lemma sh_ctype_object : print_ctype CTObject = [TK P_objtype]. Proof. sh. Qed.

Lemma il_plain l : interp_list lst_Exprs l = commas l. Proof. destruct l; reflexivity. Qed.
Lemma il_sels l : interp_list lst_SelectExprs l = commas l. Proof. destruct l; reflexivity. Qed.
Lemma il_tables l : interp_list lst_TableExprs l = commas l. Proof. destruct l; reflexivity. Qed.
Lemma il_args l : interp_list lst_TableValuedFunctionArguments l = commas l. Proof. destruct l; reflexivity. Qed.
Definition kw_list (k : list token) (l : list (list token)) : list token := match l with [] => [] | _ => k ++ commas l end.
Lemma il_groupby l : interp_list lst_GroupBy l = kw_list [TK K_group; TK K_by] l. Proof. destruct l; reflexivity. Qed.
Lemma il_orderby l : interp_list lst_OrderBy l = kw_list [TK K_order; TK K_by] l. Proof. destruct l; reflexivity. Qed.
Lemma il_triggers l : interp_list lst_Triggers l = kw_list [TK K_trigger] l. Proof. destruct l; reflexivity. Qed.

Lemma sh_func n d args : pe (EFunc n d args) =
  TId n :: TK P_lparen :: (if d then [TK K_distinct] else []) ++ commas (map pe args) ++ [TK P_rparen].
Proof. rewrite <- il_sels. destruct d; reflexivity. Qed.
Lemma env_tuple A : interp tpl_ValTuple [("Self", fv A)]%string = TK P_lparen :: A ++ [TK P_rparen]. Proof. sh. Qed.
Lemma sh_tuple es : pe (ETuple es) = TK P_lparen :: commas (map pe es) ++ [TK P_rparen].
Proof. change (pe (ETuple es)) with (interp tpl_ValTuple [("Self", fv (interp_list lst_Exprs (map pe es)))]%string).
  rewrite env_tuple, il_plain. reflexivity. Qed.
Lemma env_subquery A : interp tpl_Subquery [("Select", fv A)]%string = TK P_lparen :: A ++ [TK P_rparen]. Proof. sh. Qed.
Lemma sh_subquery s : pe (ESubquery s) = TK P_lparen :: ps s ++ [TK P_rparen].
Proof. change (pe (ESubquery s)) with (interp tpl_Subquery [("Select", fv (ps s))]%string). apply env_subquery. Qed.

Definition pwhere (w : option expr) : list token := match w with None => [] | Some e => TK K_where :: pe e end.
Definition phaving (w : option expr) : list token := match w with None => [] | Some e => TK K_having :: pe e end.
Definition plimit (l : option limit) : list token :=
  match l with
  | None => []
  | Some (Limit None rc) => TK K_limit :: pe rc
  | Some (Limit (Some o) rc) => TK K_limit :: pe o ++ TK P_comma :: pe rc
  end.
Lemma env_select (D A B W G H Tr O L : list token) :
  interp tpl_Select
    [("Comments", fv []); ("Cache", fv []); ("Distinct", fv D); ("Hints", fv []);
     ("SelectExprs", fv A); ("From", fv B); ("Where", fv W); ("GroupBy", fv G); ("Having", fv H);
     ("Trigger", fv Tr); ("OrderBy", fv O); ("Limit", fv L); ("Lock", fv [])]%string
  = TK K_select :: D ++ A ++ TK K_from :: B ++ W ++ G ++ H ++ Tr ++ O ++ L.
Proof. sh. Qed.
Lemma env_where X : interp tpl_Where [("Type", fv str_WhereStr); ("Expr", fv X)]%string = TK K_where :: X. Proof. sh. Qed.
Lemma env_having X : interp tpl_Where [("Type", fv str_HavingStr); ("Expr", fv X)]%string = TK K_having :: X. Proof. sh. Qed.
Lemma env_limit0 X : interp tpl_Limit [("node.Offset != nil", fv_opt [] false); ("Offset", fv []); ("Rowcount", fv X)]%string = TK K_limit :: X. Proof. sh. Qed.
Lemma env_limit1 Y X : interp tpl_Limit [("node.Offset != nil", fv_opt [] true); ("Offset", fv Y); ("Rowcount", fv X)]%string = TK K_limit :: Y ++ TK P_comma :: X. Proof. sh. Qed.

Lemma sh_select d items from w gb hv trs ob lim :
  ps (Select d items from w gb hv trs ob lim) =
  TK K_select :: (if d then [TK K_distinct] else []) ++ commas (map psel items) ++
  TK K_from :: commas (map pt from) ++ pwhere w ++ kw_list [TK K_group; TK K_by] (map pe gb) ++ phaving hv ++
  kw_list [TK K_trigger] (map ptr trs) ++ kw_list [TK K_order; TK K_by] (map pord ob) ++ plimit lim.
Proof.
  change (ps (Select d items from w gb hv trs ob lim)) with
    (interp tpl_Select
       [("Comments", fv []); ("Cache", fv []); ("Distinct", fv (if d then str_DistinctStr else [])); ("Hints", fv []);
        ("SelectExprs", fv (interp_list lst_SelectExprs (map psel items)));
        ("From", fv (interp_list lst_TableExprs (map pt from)));
        ("Where", fv (match w with None => [] | Some e => interp tpl_Where [("Type", fv str_WhereStr); ("Expr", fv (pe e))] end));
        ("GroupBy", fv (interp_list lst_GroupBy (map pe gb)));
        ("Having", fv (match hv with None => [] | Some e => interp tpl_Where [("Type", fv str_HavingStr); ("Expr", fv (pe e))] end));
        ("Trigger", fv (interp_list lst_Triggers (map ptr trs)));
        ("OrderBy", fv (interp_list lst_OrderBy (map pord ob)));
        ("Limit", fv (match lim with
                      | None => []
                      | Some (Limit off rc) =>
                          interp tpl_Limit [("node.Offset != nil", fv_opt [] (match off with Some _ => true | None => false end));
                                            ("Offset", fv (match off with Some o => pe o | None => [] end));
                                            ("Rowcount", fv (pe rc))]
                      end));
        ("Lock", fv [])]%string).
  rewrite env_select, il_sels, il_tables, il_groupby, il_triggers, il_orderby.
  destruct w as [e|]; [rewrite env_where|]; (destruct hv as [h|]; [rewrite env_having|]); (destruct lim as [[[o|] rc]|]; [rewrite env_limit1|rewrite env_limit0|]);
    destruct d; reflexivity.
Qed.
Lemma il_ctes l : interp_list lst_CommonTableExpressions l = commas l. Proof. destruct l; reflexivity. Qed.
Lemma env_with A B : interp tpl_With [("CommonTableExpressions", fv A); ("Select", fv B)]%string = TK K_with :: A ++ B. Proof. sh. Qed.
Lemma sh_with ctes body : ps (With ctes body) = TK K_with :: commas (map pcte ctes) ++ ps body.
Proof. change (ps (With ctes body)) with (interp tpl_With [("CommonTableExpressions", fv (interp_list lst_CommonTableExpressions (map pcte ctes))); ("Select", fv (ps body))]%string).
  rewrite env_with, il_ctes. reflexivity. Qed.
Lemma env_cte n A : interp tpl_CommonTableExpression [("Name", fv (p_id n)); ("Select", fv A)]%string = TId n :: TK K_as :: TK P_lparen :: A ++ [TK P_rparen]. Proof. sh. Qed.
Lemma sh_cte n s : pcte (Cte n s) = TId n :: TK K_as :: TK P_lparen :: ps s ++ [TK P_rparen].
Proof. change (pcte (Cte n s)) with (interp tpl_CommonTableExpression [("Name", fv (p_id n)); ("Select", fv (ps s))]%string). apply env_cte. Qed.
Lemma sh_range neg l f t : pe (ERange neg l f t) = pe l ++ (if neg then [TK K_not; TK K_between] else [TK K_between]) ++ pe f ++ TK K_and :: pe t.
Proof. destruct neg; sh. Qed.
Lemma env_exists A : interp tpl_ExistsExpr [("Subquery", fv (interp tpl_Subquery [("Select", fv A)]))]%string = TK K_exists :: TK P_lparen :: A ++ [TK P_rparen]. Proof. sh. Qed.
Lemma sh_exists s : pe (EExists s) = TK K_exists :: TK P_lparen :: ps s ++ [TK P_rparen].
Proof. change (pe (EExists s)) with (interp tpl_ExistsExpr [("Subquery", fv (interp tpl_Subquery [("Select", fv (ps s))]))]%string). apply env_exists. Qed.
Lemma sh_index x i : pe (EIndex x i) = pe x ++ TK P_lbracket :: pe i ++ [TK P_rbracket]. Proof. sh. Qed.
Definition pwhen (w : expr * expr) : list token := TK K_when :: pe (fst w) ++ TK K_then :: pe (snd w).
Definition popt (k : kw) (e : option expr) : list token := match e with None => [] | Some x => TK k :: pe x end.
Lemma env_when A B : interp tpl_When [("Cond", fv A); ("Val", fv B)]%string = TK K_when :: A ++ TK K_then :: B. Proof. sh. Qed.
Lemma env_case c E W l L : interp tpl_CaseExpr
   [("node.Expr != nil", fv_opt [] c); ("Expr", fv E); ("Whens", fv W); ("node.Else != nil", fv_opt [] l); ("Else", fv L)]%string
   = TK K_case :: (if c then E else []) ++ W ++ (if l then TK K_else :: L else []) ++ [TK K_end].
Proof. destruct c, l; sh. Qed.
Lemma sh_case e ws els : pe (ECase e ws els) =
  TK K_case :: match e with Some x => pe x | None => [] end ++ List.concat (map pwhen ws) ++ popt K_else els ++ [TK K_end].
Proof.
  change (pe (ECase e ws els)) with (interp tpl_CaseExpr
        [("node.Expr != nil", fv_opt [] (match e with Some _ => true | None => false end));
         ("Expr", fv (match e with Some x => pe x | None => [] end));
         ("Whens", fv (List.concat (map (fun w => interp tpl_When [("Cond", fv (pe (fst w))); ("Val", fv (pe (snd w)))]) ws)));
         ("node.Else != nil", fv_opt [] (match els with Some _ => true | None => false end));
         ("Else", fv (match els with Some x => pe x | None => [] end))]%string).
  rewrite env_case. replace (map (fun w => interp tpl_When [("Cond", fv (pe (fst w))); ("Val", fv (pe (snd w)))]%string) ws) with (map pwhen ws)
    by (apply map_ext; intros w; unfold pwhen; rewrite env_when; reflexivity).
  destruct e, els; reflexivity.
Qed.

(* select items *)
Lemma sh_star : psel SStar = [TK P_star]. Proof. sh. Qed.
Lemma sh_qualstar z t : psel (SQualStar (z :: t)) = [TId (z :: t); TK P_dot; TK P_star]. Proof. sh. Qed.
Lemma sh_sexpr0 e : psel (SExpr e []) = pe e. Proof. sh. Qed.
Lemma sh_sexpr1 e z a : psel (SExpr e (z :: a)) = pe e ++ [TK K_as; TId (z :: a)]. Proof. sh. Qed.
Lemma sh_explode e : psel (SExplode e) = pe e ++ [TK P_explode]. Proof. sh. Qed.

(* table expressions *)
Definition palias (a : ident) : list token := match a with [] => [] | _ => [TK K_as; TId a] end.
Lemma sh_tname0 z n a : pt (TName [] (z :: n) a) = TId (z :: n) :: palias a. Proof. destruct a; sh. Qed.
Lemma sh_tname1 y db z n a : pt (TName (y :: db) (z :: n) a) = TId (y :: db) :: TK P_dot :: TId (z :: n) :: palias a. Proof. destruct a; sh. Qed.
Lemma env_tsub A a : interp tpl_AliasedTableExpr
   [("Expr", fv (interp tpl_Subquery [("Select", fv A)])); ("Partitions", fv []);
    ("!node.As.IsEmpty()", fv_opt [] (negb (is_empty a))); ("As", fv (p_id a)); ("node.Hints != nil", fv_opt [] false)]%string
   = TK P_lparen :: A ++ TK P_rparen :: palias a.
Proof. destruct a; cbn; rewrite ?app_nil_r, <- ?app_assoc; reflexivity. Qed.
Lemma sh_tsub s a : pt (TSub s a) = TK P_lparen :: ps s ++ TK P_rparen :: palias a.
Proof. change (pt (TSub s a)) with (interp tpl_AliasedTableExpr
   [("Expr", fv (interp tpl_Subquery [("Select", fv (ps s))])); ("Partitions", fv []);
    ("!node.As.IsEmpty()", fv_opt [] (negb (is_empty a))); ("As", fv (p_id a)); ("node.Hints != nil", fv_opt [] false)]%string).
  apply env_tsub. Qed.
Lemma env_tparen A : interp tpl_ParenTableExpr [("Exprs", fv A)]%string = TK P_lparen :: A ++ [TK P_rparen]. Proof. sh. Qed.
Lemma sh_tparen ts : pt (TParen ts) = TK P_lparen :: commas (map pt ts) ++ [TK P_rparen].
Proof. change (pt (TParen ts)) with (interp tpl_ParenTableExpr [("Exprs", fv (interp_list lst_TableExprs (map pt ts)))]%string).
  rewrite env_tparen, il_tables. reflexivity. Qed.
Definition pon (on : option expr) : list token := match on with None => [] | Some e => TK K_on :: pe e end.
Definition pstrategy (s : jstrategy) : list token := match s with SLookup => [TK K_lookup] | SStream => [TK K_stream] | _ => [] end.
Lemma sh_tjoin l s k r on : pt (TJoin l s k r on) = pt l ++ pstrategy s ++ join_str k ++ pt r ++ pon on.
Proof. destruct s, on; cbn; rewrite ?app_nil_r; reflexivity. Qed.
Lemma env_tfunc n A a : interp tpl_TableValuedFunction
   [("Name", fv (p_id n)); ("Args", fv A); ("!node.As.IsEmpty()", fv_opt [] (negb (is_empty a))); ("As", fv (p_id a))]%string
   = TId n :: TK P_lparen :: A ++ TK P_rparen :: palias a.
Proof. destruct a; sh. Qed.
Lemma sh_tfunc n args a : pt (TFunc n args a) = TId n :: TK P_lparen :: commas (map parg args) ++ TK P_rparen :: palias a.
Proof. change (pt (TFunc n args a)) with (interp tpl_TableValuedFunction
   [("Name", fv (p_id n)); ("Args", fv (interp_list lst_TableValuedFunctionArguments (map parg args)));
    ("!node.As.IsEmpty()", fv_opt [] (negb (is_empty a))); ("As", fv (p_id a))]%string).
  rewrite env_tfunc, il_args. reflexivity. Qed.
Lemma sh_aexpr n e : parg (AExpr n e) = TId n :: TK P_rarrow :: pe e. Proof. sh. Qed.
Lemma sh_atable n t : parg (ATable n t) = TId n :: TK P_rarrow :: TK K_table :: TK P_lparen :: pt t ++ [TK P_rparen]. Proof. sh. Qed.
Lemma sh_adesc0 n c : parg (ADescriptor n [] c) = [TId n; TK P_rarrow; TK K_descriptor; TK P_lparen; TId c; TK P_rparen]. Proof. sh. Qed.
Lemma sh_adesc1 n z t c : parg (ADescriptor n (z :: t) c) = [TId n; TK P_rarrow; TK K_descriptor; TK P_lparen; TId (z :: t); TK P_dot; TId c; TK P_rparen]. Proof. sh. Qed.

(* triggers, order *)
Lemma sh_counting e : ptr (TrCounting e) = TK K_counting :: pe e. Proof. sh. Qed.
Lemma sh_watermark : ptr TrWatermark = [TK K_on; TK K_watermark]. Proof. sh. Qed.
Lemma sh_eos : ptr TrEndOfStream = [TK K_on; TK K_end; TK K_of; TK K_stream]. Proof. sh. Qed.
Lemma sh_delay e : ptr (TrDelay e) = TK K_after :: TK K_delay :: pe e. Proof. sh. Qed.
Lemma sh_order e d : pord (Order e d) =
  if negb d && (is_null_lit e || is_rand e) then pe e else pe e ++ [TK (if d then K_desc else K_asc)].
Proof. destruct d; cbn; destruct (is_null_lit e || is_rand e); reflexivity. Qed.

(* ---------------------------------------------------------------- Part 2: follow sets, loops, lists, dispatch *)
Notation PA := parsers_at.

(* the level at which a token continues an expression that is already complete (0 = never) *)
Definition cont_level (t : token) : nat :=
  match t with
  | TK K_or => 1 | TK K_and => 2 | TK K_is => 4
  | TK P_eq | TK P_lt | TK P_gt | TK P_le | TK P_ge | TK P_ne | TK P_nseq | TK K_like | TK K_in | TK K_not
  | TK K_between | TK K_regexp | TK P_tilde | TK P_tildestar | TK P_ntilde | TK P_ntildestar => 5
  | TK P_plus | TK P_minus => 6
  | TK P_star | TK P_slash => 7
  | TK P_arrow | TK P_cast | TK P_lbracket => 9
  | TK P_lparen | TK P_dot => 10
  | _ => 0
  end%nat.
Definition fol (L : nat) (R : list token) : Prop := match R with [] => True | t :: _ => (cont_level t < L)%nat end.
Lemma fol_mono L L' R : fol L R -> (L <= L')%nat -> fol L' R.
Proof. destruct R; simpl; intros; [trivial|lia]. Qed.

(* how an expression's printed text starts: 1 = NOT, 2 = EXISTS, 3 = '-', 4 = anything else an expression starts with *)
Definition hclass (t : token) : nat :=
  match t with
  | TK K_not => 1 | TK K_exists => 2 | TK P_minus => 3
  | TId _ | TStr _ | TInt _ | TFloat _ | THex _ | TBit _ | THexNum _ | TArg _
  | TK K_true | TK K_false | TK K_null | TK P_lparen | TK K_interval | TK K_convert | TK K_case => 4
  | _ => 0
  end%nat.
Definition hd_ge (c : nat) (l : list token) : Prop := match l with t :: _ => (c <= hclass t)%nat | [] => False end.
Lemma hd_ge_app c x y : hd_ge c x -> hd_ge c (x ++ y). Proof. destruct x; simpl; tauto. Qed.
Lemma hd_ge_mono c c' x : hd_ge c x -> (c' <= c)%nat -> hd_ge c' x. Proof. destruct x; simpl; [tauto|lia]. Qed.

(* case analysis on the first token of a list known by hd_ge / fol *)
Ltac tokcases X H :=
  destruct X as [|[[]| | | | | | | | | | ] ?]; simpl in H; try contradiction; try lia; try reflexivity.

Section LoopState.
  Context {A : Type}.
  Variable first : list token -> res A.
  Variable loop : nat -> A -> list token -> res A.
  Definition lst (X R : list token) (a : A) : Prop :=
    exists a0 r1 m mid, first (X ++ R) = Ok (a0, r1) /\ r1 = mid ++ R /\ (m <= List.length mid)%nat /\
      forall k, loop (m + k)%nat a0 r1 = loop k a R.
  Lemma lst_base X R a : first (X ++ R) = Ok (a, R) -> lst X R a.
  Proof. intros H. exists a, R, O, []. repeat split; auto. Qed.
  Lemma lst_step XL S R l a :
    lst XL (S ++ R) l -> (forall k, loop (Datatypes.S k) l (S ++ R) = loop k a R) -> (1 <= List.length S)%nat ->
    lst (XL ++ S) R a.
  Proof.
    intros (a0 & r1 & m & mid & H1 & H2 & H3 & H4) Hs Hl.
    exists a0, r1, (Datatypes.S m), (mid ++ S). repeat split.
    - rewrite <- app_assoc. exact H1.
    - rewrite <- app_assoc. exact H2.
    - rewrite app_length. lia.
    - intros k. replace (Datatypes.S m + k)%nat with (m + Datatypes.S k)%nat by lia. rewrite H4. apply Hs.
  Qed.
  Lemma lst_finish X R a :
    lst X R a -> (forall k, loop k a R = Ok (a, R)) ->
    obind (first (X ++ R)) (fun p => let '(a0, r) := p in loop (List.length r) a0 r) = Ok (a, R).
  Proof.
    intros (a0 & r1 & m & mid & H1 & H2 & H3 & H4) Hs. rewrite H1. simpl.
    replace (List.length r1) with (m + (List.length r1 - m))%nat by (subst r1; rewrite app_length; lia).
    rewrite H4. apply Hs.
  Qed.
End LoopState.

Lemma chain_step_eq operand opof t mk l x XR R k :
  opof t = Some mk -> operand (XR ++ R) = Ok (x, R) ->
  chain_loop operand opof (S k) l ((t :: XR) ++ R) = chain_loop operand opof k (mk l x) R.
Proof. intros H1 H2. simpl. rewrite H1, H2. reflexivity. Qed.
Lemma chain_stop operand opof k a R :
  match R with [] => True | t :: _ => opof t = None end -> chain_loop operand opof k a R = Ok (a, R).
Proof. destruct R as [|t R]; intros H; destruct k; simpl; try rewrite H; reflexivity. Qed.

Lemma stop_or R : fol 1 R -> match R with [] => True | t :: _ => op_or t = None end. Proof. intros H. tokcases R H; trivial. Qed.
Lemma stop_and R : fol 2 R -> match R with [] => True | t :: _ => op_and t = None end. Proof. intros H. tokcases R H; trivial. Qed.
Lemma stop_add R : fol 6 R -> match R with [] => True | t :: _ => op_add t = None end. Proof. intros H. tokcases R H; trivial. Qed.
Lemma stop_mul R : fol 7 R -> match R with [] => True | t :: _ => op_mul t = None end. Proof. intros H. tokcases R H; trivial. Qed.

(* comma lists *)
Definition not_comma (R : list token) : Prop := match R with TK P_comma :: _ => False | _ => True end.
Lemma sep_one {A} (item : list token -> res A) X R x k :
  item (X ++ R) = Ok (x, R) -> not_comma R -> sep_list item k (X ++ R) = Ok ([x], R).
Proof. intros H1 H2. destruct k; simpl; rewrite H1; simpl; destruct R as [|[[]| | | | | | | | | | ] ?]; simpl in H2; try contradiction; reflexivity. Qed.
Lemma sep_cons {A} (item : list token -> res A) X Y x xs R k :
  item (X ++ TK P_comma :: Y) = Ok (x, TK P_comma :: Y) -> sep_list item k Y = Ok (xs, R) ->
  sep_list item (S k) (X ++ TK P_comma :: Y) = Ok (x :: xs, R).
Proof. intros H1 H2. simpl. rewrite H1. simpl. rewrite H2. reflexivity. Qed.

Lemma commas_cons2 x y l : commas (x :: y :: l) = x ++ TK P_comma :: commas (y :: l). Proof. reflexivity. Qed.
Lemma commas_one x : commas [x] = x. Proof. reflexivity. Qed.

(* dispatch: which branch of a parser's first match a printed expression takes *)
Section Dispatch.
Variable P : parsers.
Lemma d_primary_lparen X R : hd_ge 1 X ->
  primary_ P (TK P_lparen :: X ++ R) =
  obind (sep_list (p_expr P) (List.length (X ++ R)) (X ++ R)) (fun p => let '(es, r1) := p in
    expect P_rparen r1 (fun r2 => Ok (match es with [e] => EParen e | _ => ETuple es end, r2))).
Proof. intros H. tokcases X H. Qed.
Lemma d_primary_func f X R : hd_ge 1 X ->
  primary_ P (TId f :: TK P_lparen :: X ++ R) =
  obind (sep_list (p_expr P) (List.length (X ++ R)) (X ++ R)) (fun p => let '(es, r1) := p in
    expect P_rparen r1 (fun r2 => Ok (EFunc f false es, r2))).
Proof. intros H. tokcases X H. Qed.
Lemma d_in_rhs X R : hd_ge 1 X ->
  in_rhs P (TK P_lparen :: X ++ R) =
  obind (sep_list (p_expr P) (List.length (X ++ R)) (X ++ R)) (fun p => let '(es, r1) := p in
    expect P_rparen r1 (fun r2 => Ok (ETuple es, r2))).
Proof. intros H. tokcases X H. Qed.
Lemma d_unary X R : hd_ge 4 X -> unary_ P (X ++ R) = postfix_ P (X ++ R).
Proof. intros H. tokcases X H. Qed.
Lemma d_cond X R : hd_ge 3 X -> cond_ P (X ++ R) = obind (add_ P (X ++ R)) (fun p => let '(l, r) := p in cond_rest P l r).
Proof. intros H. tokcases X H. Qed.
Lemma d_not X R : hd_ge 2 X -> not_ P (X ++ R) = is_ P (X ++ R).
Proof. intros H. tokcases X H. Qed.
End Dispatch.

(* ---------------------------------------------------------------- Part 3: parser_image *)
Definition lit_pos (l : lit) : Prop := match l with LInt true _ => False | _ => True end.
Definition not_intlit (e : expr) : Prop := match e with ELit (LInt _ _) => False | _ => True end.
Definition cmp_plain (op : cmpop) : Prop := match op with OIn | ONotIn => False | _ => True end.
Definition cmp_in (op : cmpop) : Prop := match op with OIn | ONotIn => True | _ => False end.
Definition mul_op (op : binop) : Prop := match op with BMult | BDiv => True | _ => False end.
Definition add_op (op : binop) : Prop := match op with BPlus | BMinus => True | _ => False end.
Definition inner_strategy (s : jstrategy) : Prop := match s with SNone => False | _ => True end.

(* the trees the parser can return, by grammar level: an operand of lower precedence only under EParen *)
Inductive im_primary : expr -> Prop :=
| ip_lit l : lit_pos l -> im_primary (ELit l)
| ip_paren e : im_or e -> im_primary (EParen e)
| ip_tuple e es : im_or e -> im_exprs es -> im_primary (ETuple (e :: es))
| ip_sub s : im_select s -> im_primary (ESubquery s)
| ip_interval e u : im_add e -> im_primary (EInterval e u)
| ip_convert e t : im_or e -> im_primary (EConvert e t)
| ip_funcstar f : im_primary (EFuncStar f)
| ip_func0 f : im_primary (EFunc f false [])
| ip_func f d es : im_exprs es -> im_primary (EFunc f d es)
| ip_col t c : im_primary (ECol t c)
| ip_case e ws els : im_oexpr e -> im_whens ws -> im_oexpr els -> im_primary (ECase e ws els)
with im_whens : list (expr * expr) -> Prop :=
| iw_one c v : im_or c -> im_or v -> im_whens [(c, v)]
| iw_cons c v ws : im_or c -> im_or v -> im_whens ws -> im_whens ((c, v) :: ws)
with im_postfix : expr -> Prop :=
| ipf_field e f : im_postfix e -> im_postfix (EField e f)
| ipf_index e i : im_postfix e -> im_add i -> im_postfix (EIndex e i)
| ipf_base e : im_primary e -> im_postfix e
with im_unary : expr -> Prop :=
| iu_neg e : im_unary e -> not_intlit e -> im_unary (ENeg e)
| iu_negint d : im_unary (ELit (LInt true d))
| iu_base e : im_postfix e -> im_unary e
with im_mul : expr -> Prop :=
| imu_step op l r : mul_op op -> im_mul l -> im_unary r -> im_mul (EBin op l r)
| imu_base e : im_unary e -> im_mul e
with im_add : expr -> Prop :=
| iad_step op l r : add_op op -> im_add l -> im_mul r -> im_add (EBin op l r)
| iad_base e : im_mul e -> im_add e
with im_cond : expr -> Prop :=
| ic_cmp op l r : cmp_plain op -> im_add l -> im_add r -> im_cond (ECmp op l r)
| ic_in op l es : cmp_in op -> im_add l -> im_exprs es -> im_cond (ECmp op l (ETuple es))
| ic_insub op l s : cmp_in op -> im_add l -> im_select s -> im_cond (ECmp op l (ESubquery s))
| ic_between neg l f t : im_add l -> im_add f -> im_add t -> im_cond (ERange neg l f t)
| ic_exists s : im_select s -> im_cond (EExists s)
| ic_base e : im_add e -> im_cond e
with im_is : expr -> Prop :=
| ii_step op e : im_is e -> im_is (EIs op e)
| ii_base e : im_cond e -> im_is e
with im_not : expr -> Prop :=
| in_step e : im_not e -> im_not (ENot e)
| in_base e : im_is e -> im_not e
with im_and : expr -> Prop :=
| ian_step l r : im_and l -> im_not r -> im_and (EAnd l r)
| ian_base e : im_not e -> im_and e
with im_or : expr -> Prop :=
| ior_step l r : im_or l -> im_and r -> im_or (EOr l r)
| ior_base e : im_and e -> im_or e
with im_exprs : list expr -> Prop :=
| ies_one e : im_or e -> im_exprs [e]
| ies_cons e es : im_or e -> im_exprs es -> im_exprs (e :: es)
with im_oexpr : option expr -> Prop :=
| ioe_none : im_oexpr None
| ioe_some e : im_or e -> im_oexpr (Some e)
with im_exprs0 : list expr -> Prop :=
| ie0_nil : im_exprs0 []
| ie0_some es : im_exprs es -> im_exprs0 es
with im_select : select -> Prop :=
| isel d items from w gb hv trs ob lim :
    im_sels items -> im_trefs from -> im_oexpr w -> im_exprs0 gb -> im_oexpr hv -> im_triggers0 trs -> im_orders0 ob -> im_olimit lim ->
    im_select (Select d items from w gb hv trs ob lim)
| iwith ctes body : im_ctes ctes -> im_select body -> im_select (With ctes body)
with im_cte : cte -> Prop :=
| icte n s : im_select s -> im_cte (Cte n s)
with im_ctes : list cte -> Prop :=
| ict_one c : im_cte c -> im_ctes [c]
| ict_cons c cs : im_cte c -> im_ctes cs -> im_ctes (c :: cs)
with im_olimit : option limit -> Prop :=
| iol_none : im_olimit None
| iol_plain rc : im_or rc -> im_olimit (Some (Limit None rc))
| iol_offset o rc : im_or o -> im_or rc -> im_olimit (Some (Limit (Some o) rc))
with im_sel : sel_expr -> Prop :=
| isl_star : im_sel SStar
| isl_qual z t : im_sel (SQualStar (z :: t))
| isl_expr e a : im_or e -> im_sel (SExpr e a)
| isl_explode e : im_or e -> is_ve e = true -> im_sel (SExplode e)
with im_sels : list sel_expr -> Prop :=
| iss_one x : im_sel x -> im_sels [x]
| iss_cons x xs : im_sel x -> im_sels xs -> im_sels (x :: xs)
with im_tfactor : table_expr -> Prop :=
| itf_name db z n a : im_tfactor (TName db (z :: n) a)
| itf_sub s z a : im_select s -> im_tfactor (TSub s (z :: a))
| itf_paren ts : im_trefs ts -> im_tfactor (TParen ts)
| itf_func f args z a : im_args0 args -> im_tfactor (TFunc f args (z :: a))
with im_tref : table_expr -> Prop :=
| itr_inner l s r on : inner_strategy s -> im_tref l -> im_tfactor r -> im_oexpr on -> im_tref (TJoin l s JInner r on)
| itr_outer l k r e : k <> JInner -> im_tref l -> im_tfactor r -> im_or e -> im_tref (TJoin l SNone k r (Some e))
| itr_base t : im_tfactor t -> im_tref t
with im_trefs : list table_expr -> Prop :=
| its_one t : im_tref t -> im_trefs [t]
| its_cons t ts : im_tref t -> im_trefs ts -> im_trefs (t :: ts)
with im_arg : tvf_arg -> Prop :=
| iar_expr n e : im_or e -> im_arg (AExpr n e)
| iar_table n t : im_tref t -> im_arg (ATable n t)
| iar_desc n t c : im_arg (ADescriptor n t c)
with im_args : list tvf_arg -> Prop :=
| ias_one x : im_arg x -> im_args [x]
| ias_cons x xs : im_arg x -> im_args xs -> im_args (x :: xs)
with im_args0 : list tvf_arg -> Prop :=
| ia0_nil : im_args0 []
| ia0_some xs : im_args xs -> im_args0 xs
with im_trigger : trigger -> Prop :=
| itg_counting e : im_or e -> im_trigger (TrCounting e)
| itg_watermark : im_trigger TrWatermark
| itg_eos : im_trigger TrEndOfStream
| itg_delay e : im_or e -> im_trigger (TrDelay e)
with im_triggers : list trigger -> Prop :=
| itgs_one x : im_trigger x -> im_triggers [x]
| itgs_cons x xs : im_trigger x -> im_triggers xs -> im_triggers (x :: xs)
with im_triggers0 : list trigger -> Prop :=
| itg0_nil : im_triggers0 []
| itg0_some xs : im_triggers xs -> im_triggers0 xs
with im_order : order -> Prop :=
| iord e d : im_or e -> im_order (Order e d)
with im_orders : list order -> Prop :=
| ios_one x : im_order x -> im_orders [x]
| ios_cons x xs : im_order x -> im_orders xs -> im_orders (x :: xs)
with im_orders0 : list order -> Prop :=
| io0_nil : im_orders0 []
| io0_some xs : im_orders xs -> im_orders0 xs.

Scheme im_primary_mi := Minimality for im_primary Sort Prop
  with im_whens_mi := Minimality for im_whens Sort Prop
  with im_postfix_mi := Minimality for im_postfix Sort Prop
  with im_unary_mi := Minimality for im_unary Sort Prop
  with im_mul_mi := Minimality for im_mul Sort Prop
  with im_add_mi := Minimality for im_add Sort Prop
  with im_cond_mi := Minimality for im_cond Sort Prop
  with im_is_mi := Minimality for im_is Sort Prop
  with im_not_mi := Minimality for im_not Sort Prop
  with im_and_mi := Minimality for im_and Sort Prop
  with im_or_mi := Minimality for im_or Sort Prop
  with im_exprs_mi := Minimality for im_exprs Sort Prop
  with im_oexpr_mi := Minimality for im_oexpr Sort Prop
  with im_exprs0_mi := Minimality for im_exprs0 Sort Prop
  with im_select_mi := Minimality for im_select Sort Prop
  with im_cte_mi := Minimality for im_cte Sort Prop
  with im_ctes_mi := Minimality for im_ctes Sort Prop
  with im_olimit_mi := Minimality for im_olimit Sort Prop
  with im_sel_mi := Minimality for im_sel Sort Prop
  with im_sels_mi := Minimality for im_sels Sort Prop
  with im_tfactor_mi := Minimality for im_tfactor Sort Prop
  with im_tref_mi := Minimality for im_tref Sort Prop
  with im_trefs_mi := Minimality for im_trefs Sort Prop
  with im_arg_mi := Minimality for im_arg Sort Prop
  with im_args_mi := Minimality for im_args Sort Prop
  with im_args0_mi := Minimality for im_args0 Sort Prop
  with im_trigger_mi := Minimality for im_trigger Sort Prop
  with im_triggers_mi := Minimality for im_triggers Sort Prop
  with im_triggers0_mi := Minimality for im_triggers0 Sort Prop
  with im_order_mi := Minimality for im_order Sort Prop
  with im_orders_mi := Minimality for im_orders Sort Prop
  with im_orders0_mi := Minimality for im_orders0 Sort Prop.
Combined Scheme im_mutind from im_primary_mi, im_whens_mi, im_postfix_mi, im_unary_mi, im_mul_mi, im_add_mi, im_cond_mi, im_is_mi,
  im_not_mi, im_and_mi, im_or_mi, im_exprs_mi, im_oexpr_mi, im_exprs0_mi, im_select_mi, im_cte_mi, im_ctes_mi, im_olimit_mi, im_sel_mi, im_sels_mi,
  im_tfactor_mi, im_tref_mi, im_trefs_mi, im_arg_mi, im_args_mi, im_args0_mi, im_trigger_mi, im_triggers_mi, im_triggers0_mi,
  im_order_mi, im_orders_mi, im_orders0_mi.

(* ---------------------------------------------------------------- claims, level by level *)
Arguments join_with : simpl never.
Arguments kw_list : simpl never.
Notation len := (@List.length token).
Ltac norm := cbn [app]; rewrite <- ?app_assoc; cbn [app].

Definition sfol (R : list token) : Prop := match R with [] => True | TK P_rparen :: _ => True | _ => False end.
Lemma sfol_fol R : sfol R -> fol 1 R. Proof. intros H. tokcases R H; simpl; try exact I; lia. Qed.
Lemma sfol_nc R : sfol R -> not_comma R. Proof. intros H. tokcases R H; trivial. Qed.

Definition cl_primary a := hd_ge 4 (pe a) /\ starts_minus a = false /\
  forall n R, (len (pe a) <= n)%nat -> fol 10 R -> primary_ (PA n) (pe a ++ R) = Ok (a, R).
Definition cl_postfix a := hd_ge 4 (pe a) /\ starts_minus a = false /\
  forall n R, (len (pe a) <= n)%nat -> fol 10 R -> lst (primary_ (PA n)) (postfix_loop (PA n)) (pe a) R a.
Definition um a := starts_minus a && negb (is_neg a) = false \/ ~ not_intlit a.
Definition cl_unary a := hd_ge 3 (pe a) /\ um a /\
  forall n R, (len (pe a) <= n)%nat -> fol 9 R -> unary_ (PA n) (pe a ++ R) = Ok (a, R).
Definition cl_mul a := hd_ge 3 (pe a) /\
  forall n R, (len (pe a) <= n)%nat -> fol 8 R -> lst (unary_ (PA n)) (chain_loop (unary_ (PA n)) op_mul) (pe a) R a.
Definition cl_add a := hd_ge 3 (pe a) /\
  forall n R, (len (pe a) <= n)%nat -> fol 7 R -> lst (mul_ (PA n)) (chain_loop (mul_ (PA n)) op_add) (pe a) R a.
Definition cl_cond a := hd_ge 2 (pe a) /\
  forall n R, (len (pe a) <= n)%nat -> fol 5 R -> cond_ (PA n) (pe a ++ R) = Ok (a, R).
Definition cl_is a := hd_ge 2 (pe a) /\
  forall n R, (len (pe a) <= n)%nat -> fol 5 R -> lst (cond_ (PA n)) is_loop (pe a) R a.
Definition cl_not a := hd_ge 1 (pe a) /\
  forall n R, (len (pe a) <= n)%nat -> fol 4 R -> not_ (PA n) (pe a ++ R) = Ok (a, R).
Definition cl_and a := hd_ge 1 (pe a) /\
  forall n R, (len (pe a) <= n)%nat -> fol 3 R -> lst (not_ (PA n)) (chain_loop (not_ (PA n)) op_and) (pe a) R a.
Definition cl_or a := hd_ge 1 (pe a) /\
  forall n R, (len (pe a) <= n)%nat -> fol 2 R -> lst (and_ (PA n)) (chain_loop (and_ (PA n)) op_or) (pe a) R a.
Definition cl_exprs es := es <> [] /\ hd_ge 1 (commas (map pe es)) /\
  forall n R k, (len (commas (map pe es)) < n)%nat -> (List.length es <= S k)%nat -> not_comma R -> fol 1 R ->
    sep_list (p_expr (PA n)) k (commas (map pe es) ++ R) = Ok (es, R).
Definition cl_select s := forall n R, (len (ps s) <= n)%nat -> sfol R -> select_ (PA n) (ps s ++ R) = Ok (s, R).

Lemma postfix_stop P k a R : fol 9 R -> postfix_loop P k a R = Ok (a, R).
Proof. intros H. destruct k; tokcases R H. Qed.
Lemma is_stop k a R : fol 4 R -> is_loop k a R = Ok (a, R).
Proof. intros H. destruct k; tokcases R H. Qed.

Lemma full_postfix a : cl_postfix a -> forall n R, (len (pe a) <= n)%nat -> fol 9 R -> postfix_ (PA n) (pe a ++ R) = Ok (a, R).
Proof. intros (_ & _ & H) n R Hn HR. unfold postfix_. apply lst_finish. apply H; auto. eapply fol_mono; eauto.
  intros k. apply postfix_stop; auto. Qed.
Lemma full_mul a : cl_mul a -> forall n R, (len (pe a) <= n)%nat -> fol 7 R -> mul_ (PA n) (pe a ++ R) = Ok (a, R).
Proof. intros (_ & H) n R Hn HR. unfold mul_, chain. apply lst_finish. apply H; auto. eapply fol_mono; eauto.
  intros k. apply chain_stop, stop_mul; auto. Qed.
Lemma full_add a : cl_add a -> forall n R, (len (pe a) <= n)%nat -> fol 6 R -> add_ (PA n) (pe a ++ R) = Ok (a, R).
Proof. intros (_ & H) n R Hn HR. unfold add_, chain. apply lst_finish. apply H; auto. eapply fol_mono; eauto.
  intros k. apply chain_stop, stop_add; auto. Qed.
Lemma full_is a : cl_is a -> forall n R, (len (pe a) <= n)%nat -> fol 4 R -> is_ (PA n) (pe a ++ R) = Ok (a, R).
Proof. intros (_ & H) n R Hn HR. unfold is_. apply lst_finish. apply H; auto. eapply fol_mono; eauto.
  intros k. apply is_stop; auto. Qed.
Lemma full_and a : cl_and a -> forall n R, (len (pe a) <= n)%nat -> fol 2 R -> and_ (PA n) (pe a ++ R) = Ok (a, R).
Proof. intros (_ & H) n R Hn HR. unfold and_, chain. apply lst_finish. apply H; auto. eapply fol_mono; eauto.
  intros k. apply chain_stop, stop_and; auto. Qed.
Lemma full_or a : cl_or a -> forall n R, (len (pe a) <= n)%nat -> fol 1 R -> or_ (PA n) (pe a ++ R) = Ok (a, R).
Proof. intros (_ & H) n R Hn HR. unfold or_, chain. apply lst_finish. apply H; auto. eapply fol_mono; eauto.
  intros k. apply chain_stop, stop_or; auto. Qed.

Lemma entry_expr e : cl_or e -> forall n R, (len (pe e) < n)%nat -> fol 1 R -> p_expr (PA n) (pe e ++ R) = Ok (e, R).
Proof. intros H n R Hn HR. destruct n; [lia|]. apply (full_or e H); auto. lia. Qed.
Lemma entry_add e : cl_add e -> forall n R, (len (pe e) < n)%nat -> fol 6 R -> p_add (PA n) (pe e ++ R) = Ok (e, R).
Proof. intros H n R Hn HR. destruct n; [lia|]. apply (full_add e H); auto. lia. Qed.
Lemma entry_select s : cl_select s -> forall n R, (len (ps s) < n)%nat -> sfol R -> p_select (PA n) (ps s ++ R) = Ok (s, R).
Proof. intros H n R Hn HR. destruct n; [lia|]. apply H; auto. lia. Qed.

Lemma commas_len (l : list (list token)) : (List.length l <= S (len (commas l)))%nat.
Proof. induction l as [|x [|y l] IH]; [simpl; lia|rewrite commas_one; simpl; lia|]. rewrite commas_cons2, app_length. simpl in *. lia. Qed.
Definition shead (X : list token) : Prop := match X with TK K_select :: _ | TK K_with :: _ => True | _ => False end.
Lemma shead_app X Y : shead X -> shead (X ++ Y). Proof. destruct X as [|[[]| | | | | | | | | | ] ?]; simpl; tauto. Qed.
Lemma ps_head s : shead (ps s).
Proof. destruct s; [rewrite sh_select|rewrite sh_with]; exact I. Qed.

Section Dispatch2.
Variable P : parsers.
Lemma d_primary_sub X R : shead X ->
  primary_ P (TK P_lparen :: X ++ R) =
  obind (p_select P (X ++ R)) (fun p => let '(s, r1) := p in expect P_rparen r1 (fun r2 => Ok (ESubquery s, r2))).
Proof. intros H. destruct X as [|[[]| | | | | | | | | | ] ?]; simpl in H; try contradiction; reflexivity. Qed.
Lemma d_in_rhs_sub X R : shead X ->
  in_rhs P (TK P_lparen :: X ++ R) =
  obind (p_select P (X ++ R)) (fun p => let '(s, r1) := p in expect P_rparen r1 (fun r2 => Ok (ESubquery s, r2))).
Proof. intros H. destruct X as [|[[]| | | | | | | | | | ] ?]; simpl in H; try contradiction; reflexivity. Qed.
End Dispatch2.

(* ---- expression cases ---- *)
Ltac ugoal := unfold cl_primary, cl_postfix, cl_unary, cl_mul, cl_add, cl_cond, cl_is, cl_not, cl_and, cl_or, cl_exprs, cl_select.
Lemma case_ies_one e : cl_or e -> cl_exprs [e].
Proof. intros H. split; [discriminate|]. split; [apply H|]. intros n R k Hn Hk Hc HR. simpl in *.
  apply sep_one; auto. apply entry_expr; auto. Qed.
Lemma case_ies_cons e es : cl_or e -> cl_exprs es -> cl_exprs (e :: es).
Proof. intros H (Hne & Hh & Hes). destruct es as [|e' es']; [contradiction|].
  split; [discriminate|]. split. { simpl map. rewrite commas_cons2. apply hd_ge_app, H. }
  intros n R k Hn Hk Hc HR. simpl map in *. rewrite commas_cons2 in *. rewrite app_length in Hn. simpl in Hn.
  destruct k; [simpl in Hk; lia|]. rewrite <- app_assoc. simpl.
  apply sep_cons. apply entry_expr; auto. lia. simpl; lia.
  apply Hes; auto. lia. simpl in *; lia. Qed.

Lemma case_ip_lit l : lit_pos l -> cl_primary (ELit l).
Proof. intros H. destruct l as [s|[] d|s| | | |s|s|s|s]; try contradiction; (split; [simpl; lia|]); (split; [reflexivity|]); intros; reflexivity. Qed.

Lemma case_ip_paren e : cl_or e -> cl_primary (EParen e).
Proof. intros H. ugoal; rewrite sh_paren. split; [simpl; lia|]. split; [reflexivity|]. intros n R Hn HR. simpl in Hn. rewrite app_length in Hn. simpl in Hn.
  norm. rewrite d_primary_lparen by apply H.
  rewrite (sep_one (p_expr (PA n)) (pe e) (TK P_rparen :: R) e); simpl; auto. apply entry_expr; auto. lia. simpl; lia. Qed.

Lemma case_ip_tuple e es : cl_or e -> cl_exprs es -> cl_primary (ETuple (e :: es)).
Proof. intros H Hes. pose proof (case_ies_cons e es H Hes) as (_ & Hh & Hp). destruct Hes as (Hne & _).
  ugoal; rewrite sh_tuple. split; [simpl; lia|]. split; [reflexivity|]. intros n R Hn HR. simpl len in Hn. rewrite app_length in Hn. simpl in Hn.
  norm. rewrite d_primary_lparen by apply Hh.
  rewrite Hp; simpl; auto; try lia. destruct es; [contradiction|reflexivity].
  pose proof (commas_len (map pe (e :: es))). rewrite map_length, app_length in *. simpl in *. lia. Qed.

Lemma case_ip_sub s : cl_select s -> cl_primary (ESubquery s).
Proof. intros H. ugoal; rewrite sh_subquery. split; [simpl; lia|]. split; [reflexivity|]. intros n R Hn HR. simpl in Hn. rewrite app_length in Hn. simpl in Hn.
  norm. rewrite d_primary_sub by apply ps_head. rewrite entry_select; simpl; auto. lia. Qed.

Lemma case_ip_interval e u : cl_add e -> cl_primary (EInterval e u).
Proof. intros H. ugoal; rewrite sh_interval. split; [simpl; lia|]. split; [reflexivity|]. intros n R Hn HR. simpl in Hn. rewrite app_length in Hn. simpl in Hn.
  norm. simpl. rewrite entry_add; simpl; auto; lia. Qed.

Lemma case_ip_convert e t : cl_or e -> cl_primary (EConvert e t).
Proof. intros H. ugoal; rewrite sh_convert. split; [simpl; lia|]. split; [reflexivity|]. intros n R Hn HR. simpl in Hn. rewrite app_length in Hn. simpl in Hn.
  norm. simpl. rewrite entry_expr; simpl; auto; try lia.
  destruct t; [ugoal; rewrite sh_ctype_simple|ugoal; rewrite sh_ctype_list|ugoal; rewrite sh_ctype_object]; reflexivity. Qed.

Lemma case_ip_funcstar f : cl_primary (EFuncStar f).
Proof. ugoal; rewrite sh_funcstar. split; [simpl; lia|]. split; [reflexivity|]. intros; reflexivity. Qed.
Lemma case_ip_func0 f : cl_primary (EFunc f false []).
Proof. ugoal; rewrite sh_func. split; [simpl; lia|]. split; [reflexivity|]. intros; reflexivity. Qed.
Lemma case_ip_func f d es : cl_exprs es -> cl_primary (EFunc f d es).
Proof. intros (Hne & Hh & Hp). ugoal; rewrite sh_func. split; [simpl; lia|]. split; [reflexivity|]. intros n R Hn HR.
  assert (Hk : forall R', (List.length es <= S (len (commas (map pe es) ++ R')))%nat).
  { intros R'. pose proof (commas_len (map pe es)). rewrite map_length, app_length in *. lia. }
  destruct d; simpl in Hn; rewrite ?app_length in Hn; simpl in Hn.
  - norm. simpl. rewrite Hp; simpl; auto; lia.
  - norm. rewrite d_primary_func by apply Hh. rewrite Hp; simpl; auto; lia. Qed.

Lemma case_ip_col t c : cl_primary (ECol t c).
Proof. destruct t as [|z t].
  - ugoal; rewrite sh_col0. split; [simpl; lia|]. split; [reflexivity|]. intros n R Hn HR. simpl. tokcases R HR.
  - ugoal; rewrite sh_col1. split; [simpl; lia|]. split; [reflexivity|]. intros; reflexivity. Qed.

Lemma case_ipf_field e f : cl_postfix e -> cl_postfix (EField e f).
Proof. intros (Hh & Hs & Hp). ugoal; rewrite sh_field. split; [apply hd_ge_app; auto|]. split; [exact Hs|]. intros n R Hn HR.
  rewrite app_length in Hn. simpl in Hn. apply lst_step with (l := e).
  - apply Hp. lia. simpl; lia.
  - intros k. reflexivity.
  - simpl; lia. Qed.
Lemma case_ipf_base e : cl_primary e -> cl_postfix e.
Proof. intros (Hh & Hs & Hp). split; auto. split; auto. intros. apply lst_base. apply Hp; auto. Qed.

Lemma case_iu_neg e : cl_unary e -> not_intlit e -> cl_unary (ENeg e).
Proof. intros (Hh & Hu & Hp) Hni. assert (Hsm : starts_minus e && negb (is_neg e) = false) by (destruct Hu; tauto).
  ugoal; rewrite (sh_neg _ Hsm). split; [simpl; lia|]. split; [left; reflexivity|]. intros n R Hn HR. simpl in Hn.
  simpl. rewrite Hp; auto; try lia. simpl. destruct e; try reflexivity. destruct l; try reflexivity. contradiction. Qed.
Lemma case_iu_negint d : cl_unary (ELit (LInt true d)).
Proof. split; [simpl; lia|]. split; [right; simpl; tauto|]. intros n R Hn HR.
  change (obind (postfix_loop (PA n) (List.length R) (ELit (LInt false d)) R) (fun p => let '(e, r') := p in Ok (neg_fold e, r')) = Ok (ELit (LInt true d), R)).
  rewrite postfix_stop by auto. reflexivity. Qed.
Lemma case_iu_base e : cl_postfix e -> cl_unary e.
Proof. intros H. pose proof H as (Hh & Hs & _). split; [eapply hd_ge_mono; eauto|]. split; [left; rewrite Hs; reflexivity|].
  intros n R Hn HR. rewrite d_unary by auto. apply full_postfix; auto. Qed.

Lemma case_imu_step op l r : mul_op op -> cl_mul l -> cl_unary r -> cl_mul (EBin op l r).
Proof. intros Hop (Hh & Hl) (_ & _ & Hr). ugoal; rewrite sh_bin. split; [apply hd_ge_app; auto|]. intros n R Hn HR.
  rewrite !app_length in Hn.
  destruct op; try contradiction; simpl in Hn; simpl app;
  (apply lst_step with (l := l); [apply Hl; [lia|simpl; lia]| |simpl; lia]);
  intros k; (eapply chain_step_eq; [reflexivity|apply Hr; [lia|eapply fol_mono; eauto]]). Qed.
Lemma case_imu_base e : cl_unary e -> cl_mul e.
Proof. intros (Hh & _ & Hp). split; auto. intros. apply lst_base. apply Hp; auto. eapply fol_mono; eauto. Qed.

Lemma case_iad_step op l r : add_op op -> cl_add l -> cl_mul r -> cl_add (EBin op l r).
Proof. intros Hop (Hh & Hl) Hr. ugoal; rewrite sh_bin. split; [apply hd_ge_app; auto|]. intros n R Hn HR.
  rewrite !app_length in Hn.
  destruct op; try contradiction; simpl in Hn; simpl app;
  (apply lst_step with (l := l); [apply Hl; [lia|simpl; lia]| |simpl; lia]);
  intros k; (eapply chain_step_eq; [reflexivity|apply (full_mul r Hr); [lia|auto]]). Qed.
Lemma case_iad_base e : cl_mul e -> cl_add e.
Proof. intros H. split; [apply H|]. intros. apply lst_base. apply (full_mul e H); auto. Qed.

Lemma case_ic_base e : cl_add e -> cl_cond e.
Proof. intros H. split; [eapply hd_ge_mono; [apply H|lia]|]. intros n R Hn HR. rewrite d_cond by apply H. rewrite (full_add e H) by (auto; eapply fol_mono; eauto).
  simpl. tokcases R HR. Qed.

Lemma case_ic_cmp op l r : cmp_plain op -> cl_add l -> cl_add r -> cl_cond (ECmp op l r).
Proof. intros Hop Hl Hr. ugoal; rewrite sh_cmp. split; [apply hd_ge_app; eapply hd_ge_mono; [apply Hl|lia]|]. intros n R Hn HR.
  rewrite !app_length in Hn. rewrite <- app_assoc. rewrite d_cond by apply Hl.
  destruct op; try contradiction; simpl in Hn; cbn [cmp_str app str_EqualStr str_LessThanStr str_GreaterThanStr str_LessEqualStr
     str_GreaterEqualStr str_NotEqualStr str_NullSafeEqualStr str_LikeStr str_NotLikeStr str_RegexpStr str_NotRegexpStr
     str_LikeRegexpStr str_LikeRegexpCaseInsensitiveStr str_NotLikeRegexpStr str_NotLikeRegexpCaseInsensitiveStr];
  (rewrite (full_add l Hl) by (try lia; simpl; lia)); simpl;
  (rewrite (full_add r Hr) by (try lia; eapply fol_mono; eauto)); reflexivity. Qed.

Lemma case_ic_in op l es : cmp_in op -> cl_add l -> cl_exprs es -> cl_cond (ECmp op l (ETuple es)).
Proof. intros Hop Hl (Hne & Hh & Hp). ugoal; rewrite sh_cmp, sh_tuple. split; [apply hd_ge_app; eapply hd_ge_mono; [apply Hl|lia]|]. intros n R Hn HR.
  rewrite !app_length in Hn. simpl in Hn. rewrite app_length in Hn. simpl in Hn. rewrite <- app_assoc. rewrite d_cond by apply Hl.
  assert (Hk : forall R', (List.length es <= S (len (commas (map pe es) ++ R')))%nat).
  { intros R'. pose proof (commas_len (map pe es)). rewrite map_length, app_length in *. lia. }
  destruct op; try contradiction; simpl in Hn; cbn [cmp_str app str_InStr str_NotInStr];
  (rewrite (full_add l Hl) by (try lia; simpl; lia)); cbn [obind]; unfold cond_rest; cbn [obind]; norm;
  rewrite d_in_rhs by apply Hh; rewrite Hp by (simpl; auto; lia); reflexivity. Qed.

Lemma case_ic_insub op l s : cmp_in op -> cl_add l -> cl_select s -> cl_cond (ECmp op l (ESubquery s)).
Proof. intros Hop Hl Hs. ugoal; rewrite sh_cmp, sh_subquery. split; [apply hd_ge_app; eapply hd_ge_mono; [apply Hl|lia]|]. intros n R Hn HR.
  rewrite !app_length in Hn. simpl in Hn. rewrite app_length in Hn. simpl in Hn. rewrite <- app_assoc. rewrite d_cond by apply Hl.
  destruct op; try contradiction; simpl in Hn; cbn [cmp_str app str_InStr str_NotInStr];
  (rewrite (full_add l Hl) by (try lia; simpl; lia)); cbn [obind]; unfold cond_rest; cbn [obind]; norm;
  rewrite d_in_rhs_sub by apply ps_head; rewrite entry_select by (simpl; auto; lia); reflexivity. Qed.

Lemma case_ii_step op e : cl_is e -> cl_is (EIs op e).
Proof. intros (Hh & Hp). ugoal; rewrite sh_is. split; [apply hd_ge_app; auto|]. intros n R Hn HR.
  rewrite app_length in Hn. apply lst_step with (l := e).
  - apply Hp. lia. destruct op; simpl; lia.
  - intros k. destruct op; reflexivity.
  - destruct op; simpl; lia. Qed.
Lemma case_ii_base e : cl_cond e -> cl_is e.
Proof. intros (Hh & Hp). split; auto. intros. apply lst_base. apply Hp; auto. Qed.

Lemma case_in_step e : cl_not e -> cl_not (ENot e).
Proof. intros (Hh & Hp). ugoal; rewrite sh_not. split; [simpl; lia|]. intros n R Hn HR. simpl in Hn.
  simpl. rewrite Hp; auto. lia. Qed.
Lemma case_in_base e : cl_is e -> cl_not e.
Proof. intros H. pose proof H as (Hh & _). split; [eapply hd_ge_mono; eauto|]. intros n R Hn HR.
  rewrite d_not by auto. apply full_is; auto. Qed.

Lemma case_ian_step l r : cl_and l -> cl_not r -> cl_and (EAnd l r).
Proof. intros (Hh & Hl) (_ & Hr). ugoal; rewrite sh_and. split; [apply hd_ge_app; auto|]. intros n R Hn HR.
  rewrite app_length in Hn. simpl in Hn. apply lst_step with (l := l).
  - apply Hl. lia. simpl; lia.
  - intros k. eapply chain_step_eq; [reflexivity|apply Hr; [lia|eapply fol_mono; eauto]].
  - simpl; lia. Qed.
Lemma case_ian_base e : cl_not e -> cl_and e.
Proof. intros (Hh & Hp). split; auto. intros. apply lst_base. apply Hp; auto. eapply fol_mono; eauto. Qed.
Lemma case_ior_step l r : cl_or l -> cl_and r -> cl_or (EOr l r).
Proof. intros (Hh & Hl) Hr. ugoal; rewrite sh_or. split; [apply hd_ge_app; auto|]. intros n R Hn HR.
  rewrite app_length in Hn. simpl in Hn. apply lst_step with (l := l).
  - apply Hl. lia. simpl; lia.
  - intros k. eapply chain_step_eq; [reflexivity|apply (full_and r Hr); [lia|auto]].
  - simpl; lia. Qed.
Lemma case_ior_base e : cl_and e -> cl_or e.
Proof. intros H. split; [apply H|]. intros. apply lst_base. apply (full_and e H); auto. Qed.

(* ---------------------------------------------------------------- clause level *)
(* what may follow a clause: a later clause keyword, ')' or the end *)
Definition ckw (t : token) : nat :=
  match t with
  | TK K_where => 1 | TK K_group => 2 | TK K_having => 3 | TK K_trigger => 4 | TK K_order => 5 | TK K_limit => 6 | TK P_rparen => 7 | _ => 0
  end%nat.
Definition clf (i : nat) (X : list token) : Prop := match X with [] => True | t :: _ => (i <= ckw t)%nat end.
Lemma clf_mono i j X : clf i X -> (j <= i)%nat -> clf j X. Proof. destruct X; simpl; [tauto|lia]. Qed.
Lemma sfol_clf R : sfol R -> clf 7 R. Proof. intros H. tokcases R H; simpl; try exact I; lia. Qed.
Lemma clf_fol X : clf 1 X -> fol 1 X. Proof. intros H. tokcases X H; simpl; try exact I; lia. Qed.
Lemma clf_nc X : clf 1 X -> not_comma X. Proof. intros H. tokcases X H; simpl; exact I. Qed.
Lemma clf_app i A X : (A = [] \/ clf i A /\ A <> []) -> clf i X -> clf i (A ++ X).
Proof. intros [->|[H Hne]] HX; simpl; auto. destruct A; [contradiction|exact H]. Qed.
Lemma clf_pwhere w X : clf 2 X -> clf 1 (pwhere w ++ X).
Proof. intros H. destruct w; simpl. lia. (eapply clf_mono; [eassumption|lia]). Qed.
Lemma clf_kwlist i k1 ks l X : clf (S i) X -> (i <= ckw k1)%nat -> clf i (kw_list (k1 :: ks) l ++ X).
Proof. intros H Hk. destruct l; unfold kw_list; simpl. (eapply clf_mono; [eassumption|lia]). exact Hk. Qed.
Lemma clf_phaving w X : clf 4 X -> clf 3 (phaving w ++ X).
Proof. intros H. destruct w; simpl. lia. (eapply clf_mono; [eassumption|lia]). Qed.
Lemma clf_plimit lim X : clf 7 X -> clf 6 (plimit lim ++ X).
Proof. intros H. destruct lim as [[[o|] rc]|]; simpl; try lia. (eapply clf_mono; [eassumption|lia]). Qed.

Definition cl_oexpr (w : option expr) := match w with None => True | Some e => cl_or e end.
Definition cl_exprs0 (l : list expr) := l = [] \/ cl_exprs l.
Definition cl_olimit (lim : option limit) :=
  match lim with None => True | Some (Limit None rc) => cl_or rc | Some (Limit (Some o) rc) => cl_or o /\ cl_or rc end.
Definition selfol (R : list token) : Prop := match R with TK P_comma :: _ | TK K_from :: _ => True | _ => False end.
Definition shd (X : list token) : Prop := match X with [] => False | TK K_distinct :: _ => False | _ => True end.
Lemma shd_app X Y : shd X -> shd (X ++ Y). Proof. destruct X as [|[[]| | | | | | | | | | ] ?]; simpl; tauto. Qed.
Lemma hd_shd X : hd_ge 1 X -> shd X. Proof. intros H. tokcases X H; exact I. Qed.
Definition cl_sel x := shd (psel x) /\ forall n R, (len (psel x) < n)%nat -> selfol R -> sel_item (PA n) (psel x ++ R) = Ok (x, R).
Definition cl_sels xs := xs <> [] /\ shd (commas (map psel xs)) /\
  forall n R k, (len (commas (map psel xs)) < n)%nat -> (List.length xs <= S k)%nat -> (exists r, R = TK K_from :: r) ->
    sep_list (sel_item (PA n)) k (commas (map psel xs) ++ R) = Ok (xs, R).
Definition cl_trigger x := forall n R, (len (ptr x) < n)%nat -> fol 1 R -> trigger_ (PA n) (ptr x ++ R) = Ok (x, R).
Definition cl_triggers xs := xs <> [] /\
  forall n R k, (len (commas (map ptr xs)) < n)%nat -> (List.length xs <= S k)%nat -> clf 1 R ->
    sep_list (trigger_ (PA n)) k (commas (map ptr xs) ++ R) = Ok (xs, R).
Definition cl_triggers0 xs := xs = [] \/ cl_triggers xs.
Definition ofol (R : list token) : Prop := match R with TK P_comma :: _ => True | _ => clf 1 R end.
Definition cl_order x := forall n R, (len (pord x) < n)%nat -> ofol R -> order_ (PA n) (pord x ++ R) = Ok (x, R).
Definition cl_orders xs := xs <> [] /\
  forall n R k, (len (commas (map pord xs)) < n)%nat -> (List.length xs <= S k)%nat -> clf 1 R ->
    sep_list (order_ (PA n)) k (commas (map pord xs) ++ R) = Ok (xs, R).
Definition cl_orders0 xs := xs = [] \/ cl_orders xs.

Lemma d_sel_item P X R : hd_ge 1 X ->
  sel_item P (X ++ R) = obind (p_expr P (X ++ R)) (fun p => let '(e, r) := p in
      match r with
      | TK P_dot :: TK P_star :: r' => match e with ECol [] t => Ok (SQualStar t, r') | _ => Err E_syntax end
      | TK P_explode :: r' => if is_ve e then Ok (SExplode e, r') else Err E_syntax
      | TK K_as :: TId a :: r' => Ok (SExpr e a, r')
      | TId a :: r' => Ok (SExpr e a, r')
      | _ => Ok (SExpr e [], r)
      end).
Proof. intros H. tokcases X H. Qed.

Lemma case_isl_star : cl_sel SStar.
Proof. unfold cl_sel. rewrite sh_star. split; [exact I|]. intros; reflexivity. Qed.
Lemma case_isl_qual z t : cl_sel (SQualStar (z :: t)).
Proof. unfold cl_sel. rewrite sh_qualstar. split; [exact I|]. intros n R Hn HR. simpl in Hn. do 4 (destruct n; [lia|]). reflexivity. Qed.
Lemma case_isl_expr e a : cl_or e -> cl_sel (SExpr e a).
Proof. intros H. unfold cl_sel. destruct a as [|z a]; [rewrite sh_sexpr0|rewrite sh_sexpr1]; (split; [try apply shd_app; apply hd_shd, H|]); intros n R Hn HR.
  - rewrite d_sel_item by apply H. rewrite entry_expr; auto. simpl. tokcases R HR. tokcases R HR; simpl; lia.
  - rewrite app_length in Hn. simpl in Hn. rewrite <- app_assoc. rewrite d_sel_item by apply H. rewrite entry_expr; auto. lia. simpl; lia. Qed.
Lemma case_isl_explode e : cl_or e -> is_ve e = true -> cl_sel (SExplode e).
Proof. intros H Hv. unfold cl_sel. rewrite sh_explode. split; [apply shd_app, hd_shd, H|]. intros n R Hn HR. rewrite app_length in Hn. simpl in Hn.
  rewrite <- app_assoc. rewrite d_sel_item by apply H. rewrite entry_expr; auto. simpl. rewrite Hv. reflexivity. lia. simpl; lia. Qed.

Lemma case_iss_one x : cl_sel x -> cl_sels [x].
Proof. intros (Hh & H). split; [discriminate|]. split; [exact Hh|]. intros n R k Hn Hk [r ->]. simpl map in *. rewrite commas_one in *.
  apply sep_one. apply H; simpl; auto. simpl; exact I. Qed.
Lemma case_iss_cons x xs : cl_sel x -> cl_sels xs -> cl_sels (x :: xs).
Proof. intros (Hh & H) (Hne & _ & Hxs). destruct xs as [|x' xs']; [contradiction|]. split; [discriminate|].
  split. { simpl map. rewrite commas_cons2. apply shd_app; auto. }
  intros n R k Hn Hk HR. simpl map in *. rewrite commas_cons2 in *. rewrite app_length in Hn. simpl in Hn.
  destruct k; [simpl in Hk; lia|]. rewrite <- app_assoc. cbn [app].
  apply sep_cons. apply H; simpl; auto. lia. apply Hxs; auto. lia. simpl in *; lia. Qed.

Lemma case_itg_counting e : cl_or e -> cl_trigger (TrCounting e).
Proof. intros H. unfold cl_trigger. rewrite sh_counting. intros n R Hn HR. simpl in Hn. simpl. rewrite entry_expr; auto. lia. Qed.
Lemma case_itg_watermark : cl_trigger TrWatermark. Proof. unfold cl_trigger. rewrite sh_watermark. intros; reflexivity. Qed.
Lemma case_itg_eos : cl_trigger TrEndOfStream. Proof. unfold cl_trigger. rewrite sh_eos. intros; reflexivity. Qed.
Lemma case_itg_delay e : cl_or e -> cl_trigger (TrDelay e).
Proof. intros H. unfold cl_trigger. rewrite sh_delay. intros n R Hn HR. simpl in Hn. simpl. rewrite entry_expr; auto. lia. Qed.
Lemma case_itgs_one x : cl_trigger x -> cl_triggers [x].
Proof. intros H. split; [discriminate|]. intros n R k Hn Hk HR. simpl map in *. rewrite commas_one in *.
  apply sep_one. apply H; auto. apply clf_fol; auto. apply clf_nc; auto. Qed.
Lemma case_itgs_cons x xs : cl_trigger x -> cl_triggers xs -> cl_triggers (x :: xs).
Proof. intros H (Hne & Hxs). destruct xs as [|x' xs']; [contradiction|]. split; [discriminate|].
  intros n R k Hn Hk HR. simpl map in *. rewrite commas_cons2 in *. rewrite app_length in Hn. simpl in Hn.
  destruct k; [simpl in Hk; lia|]. rewrite <- app_assoc. cbn [app].
  apply sep_cons. apply H; [lia|simpl; lia]. apply Hxs; auto. lia. simpl in *; lia. Qed.

Lemma case_iord e d : cl_or e -> cl_order (Order e d).
Proof. intros H. unfold cl_order. rewrite sh_order. intros n R Hn HR.
  assert (HfR : fol 1 R) by (tokcases R HR; simpl; try exact I; lia).
  destruct (negb d && (is_null_lit e || is_rand e)) eqn:E.
  - destruct d; [discriminate|]. unfold order_. rewrite entry_expr; auto. simpl. tokcases R HR.
  - rewrite app_length in Hn. simpl in Hn. rewrite <- app_assoc. unfold order_. rewrite entry_expr; auto; try lia.
    destruct d; reflexivity. destruct d; simpl; lia. Qed.
Lemma case_ios_one x : cl_order x -> cl_orders [x].
Proof. intros H. split; [discriminate|]. intros n R k Hn Hk HR. simpl map in *. rewrite commas_one in *.
  apply sep_one. apply H; auto. unfold ofol. destruct R as [|[[]| | | | | | | | | | ] ?]; auto. apply clf_nc; auto. Qed.
Lemma case_ios_cons x xs : cl_order x -> cl_orders xs -> cl_orders (x :: xs).
Proof. intros H (Hne & Hxs). destruct xs as [|x' xs']; [contradiction|]. split; [discriminate|].
  intros n R k Hn Hk HR. simpl map in *. rewrite commas_cons2 in *. rewrite app_length in Hn. simpl in Hn.
  destruct k; [simpl in Hk; lia|]. rewrite <- app_assoc. cbn [app].
  apply sep_cons. apply H; simpl; auto. lia. apply Hxs; auto. lia. simpl in *; lia. Qed.

(* ---------------------------------------------------------------- table expressions *)
Definition thd (X : list token) : Prop := match X with TId _ :: _ | TK P_lparen :: _ => True | _ => False end.
Lemma thd_app X Y : thd X -> thd (X ++ Y). Proof. destruct X as [|[[]| | | | | | | | | | ] ?]; simpl; tauto. Qed.
(* after a table factor: no alias, no '.', no '(' *)
Definition tfc (t : token) : bool :=
  match t with
  | TK P_comma | TK P_rparen | TK K_where | TK K_group | TK K_having | TK K_trigger | TK K_order | TK K_limit
  | TK K_join | TK K_lookup | TK K_stream | TK K_left | TK K_right | TK K_outer | TK K_inner | TK K_cross | TK K_on => true
  | _ => false
  end.
Definition tffol (R : list token) : Prop := match R with [] => True | t :: _ => tfc t = true end.
(* after a table reference that may still be extended by a join: as above without ON *)
Definition jfol (R : list token) : Prop := match R with [] => True | t :: _ => tfc t = true /\ t <> TK K_on end.
(* after a complete table reference *)
Definition trfol (R : list token) : Prop := match R with [] => True | t :: _ => t = TK P_comma \/ (1 <= ckw t)%nat end.
Lemma jfol_tffol R : jfol R -> tffol R. Proof. destruct R; simpl; tauto. Qed.
Lemma tffol_fol R : tffol R -> fol 1 R. Proof. intros H. tokcases R H; simpl; try exact I; try lia; discriminate. Qed.
Lemma trfol_jfol R : trfol R -> jfol R.
Proof. destruct R as [|t R]; [intros; exact I|]. destruct t as [[]| | | | | | | | | | ]; simpl; intros [H|H]; try discriminate; try lia; split; try reflexivity; discriminate. Qed.
Lemma trfol_nojoin R : trfol R -> join_head R = None.
Proof. destruct R as [|t R]; [reflexivity|]. destruct t as [[]| | | | | | | | | | ]; simpl; intros [H|H]; try discriminate; try lia; reflexivity. Qed.
Lemma clf_trfol R : clf 1 R -> trfol R. Proof. destruct R; simpl; auto. Qed.
Lemma join_stop P k a R : join_head R = None -> join_loop P k a R = Ok (a, R).
Proof. intros H. destruct k; simpl; rewrite H; reflexivity. Qed.

Definition cl_tfactor t := thd (pt t) /\
  forall n R, (len (pt t) <= n)%nat -> tffol R -> tfactor_ (PA n) (pt t ++ R) = Ok (t, R).
Definition cl_tref t := thd (pt t) /\
  forall n R, (len (pt t) <= n)%nat -> jfol R -> lst (tfactor_ (PA n)) (join_loop (PA n)) (pt t) R t.
Definition cl_trefs ts := ts <> [] /\ thd (commas (map pt ts)) /\
  forall n R k, (len (commas (map pt ts)) < n)%nat -> (List.length ts <= S k)%nat -> clf 1 R ->
    sep_list (p_tref (PA n)) k (commas (map pt ts) ++ R) = Ok (ts, R).
Definition afol (R : list token) : Prop := match R with TK P_comma :: _ | TK P_rparen :: _ => True | _ => False end.
Definition ahd (X : list token) : Prop := match X with TId _ :: _ => True | _ => False end.
Definition cl_arg x := ahd (parg x) /\ forall n R, (len (parg x) < n)%nat -> afol R -> tvf_arg_ (PA n) (parg x ++ R) = Ok (x, R).
Definition cl_args xs := xs <> [] /\ ahd (commas (map parg xs)) /\
  forall n R k, (len (commas (map parg xs)) < n)%nat -> (List.length xs <= S k)%nat -> (exists r, R = TK P_rparen :: r) ->
    sep_list (tvf_arg_ (PA n)) k (commas (map parg xs) ++ R) = Ok (xs, R).
Definition cl_args0 xs := xs = [] \/ cl_args xs.

Lemma full_tref t : cl_tref t -> forall n R, (len (pt t) <= n)%nat -> trfol R -> tref_ (PA n) (pt t ++ R) = Ok (t, R).
Proof. intros (_ & H) n R Hn HR. unfold tref_. apply lst_finish. apply H; auto. apply trfol_jfol; auto.
  intros k. apply join_stop, trfol_nojoin; auto. Qed.
Lemma entry_tref t : cl_tref t -> forall n R, (len (pt t) < n)%nat -> trfol R -> p_tref (PA n) (pt t ++ R) = Ok (t, R).
Proof. intros H n R Hn HR. destruct n; [lia|]. apply (full_tref t H); auto. lia. Qed.
(* a table factor where a table reference is read, followed by ON (right side of an outer join) *)
Lemma entry_tref_factor t : cl_tfactor t -> forall n R, (len (pt t) < n)%nat -> p_tref (PA n) (pt t ++ TK K_on :: R) = Ok (t, TK K_on :: R).
Proof. intros (_ & H) n R Hn. destruct n; [lia|]. change (p_tref (PA (S n))) with (tref_ (PA n)). unfold tref_.
  rewrite H; [|lia|reflexivity]. simpl. reflexivity. Qed.

Section Dispatch3.
Variable P : parsers.
Lemma d_tfactor_sub X R : shead X ->
  tfactor_ P (TK P_lparen :: X ++ R) =
  obind (p_select P (X ++ R)) (fun p => let '(s, r1) := p in expect P_rparen r1 (fun r2 => alias_req r2 (fun a r3 => Ok (TSub s a, r3)))).
Proof. intros H. destruct X as [|[[]| | | | | | | | | | ] ?]; simpl in H; try contradiction; reflexivity. Qed.
Lemma d_tfactor_paren X R : thd X ->
  tfactor_ P (TK P_lparen :: X ++ R) =
  obind (sep_list (p_tref P) (List.length (X ++ R)) (X ++ R)) (fun p => let '(l, r1) := p in expect P_rparen r1 (fun r2 => Ok (TParen l, r2))).
Proof. intros H. destruct X as [|[[]| | | | | | | | | | ] ?]; simpl in H; try contradiction; reflexivity. Qed.
Lemma d_tfactor_func f X R : ahd X ->
  tfactor_ P (TId f :: TK P_lparen :: X ++ R) =
  obind (sep_list (tvf_arg_ P) (List.length (X ++ R)) (X ++ R)) (fun p => let '(args, r1) := p in
    expect P_rparen r1 (fun r2 => alias_req r2 (fun a r3 => Ok (TFunc f args a, r3)))).
Proof. intros H. destruct X as [|[[]| | | | | | | | | | ] ?]; simpl in H; try contradiction; reflexivity. Qed.
Lemma d_tvf_expr n X R : hd_ge 1 X ->
  tvf_arg_ P (TId n :: TK P_rarrow :: X ++ R) = obind (p_expr P (X ++ R)) (fun p => let '(e, r1) := p in Ok (AExpr n e, r1)).
Proof. intros H. tokcases X H. Qed.
End Dispatch3.

Lemma case_itf_name db z n a : cl_tfactor (TName db (z :: n) a).
Proof. split.
  - destruct db; [rewrite sh_tname0|rewrite sh_tname1]; exact I.
  - intros k R Hk HR. destruct db as [|y db]; [rewrite sh_tname0|rewrite sh_tname1]; destruct a as [|w a]; cbn [palias app]; try reflexivity;
    tokcases R HR; discriminate. Qed.
Lemma case_itf_sub s z a : cl_select s -> cl_tfactor (TSub s (z :: a)).
Proof. intros H. unfold cl_tfactor. rewrite sh_tsub. split; [exact I|]. intros n R Hn HR. simpl in Hn. rewrite app_length in Hn. simpl in Hn.
  norm. rewrite d_tfactor_sub by apply ps_head. rewrite entry_select; simpl; auto. lia. Qed.
Lemma case_itf_paren ts : cl_trefs ts -> cl_tfactor (TParen ts).
Proof. intros (Hne & Hh & Hp). unfold cl_tfactor. rewrite sh_tparen. split; [exact I|]. intros n R Hn HR. simpl in Hn. rewrite app_length in Hn. simpl in Hn.
  norm. rewrite d_tfactor_paren by auto. rewrite Hp; simpl; auto; try lia.
  pose proof (commas_len (map pt ts)). rewrite map_length, app_length in *. simpl. lia. Qed.
Lemma case_itf_func f args z a : cl_args0 args -> cl_tfactor (TFunc f args (z :: a)).
Proof. intros [->|(Hne & Hh & Hp)]; unfold cl_tfactor; rewrite sh_tfunc; (split; [exact I|]); intros n R Hn HR.
  - reflexivity.
  - simpl in Hn. rewrite app_length in Hn. simpl in Hn. norm. rewrite d_tfactor_func by auto. rewrite Hp; simpl; eauto; try lia.
    pose proof (commas_len (map parg args)). rewrite map_length, app_length in *. simpl. lia. Qed.

Lemma case_itr_base t : cl_tfactor t -> cl_tref t.
Proof. intros (Hh & Hp). split; auto. intros. apply lst_base. apply Hp; auto. apply jfol_tffol; auto. Qed.
Lemma case_itr_inner l s r on : inner_strategy s -> cl_tref l -> cl_tfactor r -> cl_oexpr on -> cl_tref (TJoin l s JInner r on).
Proof. intros Hs (Hh & Hl) (_ & Hr) Hon. unfold cl_tref. rewrite sh_tjoin. split; [apply thd_app; auto|]. intros n R Hn HR.
  rewrite !app_length in Hn. apply lst_step with (l := l).
  - apply Hl. lia. destruct s; try contradiction; simpl; split; (reflexivity || discriminate).
  - intros k.
    assert (Hf : tfactor_ (PA n) (pt r ++ pon on ++ R) = Ok (r, pon on ++ R)).
    { apply Hr. lia. destruct on; simpl. reflexivity. apply jfol_tffol; auto. }
    assert (Hloop : forall st rest, join_head rest = Some (st, JInner, pt r ++ pon on ++ R) ->
                    join_loop (PA n) (S k) l rest = join_loop (PA n) k (TJoin l st JInner r on) R).
    { intros st rest Hj. simpl. rewrite Hj, Hf. destruct on as [e|]; simpl.
      - simpl in Hon. rewrite entry_expr; auto. simpl in Hn. lia. apply tffol_fol, jfol_tffol; auto.
      - destruct R as [|[[]| | | | | | | | | | ] ?]; try reflexivity. destruct HR as [_ HR]. contradiction. }
    destruct s; try contradiction; rewrite <- !app_assoc; apply Hloop; reflexivity.
  - destruct s; try contradiction; simpl; lia. Qed.
Lemma case_itr_outer l k r e : k <> JInner -> cl_tref l -> cl_tfactor r -> cl_or e -> cl_tref (TJoin l SNone k r (Some e)).
Proof. intros Hk (Hh & Hl) Hr He. unfold cl_tref. rewrite sh_tjoin. split; [apply thd_app; auto|]. intros n R Hn HR.
  rewrite !app_length in Hn. simpl in Hn. apply lst_step with (l := l).
  - apply Hl. lia. destruct k; try contradiction; simpl; split; (reflexivity || discriminate).
  - intros k0.
    assert (Hloop : forall rest, join_head rest = Some (SNone, k, pt r ++ TK K_on :: pe e ++ R) ->
                    join_loop (PA n) (S k0) l rest = join_loop (PA n) k0 (TJoin l SNone k r (Some e)) R).
    { intros rest Hj. simpl. rewrite Hj. destruct k; try contradiction;
      (rewrite entry_tref_factor by (auto; lia)); simpl; (rewrite entry_expr by (auto; try lia; apply tffol_fol, jfol_tffol; auto)); reflexivity. }
    destruct k; try contradiction; rewrite <- !app_assoc; apply Hloop; reflexivity.
  - destruct k; try contradiction; simpl; lia. Qed.

Lemma case_its_one t : cl_tref t -> cl_trefs [t].
Proof. intros H. split; [discriminate|]. split; [apply H|]. intros n R k Hn Hk HR. simpl map in *. rewrite commas_one in *.
  apply sep_one. apply entry_tref; auto. apply clf_trfol; auto. apply clf_nc; auto. Qed.
Lemma case_its_cons t ts : cl_tref t -> cl_trefs ts -> cl_trefs (t :: ts).
Proof. intros H (Hne & Hh & Hts). destruct ts as [|t' ts']; [contradiction|]. split; [discriminate|].
  split. { simpl map. rewrite commas_cons2. apply thd_app, H. }
  intros n R k Hn Hk HR. simpl map in *. rewrite commas_cons2 in *. rewrite app_length in Hn. simpl in Hn.
  destruct k; [simpl in Hk; lia|]. rewrite <- app_assoc. cbn [app].
  apply sep_cons. apply entry_tref; auto. lia. simpl; auto. apply Hts; auto. lia. simpl in *; lia. Qed.

Lemma case_iar_expr n e : cl_or e -> cl_arg (AExpr n e).
Proof. intros H. unfold cl_arg. rewrite sh_aexpr. split; [exact I|]. intros k R Hk HR. simpl in Hk. norm.
  rewrite d_tvf_expr by apply H. rewrite entry_expr; auto. lia. tokcases R HR; simpl; lia. Qed.
Lemma case_iar_table n t : cl_tref t -> cl_arg (ATable n t).
Proof. intros H. unfold cl_arg. rewrite sh_atable. split; [exact I|]. intros k R Hk HR. simpl in Hk. rewrite app_length in Hk. simpl in Hk. norm.
  simpl. rewrite entry_tref; auto. lia. simpl. right; lia. Qed.
Lemma case_iar_desc n t c : cl_arg (ADescriptor n t c).
Proof. unfold cl_arg. destruct t; [rewrite sh_adesc0|rewrite sh_adesc1]; (split; [exact I|]); intros; reflexivity. Qed.
Lemma case_ias_one x : cl_arg x -> cl_args [x].
Proof. intros (Hh & H). split; [discriminate|]. split; [exact Hh|]. intros n R k Hn Hk [r ->]. simpl map in *. rewrite commas_one in *.
  apply sep_one. apply H; simpl; auto. exact I. Qed.
Lemma ahd_app X Y : ahd X -> ahd (X ++ Y). Proof. destruct X as [|[[]| | | | | | | | | | ] ?]; simpl; tauto. Qed.
Lemma case_ias_cons x xs : cl_arg x -> cl_args xs -> cl_args (x :: xs).
Proof. intros (Hh & H) (Hne & _ & Hxs). destruct xs as [|x' xs']; [contradiction|]. split; [discriminate|].
  split. { simpl map. rewrite commas_cons2. apply ahd_app; auto. }
  intros n R k Hn Hk HR. simpl map in *. rewrite commas_cons2 in *. rewrite app_length in Hn. simpl in Hn.
  destruct k; [simpl in Hk; lia|]. rewrite <- app_assoc. cbn [app].
  apply sep_cons. apply H; simpl; auto. lia. apply Hxs; auto. lia. simpl in *; lia. Qed.

(* ---------------------------------------------------------------- the SELECT statement *)
Lemma klen {A} (f : A -> list token) (l : list A) R : (List.length l <= S (len (commas (map f l) ++ R)))%nat.
Proof. pose proof (commas_len (map f l)). rewrite map_length, app_length in *. lia. Qed.

Lemma from_ok from n X : cl_trefs from -> (len (commas (map pt from)) < n)%nat -> clf 1 X ->
  from_opt (PA n) (TK K_from :: commas (map pt from) ++ X) = Ok (from, X).
Proof. intros (_ & _ & H) Hn HX. simpl. apply H; auto. apply klen. Qed.
Lemma where_ok w n X : cl_oexpr w -> (len (pwhere w) <= n)%nat -> clf 2 X -> where_opt (PA n) (pwhere w ++ X) = Ok (w, X).
Proof. intros H Hn HX. destruct w as [e|]; simpl in *.
  - rewrite entry_expr; auto. apply clf_fol. (eapply clf_mono; [eassumption|lia]).
  - tokcases X HX. Qed.
Lemma groupby_ok gb n X : cl_exprs0 gb -> (len (kw_list [TK K_group; TK K_by] (map pe gb)) <= n)%nat -> clf 3 X ->
  groupby_opt (PA n) (kw_list [TK K_group; TK K_by] (map pe gb) ++ X) = Ok (gb, X).
Proof. intros [->|(Hne & _ & H)] Hn HX.
  - simpl. tokcases X HX.
  - destruct gb as [|g gb]; [contradiction|]. unfold kw_list in *. simpl map in *. cbn [app] in *. simpl in Hn.
    simpl. apply H. lia. apply klen with (f := pe) (l := g :: gb). apply clf_nc. (eapply clf_mono; [eassumption|lia]). apply clf_fol. (eapply clf_mono; [eassumption|lia]). Qed.
Lemma having_ok w n X : cl_oexpr w -> (len (phaving w) <= n)%nat -> clf 4 X -> having_opt (PA n) (phaving w ++ X) = Ok (w, X).
Proof. intros H Hn HX. destruct w as [e|]; simpl in *.
  - rewrite entry_expr; auto. apply clf_fol. (eapply clf_mono; [eassumption|lia]).
  - tokcases X HX. Qed.
Lemma triggers_ok trs n X : cl_triggers0 trs -> (len (kw_list [TK K_trigger] (map ptr trs)) <= n)%nat -> clf 5 X ->
  triggers_opt (PA n) (kw_list [TK K_trigger] (map ptr trs) ++ X) = Ok (trs, X).
Proof. intros [->|(Hne & H)] Hn HX.
  - simpl. tokcases X HX.
  - destruct trs as [|g trs]; [contradiction|]. unfold kw_list in *. simpl map in *. cbn [app] in *. simpl in Hn.
    simpl. apply H. lia. apply klen with (f := ptr) (l := g :: trs). (eapply clf_mono; [eassumption|lia]). Qed.
Lemma orderby_ok ob n X : cl_orders0 ob -> (len (kw_list [TK K_order; TK K_by] (map pord ob)) <= n)%nat -> clf 6 X ->
  orderby_opt (PA n) (kw_list [TK K_order; TK K_by] (map pord ob) ++ X) = Ok (ob, X).
Proof. intros [->|(Hne & H)] Hn HX.
  - simpl. tokcases X HX.
  - destruct ob as [|g ob]; [contradiction|]. unfold kw_list in *. simpl map in *. cbn [app] in *. simpl in Hn.
    simpl. apply H. lia. apply klen with (f := pord) (l := g :: ob). (eapply clf_mono; [eassumption|lia]). Qed.
Lemma limit_ok lim n X : cl_olimit lim -> (len (plimit lim) <= n)%nat -> clf 7 X -> limit_opt (PA n) (plimit lim ++ X) = Ok (lim, X).
Proof. intros H Hn HX. assert (HfX : fol 1 X) by (apply clf_fol; (eapply clf_mono; [eassumption|lia])).
  destruct lim as [[[o|] rc]|]; simpl in *.
  - destruct H as [Ho Hrc]. rewrite app_length in Hn. simpl in Hn. rewrite <- app_assoc. cbn [app].
    rewrite entry_expr; auto; try lia. simpl. rewrite entry_expr; auto. lia. simpl; lia.
  - rewrite entry_expr; auto. simpl. tokcases X HX.
  - tokcases X HX. Qed.

Lemma case_isel d items from w gb hv trs ob lim :
  cl_sels items -> cl_trefs from -> cl_oexpr w -> cl_exprs0 gb -> cl_oexpr hv -> cl_triggers0 trs -> cl_orders0 ob -> cl_olimit lim ->
  cl_select (Select d items from w gb hv trs ob lim).
Proof.
  intros (Hine & Hih & Hitems) Hfrom Hw Hgb Hhv Htrs Hob Hlim. unfold cl_select. rewrite sh_select. intros n R Hn HR.
  simpl in Hn. rewrite !app_length in Hn. simpl in Hn. rewrite !app_length in Hn.
  set (X5 := plimit lim ++ R). set (X4 := kw_list [TK K_order; TK K_by] (map pord ob) ++ X5).
  set (X3 := kw_list [TK K_trigger] (map ptr trs) ++ X4). set (X3' := phaving hv ++ X3).
  set (X2 := kw_list [TK K_group; TK K_by] (map pe gb) ++ X3').
  set (X1 := pwhere w ++ X2).
  assert (C5 : clf 6 X5) by (apply clf_plimit, sfol_clf; auto).
  assert (C4 : clf 5 X4) by (apply clf_kwlist; [exact C5|simpl; lia]).
  assert (C3 : clf 4 X3) by (apply clf_kwlist; [exact C4|simpl; lia]).
  assert (C3' : clf 3 X3') by (apply clf_phaving; exact C3).
  assert (C2 : clf 2 X2) by (apply clf_kwlist; [exact C3'|simpl; lia]).
  assert (C1 : clf 1 X1) by (apply clf_pwhere; exact C2).
  assert (E : (TK K_select :: (if d then [TK K_distinct] else []) ++ commas (map psel items) ++ TK K_from :: commas (map pt from) ++
               pwhere w ++ kw_list [TK K_group; TK K_by] (map pe gb) ++ phaving hv ++ kw_list [TK K_trigger] (map ptr trs) ++
               kw_list [TK K_order; TK K_by] (map pord ob) ++ plimit lim) ++ R
              = TK K_select :: (if d then [TK K_distinct] else []) ++ commas (map psel items) ++ (TK K_from :: commas (map pt from) ++ X1)).
  { unfold X1, X2, X3', X3, X4, X5. cbn [app]. rewrite <- !app_assoc. cbn [app]. rewrite <- !app_assoc. reflexivity. }
  rewrite E. clear E.
  assert (Hd : distinct_opt ((if d then [TK K_distinct] else []) ++ commas (map psel items) ++ (TK K_from :: commas (map pt from) ++ X1))
               = (d, commas (map psel items) ++ (TK K_from :: commas (map pt from) ++ X1))).
  { destruct d; [reflexivity|]. cbn [app]. set (Y := TK K_from :: _). clearbody Y.
    destruct (commas (map psel items)) as [|[[]| | | | | | | | | | ] ?]; simpl in Hih; try contradiction; reflexivity. }
  unfold select_. rewrite Hd.
  rewrite Hitems; [|destruct d; simpl in Hn; lia|apply klen|eauto]. cbn [obind].
  rewrite from_ok; auto; [|destruct d; simpl in Hn; lia]. cbn [obind].
  unfold X1. rewrite where_ok; auto; [|destruct d; simpl in Hn; lia]. cbn [obind].
  unfold X2. rewrite groupby_ok; auto; [|destruct d; simpl in Hn; lia]. cbn [obind].
  unfold X3'. rewrite having_ok; auto; [|destruct d; simpl in Hn; lia]. cbn [obind].
  unfold X3. rewrite triggers_ok; auto; [|destruct d; simpl in Hn; lia]. cbn [obind].
  unfold X4. rewrite orderby_ok; auto; [|destruct d; simpl in Hn; lia]. cbn [obind].
  unfold X5. rewrite limit_ok; [reflexivity|auto|destruct d; simpl in Hn; lia|apply sfol_clf; auto].
Qed.


(* ---------------------------------------------------------------- constructs added in the deepening round *)
Lemma case_ipf_index e i : cl_postfix e -> cl_add i -> cl_postfix (EIndex e i).
Proof. intros (Hh & Hs & Hp) Hi. unfold cl_postfix. rewrite sh_index. split; [apply hd_ge_app; auto|]. split; [exact Hs|]. intros n R Hn HR.
  rewrite app_length in Hn. simpl in Hn. rewrite app_length in Hn. simpl in Hn. apply lst_step with (l := e).
  - apply Hp. lia. simpl; lia.
  - intros k. cbn [app]. rewrite <- app_assoc. cbn [app]. simpl. rewrite entry_add; [|exact Hi|lia|simpl; lia]. simpl. reflexivity.
  - simpl; lia. Qed.

Lemma case_ic_between neg l f t : cl_add l -> cl_add f -> cl_add t -> cl_cond (ERange neg l f t).
Proof. intros Hl Hf Ht. unfold cl_cond. rewrite sh_range. split; [apply hd_ge_app; eapply hd_ge_mono; [apply Hl|lia]|]. intros n R Hn HR.
  rewrite !app_length in Hn. simpl in Hn. rewrite <- app_assoc. rewrite d_cond by apply Hl.
  destruct neg; simpl in Hn; cbn [app]; (rewrite (full_add l Hl) by (try lia; simpl; lia)); cbn [obind]; unfold cond_rest, between_;
  rewrite <- !app_assoc; cbn [app]; (rewrite (full_add f Hf) by (try lia; simpl; lia)); simpl;
  (rewrite (full_add t Ht) by (try lia; eapply fol_mono; eauto)); reflexivity. Qed.

Lemma d_cond_exists P X R : shead X ->
  cond_ P (TK K_exists :: TK P_lparen :: X ++ R) =
  obind (p_select P (X ++ R)) (fun p => let '(s, r1) := p in expect P_rparen r1 (fun r2 => Ok (EExists s, r2))).
Proof. intros H. destruct X as [|[[]| | | | | | | | | | ] ?]; simpl in H; try contradiction; reflexivity. Qed.
Lemma case_ic_exists s : cl_select s -> cl_cond (EExists s).
Proof. intros H. unfold cl_cond. rewrite sh_exists. split; [simpl; lia|]. intros n R Hn HR. simpl in Hn. rewrite app_length in Hn. simpl in Hn.
  norm. rewrite d_cond_exists by apply ps_head. rewrite entry_select; simpl; auto. lia. Qed.

(* WITH *)
Definition cl_cte c := forall n R, (len (pcte c) < n)%nat -> cte_ (PA n) (pcte c ++ R) = Ok (c, R).
Definition cl_ctes cs := cs <> [] /\
  forall n R k, (len (commas (map pcte cs)) < n)%nat -> (List.length cs <= S k)%nat -> shead R ->
    ctes_ (PA n) k (commas (map pcte cs) ++ R) = Ok (cs, R).
Lemma case_icte n s : cl_select s -> cl_cte (Cte n s).
Proof. intros H. unfold cl_cte. rewrite sh_cte. intros k R Hk. simpl in Hk. rewrite app_length in Hk. simpl in Hk.
  norm. simpl. rewrite entry_select; simpl; auto. lia. Qed.
Lemma case_ict_one c : cl_cte c -> cl_ctes [c].
Proof. intros H. split; [discriminate|]. intros n R k Hn Hk HR. simpl map in *. rewrite commas_one in *.
  destruct k; simpl; rewrite H by auto; simpl; destruct R as [|[[]| | | | | | | | | | ] ?]; simpl in HR; try contradiction; reflexivity. Qed.
Lemma case_ict_cons c cs : cl_cte c -> cl_ctes cs -> cl_ctes (c :: cs).
Proof. intros H (Hne & Hcs). destruct cs as [|c' cs']; [contradiction|]. split; [discriminate|].
  intros n R k Hn Hk HR. simpl map in *. rewrite commas_cons2 in *. rewrite app_length in Hn. simpl in Hn.
  destruct k; [simpl in Hk; lia|]. rewrite <- app_assoc. cbn [app].
  assert (Hrest : ctes_ (PA n) k (commas (pcte c' :: map pcte cs') ++ R) = Ok (c' :: cs', R)) by (apply Hcs; auto; [lia|simpl in *; lia]).
  simpl ctes_. rewrite H by lia. cbn [obind].
  destruct c' as [n' s'].
  assert (E : exists tl, commas (pcte (Cte n' s') :: map pcte cs') ++ R = TId n' :: tl).
  { destruct (map pcte cs'); [rewrite commas_one|rewrite commas_cons2]; rewrite sh_cte; cbn [app]; eexists; reflexivity. }
  destruct E as [tl E]. rewrite E in *. cbn [obind]. rewrite Hrest. reflexivity. Qed.
Lemma case_iwith ctes body : cl_ctes ctes -> cl_select body -> cl_select (With ctes body).
Proof. intros (Hne & Hc) Hb. unfold cl_select. rewrite sh_with. intros n R Hn HR. simpl in Hn. rewrite app_length in Hn.
  cbn [app]. rewrite <- app_assoc. simpl select_. rewrite Hc; [|lia|apply klen|apply shead_app, ps_head]. cbn [obind].
  rewrite entry_select; auto. lia. Qed.

(* CASE *)
Arguments pwhen : simpl never.
Definition wfol (R : list token) : Prop := match R with TK K_else :: _ | TK K_end :: _ => True | _ => False end.
Definition cl_whens ws := ws <> [] /\
  forall n R k, (len (List.concat (map pwhen ws)) < n)%nat -> (List.length ws <= S k)%nat -> wfol R ->
    whens_ (PA n) k (List.concat (map pwhen ws) ++ R) = Ok (ws, R).
Lemma when_step n c v k R' : cl_or c -> cl_or v -> (len (pe c) < n)%nat -> (len (pe v) < n)%nat -> fol 1 R' ->
  whens_ (PA n) k (pwhen (c, v) ++ R') =
  match R' with
  | TK K_when :: _ => match k with O => Err E_fuel | S k' => obind (whens_ (PA n) k' R') (fun p => let '(ws, r4) := p in Ok ((c, v) :: ws, r4)) end
  | _ => Ok ([(c, v)], R')
  end.
Proof. intros Hc Hv Hn1 Hn2 HR. unfold pwhen. cbn [fst snd app]. rewrite <- app_assoc. cbn [app].
  destruct k; simpl; (rewrite entry_expr by (auto; simpl; lia)); simpl; (rewrite entry_expr by auto); reflexivity. Qed.
Lemma case_iw_one c v : cl_or c -> cl_or v -> cl_whens [(c, v)].
Proof. intros Hc Hv. split; [discriminate|]. intros n R k Hn Hk HR. simpl List.concat in *. rewrite app_nil_r in *.
  unfold pwhen in Hn. cbn [fst snd] in Hn. simpl in Hn. rewrite app_length in Hn. simpl in Hn.
  assert (HfR : fol 1 R) by (destruct R as [|[[]| | | | | | | | | | ] ?]; simpl in HR; try contradiction; simpl; lia).
  change ((TK K_when :: pe c ++ TK K_then :: pe v) ++ R) with (pwhen (c, v) ++ R).
  rewrite when_step; auto; try lia. destruct R as [|[[]| | | | | | | | | | ] ?]; simpl in HR; try contradiction; reflexivity. Qed.
Lemma pwhen_len c v : len (pwhen (c, v)) = S (len (pe c) + S (len (pe v))).
Proof. unfold pwhen. simpl. rewrite app_length. reflexivity. Qed.
Lemma case_iw_cons c v ws : cl_or c -> cl_or v -> cl_whens ws -> cl_whens ((c, v) :: ws).
Proof. intros Hc Hv (Hne & Hws). split; [discriminate|]. intros n R k Hn Hk HR.
  change (List.concat (map pwhen ((c, v) :: ws))) with (pwhen (c, v) ++ List.concat (map pwhen ws)) in *.
  rewrite app_length, pwhen_len in Hn. rewrite <- app_assoc.
  destruct ws as [|[c' v'] ws']; [contradiction|].
  rewrite when_step; auto; try lia.
  - change (List.concat (map pwhen ((c', v') :: ws'))) with (pwhen (c', v') ++ List.concat (map pwhen ws')) at 1.
    unfold pwhen at 1. cbn [app].
    destruct k; [simpl in Hk; lia|].
    change (TK K_when :: (pe (fst (c', v')) ++ TK K_then :: pe (snd (c', v'))) ++ List.concat (map pwhen ws')) with (List.concat (map pwhen ((c', v') :: ws'))).
    rewrite Hws; auto. lia. simpl in *; lia.
  - change (List.concat (map pwhen ((c', v') :: ws'))) with (pwhen (c', v') ++ List.concat (map pwhen ws')). unfold pwhen. simpl. lia.
Qed.

Lemma d_case_some P X R : hd_ge 1 X ->
  primary_ P (TK K_case :: X ++ R) =
  obind (obind (p_expr P (X ++ R)) (fun p => let '(x, r') := p in Ok (Some x, r'))) (fun p => let '(e, r1) := p in
    obind (whens_ P (List.length r1) r1) (fun q => let '(ws, r2) := q in
      match r2 with
      | TK K_else :: r3 => obind (p_expr P r3) (fun z => let '(x, r4) := z in expect K_end r4 (fun r5 => Ok (ECase e ws (Some x), r5)))
      | TK K_end :: r3 => Ok (ECase e ws None, r3)
      | _ => Err E_syntax
      end)).
Proof. intros H. tokcases X H. Qed.
Lemma d_case_none P Y :
  primary_ P (TK K_case :: TK K_when :: Y) =
    obind (whens_ P (List.length (TK K_when :: Y)) (TK K_when :: Y)) (fun q => let '(ws, r2) := q in
      match r2 with
      | TK K_else :: r3 => obind (p_expr P r3) (fun z => let '(x, r4) := z in expect K_end r4 (fun r5 => Ok (ECase None ws (Some x), r5)))
      | TK K_end :: r3 => Ok (ECase None ws None, r3)
      | _ => Err E_syntax
      end).
Proof. reflexivity. Qed.
Lemma wlen ws R : (List.length ws <= S (len (List.concat (map pwhen ws) ++ R)))%nat.
Proof. rewrite app_length. assert (H : (List.length ws <= len (List.concat (map pwhen ws)))%nat).
  { induction ws as [|[c v] ws IH]; [simpl; lia|].
    change (List.concat (map pwhen ((c, v) :: ws))) with (pwhen (c, v) ++ List.concat (map pwhen ws)).
    rewrite app_length, pwhen_len. simpl. lia. }
  lia. Qed.
Lemma case_ip_case e ws els : cl_oexpr e -> cl_whens ws -> cl_oexpr els -> cl_primary (ECase e ws els).
Proof. intros He (Hne & Hws) Hel. unfold cl_primary. rewrite sh_case. split; [simpl; lia|]. split; [reflexivity|]. intros n R Hn HR.
  simpl in Hn. rewrite !app_length in Hn.
  assert (Htail : forall k, k = List.length (List.concat (map pwhen ws) ++ popt K_else els ++ TK K_end :: R) ->
     obind (whens_ (PA n) k (List.concat (map pwhen ws) ++ popt K_else els ++ TK K_end :: R)) (fun q => let '(ws0, r2) := q in
      match r2 with
      | TK K_else :: r3 => obind (p_expr (PA n) r3) (fun z => let '(x, r4) := z in expect K_end r4 (fun r5 => Ok (ECase e ws0 (Some x), r5)))
      | TK K_end :: r3 => Ok (ECase e ws0 None, r3)
      | _ => Err E_syntax
      end) = Ok (ECase e ws els, R)).
  { intros k ->. rewrite Hws; [|destruct e; simpl in Hn; lia|apply wlen|destruct els; exact I]. cbn [obind].
    destruct els as [x|]; simpl in *.
    - rewrite entry_expr; auto. destruct e; simpl in Hn; lia. simpl; lia.
    - reflexivity. }
  assert (E : exists Y, List.concat (map pwhen ws) ++ popt K_else els ++ TK K_end :: R = TK K_when :: Y).
  { destruct ws as [|[c v] ws']; [contradiction|].
    change (List.concat (map pwhen ((c, v) :: ws'))) with (pwhen (c, v) ++ List.concat (map pwhen ws')). unfold pwhen. cbn [app]. eexists; reflexivity. }
  destruct e as [x|]; cbn [app]; rewrite <- ?app_assoc; cbn [app].
  - simpl in He. rewrite d_case_some by apply He. rewrite entry_expr; auto; [|simpl in Hn; lia|].
    cbn [obind]. apply Htail. reflexivity.
    destruct E as [Y ->]. simpl. lia.
  - destruct E as [Y E]. rewrite E. rewrite d_case_none. rewrite <- E. apply Htail. reflexivity. Qed.

(* ---------------------------------------------------------------- assembling the induction *)
Theorem image_claims :
  (forall a, im_primary a -> cl_primary a) /\ (forall l, im_whens l -> cl_whens l) /\ (forall a, im_postfix a -> cl_postfix a) /\ (forall a, im_unary a -> cl_unary a) /\
  (forall a, im_mul a -> cl_mul a) /\ (forall a, im_add a -> cl_add a) /\ (forall a, im_cond a -> cl_cond a) /\
  (forall a, im_is a -> cl_is a) /\ (forall a, im_not a -> cl_not a) /\ (forall a, im_and a -> cl_and a) /\
  (forall a, im_or a -> cl_or a) /\ (forall l, im_exprs l -> cl_exprs l) /\ (forall w, im_oexpr w -> cl_oexpr w) /\
  (forall l, im_exprs0 l -> cl_exprs0 l) /\ (forall s, im_select s -> cl_select s) /\ (forall c, im_cte c -> cl_cte c) /\ (forall l, im_ctes l -> cl_ctes l) /\ (forall l, im_olimit l -> cl_olimit l) /\
  (forall x, im_sel x -> cl_sel x) /\ (forall l, im_sels l -> cl_sels l) /\ (forall t, im_tfactor t -> cl_tfactor t) /\
  (forall t, im_tref t -> cl_tref t) /\ (forall l, im_trefs l -> cl_trefs l) /\ (forall x, im_arg x -> cl_arg x) /\
  (forall l, im_args l -> cl_args l) /\ (forall l, im_args0 l -> cl_args0 l) /\ (forall x, im_trigger x -> cl_trigger x) /\
  (forall l, im_triggers l -> cl_triggers l) /\ (forall l, im_triggers0 l -> cl_triggers0 l) /\ (forall x, im_order x -> cl_order x) /\
  (forall l, im_orders l -> cl_orders l) /\ (forall l, im_orders0 l -> cl_orders0 l).
Proof.
  apply im_mutind; intros;
  eauto using case_ip_lit, case_ip_paren, case_ip_tuple, case_ip_sub, case_ip_interval, case_ip_convert, case_ip_funcstar,
    case_ip_func0, case_ip_func, case_ip_col, case_ipf_field, case_ipf_base, case_iu_neg, case_iu_negint, case_iu_base,
    case_imu_step, case_imu_base, case_iad_step, case_iad_base, case_ic_cmp, case_ic_in, case_ic_insub, case_ic_base,
    case_ii_step, case_ii_base, case_in_step, case_in_base, case_ian_step, case_ian_base, case_ior_step, case_ior_base,
    case_ies_one, case_ies_cons, case_isel, case_isl_star, case_isl_qual, case_isl_expr, case_isl_explode, case_iss_one,
    case_iss_cons, case_itf_name, case_itf_sub, case_itf_paren, case_itf_func, case_itr_inner, case_itr_outer, case_itr_base,
    case_its_one, case_its_cons, case_iar_expr, case_iar_table, case_iar_desc, case_ias_one, case_ias_cons,
    case_itg_counting, case_itg_watermark, case_itg_eos, case_itg_delay, case_itgs_one, case_itgs_cons, case_iord,
    case_ios_one, case_ios_cons, case_ip_case, case_iw_one, case_iw_cons, case_ipf_index, case_ic_between, case_ic_exists,
    case_iwith, case_icte, case_ict_one, case_ict_cons;
  try (simpl; exact I); try (left; reflexivity); try (right; assumption); try (simpl; auto).
Qed.

Definition parser_image (s : select) : Prop := im_select s.

Theorem roundtrip : forall s, parser_image s -> parse (print s) = Ok s.
Proof.
  intros s H. destruct image_claims as (_ & _ & _ & _ & _ & _ & _ & _ & _ & _ & _ & _ & _ & _ & Hs & _).
  specialize (Hs s H). unfold parse, print.
  change (p_select (PA (S (List.length (ps s))))) with (select_ (PA (List.length (ps s)))).
  rewrite <- (app_nil_r (ps s)) at 2. rewrite Hs; auto. exact I.
Qed.

(* ---------------------------------------------------------------- witnesses *)
Ltac img := repeat first [exact I | reflexivity | discriminate
  | match goal with |- im_cond (ECmp ?op _ (ETuple _)) => match op with OIn => apply ic_in | ONotIn => apply ic_in end end
  | constructor].

Definition id_a : ident := [97]. Definition id_b : ident := [98]. Definition id_t : ident := [116]. Definition id_f : ident := [102].
Definition one : expr := ELit (LInt false [49]).
Definition sel_of (from : list table_expr) (trs : list trigger) : select := Select false [SStar] from None [] None trs [] None.

(* a statement using every extension is in the parser's image (the hypotheses of the theorem are satisfiable) *)
Definition example_stmt : select :=
  Select true
    [SExpr (EBin BPlus (ECol [] id_a) (EBin BMult (ENeg (EField (ECol id_t id_b) id_a)) (ELit (LInt true [49])))) id_b; SStar;
     SExplode (ECol [] id_a); SExpr (EConvert (ECol [] id_a) CTList) []]
    [TJoin (TName [] id_t []) SLookup JInner
       (TFunc id_f [AExpr id_a one; ATable id_b (TName [] id_t []); ADescriptor id_a id_t id_b] id_b)
       (Some (ECmp OEq (ECol [] id_a) (ECol [] id_b)));
     TJoin (TName [] id_a []) SNone JLeft (TSub (sel_of [TName [] id_t []] []) id_b) (Some (ELit LTrue))]
    (Some (EAnd (EIs IsNotNull (ECol [] id_a)) (ENot (ECmp ONotIn (ECol [] id_a) (ETuple [one])))))
    [ECol [] id_a] None
    [TrCounting (ELit (LInt false [51])); TrEndOfStream; TrDelay (EInterval one id_a); TrWatermark]
    [Order (ECol [] id_a) true; Order (ELit LNull) false] (Some (Limit (Some one) one)).
Lemma example_in_image : parser_image example_stmt. Proof. unfold parser_image, example_stmt, sel_of, one. img. Qed.
Lemma example_roundtrips : parse (print example_stmt) = Ok example_stmt. Proof. vm_compute. reflexivity. Qed.

Lemma pinned_drops_trigger :
  exists s, parser_image s /\ parse (print_select templates_pinned_select s) <> Ok s.
Proof. exists (sel_of [TName [] id_t []] [TrCounting one]). split. unfold parser_image, sel_of, one; img. vm_compute. discriminate. Qed.
Lemma pinned_drops_tvf_alias :
  exists s, parser_image s /\ parse (print_select templates_pinned_tvf s) <> Ok s.
Proof. exists (sel_of [TFunc id_f [AExpr id_a one] id_b] []). split. unfold parser_image, sel_of, one; img. vm_compute. discriminate. Qed.
Lemma pinned_drops_lookup :
  exists s, parser_image s /\ parse (print_select templates_pinned_join s) <> Ok s.
Proof. exists (sel_of [TJoin (TName [] id_a []) SLookup JInner (TName [] id_b []) (Some (ELit LTrue))] []). split.
  unfold parser_image, sel_of; img. vm_compute. discriminate. Qed.
Lemma pinned_eos_prints_watermark :
  exists s, parser_image s /\ parse (print_select templates_pinned_eos s) = Ok (sel_of [TName [] id_t []] [TrWatermark]) /\ s <> sel_of [TName [] id_t []] [TrWatermark].
Proof. exists (sel_of [TName [] id_t []] [TrEndOfStream]). split. unfold parser_image, sel_of; img. split. vm_compute. reflexivity. discriminate. Qed.
Lemma pinned_delay_unparsable :
  exists s, parser_image s /\ parse (print_select templates_pinned_delay s) = Err E_syntax.
Proof. exists (sel_of [TName [] id_t []] [TrDelay one]). split. unfold parser_image, sel_of, one; img. vm_compute. reflexivity. Qed.

(* a statement with the constructs of the deepening round: WITH (nested, several CTEs), HAVING, CASE, [NOT] BETWEEN, EXISTS,
   e[i], the regexp operators, hex / bit / bind-variable literals *)
Definition example_stmt2 : select :=
  With [Cte id_a (sel_of [TName [] id_t []] []); Cte id_b (With [Cte id_f (sel_of [TName [] id_a []] [])] (sel_of [TName [] id_f []] []))]
    (Select false
       [SExpr (ECase (Some (ECol [] id_a)) [(one, ELit (LHex [49; 102])); (ELit (LArg [58; 118; 49]), ELit (LBit [48; 49]))] (Some (ELit LNull))) id_b;
        SExpr (EIndex (EField (ECol [] id_a) id_b) (EBin BPlus one one)) [];
        SExpr (ECase None [(ECmp OLikeRe (ECol [] id_a) (ELit (LStr [94; 97])), one)] None) []]
       [TJoin (TName [] id_a []) SUndefined JInner (TName [] id_b []) None]
       (Some (EAnd (ERange true (ECol [] id_a) one (EBin BPlus one one)) (ENot (EExists (sel_of [TName [] id_t []] [])))))
       [ECol [] id_a] (Some (ECmp ONotRegexp (ECol [] id_a) (ELit (LHexNum [48; 120; 49])))) [TrWatermark] [] None).
Lemma example2_in_image : parser_image example_stmt2. Proof. unfold parser_image, example_stmt2, sel_of, one. img. Qed.
Lemma example2_roundtrips : parse (print example_stmt2) = Ok example_stmt2. Proof. vm_compute. reflexivity. Qed.
