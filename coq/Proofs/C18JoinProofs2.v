(* Proofs/C18JoinProofs2.v — the inner join creates no late data when every input record carries an event
   time (model of C19, Model/Joins.v, read only). *)
From Octo Require Import Joins JoinsBase C18JoinProofs.
From Octo Require Buffer BufferProofs ChangelogLemmas.
Local Arguments zero_ns : simpl never.
Local Arguments max_wm : simpl never.

Lemma later_ge a b : a <= later a b.
Proof. unfold later. destruct (Z.ltb_spec a b); lia. Qed.

Lemma emit_matches_ge s r subs x : In x (emit_matches s r subs) -> et r <= et x.
Proof.
  unfold emit_matches. intro H. apply in_flat_map in H. destruct H as [e [_ H]]. apply in_map_iff in H.
  destruct H as [t [<- _]]. cbn [et]. apply later_ge.
Qed.

(* every message is a record with an event time, a watermark, or the close *)
Definition timed (l : list msg) : bool :=
  forallb (fun m => match m with MRec r => negb (et r =? zero_ns) | MErr => false | _ => true end) l.

Section Inner.
  Variables kl kr : list value -> list value.
  Variable null_fix : bool.
  Variables switch_flag use_mark : bool.
  Let recv := recv_stream kl kr null_fix.
  Notation receive := (receive recv).
  Notation receive_all := (receive_all recv).
  Notation flush_side := (flush_side recv).
  Notation process_up_to := (process_up_to recv).
  Notation jstep := (jstep recv switch_flag use_mark).
  Notation jrun_steps := (jrun_steps recv switch_flag use_mark).

  Definition same_bufs (st st' : jstate) : Prop := lbuf st' = lbuf st /\ rbuf st' = rbuf st.

  Lemma recv_ge s r flag my theirs t' out x : recv s r flag my theirs = Ok (t', out) -> In x out -> et r <= et x.
  Proof.
    unfold recv, recv_stream. destruct (null_fix && has_null (key_of kl kr s (vals r))); [intro H; inversion H; subst; intros []|].
    destruct (if flag then Ok my else obind (tree_update (key_of kl kr s (vals r)) r my) (fun x0 => Ok (fst x0))) as [my'| |];
      cbn [obind]; intro H; inversion H; subst. apply emit_matches_ge.
  Qed.

  Lemma receive_char s r flag st st' o :
    receive s r flag st = (st', o) -> same_bufs st st' /\ (forall x, In x (records o) -> et r <= et x).
  Proof.
    unfold Joins.receive. destruct (stopped st); [intro H; inversion H; subst; split; [split; reflexivity|intros x []]|].
    destruct (recv s r flag (tree_of s st) (tree_of (other s) st)) as [[t' out]| |] eqn:E; intro H; inversion H; subst.
    - split; [destruct s; split; reflexivity|]. intros x Hx. rewrite ChangelogLemmas.records_map_Rec in Hx. exact (recv_ge _ _ _ _ _ _ _ _ E Hx).
    - split; [split; reflexivity|intros x []].
    - split; [split; reflexivity|intros x []].
  Qed.

  Lemma receive_all_char s flag c : forall rs st st' o,
    (forall r, In r rs -> c < et r) -> receive_all s flag rs st = (st', o) ->
    same_bufs st st' /\ (forall x, In x (records o) -> c < et x).
  Proof.
    induction rs as [|r rs IH]; intros st st' o Hc H; cbn [Joins.receive_all] in H.
    - inversion H; subst. split; [split; reflexivity|intros x []].
    - destruct (receive s r flag st) as [st1 o1] eqn:E1. destruct (receive_all s flag rs st1) as [st2 o2] eqn:E2. inversion H; subst.
      destruct (receive_char _ _ _ _ _ _ E1) as [[B1 B2] G1].
      destruct (IH st1 st' o2 (fun r0 Hr => Hc r0 (or_intror Hr)) E2) as [[B3 B4] G2].
      split; [split; congruence|]. intros x Hx. rewrite ChangelogLemmas.records_app in Hx. apply in_app_or in Hx.
      destruct Hx as [Hx|Hx]; [specialize (G1 x Hx); specialize (Hc r (or_introl eq_refl)); lia | exact (G2 x Hx)].
  Qed.

  Definition buf_gt (c : Z) (b : buf) : Prop := buf_ok b /\ forall r, In r (buf_recs b) -> c < et r.

  Lemma buf_of_set_buf s b st : buf_of s (set_buf s b st) = b /\ buf_of (other s) (set_buf s b st) = buf_of (other s) st.
  Proof. destruct s; split; reflexivity. Qed.

  Lemma flush_side_char s w flag c st st' o :
    (tree_nil (other s) st = true -> buf_of s st = []) -> buf_gt c (buf_of s st) ->
    flush_side s w flag st = (st', o) ->
    (forall x, In x (records o) -> c < et x) /\ buf_of (other s) st' = buf_of (other s) st /\
    buf_gt (Z.max c w) (buf_of s st') /\ (buf_of s st = [] -> buf_of s st' = []).
  Proof.
    intros Hnil [[lo Hs] Hc] H. unfold Joins.flush_side in H. destruct (tree_nil (other s) st) eqn:T.
    - inversion H; subst. rewrite (Hnil eq_refl). repeat split; auto; try (intros x []). exists 0. exact I.
    - destruct (buf_emit w (buf_of s st)) as [out rest] eqn:E.
      destruct (buf_emit_spec w _ lo out rest Hs E) as [S1 [S2 [S3 [S4 S5]]]].
      assert (Hout : forall r, In r out -> c < et r).
      { intros r Hr. apply Hc. rewrite S1. apply in_or_app. left. exact Hr. }
      destruct (receive_all_char s flag c out _ _ _ Hout H) as [[B1 B2] G].
      destruct (buf_of_set_buf s rest st) as [Q1 Q2].
      assert (Hb : buf_of s st' = rest /\ buf_of (other s) st' = buf_of (other s) st).
      { destruct s; cbn [buf_of other set_buf lbuf rbuf] in *; split; congruence. }
      destruct Hb as [Hb1 Hb2]. split; [exact G|]. split; [exact Hb2|]. split.
      + rewrite Hb1. split; [exact S4|]. intros r Hr. specialize (S3 r Hr).
        assert (c < et r) by (apply Hc; rewrite S1; apply in_or_app; right; exact Hr). lia.
      + intro Hnil'. rewrite Hb1. rewrite Hnil' in E. cbn [buf_emit] in E. inversion E. reflexivity.
  Qed.

  Definition bufs_gt (c : Z) (st : jstate) : Prop := buf_gt c (lbuf st) /\ buf_gt c (rbuf st).
  (* markOneStreamRemains is only set when the closed input's buffer is empty, and it stays empty *)
  Definition mark_ok (st : jstate) : Prop := forall o, phase st = OneOpen o true -> buf_of (other o) st = [].

  Lemma tree_nil_spec s st : tree_nil s st = true -> phase st = OneOpen s true.
  Proof. unfold tree_nil. destruct (phase st) as [|o [|]| | |]; try discriminate. destruct s, o; try discriminate; reflexivity. Qed.

  Lemma process_char w flag c st st' o :
    mark_ok st -> bufs_gt c st -> process_up_to w flag st = (st', o) ->
    (forall x, In x (records o) -> c < et x) /\ bufs_gt (Z.max c w) st' /\
    (lbuf st = [] -> lbuf st' = []) /\ (rbuf st = [] -> rbuf st' = []).
  Proof.
    intros M [BL BR] H. unfold Joins.process_up_to in H.
    destruct (flush_side SL w flag st) as [st1 o1] eqn:E1. destruct (flush_side SR w flag st1) as [st2 o2] eqn:E2. inversion H; subst.
    assert (N1 : tree_nil (other SL) st = true -> buf_of SL st = []).
    { intro T. apply tree_nil_spec in T. exact (M SR T). }
    destruct (flush_side_char SL w flag c st st1 o1 N1 BL E1) as [G1 [U1 [A1 Z1]]]. cbn [buf_of other] in *.
    destruct (flush_side_keeps recv _ _ _ _ _ _ E1) as [[_ [_ [_ K]]] _].
    assert (N2 : tree_nil (other SR) st1 = true -> buf_of SR st1 = []).
    { intro T. apply tree_nil_spec in T. cbn [other] in T. destruct K as [K|K]; [|unfold stopped in K; rewrite T in K; discriminate].
      cbn [buf_of]. rewrite U1. rewrite K in T. exact (M SL T). }
    assert (BR1 : buf_gt c (buf_of SR st1)) by (cbn [buf_of]; rewrite U1; exact BR).
    destruct (flush_side_char SR w flag c st1 st' o2 N2 BR1 E2) as [G2 [U2 [A2 Z2]]]. cbn [buf_of other] in *.
    split; [|split; [|split]].
    - intros x Hx. rewrite ChangelogLemmas.records_app in Hx. apply in_app_or in Hx. destruct Hx; auto.
    - split; [rewrite U2; exact A1 | exact A2].
    - intro E. rewrite U2. apply Z1. exact E.
    - intro E. apply Z2. rewrite U1. exact E.
  Qed.

  (* ---- the invariant ---- *)
  Definition lo_le (lo : option Z) (c : Z) : Prop := match lo with None => True | Some l => l <= c end.

  Definition J (st : jstate) (lo : option Z) (sigma : list (side * msg)) : Prop :=
    stopped st = true \/
    (lo_le lo (minwm st) /\ mark_ok st /\ bufs_gt (minwm st) st /\
     match phase st with
     | Both => minwm st <= lwm st /\ minwm st <= rwm st /\
               well_timed_from (lwm st) (proj_side SL sigma) = true /\ well_timed_from (rwm st) (proj_side SR sigma) = true /\
               timed (proj_side SL sigma) = true /\ timed (proj_side SR sigma) = true
     | OneOpen o _ => well_timed_from (minwm st) (proj_side o sigma) = true /\ timed (proj_side o sigma) = true
     | _ => True
     end).

  Lemma recs_above_wt c lo o :
    only_recs o -> (forall x, In x (records o) -> c < et x) -> lo_le lo c ->
    Buffer.well_timed_from lo o = true /\ BufferProofs.last_wm lo o = lo.
  Proof.
    unfold only_recs. induction o as [|e o IH]; intros W G L; [split; reflexivity|]. destruct e as [r|w].
    - cbn [watermarks flat_map app] in W. cbn [records flat_map app In] in G.
      destruct (IH W (fun x Hx => G x (or_intror Hx)) L) as [A B].
      cbn [Buffer.well_timed_from BufferProofs.last_wm fold_left]. fold (BufferProofs.last_wm lo o). rewrite A. split; [|exact B].
      rewrite andb_true_r. unfold Buffer.not_late. apply orb_true_iff. right. destruct lo as [l|]; [|reflexivity].
      apply Z.ltb_lt. specialize (G r (or_introl eq_refl)). cbn [lo_le] in L. lia.
    - cbn [watermarks flat_map app] in W. discriminate.
  Qed.

  Lemma recs_then_wm c lo o m :
    only_recs o -> (forall x, In x (records o) -> c < et x) -> lo_le lo c -> c <= m ->
    Buffer.well_timed_from lo (o ++ [WM m]) = true /\ BufferProofs.last_wm lo (o ++ [WM m]) = Some m.
  Proof.
    intros W G L M. destruct (recs_above_wt c lo o W G L) as [A B].
    rewrite BufferProofs.well_timed_app, BufferProofs.last_wm_app, A, B. cbn [Buffer.well_timed_from BufferProofs.last_wm fold_left andb].
    split; [|reflexivity]. rewrite andb_true_r. destruct lo as [l|]; [|reflexivity]. cbn [Buffer.wm_le lo_le] in *. apply Z.leb_le. lia.
  Qed.

  Lemma bufs_gt_weaken c c' st : c' <= c -> bufs_gt c st -> bufs_gt c' st.
  Proof. intros L [[A1 A2] [B1 B2]]. split; (split; [assumption|]); intros r Hr; [specialize (A2 r Hr)|specialize (B2 r Hr)]; lia. Qed.

  Lemma stopped_step st sm : stopped st = true -> jstep st sm = (st, []).
  Proof. destruct sm as [s m]. unfold Joins.jstep, stopped. destruct (phase st); try discriminate; reflexivity. Qed.

  Lemma timed_cons m l : timed (m :: l) = true -> timed l = true.
  Proof. unfold timed. cbn [forallb]. intro H. apply andb_true_iff in H. tauto. Qed.

  (* a record with an event time goes into its input's buffer *)
  Lemma buffer_record s r c st :
    negb (et r =? zero_ns) = true -> c < et r -> bufs_gt c st ->
    bufs_gt c (set_buf s (buf_add r (buf_of s st)) st).
  Proof.
    intros _ Hr [[A1 A2] [B1 B2]]. destruct s; cbn [set_buf buf_of]; unfold bufs_gt; cbn [lbuf rbuf].
    - split; [split; [apply buf_add_ok; exact A1|]|split; assumption].
      intros x Hx. apply (Permutation.Permutation_in _ (buf_add_perm r (lbuf st))) in Hx. destruct Hx as [<-|Hx]; auto.
    - split; [split; assumption|split; [apply buf_add_ok; exact B1|]].
      intros x Hx. apply (Permutation.Permutation_in _ (buf_add_perm r (rbuf st))) in Hx. destruct Hx as [<-|Hx]; auto.
  Qed.

  Lemma jstep_no_late st lo sm sigma st' o :
    J st lo (sm :: sigma) -> jstep st sm = (st', o) ->
    Buffer.well_timed_from lo o = true /\ J st' (BufferProofs.last_wm lo o) sigma.
  Proof.
    intros [S|[L [M [B P]]]] H.
    { rewrite (stopped_step st sm S) in H. inversion H; subst. split; [reflexivity|left; exact S]. }
    destruct (stopped st) eqn:S.
    { rewrite (stopped_step st sm S) in H. inversion H; subst. split; [reflexivity|left; exact S]. }
    destruct sm as [s m]. unfold Joins.jstep in H.
    destruct (phase st) as [|op flg| | |site] eqn:Ph; try (unfold stopped in S; rewrite Ph in S; discriminate).
    - (* Both *)
      destruct P as [P1 [P2 [P3 [P4 [P5 P6]]]]].
      destruct m as [r|w| |].
      + (* record of side s *)
        assert (Hr : negb (et r =? zero_ns) = true /\ wm_of s st < et r).
        { destruct s; cbn [wm_of]; rewrite proj_side_cons in P3, P4, P5, P6; cbn [side_eqb app] in *.
          - cbn [well_timed_from timed forallb] in P3, P5. apply andb_true_iff in P3, P5. destruct P3 as [A _], P5 as [T _].
            split; [exact T|]. apply negb_true_iff in T. rewrite T in A. cbn [orb] in A. apply Z.ltb_lt. exact A.
          - cbn [well_timed_from timed forallb] in P4, P6. apply andb_true_iff in P4, P6. destruct P4 as [A _], P6 as [T _].
            split; [exact T|]. apply negb_true_iff in T. rewrite T in A. cbn [orb] in A. apply Z.ltb_lt. exact A. }
        destruct Hr as [T Hr]. unfold on_record in H. apply negb_true_iff in T. rewrite T in H. inversion H; subst st' o.
        split; [reflexivity|]. right. cbn [BufferProofs.last_wm fold_left].
        assert (Hm : minwm st < et r) by (destruct s; cbn [wm_of] in Hr; lia).
        assert (E : forall b, minwm (set_buf s b st) = minwm st /\ lwm (set_buf s b st) = lwm st /\ rwm (set_buf s b st) = rwm st /\ phase (set_buf s b st) = phase st)
          by (intro b; destruct s; repeat split).
        destruct (E (buf_add r (buf_of s st))) as [E1 [E2 [E3 E4]]]. rewrite E1, E4, Ph, E2, E3.
        split; [exact L|]. split; [intros oo Ho; rewrite E4, Ph in Ho; discriminate|].
        split; [apply buffer_record; [rewrite T; reflexivity|exact Hm|exact B]|].
        rewrite proj_side_cons in P3, P4, P5, P6. repeat split; try assumption.
        * destruct (side_eqb s SL); cbn [app well_timed_from] in P3; [apply andb_true_iff in P3; tauto | exact P3].
        * destruct (side_eqb s SR); cbn [app well_timed_from] in P4; [apply andb_true_iff in P4; tauto | exact P4].
        * destruct (side_eqb s SL); cbn [app] in P5; [exact (timed_cons _ _ P5) | exact P5].
        * destruct (side_eqb s SR); cbn [app] in P6; [exact (timed_cons _ _ P6) | exact P6].
      + (* watermark of side s *)
        set (st0 := set_wm s w st) in *.
        assert (F0 : minwm st0 = minwm st /\ phase st0 = Both /\ lbuf st0 = lbuf st /\ rbuf st0 = rbuf st) by (destruct s; repeat split; exact Ph).
        destruct F0 as [F1 [F2 [F3 F4]]].
        assert (Hw : wm_of s st <= w /\ well_timed_from w (proj_side s sigma) = true /\ timed (proj_side s sigma) = true /\
                     well_timed_from (wm_of (other s) st) (proj_side (other s) sigma) = true /\ timed (proj_side (other s) sigma) = true).
        { destruct s; cbn [wm_of other]; rewrite proj_side_cons in P3, P4, P5, P6; cbn [side_eqb app well_timed_from] in *.
          - apply andb_true_iff in P3. destruct P3 as [A A']. apply Z.leb_le in A. repeat split; auto; try exact (timed_cons _ _ P5).
          - apply andb_true_iff in P4. destruct P4 as [A A']. apply Z.leb_le in A. repeat split; auto; try exact (timed_cons _ _ P6). }
        destruct Hw as [W1 [W2 [W3 [W4 W5]]]].
        assert (Hl0 : minwm st <= lwm st0 /\ minwm st <= rwm st0) by (destruct s; unfold st0; cbn [set_wm lwm rwm wm_of] in *; lia).
        assert (Tails : well_timed_from (lwm st0) (proj_side SL sigma) = true /\ well_timed_from (rwm st0) (proj_side SR sigma) = true /\
                        timed (proj_side SL sigma) = true /\ timed (proj_side SR sigma) = true).
        { destruct s; unfold st0; cbn [set_wm lwm rwm wm_of other] in *; repeat split; assumption. }
        set (mn := if wm_of (other s) st0 <? wm_of s st0 then wm_of (other s) st0 else wm_of s st0) in *.
        assert (Hmn : mn <= lwm st0 /\ mn <= rwm st0).
        { unfold mn. destruct s; cbn [wm_of other]; destruct (Z.ltb_spec (rwm st0) (lwm st0)); destruct (Z.ltb_spec (lwm st0) (rwm st0)); lia. }
        assert (B0 : bufs_gt (minwm st) (set_minwm mn st0)) by (unfold bufs_gt in *; cbn [set_minwm lbuf rbuf]; rewrite F3, F4; exact B).
        assert (M0 : mark_ok (set_minwm mn st0)) by (intros oo Ho; cbn [set_minwm phase] in Ho; rewrite F2 in Ho; discriminate).
        destruct (Z.ltb_spec (minwm st0) mn) as [Lt|Ge].
        * destruct (process_up_to mn false (set_minwm mn st0)) as [st1 o1] eqn:E.
          destruct (process_keeps recv _ _ _ _ _ E) as [[K1 [K2 [K3 K4]]] R]. cbn [set_minwm lwm rwm minwm phase] in K1, K2, K3, K4.
          destruct (process_char mn false (minwm st) _ _ _ M0 B0 E) as [G [B1 _]].
          rewrite Z.max_r in B1 by lia.
          destruct (stopped st1) eqn:S1; inversion H; subst st' o.
          -- destruct (recs_above_wt (minwm st) lo o1 R G L) as [A A']. split; [exact A|left; exact S1].
          -- destruct (recs_then_wm (minwm st) lo o1 mn R G L ltac:(lia)) as [A A']. split; [exact A|]. rewrite A'.
             destruct K4 as [K4|K4]; [|congruence]. right. rewrite K3, K4, F2, K1, K2.
             split; [cbn [lo_le]; lia|]. split; [intros oo Ho; rewrite K4, F2 in Ho; discriminate|]. split; [exact B1|].
             destruct Tails as [T1 [T2 [T3 T4]]]. repeat split; try assumption; lia.
        * inversion H; subst st' o. split; [reflexivity|]. right. cbn [BufferProofs.last_wm fold_left]. rewrite F1, F2.
          split; [exact L|]. split; [intros oo Ho; rewrite F2 in Ho; discriminate|].
          split; [unfold bufs_gt in *; rewrite F3, F4; exact B|].
          destruct Tails as [T1 [T2 [T3 T4]]]. repeat split; try assumption; lia.
      + (* error *) inversion H; subst. split; [reflexivity|left; reflexivity].
      + (* side s closes *)
        set (o' := other s) in *.
        assert (Hge : minwm st <= wm_of o' st) by (unfold o'; destruct s; cbn [other wm_of]; lia).
        assert (Htail : well_timed_from (wm_of o' st) (proj_side o' sigma) = true /\ timed (proj_side o' sigma) = true).
        { unfold o'. destruct s; cbn [other wm_of]; rewrite proj_side_cons in P3, P4, P5, P6; cbn [side_eqb app] in *; split; assumption. }
        assert (B0 : bufs_gt (minwm st) (set_minwm (wm_of o' st) st)) by exact B.
        assert (M0 : mark_ok (set_minwm (wm_of o' st) st)) by (intros oo Ho; cbn [set_minwm phase] in Ho; rewrite Ph in Ho; discriminate).
        destruct (process_up_to (wm_of o' st) switch_flag (set_minwm (wm_of o' st) st)) as [st1 o1] eqn:E.
        destruct (process_keeps recv _ _ _ _ _ E) as [[K1 [K2 [K3 K4]]] R]. cbn [set_minwm lwm rwm minwm phase] in K1, K2, K3, K4.
        destruct (process_char _ _ (minwm st) _ _ _ M0 B0 E) as [G [B1 _]]. rewrite Z.max_r in B1 by lia.
        destruct (recs_above_wt (minwm st) lo o1 R G L) as [A A'].
        destruct (stopped st1) eqn:S1; inversion H; subst st' o; (split; [exact A|]); [left; exact S1|].
        right. rewrite A'. cbn [set_phase minwm phase]. rewrite K3.
        split; [destruct lo; cbn [lo_le] in *; lia|]. split.
        { intros oo Ho. cbn [set_phase phase] in Ho. inversion Ho as [[Ho1 Ho2]]. subst oo.
          apply andb_true_iff in Ho2. destruct Ho2 as [_ Ho2]. unfold o'. rewrite (ltac:(destruct s; reflexivity) : other (other s) = s).
          destruct s; cbn [buf_of set_phase lbuf rbuf] in *; [destruct (lbuf st1)|destruct (rbuf st1)]; try reflexivity; discriminate. }
        split; [exact B1|]. exact Htail.
    - (* OneOpen op flg *)
      destruct P as [P1 P2].
      destruct (side_eqb s op) eqn:Eso.
      + assert (s = op) by (destruct s, op; try discriminate; reflexivity). subst s.
        rewrite proj_side_cons, Eso in P1, P2. cbn [app] in P1, P2.
        destruct m as [r|w| |].
        * cbn [well_timed_from timed forallb] in P1, P2. apply andb_true_iff in P1, P2. destruct P1 as [A A'], P2 as [T T'].
          assert (Hm : minwm st < et r). { apply negb_true_iff in T. rewrite T in A. cbn [orb] in A. apply Z.ltb_lt. exact A. }
          unfold on_record in H. pose proof T as T0. apply negb_true_iff in T0. rewrite T0 in H. inversion H; subst st' o.
          split; [reflexivity|]. right. cbn [BufferProofs.last_wm fold_left].
          assert (E : minwm (set_buf op (buf_add r (buf_of op st)) st) = minwm st /\ phase (set_buf op (buf_add r (buf_of op st)) st) = phase st /\
                      buf_of (other op) (set_buf op (buf_add r (buf_of op st)) st) = buf_of (other op) st) by (destruct op; repeat split).
          destruct E as [E1 [E2 E3]]. rewrite E1, E2, Ph. split; [exact L|]. split.
          { intros oo Ho. rewrite E2, Ph in Ho. inversion Ho; subst. rewrite E3. apply M. exact Ph. }
          split; [apply buffer_record; assumption|]. split; assumption.
        * cbn [well_timed_from] in P1. apply andb_true_iff in P1. destruct P1 as [A A']. apply Z.leb_le in A.
          destruct (process_up_to w flg st) as [st1 o1] eqn:E.
          destruct (process_keeps recv _ _ _ _ _ E) as [[K1 [K2 [K3 K4]]] R].
          destruct (process_char w flg (minwm st) _ _ _ M B E) as [G [B1 [Z1 Z2]]]. rewrite Z.max_r in B1 by lia.
          destruct (stopped st1) eqn:S1; inversion H; subst st' o.
          -- destruct (recs_above_wt (minwm st) lo o1 R G L) as [Q Q']. split; [exact Q|left; exact S1].
          -- destruct (recs_then_wm (minwm st) lo o1 w R G L A) as [Q Q']. split; [exact Q|]. rewrite Q'. right.
             cbn [set_minwm set_phase minwm phase]. split; [cbn [lo_le]; lia|]. split.
             { intros oo Ho. cbn [set_minwm set_phase phase] in Ho. inversion Ho as [[Ho1 Ho2]]. subst oo.
               assert (Hb : buf_of (other op) (set_minwm w (set_phase (OneOpen op (flg || use_mark && buf_empty (buf_of (other op) st1))) st1)) = buf_of (other op) st1)
                 by (destruct op; reflexivity). rewrite Hb.
               apply orb_true_iff in Ho2. destruct Ho2 as [Ho2|Ho2].
               - subst flg. pose proof (M op Ph) as E0. destruct op; cbn [other buf_of] in *; [apply Z2|apply Z1]; exact E0.
               - apply andb_true_iff in Ho2. destruct Ho2 as [_ Ho2]. destruct (buf_of (other op) st1); [reflexivity|discriminate]. }
             split; [exact B1|]. split; [exact A'|exact (timed_cons _ _ P2)].
        * inversion H; subst. split; [reflexivity|left; reflexivity].
        * destruct (process_up_to max_wm flg st) as [st1 o1] eqn:E.
          destruct (process_keeps recv _ _ _ _ _ E) as [[K1 [K2 [K3 K4]]] R].
          destruct (process_char max_wm flg (minwm st) _ _ _ M B E) as [G _].
          destruct (recs_above_wt (minwm st) lo o1 R G L) as [Q Q'].
          destruct (stopped st1) eqn:S1; inversion H; subst st' o; (split; [exact Q|left]); [exact S1|reflexivity].
      + inversion H; subst st' o. split; [reflexivity|]. right. cbn [BufferProofs.last_wm fold_left]. rewrite Ph.
        rewrite proj_side_cons, Eso in P1, P2. cbn [app] in P1, P2.
        split; [exact L|]. split; [exact M|]. split; [exact B|]. split; assumption.
  Qed.

  Lemma jrun_steps_no_late : forall sigma st lo st' os,
    J st lo sigma -> jrun_steps st sigma = (st', os) -> Buffer.well_timed_from lo (concat os) = true.
  Proof.
    induction sigma as [|sm sigma IH]; intros st lo st' os Hj H; cbn [Joins.jrun_steps] in H.
    - inversion H; subst. reflexivity.
    - destruct (jstep st sm) as [st1 o1] eqn:E1. destruct (jrun_steps st1 sigma) as [st2 os2] eqn:E2. inversion H; subst.
      destruct (jstep_no_late st lo sm sigma st1 o1 Hj E1) as [A Hj1].
      cbn [concat]. rewrite BufferProofs.well_timed_app, A. exact (IH st1 _ st' os2 Hj1 E2).
  Qed.

  (* the inner join (any key expressions, NULL-key fix or not, any phase-switch flags), every schedule: inputs
     that are each well timed and whose records all carry an event time give a well-timed output *)
  Theorem inner_join_no_late sigma :
    well_timed_from zero_ns (proj_side SL sigma) = true -> well_timed_from zero_ns (proj_side SR sigma) = true ->
    timed (proj_side SL sigma) = true -> timed (proj_side SR sigma) = true ->
    Buffer.well_timed (snd (Joins.jrun recv switch_flag use_mark jinit sigma)) = true.
  Proof.
    intros A1 A2 T1 T2. unfold Joins.jrun. destruct (jrun_steps jinit sigma) as [st' os] eqn:E. cbn [snd].
    apply (jrun_steps_no_late sigma jinit None st' os); [|exact E].
    right. cbn [jinit minwm phase lwm rwm]. split; [exact I|]. split; [intros o Ho; discriminate|].
    split; [split; (split; [exists 0; exact I | intros r []])|]. repeat split; try lia; assumption.
  Qed.

  (* every emitted row carries the later of its two records' event times (or nothing is emitted) *)
  Theorem inner_join_row_time s r flag my theirs t' out x :
    recv s r flag my theirs = Ok (t', out) -> In x out ->
    exists t, et x = later (et r) t /\ et r <= et x.
  Proof.
    unfold recv, recv_stream. destruct (null_fix && has_null (key_of kl kr s (vals r))); [intro H; inversion H; subst; intros []|].
    destruct (if flag then Ok my else obind (tree_update (key_of kl kr s (vals r)) r my) (fun x0 => Ok (fst x0))) as [my'| |];
      cbn [obind]; intro H; inversion H; subst. unfold emit_matches. intro Hx. apply in_flat_map in Hx. destruct Hx as [e [_ Hx]].
    apply in_map_iff in Hx. destruct Hx as [t [<- _]]. exists t. cbn [et]. split; [reflexivity|apply later_ge].
  Qed.
End Inner.
