(* Proofs/GroupByProofs.v — the group-by nodes compute, whatever the triggers, the plain grouping of
   what they received (invariants G1-G4 of DESIGN.md Appendix A.2). *)
From Octo Require Import GroupBy TriggerProofs CompareLaws ChangelogLemmas.

(* ---------- rows ---------- *)
Lemma row_eqb_length : forall a b, row_eqb a b = true -> length a = length b.
Proof.
  unfold row_eqb. induction a as [|x xs IH]; intros [|y ys]; simpl; try discriminate; [reflexivity|].
  destruct (vcompare x y =? 0) eqn:E; [|intro H; congruence].
  intro H. f_equal. apply IH. exact H.
Qed.
Lemma row_eqb_app_r : forall a b c, row_eqb a b = true -> row_eqb (a ++ c) (b ++ c) = true.
Proof.
  unfold row_eqb. induction a as [|x xs IH]; intros [|y ys] c; simpl; try discriminate.
  - intros _. apply Z.eqb_eq. apply (cl_refl _ _ (row_laws c)).
  - destruct (vcompare x y =? 0); [apply IH|]. intro H. exact H.
Qed.
Lemma row_eqb_firstn : forall n a b, row_eqb a b = true -> row_eqb (firstn n a) (firstn n b) = true.
Proof.
  unfold row_eqb. induction n as [|n IH]; intros a b; [reflexivity|].
  destruct a as [|x xs], b as [|y ys]; simpl; try discriminate; [reflexivity|].
  destruct (vcompare x y =? 0) eqn:E; [apply IH|]. intro H. exact H.
Qed.

Ltac bag_lia := repeat match goal with |- context [row_eqb ?a ?b] => destruct (row_eqb a b) end; lia.

Section GB.
  Variable ST : Type.
  Variable rinit : ST.
  Variable radd : bool -> list value -> ST -> ST.
  Variable rout : ST -> list value.
  Variable nk : nat.
  Variable kti : option nat.

  Notation keyf := (keyf nk).
  Notation argf := (argf nk).
  Notation item_step := (item_step ST rinit radd nk).
  Notation aggs_upd := (aggs_upd ST rinit radd nk).
  Notation emit_key := (emit_key ST rout kti).
  Notation emit_keys := (emit_keys ST rout kti).
  Notation ctg_step := (ctg_step ST rinit radd rout wless nk kti).
  Notation ctg_finish := (ctg_finish ST rout wless kti).
  Notation ctg_run_from := (ctg_run_from ST rinit radd rout wless nk kti).
  Notation ctg_run := (ctg_run ST rinit radd rout wless nk kti).
  Notation sgb_aggs := (sgb_aggs ST rinit radd nk).
  Notation sgb_run := (sgb_run ST rinit radd rout nk).
  Notation get := (m_get slices_less).

  (* G1: the item of a group = its records folded in arrival order, restarting whenever the count is 0 *)
  Definition item_of (k : gkey) (seen : list rec) : option (item ST) :=
    fold_left (fun o r => if row_eqb (keyf r) k then item_step o r else o) seen None.

  Lemma item_of_snoc k seen r :
    item_of k (seen ++ [r]) = if row_eqb (keyf r) k then item_step (item_of k seen) r else item_of k seen.
  Proof. unfold item_of. rewrite fold_left_app. reflexivity. Qed.

  Lemma item_of_cong k k' seen : geq k k' = true -> item_of k seen = item_of k' seen.
  Proof.
    intro H. rewrite geq_row_eqb in H. unfold item_of. generalize (@None (item ST)).
    induction seen as [|r l IH]; intro o; simpl; [reflexivity|].
    rewrite (row_eqb_cong_r (keyf r) k k' H). apply IH.
  Qed.

  Lemma item_of_some k seen it : item_of k seen = Some it -> exists r, In r seen /\ row_eqb (keyf r) k = true.
  Proof.
    induction seen as [|r l IH] using rev_ind; [discriminate|].
    rewrite item_of_snoc. destruct (row_eqb (keyf r) k) eqn:E.
    - intros _. exists r. split; [apply in_or_app; right; left; reflexivity | exact E].
    - intro H. destruct (IH H) as [r' [H1 H2]]. exists r'. split; [apply in_or_app; left; exact H1 | exact H2].
  Qed.

  Definition aggs_inv (aggs : aggs_map ST) (seen : list rec) : Prop :=
    forall k, option_map snd (get k aggs) = item_of k seen.

  Lemma aggs_upd_stored r (aggs : aggs_map ST) :
    geq (keyf r) (match get (keyf r) aggs with Some e => fst e | None => keyf r end) = true.
  Proof.
    destruct (get (keyf r) aggs) eqn:G; [|apply geq_refl].
    apply (get_some slices_less) in G. exact (proj2 G).
  Qed.

  Lemma aggs_upd_other r aggs k : geq k (keyf r) = false -> get k (aggs_upd r aggs) = get k aggs.
  Proof.
    intro H. unfold GroupBy.aggs_upd. pose proof (aggs_upd_stored r aggs) as S.
    set (sk := match get (keyf r) aggs with Some e => fst e | None => keyf r end) in *.
    assert (E : geq k sk = false) by (rewrite <- H; symmetry; apply g_eqv_cong_r; exact S).
    destruct (item_step (option_map snd (get (keyf r) aggs)) r).
    - rewrite g_get_put, E. reflexivity.
    - rewrite g_get_del, E. reflexivity.
  Qed.

  Lemma aggs_upd_inv r aggs seen : aggs_inv aggs seen -> aggs_inv (aggs_upd r aggs) (seen ++ [r]).
  Proof.
    intros I k. rewrite item_of_snoc. rewrite <- geq_row_eqb, geq_sym.
    destruct (geq k (keyf r)) eqn:E; [|rewrite aggs_upd_other by exact E; apply I].
    unfold GroupBy.aggs_upd. pose proof (aggs_upd_stored r aggs) as S.
    set (sk := match get (keyf r) aggs with Some e => fst e | None => keyf r end) in *.
    assert (E2 : geq k sk = true) by (rewrite <- E; symmetry; apply g_eqv_cong_r; exact S).
    rewrite (item_of_cong k (keyf r) seen E), <- (I (keyf r)).
    destruct (item_step (option_map snd (get (keyf r) aggs)) r).
    - rewrite g_get_put, E2. reflexivity.
    - rewrite g_get_del, E2. reflexivity.
  Qed.

  Lemma nd_aggs_upd r aggs : m_nd slices_less aggs -> m_nd slices_less (aggs_upd r aggs).
  Proof.
    intro H. unfold GroupBy.aggs_upd. destruct (item_step _ r).
    - apply g_nd_put. exact H.
    - apply g_nd_del. exact H.
  Qed.

  (* ---------- previouslySentValues ---------- *)
  (* multiplicity of [row] among the rows currently sent *)
  Definition sbag (sent : sent_map) (row : list value) : Z :=
    msum (fun e => if row_eqb (fst (snd e)) row then 1 else 0) sent.

  (* what was sent for the key is its current row (nothing, if the group is empty) *)
  Definition synced (aggs : aggs_map ST) (sent : sent_map) (k : gkey) : Prop :=
    match get k sent, get k aggs with
    | None, None => True
    | Some e, Some a => fst (snd e) = fst e ++ rout (fst (snd a))
    | _, _ => False
    end.

  Lemma emit_key_spec aggs cur sent k sent' o : m_nd slices_less sent ->
    emit_key aggs cur sent k = (sent', o) ->
    m_nd slices_less sent' /\
    (forall row, consolidate (records o) row + sbag sent row = sbag sent' row) /\
    watermarks o = [] /\
    (forall k', geq k' k = true -> synced aggs sent' k') /\
    (forall k', geq k' k = false -> get k' sent' = get k' sent).
  Proof.
    intros ND H. unfold GroupBy.emit_key, out_row in H.
    destruct (get k aggs) as [a|] eqn:GA; destruct (get k sent) as [e|] eqn:GS; inversion H; subst; clear H.
    - (* retract, then send the new row *)
      split; [apply g_nd_put, g_nd_del, ND|].
      split; [|split; [reflexivity|split]].
      + intro row. unfold sbag. rewrite g_msum_put by (apply g_nd_del, ND).
        rewrite g_msum_del by exact ND.
        rewrite g_get_del, geq_refl, GS. simpl. unfold sign. simpl. bag_lia.
      + intros k' E. unfold synced. rewrite g_get_put, E.
        rewrite (g_get_cong k' k aggs E), GA. reflexivity.
      + intros k' E. rewrite g_get_put, E, g_get_del, E. reflexivity.
    - split; [apply g_nd_put, ND|].
      split; [|split; [reflexivity|split]].
      + intro row. unfold sbag. rewrite g_msum_put by exact ND.
        rewrite GS. simpl. unfold sign. simpl. bag_lia.
      + intros k' E. unfold synced. rewrite g_get_put, E.
        rewrite (g_get_cong k' k aggs E), GA. reflexivity.
      + intros k' E. rewrite g_get_put, E. reflexivity.
    - (* the group vanished: only the retraction *)
      split; [apply g_nd_del, ND|].
      split; [|split; [reflexivity|split]].
      + intro row. unfold sbag. rewrite g_msum_del by exact ND.
        rewrite GS. simpl. unfold sign. simpl. bag_lia.
      + intros k' E. unfold synced. rewrite g_get_del, E.
        rewrite (g_get_cong k' k aggs E), GA. exact I.
      + intros k' E. rewrite g_get_del, E. reflexivity.
    - split; [exact ND|]. split; [|split; [reflexivity|split]].
      + intro row. simpl. lia.
      + intros k' E. unfold synced. rewrite (g_get_cong k' k sent' E), GS.
        rewrite (g_get_cong k' k aggs E), GA. exact I.
      + reflexivity.
  Qed.

  Lemma synced_same_get aggs sent sent' k : get k sent' = get k sent -> synced aggs sent k -> synced aggs sent' k.
  Proof. unfold synced. intro H. rewrite H. tauto. Qed.

  Lemma emit_keys_spec aggs cur : forall ks sent sent' o, m_nd slices_less sent ->
    emit_keys aggs cur sent ks = (sent', o) ->
    m_nd slices_less sent' /\
    (forall row, consolidate (records o) row + sbag sent row = sbag sent' row) /\
    watermarks o = [] /\
    (forall k, existsb (geq k) ks = true -> synced aggs sent' k) /\
    (forall k, existsb (geq k) ks = false -> get k sent' = get k sent).
  Proof.
    induction ks as [|k0 r IH]; simpl; intros sent sent' o ND H.
    - inversion H; subst. split; [exact ND|]. split; [intro; simpl; lia|]. split; [reflexivity|]. split; [discriminate | reflexivity].
    - destruct (emit_key aggs cur sent k0) as [s1 o1] eqn:E1.
      destruct (emit_keys aggs cur s1 r) as [s2 o2] eqn:E2. inversion H; subst; clear H.
      destruct (emit_key_spec _ _ _ _ _ _ ND E1) as [ND1 [B1 [W1 [S1 G1]]]].
      destruct (IH _ _ _ ND1 E2) as [ND2 [B2 [W2 [S2 G2]]]].
      split; [exact ND2|]. split; [|split; [|split]].
      + intro row. rewrite records_app, consolidate_app. rewrite <- B2, <- B1. lia.
      + rewrite watermarks_app, W1, W2. reflexivity.
      + intros k Hk. destruct (existsb (geq k) r) eqn:Er; [apply S2; exact Er|].
        rewrite orb_false_r in Hk. apply (synced_same_get aggs s1); [apply G2; exact Er | apply S1; exact Hk].
      + intros k Hk. apply orb_false_iff in Hk. destruct Hk as [H1 H2]. rewrite (G2 k H2). apply G1. exact H1.
  Qed.

  (* ---------- poll, then trigger the returned keys ---------- *)
  Definition trig_inv (aggs : aggs_map ST) (sent : sent_map) (ts : list tstate) : Prop :=
    Forall (fun t => forall k, pending t k = true \/ synced aggs sent k) ts.

  Lemma poll_emit aggs cur sent ts ks ts' sent' o :
    m_nd slices_less sent -> trig_inv aggs sent ts ->
    mt_poll wless ts = (ks, ts') -> emit_keys aggs cur sent ks = (sent', o) ->
    m_nd slices_less sent' /\
    (forall row, consolidate (records o) row + sbag sent row = sbag sent' row) /\
    watermarks o = [] /\
    trig_inv aggs sent' ts' /\
    (ts <> [] -> ts' <> []) /\
    (Forall (fun t => t_is_eos t = true) ts -> ts <> [] -> forall k, synced aggs sent' k).
  Proof.
    intros ND TI P E. destruct (emit_keys_spec _ _ _ _ _ _ ND E) as [ND' [B [W [S G]]]].
    split; [exact ND'|]. split; [exact B|]. split; [exact W|].
    pose proof (mt_poll_spec _ _ _ P) as F2.
    assert (KEEP : forall k, synced aggs sent k -> synced aggs sent' k).
    { intros k Hs. destruct (existsb (geq k) ks) eqn:Ek; [apply S; exact Ek|].
      apply (synced_same_get aggs sent); [apply G; exact Ek | exact Hs]. }
    split; [|split].
    - unfold trig_inv in *. clear P E. induction F2 as [|t t' l l' [ot [Pt It]] _ IH]; [constructor|].
      inversion TI as [|? ? Ht Hl]; subst. constructor; [|apply IH; exact Hl].
      intro k. destruct (Ht k) as [Hp|Hs]; [|right; apply KEEP; exact Hs].
      destruct (poll_pending _ _ _ k Pt Hp) as [Hp'|Hin]; [left; exact Hp'|].
      right. apply S. apply (existsb_incl k ot ks It Hin).
    - intros Hne Hc. subst. inversion F2; subst. apply Hne. reflexivity.
    - intros AE Hne k. destruct ts as [|t l]; [contradiction|].
      inversion F2 as [|? t' ? l' [ot [Pt It]] _]; subst.
      inversion TI as [|? ? Ht _]; subst. inversion AE as [|? ? Et _]; subst.
      destruct (Ht k) as [Hp|Hs]; [|apply KEEP; exact Hs].
      apply S. apply (existsb_incl k ot ks It). apply (poll_eos_all _ _ _ k Et Pt Hp).
  Qed.

  (* ---------- the invariant of CustomTriggerGroupBy.Run ---------- *)
  Definition st_aggs (s : gst ST) : aggs_map ST := fst (fst s).
  Definition st_sent (s : gst ST) : sent_map := snd (fst s).
  Definition st_trigs (s : gst ST) : list tstate := snd s.

  Record Inv (seen : list rec) (out : list event) (s : gst ST) : Prop := {
    inv_aggs : aggs_inv (st_aggs s) seen;                                                   (* G1 *)
    inv_bag : forall row, consolidate (records out) row = sbag (st_sent s) row;             (* G2 *)
    inv_nd : m_nd slices_less (st_sent s);
    inv_trig : trig_inv (st_aggs s) (st_sent s) (st_trigs s);                               (* G3 *)
    inv_ne : st_trigs s <> []
  }.

  Lemma trig_inv_key aggs sent ts r :
    trig_inv aggs sent ts -> trig_inv (aggs_upd r aggs) sent (mt_key wless (keyf r) ts).
  Proof.
    unfold trig_inv, mt_key. intro H. apply Forall_forall. intros t' Hin.
    apply in_map_iff in Hin. destruct Hin as [t [Ht Hin]]. subst. intro k.
    rewrite pending_key. destruct (geq k (keyf r)) eqn:E; [left; reflexivity|]. simpl.
    rewrite Forall_forall in H. destruct (H t Hin k) as [Hp|Hs]; [left; exact Hp|].
    right. unfold synced in *. rewrite aggs_upd_other by exact E. exact Hs.
  Qed.

  Lemma trig_inv_wm aggs sent ts w : trig_inv aggs sent ts -> trig_inv aggs sent (mt_wm w ts).
  Proof.
    unfold trig_inv, mt_wm. intro H. apply Forall_forall. intros t' Hin.
    apply in_map_iff in Hin. destruct Hin as [t [Ht Hin]]. subst. intro k. rewrite pending_wm.
    rewrite Forall_forall in H. apply H. exact Hin.
  Qed.
  Lemma trig_inv_eos aggs sent ts : trig_inv aggs sent ts -> trig_inv aggs sent (mt_eos ts).
  Proof.
    unfold trig_inv, mt_eos. intro H. apply Forall_forall. intros t' Hin.
    apply in_map_iff in Hin. destruct Hin as [t [Ht Hin]]. subst. intro k. rewrite pending_eos.
    rewrite Forall_forall in H. apply H. exact Hin.
  Qed.

  Lemma map_ne {A B} (f : A -> B) l : l <> [] -> map f l <> [].
  Proof. destruct l; [contradiction | discriminate]. Qed.

  Lemma ctg_step_inv seen out s e s' o : Inv seen out s -> ctg_step s e = (s', o) ->
    Inv (seen ++ records [e]) (out ++ o) s'.
  Proof.
    intros [IA IB IN IT INE] H. destruct s as [[aggs sent] ts]. simpl in *.
    unfold st_aggs, st_sent, st_trigs in *. simpl in *. destruct e as [r|w].
    - destruct (mt_poll wless (mt_key wless (keyf r) ts)) as [ks ts'] eqn:P.
      destruct (emit_keys (aggs_upd r aggs) (et r) sent ks) as [sent' o'] eqn:E.
      inversion H; subst; clear H.
      destruct (poll_emit _ _ _ _ _ _ _ _ IN (trig_inv_key _ _ _ r IT) P E) as [ND [B [W [TI [NE _]]]]].
      constructor; simpl.
      + apply aggs_upd_inv. exact IA.
      + intro row. rewrite records_app, consolidate_app, IB. unfold st_sent. simpl. rewrite <- B. lia.
      + exact ND.
      + exact TI.
      + apply NE. apply map_ne. exact INE.
    - destruct (mt_poll wless (mt_wm w ts)) as [ks ts'] eqn:P.
      destruct (emit_keys aggs w sent ks) as [sent' o'] eqn:E.
      inversion H; subst; clear H.
      destruct (poll_emit _ _ _ _ _ _ _ _ IN (trig_inv_wm _ _ _ w IT) P E) as [ND [B [W [TI [NE _]]]]].
      constructor; simpl.
      + rewrite app_nil_r. exact IA.
      + intro row. rewrite !records_app, !consolidate_app, IB. simpl. rewrite <- B. lia.
      + exact ND.
      + exact TI.
      + apply NE. apply map_ne. exact INE.
  Qed.

  Lemma ctg_run_from_inv : forall es seen out s s' o, Inv seen out s -> ctg_run_from s es = (s', o) ->
    Inv (seen ++ records es) (out ++ o) s'.
  Proof.
    induction es as [|e rest IH]; intros seen out s s' o I H.
    - simpl in H. inversion H; subst. simpl. rewrite !app_nil_r. exact I.
    - cbn [GroupBy.ctg_run_from] in H. destruct (ctg_step s e) as [s1 o1] eqn:S1. destruct (ctg_run_from s1 rest) as [s2 o2] eqn:S2.
      inversion H; subst; clear H.
      pose proof (ctg_step_inv _ _ _ _ _ _ I S1) as I1.
      pose proof (IH _ _ _ _ _ I1 S2) as I2.
      assert (E1 : seen ++ records (e :: rest) = (seen ++ records [e]) ++ records rest)
        by (rewrite <- app_assoc; f_equal; apply (records_app [e] rest)).
      rewrite E1, (app_assoc out o1 o2). exact I2.
  Qed.

  Lemma mt_eos_all ts : Forall (fun t => t_is_eos t = true) (mt_eos ts).
  Proof. unfold mt_eos. apply Forall_forall. intros t H. apply in_map_iff in H. destruct H as [t0 [H _]]. subst. apply t_eos_is_eos. Qed.

  Lemma ctg_finish_inv seen out s s' o : Inv seen out s -> ctg_finish s = (s', o) ->
    Inv seen (out ++ o) s' /\ forall k, synced (st_aggs s') (st_sent s') k.
  Proof.
    intros [IA IB IN IT INE] H. destruct s as [[aggs sent] ts]. unfold GroupBy.ctg_finish in H.
    unfold st_aggs, st_sent, st_trigs in *. simpl in *.
    destruct (mt_poll wless (mt_eos ts)) as [ks ts'] eqn:P.
    destruct (emit_keys aggs max_wm sent ks) as [sent' o'] eqn:E.
    inversion H; subst; clear H.
    destruct (poll_emit _ _ _ _ _ _ _ _ IN (trig_inv_eos _ _ _ IT) P E) as [ND [B [W [TI [NE ALL]]]]].
    split.
    - constructor; simpl; auto.
      + intro row. rewrite records_app, consolidate_app, IB. unfold st_sent. simpl. rewrite <- B. lia.
      + apply NE. apply map_ne. exact INE.
    - simpl. apply ALL; [apply mt_eos_all | apply map_ne; exact INE].
  Qed.

  (* ---------- reading the final state: one row per non-empty group ---------- *)
  Definition bag_inc (l : list rec) (row : list value) : Z :=
    let k := firstn nk row in
    match item_of k l with
    | Some it => if row_eqb (k ++ rout (fst it)) row then 1 else 0
    | None => 0
    end.

  Definition has_keys (l : list rec) : Prop := forall r, In r l -> (nk <= length (vals r))%nat.

  Lemma keyf_length l r : has_keys l -> In r l -> length (keyf r) = nk.
  Proof. intros H Hr. unfold GroupBy.keyf. rewrite firstn_length. specialize (H r Hr). lia. Qed.

  Lemma final_bag {X} (m : list (gkey * X)) (f : gkey * X -> list value) l row :
    has_keys l -> m_nd slices_less m ->
    (forall k, match get k m, item_of k l with
               | None, None => True
               | Some e, Some it => f e = fst e ++ rout (fst it)
               | _, _ => False
               end) ->
    msum (fun e => if row_eqb (f e) row then 1 else 0) m = bag_inc l row.
  Proof.
    intros HK ND H. set (kr := firstn nk row).
    assert (LEN : forall e, In e m -> length (fst e) = nk /\ exists it, item_of (fst e) l = Some it /\ f e = fst e ++ rout (fst it)).
    { intros e He. specialize (H (fst e)). rewrite (g_nd_get_in e m ND He) in H.
      destruct (item_of (fst e) l) as [it|] eqn:I; [|contradiction].
      destruct (item_of_some _ _ _ I) as [r [Hr Er]]. apply row_eqb_length in Er.
      rewrite (keyf_length l r HK Hr) in Er. split; [symmetry; exact Er | eauto]. }
    rewrite (g_msum_class _ kr m ND).
    - unfold bag_inc. fold kr. specialize (H kr). destruct (get kr m) as [e|] eqn:G.
      + destruct (item_of kr l) as [it|]; [|contradiction]. rewrite H.
        apply (get_some slices_less) in G. destruct G as [_ G]. rewrite geq_row_eqb in G.
        rewrite row_eqb_sym in G. rewrite (row_eqb_cong _ _ row (row_eqb_app_r _ _ (rout (fst it)) G)). reflexivity.
      + destruct (item_of kr l); [contradiction | reflexivity].
    - intros e He Ne. destruct (row_eqb (f e) row) eqn:R; [|reflexivity]. exfalso.
      destruct (LEN e He) as [L [it [_ Fe]]]. rewrite Fe in R.
      apply (row_eqb_firstn nk) in R. rewrite firstn_app, L, Nat.sub_diag, firstn_O, app_nil_r in R.
      rewrite (firstn_all2 (fst e)) in R by lia. fold kr in R. rewrite row_eqb_sym, <- geq_row_eqb in R. congruence.
  Qed.

  (* A: whatever the triggers, the consolidated output of the custom-trigger group-by is one row per
     non-empty group of the records it received *)
  Theorem ctg_final trigs es : trigs <> [] -> has_keys (records es) ->
    forall row, consolidate (records (ctg_run trigs es)) row = bag_inc (records es) row.
  Proof.
    intros NE HK row. unfold GroupBy.ctg_run.
    destruct (ctg_run_from (ctg_init ST kti trigs) es) as [s o] eqn:R.
    assert (I0 : Inv [] [] (ctg_init ST kti trigs)).
    { constructor; simpl.
      - intro k. reflexivity.
      - intro. reflexivity.
      - exact I.
      - unfold trig_inv. apply Forall_forall. intros t _ k. right. exact I.
      - unfold st_trigs, ctg_init, mt_init. simpl. apply map_ne. exact NE. }
    pose proof (ctg_run_from_inv _ _ _ _ _ _ I0 R) as I1. simpl in I1.
    destruct (ctg_finish s) as [s' o'] eqn:F. simpl.
    destruct (ctg_finish_inv _ _ _ _ _ I1 F) as [[IA IB IN _ _] SY].
    rewrite IB. unfold sbag. apply final_bag; [exact HK | exact IN|].
    intro k. specialize (SY k). unfold synced in SY. rewrite <- (IA k).
    destruct (get k (st_sent s')), (get k (st_aggs s')); simpl; auto.
  Qed.

  (* the same for SimpleGroupBy *)
  Lemma sgb_aggs_inv : forall l aggs seen, aggs_inv aggs seen -> m_nd slices_less aggs ->
    aggs_inv (fold_left (fun a r => aggs_upd r a) l aggs) (seen ++ l) /\
    m_nd slices_less (fold_left (fun a r => aggs_upd r a) l aggs).
  Proof.
    induction l as [|r l IH]; simpl; intros aggs seen I ND; [rewrite app_nil_r; auto|].
    replace (seen ++ r :: l) with ((seen ++ [r]) ++ l) by (rewrite <- app_assoc; reflexivity).
    apply IH; [apply aggs_upd_inv; exact I | apply nd_aggs_upd; exact ND].
  Qed.

  Theorem sgb_final es : has_keys (records es) ->
    forall row, consolidate (records (sgb_run es)) row = bag_inc (records es) row.
  Proof.
    intros HK row. unfold GroupBy.sgb_run. rewrite records_app.
    assert (W : forall ws, records (map WM ws) = []) by (induction ws; simpl; auto).
    rewrite W. simpl.
    destruct (sgb_aggs_inv (records es) [] [] (fun k => eq_refl) I) as [IA ND]. simpl in IA.
    fold (sgb_aggs (records es)) in *. set (m := sgb_aggs (records es)) in *.
    rewrite <- (final_bag m (fun e => fst e ++ rout (fst (snd e))) (records es) row HK ND).
    - unfold msum. clear. induction m as [|e r IH]; simpl; [reflexivity|]. rewrite IH. reflexivity.
    - intro k. rewrite <- (IA k). destruct (get k m); simpl; auto.
  Qed.
End GB.

(* ---------- additive measures of a changelog are functions of its consolidation ---------- *)
Definition respects (f : list value -> Z) : Prop := forall a b, row_eqb a b = true -> f a = f b.
Definition measure (f : list value -> Z) (l : list rec) : Z := zsum (map (fun r => sign r * f (vals r)) l).
Definition nonneg (l : list rec) : Prop := forall row, 0 <= consolidate l row.
(* every prefix is a bag (no row below zero): the Prop form of valid_changelog *)
Definition pvalid (l : list rec) : Prop := forall p s, l = p ++ s -> nonneg p.

Lemma measure_app f a b : measure f (a ++ b) = measure f a + measure f b.
Proof. unfold measure. induction a as [|x xs IH]; simpl; [reflexivity | rewrite IH; lia]. Qed.

Lemma measure_split f (p : rec -> bool) l :
  measure f l = measure f (filter p l) + measure f (filter (fun r => negb (p r)) l).
Proof. unfold measure. induction l as [|x xs IH]; simpl; [reflexivity|]. destruct (p x); simpl; lia. Qed.

Lemma measure_class f l x : respects f ->
  measure f (filter (fun r => row_eqb (vals r) x) l) = f x * consolidate l x.
Proof.
  intro R. unfold measure. induction l as [|r l IH]; simpl; [lia|].
  destruct (row_eqb (vals r) x) eqn:E; simpl; [rewrite IH, (R _ _ E); lia | rewrite IH; lia].
Qed.

Lemma consolidate_filter_out x l row :
  consolidate (filter (fun r => negb (row_eqb (vals r) x)) l) row = if row_eqb x row then 0 else consolidate l row.
Proof.
  induction l as [|r l IH]; simpl; [destruct (row_eqb x row); reflexivity|].
  destruct (row_eqb (vals r) x) eqn:E; simpl.
  - rewrite IH. rewrite (row_eqb_cong _ _ row E). destruct (row_eqb x row); lia.
  - rewrite IH. destruct (row_eqb x row) eqn:E2; [|reflexivity].
    rewrite (row_eqb_cong_r (vals r) x row E2) in E. rewrite E. reflexivity.
Qed.

Lemma filter_length_le {A} (p : A -> bool) l : (length (filter p l) <= length l)%nat.
Proof. induction l as [|x xs IH]; simpl; [lia|]. destruct (p x); simpl; lia. Qed.

Lemma measure_zero f : respects f -> forall n l, (length l <= n)%nat ->
  (forall row, consolidate l row = 0) -> measure f l = 0.
Proof.
  intro R. induction n as [|n IH]; intros l L Z0.
  - destruct l; [reflexivity | simpl in L; lia].
  - destruct l as [|x t]; [reflexivity|].
    rewrite (measure_split f (fun r => row_eqb (vals r) (vals x))), (measure_class f _ _ R), Z0.
    rewrite IH; [lia | |].
    + simpl. rewrite row_eqb_refl. simpl. simpl in L. eapply Nat.le_trans; [apply filter_length_le | lia].
    + intro row. rewrite consolidate_filter_out, Z0. destruct (row_eqb (vals x) row); reflexivity.
Qed.

Definition flip (l : list rec) : list rec := map (fun r => mkrec (vals r) (negb (retr r)) (et r)) l.
Lemma consolidate_flip l row : consolidate (flip l) row = - consolidate l row.
Proof. induction l as [|r l IH]; simpl; [reflexivity|]. rewrite IH. unfold sign. cbn [vals retr et]. destruct (retr r), (row_eqb (vals r) row); cbn [negb]; lia. Qed.
Lemma measure_flip f l : measure f (flip l) = - measure f l.
Proof. unfold measure. induction l as [|r l IH]; simpl; [reflexivity|]. rewrite IH. unfold sign. cbn [vals retr et]. destruct (retr r); cbn [negb]; lia. Qed.

Theorem measure_determined f l1 l2 : respects f ->
  (forall row, consolidate l1 row = consolidate l2 row) -> measure f l1 = measure f l2.
Proof.
  intros R H. assert (Z0 : measure f (l1 ++ flip l2) = 0).
  { apply (measure_zero f R (length (l1 ++ flip l2))); [lia|].
    intro row. rewrite consolidate_app, consolidate_flip, H. lia. }
  rewrite measure_app, measure_flip in Z0. lia.
Qed.

Lemma nonneg_filter_out x l : nonneg l -> nonneg (filter (fun r => negb (row_eqb (vals r) x)) l).
Proof. intros H row. rewrite consolidate_filter_out. destruct (row_eqb x row); [lia | apply H]. Qed.

Theorem measure_nonneg f : respects f -> (forall x, 0 <= f x) -> forall n l, (length l <= n)%nat ->
  nonneg l -> 0 <= measure f l.
Proof.
  intros R P. induction n as [|n IH]; intros l L NN.
  - destruct l; [unfold measure; simpl; lia | simpl in L; lia].
  - destruct l as [|x t]; [unfold measure; simpl; lia|].
    rewrite (measure_split f (fun r => row_eqb (vals r) (vals x))), (measure_class f _ _ R).
    assert (0 <= measure f (filter (fun r => negb (row_eqb (vals r) (vals x))) (x :: t))).
    { apply IH; [|apply nonneg_filter_out; exact NN].
      simpl. rewrite row_eqb_refl. simpl. simpl in L. eapply Nat.le_trans; [apply filter_length_le | lia]. }
    specialize (P (vals x)). specialize (NN (vals x)). nia.
Qed.

(* a bag whose measure by a 0/1 indicator is zero has no row in the indicated class *)
Lemma measure_zero_class f l x : respects f -> (forall y, 0 <= f y) -> nonneg l ->
  measure f l = 0 -> 0 < f x -> consolidate l x = 0.
Proof.
  intros R P NN M0 Fx.
  rewrite (measure_split f (fun r => row_eqb (vals r) x)), (measure_class f _ _ R) in M0.
  pose proof (measure_nonneg f R P _ _ (le_n _) (nonneg_filter_out x l NN)) as H.
  specialize (NN x). nia.
Qed.

Lemma valid_from_pvalid : forall l seen, nonneg seen -> valid_from seen l = true ->
  forall p s, l = p ++ s -> nonneg (seen ++ p).
Proof.
  induction l as [|r l IH]; intros seen NN V p s E.
  - destruct p; [rewrite app_nil_r; exact NN | discriminate].
  - destruct p as [|r' p]; [rewrite app_nil_r; exact NN|].
    simpl in E. inversion E; subst. simpl in V. apply andb_true_iff in V. destruct V as [V1 V2].
    apply Z.leb_le in V1.
    assert (NN' : nonneg (seen ++ [r'])).
    { intro row. destruct (row_eqb (vals r') row) eqn:Er.
      - rewrite <- (consolidate_cong _ _ _ Er). exact V1.
      - rewrite consolidate_app. simpl. rewrite Er. specialize (NN row). lia. }
    replace (seen ++ r' :: p) with ((seen ++ [r']) ++ p) by (rewrite <- app_assoc; reflexivity).
    apply (IH _ NN' V2 p s eq_refl).
Qed.
Theorem valid_changelog_pvalid l : valid_changelog l = true -> pvalid l.
Proof. intros V p s E. apply (valid_from_pvalid l [] (fun _ => Z.le_refl 0) V p s E). Qed.

(* ---------- the event-time buffer delivers exactly the records it received ---------- *)
Definition bufrecs (b : etbuf) : list rec := flat_map snd b.

Lemma buf_add_bag r b row : consolidate (bufrecs (buf_add r b)) row = consolidate [r] row + consolidate (bufrecs b) row.
Proof.
  induction b as [|[t rs] rest IH]; simpl; [lia|].
  destruct (et r <? t); simpl; [lia|]. destruct (et r =? t); simpl.
  - rewrite !consolidate_app. simpl. lia.
  - rewrite !consolidate_app, IH. simpl. lia.
Qed.
Lemma buf_emit_bag w : forall b o b' row, buf_emit w b = (o, b') ->
  consolidate o row + consolidate (bufrecs b') row = consolidate (bufrecs b) row.
Proof.
  induction b as [|[t rs] rest IH]; simpl; intros o b' row H.
  - inversion H; subst. reflexivity.
  - destruct (w <? t).
    + inversion H; subst. simpl. lia.
    + destruct (buf_emit w rest) as [o2 b2] eqn:E. inversion H; subst.
      rewrite !consolidate_app, <- (IH o2 b' row eq_refl). lia.
Qed.
Definition buf_le (m : Z) (b : etbuf) : Prop := forall e, In e b -> fst e <= m.
Lemma buf_add_le m r b : et r <= m -> buf_le m b -> buf_le m (buf_add r b).
Proof.
  intros Hr. induction b as [|[t rs] rest IH]; simpl; intro H.
  - intros e [He|[]]. subst. exact Hr.
  - destruct (et r <? t).
    + intros e [He|He]; [subst; exact Hr | apply H; exact He].
    + destruct (et r =? t).
      * intros e [He|He]; [subst; apply (H (t, rs)); left; reflexivity | apply H; right; exact He].
      * intros e [He|He]; [subst; apply (H (t, rs)); left; reflexivity|].
        apply IH; [|exact He]. intros e' He'. apply H. right. exact He'.
Qed.
Lemma buf_emit_le m w : forall b o b', buf_emit w b = (o, b') -> buf_le m b -> buf_le m b'.
Proof.
  induction b as [|[t rs] rest IH]; simpl; intros o b' H L.
  - inversion H; subst. exact L.
  - destruct (w <? t); [inversion H; subst; exact L|].
    destruct (buf_emit w rest) as [o2 b2] eqn:E. inversion H; subst.
    apply (IH o2 b' eq_refl). intros e He. apply L. right. exact He.
Qed.
Lemma buf_emit_all m : forall b, buf_le m b -> snd (buf_emit m b) = [].
Proof.
  induction b as [|[t rs] rest IH]; simpl; intro L; [reflexivity|].
  assert (t <= m) by (apply (L (t, rs)); left; reflexivity).
  destruct (Z.ltb_spec m t); [lia|].
  destruct (buf_emit m rest) as [o2 b2] eqn:E. simpl. apply IH. intros e He. apply L. right. exact He.
Qed.

Lemma etb_run_from_bag : forall es b b' o row,
  (forall r, In r (records es) -> et r <= max_wm) -> buf_le max_wm b ->
  etb_run_from b es = (b', o) ->
  consolidate (records o) row + consolidate (bufrecs b') row = consolidate (records es) row + consolidate (bufrecs b) row
  /\ buf_le max_wm b'.
Proof.
  induction es as [|e rest IH]; intros b b' o row T L H.
  - simpl in H. inversion H; subst. simpl. split; [lia | exact L].
  - cbn [etb_run_from] in H. destruct (etb_step b e) as [b1 o1] eqn:S1.
    destruct (etb_run_from b1 rest) as [b2 o2] eqn:S2. inversion H; subst; clear H.
    assert (T' : forall r, In r (records rest) -> et r <= max_wm).
    { intros r Hr. apply T. change (e :: rest) with ([e] ++ rest). rewrite records_app. apply in_or_app. right. exact Hr. }
    destruct e as [r|w]; simpl in S1.
    + assert (Tr : et r <= max_wm) by (apply T; simpl; left; reflexivity).
      destruct (et r =? zero_ns); inversion S1; subst; clear S1.
      * destruct (IH _ _ _ row T' L S2) as [B L']. split; [|exact L']. simpl. simpl in B. lia.
      * destruct (IH _ _ _ row T' (buf_add_le _ _ _ Tr L) S2) as [B L']. split; [|exact L'].
        rewrite buf_add_bag in B. simpl in *. lia.
    + destruct (buf_emit w b) as [oe be] eqn:E. inversion S1; subst; clear S1.
      destruct (IH _ _ _ row T' (buf_emit_le _ _ _ _ _ E L) S2) as [B L']. split; [|exact L'].
      rewrite !records_app, !consolidate_app, records_map_Rec. simpl.
      pose proof (buf_emit_bag _ _ _ _ row E). lia.
Qed.

Theorem etb_consolidate es : (forall r, In r (records es) -> et r <= max_wm) ->
  forall row, consolidate (records (etb_run_finish es)) row = consolidate (records es) row.
Proof.
  intros T row. unfold etb_run_finish. destruct (etb_run_from [] es) as [b o] eqn:R.
  destruct (etb_run_from_bag es [] b o row T (fun e (H : In e []) => match H with end) R) as [B L].
  rewrite records_app, consolidate_app, records_map_Rec.
  destruct (buf_emit max_wm b) as [oe be] eqn:E. simpl.
  pose proof (buf_emit_bag _ _ _ _ row E) as B2. pose proof (buf_emit_all max_wm b L) as A. rewrite E in A. simpl in A. subst.
  simpl in *. lia.
Qed.

Lemma row_eqb_skipn : forall n a b, row_eqb a b = true -> row_eqb (skipn n a) (skipn n b) = true.
Proof.
  unfold row_eqb. induction n as [|n IH]; intros a b; [simpl; tauto|].
  destruct a as [|x xs], b as [|y ys]; simpl; try discriminate; [reflexivity|].
  destruct (vcompare x y =? 0) eqn:E; [apply IH|]. intro H. congruence.
Qed.

Lemma filter_prefix {A} (q : A -> bool) : forall l p s, filter q l = p ++ s ->
  exists p' s', l = p' ++ s' /\ filter q p' = p.
Proof.
  induction l as [|x l IH]; intros p s H; simpl in H.
  - destruct p; [|discriminate]. exists [], []. auto.
  - destruct (q x) eqn:Q.
    + destruct p as [|y p].
      * exists [], (x :: l). auto.
      * simpl in H. inversion H; subst. destruct (IH p s H2) as [p' [s' [E1 E2]]].
        exists (y :: p'), s'. subst. simpl. rewrite Q. auto.
    + destruct (IH p s H) as [p' [s' [E1 E2]]]. exists (x :: p'), s'. subst. simpl. rewrite Q. auto.
Qed.

(* ---------- from the running items to the plain grouping ---------- *)
Section Spec.
  Variable ST : Type.
  Variable rinit : ST.
  Variable radd : bool -> list value -> ST -> ST.
  Variable rout : ST -> list value.
  Variable nk : nat.

  Notation keyf := (keyf nk).
  Notation argf := (argf nk).
  Notation item_of := (item_of ST rinit radd nk).
  Notation bag_inc := (bag_inc ST rinit radd rout nk).
  Notation bag_group := (bag_group ST rinit radd rout nk).
  Notation whole_state := (whole_state ST rinit radd nk).
  Notation sub_hist := (sub_hist nk).
  Notation cnt := (cnt nk).

  (* the history of aggregate inputs of one group, as a changelog of argument rows *)
  Definition amap (h : list rec) : list rec := map (fun r => mkrec (argf r) (retr r) 0) h.
  Definition rfold (h : list rec) : ST := fold_left (fun st r => radd (retr r) (argf r) st) h rinit.
  Definition avalid (h : list rec) : Prop := forall p s, h = p ++ s -> nonneg (amap p).

  (* "net-multiset determined": over histories none of whose prefixes retracts an absent argument row,
     the aggregate columns depend only on the consolidated argument rows (what C14 proves per aggregate) *)
  Definition args_arity (na : nat) (h : list rec) : Prop := forall r, In r h -> length (argf r) = na.
  Definition net_determined (na : nat) : Prop := forall h1 h2, args_arity na h1 -> args_arity na h2 ->
    avalid h1 -> avalid h2 ->
    (forall row, consolidate (amap h1) row = consolidate (amap h2) row) -> rout (rfold h1) = rout (rfold h2).

  Definition kind (k : gkey) (row : list value) : Z := if row_eqb (firstn nk row) k then 1 else 0.
  Definition aind (k : gkey) (arow row : list value) : Z :=
    if row_eqb (firstn nk row) k && row_eqb (skipn nk row) arow then 1 else 0.

  Lemma kind_respects k : respects (kind k).
  Proof. intros a b H. unfold kind. rewrite (row_eqb_cong _ _ k (row_eqb_firstn nk a b H)). reflexivity. Qed.
  Lemma aind_respects k arow : respects (aind k arow).
  Proof.
    intros a b H. unfold aind. rewrite (row_eqb_cong _ _ k (row_eqb_firstn nk a b H)).
    rewrite (row_eqb_cong _ _ arow (row_eqb_skipn nk a b H)). reflexivity.
  Qed.
  Lemma kind_nonneg k x : 0 <= kind k x. Proof. unfold kind. destruct (row_eqb _ _); lia. Qed.
  Lemma aind_nonneg k a x : 0 <= aind k a x. Proof. unfold aind. destruct (_ && _); lia. Qed.

  Lemma cnt_measure k l : cnt k l = measure (kind k) l.
  Proof.
    unfold GroupBy.cnt, GroupBy.sub_hist, measure, kind, GroupBy.keyf. induction l as [|r l IH]; simpl; [reflexivity|].
    destruct (row_eqb (firstn nk (vals r)) k); simpl; rewrite IH; lia.
  Qed.
  Lemma amap_sub_measure k l arow : consolidate (amap (sub_hist k l)) arow = measure (aind k arow) l.
  Proof.
    unfold amap, GroupBy.sub_hist, measure, aind, GroupBy.keyf, GroupBy.argf. induction l as [|r l IH]; simpl; [reflexivity|].
    destruct (row_eqb (firstn nk (vals r)) k); simpl; rewrite IH; [|lia].
    unfold sign. simpl. destruct (row_eqb (skipn nk (vals r)) arow), (retr r); lia.
  Qed.

  Lemma sub_hist_app k a b : sub_hist k (a ++ b) = sub_hist k a ++ sub_hist k b.
  Proof. unfold GroupBy.sub_hist. apply filter_app. Qed.

  Lemma pvalid_prefix l p s : pvalid l -> l = p ++ s -> pvalid p.
  Proof. intros V E p1 s1 E1. apply (V p1 (s1 ++ s)). subst. rewrite app_assoc. reflexivity. Qed.

  Lemma sub_hist_avalid k l : pvalid l -> avalid (sub_hist k l).
  Proof.
    intros V p s E. destruct (filter_prefix _ _ _ _ E) as [p' [s' [E1 E2]]]. subst p.
    intro arow. fold (sub_hist k p'). rewrite amap_sub_measure.
    apply (measure_nonneg _ (aind_respects k arow) (aind_nonneg k arow) _ _ (le_n _)). apply (V p' s' E1).
  Qed.

  Lemma cnt_snoc k l r : cnt k (l ++ [r]) = cnt k l + (if row_eqb (keyf r) k then sign r else 0).
  Proof. rewrite !cnt_measure, measure_app. unfold measure, kind, GroupBy.keyf. cbn [map zsum]. destruct (row_eqb _ k); lia. Qed.

  (* count of the item = net number of rows of the group *)
  Lemma item_count k : forall l,
    match item_of k l with None => cnt k l = 0 | Some it => snd it = cnt k l /\ cnt k l <> 0 end.
  Proof.
    induction l as [|r l IH] using rev_ind; [reflexivity|].
    rewrite item_of_snoc, cnt_snoc. destruct (row_eqb (keyf r) k).
    - unfold GroupBy.item_step, sign. destruct (item_of k l) as [[st c]|]; cbn [snd] in *.
      + destruct IH as [I1 I2]. subst c. destruct (retr r).
        * destruct (Z.eqb_spec (cnt k l - 1) 0); cbn [snd]; lia.
        * destruct (Z.eqb_spec (cnt k l + 1) 0); cbn [snd]; lia.
      + rewrite IH. destruct (retr r); cbn; lia.
    - destruct (item_of k l); lia.
  Qed.

  (* its aggregate state = the fold of what arrived since the group was last empty *)
  Lemma item_state k : forall l it, item_of k l = Some it ->
    exists la lb, sub_hist k l = la ++ lb /\ (exists pl sl, l = pl ++ sl /\ la = sub_hist k pl) /\
                  zsum (map sign la) = 0 /\ fst it = rfold lb.
  Proof.
    induction l as [|r l IH] using rev_ind; [discriminate|]. intro it.
    rewrite item_of_snoc, sub_hist_app. unfold GroupBy.sub_hist at 2. simpl.
    destruct (row_eqb (keyf r) k) eqn:E; simpl.
    - unfold GroupBy.item_step. destruct (item_of k l) as [[st c]|] eqn:IO.
      + destruct (IH _ eq_refl) as [la [lb [E1 [[pl [sl [E2 E3]]] [Z0 F]]]]]. simpl in F.
        destruct ((if retr r then c - 1 else c + 1) =? 0); [discriminate|]. intro H. inversion H; subst it; clear H.
        exists la, (lb ++ [r]). split; [rewrite E1, app_assoc; reflexivity|].
        split; [exists pl, (sl ++ [r]); split; [rewrite E2, app_assoc; reflexivity | exact E3]|].
        split; [exact Z0|]. simpl. unfold rfold. rewrite fold_left_app. simpl. fold (rfold lb). rewrite <- F. reflexivity.
      + destruct ((if retr r then 0 - 1 else 0 + 1) =? 0); [discriminate|]. intro H. inversion H; subst it; clear H.
        exists (sub_hist k l), [r]. split; [reflexivity|].
        split; [exists l, [r]; auto|]. split; [|reflexivity].
        pose proof (item_count k l) as C. rewrite IO in C. exact C.
    - rewrite app_nil_r. intro H. destruct (IH _ H) as [la [lb [E1 [[pl [sl [E2 E3]]] [Z0 F]]]]].
      exists la, lb. split; [exact E1|]. split; [exists pl, (sl ++ [r]); split; [rewrite E2, app_assoc; reflexivity | exact E3]|]. auto.
  Qed.

  Variable na : nat.
  Hypothesis HR : net_determined na.

  Lemma sub_hist_arity k l : args_arity na l -> args_arity na (sub_hist k l).
  Proof. intros H r Hr. apply H. unfold GroupBy.sub_hist in Hr. apply filter_In in Hr. tauto. Qed.

  Lemma measure_sub f g l : measure (fun x => f x - g x) l = measure f l - measure g l.
  Proof. unfold measure. induction l as [|r l IH]; simpl; [reflexivity|]. rewrite IH. lia. Qed.

  (* a group whose net row count is zero in a bag has no argument rows left either *)
  Lemma empty_group_args k pl arow : nonneg pl -> cnt k pl = 0 -> consolidate (amap (sub_hist k pl)) arow = 0.
  Proof.
    intros NP Z0. rewrite amap_sub_measure. rewrite cnt_measure in Z0.
    pose proof (measure_nonneg _ (aind_respects k arow) (aind_nonneg k arow) _ _ (le_n _) NP) as H1.
    assert (R : respects (fun x => kind k x - aind k arow x)).
    { intros a b H. rewrite (kind_respects k a b H), (aind_respects k arow a b H). reflexivity. }
    assert (P : forall x, 0 <= kind k x - aind k arow x).
    { intro x. unfold kind, aind. destruct (row_eqb (firstn nk x) k), (row_eqb (skipn nk x) arow); simpl; lia. }
    pose proof (measure_nonneg _ R P _ _ (le_n _) NP) as H2. rewrite measure_sub in H2. lia.
  Qed.

  (* B: on a valid changelog the running item yields the row of the plain grouping *)
  Theorem bag_inc_group l : args_arity na l -> pvalid l -> forall row, bag_inc l row = bag_group l row.
  Proof.
    intros AR V row. unfold GroupByProofs.bag_inc, GroupBy.bag_group. set (k := firstn nk row).
    pose proof (item_count k l) as C. destruct (item_of k l) as [it|] eqn:IO.
    - destruct C as [_ C]. destruct (Z.eqb_spec (cnt k l) 0) as [e|ne]; [contradiction|].
      destruct (item_state k l it IO) as [la [lb [E1 [[pl [sl [E2 E3]]] [Z0 F]]]]].
      assert (LA0 : forall arow, consolidate (amap la) arow = 0).
      { intro arow. subst la. apply empty_group_args; [apply (V pl sl E2) | exact Z0]. }
      assert (EQ : rout (fst it) = rout (whole_state k l)).
      { rewrite F. unfold GroupBy.whole_state. fold (rfold (sub_hist k l)). rewrite E1.
        assert (AS : args_arity na (la ++ lb)) by (rewrite <- E1; apply sub_hist_arity; exact AR).
        apply HR.
        - intros r Hr. apply AS. apply in_or_app. right. exact Hr.
        - exact AS.
        - intros p s Ep arow.
          assert (AV : avalid (sub_hist k l)) by (apply sub_hist_avalid; exact V).
          specialize (AV (la ++ p) s). rewrite E1, Ep, app_assoc in AV. specialize (AV eq_refl arow).
          unfold amap in AV. rewrite map_app, consolidate_app in AV. fold (amap la) in AV. fold (amap p) in AV.
          rewrite LA0 in AV. exact AV.
        - rewrite <- E1. apply sub_hist_avalid. exact V.
        - intro arow. unfold amap at 2. rewrite map_app, consolidate_app. fold (amap la). fold (amap lb).
          rewrite LA0. reflexivity. }
      rewrite EQ. reflexivity.
    - rewrite C. reflexivity.
  Qed.

  (* C: the plain grouping is a function of the consolidated input *)
  Theorem bag_group_consolidated l1 l2 : args_arity na l1 -> args_arity na l2 -> pvalid l1 -> pvalid l2 ->
    (forall row, consolidate l1 row = consolidate l2 row) -> forall row, bag_group l1 row = bag_group l2 row.
  Proof.
    intros A1 A2 V1 V2 H row. unfold GroupBy.bag_group. set (k := firstn nk row).
    rewrite !cnt_measure, (measure_determined _ l1 l2 (kind_respects k) H).
    destruct (measure (kind k) l2 =? 0); [reflexivity|].
    assert (EQ : rout (whole_state k l1) = rout (whole_state k l2)).
    { unfold GroupBy.whole_state. fold (rfold (sub_hist k l1)). fold (rfold (sub_hist k l2)).
      apply HR; [apply sub_hist_arity; exact A1 | apply sub_hist_arity; exact A2 | apply sub_hist_avalid; exact V1 | apply sub_hist_avalid; exact V2|].
      intro arow. rewrite !amap_sub_measure. apply measure_determined; [apply aind_respects | exact H]. }
    rewrite EQ. reflexivity.
  Qed.
End Spec.

(* the buffer delivers only records it received *)
Lemma buf_add_in x r b : In x (bufrecs (buf_add r b)) -> x = r \/ In x (bufrecs b).
Proof.
  induction b as [|[t rs] rest IH]; simpl.
  - intros [H|[]]; auto.
  - destruct (et r <? t); simpl; [intros [H|H]; auto|].
    destruct (et r =? t); simpl; rewrite !in_app_iff.
    + simpl. intros [[H|[H|[]]]|H]; auto.
    + intros [H|H]; [auto|]. destruct (IH H); auto.
Qed.
Lemma buf_emit_in w x : forall b o b', buf_emit w b = (o, b') -> In x o \/ In x (bufrecs b') -> In x (bufrecs b).
Proof.
  induction b as [|[t rs] rest IH]; simpl; intros o b' H.
  - inversion H; subst. simpl. tauto.
  - destruct (w <? t).
    + inversion H; subst. simpl. tauto.
    + destruct (buf_emit w rest) as [o2 b2] eqn:E. inversion H; subst. rewrite !in_app_iff.
      intros [[H1|H1]|H1]; auto; right; apply (IH o2 b' eq_refl); auto.
Qed.
Lemma etb_run_from_in x : forall es b b' o, etb_run_from b es = (b', o) ->
  In x (records o) \/ In x (bufrecs b') -> In x (records es) \/ In x (bufrecs b).
Proof.
  induction es as [|e rest IH]; intros b b' o H.
  - simpl in H. inversion H; subst. simpl. tauto.
  - cbn [etb_run_from] in H. destruct (etb_step b e) as [b1 o1] eqn:S1.
    destruct (etb_run_from b1 rest) as [b2 o2] eqn:S2. inversion H; subst; clear H.
    change (e :: rest) with ([e] ++ rest). rewrite !records_app, !in_app_iff.
    specialize (IH _ _ _ S2). destruct e as [r|w]; simpl in S1.
    + destruct (et r =? zero_ns); inversion S1; subst; clear S1; simpl.
      * intros [[H|H]|H]; [auto | |]; destruct IH; auto.
      * intros [[[]|H]|H]; (destruct IH as [H1|H1]; [auto | auto | destruct (buf_add_in _ _ _ H1); auto]).
    + destruct (buf_emit w b) as [oe be] eqn:E. inversion S1; subst; clear S1.
      rewrite records_app, records_map_Rec, in_app_iff. simpl.
      intros [[[H|[]]|H]|H].
      * right. apply (buf_emit_in _ _ _ _ _ E). auto.
      * destruct IH as [H1|H1]; auto. right. apply (buf_emit_in _ _ _ _ _ E). auto.
      * destruct IH as [H1|H1]; auto. right. apply (buf_emit_in _ _ _ _ _ E). auto.
Qed.
Theorem etb_no_invention es r : In r (records (etb_run_finish es)) -> In r (records es).
Proof.
  unfold etb_run_finish. destruct (etb_run_from [] es) as [b o] eqn:R.
  rewrite records_app, records_map_Rec, in_app_iff. destruct (buf_emit max_wm b) as [oe be] eqn:E. simpl.
  intro H. destruct (etb_run_from_in r es [] b o R) as [H1|[]]; [|exact H1].
  destruct H as [H|H]; [auto|]. right. apply (buf_emit_in _ _ _ _ _ E). auto.
Qed.

(* ---------- C16: whatever the trigger configuration, the consolidated output is the grouping ---------- *)
Section Final.
  Variable ST : Type.
  Variable rinit : ST.
  Variable radd : bool -> list value -> ST -> ST.
  Variable rout : ST -> list value.
  Variable nk : nat.
  Variable kti : option nat.
  Variable na : nat.
  Hypothesis HR : net_determined ST rinit radd rout nk na.

  (* every record = nk key columns ++ na aggregate inputs *)
  Definition has_arity (l : list rec) : Prop := forall r, In r l -> length (vals r) = (nk + na)%nat.
  Lemma has_arity_keys l : has_arity l -> has_keys nk l.
  Proof. intros H r Hr. rewrite (H r Hr). lia. Qed.
  Lemma has_arity_args l : has_arity l -> args_arity nk na l.
  Proof. intros H r Hr. unfold argf. rewrite skipn_length, (H r Hr). lia. Qed.

  Theorem gb_final trigs inp :
    has_arity (records inp) ->
    pvalid (records inp) ->
    (is_simple trigs = false -> pvalid (records (etb_run_finish inp))) ->
    (forall r, In r (records inp) -> et r <= max_wm) ->
    forall row, consolidate (records (gb_run ST rinit radd rout wless nk kti trigs inp)) row
                = bag_group ST rinit radd rout nk (records inp) row.
  Proof.
    intros HA V VD T row. pose proof (has_arity_keys _ HA) as HK. unfold gb_run. destruct (is_simple trigs) eqn:S.
    - rewrite (sgb_final ST rinit radd rout nk inp HK). apply (bag_inc_group ST rinit radd rout nk na HR); [apply has_arity_args; exact HA | exact V].
    - assert (NE : trigs <> []) by (intro E; subst; discriminate).
      assert (HK' : has_keys nk (records (etb_run_finish inp))).
      { intros r Hr. apply HK. apply etb_no_invention. exact Hr. }
      assert (HA' : has_arity (records (etb_run_finish inp))).
      { intros r Hr. apply HA. apply etb_no_invention. exact Hr. }
      rewrite (ctg_final ST rinit radd rout nk kti trigs _ NE HK').
      rewrite (bag_inc_group ST rinit radd rout nk na HR _ (has_arity_args _ HA') (VD eq_refl)).
      apply (bag_group_consolidated ST rinit radd rout nk na HR);
        [apply has_arity_args; exact HA' | apply has_arity_args; exact HA | exact (VD eq_refl) | exact V|].
      apply etb_consolidate. exact T.
  Qed.
End Final.

(* ---------- witnesses ---------- *)
(* The pinned watermarkTriggerKey.Less compares time.Time with ==: two different groups whose time keys
   are the same instant in different locations are one item of the tree, and one group is never emitted. *)
Definition w_cfg : gb_cfg := mkcfg 2 [ACount] (Some 0%nat) [TWatermark].
Definition w_inp : list event :=
  [Rec (mkrec [VTime 1000 1; VInt 1; VInt 7] false 1000); Rec (mkrec [VTime 1000 2; VInt 2; VInt 7] false 1000)].
Lemma pinned_loses_a_group :
  exists c inp out row, run_group_by_pinned c inp = Ok out /\
    gb_input_ok (g_nk c, g_aggs c, g_kti c, g_trigs c, inp, out) = true /\
    valid_changelog (records (etb_run_finish inp)) = true /\
    consolidate (records out) row <> c_bag_group c (records inp) row.
Proof.
  exists w_cfg, w_inp, (match run_group_by_pinned w_cfg w_inp with Ok o => o | _ => [] end), [VTime 1000 1; VInt 1; VInt 1].
  vm_compute. repeat split; discriminate.
Qed.
(* with the fixed comparator the same input is grouped correctly *)
Lemma fixed_keeps_the_group :
  exists out, run_group_by w_cfg w_inp = Ok out /\ c_out_is_group_of w_cfg (records w_inp) (records out) = true.
Proof. exists (match run_group_by w_cfg w_inp with Ok o => o | _ => [] end). vm_compute. split; reflexivity. Qed.

(* The recorded finding: the event-time buffer delivers a retraction before the insertion it retracts, the
   group's record count passes through 0 and its aggregate state is thrown away. *)
Definition r_cfg : gb_cfg := mkcfg 1 [ASum] None [TCounting 1].
Definition r_inp : list event :=
  [Rec (mkrec [VInt 1; VInt 5] false 5); Rec (mkrec [VInt 1; VInt 5] true 3); Rec (mkrec [VInt 1; VInt 7] false 4)].
Lemma reordered_retraction_loses_state :
  exists c inp out row, run_group_by c inp = Ok out /\
    gb_input_ok (g_nk c, g_aggs c, g_kti c, g_trigs c, inp, out) = true /\
    valid_changelog (records (etb_run_finish inp)) = false /\
    consolidate (records out) row <> c_bag_group c (records inp) row.
Proof.
  exists r_cfg, r_inp, (match run_group_by r_cfg r_inp with Ok o => o | _ => [] end), [VInt 1; VInt 7].
  vm_compute. repeat split; discriminate.
Qed.

(* ---------- COUNT and SUM(Int) vectors are net-multiset determined ---------- *)
Lemma wrap64_idem_add x y : wrap64 (wrap64 x + y) = wrap64 (x + y).
Proof.
  unfold wrap64. f_equal.
  replace ((x + two63) mod two64 - two63 + y + two63) with ((x + two63) mod two64 + y) by lia.
  rewrite Zplus_mod_idemp_l. f_equal. lia.
Qed.

Definition nn (v : value) : Z := match v with VNull => 0 | _ => 1 end.
Definition wgt (a : cagg) (v : value) : Z := match a with ACount => nn v | ASum => match v with VNull => 0 | _ => vint v end end.
Definition hdv (row : list value) : value := hd VNull row.
Definition tlr (r : rec) : rec := mkrec (tl (vals r)) (retr r) (et r).

Lemma vcompare0_nn a b : vcompare a b = 0 -> nn a = nn b.
Proof. intro H. destruct a, b; try reflexivity; exfalso; tid_solve; discriminate. Qed.
Lemma vcompare0_vint a b : vcompare a b = 0 -> vint a = vint b.
Proof.
  intro H. destruct a, b; try reflexivity; try (exfalso; tid_solve; discriminate).
  rewrite vc_int in H. unfold zcmp in H. simpl. destruct (Z.ltb_spec z z0); [discriminate|]. destruct (Z.ltb_spec z0 z); [discriminate | lia].
Qed.
Lemma row_eqb_hd a b : row_eqb a b = true -> vcompare (hdv a) (hdv b) = 0.
Proof.
  unfold row_eqb, hdv. destruct a as [|x xs], b as [|y ys]; simpl; try discriminate; [reflexivity|].
  destruct (Z.eqb_spec (vcompare x y) 0); [auto | intro H; apply Z.eqb_eq in H; contradiction].
Qed.
Lemma row_eqb_tl a b : row_eqb a b = true -> row_eqb (tl a) (tl b) = true.
Proof. intro H. apply (row_eqb_skipn 1 a b H). Qed.

Lemma respects_nn_hd : respects (fun row => nn (hdv row)).
Proof. intros a b H. apply vcompare0_nn, row_eqb_hd, H. Qed.
Lemma respects_wgt_hd a : respects (fun row => wgt a (hdv row)).
Proof.
  intros x y H. pose proof (row_eqb_hd _ _ H) as V. unfold wgt. destruct a; [apply vcompare0_nn; exact V|].
  pose proof (vcompare0_nn _ _ V) as N. pose proof (vcompare0_vint _ _ V) as I.
  destruct (hdv x), (hdv y); simpl in *; try lia.
Qed.

(* one aggregate column folded over the heads of the argument rows *)
Definition col_step (a : cagg) (st : Z * Z) (r : rec) : Z * Z :=
  match hdv (vals r) with
  | VNull => st
  | v => (cadd a (retr r) v (fst st), if retr r then snd st - 1 else snd st + 1)
  end.
Lemma col_step_eq a s0 c0 r :
  col_step a (wrap64 s0, c0) r
  = (wrap64 (s0 + sign r * wgt a (hdv (vals r))), c0 + sign r * nn (hdv (vals r))).
Proof.
  unfold col_step, sign. destruct (hdv (vals r)) eqn:Hd; cbn [fst snd].
  1: { destruct a, (retr r); cbn [wgt nn]; f_equal; try lia; f_equal; lia. }
  all: destruct a, (retr r); unfold cadd, wgt; cbn [nn vint]; (apply f_equal2; [|lia]);
       try match goal with |- wrap64 (wrap64 ?x - ?y) = _ => replace (wrap64 x - y) with (wrap64 x + (- y)) by lia end;
       rewrite wrap64_idem_add; f_equal; lia.
Qed.

Lemma col_fold a : forall ah s0 c0,
  fold_left (col_step a) ah (wrap64 s0, c0)
  = (wrap64 (s0 + measure (fun row => wgt a (hdv row)) ah), c0 + measure (fun row => nn (hdv row)) ah).
Proof.
  unfold measure. induction ah as [|r ah IH]; intros s0 c0; cbn [fold_left map zsum]; [f_equal; [f_equal|]; lia|].
  rewrite col_step_eq, IH. f_equal; [f_equal|]; lia.
Qed.

Definition vfold (ks : list cagg) (st : vec_state Z) (ah : list rec) : vec_state Z :=
  fold_left (fun st r => vec_add cagg Z cadd ks (retr r) (vals r) st) ah st.

Lemma vfold_cons a ks : forall ah sc st, (forall r, In r ah -> length (vals r) = Datatypes.S (length ks)) ->
  vfold (a :: ks) (sc :: st) ah = fold_left (col_step a) ah sc :: vfold ks st (map tlr ah).
Proof.
  unfold vfold. induction ah as [|r ah IH]; intros sc st L; [reflexivity|].
  assert (Lr := L r (or_introl eq_refl)).
  assert (exists v rest, vals r = v :: rest) as [v [rest Vr]] by (destruct (vals r); [discriminate | eauto]).
  destruct sc as [s c]. cbn [fold_left map].
  assert (E1 : col_step a (s, c) r = match v with VNull => (s, c) | _ => (cadd a (retr r) v s, if retr r then c - 1 else c + 1) end).
  { unfold col_step. rewrite Vr. unfold hdv. simpl. destruct v; reflexivity. }
  assert (E3 : vec_add cagg Z cadd (a :: ks) (retr r) (vals r) ((s, c) :: st)
               = col_step a (s, c) r :: vec_add cagg Z cadd ks (retr (tlr r)) (vals (tlr r)) st).
  { rewrite E1. unfold tlr. rewrite Vr. reflexivity. }
  rewrite E3. apply IH. intros r' Hr'. apply L. right. exact Hr'.
Qed.

Fixpoint vspec (ks : list cagg) (ah : list rec) : list value :=
  match ks with
  | [] => []
  | a :: ks' => (if 0 <? measure (fun row => nn (hdv row)) ah
                 then VInt (wrap64 (measure (fun row => wgt a (hdv row)) ah)) else VNull)
                :: vspec ks' (map tlr ah)
  end.

Lemma vec_out_spec : forall ks ah, (forall r, In r ah -> length (vals r) = length ks) ->
  vec_out cagg Z ctrig ks (vfold ks (vec_init cagg Z cinit ks) ah) = vspec ks ah.
Proof.
  induction ks as [|a ks IH]; intros ah L; [unfold vfold; simpl; clear L; induction ah; simpl; auto|].
  simpl vec_init. rewrite vfold_cons by exact L.
  change (cinit a, 0) with (wrap64 0, 0). rewrite col_fold. simpl. f_equal.
  apply IH. intros r Hr. apply in_map_iff in Hr. destruct Hr as [r0 [E Hr0]]. subst. simpl.
  specialize (L r0 Hr0). destruct (vals r0); simpl in *; congruence.
Qed.

Lemma consolidate_tl ah row : consolidate (map tlr ah) row = measure (fun x => if row_eqb (tl x) row then 1 else 0) ah.
Proof. unfold measure. induction ah as [|r ah IH]; simpl; [reflexivity|]. rewrite IH. unfold sign. simpl. destruct (row_eqb (tl (vals r)) row), (retr r); lia. Qed.

Lemma vspec_determined : forall ks ah1 ah2, (forall row, consolidate ah1 row = consolidate ah2 row) -> vspec ks ah1 = vspec ks ah2.
Proof.
  induction ks as [|a ks IH]; intros ah1 ah2 H; [reflexivity|]. simpl.
  rewrite (measure_determined _ ah1 ah2 respects_nn_hd H), (measure_determined _ ah1 ah2 (respects_wgt_hd a) H).
  f_equal. apply IH. intro row. rewrite !consolidate_tl. apply measure_determined; [|exact H].
  intros x y E. rewrite (row_eqb_cong _ _ row (row_eqb_tl x y E)). reflexivity.
Qed.

Theorem count_sum_net_determined ks nk :
  net_determined (vec_state Z) (vec_init cagg Z cinit ks) (vec_add cagg Z cadd ks) (vec_out cagg Z ctrig ks) nk (length ks).
Proof.
  intros h1 h2 A1 A2 _ _ H.
  assert (F : forall h, rfold (vec_state Z) (vec_init cagg Z cinit ks) (vec_add cagg Z cadd ks) nk h
                        = vfold ks (vec_init cagg Z cinit ks) (amap nk h)).
  { intro h. unfold rfold, vfold, amap. generalize (vec_init cagg Z cinit ks). induction h as [|r h IH]; intro st; simpl; [reflexivity | apply IH]. }
  rewrite !F, !vec_out_spec.
  - apply vspec_determined. exact H.
  - intros r Hr. unfold amap in Hr. apply in_map_iff in Hr. destruct Hr as [r0 [E Hr0]]. subst. simpl. apply A2. exact Hr0.
  - intros r Hr. unfold amap in Hr. apply in_map_iff in Hr. destruct Hr as [r0 [E Hr0]]. subst. simpl. apply A1. exact Hr0.
Qed.

(* ---------- C16 for the executable instance: COUNT / SUM(Int) ---------- *)
Theorem count_sum_final c inp :
  gb_input_ok (g_nk c, g_aggs c, g_kti c, g_trigs c, inp, []) = true ->
  delivered_valid (g_nk c, g_aggs c, g_kti c, g_trigs c, inp, []) = true ->
  exists out, run_group_by c inp = Ok out /\
              forall row, consolidate (records out) row = c_bag_group c (records inp) row.
Proof.
  unfold gb_input_ok, delivered_valid, case_cfg, case_inp, run_group_by. destruct c as [nk ags kti trigs]. simpl.
  intros H D. apply andb_true_iff in H. destruct H as [H T]. apply andb_true_iff in H. destruct H as [H V].
  apply andb_true_iff in H. destruct H as [OK A]. rewrite OK. eexists. split; [reflexivity|].
  unfold gb_run_with, c_bag_group. simpl.
  apply (gb_final (vec_state Z) _ _ _ nk kti (length ags) (count_sum_net_determined ags nk) trigs inp).
  - intros r Hr. apply Nat2Z.inj. apply (proj1 (arity_ok_forall _ _) A r Hr).
  - apply valid_changelog_pvalid. exact V.
  - intro S. rewrite S in D. simpl in D. apply valid_changelog_pvalid. exact D.
  - intros r Hr. rewrite forallb_forall in T. apply Z.leb_le. apply T. exact Hr.
Qed.
