(* Proofs/C09Proofs.v — the containers' key equalities all coincide with "Compare = 0 column by column". *)
From Octo Require Import Values ValueInd CompareLaws C09Spec.

Lemma vhash_eq : forall a b, vcompare a b = 0 -> vhash a = vhash b.
Proof. intros a b H. unfold vhash. rewrite (vcompare_enc a b H). reflexivity. Qed.

Lemma vhash_many_eq : forall ka kb, lex_cmp vcompare ka kb = 0 -> vhash_many ka = vhash_many kb.
Proof. intros ka kb H. unfold vhash_many. rewrite (rows_enc ka kb H). reflexivity. Qed.

Lemma bool_eq_iff : forall a b : bool, (a = true <-> b = true) -> a = b.
Proof. intros [] [] [H1 H2]; auto; try (symmetry; auto); try discriminate (H1 eq_refl). Qed.

Lemma eq_tree_row : forall k1 k2, length k1 = length k2 -> eq_tree k1 k2 = row_eqb k1 k2.
Proof.
  intros k1 k2 L. rewrite <- (slices_eq_row_eqb k1 k2 L). apply bool_eq_iff.
  rewrite (slices_eq_iff k1 k2 L). unfold eq_tree.
  destruct (slices_less k1 k2), (slices_less k2 k1); simpl; intuition congruence.
Qed.

Lemma eq_hashmap_row : forall k1 k2, length k1 = length k2 -> eq_hashmap k1 k2 = row_eqb k1 k2.
Proof.
  intros k1 k2 L. unfold eq_hashmap. rewrite (slices_eq_row_eqb k1 k2 L).
  unfold row_eqb. destruct (Z.eqb_spec (lex_cmp vcompare k1 k2) 0) as [e|ne].
  - rewrite (vhash_many_eq k1 k2 e), Z.eqb_refl. reflexivity.
  - apply andb_false_r.
Qed.

Lemma eq_count_distinct_spec : forall a b, eq_count_distinct a b = (vcompare a b =? 0).
Proof.
  intros a b. unfold eq_count_distinct. destruct (Z.eqb_spec (vcompare a b) 0) as [e|ne].
  - rewrite (vhash_eq a b e), Z.eqb_refl. reflexivity.
  - apply andb_false_r.
Qed.

Lemma row_eqb_cons : forall x xs y ys,
  row_eqb (x :: xs) (y :: ys) = (vcompare x y =? 0) && row_eqb xs ys.
Proof.
  intros. unfold row_eqb. rewrite lex_cons. destruct (Z.eqb_spec (vcompare x y) 0) as [e|ne]; simpl.
  - reflexivity.
  - apply Z.eqb_neq. exact ne.
Qed.

Lemma ob_vals_less_eq : forall v1 v2, length v1 = length v2 ->
  is_ok_false (ob_vals_less v1 v2) && is_ok_false (ob_vals_less v2 v1) = row_eqb v1 v2.
Proof.
  induction v1 as [|x xs IH]; intros [|y ys] L; simpl in L; try discriminate; [reflexivity|].
  rewrite row_eqb_cons. simpl. rewrite (vcompare_antisym x y).
  destruct (vcompare_range x y) as [E|[E|E]]; rewrite E; simpl; try reflexivity.
  apply IH. lia.
Qed.

Lemma eq_orderby_row : forall mults k1 k2 v1 v2,
  length k1 = length k2 -> length mults = length k1 -> length v1 = length v2 ->
  Forall (fun m => m = 1 \/ m = -1) mults ->
  eq_orderby mults k1 v1 k2 v2 = row_eqb k1 k2 && row_eqb v1 v2.
Proof.
  unfold eq_orderby.
  induction mults as [|m ms IH]; intros [|x xs] [|y ys] v1 v2 L1 L2 L3 HF; simpl in L1, L2; try discriminate.
  - simpl. apply ob_vals_less_eq. exact L3.
  - rewrite row_eqb_cons. simpl. rewrite (vcompare_antisym x y).
    inversion HF as [|? ? Hm HF']; subst.
    destruct (vcompare_range x y) as [E|[E|E]]; rewrite E; simpl.
    + destruct Hm; subst; reflexivity.
    + apply IH; auto; lia.
    + destruct Hm; subst; reflexivity.
Qed.

Theorem c09_agree : forall k1 k2, length k1 = length k2 ->
  eq_tree k1 k2 = row_eqb k1 k2 /\
  eq_hashmap k1 k2 = row_eqb k1 k2 /\
  (forall mults, length mults = length k1 -> Forall (fun m => m = 1 \/ m = -1) mults ->
     eq_orderby mults k1 k1 k2 k2 = row_eqb k1 k2).
Proof.
  intros k1 k2 L. split; [apply eq_tree_row; exact L|]. split; [apply eq_hashmap_row; exact L|].
  intros mults Lm HF. rewrite (eq_orderby_row mults k1 k2 k1 k2 L Lm L HF).
  destruct (row_eqb k1 k2); reflexivity.
Qed.

Theorem c09_agree_single : forall a b,
  eq_count_distinct a b = (vcompare a b =? 0) /\
  row_eqb [a] [b] = (vcompare a b =? 0) /\
  (a <> VNull \/ b <> VNull -> vequal a b = (vcompare a b =? 0)).
Proof.
  intros a b. split; [apply eq_count_distinct_spec|]. split.
  - rewrite row_eqb_cons. unfold row_eqb. simpl. apply andb_true_r.
  - intro H. unfold vequal. destruct a, b; try reflexivity. destruct H; congruence.
Qed.
