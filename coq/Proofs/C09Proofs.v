(* Proofs/C09Proofs.v — the containers' key equalities all coincide with "Compare = 0 column by column". *)
From Octo Require Import Values ValueInd CompareLaws C09Spec.

Lemma vhash_eq : forall a b, vcompare a b = 0 -> vhash a = vhash b.
Proof. intros a b H. unfold vhash. rewrite (vcompare_enc a b H). reflexivity. Qed.

Lemma vhash_many_eq : forall ka kb, lex_cmp vcompare ka kb = 0 -> vhash_many ka = vhash_many kb.
Proof. intros ka kb H. unfold vhash_many. rewrite (rows_enc ka kb H). reflexivity. Qed.

Lemma bool_eq_iff : forall a b : bool, (a = true <-> b = true) -> a = b.
Proof. intros [] [] [H1 H2]; auto; try (symmetry; auto); try discriminate (H1 eq_refl). Qed.

Lemma eq_tree_row : forall k1 k2, length k1 = length k2 -> eq_tree k1 k2 = row_eqb k1 k2.
Proof.
  intros k1 k2 L. rewrite <- (slices_eq_row_eqb k1 k2 L). apply bool_eq_iff.
  rewrite (slices_eq_iff k1 k2 L). unfold eq_tree.
  destruct (slices_less k1 k2), (slices_less k2 k1); simpl; intuition congruence.
Qed.

Lemma eq_hashmap_row : forall k1 k2, length k1 = length k2 -> eq_hashmap k1 k2 = row_eqb k1 k2.
Proof.
  intros k1 k2 L. unfold eq_hashmap. rewrite (slices_eq_row_eqb k1 k2 L).
  unfold row_eqb. destruct (Z.eqb_spec (lex_cmp vcompare k1 k2) 0) as [e|ne].
  - rewrite (vhash_many_eq k1 k2 e), Z.eqb_refl. reflexivity.
  - apply andb_false_r.
Qed.

Lemma eq_count_distinct_spec : forall a b, eq_count_distinct a b = (vcompare a b =? 0).
Proof.
  intros a b. unfold eq_count_distinct. destruct (Z.eqb_spec (vcompare a b) 0) as [e|ne].
  - rewrite (vhash_eq a b e), Z.eqb_refl. reflexivity.
  - apply andb_false_r.
Qed.

Lemma row_eqb_cons : forall x xs y ys,
  row_eqb (x :: xs) (y :: ys) = (vcompare x y =? 0) && row_eqb xs ys.
Proof.
  intros. unfold row_eqb. rewrite lex_cons. destruct (Z.eqb_spec (vcompare x y) 0) as [e|ne]; simpl.
  - reflexivity.
  - apply Z.eqb_neq. exact ne.
Qed.

Lemma ob_vals_less_eq : forall v1 v2, length v1 = length v2 ->
  is_ok_false (ob_vals_less v1 v2) && is_ok_false (ob_vals_less v2 v1) = row_eqb v1 v2.
Proof.
  induction v1 as [|x xs IH]; intros [|y ys] L; simpl in L; try discriminate; [reflexivity|].
  rewrite row_eqb_cons. simpl. rewrite (vcompare_antisym x y).
  destruct (vcompare_range x y) as [E|[E|E]]; rewrite E; simpl; try reflexivity.
  apply IH. lia.
Qed.

Lemma eq_orderby_row : forall mults k1 k2 v1 v2,
  length k1 = length k2 -> length mults = length k1 -> length v1 = length v2 ->
  Forall (fun m => m = 1 \/ m = -1) mults ->
  eq_orderby mults k1 v1 k2 v2 = row_eqb k1 k2 && row_eqb v1 v2.
Proof.
  unfold eq_orderby.
  induction mults as [|m ms IH]; intros [|x xs] [|y ys] v1 v2 L1 L2 L3 HF; simpl in L1, L2; try discriminate.
  - simpl. apply ob_vals_less_eq. exact L3.
  - rewrite row_eqb_cons. simpl. rewrite (vcompare_antisym x y).
    inversion HF as [|? ? Hm HF']; subst.
    destruct (vcompare_range x y) as [E|[E|E]]; rewrite E; simpl.
    + destruct Hm; subst; reflexivity.
    + apply IH; auto; lia.
    + destruct Hm; subst; reflexivity.
Qed.

Theorem c09_agree : forall k1 k2, length k1 = length k2 ->
  eq_tree k1 k2 = row_eqb k1 k2 /\
  eq_hashmap k1 k2 = row_eqb k1 k2 /\
  (forall mults, length mults = length k1 -> Forall (fun m => m = 1 \/ m = -1) mults ->
     eq_orderby mults k1 k1 k2 k2 = row_eqb k1 k2).
Proof.
  intros k1 k2 L. split; [apply eq_tree_row; exact L|]. split; [apply eq_hashmap_row; exact L|].
  intros mults Lm HF. rewrite (eq_orderby_row mults k1 k2 k1 k2 L Lm L HF).
  destruct (row_eqb k1 k2); reflexivity.
Qed.

Theorem c09_agree_single : forall a b,
  eq_count_distinct a b = (vcompare a b =? 0) /\
  row_eqb [a] [b] = (vcompare a b =? 0) /\
  (a <> VNull \/ b <> VNull -> vequal a b = (vcompare a b =? 0)).
Proof.
  intros a b. split; [apply eq_count_distinct_spec|]. split.
  - rewrite row_eqb_cons. unfold row_eqb. simpl. apply andb_true_r.
  - intro H. unfold vequal. destruct a, b; try reflexivity. destruct H; congruence.
Qed.

(* ---- the hashmap operators keep one representative per class ---- *)
Section Nub.
  Variable eq : list value -> list value -> bool.
  Hypothesis eq_rfl : forall r, eq r r = true.

  Definition nub_add (ks : list (list value)) (r : list value) : list (list value) :=
    if existsb (fun k => eq k r) ks then ks else ks ++ [r].

  Lemma hm_add_keys : forall r gs, map g_first (hm_add eq r gs) = nub_add (map g_first gs) r.
  Proof.
    unfold nub_add. induction gs as [|g gs IH]; [reflexivity|]. simpl.
    destruct (eq (g_first g) r); simpl; [reflexivity|]. rewrite IH.
    destruct (existsb (fun k => eq k r) (map g_first gs)); reflexivity.
  Qed.

  Lemma hm_groups_keys : forall rows gs,
    map g_first (fold_left (fun gs r => hm_add eq r gs) rows gs) = fold_left nub_add rows (map g_first gs).
  Proof. induction rows as [|r rows IH]; intro gs; [reflexivity|]. simpl. rewrite IH, hm_add_keys. reflexivity. Qed.

  Lemma nub_add_incl : forall ks r k, In k ks -> In k (nub_add ks r).
  Proof. intros ks r k H. unfold nub_add. destruct (existsb _ ks); [exact H | apply in_or_app; left; exact H]. Qed.
  Lemma nub_fold_incl : forall rows ks k, In k ks -> In k (fold_left nub_add rows ks).
  Proof. induction rows as [|r rows IH]; intros ks k H; [exact H|]. simpl. apply IH. apply nub_add_incl. exact H. Qed.

  Lemma nub_covers : forall rows ks r, In r rows -> exists o, In o (fold_left nub_add rows ks) /\ eq o r = true.
  Proof.
    induction rows as [|x rows IH]; intros ks r H; [destruct H|]. simpl. destruct H as [H|H]; [subst x | apply IH; exact H].
    unfold nub_add at 2. destruct (existsb (fun k => eq k r) ks) eqn:E.
    - apply existsb_exists in E. destruct E as [k [Hk Ek]]. exists k. split; [apply nub_fold_incl; exact Hk | exact Ek].
    - exists r. split; [apply nub_fold_incl; apply in_or_app; right; left; reflexivity | apply eq_rfl].
  Qed.

  Lemma nub_from : forall rows ks o, In o (fold_left nub_add rows ks) -> In o ks \/ In o rows.
  Proof.
    induction rows as [|x rows IH]; intros ks o H; [left; exact H|]. simpl in H. destruct (IH _ _ H) as [H1|H1]; [|right; right; exact H1].
    unfold nub_add in H1. destruct (existsb _ ks); [left; exact H1|]. apply in_app_or in H1. destruct H1 as [H1|[H1|[]]]; [left; exact H1 | right; left; exact H1].
  Qed.

  Definition separated (ks : list (list value)) : Prop := ForallOrdPairs (fun a b => eq a b = false) ks.

  Lemma separated_snoc : forall ks r, separated ks -> (forall k, In k ks -> eq k r = false) -> separated (ks ++ [r]).
  Proof.
    induction 1 as [|k ks Hk _ IH]; intro H; simpl; [repeat constructor|].
    constructor.
    - apply Forall_app. split; [exact Hk | constructor; [apply H; left; reflexivity | constructor]].
    - apply IH. intros k' Hk'. apply H. right. exact Hk'.
  Qed.

  Lemma nub_separated : forall rows ks, separated ks -> separated (fold_left nub_add rows ks).
  Proof.
    induction rows as [|r rows IH]; intros ks S; [exact S|]. simpl. apply IH. unfold nub_add.
    destruct (existsb (fun k => eq k r) ks) eqn:E; [exact S|]. apply separated_snoc; [exact S|].
    intros k Hk. destruct (eq k r) eqn:Ek; [|reflexivity]. exfalso.
    assert (existsb (fun k => eq k r) ks = true) by (apply existsb_exists; exists k; auto). congruence.
  Qed.
End Nub.

Lemma slices_eq_refl : forall r, slices_eq r r = true.
Proof. induction r as [|x r IH]; [reflexivity|]. simpl. rewrite vcompare_refl. exact IH. Qed.
Lemma eq_hashmap_refl : forall r, eq_hashmap r r = true.
Proof. intro r. unfold eq_hashmap. rewrite Z.eqb_refl, slices_eq_refl. reflexivity. Qed.

(* DISTINCT (and the key column of the hashmap GROUP BY) returns exactly one representative, taken from the input,
   of every class of "Compare = 0 column by column" rows *)
Theorem op_distinct_classes : forall n rows, Forall (fun r => length r = n) rows ->
  (forall r, In r rows -> exists o, In o (op_distinct rows) /\ row_eqb o r = true) /\
  (forall o, In o (op_distinct rows) -> In o rows) /\
  ForallOrdPairs (fun a b => row_eqb a b = false) (op_distinct rows).
Proof.
  intros n rows L. unfold op_distinct, hm_groups. rewrite hm_groups_keys. simpl.
  assert (Sub : forall o, In o (fold_left (nub_add eq_hashmap) rows []) -> In o rows).
  { intros o H. destruct (nub_from eq_hashmap rows [] o H) as [[]|H1]. exact H1. }
  rewrite Forall_forall in L. split; [|split].
  - intros r Hr. destruct (nub_covers eq_hashmap eq_hashmap_refl rows [] r Hr) as [o [Ho E]]. exists o. split; [exact Ho|].
    rewrite <- (eq_hashmap_row o r); [exact E|]. rewrite (L o (Sub o Ho)), (L r Hr). reflexivity.
  - exact Sub.
  - pose proof (nub_separated eq_hashmap rows [] (FOP_nil _)) as S. unfold separated in S.
    assert (G : forall l, (forall o, In o l -> In o rows) -> ForallOrdPairs (fun a b => eq_hashmap a b = false) l ->
                ForallOrdPairs (fun a b => row_eqb a b = false) l).
    { induction 2 as [|a l Ha _ IH]; constructor.
      - rewrite Forall_forall in *. intros b Hb. rewrite <- (eq_hashmap_row a b); [apply Ha; exact Hb|].
        rewrite (L a (H a (or_introl eq_refl))), (L b (H b (or_intror Hb))). reflexivity.
      - apply IH. intros o Ho. apply H. right. exact Ho. }
    apply G; assumption.
Qed.

Lemma op_sgb_keys : forall rows, map (fun r => firstn (length r - 1) r) (op_simple_group_by rows) = op_distinct rows.
Proof.
  intro rows. unfold op_simple_group_by, op_distinct. rewrite map_map. apply map_ext. intro g.
  rewrite app_length. simpl. replace (length (g_first g) + 1 - 1)%nat with (length (g_first g) + 0)%nat by lia.
  rewrite firstn_app_2. simpl. apply app_nil_r.
Qed.
