(* Proofs/TypesSumProofs.v — TypeSum is an upper bound on types without struct / tuple components. *)
From Octo Require Import Types TypesIsProofs TypesTransProofs.

(* sorting keeps the elements *)
Lemma insert_by_tid_in : forall x y l, In y (insert_by_tid x l) <-> y = x \/ In y l.
Proof.
  induction l as [|z l IH]; simpl; [intuition|].
  destruct (tyid x <? tyid z); simpl; [intuition|]. rewrite IH. intuition.
Qed.
Lemma sort_acc_in : forall y l acc, In y (fold_left (fun acc x => insert_by_tid x acc) l acc) <-> In y l \/ In y acc.
Proof.
  induction l as [|x l IH]; intro acc; simpl; [intuition|]. rewrite IH, insert_by_tid_in. intuition.
Qed.
Lemma sort_in : forall y l, In y (sort_by_tid l) <-> In y l.
Proof. intros. unfold sort_by_tid. rewrite sort_acc_in. simpl. intuition. Qed.

Definition upper (a b r : ty) : Prop := st_free r = true /\ is_rel a r = Is /\ is_rel b r = Is.

Lemma st_free_union : forall l, st_free (TUnion l) = true <-> (forall x, In x l -> st_free x = true).
Proof. intro l. simpl. apply forallb_forall. Qed.

Lemma upper_union_of : forall a b l, st_free a = true -> st_free b = true ->
  (forall x, In x l <-> x = a \/ x = b) -> upper a b (TUnion l).
Proof.
  intros a b l Sa Sb H. split; [|split].
  - apply st_free_union. intros x Hx. apply H in Hx. destruct Hx; subst; assumption.
  - apply (is_in_union a l a); [apply H; auto | apply is_refl].
  - apply (is_in_union b l b); [apply H; auto | apply is_refl].
Qed.

Section LevelUp.
  Variable rec : ty -> ty -> outcome ty.
  Hypothesis Hrec : forall x y r, st_free x = true -> st_free y = true -> rec x y = Ok r -> upper x y r.

  Lemma sum_flat_up : forall a b r, st_free a = true -> st_free b = true -> sum_flat rec a b = Ok r -> upper a b r.
  Proof.
    intros a b r Sa Sb H. unfold sum_flat in H.
    destruct (is_rel a b) eqn:Eab; simpl in H;
      try (inversion H; subst; split; [exact Sb | split; [exact Eab | apply is_refl]]).
    all: destruct (is_rel b a) eqn:Eba; simpl in H;
      try (inversion H; subst; split; [exact Sa | split; [apply is_refl | exact Eba]]).
    all: destruct a, b; try discriminate Sa; try discriminate Sb;
      try (inversion H; subst; apply upper_union_of; [assumption|assumption|]; intro x; rewrite sort_in; simpl; intuition).
    all: destruct e as [x|], e0 as [y|];
      try (inversion H; subst; split; [assumption | split; first [apply is_refl | reflexivity]]).
    all: simpl in Sa, Sb; destruct (rec x y) as [s| |] eqn:E; simpl in H; try discriminate H; inversion H; subst;
      destruct (Hrec x y s Sa Sb E) as [Ss [H1 H2]]; (split; [exact Ss | split; simpl; [rewrite H1 | rewrite H2]; reflexivity]).
  Qed.

  Lemma replace_first_up : forall alts b l, (forall a, In a alts -> st_free a = true) -> st_free b = true ->
    replace_first_tid rec alts b = Some (Ok l) ->
    (forall x, In x l -> st_free x = true) /\
    (forall a, In a alts -> exists a', In a' l /\ is_rel a a' = Is) /\
    (exists b', In b' l /\ is_rel b b' = Is).
  Proof.
    induction alts as [|a alts IH]; intros b l Sa Sb H; simpl in H; [discriminate|].
    destruct (tyid a =? tyid b).
    - destruct (sum_flat rec a b) as [s| |] eqn:E; simpl in H; try discriminate H. inversion H; subst.
      destruct (sum_flat_up a b s (Sa a (or_introl eq_refl)) Sb E) as [Ss [H1 H2]].
      split; [|split].
      + intros x [Hx|Hx]; [subst; exact Ss | apply Sa; right; exact Hx].
      + intros a0 [Ha|Ha]; [subst; exists s; split; [left; reflexivity | exact H1] | exists a0; split; [right; exact Ha | apply is_refl]].
      + exists s. split; [left; reflexivity | exact H2].
    - destruct (replace_first_tid rec alts b) as [o|] eqn:E; [|discriminate].
      destruct o as [l'| |]; simpl in H; try discriminate H. inversion H; subst.
      destruct (IH b l' (fun x Hx => Sa x (or_intror Hx)) Sb E) as [S1 [S2 [b' [Hb' Eb']]]].
      split; [|split].
      + intros x [Hx|Hx]; [subst; apply Sa; left; reflexivity | apply S1; exact Hx].
      + intros a0 [Ha|Ha]; [subst; exists a0; split; [left; reflexivity | apply is_refl]|].
        destruct (S2 a0 Ha) as [a' [Ha' Ea']]. exists a'. split; [right; exact Ha' | exact Ea'].
      + exists b'. split; [right; exact Hb' | exact Eb'].
  Qed.

  Lemma sum_union_single_up : forall alts b r, st_free (TUnion alts) = true -> st_free b = true ->
    sum_union_single rec alts b = Ok r -> upper (TUnion alts) b r.
  Proof.
    intros alts b r Sa Sb H. unfold sum_union_single in H. rewrite st_free_union in Sa.
    destruct (replace_first_tid rec alts b) as [o|] eqn:E.
    - destruct o as [l| |]; simpl in H; try discriminate H. inversion H; subst.
      destruct (replace_first_up alts b l Sa Sb E) as [S1 [S2 [b' [Hb' Eb']]]].
      split; [apply st_free_union; exact S1 | split].
      + apply is_rel_union_l_Is. intros a Ha. destruct (S2 a Ha) as [a' [Ha' Ea']]. apply (is_in_union a l a' Ha' Ea').
      + apply (is_in_union b l b' Hb' Eb').
    - inversion H; subst. split; [|split].
      + apply st_free_union. intros x Hx. apply (proj1 (sort_in _ _)) in Hx. apply in_app_or in Hx. destruct Hx as [Hx|[Hx|[]]]; [apply Sa; exact Hx | subst; exact Sb].
      + apply is_rel_union_l_Is. intros a Ha. apply (is_in_union a _ a); [apply (proj2 (sort_in _ _)); apply in_or_app; left; exact Ha | apply is_refl].
      + apply (is_in_union b _ b); [apply (proj2 (sort_in _ _)); apply in_or_app; right; left; reflexivity | apply is_refl].
  Qed.

  Lemma fold_not_ok : forall (g : ty -> ty -> outcome ty) l out r, (forall o, out <> Ok o) ->
    (fix fold (l : list ty) (out : outcome ty) : outcome ty :=
       match l with [] => out | bk :: rest => fold rest (obind out (fun o => g o bk)) end) l out <> Ok r.
  Proof.
    induction l as [|bk l IH]; intros out r H; [apply H|]. apply IH. intros o. destruct out; simpl; try discriminate. exfalso. apply (H a). reflexivity.
  Qed.

  Lemma type_sum_level_up : forall b a r, st_free a = true -> st_free b = true ->
    type_sum_level rec a b = Ok r -> upper a b r.
  Proof.
    induction b as [ | | | | | | | |e IHe|fs IH|es IH|alts2 IH| ] using ty_ind'; intros a r Sa Sb H; rewrite type_sum_level_eq in H;
      (match type of H with context [is_Is (is_rel a ?b)] => destruct (is_rel a b) eqn:Eab; destruct (is_rel b a) eqn:Eba end;
       cbv beta iota delta [is_Is] in H;
       try (inversion H; subst; split; [exact Sb | split; [exact Eab | apply is_refl]]);
       try (inversion H; subst; split; [exact Sa | split; [apply is_refl | exact Eba]])).
    all: try discriminate Sb.
    all: destruct a as [ | | | | | | | e1 | fs1 | es1 | alts1 | ]; try discriminate Sa;
      try (apply sum_flat_up; assumption);
      try (apply sum_union_single_up; assumption);
      try (destruct (sum_union_single_up alts2 _ r Sb Sa H) as [S [H1 H2]]; split; [exact S | split; assumption]).
    (* both unions *)
    all: assert (G : forall l o r, (forall x, In x l -> In x alts2) -> st_free o = true ->
          (fix fold (l : list ty) (out : outcome ty) : outcome ty :=
             match l with [] => out | bk :: rest => fold rest (obind out (fun o => type_sum_level rec o bk)) end) l (Ok o) = Ok r ->
          st_free r = true /\ is_rel o r = Is /\ (forall x, In x l -> is_rel x r = Is));
      [ induction l as [|bk l IHl]; intros o r0 Hl So Hf;
        [ inversion Hf; subst; split; [exact So | split; [apply is_refl | intros x []]]
        | simpl in Hf; destruct (type_sum_level rec o bk) as [o'| |] eqn:Eo;
          [ rewrite Forall_forall in IH;
            destruct (IH bk (Hl bk (or_introl eq_refl)) o o' So (proj1 (st_free_union alts2) Sb bk (Hl bk (or_introl eq_refl))) Eo) as [So' [H1 H2]];
            destruct (IHl o' r0 (fun x Hx => Hl x (or_intror Hx)) So' Hf) as [Sr [H3 H4]];
            split; [exact Sr | split; [apply (is_trans o o' r0 H1 H3) | intros x [Hx|Hx]; [subst; apply (is_trans x o' r0 H2 H3) | apply H4; exact Hx]]]
          | exfalso; revert Hf; apply fold_not_ok; intros; discriminate
          | exfalso; revert Hf; apply fold_not_ok; intros; discriminate ] ]
      | destruct (G alts2 (TUnion alts1) r (fun x Hx => Hx) Sa H) as [Sr [H1 H2]];
        split; [exact Sr | split; [exact H1 | apply is_rel_union_l_Is; exact H2]] ].
  Qed.
End LevelUp.

Theorem sum_upper_stfree_gen : forall f a b r, st_free a = true -> st_free b = true ->
  type_sum f a b = Ok r -> upper a b r.
Proof.
  induction f as [|f IH]; intros a b r Sa Sb H; [discriminate H|].
  simpl in H. apply (type_sum_level_up (type_sum f) IH b a r Sa Sb H).
Qed.
