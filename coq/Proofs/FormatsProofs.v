(* Proofs/FormatsProofs.v — lemmas for C25 about Model/Formats.v: decimal integers, JSON string escaping,
   printing and parsing of JSON trees, ValueToJson on typed values, the CSV writer and the RFC 4180 reader. *)
From Octo Require Import Formats.
Open Scope Z_scope.


(* ---------- integers ---------- *)
Definition dstep (a d : Z) : Z := a * 10 + (d - 48).

Lemma nat_digits_app : forall fuel n acc, nat_digits fuel n acc = nat_digits fuel n [] ++ acc.
Proof.
  induction fuel as [|f IH]; intros n acc; cbn [nat_digits].
  - destruct (n <? 10); reflexivity.
  - destruct (n <? 10); [reflexivity|].
    rewrite IH. rewrite (IH _ [_]). rewrite <- app_assoc. reflexivity.
Qed.

Lemma nat_digits_value : forall fuel n a0,
  0 <= n < 10 ^ (Z.of_nat fuel + 1) ->
  exists k, fold_left dstep (nat_digits fuel n []) a0 = a0 * 10 ^ k + n /\ 0 < k.
Proof.
  induction fuel as [|f IH]; intros n a0 Hn.
  - change (10 ^ (Z.of_nat 0 + 1)) with 10 in Hn. cbn [nat_digits].
    destruct (Z.ltb_spec n 10); [|lia]. exists 1. split; [|lia]. rewrite Z.pow_1_r. cbn [fold_left]. unfold dstep. lia.
  - cbn [nat_digits]. destruct (Z.ltb_spec n 10).
    + exists 1. split; [|lia]. rewrite Z.pow_1_r. cbn [fold_left]. unfold dstep. lia.
    + rewrite nat_digits_app, fold_left_app. cbn [fold_left].
      assert (Hq : 0 <= n / 10 < 10 ^ (Z.of_nat f + 1)).
      { split. apply Z.div_pos; lia. apply Z.div_lt_upper_bound; [lia|].
        replace (Z.of_nat (S f) + 1) with (Z.succ (Z.of_nat f + 1)) in Hn by lia.
        rewrite Z.pow_succ_r in Hn by lia. lia. }
      destruct (IH (n / 10) a0 Hq) as [k [Hk Hk0]]. rewrite Hk.
      exists (k + 1). split; [|lia]. unfold dstep.
      rewrite Z.pow_add_r by lia. change (10 ^ 1) with 10.
      pose proof (Z_div_mod_eq_full n 10). lia.
Qed.

Lemma is_digit_intro : forall d, 0 <= d < 10 -> is_digit (48 + d) = true.
Proof. intros d H. unfold is_digit. apply andb_true_intro; split; apply Z.leb_le; lia. Qed.

Lemma nat_digits_digits : forall fuel n,
  0 <= n < 10 ^ (Z.of_nat fuel + 1) -> forallb is_digit (nat_digits fuel n []) = true.
Proof.
  induction fuel as [|f IH]; intros n Hn.
  - change (10 ^ (Z.of_nat 0 + 1)) with 10 in Hn. cbn [nat_digits]. destruct (Z.ltb_spec n 10); [|lia].
    cbn [forallb]. rewrite is_digit_intro by lia. reflexivity.
  - cbn [nat_digits]. destruct (Z.ltb_spec n 10).
    + cbn [forallb]. rewrite is_digit_intro by lia. reflexivity.
    + rewrite nat_digits_app, forallb_app. rewrite IH.
      * cbn [forallb]. pose proof (Z.mod_pos_bound n 10). rewrite is_digit_intro by lia. reflexivity.
      * split. apply Z.div_pos; lia. apply Z.div_lt_upper_bound; [lia|].
        replace (Z.of_nat (S f) + 1) with (Z.succ (Z.of_nat f + 1)) in Hn by lia.
        rewrite Z.pow_succ_r in Hn by lia. lia.
Qed.

(* the first digit is '0' only for the number zero (no leading zeros) *)
Lemma nat_digits_head : forall fuel n,
  0 <= n < 10 ^ (Z.of_nat fuel + 1) ->
  exists d tl, nat_digits fuel n [] = d :: tl /\ (n = 0 -> d = 48 /\ tl = []) /\ (0 < n -> d <> 48).
Proof.
  induction fuel as [|f IH]; intros n Hn.
  - change (10 ^ (Z.of_nat 0 + 1)) with 10 in Hn. cbn [nat_digits]. destruct (Z.ltb_spec n 10); [|lia].
    exists (48 + n), []. repeat split; try lia; try (intros ->; reflexivity).
  - cbn [nat_digits]. destruct (Z.ltb_spec n 10).
    + exists (48 + n), []. repeat split; try lia; try (intros ->; reflexivity).
    + rewrite nat_digits_app.
      assert (Hq : 0 <= n / 10 < 10 ^ (Z.of_nat f + 1)).
      { split. apply Z.div_pos; lia. apply Z.div_lt_upper_bound; [lia|].
        replace (Z.of_nat (S f) + 1) with (Z.succ (Z.of_nat f + 1)) in Hn by lia.
        rewrite Z.pow_succ_r in Hn by lia. lia. }
      destruct (IH _ Hq) as [d [tl [E [_ Hpos]]]]. rewrite E.
      exists d, (tl ++ [48 + n mod 10]). repeat split; try lia.
      intros _. apply Hpos. assert (1 <= n / 10) by (apply Z.div_le_lower_bound; lia). lia.
Qed.

Lemma fuel_enough : forall n, 0 <= n -> 0 <= n < 10 ^ (Z.of_nat (Z.to_nat (Z.log2 n)) + 1).
Proof.
  intros n Hn. split; [lia|].
  rewrite Z2Nat.id by apply Z.log2_nonneg.
  destruct (Z.eq_dec n 0) as [->|Hz]; [reflexivity|].
  assert (n < 2 ^ (Z.log2 n + 1)).
  { pose proof (Z.log2_spec n ltac:(lia)). replace (Z.log2 n + 1) with (Z.succ (Z.log2 n)) by lia. lia. }
  assert (2 ^ (Z.log2 n + 1) <= 10 ^ (Z.log2 n + 1)).
  { apply Z.pow_le_mono_l. lia. }
  lia.
Qed.

Lemma print_nat_nonempty : forall n, 0 <= n -> print_nat n <> [].
Proof.
  intros n Hn. unfold print_nat. destruct (nat_digits_head _ _ (fuel_enough n Hn)) as [d [tl [E _]]].
  rewrite E. discriminate.
Qed.

Lemma parse_print_nat : forall n, 0 <= n -> parse_nat (print_nat n) = Some n.
Proof.
  intros n Hn. unfold parse_nat. pose proof (print_nat_nonempty n Hn).
  destruct (print_nat n) eqn:E; [congruence|]. rewrite <- E.
  unfold print_nat in *. rewrite nat_digits_digits by (apply fuel_enough; lia).
  destruct (nat_digits_value _ n 0 (fuel_enough n Hn)) as [k [Hk _]].
  fold dstep. rewrite Hk. f_equal; lia.
Qed.

Lemma print_nat_head_not_minus : forall n, 0 <= n -> exists d tl, print_nat n = d :: tl /\ is_digit d = true.
Proof.
  intros n Hn. pose proof (nat_digits_digits _ _ (fuel_enough n Hn)) as Hd.
  unfold print_nat. destruct (nat_digits _ n []) eqn:E.
  - exfalso. apply (print_nat_nonempty n Hn). exact E.
  - simpl in Hd. apply andb_true_iff in Hd. destruct Hd. eauto.
Qed.

Theorem parse_print_int : forall z, parse_int (print_int z) = Some z.
Proof.
  intros z. unfold print_int. destruct (Z.ltb_spec z 0).
  - simpl. rewrite parse_print_nat by lia. simpl. f_equal. lia.
  - destruct (print_nat_head_not_minus z H) as [d [tl [E Hd]]].
    unfold parse_int. rewrite E. 
    destruct (Z.eqb_spec d 45). { subst. discriminate. }
    rewrite <- E. apply parse_print_nat. lia.
Qed.


(* ---------- strings ---------- *)
Lemma is_byte_range : forall c, is_byte c = true -> 0 <= c < 256.
Proof. intros c H. unfold is_byte in H. apply andb_true_iff in H. destruct H as [A B]. apply Z.leb_le in A. apply Z.ltb_lt in B. lia. Qed.

Lemma pstr_plain : forall c tl, 32 <= c < 256 -> c <> 34 -> c <> 92 -> pstr (c :: tl) = pcons [c] (pstr tl).
Proof.
  intros c tl Hr H1 H2. cbn [pstr].
  destruct (Z.eqb_spec c 34); [lia|]. destruct (Z.eqb_spec c 92); [lia|].
  destruct (Z.ltb_spec c 32); [lia|]. destruct (Z.ltb_spec 255 c); [lia|]. reflexivity.
Qed.

Lemma small_cases : forall c, 0 <= c < 32 ->
  c = 0 \/ c = 1 \/ c = 2 \/ c = 3 \/ c = 4 \/ c = 5 \/ c = 6 \/ c = 7 \/ c = 8 \/ c = 9 \/ c = 10 \/ c = 11 \/
  c = 12 \/ c = 13 \/ c = 14 \/ c = 15 \/ c = 16 \/ c = 17 \/ c = 18 \/ c = 19 \/ c = 20 \/ c = 21 \/ c = 22 \/
  c = 23 \/ c = 24 \/ c = 25 \/ c = 26 \/ c = 27 \/ c = 28 \/ c = 29 \/ c = 30 \/ c = 31.
Proof. intros; lia. Qed.

Lemma pstr_esc_byte : forall c tl, is_byte c = true -> pstr (esc_byte c ++ tl) = pcons [c] (pstr tl).
Proof.
  intros c tl Hb. apply is_byte_range in Hb.
  destruct (Z.ltb_spec c 32) as [Hs|Hl].
  - assert (H : 0 <= c < 32) by lia. apply small_cases in H.
    repeat (destruct H as [H|H]; [subst c; reflexivity|]). subst c; reflexivity.
  - destruct (Z.eq_dec c 34) as [->|N1]; [reflexivity|].
    destruct (Z.eq_dec c 92) as [->|N2]; [reflexivity|].
    unfold esc_byte.
    destruct (Z.eqb_spec c 34); [lia|]. destruct (Z.eqb_spec c 92); [lia|].
    destruct (Z.eqb_spec c 10); [lia|]. destruct (Z.eqb_spec c 13); [lia|]. destruct (Z.eqb_spec c 9); [lia|].
    destruct (Z.ltb_spec c 32); [lia|]. cbn [app]. apply pstr_plain; lia.
Qed.

Lemma pstr_esc_body : forall s rest, forallb is_byte s = true ->
  pstr (esc_body s ++ 34 :: rest) = Some (s, rest).
Proof.
  induction s as [|c s IH]; intros rest Hb.
  - reflexivity.
  - cbn [forallb] in Hb. apply andb_true_iff in Hb. destruct Hb as [Hc Hs].
    unfold esc_body. cbn [flat_map]. rewrite <- app_assoc. rewrite pstr_esc_byte by exact Hc.
    fold (esc_body s). rewrite IH by exact Hs. reflexivity.
Qed.

Theorem json_string_roundtrip : forall s, forallb is_byte s = true ->
  json_parse_string (json_escape s) = Some s.
Proof.
  intros s Hb. unfold json_parse_string, json_escape. cbn [Z.eqb Pos.eqb].
  rewrite pstr_esc_body by exact Hb. reflexivity.
Qed.

(* the escaped text never holds a raw control character, and only ASCII is added: bytes >= 0x80 are copied *)
Lemma esc_byte_shape : forall c, is_byte c = true ->
  forallb (fun d => (32 <=? d) && (d <? 256)) (esc_byte c) = true.
Proof.
  intros c Hb. apply is_byte_range in Hb.
  destruct (Z.ltb_spec c 32) as [Hs|Hl].
  - assert (H : 0 <= c < 32) by lia. apply small_cases in H.
    repeat (destruct H as [H|H]; [subst c; reflexivity|]). subst c; reflexivity.
  - unfold esc_byte.
    destruct (Z.eqb_spec c 34); [reflexivity|]. destruct (Z.eqb_spec c 92); [reflexivity|].
    destruct (Z.eqb_spec c 10); [lia|]. destruct (Z.eqb_spec c 13); [lia|]. destruct (Z.eqb_spec c 9); [lia|].
    destruct (Z.ltb_spec c 32); [lia|]. cbn [forallb]. rewrite andb_true_r.
    apply andb_true_intro; split; [apply Z.leb_le|apply Z.ltb_lt]; lia.
Qed.


(* ---------- induction principle for the nested tree ---------- *)
Section JsonInd.
  Variable P : json -> Prop.
  Hypothesis Hnull : P JNull.
  Hypothesis Hbool : forall b, P (JBool b).
  Hypothesis Hnum : forall t, P (JNum t).
  Hypothesis Hstr : forall s, P (JStr s).
  Hypothesis Harr : forall l, Forall P l -> P (JArr l).
  Hypothesis Hobj : forall ms, Forall (fun kv => P (snd kv)) ms -> P (JObj ms).
  Fixpoint json_ind' (j : json) : P j :=
    match j with
    | JNull => Hnull
    | JBool b => Hbool b
    | JNum t => Hnum t
    | JStr s => Hstr s
    | JArr l => Harr l ((fix go (l : list json) : Forall P l :=
                           match l with [] => Forall_nil _ | x :: xs => Forall_cons _ (json_ind' x) (go xs) end) l)
    | JObj ms => Hobj ms ((fix go (ms : list (list Z * json)) : Forall (fun kv => P (snd kv)) ms :=
                             match ms with [] => Forall_nil _ | x :: xs => Forall_cons _ (json_ind' (snd x)) (go xs) end) ms)
    end.
End JsonInd.

(* ---------- named versions of the two printing loops ---------- *)
Fixpoint print_elems (l : list json) : list Z :=
  match l with
  | [] => [93]
  | v :: l' => print_json v ++ match l' with [] => [93] | _ => 44 :: print_elems l' end
  end.
Fixpoint print_members (ms : list (list Z * json)) : list Z :=
  match ms with
  | [] => [125]
  | kv :: ms' => json_escape (fst kv) ++ 58 :: print_json (snd kv) ++ match ms' with [] => [125] | _ => 44 :: print_members ms' end
  end.

Lemma print_arr : forall l, print_json (JArr l) = 91 :: print_elems l.
Proof.
  intros l. unfold print_json. cbn [print_json_gen]. f_equal.
  induction l as [|v l IH]; [reflexivity|].
  destruct l as [|w l']; [reflexivity|].
  cbn [print_elems]. cbn [print_elems] in IH. rewrite <- IH. reflexivity.
Qed.
Lemma print_obj : forall ms, print_json (JObj ms) = 123 :: print_members ms.
Proof.
  intros ms. unfold print_json. cbn [print_json_gen]. f_equal.
  induction ms as [|v l IH]; [reflexivity|].
  destruct l as [|w l']; [reflexivity|].
  cbn [print_members]. cbn [print_members] in IH. rewrite <- IH. reflexivity.
Qed.

(* ---------- small facts about characters ---------- *)
Lemma numchar_cases : forall c, is_numchar c = true ->
  48 <= c <= 57 \/ c = 45 \/ c = 43 \/ c = 46 \/ c = 101 \/ c = 69.
Proof.
  intros c H. unfold is_numchar, is_digit in H.
  repeat rewrite orb_true_iff in H. rewrite andb_true_iff in H.
  repeat rewrite Z.eqb_eq in H. rewrite Z.leb_le in H. rewrite Z.leb_le in H. lia.
Qed.

Lemma eqb_neq : forall a b, a <> b -> (a =? b) = false.
Proof. intros. apply Z.eqb_neq. assumption. Qed.

Lemma numchar_not_ws : forall c, is_numchar c = true -> is_ws c = false.
Proof.
  intros c H. apply numchar_cases in H. unfold is_ws.
  rewrite !eqb_neq by lia. reflexivity.
Qed.

Definition stop_ok (rest : list Z) : bool :=
  match rest with
  | [] => true
  | c :: _ => (c =? 44) || (c =? 93) || (c =? 125) || is_ws c
  end.

Lemma stop_not_numchar : forall c r, stop_ok (c :: r) = true -> is_numchar c = false.
Proof.
  intros c r H. cbn [stop_ok] in H. unfold is_ws in H.
  repeat rewrite orb_true_iff in H. repeat rewrite Z.eqb_eq in H.
  unfold is_numchar, is_digit.
  assert (c = 44 \/ c = 93 \/ c = 125 \/ c = 32 \/ c = 9 \/ c = 10 \/ c = 13) as Hc by lia.
  repeat (destruct Hc as [Hc|Hc]; [subst c; reflexivity|]). subst c; reflexivity.
Qed.

Lemma span_all : forall p a b, forallb p a = true ->
  (match b with [] => True | c :: _ => p c = false end) -> span p (a ++ b) = (a, b).
Proof.
  induction a as [|x a IH]; intros b Ha Hb.
  - cbn [app]. destruct b as [|c b]; [reflexivity|]. cbn [span]. rewrite Hb. reflexivity.
  - cbn [forallb] in Ha. apply andb_true_iff in Ha. destruct Ha as [Hx Ha].
    cbn [app span]. rewrite Hx. rewrite IH by assumption. reflexivity.
Qed.

Lemma skip_ws_head : forall c r, is_ws c = false -> skip_ws (c :: r) = c :: r.
Proof. intros c r H. cbn [skip_ws]. rewrite H. reflexivity. Qed.

Lemma stop_ok_skip : forall c r, (c = 44 \/ c = 93 \/ c = 125) -> skip_ws (c :: r) = c :: r.
Proof. intros c r H. apply skip_ws_head. unfold is_ws. rewrite !eqb_neq by lia. reflexivity. Qed.

(* ---------- the first byte of a printed tree ---------- *)
Definition head_ok (s : list Z) : Prop :=
  exists c tl, s = c :: tl /\ is_ws c = false /\ c <> 93 /\ c <> 125 /\ c <> 44.

Lemma print_head : forall j, wf_json j = true -> forall rest, head_ok (print_json j ++ rest).
Proof.
  intros j Hwf rest. destruct j.
  - exists 110, ([117; 108; 108] ++ rest). repeat split; try reflexivity; lia.
  - destruct b.
    + exists 116, ([114; 117; 101] ++ rest). repeat split; try reflexivity; lia.
    + exists 102, ([97; 108; 115; 101] ++ rest). repeat split; try reflexivity; lia.
  - cbn [wf_json] in Hwf. unfold num_token_ok in Hwf. destruct tok as [|c t]; [discriminate|].
    apply andb_true_iff in Hwf. destruct Hwf as [Hn _]. cbn [forallb] in Hn. apply andb_true_iff in Hn.
    destruct Hn as [Hc _]. exists c, (t ++ rest). split; [reflexivity|].
    split; [apply numchar_not_ws; assumption|]. apply numchar_cases in Hc. lia.
  - exists 34, (esc_body s ++ [34] ++ rest). split.
    + unfold print_json. cbn [print_json_gen]. unfold json_escape. cbn [app]. rewrite <- app_assoc. reflexivity.
    + repeat split; try reflexivity; lia.
  - rewrite print_arr. exists 91, (print_elems l ++ rest). repeat split; try reflexivity; lia.
  - rewrite print_obj. exists 123, (print_members ms ++ rest). repeat split; try reflexivity; lia.
Qed.

(* ---------- fuel ---------- *)
Fixpoint need (j : json) : nat :=
  match j with
  | JArr l => S (fold_right (fun v a => S (need v + a)) O l)
  | JObj ms => S (fold_right (fun kv a => S (need (snd kv) + a)) O ms)
  | _ => 1%nat
  end.
Definition needs (l : list json) : nat := fold_right (fun v a => S (need v + a)) O l.
Definition needm (ms : list (list Z * json)) : nat := fold_right (fun kv a => S (need (snd kv) + a)) O ms.

Definition RT (j : json) : Prop :=
  wf_json j = true -> forall n rest, (need j <= n)%nat -> stop_ok rest = true ->
  pval n (print_json j ++ rest) = Some (j, rest).

Lemma pval_S : forall n s, pval (S n) s = pval_body (pelems n) (pmembers n) s.
Proof. reflexivity. Qed.
Lemma pelems_S : forall n s, pelems (S n) s = pelems_body (pval n) (pelems n) s.
Proof. reflexivity. Qed.
Lemma pmembers_S : forall n s, pmembers (S n) s = pmembers_body (pval n) (pmembers n) s.
Proof. reflexivity. Qed.

Lemma rt_elems : forall l, Forall RT l -> forallb wf_json l = true -> l <> [] ->
  forall n rest, (needs l <= n)%nat -> pelems n (print_elems l ++ rest) = Some (l, rest).
Proof.
  induction l as [|v l IH]; intros HF Hwf Hne n rest Hn; [congruence|].
  inversion HF as [|? ? Hv HF']; subst. cbn [forallb] in Hwf. apply andb_true_iff in Hwf. destruct Hwf as [Hwv Hwl].
  unfold needs in Hn. cbn [fold_right] in Hn. fold (needs l) in Hn.
  destruct n as [|n]; [lia|]. rewrite pelems_S. unfold pelems_body.
  cbn [print_elems]. rewrite <- app_assoc.
  destruct l as [|w l'].
  - cbn [app]. rewrite (Hv Hwv n (93 :: rest)) by (try lia; reflexivity).
    rewrite stop_ok_skip by lia. reflexivity.
  - cbn [app]. rewrite (Hv Hwv n (44 :: print_elems (w :: l') ++ rest)) by (try lia; reflexivity).
    rewrite stop_ok_skip by lia. cbn [Z.eqb Pos.eqb].
    rewrite (IH HF' Hwl ltac:(discriminate) n rest) by lia. reflexivity.
Qed.

Lemma rt_members : forall ms, Forall (fun kv => RT (snd kv)) ms ->
  forallb (fun kv => forallb is_byte (fst kv) && wf_json (snd kv)) ms = true -> ms <> [] ->
  forall n rest, (needm ms <= n)%nat -> pmembers n (print_members ms ++ rest) = Some (ms, rest).
Proof.
  induction ms as [|kv ms IH]; intros HF Hwf Hne n rest Hn; [congruence|].
  inversion HF as [|? ? Hv HF']; subst. cbn [forallb] in Hwf. apply andb_true_iff in Hwf. destruct Hwf as [Hwv Hwl].
  apply andb_true_iff in Hwv. destruct Hwv as [Hk Hwv].
  unfold needm in Hn. cbn [fold_right] in Hn. fold (needm ms) in Hn.
  destruct n as [|n]; [lia|]. rewrite pmembers_S. unfold pmembers_body.
  cbn [print_members]. unfold json_escape. cbn [app]. rewrite skip_ws_head by reflexivity.
  cbn [Z.eqb Pos.eqb]. rewrite <- !app_assoc. cbn [app]. rewrite pstr_esc_body by exact Hk.
  rewrite skip_ws_head by reflexivity. cbn [Z.eqb Pos.eqb].
  destruct kv as [k v]. cbn [fst snd] in *.
  destruct ms as [|w ms'].
  - rewrite <- ?app_assoc; cbn [app]. rewrite (Hv Hwv n (125 :: rest)) by (try lia; reflexivity).
    rewrite stop_ok_skip by lia. reflexivity.
  - rewrite <- ?app_assoc; cbn [app]. rewrite (Hv Hwv n (44 :: print_members (w :: ms') ++ rest)) by (try lia; reflexivity).
    rewrite stop_ok_skip by lia. cbn [Z.eqb Pos.eqb].
    rewrite (IH HF' Hwl ltac:(discriminate) n rest) by lia. reflexivity.
Qed.

Lemma rt_all : forall j, RT j.
Proof.
  induction j using json_ind'; unfold RT; intros Hwf n rest Hn Hstop;
    (destruct n as [|n]; [cbn [need] in Hn; lia|]); rewrite pval_S; unfold pval_body.
  - reflexivity.
  - destruct b; reflexivity.
  - (* number *)
    cbn [wf_json] in Hwf. unfold num_token_ok in Hwf. destruct t as [|c t]; [discriminate|].
    apply andb_true_iff in Hwf. destruct Hwf as [Hall Hg].
    pose proof Hall as Hall'. cbn [forallb] in Hall'. apply andb_true_iff in Hall'. destruct Hall' as [Hc _].
    unfold print_json. cbn [print_json_gen app].
    rewrite skip_ws_head by (apply numchar_not_ws; exact Hc).
    pose proof (numchar_cases c Hc) as Hcc.
    rewrite !eqb_neq by lia.
    change (c :: t ++ rest) with ((c :: t) ++ rest).
    rewrite span_all.
    + rewrite Hg. reflexivity.
    + exact Hall.
    + destruct rest as [|d r]; [exact I|]. eapply stop_not_numchar; eassumption.
  - (* string *)
    cbn [wf_json] in Hwf. unfold print_json. cbn [print_json_gen]. unfold json_escape. cbn [app].
    rewrite skip_ws_head by reflexivity. cbn [Z.eqb Pos.eqb]. rewrite <- app_assoc. cbn [app].
    rewrite pstr_esc_body by exact Hwf. reflexivity.
  - (* array *)
    cbn [wf_json] in Hwf. rewrite print_arr. cbn [app]. rewrite skip_ws_head by reflexivity. cbn [Z.eqb Pos.eqb].
    destruct l as [|v l].
    + reflexivity.
    + assert (Hh : head_ok (print_elems (v :: l) ++ rest)).
      { cbn [print_elems]. rewrite <- app_assoc. apply print_head.
        cbn [forallb] in Hwf. apply andb_true_iff in Hwf. tauto. }
      destruct Hh as [c [tl [E [Hws [N1 [N2 N3]]]]]]. rewrite E. rewrite skip_ws_head by exact Hws.
      rewrite (eqb_neq c 93) by exact N1. rewrite <- E.
      cbn [need] in Hn. fold (needs (v :: l)) in Hn.
      rewrite (rt_elems (v :: l) H Hwf ltac:(discriminate) n rest) by lia. reflexivity.
  - (* object *)
    cbn [wf_json] in Hwf. rewrite print_obj. cbn [app]. rewrite skip_ws_head by reflexivity. cbn [Z.eqb Pos.eqb].
    destruct ms as [|kv ms].
    + reflexivity.
    + assert (E : exists tl, print_members (kv :: ms) ++ rest = 34 :: tl).
      { cbn [print_members]. unfold json_escape at 1. cbn [app]. eexists. reflexivity. }
      destruct E as [tl E]. rewrite E. rewrite skip_ws_head by reflexivity. cbn [Z.eqb Pos.eqb]. rewrite <- E.
      cbn [need] in Hn. fold (needm (kv :: ms)) in Hn.
      rewrite (rt_members (kv :: ms) H Hwf ltac:(discriminate) n rest) by lia. reflexivity.
Qed.


(* ---------- fuel never runs out ---------- *)
Lemma needs_le : forall l, Forall (fun j => wf_json j = true -> (need j <= length (print_json j))%nat) l ->
  forallb wf_json l = true -> (needs l <= length (print_elems l))%nat.
Proof.
  induction l as [|v l IH]; intros HF Hwf; [cbn; lia|].
  inversion HF as [|? ? Hv HF']; subst. cbn [forallb] in Hwf. apply andb_true_iff in Hwf. destruct Hwf as [Hwv Hwl].
  specialize (Hv Hwv). specialize (IH HF' Hwl).
  change (print_elems (v :: l)) with (print_json v ++ match l with [] => [93] | _ => 44 :: print_elems l end).
  change (needs (v :: l)) with (S (need v + needs l)). rewrite app_length.
  destruct l; [change (needs []) with O|]; cbn [length] in *; lia.
Qed.
Lemma needm_le : forall ms, Forall (fun kv => wf_json (snd kv) = true -> (need (snd kv) <= length (print_json (snd kv)))%nat) ms ->
  forallb (fun kv => forallb is_byte (fst kv) && wf_json (snd kv)) ms = true -> (needm ms <= length (print_members ms))%nat.
Proof.
  induction ms as [|v l IH]; intros HF Hwf; [cbn; lia|].
  inversion HF as [|? ? Hv HF']; subst. cbn [forallb] in Hwf. apply andb_true_iff in Hwf. destruct Hwf as [Hwv Hwl].
  apply andb_true_iff in Hwv. destruct Hwv as [_ Hwv].
  specialize (Hv Hwv). specialize (IH HF' Hwl).
  change (print_members (v :: l)) with (json_escape (fst v) ++ 58 :: print_json (snd v) ++ match l with [] => [125] | _ => 44 :: print_members l end).
  change (needm (v :: l)) with (S (need (snd v) + needm l)). rewrite app_length. cbn [length]. rewrite app_length.
  destruct l; [change (needm []) with O|]; cbn [length] in *; lia.
Qed.
Lemma need_le_length : forall j, wf_json j = true -> (need j <= length (print_json j))%nat.
Proof.
  induction j using json_ind'; intros Hwf; try (cbn; lia).
  - destruct b; cbn; lia.
  - cbn [wf_json] in Hwf. unfold num_token_ok in Hwf. destruct t; [discriminate|]. cbn. lia.
  - rewrite print_arr. cbn [need length]. fold (needs l). pose proof (needs_le l H Hwf). lia.
  - rewrite print_obj. cbn [need length]. fold (needm ms). pose proof (needm_le ms H Hwf). lia.
Qed.

Theorem json_tree_roundtrip : forall j, wf_json j = true -> json_parse (print_json j ++ [10]) = Some j.
Proof.
  intros j Hwf. unfold json_parse.
  rewrite (rt_all j Hwf (S (length (print_json j ++ [10]))) [10]).
  - reflexivity.
  - rewrite app_length. pose proof (need_le_length j Hwf). lia.
  - reflexivity.
Qed.
Theorem json_tree_roundtrip_bare : forall j, wf_json j = true -> json_parse (print_json j) = Some j.
Proof.
  intros j Hwf. unfold json_parse. rewrite <- (app_nil_r (print_json j)) at 2.
  rewrite (rt_all j Hwf (S (length (print_json j))) []).
  - reflexivity.
  - pose proof (need_le_length j Hwf). lia.
  - reflexivity.
Qed.

(* ---------- print_int is a JSON number ---------- *)
Lemma digits_numchars : forall l, forallb is_digit l = true -> forallb is_numchar l = true.
Proof.
  induction l as [|c l IH]; intros H; [reflexivity|]. cbn [forallb] in *. apply andb_true_iff in H. destruct H as [A B].
  rewrite IH by exact B. unfold is_numchar. rewrite A. reflexivity.
Qed.

Lemma print_nat_facts : forall n, 0 <= n ->
  exists d tl, print_nat n = d :: tl /\ forallb is_digit (d :: tl) = true /\ int_part_ok (d :: tl) = true.
Proof.
  intros n Hn. unfold print_nat.
  destruct (nat_digits_head _ _ (fuel_enough n Hn)) as [d [tl [E [H0 Hp]]]].
  pose proof (nat_digits_digits _ _ (fuel_enough n Hn)) as Hd. rewrite E in *.
  exists d, tl. repeat split; try assumption.
  cbn [int_part_ok]. destruct tl as [|x tl']; [reflexivity|].
  destruct (Z.eq_dec n 0) as [->|Nz].
  - destruct (H0 eq_refl) as [_ Habs]. discriminate.
  - rewrite eqb_neq; [reflexivity|]. apply Hp. lia.
Qed.

Lemma grammar_digits : forall ds, forallb is_digit ds = true -> int_part_ok ds = true ->
  (let '(ip, t2) := span is_digit ds in
   int_part_ok ip && match t2 with
                     | c :: r => if c =? 46 then let '(fp, t3) := span is_digit r in (match fp with [] => false | _ => true end) && exp_ok t3 else exp_ok t2
                     | [] => true end) = true.
Proof.
  intros ds Hd Hi. rewrite <- (app_nil_r ds). rewrite span_all by (try assumption; exact I).
  rewrite Hi. reflexivity.
Qed.

Lemma print_int_token : forall z, num_token_ok (print_int z) = true.
Proof.
  intros z. unfold print_int. destruct (Z.ltb_spec z 0).
  - destruct (print_nat_facts (- z) ltac:(lia)) as [d [tl [E [Hd Hi]]]]. rewrite E.
    unfold num_token_ok. change (forallb is_numchar (45 :: d :: tl)) with (forallb is_numchar (d :: tl)).
    rewrite digits_numchars by exact Hd. cbn [andb].
    unfold num_grammar_ok. cbn [Z.eqb Pos.eqb]. apply grammar_digits; assumption.
  - destruct (print_nat_facts z H) as [d [tl [E [Hd Hi]]]]. rewrite E.
    unfold num_token_ok. rewrite digits_numchars by exact Hd. cbn [andb].
    unfold num_grammar_ok.
    assert (Hne : (d =? 45) = false).
    { cbn [forallb] in Hd. apply andb_true_iff in Hd. destruct Hd as [Hd _]. unfold is_digit in Hd.
      apply andb_true_iff in Hd. destruct Hd as [A B]. apply Z.leb_le in A. apply eqb_neq. lia. }
    rewrite Hne. apply grammar_digits; assumption.
Qed.


(* ---------- induction principle for nested values ---------- *)
Section FvalInd.
  Variable P : fval -> Prop.
  Hypothesis Hnull : P FNull.
  Hypothesis Hint : forall z, P (FInt z).
  Hypothesis Hfloat : forall b g f, P (FFloat b g f).
  Hypothesis Hbool : forall b, P (FBool b).
  Hypothesis Hstr : forall s, P (FStr s).
  Hypothesis Htime : forall s, P (FTime s).
  Hypothesis Hdur : forall s, P (FDur s).
  Hypothesis Hlist : forall l, Forall P l -> P (FList l).
  Hypothesis Hstruct : forall l, Forall P l -> P (FStruct l).
  Hypothesis Htuple : forall l, Forall P l -> P (FTuple l).
  Fixpoint fval_ind' (v : fval) : P v :=
    let go := fix go (l : list fval) : Forall P l :=
                match l with [] => Forall_nil _ | x :: xs => Forall_cons _ (fval_ind' x) (go xs) end in
    match v with
    | FNull => Hnull | FInt z => Hint z | FFloat b g f => Hfloat b g f | FBool b => Hbool b
    | FStr s => Hstr s | FTime s => Htime s | FDur s => Hdur s
    | FList l => Hlist l (go l) | FStruct l => Hstruct l (go l) | FTuple l => Htuple l (go l)
    end.
End FvalInd.

(* ---------- named versions of the inner loops ---------- *)
Definition list_fn (t' : fty) (x : fval) : outcome json :=
  match elem_ty t' with Some e => to_tree e x | None => Panic p_nil_element end.
Fixpoint struct_go (vs : list fval) (fs : list (list Z * fty)) : list (outcome (list Z * json)) :=
  match vs with
  | [] => []
  | x :: vs' => match fs with
                | [] => [Panic p_index]
                | f :: fs' => obind (to_tree (snd f) x) (fun j => Ok (fst f, j)) :: struct_go vs' fs'
                end
  end.
Fixpoint tuple_go (vs : list fval) (es : list fty) : list (outcome json) :=
  match vs with
  | [] => []
  | x :: vs' => match es with
                | [] => [Panic p_index]
                | e :: es' => to_tree e x :: tuple_go vs' es'
                end
  end.
Fixpoint jstruct_go (vs : list fval) (fs : list (list Z * fty)) : list (list Z * json) :=
  match vs, fs with
  | x :: vs', f :: fs' => (fst f, jtree (snd f) x) :: jstruct_go vs' fs'
  | _, _ => []
  end.
Fixpoint jtuple_go (vs : list fval) (es : list fty) : list json :=
  match vs, es with
  | x :: vs', e :: es' => jtree e x :: jtuple_go vs' es'
  | _, _ => []
  end.
Fixpoint hstruct_go (vs : list fval) (fs : list (list Z * fty)) : bool :=
  match vs, fs with
  | [], [] => true
  | x :: vs', f :: fs' => has_type (snd f) x && hstruct_go vs' fs'
  | _, _ => false
  end.
Fixpoint htuple_go (vs : list fval) (es : list fty) : bool :=
  match vs, es with
  | [], [] => true
  | x :: vs', e :: es' => has_type e x && htuple_go vs' es'
  | _, _ => false
  end.

Lemma to_tree_list : forall t l, to_tree t (FList l) =
  match resolve t (FList l) with None => Ok JNull
  | Some t' => obind (sequence (map (list_fn t') l)) (fun js => Ok (JArr js)) end.
Proof. reflexivity. Qed.
Lemma to_tree_struct : forall t vs, to_tree t (FStruct vs) =
  match resolve t (FStruct vs) with None => Ok JNull
  | Some t' => obind (sequence (struct_go vs (field_tys t'))) (fun ms => Ok (JObj ms)) end.
Proof. reflexivity. Qed.
Lemma to_tree_tuple : forall t vs, to_tree t (FTuple vs) =
  match resolve t (FTuple vs) with None => Ok JNull
  | Some t' => obind (sequence (tuple_go vs (tuple_tys t'))) (fun js => Ok (JArr js)) end.
Proof. reflexivity. Qed.
Lemma jtree_list : forall t l, jtree t (FList l) =
  let t' := match resolve t (FList l) with Some t' => t' | None => t end in
  JArr (map (fun x => match elem_ty t' with Some e => jtree e x | None => JNull end) l).
Proof. reflexivity. Qed.
Lemma jtree_struct : forall t vs, jtree t (FStruct vs) =
  let t' := match resolve t (FStruct vs) with Some t' => t' | None => t end in
  JObj (jstruct_go vs (field_tys t')).
Proof. reflexivity. Qed.
Lemma jtree_tuple : forall t vs, jtree t (FTuple vs) =
  let t' := match resolve t (FTuple vs) with Some t' => t' | None => t end in
  JArr (jtuple_go vs (tuple_tys t')).
Proof. reflexivity. Qed.
Lemma has_type_list : forall t l, has_type t (FList l) =
  match resolve t (FList l) with None => false
  | Some t' => match t' with
               | TList (Some e) => forallb (has_type e) l
               | TList None => match l with [] => true | _ => false end
               | _ => false end end.
Proof. reflexivity. Qed.
Lemma has_type_struct : forall t vs, has_type t (FStruct vs) =
  match resolve t (FStruct vs) with None => false
  | Some t' => match t' with TStruct fs => hstruct_go vs fs | _ => false end end.
Proof. reflexivity. Qed.
Lemma has_type_tuple : forall t vs, has_type t (FTuple vs) =
  match resolve t (FTuple vs) with None => false
  | Some t' => match t' with TTuple es => htuple_go vs es | _ => false end end.
Proof. reflexivity. Qed.

(* ---------- sequence of results that are each "Err nonfinite or Ok" ---------- *)
Definition ite {A} (b : bool) (a : A) : outcome A := if b then Err e_nonfinite else Ok a.

Lemma sequence_ite_cons : forall A (b : bool) (a : A) bs (l : list A) os,
  sequence os = ite bs l -> sequence (ite b a :: os) = ite (b || bs) (a :: l).
Proof. intros A b a bs l os H. cbn [sequence]. rewrite H. destruct b, bs; reflexivity. Qed.

Lemma obind_ite : forall A B (b : bool) (a : A) (f : A -> B),
  obind (ite b a) (fun x => Ok (f x)) = ite b (f a).
Proof. intros. destruct b; reflexivity. Qed.

(* ---------- ValueToJson on a typed value ---------- *)
Definition TT (v : fval) : Prop :=
  forall t, has_type t v = true -> to_tree t v = ite (has_nonfinite v) (jtree t v).

Lemma tt_scalar : forall v, is_container v = false -> TT v.
Proof.
  intros v Hc t Ht. destruct v; try discriminate; unfold to_tree, ite;
    cbn [to_tree_gen jtree has_type has_nonfinite] in *;
    destruct (resolve t _); try discriminate; try reflexivity.
Qed.

Lemma tt_list_elems : forall e l, Forall TT l -> forallb (has_type e) l = true ->
  sequence (map (list_fn (TList (Some e))) l) =
  ite (existsb has_nonfinite l) (map (fun x => jtree e x) l).
Proof.
  induction l as [|x l IH]; intros HF Ht; [reflexivity|].
  inversion HF as [|? ? Hx HF']; subst. cbn [forallb] in Ht. apply andb_true_iff in Ht. destruct Ht as [Hx' Hl].
  cbn [map existsb]. unfold list_fn at 1. cbn [elem_ty]. rewrite (Hx e Hx').
  apply sequence_ite_cons. apply IH; assumption.
Qed.

Lemma tt_struct_elems : forall vs fs, Forall TT vs -> hstruct_go vs fs = true ->
  sequence (struct_go vs fs) = ite (existsb has_nonfinite vs) (jstruct_go vs fs).
Proof.
  induction vs as [|x vs IH]; intros fs HF Ht.
  - destruct fs; [reflexivity|discriminate].
  - destruct fs as [|f fs]; [discriminate|]. cbn [hstruct_go] in Ht. apply andb_true_iff in Ht. destruct Ht as [Hx' Hl].
    inversion HF as [|? ? Hx HF']; subst.
    cbn [struct_go jstruct_go existsb]. rewrite (Hx _ Hx'). rewrite obind_ite with (f := fun j => (fst f, j)).
    apply sequence_ite_cons. apply IH; assumption.
Qed.

Lemma tt_tuple_elems : forall vs es, Forall TT vs -> htuple_go vs es = true ->
  sequence (tuple_go vs es) = ite (existsb has_nonfinite vs) (jtuple_go vs es).
Proof.
  induction vs as [|x vs IH]; intros es HF Ht.
  - destruct es; [reflexivity|discriminate].
  - destruct es as [|e es]; [discriminate|]. cbn [htuple_go] in Ht. apply andb_true_iff in Ht. destruct Ht as [Hx' Hl].
    inversion HF as [|? ? Hx HF']; subst.
    cbn [tuple_go jtuple_go existsb]. rewrite (Hx _ Hx').
    apply sequence_ite_cons. apply IH; assumption.
Qed.

Lemma tt_all : forall v, TT v.
Proof.
  induction v using fval_ind'; try (apply tt_scalar; reflexivity); intros t Ht.
  - rewrite has_type_list in Ht. rewrite to_tree_list, jtree_list. cbn [has_nonfinite].
    destruct (resolve t (FList l)) as [t'|]; [|discriminate]. cbv zeta.
    destruct t' as [| [e|] | | |]; try discriminate.
    + rewrite (tt_list_elems e l H Ht). cbn [elem_ty]. destruct (existsb has_nonfinite l); reflexivity.
    + destruct l; [reflexivity|discriminate].
  - rewrite has_type_struct in Ht. rewrite to_tree_struct, jtree_struct. cbn [has_nonfinite].
    destruct (resolve t (FStruct l)) as [t'|]; [|discriminate]. cbv zeta.
    destruct t'; try discriminate. cbn [field_tys].
    rewrite (tt_struct_elems l fs H Ht). destruct (existsb has_nonfinite l); reflexivity.
  - rewrite has_type_tuple in Ht. rewrite to_tree_tuple, jtree_tuple. cbn [has_nonfinite].
    destruct (resolve t (FTuple l)) as [t'|]; [|discriminate]. cbv zeta.
    destruct t'; try discriminate. cbn [tuple_tys].
    rewrite (tt_tuple_elems l es H Ht). destruct (existsb has_nonfinite l); reflexivity.
Qed.

(* ---------- the tree of a typed finite value is well-formed ---------- *)
Lemma resolve_names : forall t v t', ty_names_ok t = true -> resolve t v = Some t' -> ty_names_ok t' = true.
Proof.
  intros t v t' Hn Hr. destruct t; cbn [resolve] in Hr; try (inversion Hr; subst; exact Hn).
  apply find_some in Hr. destruct Hr as [Hin _]. cbn [ty_names_ok] in Hn.
  rewrite forallb_forall in Hn. apply Hn. exact Hin.
Qed.

Definition WF (v : fval) : Prop :=
  forall t, has_type t v = true -> ty_names_ok t = true -> texts_ok v = true -> has_nonfinite v = false ->
  wf_json (jtree t v) = true.

Lemma wf_all : forall v, WF v.
Proof.
  induction v using fval_ind'; intros t Ht Hn Hx Hf.
  - reflexivity.
  - cbn [jtree wf_json]. apply print_int_token.
  - cbn [jtree wf_json]. cbn [texts_ok has_nonfinite] in *. rewrite Hf in Hx. apply andb_true_iff in Hx. tauto.
  - reflexivity.
  - exact Hx.
  - exact Hx.
  - exact Hx.
  - rewrite has_type_list in Ht. rewrite jtree_list.
    destruct (resolve t (FList l)) as [t'|] eqn:Er; [|discriminate]. cbv zeta.
    pose proof (resolve_names _ _ _ Hn Er) as Hn'.
    destruct t' as [| [e|] | | |]; try discriminate.
    + cbn [elem_ty wf_json]. cbn [texts_ok has_nonfinite ty_names_ok] in *.
      clear Er. induction l as [|x l IHl]; [reflexivity|].
      inversion H as [|? ? Hx0 HF']; subst. cbn [forallb existsb map] in *.
      apply andb_true_iff in Ht. apply andb_true_iff in Hx. apply orb_false_iff in Hf.
      destruct Ht, Hx, Hf. rewrite Hx0 by assumption. cbn [andb]. apply IHl; assumption.
    + destruct l; [reflexivity|discriminate].
  - rewrite has_type_struct in Ht. rewrite jtree_struct.
    destruct (resolve t (FStruct l)) as [t'|] eqn:Er; [|discriminate]. cbv zeta.
    pose proof (resolve_names _ _ _ Hn Er) as Hn'.
    destruct t'; try discriminate. cbn [field_tys wf_json]. cbn [texts_ok has_nonfinite ty_names_ok] in *.
    clear Er. revert fs Ht Hn'. induction l as [|x l IHl]; intros fs Ht Hn'; [destruct fs; reflexivity|].
    destruct fs as [|f fs]; [discriminate|].
    inversion H as [|? ? Hx0 HF']; subst. cbn [forallb existsb hstruct_go jstruct_go fst snd] in *.
    apply andb_true_iff in Ht. apply andb_true_iff in Hx. apply orb_false_iff in Hf. apply andb_true_iff in Hn'.
    destruct Ht, Hx, Hf, Hn' as [Hn1 Hn2]. apply andb_true_iff in Hn1. destruct Hn1 as [Hn1 Hn3].
    rewrite Hn1. rewrite Hx0 by assumption. cbn [andb]. apply IHl; assumption.
  - rewrite has_type_tuple in Ht. rewrite jtree_tuple.
    destruct (resolve t (FTuple l)) as [t'|] eqn:Er; [|discriminate]. cbv zeta.
    pose proof (resolve_names _ _ _ Hn Er) as Hn'.
    destruct t'; try discriminate. cbn [tuple_tys wf_json]. cbn [texts_ok has_nonfinite ty_names_ok] in *.
    clear Er. revert es Ht Hn'. induction l as [|x l IHl]; intros es Ht Hn'; [destruct es; reflexivity|].
    destruct es as [|e es]; [discriminate|].
    inversion H as [|? ? Hx0 HF']; subst. cbn [forallb existsb htuple_go jtuple_go] in *.
    apply andb_true_iff in Ht. apply andb_true_iff in Hx. apply orb_false_iff in Hf. apply andb_true_iff in Hn'.
    destruct Ht, Hx, Hf, Hn'. rewrite Hx0 by assumption. cbn [andb]. apply IHl; assumption.
Qed.


(* ---------- one JSON line ---------- *)
Lemma row_members_typed : forall fields row, row_typed fields row = true ->
  sequence (row_members_gen true fields row) = ite (existsb has_nonfinite row) (row_jmembers fields row).
Proof.
  induction fields as [|f fields IH]; intros row Ht.
  - destruct row; [reflexivity|discriminate].
  - destruct row as [|v row]; [discriminate|]. cbn [row_typed] in Ht. apply andb_true_iff in Ht. destruct Ht as [Hv Hr].
    cbn [row_members_gen row_jmembers existsb]. fold (to_tree (snd f) v).
    rewrite (tt_all v _ Hv). rewrite obind_ite with (f := fun j => (fst f, j)).
    apply sequence_ite_cons. apply IH; assumption.
Qed.

Lemma row_members_wf : forall fields row, row_typed fields row = true -> fields_ok fields = true ->
  forallb texts_ok row = true -> existsb has_nonfinite row = false ->
  wf_json (JObj (row_jmembers fields row)) = true.
Proof.
  cbn [wf_json]. induction fields as [|f fields IH]; intros row Ht Hn Hx Hf.
  - destruct row; reflexivity.
  - destruct row as [|v row]; [discriminate|]. cbn [row_typed] in Ht. apply andb_true_iff in Ht. destruct Ht as [Hv Hr].
    unfold fields_ok in *. cbn [forallb existsb row_jmembers fst snd] in *.
    apply andb_true_iff in Hn. destruct Hn as [Hn1 Hn2]. apply andb_true_iff in Hn1. destruct Hn1 as [Hn1 Hn3].
    apply andb_true_iff in Hx. destruct Hx as [Hx1 Hx2]. apply orb_false_iff in Hf. destruct Hf as [Hf1 Hf2].
    rewrite Hn1. rewrite (wf_all v (snd f)) by assumption. cbn [andb]. apply IH; assumption.
Qed.

Theorem json_line_correct : forall fields row,
  row_typed fields row = true -> fields_ok fields = true -> forallb texts_ok row = true ->
  if existsb has_nonfinite row then json_line fields row = Err e_nonfinite
  else exists bytes, json_line fields row = Ok bytes /\
                     json_parse bytes = Some (JObj (row_jmembers fields row)).
Proof.
  intros fields row Ht Hn Hx. unfold json_line, row_tree. rewrite row_members_typed by exact Ht.
  destruct (existsb has_nonfinite row) eqn:Hf; [reflexivity|].
  eexists. split; [reflexivity|]. apply json_tree_roundtrip. apply row_members_wf; assumption.
Qed.

(* ---------- CSV ---------- *)
Definition push_chars (f : list Z) (r : csv_res) : csv_res := fold_right push_char r f.

Lemma push_chars_some : forall f g fs recs,
  push_chars f (Some ((g :: fs) :: recs)) = Some (((f ++ g) :: fs) :: recs).
Proof.
  induction f as [|c f IH]; intros; [reflexivity|].
  change (push_char c (push_chars f (Some ((g :: fs) :: recs))) = Some ((((c :: f) ++ g) :: fs) :: recs)).
  rewrite IH. reflexivity.
Qed.

Lemma special_cases : forall c, csv_special c = false -> c <> 10 /\ c <> 13 /\ c <> 34 /\ c <> 44.
Proof.
  intros c H. unfold csv_special in H. repeat rewrite orb_false_iff in H. repeat rewrite Z.eqb_neq in H. tauto.
Qed.

Lemma csv_plain_step : forall c r st, csv_special c = false -> (st = 0 \/ st = 1 \/ st = 2) ->
  csv_p (c :: r) st = push_char c (csv_p r 2).
Proof.
  intros c r st Hc Hst. apply special_cases in Hc. cbn [csv_p].
  rewrite (eqb_neq st 3) by lia. rewrite (eqb_neq st 4) by lia. cbn [andb].
  rewrite (eqb_neq c 44), (eqb_neq c 10), (eqb_neq c 13), (eqb_neq c 34) by lia. reflexivity.
Qed.

Lemma csv_unquoted : forall f tail st, existsb csv_special f = false -> (st = 0 \/ st = 1 \/ st = 2) ->
  csv_p (f ++ tail) st = push_chars f (csv_p tail (match f with [] => st | _ => 2 end)).
Proof.
  induction f as [|c f IH]; intros tail st Hs Hst; [reflexivity|].
  cbn [existsb] in Hs. apply orb_false_iff in Hs. destruct Hs as [Hc Hs].
  cbn [app]. rewrite csv_plain_step by assumption. rewrite (IH tail 2 Hs) by lia.
  cbn [push_chars fold_right]. destruct f; reflexivity.
Qed.

Lemma csv_terminator : forall c tail st, (c = 44 \/ c = 10) -> (st = 0 \/ st = 1 \/ st = 2 \/ st = 4) ->
  csv_p (c :: tail) st = csv_p (c :: tail) 1.
Proof.
  intros c tail st Hc Hst. destruct Hc; subst c; destruct Hst as [H|[H|[H|H]]]; subst st; reflexivity.
Qed.

Lemma csv_quoted : forall f tail, (match tail with d :: _ => d <> 34 | [] => True end) ->
  csv_p (flat_map csv_qbyte f ++ 34 :: tail) 3 = push_chars f (csv_p tail 4).
Proof.
  induction f as [|c f IH]; intros tail Ht.
  - reflexivity.
  - cbn [flat_map]. unfold csv_qbyte at 1. destruct (Z.eqb_spec c 34) as [->|Nc].
    + cbn [app]. change (csv_p (34 :: 34 :: flat_map csv_qbyte f ++ 34 :: tail) 3)
        with (push_char 34 (csv_p (flat_map csv_qbyte f ++ 34 :: tail) 3)).
      rewrite IH by exact Ht. reflexivity.
    + cbn [app csv_p]. cbn [Z.eqb Pos.eqb]. rewrite (eqb_neq c 34) by exact Nc. rewrite IH by exact Ht. reflexivity.
Qed.

Lemma needs_quotes_false : forall f, needs_quotes f = false -> existsb csv_special f = false.
Proof.
  intros f H. destruct f; [reflexivity|]. unfold needs_quotes in H.
  repeat rewrite orb_false_iff in H. tauto.
Qed.

Lemma csv_one_field : forall f c tail st, (c = 44 \/ c = 10) -> (st = 0 \/ st = 1) ->
  csv_p (csv_field f ++ c :: tail) st = push_chars f (csv_p (c :: tail) 1).
Proof.
  intros f c tail st Hc Hst. unfold csv_field. destruct (needs_quotes f) eqn:Hq.
  - cbn [app]. rewrite <- app_assoc. cbn [app].
    assert (E : csv_p (34 :: flat_map csv_qbyte f ++ 34 :: c :: tail) st = csv_p (flat_map csv_qbyte f ++ 34 :: c :: tail) 3).
    { destruct Hst; subst st; reflexivity. }
    rewrite E. rewrite csv_quoted by lia. rewrite (csv_terminator c tail 4) by lia. reflexivity.
  - apply needs_quotes_false in Hq. rewrite csv_unquoted by (try assumption; lia).
    destruct f; rewrite (csv_terminator c tail) by lia; reflexivity.
Qed.

Lemma csv_one_record : forall fs tail R st, fs <> [] -> csv_p tail 0 = Some R -> (st = 0 \/ st = 1) ->
  csv_p (csv_fields fs ++ tail) st = Some (fs :: R).
Proof.
  induction fs as [|f fs IH]; intros tail R st Hne HR Hst; [congruence|].
  destruct fs as [|g fs'].
  - cbn [csv_fields]. rewrite <- app_assoc. cbn [app]. rewrite csv_one_field by (try assumption; lia).
    change (csv_p (10 :: tail) 1) with (end_record (csv_p tail 0)). rewrite HR. cbn [end_record].
    rewrite push_chars_some. rewrite app_nil_r. reflexivity.
  - change (csv_fields (f :: g :: fs')) with (csv_field f ++ 44 :: csv_fields (g :: fs')).
    rewrite <- app_assoc. cbn [app]. rewrite csv_one_field by (try assumption; lia).
    change (csv_p (44 :: csv_fields (g :: fs') ++ tail) 1) with (new_field (csv_p (csv_fields (g :: fs') ++ tail) 1)).
    rewrite (IH tail R 1) by (try assumption; try discriminate; lia). cbn [new_field].
    rewrite push_chars_some. rewrite app_nil_r. reflexivity.
Qed.

Theorem csv_records_roundtrip : forall recs, Forall (fun fs => fs <> []) recs ->
  csv_parse (concat (map csv_write_record recs)) = Some recs.
Proof.
  unfold csv_parse, csv_write_record. induction recs as [|fs recs IH]; intros HF; [reflexivity|].
  inversion HF; subst. cbn [map concat]. apply csv_one_record; auto.
Qed.

(* the text of a cell: the scalar's text, NULL empty; a nested value's JSON text *)
Definition cell_text (t : fty) (v : fval) : list Z :=
  match v with
  | FNull => []
  | FInt z => print_int z
  | FFloat _ _ f => f
  | FBool b => bool_text b
  | FStr s => s
  | FTime x => x
  | FDur x => x
  | _ => print_json (jtree t v)
  end.

Lemma csv_text_typed : forall t v, has_type t v = true -> (is_container v && has_nonfinite v) = false ->
  csv_text t v = Ok (cell_text t v).
Proof.
  intros t v Ht Hf. unfold csv_text.
  destruct v; try reflexivity; cbn [is_container andb] in Hf; unfold csv_text_gen;
    rewrite (tt_all _ t Ht); rewrite Hf; reflexivity.
Qed.

Fixpoint row_cells (fields : list (list Z * fty)) (row : list fval) : list (list Z) :=
  match fields, row with
  | f :: fields', v :: row' => cell_text (snd f) v :: row_cells fields' row'
  | _, _ => []
  end.

Lemma csv_row_typed : forall fields row, row_typed fields row = true -> nested_finite row = true ->
  csv_record fields row = Ok (csv_write_record (row_cells fields row)).
Proof.
  intros fields row Ht Hf. unfold csv_record.
  assert (E : sequence (csv_row_texts false fields row) = Ok (row_cells fields row)).
  { unfold nested_finite in Hf. apply negb_true_iff in Hf. revert row Ht Hf.
    induction fields as [|f fields IH]; intros row Ht Hf.
    - destruct row; [reflexivity|discriminate].
    - destruct row as [|v row]; [discriminate|]. cbn [row_typed existsb] in *.
      apply andb_true_iff in Ht. destruct Ht as [Hv Hr]. apply orb_false_iff in Hf. destruct Hf as [Hf1 Hf2].
      cbn [csv_row_texts row_cells sequence]. fold (csv_text (snd f) v).
      rewrite csv_text_typed by assumption. cbn [obind]. rewrite IH by assumption. reflexivity. }
  rewrite E. reflexivity.
Qed.

Lemma run_lines_ok : forall (line : list fval -> outcome (list Z)) (g : list fval -> list Z) rows,
  Forall (fun r => line r = Ok (g r)) rows -> run_lines line rows = (0, concat (map g rows)).
Proof.
  induction rows as [|r rows IH]; intros HF; [reflexivity|]. inversion HF; subst.
  cbn [run_lines map concat]. rewrite H1. rewrite IH by assumption. reflexivity.
Qed.

Lemma row_cells_nonempty : forall fields row, fields <> [] -> row_typed fields row = true -> row_cells fields row <> [].
Proof.
  intros [|f fields] row Hne Ht; [congruence|]. destruct row; [discriminate|]. discriminate.
Qed.

Theorem csv_file_correct : forall fields rows, fields <> [] ->
  Forall (fun row => row_typed fields row = true /\ nested_finite row = true) rows ->
  exists bytes, csv_file fields rows = (0, bytes) /\
                csv_parse bytes = Some (map fst fields :: map (row_cells fields) rows).
Proof.
  intros fields rows Hne HF. unfold csv_file.
  rewrite (run_lines_ok (csv_record fields) (fun r => csv_write_record (row_cells fields r))).
  - eexists. split; [reflexivity|]. unfold csv_header.
    rewrite <- (map_map (row_cells fields) csv_write_record).
    change (csv_write_record (map fst fields) ++ concat (map csv_write_record (map (row_cells fields) rows)))
      with (concat (map csv_write_record (map fst fields :: map (row_cells fields) rows))).
    apply csv_records_roundtrip. constructor.
    + destruct fields; [congruence|discriminate].
    + rewrite Forall_map. eapply Forall_impl; [|exact HF]. intros row [Ht _]. apply row_cells_nonempty; assumption.
  - eapply Forall_impl; [|exact HF]. intros row [Ht Hf]. apply csv_row_typed; assumption.
Qed.

(* a nested cell holds JSON text that parses back to the tree of the value *)
Theorem csv_nested_cell : forall t v, is_container v = true -> has_type t v = true -> ty_names_ok t = true ->
  texts_ok v = true -> has_nonfinite v = false ->
  json_parse (cell_text t v) = Some (jtree t v).
Proof.
  intros t v Hc Ht Hn Hx Hf.
  assert (E : cell_text t v = print_json (jtree t v)) by (destruct v; try discriminate; reflexivity).
  rewrite E. apply json_tree_roundtrip_bare. apply wf_all; assumption.
Qed.

(* ---------- the pinned tree ---------- *)
Definition w_fields : list (list Z * fty) := [([120], TScalar 4)].
Lemma pinned_string_not_json :
  exists fields row bytes, row_typed fields row = true /\ json_line_pinned fields row = Ok bytes /\ json_parse bytes = None.
Proof.
  exists w_fields, [FStr [120; 0; 121]], [123; 34; 120; 34; 58; 34; 120; 92; 120; 48; 48; 121; 34; 125; 10].
  split; [reflexivity|]. split; vm_compute; reflexivity.
Qed.

Lemma pinned_nan_not_json :
  exists fields row bytes, row_typed fields row = true /\ json_line_pinned fields row = Ok bytes /\ json_parse bytes = None.
Proof.
  exists [([120], TScalar 2)], [FFloat 9221120237041090561 [78; 97; 78] [78; 97; 78]], [123; 34; 120; 34; 58; 78; 97; 78; 125; 10].
  split; [reflexivity|]. split; vm_compute; reflexivity.
Qed.

Lemma pinned_csv_panics :
  exists fields row, row_typed fields row = true /\ csv_record_pinned fields row = Panic p_csv_type.
Proof. exists [([108], TList (Some (TScalar 1)))], [FList [FInt 1; FInt 2]]. split; vm_compute; reflexivity. Qed.

Lemma int_is_json_number : forall z, json_parse (print_int z) = Some (JNum (print_int z)).
Proof. intros z. apply (json_tree_roundtrip_bare (JNum (print_int z))). apply print_int_token. Qed.

Lemma float_token_passes : forall bits g f,
  nonfinite bits = false -> num_token_ok g = true ->
  to_tree (TScalar 2) (FFloat bits g f) = Ok (JNum g) /\ json_parse (print_json (JNum g)) = Some (JNum g) /\
  csv_text (TScalar 2) (FFloat bits g f) = Ok f.
Proof.
  intros bits g f Hn Hg. split; [|split].
  - unfold to_tree. cbn [to_tree_gen resolve]. rewrite Hn. reflexivity.
  - apply (json_tree_roundtrip_bare (JNum g)). exact Hg.
  - reflexivity.
Qed.


(* ---------- WithoutQualifiers ---------- *)
Lemma bytes_eqb_eq : forall a b, bytes_eqb a b = true <-> a = b.
Proof.
  unfold bytes_eqb. induction a as [|x a IH]; intros [|y b]; cbn [list_eqb]; split; intros H; try discriminate; try reflexivity.
  - apply andb_true_iff in H. destruct H as [H1 H2]. apply Z.eqb_eq in H1. apply IH in H2. subst. reflexivity.
  - inversion H; subst. rewrite Z.eqb_refl. cbn [andb]. apply IH. reflexivity.
Qed.

Lemma bytes_eqb_refl : forall a, bytes_eqb a a = true.
Proof. intros. apply bytes_eqb_eq. reflexivity. Qed.

Lemma name_count_cons : forall s x l,
  name_count s (x :: l) = ((if bytes_eqb s x then 1 else 0) + name_count s l)%nat.
Proof. intros. unfold name_count. cbn [filter]. destruct (bytes_eqb s x); reflexivity. Qed.

Lemma name_count_pos : forall (g : list Z -> list Z) l b, In b l -> (1 <= name_count (g b) (map g l))%nat.
Proof.
  induction l as [|x l IH]; intros b Hb; [contradiction|]. cbn [map]. rewrite name_count_cons.
  destruct Hb as [->|Hb].
  - rewrite bytes_eqb_refl. lia.
  - specialize (IH b Hb). lia.
Qed.

Lemma name_count_two : forall (g : list Z -> list Z) l a b, In a l -> In b l -> a <> b -> g a = g b ->
  (2 <= name_count (g a) (map g l))%nat.
Proof.
  induction l as [|x l IH]; intros a b Ha Hb Hne Hg; [contradiction|]. cbn [map]. rewrite name_count_cons.
  destruct Ha as [->|Ha]; destruct Hb as [->|Hb].
  - congruence.
  - rewrite bytes_eqb_refl. pose proof (name_count_pos g l b Hb) as P. rewrite <- Hg in P. lia.
  - rewrite Hg. rewrite bytes_eqb_refl. pose proof (name_count_pos g l a Ha) as P. rewrite Hg in P. lia.
  - pose proof (IH a b Ha Hb Hne Hg). lia.
Qed.

Definition no_dot (s : list Z) : bool := negb (existsb (fun c => c =? 46) s).

Lemma after_dot_none : forall s, no_dot s = true -> after_dot s = None.
Proof.
  unfold no_dot. induction s as [|c s IH]; intros H; [reflexivity|]. cbn [existsb] in H.
  apply negb_true_iff in H. apply orb_false_iff in H. destruct H as [H1 H2]. cbn [after_dot]. rewrite H1.
  apply IH. apply negb_true_iff. exact H2.
Qed.
Lemma short_name_no_dot : forall s, no_dot s = true -> short_name s = s.
Proof. intros s H. unfold short_name. rewrite after_dot_none by exact H. reflexivity. Qed.

Lemma NoDup_map_inj_in : forall (A B : Type) (f : A -> B) (l : list A),
  NoDup l -> (forall a b, In a l -> In b l -> f a = f b -> a = b) -> NoDup (map f l).
Proof.
  induction l as [|x l IH]; intros Hnd Hinj; [constructor|]. inversion Hnd; subst. cbn [map]. constructor.
  - intros Hin. apply in_map_iff in Hin. destruct Hin as [y [Hy Hyl]].
    assert (y = x) by (apply Hinj; [right; exact Hyl|left; reflexivity|exact Hy]). subst. contradiction.
  - apply IH; [assumption|]. intros a b Ha Hb. apply Hinj; right; assumption.
Qed.

Lemma wq_names : forall fields,
  map fst (without_qualifiers fields) = map (out_name (map short_name (map fst fields))) (map fst fields).
Proof. intros. unfold without_qualifiers. rewrite !map_map. reflexivity. Qed.

Lemma wq_types : forall fields, map snd (without_qualifiers fields) = map snd fields.
Proof. intros. unfold without_qualifiers. rewrite map_map. reflexivity. Qed.

(* distinct columns keep distinct names, provided no column name holds a '.' after its qualifier *)
Theorem wq_names_distinct : forall fields,
  NoDup (map fst fields) -> forallb (fun n => no_dot (short_name n)) (map fst fields) = true ->
  NoDup (map fst (without_qualifiers fields)).
Proof.
  intros fields Hnd Hdots. rewrite wq_names. set (names := map fst fields) in *. clearbody names.
  apply NoDup_map_inj_in; [exact Hnd|]. intros a b Ha Hb E.
  destruct (list_eq_dec Z.eq_dec a b) as [|Hne]; [assumption|exfalso].
  rewrite forallb_forall in Hdots. pose proof (Hdots a Ha) as Da. pose proof (Hdots b Hb) as Db.
  unfold out_name in E.
  destruct (Nat.eqb_spec (name_count (short_name a) (map short_name names)) 1) as [Ca|Ca];
  destruct (Nat.eqb_spec (name_count (short_name b) (map short_name names)) 1) as [Cb|Cb].
  - pose proof (name_count_two short_name names a b Ha Hb Hne E) as H2. rewrite Ca in H2. exact (Nat.nle_succ_diag_l _ H2).
  - (* short a = b: b has no dot, so it is its own short name *)
    assert (Sb : short_name b = b) by (apply short_name_no_dot; rewrite <- E; exact Da).
    assert (E' : short_name a = short_name b) by congruence.
    pose proof (name_count_two short_name names a b Ha Hb Hne E') as H2. rewrite Ca in H2. exact (Nat.nle_succ_diag_l _ H2).
  - assert (Sa : short_name a = a) by (apply short_name_no_dot; rewrite E; exact Db).
    assert (E' : short_name a = short_name b) by congruence.
    pose proof (name_count_two short_name names a b Ha Hb Hne E') as H2. rewrite E' in H2. rewrite Cb in H2. exact (Nat.nle_succ_diag_l _ H2).
  - contradiction.
Qed.

(* the executable distinctness test used by the oracle decides NoDup *)
Lemma nodupb_spec : forall l, nodupb l = true <-> NoDup l.
Proof.
  induction l as [|x l IH]; cbn [nodupb]; split; intros H; try constructor; try reflexivity.
  - apply andb_true_iff in H. destruct H as [H1 H2]. apply negb_true_iff in H1. intros Hin.
    assert (existsb (bytes_eqb x) l = true) by (apply existsb_exists; exists x; split; [exact Hin|apply bytes_eqb_refl]). congruence.
  - apply IH. apply andb_true_iff in H. tauto.
  - inversion H; subst. apply andb_true_iff. split; [|apply IH; assumption].
    apply negb_true_iff. destruct (existsb (bytes_eqb x) l) eqn:Ex; [|reflexivity].
    apply existsb_exists in Ex. destruct Ex as [y [Hy Hxy]]. apply bytes_eqb_eq in Hxy. subst. contradiction.
Qed.

(* SetSchema keeps the column types, so a row conforms to the printed schema iff it conforms to the given one *)
Lemma wq_row_typed : forall fields row, row_typed (without_qualifiers fields) row = row_typed fields row.
Proof.
  intros fields. unfold without_qualifiers. generalize (map (fun f : list Z * fty => short_name (fst f)) fields) as shorts.
  intros shorts. induction fields as [|f fields IH]; intros row; [reflexivity|].
  destruct row as [|v row]; [reflexivity|]. cbn [map row_typed snd]. rewrite IH. reflexivity.
Qed.

Lemma wq_nonempty : forall fields, fields <> [] -> without_qualifiers fields <> [].
Proof. intros [|f fields] H; [congruence|discriminate]. Qed.

(* the pathological shape left out by the hypothesis above: a name with two dots can collide *)
Lemma wq_collision_with_dotted_column :
  exists fields, NoDup (map fst fields) /\ ~ NoDup (map fst (without_qualifiers fields)).
Proof.
  exists [([113; 46; 120; 46; 121], TScalar 1); ([120; 46; 121], TScalar 1); ([122; 46; 121], TScalar 1)].
  split.
  - apply nodupb_spec. vm_compute. reflexivity.
  - intros H. apply nodupb_spec in H. vm_compute in H. discriminate.
Qed.

Lemma wq_kept : forall fields,
  map snd (without_qualifiers fields) = map snd fields /\
  (forall row, row_typed (without_qualifiers fields) row = row_typed fields row) /\
  (fields <> [] -> without_qualifiers fields <> []).
Proof. intros fields. split; [apply wq_types|split; [apply wq_row_typed|apply wq_nonempty]]. Qed.
