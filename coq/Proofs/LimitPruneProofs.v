(* Proofs/LimitPruneProofs.v — the DeleteMax pruning of OrderSensitiveTransform / batch.OutputPrinter is invisible:
   on an insert-only input (what noRetractionsPossible = Schema.NoRetractions promises) the pruned tree is, at
   every moment, the first n items of the unpruned tree, and the first n rows printed from either are the same. *)
From Coq Require Import Sorted.
From Octo Require Import Operators LimitOrder CompareLaws ChangelogLemmas OperatorsProofs LimitOrderProofs.

Definition prune (L : nat) (t : tree) : tree := if (L <? length t)%nat then removelast t else t.

Lemma prune_cons_firstn (y : row * Z) : forall L m, prune L (y :: firstn L m) = firstn L (y :: m).
Proof.
  intros L m. unfold prune. cbn [length]. rewrite firstn_length.
  destruct L as [|L']; [reflexivity|].
  destruct (Nat.ltb_spec (S L') (S (Nat.min (S L') (length m)))) as [Lt|Ge].
  - assert (Hm : (S L' <= length m)%nat) by lia.
    destruct m as [|a m']; [simpl in Hm; lia|].
    change (firstn (S L') (y :: a :: m')) with (y :: firstn L' (a :: m')).
    rewrite <- (removelast_firstn (a :: m') (n := L')) by (simpl in *; lia).
    change (firstn (S L') (a :: m')) with (a :: firstn L' m'). reflexivity.
  - assert (Hm : (length m <= L')%nat) by lia.
    change (firstn (S L') (y :: m)) with (y :: firstn L' m).
    rewrite !firstn_all2 by lia. reflexivity.
Qed.

Lemma tinsert_nonempty ks t x c : tinsert ks t x c <> [].
Proof. destruct t as [|[k c0] t]; cbn [tinsert]; [discriminate|]. destruct (item_less ks x k); discriminate. Qed.

Lemma prune_cons L a T : T <> [] -> prune (S L) (a :: T) = a :: prune L T.
Proof.
  intro NE. unfold prune. cbn [length]. change (S L <? S (length T))%nat with (L <? length T)%nat.
  destruct (L <? length T)%nat; [|reflexivity]. destruct T; [contradiction | reflexivity].
Qed.

(* inserting into the first L items and cutting back to L items = the first L items after inserting into the whole *)
Lemma firstn_tinsert ks x c : forall F L, firstn L (tinsert ks F x c) = prune L (tinsert ks (firstn L F) x c).
Proof.
  induction F as [|[k c0] F IH]; intro L.
  - rewrite firstn_nil. cbn [tinsert]. destruct L as [|L']; [reflexivity|]. unfold prune. cbn [length].
    destruct (Nat.ltb_spec (S L') 1); [lia|]. destruct L'; reflexivity.
  - destruct L as [|L'].
    + reflexivity.
    + cbn [firstn tinsert]. destruct (item_less ks x k).
      * change ((k, c0) :: firstn L' F) with (firstn (S L') ((k, c0) :: F)). rewrite prune_cons_firstn. reflexivity.
      * cbn [firstn]. rewrite IH. rewrite prune_cons by apply tinsert_nonempty. reflexivity.
Qed.

Lemma tget_firstn_some ks x c : forall F L, tget ks (firstn L F) x = Some c -> tget ks F x = Some c.
Proof.
  induction F as [|[k c0] F IH]; intros L H; [rewrite firstn_nil in H; exact H|].
  destruct L as [|L']; [discriminate|]. cbn [firstn tget] in *. destruct (item_eqv ks k x); [exact H | apply (IH L' H)].
Qed.

Lemma firstn_tset_some ks x c c0 : forall F L, tget ks (firstn L F) x = Some c0 ->
  firstn L (tset ks F x c) = tset ks (firstn L F) x c.
Proof.
  induction F as [|[k c1] F IH]; intros L H; [rewrite firstn_nil in H; discriminate|].
  destruct L as [|L']; [discriminate|]. cbn [firstn tget tset] in *. destruct (item_eqv ks k x); cbn [firstn]; [reflexivity|].
  rewrite (IH L' H). reflexivity.
Qed.

Lemma firstn_tset_none ks x c : forall F L, tget ks (firstn L F) x = None -> firstn L (tset ks F x c) = firstn L F.
Proof.
  induction F as [|[k c1] F IH]; intros L H; [reflexivity|].
  destruct L as [|L']; [reflexivity|]. cbn [firstn tget tset] in *. destruct (item_eqv ks k x); [discriminate|]. cbn [firstn].
  rewrite (IH L' H). reflexivity.
Qed.

Lemma length_tset ks t x c : length (tset ks t x c) = length t.
Proof. induction t as [|[k c0] t IH]; [reflexivity|]. cbn [tset]. destruct (item_eqv ks k x); cbn [length]; [reflexivity | rewrite IH; reflexivity]. Qed.

Lemma item_eqv_cmp0 ks a b : item_eqv ks a b = true <-> item_cmp ks a b = 0.
Proof.
  unfold item_eqv, item_less. rewrite (cl_anti _ _ (item_cmp_laws ks a) b).
  destruct (cl_range _ _ (item_cmp_laws ks a) b) as [R|[R|R]]; rewrite R; simpl; split; intro; try discriminate; try reflexivity; lia.
Qed.

Lemma tget_in ks x c : forall t, tget ks t x = Some c -> exists k, In (k, c) t /\ item_eqv ks k x = true.
Proof.
  induction t as [|[k c0] t IH]; cbn [tget]; [discriminate|]. destruct (item_eqv ks k x) eqn:E.
  - intro H. inversion H; subst. exists k. split; [left; reflexivity | exact E].
  - intro H. destruct (IH H) as [k' [I E']]. exists k'. split; [right; exact I | exact E'].
Qed.

(* the row is in the tree beyond the first L items: it sorts after all of them, so it is appended and cut off again *)
Lemma tinsert_beyond ks x c c0 : forall F L, tsorted ks F -> tget ks (firstn L F) x = None -> tget ks F x = Some c0 ->
  tinsert ks (firstn L F) x c = firstn L F ++ [(x, c)] /\ length (firstn L F) = L.
Proof.
  induction F as [|[k c1] F IH]; intros L S HN HS; [discriminate|].
  destruct L as [|L']; [split; reflexivity|].
  cbn [firstn tget] in *. destruct (item_eqv ks k x) eqn:E; [discriminate|].
  inversion S as [|? ? S' Fa]; subst.
  destruct (tget_in ks x c0 F HS) as [m [Im Em]]. apply item_eqv_cmp0 in Em.
  rewrite Forall_forall in Fa. pose proof (Fa (m, c0) Im) as Lt. unfold tlt in Lt. cbn [fst] in Lt.
  rewrite (cl_congr _ _ (item_cmp_laws ks k) m x Em) in Lt.
  assert (NL : item_less ks x k = false).
  { unfold item_less. rewrite (cl_anti _ _ (item_cmp_laws ks k) x), Lt. reflexivity. }
  cbn [tinsert]. rewrite NL. destruct (IH L' S' HN HS) as [E1 E2]. rewrite E1. cbn [app length]. rewrite E2. split; reflexivity.
Qed.

Lemma removelast_snoc {A} (l : list A) a : removelast (l ++ [a]) = l.
Proof. rewrite removelast_app by discriminate. simpl. apply app_nil_r. Qed.

Section PruneStep.
  Variables (ks : okeys) (n : Z).
  Hypothesis Hn : 0 <= n.
  Let L := Z.to_nat n.

  Lemma prune_test (t : tree) : (n <? Z.of_nat (length t)) = (L <? length t)%nat.
  Proof. unfold L. destruct (Z.ltb_spec n (Z.of_nat (length t))), (Nat.ltb_spec (Z.to_nat n) (length t)); try reflexivity; lia. Qed.

  Lemma prune_step F r : tsorted ks F -> (forall k c, In (k, c) F -> 0 < c) -> retr r = false ->
    fst (tree_step ks (Some n) true (firstn L F) r) = firstn L (fst (tree_step ks (Some n) false F r)) /\
    0 < snd (tree_step ks (Some n) true (firstn L F) r).
  Proof.
    intros S Pos Hr. unfold tree_step. rewrite Hr. cbn [andb fst snd].
    assert (PosP : forall c, tget ks (firstn L F) (vals r) = Some c -> 0 < c).
    { intros c H. apply tget_firstn_some in H. destruct (tget_in ks _ c F H) as [k [I _]]. apply (Pos k c I). }
    assert (PosF : forall c, tget ks F (vals r) = Some c -> 0 < c).
    { intros c H. destruct (tget_in ks _ c F H) as [k [I _]]. apply (Pos k c I). }
    destruct (tget ks (firstn L F) (vals r)) as [cp|] eqn:GP.
    - (* found among the first L items: same count in both *)
      pose proof (tget_firstn_some ks _ cp F L GP) as GF. rewrite GF.
      pose proof (PosP cp eq_refl) as P1.
      destruct (Z.ltb_spec 0 (cp + 1)) as [_|Bad]; [|lia].
      rewrite prune_test, length_tset.
      assert (Len : (length (firstn L F) <= L)%nat) by (rewrite firstn_length; lia).
      destruct (Nat.ltb_spec L (length (firstn L F))); [lia|].
      split; [|lia]. symmetry. apply (firstn_tset_some ks _ _ cp F L GP).
    - destruct (Z.ltb_spec 0 (0 + 1)) as [_|Bad]; [|lia]. split; [|lia].
      destruct (tget ks F (vals r)) as [cf|] eqn:GF.
      + (* pruned earlier (or beyond position L): appended to the L items and cut off again *)
        pose proof (PosF cf eq_refl) as P1. destruct (Z.ltb_spec 0 (cf + 1)) as [_|Bad]; [|lia].
        destruct (tinsert_beyond ks (vals r) (0 + 1) cf F L S GP GF) as [E1 E2].
        rewrite E1, prune_test, app_length. cbn [length]. rewrite E2.
        destruct (Nat.ltb_spec L (L + 1)); [|lia]. rewrite removelast_snoc.
        symmetry. apply firstn_tset_none. exact GP.
      + (* a new row *)
        destruct (Z.ltb_spec 0 (0 + 1)) as [_|Bad]; [|lia].
        rewrite prune_test. rewrite firstn_tinsert. reflexivity.
  Qed.
End PruneStep.

Lemma expand_tree_app a b : expand_tree (a ++ b) = expand_tree a ++ expand_tree b.
Proof. unfold expand_tree. apply flat_map_app. Qed.

Lemma expand_tree_length t : (forall k c, In (k, c) t -> 0 < c) -> (length t <= length (expand_tree t))%nat.
Proof.
  induction t as [|[k c] t IH]; intro Pos; [simpl; lia|].
  unfold expand_tree. cbn [flat_map fst snd]. fold (expand_tree t). rewrite app_length, repeat_length. cbn [length].
  pose proof (Pos k c (or_introl eq_refl)). assert (length t <= length (expand_tree t))%nat by (apply IH; intros; eapply Pos; right; eassumption). lia.
Qed.

(* every item stands for at least one row, so the first L rows come from the first L items *)
Lemma firstn_expand_firstn L F : (forall k c, In (k, c) F -> 0 < c) ->
  firstn L (expand_tree (firstn L F)) = firstn L (expand_tree F).
Proof.
  intro Pos. destruct (Nat.le_gt_cases (length F) L) as [Le|Gt]; [rewrite (firstn_all2 F Le); reflexivity|].
  rewrite <- (firstn_skipn L F) at 2. rewrite expand_tree_app, firstn_app.
  assert (P1 : forall k c, In (k, c) (firstn L F) -> 0 < c).
  { intros k c I. apply (Pos k c). rewrite <- (firstn_skipn L F). apply in_or_app. left. exact I. }
  pose proof (expand_tree_length _ P1) as Len. rewrite firstn_length in Len.
  replace (L - length (expand_tree (firstn L F)))%nat with 0%nat by lia. rewrite firstn_O, app_nil_r. reflexivity.
Qed.

Section PruneRun.
  Variables (n0 : nat) (ks : okeys) (n : Z).
  Hypothesis Hk : key_congruent ks.
  Hypothesis Hn : 0 <= n.
  Let L := Z.to_nat n.

  Lemma prune_run : forall inp F pre, TInv n0 ks F pre -> arity_is n0 (records inp) -> insert_only (records inp) = true ->
    (forall k x, 0 <= consolidate (pre ++ firstn k (records inp)) x) ->
    ost_tree ks (Some n) true (firstn L F) inp = firstn L (ost_tree ks (Some n) false F inp) /\
    printer_tree ks (Some n) true (firstn L F) inp = Ok (firstn L (ost_tree ks (Some n) false F inp)).
  Proof.
    induction inp as [|[r|w] inp IH]; intros F pre I Ha Hi V.
    - split; reflexivity.
    - change (records (Rec r :: inp)) with (r :: records inp) in *.
      cbn [insert_only forallb] in Hi. apply andb_true_iff in Hi. destruct Hi as [Hr Hi]. apply negb_true_iff in Hr.
      assert (Np : nonneg pre) by (intro x; specialize (V 0%nat x); rewrite app_nil_r in V; exact V).
      assert (Np1 : nonneg (pre ++ [r])) by (intro x; apply (V 1%nat x)).
      destruct (tree_step_inv n0 ks (Some n) false F pre r Hk (or_intror eq_refl) I (Ha r (or_introl eq_refl)) Np Np1) as [I' _].
      destruct I as [K [_ [Srt _]]].
      destruct (prune_step ks n Hn F r Srt (fun k c H => proj2 (K k c H)) Hr) as [E P].
      fold L in E, P.
      assert (IHn := IH (fst (tree_step ks (Some n) false F r)) (pre ++ [r]) I'
                        (fun r' Hr' => Ha r' (or_intror Hr')) Hi
                        (fun k x => eq_ind _ (fun l => 0 <= consolidate l x) (V (S k) x) _ (app_assoc pre [r] (firstn k (records inp))))).
      cbn [ost_tree printer_tree]. destruct (tree_step ks (Some n) true (firstn L F) r) as [t' c] eqn:Es. cbn [fst snd] in E, P. subst t'.
      destruct (Z.ltb_spec c 0); [lia|]. exact IHn.
    - change (records (WM w :: inp)) with (records inp) in *. cbn [ost_tree printer_tree]. apply (IH F pre); assumption.
  Qed.

  Variable inp : list event.
  Hypothesis Ha : arity_is n0 (records inp).
  Hypothesis Hi : insert_only (records inp) = true.

  Lemma pruned_trees :
    ost_tree ks (Some n) true [] inp = firstn L (ost_tree ks (Some n) false [] inp) /\
    printer_tree ks (Some n) true [] inp = Ok (firstn L (ost_tree ks (Some n) false [] inp)) /\
    (forall k c, In (k, c) (ost_tree ks (Some n) false [] inp) -> 0 < c).
  Proof.
    pose proof (insert_only_Valid _ Hi) as V.
    destruct (prune_run inp [] [] (TInv_init n0 ks) Ha Hi (proj1 (valid_iff _) V)) as [E1 E2].
    rewrite firstn_nil in E1, E2. split; [exact E1|]. split; [exact E2|].
    destruct (final_tree n0 ks Hk (Some n) false inp (or_intror eq_refl) Ha V) as [K _]. intros k c H. apply (K k c H).
  Qed.

  (* C05_prune_safe: the pruning changes nothing that is printed *)
  Theorem run_ost_prune_eq : run_ost ks (Some n) true inp = run_ost ks (Some n) false inp.
  Proof.
    unfold run_ost, run_ost_gen. destruct (n =? 0); [reflexivity|]. destruct (n <? 0); [reflexivity|].
    destruct pruned_trees as [E [_ Pos]]. rewrite E. cbn [ost_emit].
    rewrite !take_upto_firstn by lia. rewrite Z.sub_0_r. fold L. rewrite (firstn_expand_firstn L _ Pos). reflexivity.
  Qed.

  Theorem run_printer_prune_eq : run_printer ks (Some n) true inp = run_printer ks (Some n) false inp.
  Proof.
    unfold run_printer. destruct pruned_trees as [_ [E Pos]]. rewrite E.
    pose proof (insert_only_Valid _ Hi) as V.
    rewrite (printer_tree_ost n0 ks (Some n) false Hk (or_intror eq_refl) inp [] [] (TInv_init n0 ks) Ha (proj1 (valid_iff _) V)).
    cbn [obind printer_emit]. rewrite !take_eq_firstn by lia. rewrite Z.sub_0_r. fold L. rewrite (firstn_expand_firstn L _ Pos). reflexivity.
  Qed.

  Theorem printed_prune_eq mode nested : ks <> [] ->
    printed mode nested ks (Some n) true inp = printed mode nested ks (Some n) false inp.
  Proof.
    intro NE. unfold printed, eager_choice, table_choice.
    replace (is_nil ks) with false by (destruct ks; [contradiction | reflexivity]). cbn [negb orb andb].
    rewrite run_ost_prune_eq, run_printer_prune_eq. reflexivity.
  Qed.
End PruneRun.

(* ---- the full statements: every NoRetractions setting ---- *)
Section Full.
  Variables (n0 : nat) (ks : okeys) (n : Z) (inp : list event) (rows : list row) (noretr : bool).
  Hypothesis Hk : key_congruent ks.
  Hypothesis Hn : 0 <= n.
  Hypothesis Ha : arity_is n0 (records inp).
  Hypothesis V : valid_changelog (records inp) = true.
  Hypothesis R : represents rows (records inp).
  Hypothesis Hi : noretr = true -> insert_only (records inp) = true.

  Theorem ost_top_n_full : exists out, run_ost ks (Some n) noretr inp = Ok out /\ insert_only (records out) = true /\ is_top_n ks n rows (rows_of out).
  Proof.
    assert (E : run_ost ks (Some n) noretr inp = run_ost ks (Some n) false inp).
    { destruct noretr; [apply (run_ost_prune_eq n0 ks n Hk Hn inp Ha (Hi eq_refl)) | reflexivity]. }
    rewrite E. destruct (ost_top_n n0 ks Hk n inp rows Hn Ha V R) as [out [Eo T]]. exists out. split; [exact Eo|]. split; [|exact T].
    unfold run_ost, run_ost_gen in Eo. destruct (n =? 0); [inversion Eo; reflexivity|]. destruct (n <? 0); [discriminate|].
    inversion Eo. rewrite records_map_Rec'. apply forallb_forall. intros r Hr. apply in_map_iff in Hr. destruct Hr as [x [<- _]]. reflexivity.
  Qed.

  Theorem printer_top_n_full : exists out, run_printer ks (Some n) noretr inp = Ok out /\ is_top_n ks n rows out.
  Proof.
    assert (E : run_printer ks (Some n) noretr inp = run_printer ks (Some n) false inp).
    { destruct noretr; [apply (run_printer_prune_eq n0 ks n Hk Hn inp Ha (Hi eq_refl)) | reflexivity]. }
    rewrite E. apply (printer_top_n n0 ks Hk n inp rows Hn Ha V R).
  Qed.

  Hypothesis NE : ks <> [].

  Theorem order_limit_printed_full mode nested : (nested = true -> mode <> BatchTable) ->
    exists out, printed mode nested ks (Some n) noretr inp = Ok out /\ is_top_n ks n rows out.
  Proof.
    intro Hm.
    assert (E : printed mode nested ks (Some n) noretr inp = printed mode nested ks (Some n) false inp).
    { destruct noretr; [apply (printed_prune_eq n0 ks n Hk Hn inp Ha (Hi eq_refl) mode nested NE) | reflexivity]. }
    rewrite E. apply (order_limit_printed n0 ks n inp rows Hk Hn Ha V R NE mode nested Hm).
  Qed.

  Theorem order_limit_nested_table_full :
    exists inner out, eager_choice ks (Some n) noretr inp = Ok inner /\ is_top_n ks n rows (rows_of inner) /\
                      printed BatchTable true ks (Some n) noretr inp = Ok out /\ forall x, count_rows out x = count_rows (rows_of inner) x.
  Proof.
    assert (E : printed BatchTable true ks (Some n) noretr inp = printed BatchTable true ks (Some n) false inp).
    { destruct noretr; [apply (printed_prune_eq n0 ks n Hk Hn inp Ha (Hi eq_refl) BatchTable true NE) | reflexivity]. }
    assert (E2 : eager_choice ks (Some n) noretr inp = eager_choice ks (Some n) false inp).
    { unfold eager_choice. replace (is_nil ks) with false by (destruct ks; [contradiction | reflexivity]). cbn [negb orb].
      destruct noretr; [apply (run_ost_prune_eq n0 ks n Hk Hn inp Ha (Hi eq_refl)) | reflexivity]. }
    rewrite E, E2. apply (order_limit_nested_table n0 ks n inp rows Hk Hn Ha V R NE).
  Qed.
End Full.
