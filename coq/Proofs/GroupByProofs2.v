(* Proofs/GroupByProofs2.v — when is the order the event-time buffer delivers still a valid changelog?
   Whenever all records of one row carry one event time (a retraction is stamped like its insertion). *)
From Octo Require Import GroupBy TriggerProofs GroupByProofs CompareLaws ChangelogLemmas.

Definition cls (x : list value) (l : list rec) : list rec := filter (fun r => row_eqb (vals r) x) l.
Definition row_timed (l : list rec) : Prop :=
  forall r1 r2, In r1 l -> In r2 l -> row_eqb (vals r1) (vals r2) = true -> et r1 = et r2.

Lemma cls_app x a b : cls x (a ++ b) = cls x a ++ cls x b.
Proof. apply filter_app. Qed.
Lemma consolidate_cls l x : consolidate l x = zsum (map sign (cls x l)).
Proof. unfold cls. induction l as [|r l IH]; simpl; [reflexivity|]. destruct (row_eqb (vals r) x); simpl; lia. Qed.

(* validity only looks at each row's own subsequence *)
Definition pvalid' (l : list rec) : Prop := forall x q s, cls x l = q ++ s -> 0 <= zsum (map sign q).
Lemma pvalid_iff l : pvalid l <-> pvalid' l.
Proof.
  split.
  - intros V x q s E. destruct (filter_prefix _ _ _ _ E) as [p' [s' [E1 E2]]]. subst q.
    fold (cls x p'). rewrite <- consolidate_cls. apply (V p' s' E1).
  - intros V p s E row. rewrite consolidate_cls. apply (V row (cls row p) (cls row s)). subst. apply cls_app.
Qed.
Lemma pvalid_same_cls l1 l2 : (forall x, cls x l1 = cls x l2) -> pvalid l1 -> pvalid l2.
Proof. intros H V. apply pvalid_iff. intros x q s E. rewrite <- H in E. apply (proj1 (pvalid_iff l1) V x q s E). Qed.

(* ---------- the buffer ---------- *)
(* strictly ascending group times, every group holds records of its own non-zero time *)
Fixpoint buf_ok (lo : Z) (b : etbuf) : Prop :=
  match b with
  | [] => True
  | (t, rs) :: rest => lo < t /\ (forall r, In r rs -> et r = t) /\ buf_ok t rest
  end.
Lemma buf_ok_weaken lo lo' b : lo' <= lo -> buf_ok lo b -> buf_ok lo' b.
Proof. destruct b as [|[t rs] rest]; simpl; [auto|]. intros L [H1 H2]. split; [lia | exact H2]. Qed.
Lemma buf_ok_et lo : forall b r, buf_ok lo b -> In r (bufrecs b) -> lo < et r.
Proof.
  intros b. revert lo. induction b as [|[t rs] rest IH]; simpl; intros lo r O H; [destruct H|].
  destruct O as [L [W O]]. apply in_app_or in H. destruct H as [H|H]; [rewrite (W r H); exact L|].
  specialize (IH t r O H). lia.
Qed.

Lemma buf_add_ok r : forall b lo, lo < et r -> buf_ok lo b -> buf_ok lo (buf_add r b).
Proof.
  induction b as [|[t rs] rest IH]; simpl; intros lo L O.
  - repeat split; auto. intros r' [H|[]]. subst. reflexivity.
  - destruct O as [L1 [W O]]. destruct (Z.ltb_spec (et r) t).
    + simpl. repeat split; auto. intros r' [Hr|[]]. subst. reflexivity.
    + destruct (Z.eqb_spec (et r) t).
      * simpl. repeat split; auto. intros r' Hr. apply in_app_or in Hr. destruct Hr as [Hr|[Hr|[]]]; [apply W; exact Hr | subst r'; exact e].
      * simpl. repeat split; auto. apply IH; [lia | exact O].
Qed.

Lemma cls_single x r : cls x [r] = if row_eqb (vals r) x then [r] else [].
Proof. reflexivity. Qed.
Lemma bufrecs_cons t rs rest : bufrecs ((t, rs) :: rest) = rs ++ bufrecs rest.
Proof. reflexivity. Qed.
Lemma cls_none x l : (forall y, In y l -> row_eqb (vals y) x = true -> False) -> cls x l = [].
Proof.
  induction l as [|y l IH]; intro H; [reflexivity|]. unfold cls in *. simpl.
  destruct (row_eqb (vals y) x) eqn:E; [exfalso; apply (H y (or_introl eq_refl) E)|].
  apply IH. intros z Hz. apply H. right. exact Hz.
Qed.

(* the records of one row are kept in arrival order by AddRecord, if they all carry r's event time *)
Lemma buf_add_cls x r : forall b lo, buf_ok lo b ->
  (forall y, In y (bufrecs b) -> row_eqb (vals y) x = true -> row_eqb (vals r) x = true -> et y = et r) ->
  cls x (bufrecs (buf_add r b)) = cls x (bufrecs b) ++ cls x [r].
Proof.
  induction b as [|[t rs] rest IH]; intros lo O T; [reflexivity|].
  cbn [buf_add]. destruct O as [L1 [W O]]. rewrite bufrecs_cons in T.
  destruct (Z.ltb_spec (et r) t) as [Hlt|Hge].
  - (* new first group: no record of the row is in the buffer *)
    rewrite (bufrecs_cons (et r) [r]), cls_app, cls_single.
    destruct (row_eqb (vals r) x) eqn:Er; [|rewrite app_nil_r; reflexivity].
    rewrite (cls_none x (bufrecs ((t, rs) :: rest))); [reflexivity|]. rewrite bufrecs_cons.
    intros y Hy Ey. pose proof (T y Hy Ey eq_refl) as E.
    apply in_app_or in Hy. destruct Hy as [Hy|Hy]; [rewrite (W y Hy) in E; lia|].
    pose proof (buf_ok_et t rest y O Hy). lia.
  - destruct (Z.eqb_spec (et r) t) as [e|ne].
    + (* appended to its own group: the later groups hold no record of the row *)
      rewrite !bufrecs_cons, !cls_app, cls_single, <- !app_assoc. f_equal.
      destruct (row_eqb (vals r) x) eqn:Er; [|rewrite app_nil_r; reflexivity].
      rewrite (cls_none x (bufrecs rest)); [reflexivity|].
      intros y Hy Ey. assert (Hy' : In y (rs ++ bufrecs rest)) by (apply in_or_app; right; exact Hy).
      pose proof (T y Hy' Ey eq_refl) as E. pose proof (buf_ok_et t rest y O Hy). lia.
    + rewrite !bufrecs_cons, !cls_app. rewrite (IH t O); [rewrite app_assoc; reflexivity|].
      intros y Hy. apply T. apply in_or_app. right. exact Hy.
Qed.

Lemma buf_emit_split w : forall b o b', buf_emit w b = (o, b') -> bufrecs b = o ++ bufrecs b'.
Proof.
  induction b as [|[t rs] rest IH]; simpl; intros o b' H.
  - inversion H; subst. reflexivity.
  - destruct (w <? t); [inversion H; subst; reflexivity|].
    destruct (buf_emit w rest) as [o2 b2] eqn:E. inversion H; subst. rewrite (IH o2 b' eq_refl), app_assoc. reflexivity.
Qed.
Lemma buf_emit_ok w : forall b lo o b', buf_emit w b = (o, b') -> buf_ok lo b -> buf_ok lo b'.
Proof.
  induction b as [|[t rs] rest IH]; simpl; intros lo o b' H O.
  - inversion H; subst. exact I.
  - destruct (w <? t); [inversion H; subst; exact O|].
    destruct (buf_emit w rest) as [o2 b2] eqn:E. inversion H; subst. destruct O as [L [W O]].
    apply (buf_ok_weaken t lo); [lia|]. apply (IH t o2 b' eq_refl O).
Qed.

Lemma etb_run_from_cls x : forall es b b' o, buf_ok zero_ns b ->
  row_timed (bufrecs b ++ records es) -> (forall r, In r (records es) -> zero_ns <= et r) ->
  etb_run_from b es = (b', o) ->
  cls x (records o) ++ cls x (bufrecs b') = cls x (bufrecs b) ++ cls x (records es) /\ buf_ok zero_ns b'.
Proof.
  induction es as [|e rest IH]; intros b b' o O RT NZ H.
  - simpl in H. inversion H; subst. simpl. rewrite app_nil_r. auto.
  - cbn [etb_run_from] in H. destruct (etb_step b e) as [b1 o1] eqn:S1.
    destruct (etb_run_from b1 rest) as [b2 o2] eqn:S2. inversion H; subst; clear H.
    change (e :: rest) with ([e] ++ rest) in *. rewrite records_app in *.
    destruct e as [r|w]; simpl in S1.
    + simpl in RT, NZ. destruct (Z.eqb_spec (et r) zero_ns) as [ez|nz]; inversion S1; subst; clear S1.
      * (* zero-time record: handed on at once; the buffer holds no record of its row *)
        assert (RT' : row_timed (bufrecs b1 ++ records rest)).
        { intros r1 r2 H1 H2. apply RT; apply in_app_or in H1; apply in_app_or in H2; apply in_or_app; [destruct H1 | destruct H2]; auto; right; right; assumption. }
        destruct (IH _ _ _ O RT' (fun r' Hr' => NZ r' (or_intror Hr')) S2) as [C O'].
        split; [|exact O']. rewrite ?records_app. change (records [Rec r]) with [r].
        rewrite !cls_app, <- !app_assoc, C, cls_single.
        destruct (row_eqb (vals r) x) eqn:Er; [|reflexivity].
        assert (N : cls x (bufrecs b1) = []).
        { apply cls_none. intros y Hy Ey.
          assert (E : et y = et r).
          { apply RT; [apply in_or_app; left; exact Hy | apply in_or_app; right; left; reflexivity|].
            rewrite (row_eqb_cong_r (vals y) (vals r) x Er). exact Ey. }
          pose proof (buf_ok_et zero_ns b1 y O Hy). lia. }
        rewrite N. reflexivity.
      * assert (Lr : zero_ns < et r) by (specialize (NZ r (or_introl eq_refl)); lia).
        assert (RT' : row_timed (bufrecs (buf_add r b) ++ records rest)).
        { intros r1 r2 H1 H2. apply RT.
          - apply in_app_or in H1. destruct H1 as [H1|H1]; [|apply in_or_app; right; right; exact H1].
            destruct (buf_add_in _ _ _ H1); [subst; apply in_or_app; right; left; reflexivity | apply in_or_app; left; assumption].
          - apply in_app_or in H2. destruct H2 as [H2|H2]; [|apply in_or_app; right; right; exact H2].
            destruct (buf_add_in _ _ _ H2); [subst; apply in_or_app; right; left; reflexivity | apply in_or_app; left; assumption]. }
        destruct (IH _ _ _ (buf_add_ok r b zero_ns Lr O) RT' (fun r' Hr' => NZ r' (or_intror Hr')) S2) as [C O'].
        split; [|exact O']. rewrite ?records_app. change (records []) with (@nil rec). change (records [Rec r]) with [r]. change (@nil rec ++ records o2) with (records o2).
        rewrite C. rewrite (buf_add_cls x r b zero_ns O).
        -- rewrite cls_app, <- app_assoc. reflexivity.
        -- intros y Hy Ey Er. apply RT; [apply in_or_app; left; exact Hy | apply in_or_app; right; left; reflexivity|].
           rewrite (row_eqb_cong_r (vals y) (vals r) x Er). exact Ey.
    + destruct (buf_emit w b) as [oe be] eqn:E. inversion S1; subst; clear S1. simpl in RT, NZ.
      pose proof (buf_emit_split _ _ _ _ E) as SP.
      assert (RT' : row_timed (bufrecs b1 ++ records rest)).
      { intros r1 r2 H1 H2. apply RT; rewrite SP; apply in_app_or in H1; apply in_app_or in H2; apply in_or_app.
        - destruct H1; [left; apply in_or_app; right; assumption | right; assumption].
        - destruct H2; [left; apply in_or_app; right; assumption | right; assumption]. }
      destruct (IH _ _ _ (buf_emit_ok _ _ _ _ _ E O) RT' NZ S2) as [C O'].
      split; [|exact O']. rewrite !records_app, records_map_Rec. change (records [WM w]) with (@nil rec).
      rewrite app_nil_r. simpl app. rewrite SP, !cls_app, <- !app_assoc, C. reflexivity.
Qed.

(* with one event time per row the buffer keeps every row's records in their order ... *)
Theorem etb_keeps_row_order es x : row_timed (records es) ->
  (forall r, In r (records es) -> zero_ns <= et r <= max_wm) ->
  cls x (records (etb_run_finish es)) = cls x (records es).
Proof.
  intros RT B. unfold etb_run_finish. destruct (etb_run_from [] es) as [b o] eqn:R.
  destruct (etb_run_from_cls x es [] b o I RT (fun r Hr => proj1 (B r Hr)) R) as [C O].
  destruct (etb_run_from_bag es [] b o x (fun r Hr => proj2 (B r Hr)) (fun e (H : In e []) => match H with end) R) as [_ L].
  rewrite records_app, records_map_Rec, cls_app. destruct (buf_emit max_wm b) as [oe be] eqn:E. simpl.
  pose proof (buf_emit_split _ _ _ _ E) as SP. pose proof (buf_emit_all max_wm b L) as A. rewrite E in A. simpl in A. subst be.
  simpl in SP. rewrite app_nil_r in SP. subst oe. exact C.
Qed.

(* ... hence the delivered stream is a valid changelog whenever the input is *)
Theorem delivered_valid_of_row_timed es : pvalid (records es) -> row_timed (records es) ->
  (forall r, In r (records es) -> zero_ns <= et r <= max_wm) -> pvalid (records (etb_run_finish es)).
Proof.
  intros V RT B. apply (pvalid_same_cls (records es)); [|exact V].
  intro x. symmetry. apply etb_keeps_row_order; assumption.
Qed.
