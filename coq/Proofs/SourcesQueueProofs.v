(* Proofs/SourcesQueueProofs.v — C23 (2): for every order in which the parser workers finish their jobs and
   every position of the reader's `done`, the JSON consumer produces lines 0..n-1 once each, in file
   order, and leaves its loop exactly at the last message. *)
From Octo Require Import SourcesQueue.
From Coq Require Import Arith Permutation.
Local Open Scope nat_scope.

Section QP.
  Context {A : Type}.
  Variable rec_of : nat -> A.

  Definition mem (L : list nat) (j : nat) : bool := existsb (Nat.eqb j) L.
  Definition cellv (R : nat -> bool) (j : nat) : option A := if R j then Some (rec_of j) else None.
  Definition qview (R : nat -> bool) (s len : nat) : list (option A) := map (cellv R) (seq s len).

  Lemma qview_length : forall R s len, length (qview R s len) = len.
  Proof. intros. unfold qview. rewrite map_length, seq_length. auto. Qed.

  Lemma qview_extend : forall R s len k, (forall j, s + len <= j -> R j = false) ->
    qview R s len ++ repeat None k = qview R s (len + k).
  Proof.
    intros R s len k H. unfold qview. rewrite seq_app, map_app. f_equal.
    remember (s + len) as a. clear Heqa. revert a H.
    induction k; intros a H; simpl; auto.
    unfold cellv at 1. rewrite H by lia. f_equal. apply IHk. intros; apply H; lia.
  Qed.

  Lemma set_nth_qview : forall len R s idx, idx < len ->
    set_nth idx (Some (rec_of (s + idx))) (qview R s len)
    = Some (qview (fun j => (j =? s + idx) || R j) s len).
  Proof.
    induction len; intros R s idx H. lia.
    unfold qview. simpl seq. simpl map. destruct idx.
    - simpl. f_equal. f_equal.
      + unfold cellv. rewrite Nat.add_0_r, Nat.eqb_refl. auto.
      + apply map_ext_in. intros j Hj. apply in_seq in Hj. unfold cellv.
        replace (j =? s + 0) with false by (symmetry; apply Nat.eqb_neq; lia). auto.
    - simpl. fold (qview R (S s) len). replace (s + S idx) with (S s + idx) by lia.
      rewrite IHlen by lia. f_equal. f_equal.
      unfold cellv. replace (s =? S s + idx) with false by (symmetry; apply Nat.eqb_neq; lia). auto.
  Qed.

  Lemma flush_qview : forall len R s out, exists k, k <= len /\
    flush (qview R s len) s out = (qview R (s + k) (len - k), s + k, out ++ map rec_of (seq s k)) /\
    (forall j, s <= j < s + k -> R j = true) /\ (k < len -> R (s + k) = false).
  Proof.
    induction len; intros R s out.
    - exists 0. simpl. rewrite app_nil_r, Nat.add_0_r. repeat split; auto; intros; lia.
    - unfold qview. simpl seq. simpl map. unfold cellv at 1. destruct (R s) eqn:E.
      + simpl flush. fold (qview R (S s) len).
        destruct (IHlen R (S s) (out ++ [rec_of s])) as [k [Hk [Hf [Ha Hb]]]].
        exists (S k). rewrite Hf. split. lia. split.
        * replace (s + S k) with (S s + k) by lia. replace (S len - S k) with (len - k) by lia.
          simpl. rewrite <- app_assoc. reflexivity.
        * split. intros j Hj. destruct (Nat.eq_dec j s). subst; auto. apply Ha; lia.
          intros. replace (s + S k) with (S s + k) by lia. apply Hb. lia.
      + exists 0. simpl. rewrite Nat.add_0_r, app_nil_r. split. lia. split.
        * unfold qview. simpl. unfold cellv at 2. rewrite E. reflexivity.
        * split. intros; lia. auto.
  Qed.

  (* the consumer's invariant: R = the set of lines received so far *)
  Record inv (R : nat -> bool) (st : cstate) : Prop := mkinv {
    inv_q : queue st = qview R (start_index st) (length (queue st));
    inv_hi : forall j, R j = true -> j < start_index st + length (queue st);
    inv_lo : forall j, j < start_index st -> R j = true;
    inv_s : R (start_index st) = false;
    inv_p : produced st = map rec_of (seq 0 (start_index st))
  }.

  Lemma cons_line_inv : forall L (st : cstate) i, inv (mem L) st -> mem L i = false ->
    exists st', cons_line st (i, Some (rec_of i)) = (st', Running) /\ inv (mem (i :: L)) st' /\
                reader_done st' = reader_done st.
  Proof.
    intros L st i [Hq Hhi Hlo Hs Hp] Hi. unfold cons_line.
    set (s := start_index st) in *. set (len := length (queue st)) in *.
    assert (His : s <= i). { destruct (le_lt_dec s i); auto. rewrite Hlo in Hi; auto. discriminate. }
    replace (i <? s) with false by (symmetry; apply Nat.ltb_ge; auto).
    assert (Hfalse : forall j, s + len <= j -> mem L j = false).
    { intros j Hj. destruct (mem L j) eqn:E; auto. apply Hhi in E. lia. }
    rewrite Hq. rewrite qview_extend by auto.
    set (len1 := len + (S (i - s) - len)).
    assert (Hidx : i - s < len1) by (unfold len1; lia).
    replace (Some (rec_of i)) with (Some (rec_of (s + (i - s)))) by (f_equal; f_equal; lia).
    rewrite set_nth_qview by auto. replace (s + (i - s)) with i by lia.
    change (fun j => (j =? i) || mem L j) with (mem (i :: L)).
    destruct (flush_qview len1 (mem (i :: L)) s (produced st)) as [k [Hk [Hf [Ha Hb]]]].
    rewrite Hf. eexists. split. reflexivity. split; auto.
    constructor; simpl.
    - rewrite qview_length. reflexivity.
    - rewrite qview_length. intros j Hj. apply orb_true_iff in Hj as [Hj|Hj].
      apply Nat.eqb_eq in Hj. lia. apply Hhi in Hj. fold s len in Hj. lia.
    - intros j Hj. destruct (le_lt_dec s j). apply Ha; lia. rewrite (Hlo j) by auto. apply orb_true_r.
    - destruct (le_lt_dec len1 k).
      + assert (k = len1) by lia. subst k.
        destruct (mem (i :: L) (s + len1)) eqn:E; auto. simpl in E. apply orb_true_iff in E as [E|E].
        apply Nat.eqb_eq in E. lia. apply Hhi in E. fold s len in E. lia.
      + apply Hb; auto.
    - rewrite Hp. rewrite <- map_app, <- seq_app. reflexivity.
  Qed.

  Definition job_of (ls : list nat) : @job_out A := map (fun i => (i, Some (rec_of i))) ls.

  Lemma cons_job_inv : forall ls L (st : cstate), inv (mem L) st -> NoDup ls ->
    (forall i, In i ls -> mem L i = false) ->
    exists st', cons_job st (job_of ls) = (st', Running) /\ inv (mem (rev ls ++ L)) st' /\
                reader_done st' = reader_done st.
  Proof.
    induction ls as [|i ls IH]; intros L st Hinv Hnd Hnew.
    - simpl. eauto.
    - inversion Hnd as [|? ? Hni Hnd']; subst. destruct (cons_line_inv L st i Hinv (Hnew i (or_introl eq_refl))) as [st1 [H1 [H2 H3]]].
      simpl job_of. cbn [cons_job]. rewrite H1.
      destruct (IH (i :: L) st1 H2 Hnd') as [st2 [K1 [K2 K3]]].
      + intros j Hj. simpl. rewrite (Hnew j (or_intror Hj)).
        replace (j =? i) with false; auto. symmetry. apply Nat.eqb_neq. intros ->. contradiction.
      + exists st2. split; auto. split. simpl. rewrite <- app_assoc. exact K2. congruence.
  Qed.

  Lemma mem_app : forall a b j, mem (a ++ b) j = mem a j || mem b j.
  Proof. intros. unfold mem. apply existsb_app. Qed.
  Lemma mem_in : forall L j, mem L j = true <-> In j L.
  Proof.
    intros. unfold mem. rewrite existsb_exists. split.
    intros [x [H1 H2]]. apply Nat.eqb_eq in H2. subst; auto.
    intros H. exists j. split; auto. apply Nat.eqb_refl.
  Qed.
  Lemma mem_rev : forall a j, mem (rev a) j = mem a j.
  Proof.
    intros. destruct (mem a j) eqn:E.
    apply mem_in. apply in_rev. rewrite rev_involutive. apply mem_in; auto.
    destruct (mem (rev a) j) eqn:E2; auto. apply mem_in in E2. apply in_rev in E2. apply mem_in in E2. congruence.
  Qed.

  Lemma nodup_app_inv : forall (a b : list nat), NoDup (a ++ b) ->
    NoDup a /\ NoDup b /\ (forall x, In x a -> ~ In x b).
  Proof.
    induction a; simpl; intros b H. split. constructor. split; auto.
    inversion H; subst. destruct (IHa _ H3) as [Ha [Hb Hc]]. split.
    constructor; auto. intros Hin. apply H2. apply in_or_app; auto.
    split; auto. intros x [Hx|Hx]. subst. intros Hin. apply H2. apply in_or_app; auto. apply Hc; auto.
  Qed.

  (* ---- the select loop -------------------------------------------------------------------------------- *)
  Definition descr : Type := option (list nat).      (* None = done, Some ls = the result of a job with lines ls *)
  Definition to_msg (d : descr) : @msg A :=
    match d with None => Done false | Some ls => Result (job_of ls) end.
  Definition dlines (ds : list descr) : list nat :=
    concat (map (fun d => match d with Some ls => ls | None => [] end) ds).
  Fixpoint ndone (ds : list descr) : nat :=
    match ds with [] => 0 | None :: r => S (ndone r) | Some _ :: r => ndone r end.

  Lemma start_is_n : forall n L (st : cstate), inv (mem L) st ->
    (forall j, mem L j = true -> j < n) -> (forall i, i < n -> mem L i = true) -> start_index st = n.
  Proof.
    intros n L st [Hq Hhi Hlo Hs Hp] H1 H2.
    destruct (lt_eq_lt_dec (start_index st) n) as [[H|H]|H]; auto.
    - rewrite H2 in Hs; auto. discriminate.
    - apply Hlo in H. apply H1 in H. lia.
  Qed.

  Lemma start_lt_n : forall n L (st : cstate) i, inv (mem L) st -> i < n -> mem L i = false -> start_index st <> n.
  Proof.
    intros n L st i [Hq Hhi Hlo Hs Hp] H1 H2 E.
    destruct (le_lt_dec (start_index st) i). lia. apply Hlo in l. congruence.
  Qed.

  Lemma pending_line : forall ds, ds <> [] -> ndone ds = 0 -> (forall ls, In (Some ls) ds -> ls <> []) ->
    exists i, In i (dlines ds).
  Proof.
    intros ds H1 H2 H3. destruct ds as [|d ds]. congruence.
    destruct d as [ls|]; simpl in H2; try discriminate.
    destruct ls as [|i ls]. exfalso. apply (H3 []); simpl; auto.
    exists i. unfold dlines. simpl. auto.
  Qed.

  Lemma run_inv : forall n ds L (st : cstate),
    inv (mem L) st ->
    NoDup (dlines ds) ->
    (forall i, In i (dlines ds) -> mem L i = false /\ i < n) ->
    (forall j, mem L j = true -> j < n) ->
    (forall i, i < n -> mem L i = true \/ In i (dlines ds)) ->
    (forall ls, In (Some ls) ds -> ls <> []) ->
    ndone ds = (if reader_done st then 0 else 1) ->
    ds <> [] ->
    exists st', run_consumer n st (map to_msg ds) = (st', Exited, []) /\
                produced st' = map rec_of (seq 0 n).
  Proof.
    intros n. induction ds as [|d ds IH]; intros L st Hinv Hnd Hnew Hin Hall Hne Hdone Hnil. congruence.
    destruct d as [ls|].
    - (* a job result *)
      simpl map. cbn [run_consumer to_msg].
      unfold dlines in Hnd, Hnew, Hall. simpl in Hnd, Hnew, Hall. fold (dlines ds) in Hnd, Hnew, Hall.
      destruct (cons_job_inv ls L st Hinv) as [st1 [H1 [H2 H3]]].
      { apply nodup_app_inv in Hnd. tauto. }
      { intros i Hi. apply Hnew. apply in_or_app; auto. }
      rewrite H1.
      assert (Hin' : forall j, mem (rev ls ++ L) j = true -> j < n).
      { intros j Hj. rewrite mem_app, mem_rev in Hj. apply orb_true_iff in Hj as [Hj|Hj]; auto.
        apply mem_in in Hj. apply Hnew. apply in_or_app; auto. }
      assert (Hnew' : forall i, In i (dlines ds) -> mem (rev ls ++ L) i = false /\ i < n).
      { intros i Hi. destruct (Hnew i (in_or_app _ _ _ (or_intror Hi))) as [Ha Hb]. split; auto.
        rewrite mem_app, mem_rev, Ha, orb_false_r.
        destruct (mem ls i) eqn:E; auto. apply mem_in in E. exfalso.
        apply nodup_app_inv in Hnd. destruct Hnd as [_ [_ Hd]]. apply (Hd i); auto. }
      assert (Hall' : forall i, i < n -> mem (rev ls ++ L) i = true \/ In i (dlines ds)).
      { intros i Hi. rewrite mem_app, mem_rev. destruct (Hall i Hi) as [Ha|Ha]. rewrite Ha, orb_true_r; auto.
        apply in_app_or in Ha as [Ha|Ha]; auto. apply mem_in in Ha. rewrite Ha. auto. }
      simpl in Hdone. rewrite H3.
      destruct ds as [|d2 ds2] eqn:Eds.
      + (* the last message *)
        destruct (reader_done st) eqn:Erd; try discriminate.
        assert (Hs : start_index st1 = n).
        { eapply start_is_n; eauto. intros i Hi. destruct (Hall' i Hi); auto; try contradiction. }
        rewrite Hs, Nat.eqb_refl. simpl. exists st1. split; auto.
        destruct H2. rewrite inv_p0, Hs. reflexivity.
      + rewrite <- Eds in *.
        assert (Hcont : reader_done st && (start_index st1 =? n) = false).
        { destruct (reader_done st) eqn:Erd; auto. simpl.
          destruct (pending_line ds) as [i Hi]; auto. subst; discriminate.
          intros l Hl. apply Hne. simpl; auto.
          destruct (Hnew' i Hi) as [Ha Hb]. apply Nat.eqb_neq. eapply start_lt_n; eauto. }
        rewrite Hcont. apply (IH (rev ls ++ L) st1); auto.
        * apply nodup_app_inv in Hnd. tauto.
        * intros l Hl. apply Hne. simpl; auto.
        * rewrite H3. auto.
        * subst; discriminate.
    - (* done *)
      simpl map. cbn [run_consumer to_msg].
      unfold dlines in Hnd, Hnew, Hall. simpl in Hnd, Hnew, Hall. fold (dlines ds) in Hnd, Hnew, Hall.
      simpl in Hdone. destruct (reader_done st) eqn:Erd; try discriminate. assert (Hd0 : ndone ds = 0) by lia.
      set (st1 := mkc (queue st) (start_index st) true (produced st)).
      assert (Hinv1 : inv (mem L) st1). { destruct Hinv. constructor; auto. }
      destruct ds as [|d2 ds2] eqn:Eds.
      + assert (Hs : start_index st = n).
        { eapply start_is_n; eauto. intros i Hi. destruct (Hall i Hi); auto; try contradiction. }
        simpl. rewrite Hs, Nat.eqb_refl. eexists. split. reflexivity.
        simpl. destruct Hinv as [_ _ _ _ Hp]. rewrite Hp, Hs. reflexivity.
      + rewrite <- Eds in *.
        destruct (pending_line ds) as [i Hi]; auto. subst; discriminate.
        intros l Hl. apply Hne. simpl; auto.
        destruct (Hnew i Hi) as [Ha Hb].
        replace (start_index st1 =? n) with false
          by (symmetry; apply Nat.eqb_neq; eapply start_lt_n; eauto).
        apply (IH L st1); auto.
        * intros l Hl. apply Hne. simpl; auto.
        * subst; discriminate.
  Qed.

  (* ---- the jobs of a file ------------------------------------------------------------------------------ *)
  Lemma concat_job_lines : forall n b k,
    concat (map (job_lines n b) (seq 0 k)) = seq 0 (Nat.min n (k * b)).
  Proof.
    intros n b. induction k. simpl. rewrite Nat.min_0_r. reflexivity.
    rewrite seq_S, map_app, concat_app, IHk. simpl. rewrite app_nil_r. unfold job_lines.
    destruct (le_lt_dec (k * b) n).
    - rewrite (Nat.min_r n (k * b)) by lia. rewrite <- seq_app. f_equal. lia.
    - rewrite (Nat.min_l n (k * b)) by lia. replace (n - k * b) with 0 by lia. rewrite Nat.min_0_r. simpl.
      rewrite app_nil_r. f_equal. lia.
  Qed.

  Lemma njobs_cover : forall n b, 0 < b -> n <= njobs n b * b /\ (forall j, j < njobs n b -> j * b < n).
  Proof.
    intros n b Hb. unfold njobs.
    pose proof (Nat.div_mod (n + b - 1) b ltac:(lia)) as H.
    pose proof (Nat.mod_upper_bound (n + b - 1) b ltac:(lia)) as H2.
    set (J := (n + b - 1) / b) in *. split. nia.
    intros j Hj. assert (S j <= J) by lia. assert (S j * b <= J * b) by (apply Nat.mul_le_mono_r; auto). nia.
  Qed.

  Lemma concat_perm : forall {X Y} (f : X -> list Y) l l', Permutation l l' ->
    Permutation (concat (map f l)) (concat (map f l')).
  Proof.
    intros X Y f l l' H. induction H; simpl; auto.
    - apply Permutation_app_head; auto.
    - rewrite !app_assoc. apply Permutation_app_tail. apply Permutation_app_comm.
    - eapply Permutation_trans; eauto.
  Qed.

  Lemma insert_at_map : forall {X Y} (f : X -> Y) k x l, map f (insert_at k x l) = insert_at k (f x) (map f l).
  Proof. induction k; destruct l; simpl; auto. f_equal. apply IHk. Qed.

  Lemma dlines_insert_none : forall k ds, dlines (insert_at k None ds) = dlines ds.
  Proof. induction k; destruct ds; simpl; auto. unfold dlines in *. simpl. rewrite IHk. auto. Qed.

  Lemma ndone_insert_none : forall k ds, ndone (insert_at k None ds) = S (ndone ds).
  Proof. induction k; destruct ds as [|d ds]; simpl; auto. destruct d; simpl; auto. Qed.

  Lemma in_insert_at : forall {X} k (x y : X) l, In y (insert_at k x l) -> y = x \/ In y l.
  Proof.
    induction k; destruct l; simpl; intros H.
    - destruct H; auto.
    - destruct H as [H|[H|H]]; auto.
    - destruct H; auto.
    - destruct H; auto. apply IHk in H. destruct H; auto.
  Qed.

  Theorem json_consumer_correct : forall n batch sched dpos,
    0 < batch -> Permutation sched (seq 0 (njobs n batch)) ->
    exists st, run_consumer n cstate0 (messages rec_of n batch sched dpos) = (st, Exited, []) /\
               produced st = map rec_of (seq 0 n).
  Proof.
    intros n b sched dpos Hb Hperm.
    set (ds0 := map (fun j => Some (job_lines n b j)) sched).
    assert (Hmsgs : messages rec_of n b sched dpos = map to_msg (insert_at dpos None ds0)).
    { unfold messages. rewrite insert_at_map. simpl. f_equal. unfold ds0. rewrite map_map.
      apply map_ext. intros j. unfold job_result, to_msg, job_of. reflexivity. }
    rewrite Hmsgs.
    assert (Hdl : dlines ds0 = concat (map (job_lines n b) sched)).
    { unfold dlines, ds0. rewrite map_map. reflexivity. }
    assert (Hp : Permutation (dlines ds0) (seq 0 n)).
    { rewrite Hdl. eapply Permutation_trans. apply concat_perm. exact Hperm.
      rewrite concat_job_lines. destruct (njobs_cover n b Hb) as [H1 _]. rewrite Nat.min_l by lia. apply Permutation_refl. }
    apply (run_inv n _ [] cstate0).
    - constructor; simpl; auto. intros; discriminate. intros; lia.
    - rewrite dlines_insert_none. eapply Permutation_NoDup. apply Permutation_sym. exact Hp. apply seq_NoDup.
    - rewrite dlines_insert_none. intros i Hi. split. reflexivity.
      apply (Permutation_in _ Hp) in Hi. apply in_seq in Hi. lia.
    - intros; discriminate.
    - rewrite dlines_insert_none. intros i Hi. right. apply (Permutation_in _ (Permutation_sym Hp)). apply in_seq. lia.
    - intros ls Hls. apply in_insert_at in Hls as [Hls|Hls]. discriminate.
      unfold ds0 in Hls. apply in_map_iff in Hls as [j [Hj1 Hj2]]. inversion Hj1; subst.
      apply (Permutation_in _ Hperm) in Hj2. apply in_seq in Hj2.
      destruct (njobs_cover n b Hb) as [_ H2]. specialize (H2 j ltac:(lia)).
      unfold job_lines. destruct (Nat.min b (n - j * b)) eqn:E. lia. simpl. discriminate.
    - rewrite ndone_insert_none. simpl. f_equal. unfold ds0. clear. induction sched; simpl; auto.
    - destruct dpos, ds0; simpl; discriminate.
  Qed.
End QP.
