(* Proofs/PruneProofs.v — the three remove-unused rules: removing a field that nothing reads removes exactly that
   column below, and nothing at the root.  One induction over the plan for all three rules. *)
From Octo Require Import Plan Optimizer PlanLemmas OptimizerProofs GenOptimizer.

(* ---- lists ---- *)
Lemma flat_map_map' {A B C} (f : B -> list C) (g : A -> B) l : flat_map f (map g l) = flat_map (fun x => f (g x)) l.
Proof. induction l as [|x l IH]; simpl; [reflexivity|]. rewrite IH. reflexivity. Qed.
Lemma map_flat_map' {A B C} (g : B -> C) (f : A -> list B) l : map g (flat_map f l) = flat_map (fun x => map g (f x)) l.
Proof. induction l as [|x l IH]; simpl; [reflexivity|]. rewrite map_app, IH. reflexivity. Qed.
Lemma remove_nth_map {A B} (f : A -> B) i l : remove_nth i (map f l) = map f (remove_nth i l).
Proof. revert i; induction l as [|x l IH]; intros [|i]; simpl; auto. rewrite IH. reflexivity. Qed.
Lemma remove_nth_length_lt {A} i (l : list A) : (i < length l)%nat -> S (length (remove_nth i l)) = length l.
Proof. revert i; induction l as [|x l IH]; intros [|i] H; simpl in *; try lia. rewrite IH by lia. reflexivity. Qed.
Lemma remove_nth_app_l {A} i (a b : list A) : (i < length a)%nat -> remove_nth i (a ++ b) = remove_nth i a ++ b.
Proof. revert i; induction a as [|x a IH]; intros [|i] H; simpl in *; try lia; auto. rewrite IH by lia. reflexivity. Qed.
Lemma remove_nth_app_r {A} i (a b : list A) : remove_nth (length a + i) (a ++ b) = a ++ remove_nth i b.
Proof. induction a as [|x a IH]; simpl; [reflexivity|]. rewrite IH. reflexivity. Qed.
Lemma select_map {A B} (g : A -> B) idxs (l : list A) : select idxs (map g l) = map g (select idxs l).
Proof.
  unfold select. rewrite map_flat_map'. apply flat_map_ext. intros i. rewrite nth_error_map.
  destruct (nth_error l i); reflexivity.
Qed.

(* ---- last_index ---- *)
Lemma last_index_none n l : last_index n l = None <-> ~ In n l.
Proof.
  induction l as [|x l IH]; simpl; [tauto|].
  destruct (last_index n l) as [i|].
  - split; [discriminate|]. intros H. exfalso.
    destruct (in_dec string_dec n l) as [Hi|Hn]; [apply H; right; exact Hi|]. apply IH in Hn. discriminate.
  - destruct (name_eqb x n) eqn:E.
    + apply name_eqb_eq in E. subst. split; [discriminate|]. intros H. exfalso. apply H. left; reflexivity.
    + apply name_eqb_neq in E. split; [|reflexivity]. intros _ [H|H]; [contradiction|]. apply IH in H; auto.
Qed.
Lemma last_index_lt n l i : last_index n l = Some i -> (i < length l)%nat.
Proof.
  revert i; induction l as [|x l IH]; simpl; intros i H; [discriminate|].
  destruct (last_index n l) as [j|].
  - inversion H; subst. specialize (IH j eq_refl). lia.
  - destruct (name_eqb x n); inversion H; subst. lia.
Qed.
Lemma last_index_in n l i : last_index n l = Some i -> In n l.
Proof.
  intros H. destruct (in_dec string_dec n l) as [Hi|Hn]; [exact Hi|]. apply last_index_none in Hn. congruence.
Qed.
Lemma nodupb_NoDup l : nodupb l = true <-> NoDup l.
Proof.
  induction l as [|x l IH]; simpl.
  - split; [constructor|reflexivity].
  - rewrite andb_true_iff, negb_true_iff, mem_false, IH. split.
    + intros [H1 H2]. constructor; assumption.
    + intros H. inversion H; subst. split; assumption.
Qed.
Lemma remove_nth_In {A} i (l : list A) x : In x (remove_nth i l) -> In x l.
Proof. revert i; induction l as [|y l IH]; intros [|i]; simpl; auto. intros [H|H]; [left; exact H | right; eauto]. Qed.
Lemma remove_nth_NoDup {A} i (l : list A) : NoDup l -> NoDup (remove_nth i l).
Proof.
  revert i; induction l as [|y l IH]; intros [|i] H; simpl; auto; inversion H; subst; auto.
  constructor; [|apply IH; assumption]. intros Hin. apply H2. eapply remove_nth_In; eauto.
Qed.
Lemma last_index_removed n l i : NoDup l -> last_index n l = Some i -> ~ In n (remove_nth i l).
Proof.
  revert i; induction l as [|x l IH]; simpl; intros i Hnd H; [discriminate|]. inversion Hnd; subst.
  destruct (last_index n l) as [j|] eqn:E.
  - inversion H; subst. simpl. intros [Hx|Hin]; [subst; apply H2; eapply last_index_in; eauto | eapply IH; eauto].
  - destruct (name_eqb x n) eqn:Ex; inversion H; subst. simpl. apply last_index_none. exact E.
Qed.
Lemma last_index_app n a b :
  last_index n (a ++ b) = match last_index n b with
                          | Some j => Some (length a + j)%nat
                          | None => last_index n a
                          end.
Proof.
  induction a as [|x a IH]; simpl; [destruct (last_index n b); reflexivity|].
  rewrite IH. destruct (last_index n b); [reflexivity|]. reflexivity.
Qed.

(* ---- pruning a field from a schema, a row, an environment ---- *)
Definition prune_schema (f : name) (s : schema) : schema :=
  match last_index f (sf s) with Some i => schema_remove i s | None => s end.
Definition prune_fs (f : name) (fs : list name) : list name :=
  match last_index f fs with Some i => remove_nth i fs | None => fs end.
Definition prune_row (f : name) (fs : list name) (r : row) : row :=
  match last_index f fs with Some i => remove_nth i r | None => r end.
Lemma prune_schema_sf f s : sf (prune_schema f s) = prune_fs f (sf s).
Proof. unfold prune_schema, prune_fs. destruct (last_index f (sf s)); reflexivity. Qed.
Lemma prune_fs_notin f fs : ~ In f fs -> prune_fs f fs = fs.
Proof. intros H. unfold prune_fs. apply last_index_none in H. rewrite H. reflexivity. Qed.
Lemma prune_row_notin f fs r : ~ In f fs -> prune_row f fs r = r.
Proof. intros H. unfold prune_row. apply last_index_none in H. rewrite H. reflexivity. Qed.
Lemma prune_schema_notin f s : ~ In f (sf s) -> prune_schema f s = s.
Proof. intros H. unfold prune_schema. apply last_index_none in H. rewrite H. reflexivity. Qed.
Lemma prune_fs_NoDup f fs : NoDup fs -> NoDup (prune_fs f fs).
Proof. intros H. unfold prune_fs. destruct (last_index f fs); [apply remove_nth_NoDup|]; exact H. Qed.
Lemma prune_fs_gone f fs : NoDup fs -> ~ In f (prune_fs f fs).
Proof.
  intros H. unfold prune_fs. destruct (last_index f fs) eqn:E; [eapply last_index_removed; eauto | apply last_index_none; exact E].
Qed.
Lemma prune_fs_In f fs x : In x (prune_fs f fs) -> In x fs.
Proof. unfold prune_fs. destruct (last_index f fs); [apply remove_nth_In | auto]. Qed.
Lemma prune_row_length f fs (r : row) : length fs = length r -> length (prune_fs f fs) = length (prune_row f fs r).
Proof.
  intros H. unfold prune_fs, prune_row. destruct (last_index f fs) eqn:E; [|exact H].
  apply last_index_lt in E. pose proof (remove_nth_length_lt n fs E). pose proof (remove_nth_length_lt n r ltac:(lia)). lia.
Qed.
Lemma NoDup_app_disj {A} (a b : list A) x : NoDup (a ++ b) -> In x a -> In x b -> False.
Proof.
  induction a as [|y a IH]; simpl; intros Hnd Ha Hb; [contradiction|]. inversion Hnd; subst.
  destruct Ha as [->|Ha]; [apply H1; apply in_or_app; right; exact Hb | eapply IH; eassumption].
Qed.
(* concatenated records: the field is on one side only *)
Lemma prune_fs_app f a b : NoDup (a ++ b) -> prune_fs f (a ++ b) = prune_fs f a ++ prune_fs f b.
Proof.
  intros Hnd. unfold prune_fs. rewrite last_index_app.
  destruct (last_index f b) as [j|] eqn:Eb.
  - rewrite remove_nth_app_r.
    assert (Ha : last_index f a = None).
    { apply last_index_none. intros Hin. apply last_index_in in Eb. exact (NoDup_app_disj _ _ _ Hnd Hin Eb). }
    rewrite Ha. reflexivity.
  - destruct (last_index f a) as [i|] eqn:Ea; [|reflexivity].
    rewrite remove_nth_app_l by (eapply last_index_lt; eauto). reflexivity.
Qed.
Lemma prune_row_app f a b (ra rb : row) :
  NoDup (a ++ b) -> length a = length ra -> prune_row f (a ++ b) (ra ++ rb) = prune_row f a ra ++ prune_row f b rb.
Proof.
  intros Hnd Hl. unfold prune_row. rewrite last_index_app.
  destruct (last_index f b) as [j|] eqn:Eb.
  - rewrite Hl, remove_nth_app_r.
    assert (Ha : last_index f a = None).
    { apply last_index_none. intros Hin. apply last_index_in in Eb. exact (NoDup_app_disj _ _ _ Hnd Hin Eb). }
    rewrite Ha. reflexivity.
  - destruct (last_index f a) as [i|] eqn:Ea; [|reflexivity].
    rewrite remove_nth_app_l by (rewrite <- Hl; eapply last_index_lt; eauto). reflexivity.
Qed.

(* two environments that agree on every name except the pruned one *)
Definition agree (f : name) (env env' : venv) : Prop := forall n, n <> f -> lookup n env' = lookup n env.
Lemma agree_refl f env : agree f env env. Proof. intros n _. reflexivity. Qed.
Lemma agree_cons f fs (r : row) env env' :
  NoDup fs -> length fs = length r -> agree f env env' ->
  agree f ((fs, r) :: env) ((prune_fs f fs, prune_row f fs r) :: env').
Proof.
  intros Hnd Hl Ha n Hn. unfold prune_fs, prune_row. destruct (last_index f fs) as [i|] eqn:E.
  - transitivity (lookup n ((fs, r) :: env')).
    + apply lookup_pruned with (f := f); auto.
    + simpl. destruct (assoc n (combine fs r)); [reflexivity | apply Ha; exact Hn].
  - simpl. destruct (assoc n (combine fs r)); [reflexivity | apply Ha; exact Hn].
Qed.

(* ---- one removal step of a remove-unused rule ---- *)
Inductive kind := KMap | KDs | KGb.
Definition rm1_of (k : kind) : name -> plan -> plan :=
  match k with KMap => remove_map_field1 | KDs => remove_datasource_field1 | KGb => remove_groupby_field1 end.
(* what the rule does for one unused field: removeXField, then removeFieldFromPassers *)
Definition step (k : kind) (f : name) (p : plan) : plan := remove_field_from_passers f (tr_pure (rm1_of k f) p).
Definition local (k : kind) (f : name) (p : plan) : plan := remove_from_passers1 f (rm1_of k f p).
(* the same as ONE bottom-up pass *)
Fixpoint stepF (k : kind) (f : name) (p : plan) {struct p} : plan :=
  match p with
  | PDatasource _ _ _ _ _ _ | PTvf _ _ _ => local k f p
  | PDistinct s x => local k f (PDistinct s (stepF k f x))
  | PFilter s e x => local k f (PFilter s e (stepF k f x))
  | PGroupBy s ks ag aa ke tg x => local k f (PGroupBy s ks ag aa ke tg (stepF k f x))
  | PStreamJoin s lk rk l r => local k f (PStreamJoin s lk rk (stepF k f l) (stepF k f r))
  | PLookupJoin s l r => local k f (PLookupJoin s (stepF k f l) (stepF k f r))
  | PMap s es x => local k f (PMap s es (stepF k f x))
  | PUnnest s fd x => local k f (PUnnest s fd (stepF k f x))
  | POst s ks d li x => local k f (POst s ks d li (stepF k f x))
  | PTvfT s fn ta ar x => local k f (PTvfT s fn ta ar (stepF k f x))
  end.
Lemma step_stepF k f p : step k f p = stepF k f p.
Proof.
  unfold step, remove_field_from_passers.
  induction p; destruct k; unfold rm1_of in *; simpl; unfold local, rm1_of; simpl;
    repeat match goal with |- context [match last_index ?a ?b with _ => _ end] => destruct (last_index a b) end;
    simpl; rewrite ?IHp, ?IHp1, ?IHp2; reflexivity.
Qed.

Lemma with_schema_id p : with_schema (schema_of p) p = p.
Proof. destruct p; reflexivity. Qed.
Lemma rfp1_eq f p : remove_from_passers1 f p = with_schema (prune_schema f (schema_of p)) p.
Proof.
  unfold remove_from_passers1, prune_schema, fields_of. destruct (last_index f (sf (schema_of p))); [reflexivity|].
  symmetry; apply with_schema_id.
Qed.
Lemma prune_schema_idem f s : NoDup (sf s) -> prune_schema f (prune_schema f s) = prune_schema f s.
Proof.
  intros H. apply prune_schema_notin. rewrite prune_schema_sf. apply prune_fs_gone. exact H.
Qed.
Lemma schema_remove_prune f s i : last_index f (sf s) = Some i -> schema_remove i s = prune_schema f s.
Proof. intros H. unfold prune_schema. rewrite H. reflexivity. Qed.

(* hypotheses about the removed field, node by node: field names of a record are distinct; nothing reads f
   (isUsed's node test); f is not a field of a producer the rule does not rewrite; no TVF over a table below *)
Fixpoint okb (k : kind) (f : name) (p : plan) {struct p} : bool :=
  nodupb (fields_of p) && negb (node_uses fixed_cfg f p) &&
  match p with
  | PDatasource _ _ _ _ _ _ => true
  | PTvf s _ _ => negb (mem f (sf s))
  | PTvfT _ _ _ _ _ => false
  | PMap s _ x => (match k with KMap => true | _ => negb (mem f (sf s)) end) && okb k f x
  | PGroupBy s keys _ _ _ _ x =>
      (match k with KGb => negb (mem f (firstn (length keys) (sf s))) | _ => negb (mem f (sf s)) end) && okb k f x
  | PDistinct _ x | PFilter _ _ x | PUnnest _ _ x | POst _ _ _ _ x => okb k f x
  | PStreamJoin _ _ _ l r | PLookupJoin _ l r => okb k f l && okb k f r
  end.

Lemma node_uses_exprs c f p : node_uses c f p = false -> forall e, In e (node_exprs p) -> ~ In f (expr_vars e).
Proof.
  unfold node_uses. intros H e He Hin. apply orb_false_iff in H. destruct H as [H _].
  assert (existsb (fun e => mem f (expr_vars e)) (node_exprs p) = true); [|congruence].
  apply existsb_exists. exists e. split; [exact He | apply mem_In; exact Hin].
Qed.

Section PruneSound.
  Variable db : name -> name -> list (name * name) -> list (name -> value).
  Variable fn_sem : name -> list value -> value.
  Variable assert_sem : name -> value -> value.
  Variable cast_sem : Z -> value -> value.
  Variable other_sem : Z -> name -> list value -> value.
  Variable agg_sem : name -> list value -> value.
  Variable key_eqb : list value -> list value -> bool.
  Variable distinct_sel : list row -> list nat.
  Variable ost_sel : list (list value) -> list Z -> option value -> list nat.
  Variable tvf_sem : name -> list (name * value) -> list (name * name) -> option (schema * list row) -> list row.

  Notation eval := (eval fn_sem assert_sem cast_sem other_sem).
  Notation evals := (evals fn_sem assert_sem cast_sem other_sem).
  Notation keep := (keep fn_sem assert_sem cast_sem other_sem).
  Notation den := (den_plan db fn_sem assert_sem cast_sem other_sem agg_sem key_eqb distinct_sel ost_sel tvf_sem).

  Lemma eval_agree f e env env' : ~ In f (expr_vars e) -> agree f env env' -> eval e env' = eval e env.
  Proof. intros Hf Ha. apply eval_ext. intros n Hn. apply Ha. intros ->. exact (Hf Hn). Qed.
  Lemma eval_pruned f e fs (r : row) env env' :
    ~ In f (expr_vars e) -> NoDup fs -> length fs = length r -> agree f env env' ->
    eval e ((prune_fs f fs, prune_row f fs r) :: env') = eval e ((fs, r) :: env).
  Proof. intros Hf Hnd Hl Ha. apply (eval_agree f); [exact Hf | apply agree_cons; assumption]. Qed.
  Lemma evals_pruned f es fs (r : row) env env' :
    (forall e, In e es -> ~ In f (expr_vars e)) -> NoDup fs -> length fs = length r -> agree f env env' ->
    evals es ((prune_fs f fs, prune_row f fs r) :: env') = evals es ((fs, r) :: env).
  Proof. intros Hf Hnd Hl Ha. unfold Plan.evals. apply map_ext_in. intros e He. apply eval_pruned; auto. Qed.
  Lemma keep_pruned f e fs (r : row) env env' :
    ~ In f (expr_vars e) -> NoDup fs -> length fs = length r -> agree f env env' ->
    keep e (prune_fs f fs) env' (prune_row f fs r) = keep e fs env r.
  Proof. intros. unfold Plan.keep. f_equal. apply eval_pruned; auto. Qed.

  Definition claim (k : kind) (f : name) (p : plan) : Prop :=
    shapeb (stepF k f p) = true /\ schema_of (stepF k f p) = prune_schema f (schema_of p) /\
    forall env env', agree f env env' -> den (stepF k f p) env' = map (prune_row f (fields_of p)) (den p env).

  Lemma rows_len' p env r : shapeb p = true -> In r (den p env) -> length (fields_of p) = length r.
  Proof. intros Hs Hin. symmetry. eapply den_rows_len; eauto. Qed.

  Ltac split_and H :=
    repeat match type of H with (_ && _ = true) => apply andb_true_iff in H; let H' := fresh H in destruct H as [H H'] end.

  (* the first three conjuncts of okb *)
  Lemma okb_head k f p : okb k f p = true ->
    NoDup (fields_of p) /\ node_uses fixed_cfg f p = false.
  Proof.
    intros H. destruct p; simpl in H; split_and H;
      (split; [apply nodupb_NoDup; assumption | apply negb_true_iff; assumption]).
  Qed.

  Lemma claim_datasource k f s n al mp pol preds :
    shapeb (PDatasource s n al mp pol preds) = true -> okb k f (PDatasource s n al mp pol preds) = true ->
    claim k f (PDatasource s n al mp pol preds).
  Proof.
    intros Hs Hok. destruct (okb_head _ _ _ Hok) as [Hnd Hu]. unfold fields_of in Hnd. simpl in Hnd.
    assert (Hst : stepF k f (PDatasource s n al mp pol preds) = PDatasource (prune_schema f s) n al mp pol preds).
    { simpl. unfold local. rewrite rfp1_eq.
      destruct k; simpl; try reflexivity.
      destruct (last_index f (sf s)) eqn:E; simpl; [|unfold prune_schema; rewrite E; reflexivity].
      rewrite (schema_remove_prune _ _ _ E), prune_schema_idem by exact Hnd. reflexivity. }
    unfold claim. rewrite Hst. repeat split; [exact Hs|].
    intros env env' Ha. unfold fields_of. simpl schema_of.
    pose proof (node_uses_exprs _ _ _ Hu) as Hp. simpl in Hp.
    unfold prune_schema, prune_row. destruct (last_index f (sf s)) as [i|] eqn:E.
    - simpl.
      assert (Hrow : forall rec : name -> value, map rec (remove_nth i (sf s)) = remove_nth i (map rec (sf s))).
      { intros rec. symmetry. apply remove_nth_map. }
      rewrite !filter_map_comm, map_map. rewrite (map_ext _ _ Hrow). f_equal. apply filter_ext. intros rec.
      apply forallb_ext_in. intros e He. rewrite Hrow.
      pose proof (keep_pruned f e (sf s) (map rec (sf s)) env env' (Hp e He) Hnd ltac:(rewrite map_length; reflexivity) Ha) as K.
      unfold prune_fs, prune_row in K. rewrite E in K. exact K.
    - simpl. rewrite map_id. apply filter_ext. intros r. apply forallb_ext_in. intros e He.
      unfold Plan.keep. f_equal. apply (eval_agree f); [exact (Hp e He)|].
      intros v Hv. simpl. destruct (assoc v (combine (sf s) r)); [reflexivity | apply Ha; exact Hv].
  Qed.

  Lemma local_id k f N : rm1_of k f N = N -> local k f N = with_schema (prune_schema f (schema_of N)) N.
  Proof. intros H. unfold local. rewrite H. apply rfp1_eq. Qed.

  Lemma claim_fields k f x : claim k f x -> fields_of (stepF k f x) = prune_fs f (fields_of x).
  Proof. intros [_ [H _]]. unfold fields_of. rewrite H. apply prune_schema_sf. Qed.

  Lemma claim_filter k f s e x :
    shapeb (PFilter s e x) = true -> okb k f (PFilter s e x) = true -> claim k f x -> claim k f (PFilter s e x).
  Proof.
    intros Hs Hok Hx. destruct (okb_head _ _ _ Hok) as [Hnd Hu]. pose proof (claim_fields _ _ _ Hx) as Hfx.
    destruct Hx as [X1 [X2 X3]].
    simpl in Hs. split_and Hs. apply schema_eqb_eq in Hs. subst s. unfold fields_of in Hnd. simpl in Hnd.
    pose proof (node_uses_exprs _ _ _ Hu) as Hp. simpl in Hp.
    unfold claim. simpl stepF. rewrite local_id by (destruct k; reflexivity). simpl.
    repeat split.
    - rewrite X2, schema_eqb_refl, X1. reflexivity.
    - intros env env' Ha. rewrite Hfx, (X3 env env' Ha). unfold fields_of at 2. simpl.
      rewrite filter_map_comm. f_equal. apply filter_ext_in. intros r Hr.
      apply keep_pruned; auto. eapply rows_len'; eauto.
  Qed.

  Lemma map_prune_id f fs (l : list row) : ~ In f fs -> map (prune_row f fs) l = l.
  Proof. intros H. rewrite <- (map_id l) at 2. apply map_ext. intros r. apply prune_row_notin. exact H. Qed.

  Lemma claim_distinct k f s x :
    shapeb (PDistinct s x) = true -> okb k f (PDistinct s x) = true -> claim k f x -> claim k f (PDistinct s x).
  Proof.
    intros Hs Hok Hx. destruct (okb_head _ _ _ Hok) as [Hnd Hu]. destruct Hx as [X1 [X2 X3]].
    simpl in Hs. split_and Hs. apply schema_eqb_eq in Hs. subst s.
    unfold node_uses in Hu. apply orb_false_iff in Hu. destruct Hu as [_ Hu]. apply mem_false in Hu.
    unfold claim. simpl stepF. rewrite local_id by (destruct k; reflexivity). simpl.
    rewrite (prune_schema_notin f (schema_of x) Hu) in *.
    repeat split.
    - rewrite X2, schema_eqb_refl, X1. reflexivity.
    - intros env env' Ha. rewrite (X3 env env' Ha). unfold fields_of. simpl.
      rewrite !map_prune_id by exact Hu. reflexivity.
  Qed.

  Lemma claim_ost k f s ks d li x :
    shapeb (POst s ks d li x) = true -> okb k f (POst s ks d li x) = true -> claim k f x -> claim k f (POst s ks d li x).
  Proof.
    intros Hs Hok Hx. destruct (okb_head _ _ _ Hok) as [Hnd Hu]. pose proof (claim_fields _ _ _ Hx) as Hfx.
    destruct Hx as [X1 [X2 X3]].
    simpl in Hs. split_and Hs. apply schema_eqb_eq in Hs. subst s. unfold fields_of in Hnd. simpl in Hnd.
    pose proof (node_uses_exprs _ _ _ Hu) as Hp. simpl in Hp.
    unfold claim. simpl stepF. rewrite local_id by (destruct k; reflexivity). simpl.
    repeat split.
    - rewrite X2, schema_eqb_refl, X1. reflexivity.
    - intros env env' Ha. rewrite Hfx, (X3 env env' Ha).
      change (fields_of (POst (schema_of x) ks d li x)) with (fields_of x).
      rewrite select_map.
      assert (E1 : map (fun r => evals ks ((prune_fs f (fields_of x), r) :: env')) (map (prune_row f (fields_of x)) (den x env)) =
                   map (fun r => evals ks ((fields_of x, r) :: env)) (den x env)).
      { rewrite map_map. apply map_ext_in. intros r Hr. apply evals_pruned; auto.
        - intros e He. apply Hp. apply in_or_app. left; exact He.
        - eapply rows_len'; eauto. }
      assert (E2 : option_map (fun e => eval e env') li = option_map (fun e => eval e env) li).
      { destruct li as [e|]; simpl; [|reflexivity]. f_equal. apply (eval_agree f); [|exact Ha].
        apply Hp. apply in_or_app. right. left; reflexivity. }
      rewrite E1, E2. reflexivity.
  Qed.

  Lemma claim_tvf k f s fn args :
    okb k f (PTvf s fn args) = true -> claim k f (PTvf s fn args).
  Proof.
    intros Hok. destruct (okb_head _ _ _ Hok) as [Hnd Hu]. simpl in Hok. split_and Hok.
    apply negb_true_iff, mem_false in Hok0.
    pose proof (node_uses_exprs _ _ _ Hu) as Hp. simpl in Hp.
    unfold claim. simpl stepF. rewrite local_id by (destruct k; reflexivity). simpl.
    rewrite (prune_schema_notin f s Hok0). repeat split.
    intros env env' Ha. unfold fields_of. simpl. rewrite map_prune_id by exact Hok0.
    f_equal. f_equal. unfold tvf_arg_vals. apply flat_map_ext_in. intros a Ha'.
    destruct a as [an [e|d]]; simpl; [|reflexivity]. f_equal. f_equal. apply (eval_agree f); [|exact Ha].
    apply Hp. apply in_flat_map. exists (an, TAExpr e). split; [exact Ha' | left; reflexivity].
  Qed.

  Definition prune_exprs (f : name) (fs : list name) (es : list expr) : list expr :=
    match last_index f fs with Some i => remove_nth i es | None => es end.

  Lemma claim_map k f s es x :
    shapeb (PMap s es x) = true -> okb k f (PMap s es x) = true -> claim k f x -> claim k f (PMap s es x).
  Proof.
    intros Hs Hok Hx. destruct (okb_head _ _ _ Hok) as [Hnd Hu]. pose proof (claim_fields _ _ _ Hx) as Hfx.
    destruct Hx as [X1 [X2 X3]].
    simpl in Hs. split_and Hs. apply Nat.eqb_eq in Hs. unfold fields_of in Hnd. simpl in Hnd.
    pose proof (node_uses_exprs _ _ _ Hu) as Hp. simpl in Hp.
    assert (Hokx : okb k f x = true) by (clear - Hok; simpl in Hok; rewrite !andb_true_iff in Hok; tauto).
    assert (Hkm : (match k with KMap => true | _ => negb (mem f (sf s)) end) = true) by (clear - Hok; simpl in Hok; rewrite !andb_true_iff in Hok; tauto).
    assert (Hst : stepF k f (PMap s es x) = PMap (prune_schema f s) (prune_exprs f (sf s) es) (stepF k f x)).
    { simpl stepF. unfold prune_exprs. destruct (last_index f (sf s)) as [i|] eqn:E.
      - destruct k; try (apply negb_true_iff, mem_false in Hkm; apply last_index_in in E; contradiction).
        unfold local. simpl. rewrite E. rewrite rfp1_eq. simpl.
        rewrite (schema_remove_prune _ _ _ E), prune_schema_idem by exact Hnd. reflexivity.
      - rewrite local_id; [reflexivity|]. destruct k; simpl; try reflexivity. rewrite E. reflexivity. }
    unfold claim. rewrite Hst. clear Hst. repeat split.
    - simpl. rewrite X1, andb_true_r. apply Nat.eqb_eq. rewrite prune_schema_sf. unfold prune_fs, prune_exprs.
      destruct (last_index f (sf s)) as [i|] eqn:E; [|exact Hs].
      apply last_index_lt in E. pose proof (remove_nth_length_lt i (sf s) E). pose proof (remove_nth_length_lt i es ltac:(lia)). lia.
    - intros env env' Ha. simpl. rewrite Hfx, (X3 env env' Ha), !map_map. apply map_ext_in. intros r Hr.
      change (fields_of (PMap s es x)) with (sf s).
      rewrite (evals_pruned f (prune_exprs f (sf s) es) (fields_of x) r env env').
      + unfold prune_exprs, prune_row, Plan.evals. destruct (last_index f (sf s)); [rewrite remove_nth_map|]; reflexivity.
      + intros e He. apply Hp. unfold prune_exprs in He. destruct (last_index f (sf s)); [eapply remove_nth_In; eauto | exact He].
      + destruct (okb_head _ _ _ Hokx) as [Hndx _]. exact Hndx.
      + eapply rows_len'; eauto.
      + exact Ha.
  Qed.

  Lemma claim_groupby_keep k f s ks ag aa ke tg x :
    ~ In f (sf s) ->
    shapeb (PGroupBy s ks ag aa ke tg x) = true -> okb k f (PGroupBy s ks ag aa ke tg x) = true -> claim k f x ->
    claim k f (PGroupBy s ks ag aa ke tg x).
  Proof.
    intros Hnf Hs Hok Hx. destruct (okb_head _ _ _ Hok) as [Hnd Hu]. pose proof (claim_fields _ _ _ Hx) as Hfx.
    destruct Hx as [X1 [X2 X3]].
    simpl in Hs. split_and Hs.
    pose proof (node_uses_exprs _ _ _ Hu) as Hp. simpl in Hp.
    assert (Hokx : okb k f x = true) by (clear - Hok; simpl in Hok; rewrite !andb_true_iff in Hok; tauto).
    destruct (okb_head _ _ _ Hokx) as [Hndx _].
    assert (Hst : stepF k f (PGroupBy s ks ag aa ke tg x) = PGroupBy s ks ag aa ke tg (stepF k f x)).
    { simpl stepF. apply last_index_none in Hnf as E. rewrite local_id.
      - simpl. rewrite (prune_schema_notin _ _ Hnf). reflexivity.
      - destruct k; simpl; try reflexivity. rewrite E. reflexivity. }
    unfold claim. rewrite Hst. clear Hst. repeat split.
    - simpl. rewrite Hs, Hs1, X1. reflexivity.
    - simpl. symmetry. apply prune_schema_notin. exact Hnf.
    - intros env env' Ha. change (fields_of (PGroupBy s ks ag aa ke tg x)) with (sf s).
      rewrite map_prune_id by exact Hnf. simpl. rewrite Hfx, (X3 env env' Ha), map_map. f_equal. f_equal.
      apply map_ext_in. intros r Hr.
      rewrite !(evals_pruned f _ (fields_of x) r env env'); auto.
      + intros e He. apply Hp. apply in_or_app. left; exact He.
      + eapply rows_len'; eauto.
      + intros e He. apply Hp. apply in_or_app. right; exact He.
      + eapply rows_len'; eauto.
  Qed.

  Lemma claim_stream_join k f s lk rk l r :
    shapeb (PStreamJoin s lk rk l r) = true -> okb k f (PStreamJoin s lk rk l r) = true ->
    claim k f l -> claim k f r -> claim k f (PStreamJoin s lk rk l r).
  Proof.
    intros Hs Hok Hl Hr. destruct (okb_head _ _ _ Hok) as [Hnd Hu].
    pose proof (claim_fields _ _ _ Hl) as Hfl. pose proof (claim_fields _ _ _ Hr) as Hfr.
    destruct Hl as [L1 [L2 L3]]. destruct Hr as [R1 [R2 R3]].
    assert (Sl : shapeb l = true) by (clear - Hs; simpl in Hs; rewrite !andb_true_iff in Hs; tauto). assert (Sr : shapeb r = true) by (clear - Hs; simpl in Hs; rewrite !andb_true_iff in Hs; tauto).
    assert (Hs3 : Nat.eqb (length lk) (length rk) = true) by (clear - Hs; simpl in Hs; rewrite !andb_true_iff in Hs; tauto).
    assert (Sf : list_eqb name_eqb (sf s) (fields_of l ++ fields_of r) = true) by (clear - Hs; simpl in Hs; rewrite !andb_true_iff in Hs; tauto).
    clear Hs. rename Sf into Hs. rename Sl into Hs2. rename Sr into Hs1.
    apply list_eqb_name_eq in Hs. unfold fields_of in Hnd. simpl in Hnd. rewrite Hs in Hnd.
    pose proof (node_uses_exprs _ _ _ Hu) as Hp. simpl in Hp.
    assert (Hokl : okb k f l = true) by (clear - Hok; simpl in Hok; rewrite !andb_true_iff in Hok; tauto).
    assert (Hokr : okb k f r = true) by (clear - Hok; simpl in Hok; rewrite !andb_true_iff in Hok; tauto).
    destruct (okb_head _ _ _ Hokl) as [Hndl _]. destruct (okb_head _ _ _ Hokr) as [Hndr _].
    unfold claim. simpl stepF. rewrite local_id by (destruct k; reflexivity). simpl.
    repeat split.
    - rewrite prune_schema_sf, Hs, prune_fs_app by exact Hnd. rewrite Hfl, Hfr, list_eqb_name_refl, Hs3, L1, R1. reflexivity.
    - intros env env' Ha. rewrite Hfl, Hfr, (L3 env env' Ha), (R3 env env' Ha).
      change (fields_of (PStreamJoin s lk rk l r)) with (sf s). rewrite Hs.
      rewrite flat_map_map', map_flat_map'. apply flat_map_ext_in. intros lr Hlr.
      rewrite flat_map_map', map_flat_map'. apply flat_map_ext_in. intros rr Hrr.
      pose proof (rows_len' l env lr Hs2 Hlr) as Ll. pose proof (rows_len' r env rr Hs1 Hrr) as Lr.
      rewrite (evals_pruned f lk (fields_of l) lr env env'); auto;
        [|intros e He; apply Hp; apply in_or_app; left; exact He].
      rewrite (evals_pruned f rk (fields_of r) rr env env'); auto;
        [|intros e He; apply Hp; apply in_or_app; right; exact He].
      destruct (forallb2' key_match1 _ _); simpl; [|reflexivity].
      rewrite prune_row_app by assumption. reflexivity.
  Qed.

  Lemma disjointb_prune f a b : disjointb a b = true -> disjointb (prune_fs f a) (prune_fs f b) = true.
  Proof.
    unfold disjointb. rewrite !forallb_forall. intros H x Hx. apply prune_fs_In in Hx. specialize (H x Hx).
    apply negb_true_iff in H. apply negb_true_iff. apply mem_false in H. apply mem_false.
    intros Hin. apply H. eapply prune_fs_In; eauto.
  Qed.

  Lemma claim_lookup_join k f s l r :
    shapeb (PLookupJoin s l r) = true -> okb k f (PLookupJoin s l r) = true ->
    claim k f l -> claim k f r -> claim k f (PLookupJoin s l r).
  Proof.
    intros Hs Hok Hl Hr. destruct (okb_head _ _ _ Hok) as [Hnd Hu].
    pose proof (claim_fields _ _ _ Hl) as Hfl. pose proof (claim_fields _ _ _ Hr) as Hfr.
    destruct Hl as [L1 [L2 L3]]. destruct Hr as [R1 [R2 R3]].
    assert (Sl : shapeb l = true) by (clear - Hs; simpl in Hs; rewrite !andb_true_iff in Hs; tauto). assert (Sr : shapeb r = true) by (clear - Hs; simpl in Hs; rewrite !andb_true_iff in Hs; tauto).
    assert (Hs3 : disjointb (fields_of l) (fields_of r) = true) by (clear - Hs; simpl in Hs; rewrite !andb_true_iff in Hs; tauto).
    assert (Sf : list_eqb name_eqb (sf s) (fields_of l ++ fields_of r) = true) by (clear - Hs; simpl in Hs; rewrite !andb_true_iff in Hs; tauto).
    clear Hs. rename Sf into Hs. rename Sl into Hs2. rename Sr into Hs1.
    apply list_eqb_name_eq in Hs. unfold fields_of in Hnd. simpl in Hnd. rewrite Hs in Hnd.
    assert (Hokl : okb k f l = true) by (clear - Hok; simpl in Hok; rewrite !andb_true_iff in Hok; tauto).
    assert (Hokr : okb k f r = true) by (clear - Hok; simpl in Hok; rewrite !andb_true_iff in Hok; tauto).
    destruct (okb_head _ _ _ Hokl) as [Hndl _]. destruct (okb_head _ _ _ Hokr) as [Hndr _].
    unfold claim. simpl stepF. rewrite local_id by (destruct k; reflexivity). simpl.
    repeat split.
    - rewrite prune_schema_sf, Hs, prune_fs_app by exact Hnd.
      rewrite Hfl, Hfr, list_eqb_name_refl, (disjointb_prune f _ _ Hs3), L1, R1. reflexivity.
    - intros env env' Ha. rewrite Hfl, (L3 env env' Ha).
      change (fields_of (PLookupJoin s l r)) with (sf s). rewrite Hs.
      rewrite flat_map_map', map_flat_map'. apply flat_map_ext_in. intros sr Hsr.
      pose proof (rows_len' l env sr Hs2 Hsr) as Ll. cbv beta.
      match goal with |- context [den (stepF k f r) ?E] =>
        rewrite (R3 ((fields_of l, sr) :: env) E) by (apply agree_cons; assumption) end.
      rewrite !map_map. apply map_ext_in. intros jr Hjr.
      rewrite prune_row_app by assumption. reflexivity.
  Qed.

  (* unnest: removing another column shifts the index of the unnested one *)
  Definition unnest_at (fd : name) (fs : list name) (r : row) : list row :=
    match index_of fd fs with Some i => unnest_row i r | None => [] end.
  Lemma unnest_row_S i v (r : row) : unnest_row (S i) (v :: r) = map (cons v) (unnest_row i r).
  Proof.
    unfold unnest_row. simpl. destruct (nth_error r i) as [[]|]; try reflexivity. rewrite map_map. reflexivity.
  Qed.
  Lemma unnest_at_cons_ne fd x fs v (r : row) : name_eqb fd x = false ->
    unnest_at fd (x :: fs) (v :: r) = map (cons v) (unnest_at fd fs r).
  Proof.
    intros H. unfold unnest_at. simpl. rewrite H. destruct (index_of fd fs); simpl; [apply unnest_row_S | reflexivity].
  Qed.
  Lemma unnest_remove fd f : fd <> f -> forall fs (r : row) j,
    nth_error fs j = Some f -> length fs = length r ->
    unnest_at fd (remove_nth j fs) (remove_nth j r) = map (remove_nth j) (unnest_at fd fs r).
  Proof.
    intros Hne. induction fs as [|x fs IH]; intros [|v r] j Hj Hl; simpl in *; try discriminate.
    - destruct j; discriminate.
    - destruct j as [|j]; simpl in *.
      + inversion Hj; subst x. rewrite unnest_at_cons_ne by (apply name_eqb_neq; exact Hne).
        rewrite map_map. simpl. rewrite map_id. reflexivity.
      + destruct (name_eqb fd x) eqn:E.
        * unfold unnest_at. simpl. rewrite E. unfold unnest_row. simpl.
          destruct v; try reflexivity. rewrite map_map. reflexivity.
        * rewrite !unnest_at_cons_ne by exact E. rewrite IH by (auto; lia). rewrite !map_map. reflexivity.
  Qed.
  Lemma last_index_nth f fs i : last_index f fs = Some i -> nth_error fs i = Some f.
  Proof.
    revert i; induction fs as [|x fs IH]; simpl; intros i H; [discriminate|].
    destruct (last_index f fs) as [j|].
    - inversion H; subst. simpl. apply IH. reflexivity.
    - destruct (name_eqb x f) eqn:E; inversion H; subst. apply name_eqb_eq in E. subst. reflexivity.
  Qed.
  Lemma unnest_pruned fd f fs (r : row) : fd <> f -> length fs = length r ->
    unnest_at fd (prune_fs f fs) (prune_row f fs r) = map (prune_row f fs) (unnest_at fd fs r).
  Proof.
    intros Hne Hl. unfold prune_fs, prune_row. destruct (last_index f fs) as [j|] eqn:E.
    - apply (unnest_remove fd f Hne); auto. apply last_index_nth. exact E.
    - rewrite map_id. reflexivity.
  Qed.

  Lemma unnest_den_eq fd fs (rows : list row) :
    match index_of fd fs with Some i => flat_map (unnest_row i) rows | None => [] end = flat_map (unnest_at fd fs) rows.
  Proof.
    unfold unnest_at. destruct (index_of fd fs); [reflexivity|]. induction rows; simpl; auto.
  Qed.

  Lemma claim_unnest k f s fd x :
    shapeb (PUnnest s fd x) = true -> okb k f (PUnnest s fd x) = true -> claim k f x -> claim k f (PUnnest s fd x).
  Proof.
    intros Hs Hok Hx. destruct (okb_head _ _ _ Hok) as [Hnd Hu]. pose proof (claim_fields _ _ _ Hx) as Hfx.
    destruct Hx as [X1 [X2 X3]].
    assert (Sx : shapeb x = true) by (clear - Hs; simpl in Hs; rewrite !andb_true_iff in Hs; tauto).
    assert (Sm : mem fd (sf s) = true) by (clear - Hs; simpl in Hs; rewrite !andb_true_iff in Hs; tauto).
    assert (Sf : list_eqb name_eqb (sf s) (fields_of x) = true) by (clear - Hs; simpl in Hs; rewrite !andb_true_iff in Hs; tauto).
    apply list_eqb_name_eq in Sf. unfold fields_of in Hnd. simpl in Hnd.
    assert (Hne : fd <> f).
    { unfold node_uses in Hu. simpl in Hu. apply name_eqb_neq. exact Hu. }
    unfold claim. simpl stepF. rewrite local_id by (destruct k; reflexivity). simpl.
    repeat split.
    - rewrite prune_schema_sf, Hfx, Sf, list_eqb_name_refl, X1, andb_true_r. simpl.
      apply mem_In. apply mem_In in Sm. rewrite Sf in Sm.
      unfold prune_fs. destruct (last_index f (fields_of x)) as [j|] eqn:E; [|exact Sm].
      clear - Sm E Hne. revert j E. induction (fields_of x) as [|y l IH]; simpl in *; intros j E; [contradiction|].
      destruct (last_index f l) as [j'|] eqn:E'.
      + inversion E; subst. simpl. destruct Sm as [->|Sm]; [left; reflexivity | right; eapply IH; eauto].
      + destruct (name_eqb y f) eqn:Ey; inversion E; subst. apply name_eqb_eq in Ey. subst.
        destruct Sm as [Sm|Sm]; [congruence | exact Sm].
    - intros env env' Ha. rewrite (X3 env env' Ha). change (fields_of (PUnnest s fd x)) with (sf s).
      rewrite prune_schema_sf, Sf, !unnest_den_eq.
      rewrite flat_map_map', map_flat_map'. apply flat_map_ext_in. intros r Hr.
      apply unnest_pruned; [exact Hne | eapply rows_len'; eauto].
  Qed.

  Ltac child_shape Hs := clear - Hs; simpl in Hs; rewrite ?andb_true_iff in Hs; tauto.

  (* one removal step of RemoveUnusedMapFields / RemoveUnusedDatasourceFields *)
  Lemma stepF_claim k f : k <> KGb -> forall p, shapeb p = true -> okb k f p = true -> claim k f p.
  Proof.
    intros Hk. induction p; intros Hs Hok.
    - apply claim_datasource; assumption.
    - apply claim_distinct; auto. apply IHp; [child_shape Hs | child_shape Hok].
    - apply claim_filter; auto. apply IHp; [child_shape Hs | child_shape Hok].
    - apply claim_groupby_keep; auto.
      + assert (H : negb (mem f (sf s)) = true) by (destruct k; [| |congruence]; child_shape Hok).
        apply negb_true_iff, mem_false in H. exact H.
      + apply IHp; [child_shape Hs | child_shape Hok].
    - apply claim_stream_join; auto; [apply IHp1 | apply IHp2]; try child_shape Hs; child_shape Hok.
    - apply claim_lookup_join; auto; [apply IHp1 | apply IHp2]; try child_shape Hs; child_shape Hok.
    - apply claim_map; auto. apply IHp; [child_shape Hs | child_shape Hok].
    - apply claim_unnest; auto. apply IHp; [child_shape Hs | child_shape Hok].
    - apply claim_ost; auto. apply IHp; [child_shape Hs | child_shape Hok].
    - apply claim_tvf; assumption.
    - exfalso. simpl in Hok. rewrite !andb_false_r in Hok. discriminate.
  Qed.

  (* at the root the removed field is not in the schema (isUsed counts the output fields): nothing changes *)
  Theorem remove_step_sound k f p : k <> KGb -> shapeb p = true -> okb k f p = true -> ~ In f (fields_of p) ->
    shapeb (step k f p) = true /\ schema_of (step k f p) = schema_of p /\
    forall env, den (step k f p) env = den p env.
  Proof.
    intros Hk Hs Hok Hroot. rewrite step_stepF. destruct (stepF_claim k f Hk p Hs Hok) as [C1 [C2 C3]].
    repeat split; [exact C1 | rewrite C2; apply prune_schema_notin; exact Hroot |].
    intros env. rewrite (C3 env env (agree_refl f env)). apply map_prune_id. exact Hroot.
  Qed.
End PruneSound.

