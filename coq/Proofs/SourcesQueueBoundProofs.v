(* Proofs/SourcesQueueBoundProofs.v — C23 (2): how large the JSON consumer's reorder queue can get under the
   token protocol.  A job is submitted only while fewer than cap results are outstanding, so the job received
   as the p-th result (0-based) has index < p + cap (in_range_window).  That bounds the span of the queue by
   the number of results received so far plus cap — and by nothing smaller: one slow job lets it grow with the
   file (witness below), the window bounds the results in flight, not the reorder queue. *)
From Octo Require Import SourcesQueue.
From Coq Require Import Arith.
Local Open Scope nat_scope.

Section QB.
  Context {A : Type}.
  Variable rec_of : nat -> A.

  (* the line just behind the last slot of the queue *)
  Definition qend (st : @cstate A) : nat := start_index st + length (queue st).

  Lemma flush_qend : forall (q : list (option A)) s out q' s' out',
    flush q s out = (q', s', out') -> s' + length q' = s + length q.
  Proof.
    induction q as [|x q IH]; simpl; intros s out q' s' out' H. inversion H; subst; auto.
    destruct x. apply IH in H. simpl. lia. inversion H; subst; auto.
  Qed.

  Lemma set_nth_length : forall {X} i (x : X) l l', set_nth i x l = Some l' -> length l' = length l.
  Proof.
    intros X i x l. revert i. induction l as [|h t IH]; intros i l' H; simpl in H. destruct i; discriminate.
    destruct i; simpl in H. inversion H; subst; auto.
    destruct (set_nth i x t) as [t'|] eqn:E; [|discriminate]. inversion H; subst. simpl. f_equal. eapply IH; eauto.
  Qed.

  Lemma cons_line_qend : forall (st st' : cstate) line o e B,
    cons_line st (line, o) = (st', e) -> line < B -> qend st <= B -> qend st' <= B.
  Proof.
    intros st st' line o e B H Hl HB. unfold cons_line in H.
    destruct o as [r|]; [|inversion H; subst; auto].
    destruct (line <? start_index st) eqn:E1; [inversion H; subst; auto|]. apply Nat.ltb_ge in E1.
    destruct (set_nth _ _ _) as [q2|] eqn:E2; [|inversion H; subst; auto].
    destruct (flush q2 (start_index st) (produced st)) as [[q3 s3] out3] eqn:E3.
    inversion H; subst. unfold qend in *. simpl.
    apply flush_qend in E3. apply set_nth_length in E2. rewrite app_length, repeat_length in E2. lia.
  Qed.

  Lemma cons_job_qend : forall (j : @job_out A) st st' e B,
    cons_job st j = (st', e) -> (forall o, In o j -> fst o < B) -> qend st <= B -> qend st' <= B.
  Proof.
    induction j as [|[line o] j IH]; cbn [cons_job]; intros st st' e B H Hl HB. inversion H; subst; auto.
    destruct (cons_line st (line, o)) as [st1 e1] eqn:E1.
    assert (qend st1 <= B). { eapply cons_line_qend. exact E1. apply (Hl (line, o)). left; auto. auto. }
    destruct e1; try (inversion H; subst; auto; fail). eapply IH. exact H. intros o0 Ho. apply Hl. right; auto. auto.
  Qed.

  Definition msg_lines_below (B : nat) (m : @msg A) : Prop :=
    match m with Result j => forall o, In o j -> fst o < B | Done _ => True end.

  Lemma run_consumer_qend : forall msgs n st st' e rest B,
    run_consumer n st msgs = (st', e, rest) -> Forall (msg_lines_below B) msgs -> qend st <= B -> qend st' <= B.
  Proof.
    induction msgs as [|m msgs IH]; cbn [run_consumer]; intros n st st' e rest B H Hm HB. inversion H; subst; auto.
    inversion Hm as [|? ? Hm1 Hm2]; subst. destruct m as [j|err].
    - destruct (cons_job st j) as [st1 e1] eqn:E1.
      assert (qend st1 <= B) by (eapply cons_job_qend; eauto).
      destruct e1; try (inversion H; subst; auto; fail).
      destruct (reader_done st1 && (start_index st1 =? n)). inversion H; subst; auto. eapply IH; eauto.
    - destruct err. inversion H; subst; auto.
      cbn [start_index] in H. destruct (start_index st =? n); [inversion H; subst; auto|]. eapply IH in H; eauto.
  Qed.

  (* ---- the token window ---- *)
  Lemma window_nth : forall cap sched off,
    forallb (fun pj => snd pj <? fst pj + cap) (combine (seq off (length sched)) sched) = true ->
    forall p j, nth_error sched p = Some j -> j < off + p + cap.
  Proof.
    induction sched as [|x sched IH]; intros off H p j Hp. destruct p; discriminate.
    simpl in H. apply andb_true_iff in H as [H1 H2]. apply Nat.ltb_lt in H1. simpl in H1.
    destruct p; simpl in Hp. inversion Hp; subst. lia.
    specialize (IH (S off) H2 p j Hp). lia.
  Qed.

  Lemma in_firstn_nth : forall {X} k (l : list X) x, In x (firstn k l) -> exists p, p < k /\ nth_error l p = Some x.
  Proof.
    induction k; intros l x H; simpl in H. contradiction.
    destruct l as [|y l]; simpl in H. contradiction.
    destruct H as [H|H]. subst. exists 0. split. lia. auto.
    destruct (IHk _ _ H) as [p [Hp Hn]]. exists (S p). split. lia. auto.
  Qed.

  Lemma firstn_insert_at_in : forall {X} d k (y : X) l x,
    In x (firstn k (insert_at d y l)) -> x = y \/ In x (firstn k l).
  Proof.
    induction d; intros k y l x H.
    - destruct k; simpl in H. contradiction. destruct H as [H|H]; auto.
      right. clear - H. revert l H. induction k; intros l H; simpl in H. contradiction.
      destruct l; simpl in *. contradiction. destruct H; auto.
    - destruct l as [|h t]; simpl in H.
      + destruct k; simpl in H. contradiction. destruct H as [H|H]; auto. destruct k; contradiction.
      + destruct k; simpl in H. contradiction. destruct H as [H|H]. right; simpl; auto.
        apply IHd in H. destruct H; auto. right. simpl. auto.
  Qed.

  (* after any k messages the queue spans at most (k + cap) batches *)
  Theorem json_queue_window : forall n batch cap sched dpos k st e rest,
    in_range_window cap sched = true ->
    run_consumer n cstate0 (firstn k (messages rec_of n batch sched dpos)) = (st, e, rest) ->
    length (queue st) <= (k + cap) * batch.
  Proof.
    intros n batch cap sched dpos k st e rest Hw H.
    assert (Hq : qend st <= (k + cap) * batch).
    { eapply run_consumer_qend; eauto. 2: unfold qend; simpl; lia.
      apply Forall_forall. intros m Hm. unfold messages in Hm. apply firstn_insert_at_in in Hm as [Hm|Hm].
      subst; simpl; auto.
      rewrite firstn_map in Hm. apply in_map_iff in Hm as [j [Hj1 Hj2]]. subst m.
      apply in_firstn_nth in Hj2 as [p [Hp Hn]].
      pose proof (window_nth cap sched 0 Hw p j Hn) as Hjp.
      simpl. intros o Ho. apply in_map_iff in Ho as [i [Hi1 Hi2]]. subst o. simpl.
      unfold job_lines in Hi2. apply in_seq in Hi2.
      assert (S j <= k + cap) by lia. assert (S j * batch <= (k + cap) * batch) by (apply Nat.mul_le_mono_r; auto).
      simpl in H1. lia. }
    unfold qend in Hq. lia.
  Qed.
End QB.

(* the window does not bound the queue by cap batches: cap = 2, six one-line jobs, job 0 finishing last —
   a schedule the token protocol allows — and the queue holds 6 slots after five results *)
Theorem json_queue_not_bounded_by_cap :
  exists n batch cap sched k st e rest,
    in_range_window cap sched = true /\
    run_consumer n cstate0 (firstn k (messages (fun i => i) n batch sched 6)) = (st, e, rest) /\
    cap * batch < length (queue st).
Proof.
  exists 6, 1, 2, [1;2;3;4;5;0], 5.
  eexists. eexists. eexists. split. vm_compute. reflexivity. split. vm_compute. reflexivity. vm_compute. lia.
Qed.
