(* Proofs/JoinQueryProofs.v — C02: the join nodes on batch inputs compute the relational join. *)
From Coq Require Import Permutation.
From Octo Require Import Joins JoinQuery CompareLaws ChangelogLemmas JoinsBase JoinsProofs.

Definition pred_respects (p : row -> bool) : Prop := forall a b, row_eqb a b = true -> p a = p b.

Lemma consolidate_filter p l x : pred_respects p ->
  consolidate (filter (fun r => p (vals r)) l) x = if p x then consolidate l x else 0.
Proof.
  intro Hp. induction l as [|r l IH]; [simpl; destruct (p x); reflexivity|].
  cbn [filter]. destruct (p (vals r)) eqn:E; cbn [consolidate]; rewrite IH.
  - destruct (row_eqb (vals r) x) eqn:Rx; [rewrite <- (Hp _ _ Rx), E; reflexivity | destruct (p x); lia].
  - destruct (row_eqb (vals r) x) eqn:Rx; [rewrite <- (Hp _ _ Rx), E; lia | destruct (p x); lia].
Qed.

Lemma count_rows_filter p rows x : pred_respects p ->
  count_rows (filter p rows) x = if p x then count_rows rows x else 0.
Proof.
  intro Hp. unfold count_rows. rewrite <- (consolidate_filter p (map ins rows) x Hp). f_equal.
  induction rows as [|r rows IH]; [reflexivity|]. simpl. destruct (p r); simpl; rewrite IH; reflexivity.
Qed.

Lemma msg_recs_batch t : msg_recs (batch t) = map ins t.
Proof. unfold batch. rewrite msg_recs_app. simpl. rewrite app_nil_r. induction t; simpl; [reflexivity | f_equal; assumption]. Qed.
Lemma plain_batch t : plain_script (batch t) = true.
Proof. unfold batch. induction t; [reflexivity | exact IHt]. Qed.

Lemma firstn_app_exact {A} (l r : list A) n : length l = n -> firstn n (l ++ r) = l /\ skipn n (l ++ r) = r.
Proof.
  intro H. subst n. split.
  - rewrite firstn_app, Nat.sub_diag, firstn_all. simpl. apply app_nil_r.
  - rewrite skipn_app, Nat.sub_diag, skipn_all. reflexivity.
Qed.

Lemma row_eqb_firstn n : forall a b, row_eqb a b = true -> row_eqb (firstn n a) (firstn n b) = true.
Proof.
  induction n as [|n IH]; intros [|x a] [|y b] H; try reflexivity; try discriminate.
  cbn [firstn]. rewrite row_eqb_cons in *. apply andb_prop in H. destruct H as [H1 H2]. rewrite H1, (IH _ _ H2). reflexivity.
Qed.
Lemma row_eqb_skipn n : forall a b, row_eqb a b = true -> row_eqb (skipn n a) (skipn n b) = true.
Proof.
  induction n as [|n IH]; intros [|x a] [|y b] H; try reflexivity; try discriminate; try exact H.
  cbn [skipn]. rewrite row_eqb_cons in H. apply andb_prop in H. destruct H as [_ H2]. apply IH. exact H2.
Qed.

Lemma rel_inner_filter (p q : row -> bool) L R :
  rel_inner (fun y => p y && q y) L R = filter q (rel_inner p L R).
Proof.
  unfold rel_inner. induction L as [|l L IH]; [reflexivity|]. simpl. rewrite filter_app. f_equal; [|exact IH].
  clear IH. induction R as [|r R IHR]; [reflexivity|]. simpl.
  destruct (p (l ++ r)); simpl; [|exact IHR].
  destruct (q (l ++ r)); simpl; [f_equal|]; exact IHR.
Qed.

Section Keys.
  Variables kl kr : list value -> list value.
  Variable nl : nat.
  Definition key_pred (x : row) : bool := key_match (kl (firstn nl x)) (kr (skipn nl x)).

  Lemma pairs_batch l R : length l = nl ->
    map (pair_rec (ins l)) (filter (fun r => key_match (kl (vals (ins l))) (kr (vals r))) (map ins R)) =
    map ins (map (app l) (filter (fun r => key_pred (l ++ r)) R)).
  Proof.
    intro Hl. induction R as [|r R IHR]; [reflexivity|]. cbn [map filter ins vals] in *.
    unfold key_pred at 1. destruct (firstn_app_exact l r nl Hl) as [E1 E2]. rewrite E1, E2.
    destruct (key_match (kl l) (kr r)); [|exact IHR]. cbn [map]. rewrite IHR. reflexivity.
  Qed.

  (* the pairwise join of two batches is the relational equi-join, pair by pair *)
  Lemma join_list_batch L R : (forall l, In l L -> length l = nl) ->
    join_list kl kr (map ins L) (map ins R) = map ins (rel_inner key_pred L R).
  Proof.
    intro Ha. unfold join_list, rel_inner. induction L as [|l L IH]; [reflexivity|].
    cbn [map flat_map]. rewrite IH by (intros; apply Ha; right; assumption).
    rewrite pairs_batch by (apply Ha; left; reflexivity). rewrite map_app. reflexivity.
  Qed.

  Hypothesis kl_resp : key_respects kl.
  Hypothesis kr_resp : key_respects kr.

  Lemma key_pred_respects : pred_respects key_pred.
  Proof.
    intros a b H. unfold key_pred. apply key_match_cong; [apply kl_resp, row_eqb_firstn | apply kr_resp, row_eqb_skipn]; exact H.
  Qed.

  (* C02_inner: StreamJoin with keys kl/kr and the residual predicate as a Filter above, on two batches, under
     every interleaving, returns the relational join  { l ++ r | keys match (NULL matches nothing) /\ residual } *)
  Theorem inner_join_batch residual L R sigma st os :
    pred_respects residual ->
    interleave (batch L) (batch R) sigma -> (forall l, In l L -> length l = nl) ->
    sj_run_steps kl kr jinit sigma = (st, os) -> phase st = Done ->
    forall x, consolidate (filter (fun r => residual (vals r)) (records (concat os))) x =
              count_rows (rel_inner (fun y => key_pred y && residual y) L R) x.
  Proof.
    intros Hres Hil Ha Hrun Hd x.
    rewrite (consolidate_filter residual _ x Hres).
    pose proof (rel_inner_filter key_pred residual L R) as F.
    rewrite F, (count_rows_filter residual _ x Hres).
    destruct (residual x); [|reflexivity].
    unfold count_rows. rewrite <- (join_list_batch L R Ha).
    rewrite (join_list_bag kl kr nl kl_resp kr_resp (map ins L) (map ins R) x).
    2:{ intros a Hin. apply in_map_iff in Hin. destruct Hin as [l [E Hin]]. subst a. apply Ha. exact Hin. }
    rewrite <- !msg_recs_batch.
    apply (sj_final kl kr nl kl_resp kr_resp (batch L) (batch R) sigma st os Hil); auto.
    - split; [apply plain_batch|]. split; [apply plain_batch|]. rewrite msg_recs_batch.
      intros a Hin. apply in_map_iff in Hin. destruct Hin as [l [E Hin]]. subst a. apply Ha. exact Hin.
    - rewrite !msg_recs_batch. intros a Hin. apply in_app_or in Hin.
      destruct Hin as [Hin|Hin]; apply in_map_iff in Hin; destruct Hin as [l [E _]]; subst a; vm_compute; discriminate.
  Qed.
End Keys.

(* ---- the ON equalities as join keys (logical/join.go OuterJoin, optimizer key extraction) ---- *)
Lemma key_match_cons a ka b kb : key_match (a :: ka) (b :: kb) =
  negb (isnull a) && negb (isnull b) && (vcompare a b =? 0) && key_match ka kb.
Proof.
  unfold key_match. cbn [has_null existsb]. rewrite row_eqb_cons.
  change (match a with VNull => true | _ => false end) with (isnull a).
  change (match b with VNull => true | _ => false end) with (isnull b).
  fold (has_null ka). fold (has_null kb).
  destruct (isnull a), (isnull b), (has_null ka), (has_null kb), (vcompare a b =? 0), (row_eqb ka kb); reflexivity.
Qed.

Lemma eq_conds_are_keys is : forall js x, length is = length js ->
  all_hold (eq_conds is js) x = key_match (proj is x) (proj js x).
Proof.
  induction is as [|i is IH]; intros [|j js] x Hlen; try discriminate; [reflexivity|].
  cbn [eq_conds all_hold forallb proj map]. fold (all_hold (eq_conds is js) x). fold (proj is x). fold (proj js x).
  rewrite key_match_cons, IH by (simpl in Hlen; lia). f_equal.
  unfold holds, eval_cond, col. destruct (isnull (nth i x VNull)), (isnull (nth j x VNull)); cbn [orb negb andb]; try reflexivity.
  destruct (vcompare (nth i x VNull) (nth j x VNull) =? 0); reflexivity.
Qed.

(* ---- LOOKUP JOIN ---- *)
Theorem lookup_join_batch (p : row -> bool) S T :
  lookup_join (fun s => map ins (filter (fun t => p (vals s ++ t)) T)) (map ins S) = map ins (rel_inner p S T).
Proof.
  unfold lookup_join, rel_inner. induction S as [|s S IH]; [reflexivity|].
  cbn [map flat_map]. rewrite map_app, IH. f_equal. rewrite !map_map. reflexivity.
Qed.

Theorem lookup_join_linear joined a b x :
  consolidate (lookup_join joined (a ++ b)) x = consolidate (lookup_join joined a) x + consolidate (lookup_join joined b) x.
Proof. unfold lookup_join. rewrite flat_map_app. apply consolidate_app. Qed.

(* ---- outer joins: instances on the NULL-key witness (pinned vs fixed) ---- *)
Lemma outer_pinned_pairs_null_keys :
  let '(st, out) := oj_run_pinned k1 k1 true true 2 2 jinit wnull_sigma in
  phase st = Done /\ bag_eqb (records out) (map ins (rel_join 3 (all_hold [CEq 0 2]) 2 2 wq_left wq_right)) = false.
Proof. vm_compute. split; reflexivity. Qed.

Lemma outer_fixed_pads_null_keys :
  let '(st, out) := oj_run k1 k1 true true 2 2 jinit wnull_sigma in
  phase st = Done /\ bag_eqb (records out) (map ins (rel_join 3 (all_hold [CEq 0 2]) 2 2 wq_left wq_right)) = true.
Proof. vm_compute. split; reflexivity. Qed.

Lemma inner_pinned_pairs_null_keys :
  let '(st, out) := sj_run_pinned k1 k1 jinit wnull_sigma in
  phase st = Done /\ bag_eqb (records out) (map ins (rel_join 0 (all_hold [CEq 0 2]) 2 2 wq_left wq_right)) = false.
Proof. vm_compute. split; reflexivity. Qed.
