(* Proofs/TriggerSpecProofs.v — C17: when the triggers fire. *)
From Octo Require Import GroupBy TriggerProofs GroupByProofs CompareLaws ChangelogLemmas.
From Coq Require Import Sorting.Sorted.

(* ---------- well-formed trigger states (everything reachable from the initial state) ---------- *)
Definition ns_sorted (tks : list (wkey * unit)) : Prop :=
  StronglySorted (fun a b => wk_ns (fst a) <= wk_ns (fst b)) tks.
Definition wf_tks (idx : nat) (tks : list (wkey * unit)) : Prop :=
  Forall (fun e => wk_ns (fst e) = fst (key_time idx (snd (fst e)))) tks.
Definition t_ok (s : tstate) : Prop :=
  match s with
  | SWm idx tks _ _ => ns_sorted tks /\ wf_tks idx tks
  | SEos keys _ => m_nd slices_less keys
  | SCount _ _ _ _ => True
  end.

Lemma sorted_filter {A} (R : A -> A -> Prop) (p : A -> bool) l : StronglySorted R l -> StronglySorted R (filter p l).
Proof.
  induction 1 as [|x l S IH F]; simpl; [constructor|]. destruct (p x); [|exact IH].
  constructor; [exact IH|]. rewrite Forall_forall in *. intros y Hy. apply filter_In in Hy. apply F. tauto.
Qed.

Lemma sorted_sins k (m : list (wkey * unit)) : ns_sorted m -> ns_sorted (m_sins wless k tt m).
Proof.
  unfold ns_sorted. induction 1 as [|x l S IH F]; simpl; [repeat constructor|].
  destruct (wless k (fst x)) eqn:W.
  - constructor; [constructor; assumption|].
    assert (L : wk_ns k <= wk_ns (fst x)).
    { unfold wless in W. destruct (Z.eqb_spec (wk_ns k) (wk_ns (fst x))); [lia|]. apply Z.ltb_lt in W. lia. }
    constructor; [exact L|]. rewrite Forall_forall in *. intros y Hy. specialize (F y Hy). simpl in *. lia.
  - constructor; [exact IH|]. rewrite Forall_forall in *. intros y Hy.
    apply (in_sins wless) in Hy. destruct Hy as [Hy|Hy]; [|apply F; exact Hy]. subst. simpl.
    unfold wless in W. destruct (Z.eqb_spec (wk_ns k) (wk_ns (fst x))); [lia|]. apply Z.ltb_ge in W. exact W.
Qed.

Lemma fold_del_incl idx (ks : list gkey) : forall (tks : list (wkey * unit)) e,
  In e (fold_left (fun m k0 => m_del wless (key_time idx k0, k0) m) ks tks) -> In e tks.
Proof.
  induction ks as [|k r IH]; simpl; intros tks e H; [exact H|].
  apply IH in H. unfold m_del in H. apply filter_In in H. tauto.
Qed.
Lemma fold_del_sorted idx (ks : list gkey) : forall (tks : list (wkey * unit)), ns_sorted tks ->
  ns_sorted (fold_left (fun m k0 => m_del wless (key_time idx k0, k0) m) ks tks).
Proof. induction ks as [|k r IH]; simpl; intros tks H; [exact H|]. apply IH. apply sorted_filter. exact H. Qed.

Lemma t_key_ok k s : t_ok s -> t_ok (t_key wless k s).
Proof.
  destruct s; simpl; auto.
  - destruct (m_get slices_less k counts) as [[sk c0]|]; destruct (_ =? n); exact (fun _ => I).
  - intros [S W]. split.
    + unfold m_put. apply sorted_sins. apply sorted_filter. exact S.
    + unfold wf_tks in *. rewrite Forall_forall in *. intros e He.
      apply (in_put wless) in He. destruct He as [He|[He _]]; [subst; reflexivity | apply W; exact He].
  - apply g_nd_put.
Qed.
Lemma t_wm_ok w s : t_ok s -> t_ok (t_wm w s). Proof. destruct s; auto. Qed.
Lemma t_eos_ok s : t_ok s -> t_ok (t_eos s). Proof. destruct s; auto. Qed.
Lemma t_poll_ok s o s' : t_poll wless s = (o, s') -> t_ok s -> t_ok s'.
Proof.
  destruct s; simpl; intro H; inversion H; subst; auto.
  intros [S W]. split; [apply fold_del_sorted; exact S|].
  unfold wf_tks in *. rewrite Forall_forall in *. intros e He. apply W. apply (fold_del_incl _ _ _ _ He).
Qed.
Lemma t_init_ok idx k : t_ok (t_init idx k).
Proof. destruct k; simpl; auto. split; constructor. Qed.

Lemma take_while_in {A} (p : A -> bool) l x : In x (take_while p l) -> In x l /\ p x = true.
Proof.
  induction l as [|y r IH]; simpl; [tauto|]. destruct (p y) eqn:P; [|intros []].
  intros [H|H]; [subst; auto | destruct (IH H); auto].
Qed.

(* ---------- ON WATERMARK: soundness ---------- *)
(* before end of stream the watermark trigger returns only keys whose time component is at or below the
   last watermark it received *)
Theorem wm_poll_sound idx tks wm ks s' : t_ok (SWm idx tks false wm) ->
  t_poll wless (SWm idx tks false wm) = (ks, s') -> forall k, In k ks -> fst (key_time idx k) <= wm.
Proof.
  intros [_ W] H k Hk. simpl in H. inversion H; subst; clear H.
  apply in_map_iff in Hk. destruct Hk as [e [E He]]. subst k.
  apply take_while_in in He. destruct He as [He P].
  unfold wf_tks in W. rewrite Forall_forall in W. unfold wkey in *. rewrite <- (W e He).
  apply negb_true_iff, Z.ltb_ge in P. exact P.
Qed.

(* on a list sorted by instant, the scan that stops at the first later item finds every earlier item *)
Lemma take_while_sorted wm (tks : list (wkey * unit)) e : ns_sorted tks -> In e tks -> wk_ns (fst e) <= wm ->
  In e (take_while (fun e => negb (wm <? wk_ns (fst e))) tks).
Proof.
  induction 1 as [|x l S IH F]; simpl; [tauto|]. intros [H|H] L.
  - subst. destruct (Z.ltb_spec wm (wk_ns (fst e))); [lia|]. left. reflexivity.
  - rewrite Forall_forall in F. specialize (F e H). simpl in F.
    destruct (Z.ltb_spec wm (wk_ns (fst x))); [lia|]. right. apply IH; assumption.
Qed.

(* ---------- ON WATERMARK: completeness at the trigger ---------- *)
(* after Poll, no key at or below the watermark is still pending *)
Lemma wm_poll_complete idx tks wm ks s' k : t_ok (SWm idx tks false wm) ->
  t_poll wless (SWm idx tks false wm) = (ks, s') -> fst (key_time idx k) <= wm -> pending s' k = false.
Proof.
  intros [S W] H L. simpl in H. inversion H; subst; clear H. simpl.
  rewrite mem_fold_del. destruct (m_mem wless (key_time idx k, k) tks) eqn:M; [|apply andb_false_r].
  rewrite andb_true_r. apply negb_false_iff.
  unfold m_mem in M. apply existsb_exists in M. destruct M as [e [He Ee]].
  rewrite weq_spec in Ee. apply andb_true_iff in Ee. destruct Ee as [E1 E2]. apply Z.eqb_eq in E1. simpl in E1, E2.
  apply existsb_exists. exists (snd (fst e)). split; [|exact E2].
  apply in_map_iff. exists e. split; [reflexivity|]. apply take_while_sorted; auto. unfold wk_ns in *. simpl in E1. lia.
Qed.

(* ---------- ON END OF STREAM ---------- *)
Theorem eos_trigger_silent keys : t_poll wless (SEos keys false) = ([], SEos keys false).
Proof. reflexivity. Qed.
Theorem eos_trigger_all keys b : fst (t_poll wless (t_eos (SEos keys b))) = map fst keys.
Proof. reflexivity. Qed.
(* ... and each key once: the stored keys are pairwise different groups *)
Theorem eos_trigger_once keys b : t_ok (SEos keys b) -> m_nd slices_less keys.
Proof. exact (fun H => H). Qed.

(* ---------- COUNTING n ---------- *)
Definition occ (k : gkey) (l : list gkey) : Z := Z.of_nat (length (filter (geq k) l)).
Lemma occ_snoc k l k0 : occ k (l ++ [k0]) = occ k l + (if geq k k0 then 1 else 0).
Proof. unfold occ. rewrite filter_app, app_length. simpl. destruct (geq k k0); simpl; lia. Qed.
Lemma occ_cong k k' l : geq k k' = true -> occ k l = occ k' l.
Proof.
  intro H. unfold occ. f_equal. f_equal. induction l as [|x r IH]; simpl; [reflexivity|].
  rewrite (eqv_cong slices_less geq_trans k k' x H), IH. reflexivity.
Qed.
Lemma occ_nonneg k l : 0 <= occ k l. Proof. unfold occ. lia. Qed.

Lemma mod_succ n a c : 0 < n -> c = a mod n -> (a + 1) mod n = if c + 1 =? n then 0 else c + 1.
Proof.
  intros N C. pose proof (Z.mod_pos_bound a n N) as B. rewrite <- Zplus_mod_idemp_l, <- C.
  destruct (Z.eqb_spec (c + 1) n) as [e|ne]; [rewrite e; apply Z_mod_same_full | apply Z.mod_small; lia].
Qed.

(* state of COUNTING n after the keys l (a Poll after each): count of a key = its number of records mod n *)
Definition c_inv (n : Z) (l : list gkey) (s : tstate) : Prop :=
  match s with
  | SCount n' counts eos fire =>
      n' = n /\ eos = false /\ fire = [] /\
      forall k, match m_get slices_less k counts with
                | Some e => snd e = occ k l mod n /\ snd e <> 0
                | None => occ k l mod n = 0
                end
  | _ => False
  end.

Theorem counting_fires_every_nth n l s k : 0 < n < two64 -> c_inv n l s ->
  let '(o, s') := t_poll wless (t_key wless k s) in
  c_inv n (l ++ [k]) s' /\
  (if occ k (l ++ [k]) mod n =? 0 then exists sk, o = [sk] /\ geq k sk = true else o = []).
Proof.
  intros N I. destruct s as [n' counts eos fire| |]; try contradiction.
  destruct I as [En [Ee [Ef I]]]. subst n' eos fire. simpl.
  pose proof (I k) as Ik. rewrite occ_snoc, geq_refl.
  destruct (m_get slices_less k counts) as [[sk c]|] eqn:G.
  - simpl in Ik. destruct Ik as [C1 C2].
    assert (SK : geq k sk = true) by (apply (get_some slices_less) in G; exact (proj2 G)).
    pose proof (Z.mod_pos_bound (occ k l) n (proj1 N)) as B.
    rewrite (Z.mod_small (c + 1) two64) by lia. rewrite (mod_succ n (occ k l) c (proj1 N) C1).
    destruct (Z.eqb_spec (c + 1) n) as [e|ne]; simpl.
    + split; [|exists sk; auto]. repeat split; auto. intro k'. rewrite occ_snoc, g_get_del.
      rewrite <- (g_eqv_cong_r k' k sk SK). destruct (geq k' k) eqn:E.
      * rewrite (occ_cong k' k l E), (mod_succ n (occ k l) c (proj1 N) C1). destruct (Z.eqb_spec (c + 1) n); [reflexivity | contradiction].
      * rewrite Z.add_0_r. apply I.
    + destruct (Z.eqb_spec (c + 1) 0) as [z|nz]; [lia|].
      split; [|reflexivity]. repeat split; auto. intro k'. rewrite occ_snoc, g_get_put.
      rewrite <- (g_eqv_cong_r k' k sk SK). destruct (geq k' k) eqn:E.
      * simpl. rewrite (occ_cong k' k l E), (mod_succ n (occ k l) c (proj1 N) C1).
        destruct (Z.eqb_spec (c + 1) n); [contradiction|]. split; [reflexivity | lia].
      * rewrite Z.add_0_r. apply I.
  - rewrite (Z.mod_small (0 + 1) two64) by lia. rewrite (mod_succ n (occ k l) 0 (proj1 N) (eq_sym Ik)).
    destruct (Z.eqb_spec (0 + 1) n) as [e|ne]; simpl.
    + split; [|exists k; split; [reflexivity | apply geq_refl]]. repeat split; auto. intro k'. rewrite occ_snoc, g_get_del.
      destruct (geq k' k) eqn:E.
      * rewrite (occ_cong k' k l E), (mod_succ n (occ k l) 0 (proj1 N) (eq_sym Ik)). destruct (Z.eqb_spec (0 + 1) n); [reflexivity | contradiction].
      * rewrite Z.add_0_r. apply I.
    + split; [|reflexivity]. repeat split; auto. intro k'. rewrite occ_snoc, g_get_put.
      destruct (geq k' k) eqn:E.
      * simpl. rewrite (occ_cong k' k l E), (mod_succ n (occ k l) 0 (proj1 N) (eq_sym Ik)).
        destruct (Z.eqb_spec (0 + 1) n); [contradiction|]. split; [reflexivity | lia].
      * rewrite Z.add_0_r. apply I.
Qed.

(* a watermark does not make COUNTING fire *)
Lemma counting_ignores_wm n l s w : c_inv n l s -> t_poll wless (t_wm w s) = ([], s).
Proof.
  destruct s as [n' counts eos fire| |]; try contradiction. intros [En [Ee [Ef _]]]. subst. reflexivity.
Qed.

(* ---------- the statements at the level of the node ---------- *)
Section NodeTiming.
  Variable ST : Type.
  Variable rinit : ST.
  Variable radd : bool -> list value -> ST -> ST.
  Variable rout : ST -> list value.
  Variable nk : nat.
  Variable kti : option nat.

  Notation keyf := (keyf nk).
  Notation aggs_upd := (aggs_upd ST rinit radd nk).
  Notation emit_key := (emit_key ST rout kti).
  Notation emit_keys := (emit_keys ST rout kti).
  Notation ctg_step := (ctg_step ST rinit radd rout wless nk kti).
  Notation ctg_finish := (ctg_finish ST rout wless kti).
  Notation ctg_run_from := (ctg_run_from ST rinit radd rout wless nk kti).
  Notation ctg_init := (ctg_init ST kti).
  Notation Inv := (Inv ST rinit radd rout nk).
  Notation synced := (synced ST rout).
  Notation st_aggs := (st_aggs ST).
  Notation st_sent := (st_sent ST).
  Notation st_trigs := (st_trigs ST).
  Let idx := match kti with Some i => i | None => O end.

  Lemma emit_keys_no_wm aggs cur : forall ks sent, watermarks (snd (emit_keys aggs cur sent ks)) = [].
  Proof.
    induction ks as [|k r IH]; intro sent; simpl; [reflexivity|].
    destruct (emit_key aggs cur sent k) as [s1 o1] eqn:E1. specialize (IH s1).
    destruct (emit_keys aggs cur s1 r) as [s2 o2]. simpl in *. rewrite watermarks_app, IH, app_nil_r.
    unfold GroupBy.emit_key in E1. destruct (out_row ST rout aggs k); destruct (m_get slices_less k sent); inversion E1; reflexivity.
  Qed.

  (* the rows triggered by a watermark precede it; the watermark itself is forwarded unchanged *)
  Theorem wm_step_order s w : exists s' rows, ctg_step s (WM w) = (s', rows ++ [WM w]) /\ watermarks rows = [].
  Proof.
    destruct s as [[aggs sent] ts]. simpl. destruct (mt_poll wless (mt_wm w ts)) as [ks ts'].
    pose proof (emit_keys_no_wm aggs w ks sent) as H. destruct (emit_keys aggs w sent ks) as [sent' o]. simpl in H.
    eexists. exists o. split; [reflexivity | exact H].
  Qed.

  (* shape of the trigger states of a configuration before end of stream *)
  Definition t_shape (k : tkind) (t : tstate) : Prop :=
    match k, t with
    | TCounting n, SCount n' _ false _ => n = n'
    | TWatermark, SWm i _ false _ => i = idx
    | TEndOfStream, SEos _ false => True
    | _, _ => False
    end.
  Lemma shape_key k t g : t_shape k t -> t_shape k (t_key wless g t).
  Proof.
    destruct k, t; simpl; auto; destruct eos; auto; try contradiction.
    destruct (m_get slices_less g counts) as [[sk c0]|]; match goal with |- context [if ?b then _ else _] => destruct b end; auto.
  Qed.
  Lemma shape_wm k t w : t_shape k t -> t_shape k (t_wm w t).
  Proof. destruct k, t; simpl; auto. Qed.
  Lemma shape_poll k t o t' : t_poll wless t = (o, t') -> t_shape k t -> t_shape k t'.
  Proof. destruct k, t; simpl; intro H; inversion H; subst; auto. Qed.

  Definition ts_good (trigs : list tkind) (ts : list tstate) : Prop :=
    Forall2 t_shape trigs ts /\ Forall t_ok ts.

  Lemma F2_map {A B} (R : A -> B -> Prop) (f : B -> B) l l' :
    (forall a b, R a b -> R a (f b)) -> Forall2 R l l' -> Forall2 R l (map f l').
  Proof. intros H F. induction F; simpl; constructor; auto. Qed.
  Lemma F_map {B} (P : B -> Prop) (f : B -> B) l : (forall b, P b -> P (f b)) -> Forall P l -> Forall P (map f l).
  Proof. intros H F. induction F; simpl; constructor; auto. Qed.

  Lemma good_poll trigs ts ks ts' : mt_poll wless ts = (ks, ts') -> ts_good trigs ts -> ts_good trigs ts'.
  Proof.
    intros P [S O]. pose proof (mt_poll_spec _ _ _ P) as F. clear P. revert trigs S O.
    induction F as [|t t' l l' [o [Pt _]] _ IH]; intros trigs S O; [split; [exact S | constructor]|].
    inversion S as [|k ? tr ? Sk Sr]; subst. inversion O as [|? ? Ot Ol]; subst.
    destruct (IH tr Sr Ol) as [S' O']. split; constructor; auto.
    - apply (shape_poll k t o t' Pt Sk).
    - apply (t_poll_ok t o t' Pt Ot).
  Qed.

  Lemma good_step trigs s e s' o : ts_good trigs (st_trigs s) -> ctg_step s e = (s', o) -> ts_good trigs (st_trigs s').
  Proof.
    destruct s as [[aggs sent] ts]. unfold GroupByProofs.st_trigs. simpl. intros [S O] H. destruct e as [r|w].
    - destruct (mt_poll wless (mt_key wless (keyf r) ts)) as [ks ts'] eqn:P.
      destruct (emit_keys (aggs_upd r aggs) (et r) sent ks) as [sent' o']. inversion H; subst. simpl.
      apply (good_poll _ _ _ _ P). split; unfold mt_key.
      + apply F2_map; [intros a b; apply shape_key | exact S].
      + apply F_map; [apply t_key_ok | exact O].
    - destruct (mt_poll wless (mt_wm w ts)) as [ks ts'] eqn:P.
      destruct (emit_keys aggs w sent ks) as [sent' o']. inversion H; subst. simpl.
      apply (good_poll _ _ _ _ P). split; unfold mt_wm.
      + apply F2_map; [intros a b; apply shape_wm | exact S].
      + apply F_map; [apply t_wm_ok | exact O].
  Qed.

  Lemma good_run trigs : forall es s s' o, ts_good trigs (st_trigs s) -> ctg_run_from s es = (s', o) -> ts_good trigs (st_trigs s').
  Proof.
    induction es as [|e rest IH]; intros s s' o G H.
    - simpl in H. inversion H; subst. exact G.
    - cbn [GroupBy.ctg_run_from] in H. destruct (ctg_step s e) as [s1 o1] eqn:S1.
      destruct (ctg_run_from s1 rest) as [s2 o2] eqn:S2. inversion H; subst.
      apply (IH _ _ _ (good_step _ _ _ _ _ G S1) S2).
  Qed.

  Lemma good_init trigs : ts_good trigs (st_trigs (ctg_init trigs)).
  Proof.
    unfold GroupByProofs.st_trigs, GroupBy.ctg_init, mt_init. simpl. fold idx. split.
    - induction trigs as [|k r IH]; simpl; constructor; [destruct k; simpl; auto | exact IH].
    - induction trigs as [|k r IH]; simpl; constructor; [apply t_init_ok | exact IH].
  Qed.

  Lemma inv_init trigs : trigs <> [] -> Inv [] [] (ctg_init trigs).
  Proof.
    intro NE. constructor; simpl.
    - intro k. reflexivity.
    - intro. reflexivity.
    - exact I.
    - unfold trig_inv. apply Forall_forall. intros t _ k. right. exact I.
    - unfold GroupByProofs.st_trigs, GroupBy.ctg_init, mt_init. simpl. destruct trigs; [contradiction | discriminate].
  Qed.

  Lemma F2_in_l {A B} (R : A -> B -> Prop) l l' x : Forall2 R l l' -> In x l -> exists y, In y l' /\ R x y.
  Proof.
    induction 1 as [|a b l l' Rab F IH]; [intros []|]. intros [H|H].
    - subst. exists b. split; [left; reflexivity | exact Rab].
    - destruct (IH H) as [y [H1 H2]]. exists y. split; [right; exact H1 | exact H2].
  Qed.

  (* ON WATERMARK, completeness: for every configuration containing ON WATERMARK and every delivered
     stream, right after watermark W has been processed (its rows emitted, then WM W forwarded) what was
     sent for every key whose time component is at or below W is the key's current row; together with
     inv_bag (the consolidated output is exactly the rows sent) the output "already holds the current
     result of every key at or below W" *)
  Theorem watermark_complete trigs es W s o : In TWatermark trigs ->
    ctg_run_from (ctg_init trigs) (es ++ [WM W]) = (s, o) ->
    (forall row, consolidate (records o) row = sbag (st_sent s) row) /\
    (exists o', o = o' ++ [WM W]) /\
    forall k, fst (key_time idx k) <= W -> synced (st_aggs s) (st_sent s) k.
  Proof.
    intros HW R.
    assert (NE : trigs <> []) by (intro E; subst; contradiction).
    assert (SPLIT : exists s0 o0 o1, ctg_run_from (ctg_init trigs) es = (s0, o0) /\ ctg_step s0 (WM W) = (s, o1) /\ o = o0 ++ o1).
    { clear HW NE. revert R. generalize (ctg_init trigs). revert o. induction es as [|e rest IH]; intros o s0 R.
      - simpl in R. destruct (ctg_step s0 (WM W)) as [s1 o1] eqn:S1. inversion R; subst.
        exists s0, [], o1. rewrite app_nil_r. auto.
      - simpl app in R. cbn [GroupBy.ctg_run_from] in *. destruct (ctg_step s0 e) as [s1 o1] eqn:S1.
        destruct (ctg_run_from s1 (rest ++ [WM W])) as [s2 o2] eqn:S2. inversion R; subst.
        destruct (IH _ _ S2) as [sa [oa [ob [Ra [Rb Rc]]]]]. rewrite Ra. exists sa, (o1 ++ oa), ob.
        subst. rewrite app_assoc. auto. }
    destruct SPLIT as [s0 [o0 [o1 [R0 [R1 EO]]]]].
    pose proof (ctg_run_from_inv ST rinit radd rout nk kti _ _ _ _ _ _ (inv_init trigs NE) R0) as I0. simpl in I0.
    pose proof (good_run trigs _ _ _ _ (good_init trigs) R0) as [SH OK].
    pose proof (ctg_step_inv ST rinit radd rout nk kti _ _ _ _ _ _ I0 R1) as I1. rewrite <- EO in I1.
    split; [apply (inv_bag _ _ _ _ _ _ _ _ I1)|]. split.
    { destruct (wm_step_order s0 W) as [s' [rows [E _]]]. rewrite E in R1. inversion R1; subst.
      exists (o0 ++ rows). rewrite app_assoc. reflexivity. }
    intros k Lk.
    destruct (F2_in_l _ _ _ _ SH HW) as [t [Ht Sh]].
    destruct t as [| i tks eos wm |]; simpl in Sh; try contradiction. destruct eos; [contradiction|]. subst i.
    destruct s0 as [[aggs sent] ts]. unfold GroupByProofs.st_trigs in *. simpl in *.
    destruct (mt_poll wless (mt_wm W ts)) as [ks ts'] eqn:P.
    destruct (emit_keys aggs W sent ks) as [sent' o'] eqn:E. inversion R1; subst; clear R1.
    pose proof (mt_poll_spec _ _ _ P) as F2.
    assert (Hin : In (SWm idx tks false W) (mt_wm W ts)).
    { unfold mt_wm. apply in_map_iff. exists (SWm idx tks false wm). auto. }
    destruct (F2_in_l _ _ _ _ F2 Hin) as [t' [Ht' [ot [Pt _]]]].
    assert (OKt : t_ok (SWm idx tks false W)).
    { rewrite Forall_forall in OK. apply (OK _ Ht). }
    pose proof (wm_poll_complete idx tks W ot t' k OKt Pt Lk) as NP.
    pose proof (inv_trig _ _ _ _ _ _ _ _ I1) as TI. unfold GroupByProofs.st_trigs, GroupByProofs.st_aggs, GroupByProofs.st_sent in TI. simpl in TI.
    unfold trig_inv in TI. rewrite Forall_forall in TI. destruct (TI t' Ht' k) as [Hp|Hs]; [congruence | exact Hs].
  Qed.

  (* COUNTING n alone: over every delivered stream, the step of a record emits exactly the block of its
     key (retraction of what was sent, then the current row) when it is the key's n-th, 2n-th, ... record,
     and nothing otherwise; a watermark emits nothing but itself *)
  Lemma counting_reach n : 0 < n < two64 -> forall es s s' o l t,
    st_trigs s = [t] -> c_inv n l t -> ctg_run_from s es = (s', o) ->
    exists t', st_trigs s' = [t'] /\ c_inv n (l ++ map keyf (records es)) t'.
  Proof.
    intro N. induction es as [|e rest IH]; intros s s' o l t T C R.
    - simpl in R. inversion R; subst. exists t. simpl. rewrite app_nil_r. auto.
    - cbn [GroupBy.ctg_run_from] in R. destruct (ctg_step s e) as [s1 o1] eqn:S1.
      destruct (ctg_run_from s1 rest) as [s2 o2] eqn:S2. inversion R; subst; clear R.
      destruct s as [[aggs sent] ts]. unfold GroupByProofs.st_trigs in T. simpl in T. subst ts.
      destruct e as [r|w]; simpl in S1.
      + pose proof (counting_fires_every_nth n l t (keyf r) N C) as F.
        destruct (t_poll wless (t_key wless (keyf r) t)) as [ok t1] eqn:P. destruct F as [C1 _].
        destruct (emit_keys (aggs_upd r aggs) (et r) sent (ok ++ [])) as [sent' o'] eqn:E.
        inversion S1; subst; clear S1.
        destruct (IH (aggs_upd r aggs, sent', [t1]) _ _ _ t1 eq_refl C1 S2) as [t' [T' C']]. exists t'. split; [exact T'|].
        change (Rec r :: rest) with ([Rec r] ++ rest). rewrite records_app, map_app, app_assoc. exact C'.
      + rewrite (counting_ignores_wm n l t w C) in S1.
        destruct (emit_keys aggs w sent ([] ++ [])) as [sent' o'] eqn:E. inversion S1; subst; clear S1.
        destruct (IH (aggs, sent', [t]) _ _ _ t eq_refl C S2) as [t' [T' C']]. exists t'. split; [exact T'|]. exact C'.
  Qed.

  Theorem counting_exact n es s o r s' o' : 0 < n < two64 ->
    ctg_run_from (ctg_init [TCounting n]) es = (s, o) -> ctg_step s (Rec r) = (s', o') ->
    if occ (keyf r) (map keyf (records es) ++ [keyf r]) mod n =? 0
    then exists sk, geq (keyf r) sk = true /\
                    o' = snd (emit_key (aggs_upd r (st_aggs s)) (et r) (st_sent s) sk)
    else o' = [].
  Proof.
    intros N R S1.
    assert (C0 : c_inv n [] (SCount n [] false [])).
    { simpl. repeat split; auto. }
    destruct (counting_reach n N es (ctg_init [TCounting n]) s o [] _ eq_refl C0 R) as [t [T C]]. simpl in C.
    destruct s as [[aggs sent] ts]. unfold GroupByProofs.st_trigs in T. simpl in T. subst ts. simpl in S1.
    pose proof (counting_fires_every_nth n _ t (keyf r) N C) as F.
    destruct (t_poll wless (t_key wless (keyf r) t)) as [ok t1] eqn:P. destruct F as [_ F].
    unfold GroupByProofs.st_aggs, GroupByProofs.st_sent. simpl.
    destruct (occ (keyf r) (map keyf (records es) ++ [keyf r]) mod n =? 0).
    - destruct F as [sk [Eo Sk]]. subst ok. exists sk. split; [exact Sk|]. simpl in S1.
      destruct (emit_key (aggs_upd r aggs) (et r) sent sk) as [s1 o1]. inversion S1; subst. simpl. apply app_nil_r.
    - subst ok. simpl in S1. inversion S1; subst. reflexivity.
  Qed.

  Theorem counting_wm_silent n es s o w s' o' : 0 < n < two64 ->
    ctg_run_from (ctg_init [TCounting n]) es = (s, o) -> ctg_step s (WM w) = (s', o') -> o' = [WM w].
  Proof.
    intros N R S1.
    assert (C0 : c_inv n [] (SCount n [] false [])) by (simpl; repeat split; auto).
    destruct (counting_reach n N es (ctg_init [TCounting n]) s o [] _ eq_refl C0 R) as [t [T C]].
    destruct s as [[aggs sent] ts]. unfold GroupByProofs.st_trigs in T. simpl in T. subst ts. simpl in S1.
    rewrite (counting_ignores_wm n _ t w C) in S1. simpl in S1. inversion S1; subst. reflexivity.
  Qed.

  (* END OF STREAM: after the final triggering what was sent for EVERY key is its current row (whatever
     the non-empty configuration), so every key still pending in a trigger was emitted then *)
  Theorem finish_emits_everything trigs es s o s' o' : trigs <> [] ->
    ctg_run_from (ctg_init trigs) es = (s, o) -> ctg_finish s = (s', o') ->
    forall k, synced (st_aggs s') (st_sent s') k.
  Proof.
    intros NE R F.
    pose proof (ctg_run_from_inv ST rinit radd rout nk kti _ _ _ _ _ _ (inv_init trigs NE) R) as I0.
    apply (proj2 (ctg_finish_inv ST rinit radd rout nk kti _ _ _ _ _ I0 F)).
  Qed.

  (* SimpleGroupBy: watermarks pass through, then only insertions *)
  Theorem simple_shape es : exists rows,
    sgb_run ST rinit radd rout nk es = map WM (watermarks es) ++ map Rec rows /\ forall r, In r rows -> retr r = false /\ et r = zero_ns.
  Proof.
    unfold sgb_run. eexists. split.
    - f_equal. rewrite <- map_map with (g := Rec). reflexivity.
    - intros r H. apply in_map_iff in H. destruct H as [e [E _]]. subst. auto.
  Qed.
End NodeTiming.
