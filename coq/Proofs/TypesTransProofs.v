(* Proofs/TypesTransProofs.v — Type.Is (= Is) is transitive. *)
From Octo Require Import Types TypesIsProofs.

Lemma any_is : forall c, is_rel TAny c = Is -> forall a, is_rel a c = Is.
Proof.
  induction c as [ | | | | | | | |e IHe|fs IH|es IH|alts IH| ] using ty_ind'; intros H a; try (simpl in H; discriminate H).
  - apply is_rel_union_r_Is in H; [|reflexivity]. destruct H as [b [Hb E]]. rewrite Forall_forall in IH.
    apply (is_in_union a alts b Hb). apply (IH b Hb E).
  - apply is_rel_any.
Qed.

Lemma bytes_eqb_eq : forall a b, bytes_eqb a b = true -> a = b.
Proof.
  unfold bytes_eqb. induction a as [|x a IH]; intros [|y b] H; simpl in H; try discriminate; [reflexivity|].
  apply andb_true_iff in H. destruct H as [H1 H2]. apply Z.eqb_eq in H1. subst. f_equal. apply IH. exact H2.
Qed.
Lemma bytes_eqb_trans : forall a b c, bytes_eqb a b = true -> bytes_eqb b c = true -> bytes_eqb a c = true.
Proof. intros a b c H1 H2. apply bytes_eqb_eq in H1. subst. exact H2. Qed.

Theorem is_trans : forall a b c, is_rel a b = Is -> is_rel b c = Is -> is_rel a c = Is.
Proof.
  induction a as [ | | | | | | | |ea IHea|fsa IHfsa|esa IHesa|aalts IHa| ] using ty_ind'.
  12: { intros b c H1 H2. apply is_rel_union_l_Is. intros a' Ha'. rewrite Forall_forall in IHa.
        apply (IHa a' Ha' b c); [|exact H2]. rewrite is_rel_union_l_Is in H1. auto. }
  all: intro b; induction b as [ | | | | | | | |eb _|fsb _|esb _|balts IHb| ] using ty_ind'; intros c H1;
       try (simpl in H1; discriminate H1);
       try (intro H2; apply (any_is c H2));
       try (intro H2; apply is_rel_union_r_Is in H1; [|reflexivity]; destruct H1 as [bj [Hbj E]];
            rewrite is_rel_union_l_Is in H2; rewrite Forall_forall in IHb; apply (IHb bj Hbj c E (H2 bj Hbj))).
  all: induction c as [ | | | | | | | |ec _|fsc _|esc _|calts IHc| ] using ty_ind'; intro H2;
       try (simpl in H2; discriminate H2);
       try apply is_rel_any;
       try (apply is_rel_union_r_Is in H2; [|reflexivity]; destruct H2 as [ck [Hck E]];
            rewrite Forall_forall in IHc; eapply is_in_union; [exact Hck|]; apply (IHc ck Hck E));
       try reflexivity.
  - simpl in *. destruct (is_rel ea eb) eqn:E1; try discriminate H1. destruct (is_rel eb ec) eqn:E2; try discriminate H2.
    rewrite (IHea eb ec E1 E2). reflexivity.
  - rewrite is_rel_struct in *. revert fsb fsc H1 H2.
    induction IHfsa as [|[n x] fsa Hx _ IHf]; intros [|[m y] fsb] [|[k z] fsc] H1 H2; simpl in *; try discriminate; try reflexivity.
    destruct (bytes_eqb n m) eqn:B1; simpl in H1; try discriminate H1.
    destruct (bytes_eqb m k) eqn:B2; simpl in H2; try discriminate H2.
    destruct (is_rel x y) eqn:E1; simpl in H1; try discriminate H1.
    destruct (is_rel y z) eqn:E2; simpl in H2; try discriminate H2.
    rewrite (bytes_eqb_trans n m k B1 B2). simpl. rewrite (Hx y z E1 E2). simpl. apply (IHf fsb fsc H1 H2).
  - rewrite is_rel_tuple in *. revert esb esc H1 H2.
    induction IHesa as [|x esa Hx _ IHf]; intros [|y esb] [|z esc] H1 H2; simpl in *; try discriminate; try reflexivity.
    destruct (is_rel x y) eqn:E1; simpl in H1; try discriminate H1.
    destruct (is_rel y z) eqn:E2; simpl in H2; try discriminate H2.
    rewrite (Hx y z E1 E2). simpl. apply (IHf esb esc H1 H2).
Qed.
