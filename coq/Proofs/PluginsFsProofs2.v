(* Proofs/PluginsFsProofs2.v — C27: the first installation of a plugin (its directories are created before the
   rename) is crash safe as well. *)
From Octo Require Import Plugins PluginsProofs PluginsFs PluginsJson PluginsFsProofs.
From Coq Require Import Permutation.

Local Arguments bytes_eqb : simpl never.
Local Arguments print_version : simpl never.
Local Arguments dir_of : simpl never.
Local Arguments apply_op : simpl never.
Local Opaque print_version.

(* ---------------- the tail of Install from any state in which the plugin directory exists ---------------- *)
Lemma tail_safe : forall g i k t d,
  upgrade_ok g i -> db_repo d <> staging_name ->
  let f := crash ([Rename S (N i)] ++ ext_ops (apply_op g (Rename S (N i))) i) g k t in
  (startup_db f d = startup_db g d \/
   (startup_db f d = Ok (Some (i_version i)) /\ is_ok (startup_db g d) = true /\
    db_plugin d = i_name i /\ db_repo d = i_repo i /\ (0 < k)%nat))
  /\ (forall v c, binary_of g d v = Some (File c) -> binary_of f d v = Some (File c)).
Proof.
  intros g i k t d U Hd f. unfold f. clear f.
  destruct (u_P _ _ U) as [ns0 HP].
  pose proof (same_view_refl g ns0 HP) as VA.
  destruct k as [|k']; [simpl; split; [left; reflexivity|auto]|].
  simpl crash. set (g' := apply_op g (Rename S (N i))).
  destruct (startup_after_rename g i g d U VA) as [LH ST]. fold g' in LH, ST.
  assert (NEW : forall f, startup_db f d = startup_db g' d ->
            (forall q, under ext_path q = false -> under ext_tmp q = false -> q <> [] -> fs_get f q = fs_get g' q) ->
    (startup_db f d = startup_db g d \/
     (startup_db f d = Ok (Some (i_version i)) /\ is_ok (startup_db g d) = true /\
      db_plugin d = i_name i /\ db_repo d = i_repo i /\ (0 < Datatypes.S k')%nat))
    /\ (forall v c, binary_of g d v = Some (File c) -> binary_of f d v = Some (File c))).
  { intros f Hs Hq. split.
    - rewrite Hs. destruct ST as [ST|(S1 & S2 & S3 & S4)]; [left; exact ST|right]. repeat split; auto. lia.
    - intros v c H. unfold binary_of. rewrite binary_path_shape. rewrite Hq by (try reflexivity; discriminate).
      rewrite <- binary_path_shape. apply (binaries_after_rename g i g d v c U VA Hd H). }
  unfold ext_ops. fold g'. rewrite LH. destruct (load_handlers g) as [old|e|s] eqn:EL.
  - assert (OE : off_ext g' (crash (write_file ext_tmp (json_encode (merged_handlers old i)) ++ [Rename ext_tmp ext_path]) g' k' t)).
    { apply ext_phase.
      - intros ns. unfold g'. rewrite (ren_other g i g VA ext_tmp); try reflexivity; try discriminate. apply (u_tmp _ _ U).
      - apply (handlers_decode g i old (u_name_safe _ _ U) (u_exts_safe _ _ U) EL). }
    apply NEW; [apply off_ext_startup; [exact OE|rewrite LH; reflexivity]|apply OE].
  - replace (crash [] g' k' t) with g' by (destruct k'; reflexivity). apply NEW; auto.
  - replace (crash [] g' k' t) with g' by (destruct k'; reflexivity). apply NEW; auto.
Qed.

(* ---------------- the view while working below .staging, plugins/ possibly not existing yet ---------------- *)
Definition pvis (g : fs) : option (list bytes) :=
  match fs_get g P with
  | None => Some []
  | Some (Dir ns) => Some (filter nonstaging ns)
  | Some (File _) => None
  end.

Definition view2 (f0 f : fs) : Prop :=
  (forall q, under S q = false -> q <> P -> q <> [] -> fs_get f q = fs_get f0 q) /\
  pvis f = pvis f0 /\ pvis f0 <> None.

Lemma view2_refl : forall f0, pvis f0 <> None -> view2 f0 f0.
Proof. intros f0 H. split; [reflexivity|]. split; [reflexivity|exact H]. Qed.

Lemma tree_pvis : forall g, tree_of_fs g = match pvis g with None => Err e_list | Some rs => mapM (read_repo g) rs end.
Proof. intro g. unfold tree_of_fs, pvis. destruct (fs_get g P) as [[ns|c]|]; reflexivity. Qed.

Lemma pvis_nonstaging : forall g rs r, pvis g = Some rs -> In r rs -> r <> staging_name.
Proof.
  intros g rs r H Hr. unfold pvis in H. destruct (fs_get g P) as [[ns|c]|]; inversion H; subst; [|destruct Hr].
  apply filter_In in Hr. destruct Hr as [_ Hr]. unfold nonstaging in Hr. apply negb_true_iff in Hr.
  intro E. subst. rewrite bytes_eqb_refl in Hr. discriminate.
Qed.

Lemma read_repo_ext : forall f g r, (forall rest, fs_get f (s_plugins :: r :: rest) = fs_get g (s_plugins :: r :: rest)) ->
  read_repo f r = read_repo g r.
Proof.
  intros f g r H. unfold read_repo, read_dir. rewrite (H []).
  destruct (fs_get g [s_plugins; r]) as [[ds|c]|]; try reflexivity. simpl.
  replace (mapM (read_plugin f r) ds) with (mapM (read_plugin g r) ds); [reflexivity|].
  apply mapM_ext_in. intros d _. unfold read_plugin, read_dir. rewrite (H [d]). reflexivity.
Qed.

Lemma view2_get : forall f0 f q, view2 f0 f -> under S q = false -> q <> P -> q <> [] -> fs_get f q = fs_get f0 q.
Proof. intros f0 f q [V1 _]. apply V1. Qed.

Lemma view2_tree : forall f0 f, view2 f0 f -> tree_of_fs f = tree_of_fs f0.
Proof.
  intros f0 f [V1 [V2 V3]]. rewrite !tree_pvis. rewrite V2. destruct (pvis f0) as [rs|] eqn:E; [|reflexivity].
  apply mapM_ext_in. intros r Hr. apply read_repo_ext. intro rest.
  apply V1; [apply under_S_plugins; eapply pvis_nonstaging; eauto|discriminate|discriminate].
Qed.

Lemma view2_startup : forall f0 f d, view2 f0 f -> startup_db f d = startup_db f0 d.
Proof.
  intros f0 f d V. unfold startup_db, listing. rewrite (view2_tree _ _ V).
  unfold load_handlers. rewrite (view2_get f0 f ext_path V) by (try reflexivity; discriminate). reflexivity.
Qed.

Lemma pvis_S_op : forall g o, is_rename o = false -> subject o = S -> pvis (apply_op g o) = pvis g.
Proof.
  intros g o R E. unfold pvis.
  assert (PS : P <> S) by discriminate.
  destruct o as [p|p|p|p d|s d]; simpl in *; try discriminate; subst p; unfold apply_op.
  - destruct (fs_get g S); [reflexivity|]. unfold add_name. change (parent S) with P.
    rewrite get_set_other by exact PS.
    destruct (fs_get g P) as [[ns|c]|] eqn:EP; rewrite ?get_set_other by exact PS; rewrite ?EP; try reflexivity.
    destruct (existsb (bytes_eqb (base S)) ns).
    + rewrite get_set_other by exact PS. rewrite EP. reflexivity.
    + rewrite get_set_same. rewrite filter_nonstaging_add. reflexivity.
  - unfold del_name. change (parent S) with P. rewrite get_del_other by exact PS.
    destruct (fs_get g P) as [[ns|c]|] eqn:EP; rewrite ?get_del_other by exact PS; rewrite ?EP; try reflexivity.
    rewrite get_set_same. rewrite filter_nonstaging_del. reflexivity.
  - destruct (fs_get g S) as [[l|c]|]; [reflexivity|rewrite get_set_other by exact PS; reflexivity|].
    unfold add_name. change (parent S) with P. rewrite get_set_other by exact PS.
    destruct (fs_get g P) as [[ns|c]|] eqn:EP; rewrite ?get_set_other by exact PS; rewrite ?EP; try reflexivity.
    destruct (existsb (bytes_eqb (base S)) ns).
    + rewrite get_set_other by exact PS. rewrite EP. reflexivity.
    + rewrite get_set_same. rewrite filter_nonstaging_add. reflexivity.
  - destruct (fs_get g S) as [[l|c]|]; try reflexivity. rewrite get_set_other by exact PS. reflexivity.
Qed.

Lemma step2_under_S : forall f0 g o, view2 f0 g -> is_rename o = false -> under S (subject o) = true ->
  view2 f0 (apply_op g o).
Proof.
  intros f0 g o [V1 [V2 V3]] R U. split; [|split; [|exact V3]].
  - intros q Uq Nq Nr. rewrite <- (V1 q Uq Nq Nr). apply frame; [exact R| |].
    + intro E. subst. congruence.
    + destruct (parent_under_S _ U) as [E|E]; [rewrite E; exact Nq|intro E'; subst; congruence].
  - rewrite <- V2. destruct (parent_under_S _ U) as [E|E]; [apply pvis_S_op; assumption|].
    unfold pvis. rewrite frame; [reflexivity|exact R| |].
    + intro E'. rewrite <- E' in U. discriminate.
    + intro E'. rewrite <- E' in E. discriminate.
Qed.

Lemma keeps2_under_S : forall f0 o, is_rename o = false -> under S (subject o) = true -> keeps (view2 f0) o.
Proof.
  intros f0 o R U. split.
  - intros g Hg. apply step2_under_S; assumption.
  - intros p d n E g Hg. subst o. apply (step2_under_S f0 g (Write p (firstn n d))); assumption.
Qed.

Lemma mkdir_P_view2 : forall f0 g, view2 f0 g -> view2 f0 (apply_op g (Mkdir P)).
Proof.
  intros f0 g [V1 [V2 V3]]. unfold apply_op. destruct (fs_get g P) as [n|] eqn:EP; [split; [exact V1|split; assumption]|].
  split; [|split; [|exact V3]].
  - intros q Uq Nq Nr. rewrite get_add_name_other by (change (parent P) with (@nil bytes); exact Nr).
    rewrite get_set_other by exact Nq. apply V1; assumption.
  - rewrite <- V2. unfold pvis at 1. rewrite get_add_name_other by discriminate. rewrite get_set_same.
    unfold pvis. rewrite EP. reflexivity.
Qed.

Lemma keeps2_mkdir_P : forall f0, keeps (view2 f0) (Mkdir P).
Proof. intro f0. split; [intros g Hg; apply mkdir_P_view2; exact Hg|intros; discriminate]. Qed.

Lemma remove_all_keeps2 : forall f0 f, Forall (keeps (view2 f0)) (remove_all f S).
Proof.
  intros f0 f. unfold remove_all. apply Forall_forall. intros o Ho. apply in_map_iff in Ho. destruct Ho as (p & E & Hp). subst o.
  apply in_sort_paths in Hp. apply in_map_iff in Hp. destruct Hp as ([q n] & E & Hq). simpl in E. subst q.
  apply filter_In in Hq. destruct Hq as [_ Hq]. simpl in Hq. apply keeps2_under_S; [reflexivity|exact Hq].
Qed.

(* everything up to and including the first mkdir of MkdirAll(plugin directory) *)
Definition phaseA1 (f0 : fs) (i : install) : list fs_op :=
  remove_all f0 S ++ mkdir_all S ++ [Create (S ++ [s_archive]); Write (S ++ [s_archive]) (i_archive i)]
  ++ unarchive_ops S (i_members i) ++ [Unlink (S ++ [s_archive])] ++ [Mkdir P].

Lemma phaseA_split : forall f0 i, phaseA f0 i = phaseA1 f0 i ++ [Mkdir [s_plugins; i_repo i]; Mkdir (PD i)].
Proof. intros. unfold phaseA, phaseA1. rewrite <- !app_assoc. reflexivity. Qed.

Lemma phaseA1_keeps : forall f0 i, Forall (keeps (view2 f0)) (phaseA1 f0 i).
Proof.
  intros f0 i. unfold phaseA1.
  apply Forall_app; split; [apply remove_all_keeps2|].
  apply Forall_app; split.
  { change (mkdir_all S) with [Mkdir P; Mkdir S].
    constructor; [apply keeps2_mkdir_P|]. constructor; [apply keeps2_under_S; reflexivity|constructor]. }
  apply Forall_app; split.
  { constructor; [apply keeps2_under_S; [reflexivity|apply under_app]|].
    constructor; [apply keeps2_under_S; [reflexivity|apply under_app]|constructor]. }
  apply Forall_app; split.
  { unfold unarchive_ops. apply Forall_concat. apply Forall_forall. intros l Hl. apply in_map_iff in Hl. destruct Hl as (m & E & _). subst l.
    constructor; [apply keeps2_under_S; [reflexivity|apply under_app]|].
    constructor; [apply keeps2_under_S; [reflexivity|apply under_app]|constructor]. }
  apply Forall_app; split.
  { constructor; [apply keeps2_under_S; [reflexivity|apply under_app]|constructor]. }
  constructor; [apply keeps2_mkdir_P|constructor].
Qed.

(* ---------------- creating an empty repository / plugin directory is invisible to start-up ---------------- *)
Lemma obind_ret : forall {A} (o : outcome A), obind o (fun x => Ok x) = o.
Proof. destruct o; reflexivity. Qed.

Lemma listed_empty_repo : forall r t, r <> staging_name -> listed ((r, []) :: t) = listed t.
Proof.
  intros r t H. unfold listed. simpl. destruct (bytes_eqb staging_name r) eqn:E; [apply bytes_eqb_eq in E; congruence|].
  simpl. destruct (listed_with plugin_name (bytes_eqb staging_name) t); reflexivity.
Qed.

Lemma mkdir_repo_invisible : forall g r ns,
  r <> staging_name -> fs_get g [s_plugins; r] = None -> fs_get g P = Some (Dir ns) -> ~ In r ns ->
  let h := apply_op g (Mkdir [s_plugins; r]) in
  (forall q, q <> P -> q <> [s_plugins; r] -> fs_get h q = fs_get g q) /\
  fs_get h P = Some (Dir (r :: ns)) /\ fs_get h [s_plugins; r] = Some (Dir []) /\
  listing h = listing g.
Proof.
  intros g r ns NS Hn HP Hin h.
  assert (Hh : h = fs_set (fs_set g [s_plugins; r] (Dir [])) P (Dir (r :: ns))).
  { unfold h, apply_op. rewrite Hn. unfold add_name. change (parent [s_plugins; r]) with P. change (base [s_plugins; r]) with r.
    rewrite get_set_other by discriminate. rewrite HP. rewrite existsb_notin by exact Hin. reflexivity. }
  assert (G : forall q, q <> P -> q <> [s_plugins; r] -> fs_get h q = fs_get g q).
  { intros q H1 H2. rewrite Hh. rewrite get_set_other by exact H1. apply get_set_other. exact H2. }
  assert (GP : fs_get h P = Some (Dir (r :: ns))) by (rewrite Hh; apply get_set_same).
  assert (GR : fs_get h [s_plugins; r] = Some (Dir [])).
  { rewrite Hh. rewrite get_set_other by discriminate. apply get_set_same. }
  split; [exact G|]. split; [exact GP|]. split; [exact GR|].
  unfold listing. rewrite !tree_pvis. unfold pvis. rewrite GP, HP.
  assert (NSb : nonstaging r = true).
  { unfold nonstaging. destruct (bytes_eqb staging_name r) eqn:E; [apply bytes_eqb_eq in E; congruence|reflexivity]. }
  simpl filter. rewrite NSb. simpl mapM.
  assert (RR : read_repo h r = Ok (r, [])) by (unfold read_repo, read_dir; rewrite GR; reflexivity).
  rewrite RR. simpl.
  replace (mapM (read_repo h) (filter nonstaging ns)) with (mapM (read_repo g) (filter nonstaging ns)).
  - destruct (mapM (read_repo g) (filter nonstaging ns)); simpl; try reflexivity. apply listed_empty_repo. exact NS.
  - apply mapM_ext_in. intros r' Hr'. apply filter_In in Hr'. destruct Hr' as [Hr' _]. symmetry. apply read_repo_ext.
    intro rest. apply G; [discriminate|]. intro E. inversion E. subst. contradiction.
Qed.

(* l' is l with some elements satisfying Q inserted *)
Inductive Ins {A} (Q : A -> Prop) : list A -> list A -> Prop :=
| Ins_nil : Ins Q [] []
| Ins_keep : forall x l l', Ins Q l l' -> Ins Q (x :: l) (x :: l')
| Ins_new : forall e l l', Q e -> Ins Q l l' -> Ins Q l (e :: l').

Lemma Ins_refl : forall {A} (Q : A -> Prop) l, Ins Q l l.
Proof. induction l; constructor; auto. Qed.
Lemma Ins_app : forall {A} (Q : A -> Prop) a a' b b', Ins Q a a' -> Ins Q b b' -> Ins Q (a ++ b) (a' ++ b').
Proof. intros A Q a a' b b' H1 H2. induction H1; simpl; try constructor; auto. Qed.

Section NewPluginDir.
  Variables (r d : bytes).
  Definition newmd (e : plugin_md) : Prop := md_name e = plugin_name d /\ md_repo e = r /\ md_versions e = [].
  Definition tree_ins (a b : bytes * list (bytes * list bytes)) : Prop :=
    fst a = fst b /\ (snd b = snd a \/ (fst a = r /\ snd b = (d, []) :: snd a)).

  Lemma listed_ins : forall t t', Forall2 tree_ins t t' -> orel (Ins newmd) (listed t) (listed t').
  Proof.
    intros t t' H. unfold listed. induction H as [|[r1 ps] [r2 ps'] t t' [E1 E2] _ IH]; simpl; [constructor|].
    simpl in E1, E2. subst r2. destruct (bytes_eqb staging_name r1); [exact IH|].
    destruct E2 as [E2|[Er E2]]; subst ps'.
    - destruct (list_plugins plugin_name r1 ps); simpl; auto.
      destruct (listed_with plugin_name (bytes_eqb staging_name) t), (listed_with plugin_name (bytes_eqb staging_name) t');
        simpl in *; try contradiction; auto.
      apply Ins_app; [apply Ins_refl|exact IH].
    - subst r1. simpl. destruct (list_plugins plugin_name r ps); simpl; auto.
      destruct (listed_with plugin_name (bytes_eqb staging_name) t), (listed_with plugin_name (bytes_eqb staging_name) t');
        simpl in *; try contradiction; auto.
      apply Ins_new; [repeat split|]. apply Ins_app; [apply Ins_refl|exact IH].
  Qed.

  Lemma resolve_ins : forall l l' n r0 c, Ins newmd l l' ->
    (forall e, In e l -> ref_is (plugin_name d) r e = false) ->
    resolve l' n r0 c = resolve l n r0 c.
  Proof.
    intros l l' n r0 c H Hno. unfold resolve.
    destruct (bytes_eqb (plugin_name d) n && bytes_eqb r r0) eqn:M.
    - (* the database is of the new plugin: nothing resolved before, nothing resolves now *)
      apply andb_true_iff in M. destruct M as [M1 M2]. apply bytes_eqb_eq in M1. apply bytes_eqb_eq in M2. subst n r0.
      assert (B : find (ref_is (plugin_name d) r) l = None).
      { clear H. induction l as [|x l IHl]; [reflexivity|]. simpl. rewrite (Hno x) by (left; reflexivity).
        apply IHl. intros e He. apply Hno. right. exact He. }
      rewrite B.
      induction H as [|x l l' H IH|e l l' [Q1 [Q2 Q3]] H IH]; simpl; [reflexivity| |].
      + simpl in B. destruct (ref_is (plugin_name d) r x) eqn:Ex; [rewrite (Hno x) in Ex by (left; reflexivity); discriminate|].
        apply IH; [intros e He; apply Hno; right; exact He|exact B].
      + unfold ref_is at 1. rewrite Q1, Q2, !bytes_eqb_refl. simpl. rewrite Q3. reflexivity.
    - induction H as [|x l l' H IH|e l l' [Q1 [Q2 Q3]] H IH]; simpl; [reflexivity| |].
      + destruct (ref_is n r0 x); [reflexivity|]. apply IH. intros e He. apply Hno. right. exact He.
      + unfold ref_is at 1. rewrite Q1, Q2, M. apply IH. exact Hno.
  Qed.
End NewPluginDir.

Lemma mapM_in : forall {A B} (g : A -> outcome B) xs ys y, mapM g xs = Ok ys -> In y ys -> exists x, In x xs /\ g x = Ok y.
Proof.
  induction xs as [|x xs IH]; intros ys y H Hy; simpl in H; [inversion H; subst; destruct Hy|].
  destruct (g x) as [b|e|s] eqn:E; simpl in H; try discriminate.
  destruct (mapM g xs) as [bs|e|s] eqn:E'; simpl in H; try discriminate. inversion H; subst.
  destruct Hy as [Hy|Hy]; [subst; exists x; split; [left; reflexivity|exact E]|].
  destruct (IH bs y eq_refl Hy) as (x' & H1 & H2). exists x'. split; [right; exact H1|exact H2].
Qed.

Lemma mapM_fst : forall g r ds ps, mapM (read_plugin g r) ds = Ok ps -> map fst ps = ds.
Proof.
  induction ds as [|d ds IH]; intros ps H; simpl in H; [inversion H; reflexivity|].
  unfold read_plugin at 1 in H. destruct (read_dir g [s_plugins; r; d]); simpl in H; try discriminate.
  destruct (mapM (read_plugin g r) ds) eqn:E; simpl in H; try discriminate. inversion H; subst. simpl. f_equal. apply IH. reflexivity.
Qed.

Lemma list_plugins_origin : forall r ps l e, list_plugins plugin_name r ps = Ok l -> In e l ->
  md_repo e = r /\ exists d vs, In (d, vs) ps /\ md_name e = plugin_name d.
Proof.
  induction ps as [|[d vs] ps IH]; intros l e H He; simpl in H; [inversion H; subst; destruct He|].
  destruct (parse_versions vs); simpl in H; try discriminate.
  destruct (list_plugins plugin_name r ps) eqn:E; simpl in H; try discriminate. inversion H; subst.
  destruct He as [He|He].
  - subst e. simpl. split; [reflexivity|]. exists d, vs. split; [left; reflexivity|reflexivity].
  - destruct (IH a0 e eq_refl He) as (R1 & d' & vs' & I1 & I2). split; [exact R1|]. exists d', vs'. split; [right; exact I1|exact I2].
Qed.

Lemma listed_origin : forall t l e, listed t = Ok l -> In e l ->
  exists ps d vs, In (md_repo e, ps) t /\ In (d, vs) ps /\ md_name e = plugin_name d.
Proof.
  unfold listed. induction t as [|[r ps] t IH]; intros l e H He; simpl in H; [inversion H; subst; destruct He|].
  destruct (bytes_eqb staging_name r).
  - destruct (IH l e H He) as (ps' & d & vs & I1 & I2 & I3). exists ps', d, vs. split; [right; exact I1|auto].
  - destruct (list_plugins plugin_name r ps) eqn:E1; simpl in H; try discriminate.
    destruct (listed_with plugin_name (bytes_eqb staging_name) t) eqn:E2; simpl in H; try discriminate.
    inversion H; subst. apply in_app_or in He. destruct He as [He|He].
    + destruct (list_plugins_origin r ps a e E1 He) as (R1 & d & vs & I1 & I2). exists ps, d, vs. rewrite R1. split; [left; reflexivity|auto].
    + destruct (IH a0 e eq_refl He) as (ps' & d & vs & I1 & I2 & I3). exists ps', d, vs. split; [right; exact I1|auto].
Qed.

Lemma mkdir_plugin_invisible : forall g r d ds,
  r <> staging_name -> fs_get g [s_plugins; r; d] = None -> fs_get g [s_plugins; r] = Some (Dir ds) -> ~ In d ds ->
  (forall d', In d' ds -> plugin_name d' <> plugin_name d) ->
  let h := apply_op g (Mkdir [s_plugins; r; d]) in
  (forall q, q <> [s_plugins; r] -> q <> [s_plugins; r; d] -> fs_get h q = fs_get g q) /\
  fs_get h [s_plugins; r] = Some (Dir (d :: ds)) /\ fs_get h [s_plugins; r; d] = Some (Dir []) /\
  forall db, startup_db h db = startup_db g db.
Proof.
  intros g r d ds NS Hn HR Hin Hnames h.
  assert (Hh : h = fs_set (fs_set g [s_plugins; r; d] (Dir [])) [s_plugins; r] (Dir (d :: ds))).
  { unfold h, apply_op. rewrite Hn. unfold add_name. change (parent [s_plugins; r; d]) with [s_plugins; r]. change (base [s_plugins; r; d]) with d.
    rewrite get_set_other by discriminate. rewrite HR. rewrite existsb_notin by exact Hin. reflexivity. }
  assert (G : forall q, q <> [s_plugins; r] -> q <> [s_plugins; r; d] -> fs_get h q = fs_get g q).
  { intros q H1 H2. rewrite Hh. rewrite get_set_other by exact H1. apply get_set_other. exact H2. }
  assert (GR : fs_get h [s_plugins; r] = Some (Dir (d :: ds))) by (rewrite Hh; apply get_set_same).
  assert (GD : fs_get h [s_plugins; r; d] = Some (Dir [])).
  { rewrite Hh. rewrite get_set_other by discriminate. apply get_set_same. }
  split; [exact G|]. split; [exact GR|]. split; [exact GD|].
  intro db. unfold startup_db.
  assert (LH : load_handlers h = load_handlers g) by (unfold load_handlers; rewrite G by discriminate; reflexivity).
  rewrite LH.
  assert (PV : pvis h = pvis g) by (unfold pvis; rewrite G by discriminate; reflexivity).
  (* the trees *)
  assert (TR : forall rs, orel (Forall2 (tree_ins r d)) (mapM (read_repo g) rs) (mapM (read_repo h) rs)).
  { intro rs. apply mapM_rel. intros r' _. destruct (bytes_eqb r' r) eqn:E.
    - apply bytes_eqb_eq in E. subst r'. unfold read_repo, read_dir. rewrite GR, HR. simpl.
      assert (RD : read_plugin h r d = Ok (d, [])) by (unfold read_plugin, read_dir; rewrite GD; reflexivity).
      rewrite RD. simpl.
      replace (mapM (read_plugin h r) ds) with (mapM (read_plugin g r) ds).
      + destruct (mapM (read_plugin g r) ds); simpl; auto. unfold tree_ins. simpl. auto.
      + apply mapM_ext_in. intros d' Hd'. unfold read_plugin, read_dir. rewrite G; [reflexivity|discriminate|].
        intro E. inversion E. subst. contradiction.
    - assert (NE : r' <> r) by (intro; subst; rewrite bytes_eqb_refl in E; discriminate).
      replace (read_repo h r') with (read_repo g r').
      + destruct (read_repo g r') as [[a b]|e|s]; simpl; auto. unfold tree_ins. simpl. auto.
      + symmetry. apply read_repo_ext. intro rest. apply G; intro E'; inversion E'; congruence. }
  unfold listing. rewrite !tree_pvis. rewrite PV. destruct (pvis g) as [rs|] eqn:EP; [|reflexivity].
  specialize (TR rs).
  destruct (mapM (read_repo g) rs) as [t|e|s] eqn:ET, (mapM (read_repo h) rs) as [t'|e'|s']; simpl in TR; try contradiction; subst; auto.
  simpl. pose proof (listed_ins r d t t' TR) as LI.
  destruct (listed t) as [l|e|s] eqn:EL, (listed t') as [l'|e'|s']; simpl in LI; try contradiction; subst; auto.
  simpl. destruct (load_handlers g); simpl; auto. f_equal.
  apply (resolve_ins r d l l'); [exact LI|].
  intros e He. unfold ref_is. destruct (bytes_eqb (md_repo e) r) eqn:ER; [|rewrite andb_false_r; reflexivity].
  apply bytes_eqb_eq in ER. rewrite andb_true_r. apply bytes_eqb_neq.
  destruct (listed_origin t l e EL He) as (ps & d' & vs & I1 & I2 & I3). rewrite ER in I1.
  destruct (mapM_in _ _ _ _ ET I1) as (r' & _ & RR).
  unfold read_repo, read_dir in RR. destruct (fs_get g [s_plugins; r']) as [[ds'|c]|] eqn:ER'; simpl in RR; try discriminate.
  destruct (mapM (read_plugin g r') ds') eqn:EM; simpl in RR; try discriminate. inversion RR; subst.
  rewrite HR in ER'. inversion ER'; subst ds'. apply mapM_fst in EM.
  rewrite I3. apply Hnames. rewrite <- EM. apply in_map_iff. exists (d', vs). auto.
Qed.

(* ---------------- the first installation of a plugin ---------------- *)
Record first_ok (f0 : fs) (i : install) : Prop := {
  f_P : pvis f0 <> None;                                      (* plugins/ is absent or a directory *)
  f_repo : (exists ds, fs_get f0 [s_plugins; i_repo i] = Some (Dir ds) /\ ~ In (dir_of (i_name i)) ds /\
              forall d', In d' ds -> plugin_name d' <> i_name i)
           \/ (fs_get f0 [s_plugins; i_repo i] = None /\ forall rs, pvis f0 = Some rs -> ~ In (i_repo i) rs);
  f_pd : fs_get f0 (PD i) = None;                             (* the plugin has no directory yet *)
  f_fresh : forall q, under (N i) q = true -> fs_get f0 q = None;
  f_nostage : i_repo i <> staging_name;
  f_parse : parse_version (ver_name i) = Some (i_version i);
  f_tmp : forall ns, fs_get f0 ext_tmp <> Some (Dir ns);
  f_name_safe : safe_str (i_name i) = true;
  f_exts_safe : forallb safe_str (i_exts i) = true }.

Lemma mkdir_P_some : forall g, fs_get (apply_op g (Mkdir P)) P <> None.
Proof.
  intro g. unfold apply_op. destruct (fs_get g P) eqn:E; [congruence|].
  rewrite get_add_name_other by discriminate. rewrite get_set_same. discriminate.
Qed.

Lemma mkdir_noop : forall g p n, fs_get g p = Some n -> apply_op g (Mkdir p) = g.
Proof. intros g p n H. unfold apply_op. rewrite H. reflexivity. Qed.

Definition first_gA (f0 : fs) (i : install) : fs := run_ops (phaseA1 f0 i) f0.
Definition first_g1 (f0 : fs) (i : install) : fs := apply_op (first_gA f0 i) (Mkdir [s_plugins; i_repo i]).
Definition first_g2 (f0 : fs) (i : install) : fs := apply_op (first_g1 f0 i) (Mkdir (PD i)).

Lemma first_prep : forall f0 i, first_ok f0 i ->
  view2 f0 (first_gA f0 i) /\
  (forall db, startup_db (first_g1 f0 i) db = startup_db f0 db) /\
  (forall db, startup_db (first_g2 f0 i) db = startup_db f0 db) /\
  (forall q, q <> P -> q <> [s_plugins; i_repo i] -> q <> PD i ->
     fs_get (first_g1 f0 i) q = fs_get (first_gA f0 i) q /\ fs_get (first_g2 f0 i) q = fs_get (first_gA f0 i) q) /\
  upgrade_ok (first_g2 f0 i) i /\
  run_ops (phaseA f0 i) f0 = first_g2 f0 i.
Proof.
  intros f0 i F.
  pose proof (phaseA1_keeps f0 i) as KA.
  pose proof (view2_refl f0 (f_P _ _ F)) as V0.
  set (gA := first_gA f0 i).
  assert (EgA : gA = run_ops (phaseA1 f0 i) f0) by reflexivity.
  assert (VA : view2 f0 gA) by (rewrite EgA; apply run_keeps; assumption).
  (* plugins/ exists after phase A1 *)
  assert (PA : exists nsA, fs_get gA P = Some (Dir nsA) /\ pvis f0 = Some (filter nonstaging nsA)).
  { assert (NN : fs_get gA P <> None).
    { rewrite EgA. unfold phaseA1. rewrite !app_assoc. rewrite run_app. apply mkdir_P_some. }
    destruct VA as [_ [V2 V3]]. unfold pvis at 1 in V2. destruct (fs_get gA P) as [[nsA|c]|]; try congruence.
    exists nsA. auto. }
  destruct PA as (nsA & PA & PV0).
  assert (GA : forall q, under S q = false -> q <> P -> q <> [] -> fs_get gA q = fs_get f0 q) by (apply VA).
  assert (NSr : forall rest, under S (s_plugins :: i_repo i :: rest) = false) by (intro; apply under_S_plugins; apply (f_nostage _ _ F)).
  set (g1 := first_g1 f0 i).
  set (g2 := first_g2 f0 i).
  assert (Eg1 : g1 = apply_op gA (Mkdir [s_plugins; i_repo i])) by reflexivity.
  assert (Eg2 : g2 = apply_op g1 (Mkdir (PD i))) by reflexivity.
  (* what the two mkdirs do *)
  assert (M : (forall db, startup_db g1 db = startup_db f0 db) /\ (forall db, startup_db g2 db = startup_db f0 db) /\
              (forall q, q <> P -> q <> [s_plugins; i_repo i] -> q <> PD i -> fs_get g1 q = fs_get gA q /\ fs_get g2 q = fs_get gA q) /\
              (exists ns, fs_get g2 P = Some (Dir ns)) /\ fs_get g2 [s_plugins; i_repo i] <> None /\ fs_get g2 (PD i) = Some (Dir [])).
  { assert (PDA : fs_get gA (PD i) = None) by (rewrite GA; [apply (f_pd _ _ F)|apply NSr|discriminate|discriminate]).
    destruct (f_repo _ _ F) as [(ds & HR & Hin & Hnm)|[HR Hnr]].
    - (* the repository directory exists *)
      assert (RA : fs_get gA [s_plugins; i_repo i] = Some (Dir ds)) by (rewrite GA; [exact HR|apply NSr|discriminate|discriminate]).
      assert (E1 : g1 = gA) by (apply (mkdir_noop gA _ _ RA)).
      destruct (mkdir_plugin_invisible gA (i_repo i) (dir_of (i_name i)) ds (f_nostage _ _ F) PDA RA Hin) as (G & GR & GD & ST).
      { intros d' Hd'. rewrite plugin_name_dir_of'. apply Hnm. exact Hd'. }
      fold (PD i) in G, GR, GD, ST. rewrite <- E1 in G, GR, GD, ST. rewrite <- Eg2 in G, GR, GD, ST.
      split; [intro db; rewrite E1; apply view2_startup; exact VA|].
      split; [intro db; rewrite ST; rewrite E1; apply view2_startup; exact VA|].
      split; [intros q H1 H2 H3; split; [rewrite E1; reflexivity|rewrite G by assumption; rewrite E1; reflexivity]|].
      split; [exists nsA; rewrite G by discriminate; rewrite E1; exact PA|].
      split; [rewrite GR; discriminate|exact GD].
    - (* the repository directory is created too *)
      assert (RA : fs_get gA [s_plugins; i_repo i] = None) by (rewrite GA; [exact HR|apply NSr|discriminate|discriminate]).
      assert (NI : ~ In (i_repo i) nsA).
      { intro H. apply (Hnr _ PV0). apply filter_In. split; [exact H|]. unfold nonstaging.
        destruct (bytes_eqb staging_name (i_repo i)) eqn:E; [apply bytes_eqb_eq in E; exfalso; apply (f_nostage _ _ F); congruence|reflexivity]. }
      destruct (mkdir_repo_invisible gA (i_repo i) nsA (f_nostage _ _ F) RA PA NI) as (G1 & GP1 & GR1 & L1). rewrite <- Eg1 in G1, GP1, GR1, L1.
      assert (PD1 : fs_get g1 (PD i) = None) by (rewrite G1 by discriminate; exact PDA).
      destruct (mkdir_plugin_invisible g1 (i_repo i) (dir_of (i_name i)) [] (f_nostage _ _ F) PD1 GR1) as (G & GR & GD & ST);
        [intros []|intros d' []|].
      fold (PD i) in G, GR, GD, ST. rewrite <- Eg2 in G, GR, GD, ST.
      assert (S1 : forall db, startup_db g1 db = startup_db f0 db).
      { intro db. rewrite <- (view2_startup f0 gA db VA). unfold startup_db. rewrite L1.
        unfold load_handlers. rewrite G1 by discriminate. reflexivity. }
      split; [exact S1|]. split; [intro db; rewrite ST; apply S1|].
      split; [intros q H1 H2 H3; split; [apply G1; assumption|rewrite G by assumption; apply G1; assumption]|].
      split; [eexists; rewrite G by discriminate; exact GP1|].
      split; [rewrite GR; discriminate|exact GD]. }
  destruct M as (S1 & S2 & GG & P2 & R2 & D2).
  (* the plugin directory exists now: the rest is the upgrade case started from g2 *)
  assert (U2 : upgrade_ok g2 i).
  { constructor.
    - exact P2.
    - exact R2.
    - exists []. split; [exact D2|intros []].
    - intros q Hq. destruct (under_N_inv i q Hq) as [r E]. subst q.
      destruct (GG (N i ++ r)) as [_ G2]; try (unfold N; simpl; discriminate).
      rewrite G2. rewrite GA; [apply (f_fresh _ _ F); exact Hq|apply NSr|unfold N; simpl; discriminate|unfold N; simpl; discriminate].
    - apply (f_nostage _ _ F).
    - apply (f_parse _ _ F).
    - intros ns. destruct (GG ext_tmp) as [_ G2]; try discriminate. rewrite G2. rewrite GA; [apply (f_tmp _ _ F)|reflexivity|discriminate|discriminate].
    - apply (f_name_safe _ _ F).
    - apply (f_exts_safe _ _ F). }
  assert (FA : run_ops (phaseA f0 i) f0 = g2).
  { rewrite phaseA_split. rewrite run_app. reflexivity. }
  split; [exact VA|]. split; [exact S1|]. split; [exact S2|]. split; [exact GG|]. split; [exact U2|].
  rewrite phaseA_split. rewrite run_app. reflexivity.
Qed.

Theorem install_first_crash_safe : forall f0 i k t d,
  first_ok f0 i -> db_repo d <> staging_name ->
  let f := crash (install_ops f0 i) f0 k t in
  (startup_db f d = startup_db f0 d \/
   (startup_db f d = Ok (Some (i_version i)) /\ is_ok (startup_db f0 d) = true /\
    db_plugin d = i_name i /\ db_repo d = i_repo i /\ (length (phaseA f0 i) < k)%nat))
  /\ (forall v c, binary_of f0 d v = Some (File c) -> binary_of f d v = Some (File c)).
Proof.
  intros f0 i k t d F Hd f. unfold f. clear f.
  destruct (first_prep f0 i F) as (VA & S1 & S2 & GG & U2 & FA).
  set (gA := first_gA f0 i) in *. set (g1 := first_g1 f0 i) in *. set (g2 := first_g2 f0 i) in *.
  assert (GA : forall q, under S q = false -> q <> P -> q <> [] -> fs_get gA q = fs_get f0 q) by (apply VA).
  pose proof (phaseA1_keeps f0 i) as KA.
  pose proof (view2_refl f0 (f_P _ _ F)) as V0.
  (* binaries and the temporary file are where they were *)
  assert (BIN : forall g, (forall q, q <> P -> q <> [s_plugins; i_repo i] -> q <> PD i -> fs_get g q = fs_get gA q) ->
            forall v c, binary_of f0 d v = Some (File c) -> binary_of g d v = Some (File c)).
  { intros g Hg v c H. unfold binary_of in *. rewrite binary_path_shape in *. rewrite Hg by discriminate.
    rewrite GA; [exact H|apply under_S_plugins; exact Hd|discriminate|discriminate]. }
  assert (OLD : forall g, startup_db g d = startup_db f0 d ->
            (forall q, q <> P -> q <> [s_plugins; i_repo i] -> q <> PD i -> fs_get g q = fs_get gA q) ->
    (startup_db g d = startup_db f0 d \/
     (startup_db g d = Ok (Some (i_version i)) /\ is_ok (startup_db f0 d) = true /\
      db_plugin d = i_name i /\ db_repo d = i_repo i /\ (length (phaseA f0 i) < k)%nat))
    /\ (forall v c, binary_of f0 d v = Some (File c) -> binary_of g d v = Some (File c))).
  { intros g Hs Hg. split; [left; exact Hs|apply BIN; exact Hg]. }
  assert (O7 : remove_all g2 (N i) = []) by (apply remove_all_nil; apply (u_fresh _ _ U2)).
  rewrite install_ops_split. rewrite FA. rewrite O7. simpl app.
  rewrite phaseA_split in OLD. rewrite phaseA_split. rewrite <- app_assoc.
  destruct (Nat.lt_ge_cases k (length (phaseA1 f0 i))) as [Lt|Ge].
  - rewrite crash_app_lt by exact Lt.
    assert (VK : view2 f0 (crash (phaseA1 f0 i) f0 k t)) by (apply crash_keeps; assumption).
    split; [left; apply view2_startup; exact VK|].
    intros v c H. unfold binary_of in *. rewrite binary_path_shape in *.
    rewrite (view2_get f0 _ _ VK); [exact H|apply under_S_plugins; exact Hd|discriminate|discriminate].
  - rewrite crash_app_ge by exact Ge. fold gA.
    assert (LA : length (phaseA1 f0 i ++ [Mkdir [s_plugins; i_repo i]; Mkdir (PD i)]) = (length (phaseA1 f0 i) + 2)%nat)
      by (rewrite app_length; reflexivity).
    destruct (k - length (phaseA1 f0 i))%nat as [|[|k2]] eqn:EK.
    + simpl. apply OLD; [apply view2_startup; exact VA|auto].
    + simpl. fold g1. apply OLD; [apply S1|intros q H1 H2 H3; apply GG; assumption].
    + simpl crash. fold g1. fold g2.
      match goal with |- context [startup_db ?X d = startup_db f0 d] => set (fX := X) end.
      assert (EX : fX = crash ([Rename S (N i)] ++ ext_ops (apply_op g2 (Rename S (N i))) i) g2 k2 t) by reflexivity.
      rewrite EX. clear EX fX.
      destruct (tail_safe g2 i k2 t d U2 Hd) as [T1 T2]. split.
      * destruct T1 as [T1|(A1 & A2 & A3 & A4 & A5)]; [left; rewrite T1; apply S2|right].
        rewrite S2 in A2. repeat split; auto. rewrite LA. lia.
      * intros v c H. apply T2. apply (BIN g2); [intros q H1 H2 H3; apply GG; assumption|exact H].
Qed.

(* the hypotheses hold when core/json is installed for the first time next to core/pg 1.0.0, and also when not even
   plugins/ exists *)
Module Witness2.
  Definition b_pg : bytes := [112;103].
  Definition f1 : fs :=
    [ ([s_plugins], Dir [Witness.b_core]);
      ([s_plugins; Witness.b_core], Dir [dir_of b_pg]);
      ([s_plugins; Witness.b_core; dir_of b_pg], Dir [print_version Witness.v100]);
      (version_dir Witness.b_core b_pg Witness.v100, Dir [dir_of b_pg]);
      (binary_path Witness.b_core b_pg Witness.v100, File Witness.bin1) ].
  Definition dbpg := mkDB [100;98] b_pg Witness.b_core None.
End Witness2.

Lemma first_ok_witness : first_ok Witness2.f1 Witness.inst200.
Proof.
  constructor.
  - vm_compute. discriminate.
  - left. eexists. split; [reflexivity|]. split.
    + vm_compute. intros [H|[]]. discriminate H.
    + intros d' [H|[]]. subst d'. vm_compute. discriminate.
  - reflexivity.
  - intros q H. destruct (fs_get Witness2.f1 q) eqn:E; [|reflexivity]. exfalso. apply get_some_key in E. simpl in E.
    repeat (destruct E as [E|E]; [subst q; vm_compute in H; discriminate H|]). exact E.
  - vm_compute. discriminate.
  - vm_compute. reflexivity.
  - intros ns. vm_compute. discriminate.
  - reflexivity.
  - reflexivity.
Qed.

Lemma first_ok_empty : first_ok [] Witness.inst200.
Proof.
  constructor.
  - vm_compute. discriminate.
  - right. split; [reflexivity|]. intros rs H. vm_compute in H. inversion H. intros [].
  - reflexivity.
  - reflexivity.
  - vm_compute. discriminate.
  - vm_compute. reflexivity.
  - intros ns. vm_compute. discriminate.
  - reflexivity.
  - reflexivity.
Qed.

Lemma first_witness_result :
  startup_db Witness2.f1 Witness2.dbpg = Ok (Some Witness.v100) /\
  startup_db (crash (install_ops Witness2.f1 Witness.inst200) Witness2.f1 10 0) Witness2.dbpg = Ok (Some Witness.v100) /\
  startup_db (crash (install_ops Witness2.f1 Witness.inst200) Witness2.f1 (length (install_ops Witness2.f1 Witness.inst200)) 0) Witness.db
    = Ok (Some Witness.v200).
Proof. vm_compute. repeat split; reflexivity. Qed.

(* ---------------- re-installation: everything before the first removal of the old copy is safe ---------------- *)
(* the finding class reinstall-window starts exactly after this theorem's range of crash points *)
Record dirs_ok (f0 : fs) (i : install) : Prop := {
  d_P : exists ns0, fs_get f0 P = Some (Dir ns0);
  d_repo : fs_get f0 [s_plugins; i_repo i] <> None;
  d_dir : fs_get f0 (PD i) <> None;
  d_nostage : i_repo i <> staging_name }.

Lemma phaseA_keeps_dirs : forall f0 i, dirs_ok f0 i -> Forall (keeps (same_view f0)) (phaseA f0 i).
Proof.
  intros f0 i U. unfold phaseA. destruct (d_P _ _ U) as [ns0 HP].
  apply Forall_app; split; [apply remove_all_keeps|].
  apply Forall_app; split.
  { change (mkdir_all S) with [Mkdir P; Mkdir S].
    constructor; [apply keeps_mkdir_existing; [reflexivity|congruence]|].
    constructor; [apply keeps_under_S; reflexivity|constructor]. }
  apply Forall_app; split.
  { constructor; [apply keeps_under_S; [reflexivity|apply under_app]|].
    constructor; [apply keeps_under_S; [reflexivity|apply under_app]|constructor]. }
  apply Forall_app; split.
  { unfold unarchive_ops. apply Forall_concat. apply Forall_forall. intros l Hl. apply in_map_iff in Hl. destruct Hl as (m & E & _). subst l.
    constructor; [apply keeps_under_S; [reflexivity|apply under_app]|].
    constructor; [apply keeps_under_S; [reflexivity|apply under_app]|constructor]. }
  apply Forall_app; split.
  { constructor; [apply keeps_under_S; [reflexivity|apply under_app]|constructor]. }
  change (mkdir_all (parent (N i))) with [Mkdir P; Mkdir [s_plugins; i_repo i]; Mkdir (PD i)].
  constructor; [apply keeps_mkdir_existing; [reflexivity|congruence]|].
  constructor; [apply keeps_mkdir_existing; [apply under_S_plugins; apply (d_nostage _ _ U)|apply (d_repo _ _ U)]|].
  constructor; [apply keeps_mkdir_existing; [apply under_S_plugins; apply (d_nostage _ _ U)|apply (d_dir _ _ U)]|constructor].
Qed.

Theorem install_safe_before_window : forall f0 i k t d,
  dirs_ok f0 i -> db_repo d <> staging_name -> (k <= window_start f0 i)%nat ->
  let f := crash (install_ops f0 i) f0 k t in
  startup_db f d = startup_db f0 d /\ (forall v, binary_of f d v = binary_of f0 d v).
Proof.
  intros f0 i k t d U Hd Hk f. unfold f. clear f.
  assert (WS : window_start f0 i = length (phaseA f0 i)) by reflexivity. rewrite WS in Hk.
  destruct (d_P _ _ U) as [ns0 HP].
  pose proof (phaseA_keeps_dirs f0 i U) as KA.
  pose proof (same_view_refl f0 ns0 HP) as V0.
  assert (OK : forall g, same_view f0 g -> startup_db g d = startup_db f0 d /\ (forall v, binary_of g d v = binary_of f0 d v)).
  { intros g Vg. split; [apply view_startup; exact Vg|]. intro v. unfold binary_of. rewrite binary_path_shape.
    apply (view_get f0 g _ Vg); [apply under_S_plugins; exact Hd|discriminate]. }
  rewrite install_ops_split.
  destruct (Nat.lt_ge_cases k (length (phaseA f0 i))) as [Lt|Ge].
  - rewrite crash_app_lt by exact Lt. apply OK. apply crash_keeps; assumption.
  - rewrite crash_app_ge by exact Ge. replace (k - length (phaseA f0 i))%nat with 0%nat by lia.
    set (fA := run_ops (phaseA f0 i) f0).
    assert (VA : same_view f0 fA) by (apply run_keeps; assumption).
    assert (E : forall rest, crash (remove_all fA (N i) ++ [Rename S (N i)] ++ rest) fA 0 t = fA).
    { intro rest. unfold remove_all. destruct (sort_paths_desc (map fst (filter (fun e => under (N i) (fst e)) fA))); reflexivity. }
    rewrite E. apply OK. exact VA.
Qed.

(* ---------------- RemoveAll really empties, and the staged binary is complete — no assumption on leftovers ---------------- *)
Lemma in_insert_path_rev : forall p q l, p = q \/ In p l -> In p (insert_path_desc q l).
Proof.
  induction l as [|x t IH]; simpl; intro H; [destruct H; auto|].
  destruct (path_ltb x q); simpl; [destruct H as [H|[H|H]]; auto|].
  destruct H as [H|[H|H]]; auto.
Qed.
Lemma in_sort_paths_rev : forall p l, In p l -> In p (sort_paths_desc l).
Proof.
  induction l as [|x t IH]; simpl; intro H; [exact H|]. apply in_insert_path_rev. destruct H; [left; congruence|right; auto].
Qed.

Lemma parent_neq : forall (x : path), x <> [] -> parent x <> x.
Proof.
  intros x H E. apply (f_equal (@length bytes)) in E. unfold parent in E.
  destruct (@exists_last _ x H) as (l & a & E'). subst x. rewrite removelast_last in E. rewrite app_length in E. simpl in E. lia.
Qed.

Lemma unlinks_clean : forall p l g,
  (forall x, In x l -> x <> []) ->
  (forall q, under p q = true -> fs_get g q <> None -> In q l) ->
  forall q, under p q = true -> fs_get (run_ops (map Unlink l) g) q = None.
Proof.
  induction l as [|x l IH]; intros g Hne Hin q Hq.
  - simpl. destruct (fs_get g q) eqn:E; [|reflexivity]. exfalso. apply (Hin q Hq). congruence.
  - simpl. apply IH; [intros y Hy; apply Hne; right; exact Hy| |exact Hq].
    intros q' Hq' Hsome. unfold apply_op in Hsome.
    assert (Nx : x <> []) by (apply Hne; left; reflexivity).
    destruct (path_eqb q' x) eqn:E.
    + apply path_eqb_eq in E. subst q'. exfalso. apply Hsome.
      rewrite get_del_name_other by (intro E'; apply (parent_neq x Nx); congruence). apply get_del_same.
    + apply path_eqb_false in E.
      assert (B : fs_get g q' <> None).
      { unfold del_name in Hsome. destruct (fs_get (fs_del g x) (parent x)) as [[ns|c]|] eqn:EP.
        - destruct (path_eqb q' (parent x)) eqn:E2.
          + apply path_eqb_eq in E2. subst q'. rewrite get_del_other in EP by exact E. congruence.
          + apply path_eqb_false in E2. rewrite get_set_other in Hsome by exact E2. rewrite get_del_other in Hsome by exact E. exact Hsome.
        - rewrite get_del_other in Hsome by exact E. exact Hsome.
        - rewrite get_del_other in Hsome by exact E. exact Hsome. }
      destruct (Hin q' Hq' B) as [H|H]; [congruence|exact H].
Qed.

Lemma remove_all_cleans : forall f p q, p <> [] -> under p q = true -> fs_get (run_ops (remove_all f p) f) q = None.
Proof.
  intros f p q Hp Hq. unfold remove_all. apply (unlinks_clean p); [| |exact Hq].
  - intros x Hx. apply in_sort_paths in Hx. apply in_map_iff in Hx. destruct Hx as ([y n] & E & Hy). simpl in E. subst y.
    apply filter_In in Hy. destruct Hy as [_ Hy]. simpl in Hy. intro E. subst x. destruct p; [congruence|discriminate].
  - intros q' Hq' Hsome. destruct (fs_get f q') eqn:E; [|congruence]. apply in_sort_paths_rev.
    assert (I : exists n', In (q', n') f).
    { clear -E. induction f as [|[r m] t IH]; simpl in E; [discriminate|]. destruct (path_eqb r q') eqn:E1.
      - apply path_eqb_eq in E1. subst. exists m. left. reflexivity.
      - destruct (IH E) as [n' H]. exists n'. right. exact H. }
    destruct I as [n' I]. apply in_map_iff. exists (q', n'). split; [reflexivity|]. apply filter_In. split; [exact I|exact Hq'].
Qed.

Lemma staged_binary : forall f0 i c,
  i_repo i <> staging_name ->
  NoDup (map fst (i_members i)) -> ~ In s_archive (map fst (i_members i)) ->
  In (dir_of (i_name i), c) (i_members i) ->
  fs_get (run_ops (phaseA f0 i) f0) (S ++ [dir_of (i_name i)]) = Some (File c).
Proof.
  intros f0 i c NS ND Harch Hin. unfold phaseA. rewrite run_app.
  set (f1 := run_ops (remove_all f0 S) f0).
  assert (Hclean : forall q, under S q = true -> fs_get f1 q = None) by (intros q Hq; apply remove_all_cleans; [discriminate|exact Hq]).
  change (mkdir_all S) with [Mkdir P; Mkdir S]. rewrite !run_app.
  set (g3 := run_ops [Create (S ++ [s_archive]); Write (S ++ [s_archive]) (i_archive i)] (run_ops [Mkdir P; Mkdir S] f1)).
  assert (NM : forall n, In n (map fst (i_members i)) -> n <> s_archive) by (intros n Hn E; subst; contradiction).
  assert (F3 : forall n, In n (map fst (i_members i)) -> fs_get g3 (S ++ [n]) = None).
  { intros n Hn. unfold g3. rewrite <- run_app. rewrite run_frame; [apply Hclean; apply under_app|].
    frame_list ltac:(apply Sn_neq; apply NM; exact Hn). }
  rewrite run_frame.
  - rewrite run_frame.
    + apply unarchive_members; [exact ND|exact F3|exact Hin].
    + assert (dir_of (i_name i) <> s_archive) by (apply NM; apply in_map_iff; exists (dir_of (i_name i), c); auto).
      frame_list ltac:(apply Sn_neq; assumption).
  - change (mkdir_all (parent (N i))) with [Mkdir P; Mkdir [s_plugins; i_repo i]; Mkdir (PD i)].
    frame_list ltac:(intro E; inversion E; apply NS; congruence).
Qed.

(* once renamed into place, the new binary stays complete through the handler-file steps *)
Lemma new_binary_after : forall g i k t c,
  upgrade_ok g i -> fs_get g (S ++ [dir_of (i_name i)]) = Some (File c) -> (0 < k)%nat ->
  fs_get (crash ([Rename S (N i)] ++ ext_ops (apply_op g (Rename S (N i))) i) g k t) (N i ++ [dir_of (i_name i)]) = Some (File c).
Proof.
  intros g i k t c U ST Hk. destruct k as [|k']; [lia|].
  destruct (u_P _ _ U) as [ns0 HP]. pose proof (same_view_refl g ns0 HP) as VA.
  simpl crash. set (g' := apply_op g (Rename S (N i))).
  assert (G : fs_get g' (N i ++ [dir_of (i_name i)]) = Some (File c)).
  { unfold g'. rewrite (ren_target g i g U) by discriminate. exact ST. }
  destruct (startup_after_rename g i g (mkDB [] [] [] None) U VA) as [LH _]. fold g' in LH.
  unfold ext_ops. fold g'. rewrite LH. destruct (load_handlers g) as [old|e|s] eqn:EL.
  - assert (OE : off_ext g' (crash (write_file ext_tmp (json_encode (merged_handlers old i)) ++ [Rename ext_tmp ext_path]) g' k' t)).
    { apply ext_phase.
      - intros ns. unfold g'. rewrite (ren_other g i g VA ext_tmp); try reflexivity; try discriminate. apply (u_tmp _ _ U).
      - apply (handlers_decode g i old (u_name_safe _ _ U) (u_exts_safe _ _ U) EL). }
    destruct OE as [A _]. rewrite A; [exact G|reflexivity|reflexivity|discriminate].
  - replace (crash [] g' k' t) with g' by (destruct k'; reflexivity). exact G.
  - replace (crash [] g' k' t) with g' by (destruct k'; reflexivity). exact G.
Qed.

(* ---------------- the new binary is complete after the rename: upgrade and first installation, any leftovers ---------------- *)
Lemma upgrade_ok_transfer : forall f0 i g, upgrade_ok f0 i -> same_view f0 g -> upgrade_ok g i.
Proof.
  intros f0 i g U V. destruct (u_dir _ _ U) as (nsd & Hd & Hn).
  assert (NSr : forall rest, under S (s_plugins :: i_repo i :: rest) = false) by (intro; apply under_S_plugins; apply (u_nostage _ _ U)).
  constructor.
  - destruct V as [_ (ns0 & ns & _ & Hg & _)]. exists ns. exact Hg.
  - rewrite (view_get f0 g _ V); [apply (u_repo _ _ U)|apply NSr|discriminate].
  - exists nsd. split; [|exact Hn]. rewrite (view_get f0 g _ V); [exact Hd|apply NSr|discriminate].
  - apply (fresh_after_A f0 i g U V).
  - apply (u_nostage _ _ U).
  - apply (u_parse _ _ U).
  - intros ns. rewrite (view_get f0 g _ V); [apply (u_tmp _ _ U)|reflexivity|discriminate].
  - apply (u_name_safe _ _ U).
  - apply (u_exts_safe _ _ U).
Qed.

Definition archive_ok (i : install) (c : bytes) : Prop :=
  NoDup (map fst (i_members i)) /\ ~ In s_archive (map fst (i_members i)) /\ In (dir_of (i_name i), c) (i_members i).

Theorem install_new_binary_general : forall f0 i k t c,
  upgrade_ok f0 i \/ first_ok f0 i -> archive_ok i c -> (length (phaseA f0 i) < k)%nat ->
  fs_get (crash (install_ops f0 i) f0 k t) (N i ++ [dir_of (i_name i)]) = Some (File c).
Proof.
  intros f0 i k t c H (ND & Harch & Hin) Hk.
  set (fA := run_ops (phaseA f0 i) f0).
  assert (UA : upgrade_ok fA i).
  { destruct H as [U|F].
    - destruct (u_P _ _ U) as [ns0 HP]. apply (upgrade_ok_transfer f0 i fA U).
      apply run_keeps; [apply (same_view_refl f0 ns0 HP)|apply phaseA_keeps; exact U].
    - destruct (first_prep f0 i F) as (_ & _ & _ & _ & U2 & FA). unfold fA. rewrite FA. exact U2. }
  assert (ST : fs_get fA (S ++ [dir_of (i_name i)]) = Some (File c)) by (apply staged_binary; [apply (u_nostage _ _ UA)|assumption..]).
  assert (O7 : remove_all fA (N i) = []) by (apply remove_all_nil; apply (u_fresh _ _ UA)).
  rewrite install_ops_split. fold fA. rewrite O7. simpl app.
  rewrite crash_app_ge by lia. fold fA.
  match goal with |- fs_get ?X _ = _ => set (fX := X) end.
  assert (EX : fX = crash ([Rename S (N i)] ++ ext_ops (apply_op fA (Rename S (N i))) i) fA (k - length (phaseA f0 i)) t) by reflexivity.
  rewrite EX. apply new_binary_after; [exact UA|exact ST|lia].
Qed.
