(* Proofs/TypesSumFuel.v — TypeSum at fuel 1 + max nesting depth never runs out of fuel, never panics; result depth bounded. *)
From Octo Require Import Types TypesIsProofs.
Local Open Scope nat_scope.

(* ---- depth bookkeeping ---- *)
Lemma lm_cons : forall a l, list_max (a :: l) = Nat.max a (list_max l).
Proof. reflexivity. Qed.

Lemma lm_in : forall x l, In x l -> x <= list_max l.
Proof. intros x l H. pose proof (proj1 (list_max_le l (list_max l)) (le_n _)) as F. rewrite Forall_forall in F. apply F. exact H. Qed.

Lemma depth_insert : forall x l,
  list_max (map tdepth (insert_by_tid x l)) = Nat.max (tdepth x) (list_max (map tdepth l)).
Proof.
  induction l as [|y l IH]; simpl; [reflexivity|].
  destruct (tyid x <? tyid y)%Z; simpl; [reflexivity|]. rewrite IH. lia.
Qed.

Lemma depth_sort_acc : forall l acc,
  list_max (map tdepth (fold_left (fun acc x => insert_by_tid x acc) l acc)) =
  Nat.max (list_max (map tdepth l)) (list_max (map tdepth acc)).
Proof.
  induction l as [|x l IH]; intro acc; simpl; [reflexivity|]. rewrite IH, depth_insert. lia.
Qed.
Lemma depth_sort : forall l, list_max (map tdepth (sort_by_tid l)) = list_max (map tdepth l).
Proof. intro l. unfold sort_by_tid. rewrite depth_sort_acc. simpl. lia. Qed.

Lemma depth_app : forall l1 l2, list_max (map tdepth (l1 ++ l2)) = Nat.max (list_max (map tdepth l1)) (list_max (map tdepth l2)).
Proof. intros. rewrite map_app, list_max_app. reflexivity. Qed.

(* ---- struct merge never meets a name of neither operand ---- *)
Lemma lookup_last_depth : forall n fs x, lookup_last n fs = Some x ->
  tdepth x <= list_max (map (fun f => tdepth (snd f)) fs).
Proof.
  induction fs as [|[m t] fs IH]; intros x H; simpl in H; [discriminate|].
  simpl. destruct (lookup_last n fs) eqn:E.
  - inversion H; subst. specialize (IH x eq_refl). lia.
  - destruct (bytes_eqb m n); inversion H; subst. lia.
Qed.

Lemma lookup_last_in : forall n fs, In n (map fst fs) -> lookup_last n fs <> None.
Proof.
  induction fs as [|[m t] fs IH]; intro H; simpl in *; [contradiction|].
  destruct (lookup_last n fs) eqn:E; [discriminate|]. destruct H as [H|H].
  - subst. rewrite bytes_eqb_refl. discriminate.
  - exfalso. apply (IH H). reflexivity.
Qed.

Lemma insert_name_in : forall x n l, In x (insert_name n l) -> x = n \/ In x l.
Proof.
  induction l as [|m l IH]; simpl; intro H.
  - destruct H as [H|[]]; auto.
  - destruct (bytes_cmp n m =? 0)%Z; [right; exact H|]. destruct (bytes_cmp n m =? -1)%Z.
    + destruct H as [H|H]; auto.
    + destruct H as [H|H]; [right; left; exact H|]. destruct (IH H); auto.
Qed.
Lemma fold_insert_name_in : forall x ns acc, In x (fold_left (fun acc n => insert_name n acc) ns acc) -> In x ns \/ In x acc.
Proof.
  induction ns as [|n ns IH]; intros acc H; simpl in *; [right; exact H|].
  destruct (IH _ H) as [H1|H1]; [left; right; exact H1|]. destruct (insert_name_in _ _ _ H1); auto.
Qed.
Lemma merged_names_in : forall x f1 f2, In x (merged_names f1 f2) -> In x (map fst f1) \/ In x (map fst f2).
Proof. intros x f1 f2 H. apply fold_insert_name_in in H. destruct H as [H|[]]. apply in_app_or. exact H. Qed.

Lemma outcome_all_ok : forall {A} (P : A -> Prop) (l : list (outcome A)),
  Forall (fun o => exists x, o = Ok x /\ P x) l -> exists xs, outcome_all l = Ok xs /\ Forall P xs.
Proof.
  intros A P l H. induction H as [|o l [x [E Px]] _ [xs [Exs Pxs]]].
  - exists []. split; [reflexivity|constructor].
  - exists (x :: xs). subst. simpl. rewrite Exs. simpl. split; [reflexivity|constructor; assumption].
Qed.

Section Level.
  Variable rec : ty -> ty -> outcome ty.
  Variable f : nat.
  Hypothesis Hrec : forall x y, tdepth x < f -> tdepth y < f ->
    exists r, rec x y = Ok r /\ tdepth r <= Nat.max (tdepth x) (tdepth y).

  Lemma struct_merge_ok : forall f1 f2, tdepth (TStruct f1) <= f -> tdepth (TStruct f2) <= f ->
    exists r, struct_merge rec f1 f2 = Ok r /\ tdepth r <= Nat.max (tdepth (TStruct f1)) (tdepth (TStruct f2)).
  Proof.
    intros f1 f2 D1 D2. simpl in D1, D2. unfold struct_merge.
    set (d1 := list_max (map (fun f => tdepth (snd f)) f1)) in *.
    set (d2 := list_max (map (fun f => tdepth (snd f)) f2)) in *.
    destruct (outcome_all_ok (fun nt : list Z * ty => tdepth (snd nt) <= Nat.max d1 d2)
      (map (fun n => match lookup_last n f1, lookup_last n f2 with
             | Some x, Some y => obind (rec x y) (fun s => Ok (n, s))
             | Some x, None => obind (rec x TNull) (fun s => Ok (n, s))
             | None, Some y => obind (rec y TNull) (fun s => Ok (n, s))
             | None, None => Panic 1
             end) (merged_names f1 f2))) as [fs [E F]].
    { apply Forall_forall. intros o Ho. apply in_map_iff in Ho. destruct Ho as [n [Eo Hn]]. subst o.
      apply merged_names_in in Hn.
      destruct (lookup_last n f1) as [x|] eqn:L1; destruct (lookup_last n f2) as [y|] eqn:L2.
      - pose proof (lookup_last_depth _ _ _ L1). pose proof (lookup_last_depth _ _ _ L2).
        destruct (Hrec x y ltac:(unfold d1, d2 in *; lia) ltac:(unfold d1, d2 in *; lia)) as [r [Er Dr]]. rewrite Er. simpl. exists (n, r). split; [reflexivity|]. simpl. unfold d1, d2 in *. lia.
      - pose proof (lookup_last_depth _ _ _ L1).
        destruct (Hrec x TNull ltac:(unfold d1, d2 in *; lia) ltac:(simpl; lia)) as [r [Er Dr]]. rewrite Er. simpl. exists (n, r). split; [reflexivity|]. simpl in *. unfold d1, d2 in *. lia.
      - pose proof (lookup_last_depth _ _ _ L2).
        destruct (Hrec y TNull ltac:(unfold d1, d2 in *; lia) ltac:(simpl; lia)) as [r [Er Dr]]. rewrite Er. simpl. exists (n, r). split; [reflexivity|]. simpl in *. unfold d1, d2 in *. lia.
      - exfalso. destruct Hn as [Hn|Hn]; [apply (lookup_last_in _ _ Hn L1) | apply (lookup_last_in _ _ Hn L2)]. }
    rewrite E. simpl. eexists. split; [reflexivity|]. simpl.
    assert (list_max (map (fun f => tdepth (snd f)) fs) <= Nat.max d1 d2).
    { apply list_max_le. apply Forall_forall. intros k Hk. apply in_map_iff in Hk. destruct Hk as [nt [Ek Hnt]]. subst k.
      rewrite Forall_forall in F. apply F. exact Hnt. }
    lia.
  Qed.

  Lemma tuple_merge_ok : forall l1 l2, list_max (map tdepth l1) < f -> list_max (map tdepth l2) < f ->
    exists es, tuple_merge rec l1 l2 = Ok es /\ list_max (map tdepth es) <= Nat.max (list_max (map tdepth l1)) (list_max (map tdepth l2)).
  Proof.
    induction l1 as [|x l1 IH]; intros l2 D1 D2.
    - exists []. split; [reflexivity|]. simpl. lia.
    - simpl in D1. destruct l2 as [|y l2].
      + simpl. destruct (Hrec x TNull ltac:(lia) ltac:(simpl; lia)) as [r [Er Dr]]. rewrite Er. simpl.
        destruct (IH [] ltac:(lia) ltac:(simpl; lia)) as [es [Ees Des]]. rewrite Ees. simpl.
        eexists. split; [reflexivity|]. simpl in *. lia.
      + simpl in D2. simpl. destruct (Hrec x y ltac:(lia) ltac:(lia)) as [r [Er Dr]]. rewrite Er. simpl.
        destruct (IH l2 ltac:(lia) ltac:(lia)) as [es [Ees Des]]. rewrite Ees. simpl.
        eexists. split; [reflexivity|]. simpl in *. lia.
  Qed.

  Lemma sum_flat_ok : forall a b, tdepth a <= f -> tdepth b <= f ->
    exists r, sum_flat rec a b = Ok r /\ tdepth r <= Nat.max (tdepth a) (tdepth b).
  Proof.
    intros a b Da Db. unfold sum_flat.
    destruct (is_Is (is_rel a b)); [exists b; split; [reflexivity|lia]|].
    destruct (is_Is (is_rel b a)); [exists a; split; [reflexivity|lia]|].
    assert (U : exists r, Ok (TUnion (sort_by_tid [a; b])) = Ok r /\ tdepth r <= Nat.max (tdepth a) (tdepth b)).
    { eexists. split; [reflexivity|]. change (tdepth (TUnion (sort_by_tid [a; b]))) with (list_max (map tdepth (sort_by_tid [a; b]))).
      rewrite depth_sort. simpl. lia. }
    destruct a, b; try exact U.
    - (* list list *) destruct e as [x|], e0 as [y|]; try (eexists; split; [reflexivity|lia]).
      simpl in Da, Db. destruct (Hrec x y ltac:(lia) ltac:(lia)) as [r [Er Dr]]. rewrite Er. simpl. eexists. split; [reflexivity|]. simpl. lia.
    - apply struct_merge_ok; assumption.
    - (* tuples *) simpl in Da, Db.
      destruct (length es0 <? length es).
      + destruct (tuple_merge_ok es es0 ltac:(lia) ltac:(lia)) as [r [Er Dr]]. rewrite Er. simpl. eexists. split; [reflexivity|]. simpl. lia.
      + destruct (tuple_merge_ok es0 es ltac:(lia) ltac:(lia)) as [r [Er Dr]]. rewrite Er. simpl. eexists. split; [reflexivity|]. simpl. lia.
  Qed.

  Lemma replace_first_ok : forall alts b o, list_max (map tdepth alts) <= f -> tdepth b <= f ->
    replace_first_tid rec alts b = Some o ->
    exists l, o = Ok l /\ list_max (map tdepth l) <= Nat.max (list_max (map tdepth alts)) (tdepth b).
  Proof.
    induction alts as [|a alts IH]; intros b o Da Db H; simpl in H; [discriminate|]. simpl in Da.
    destruct (tyid a =? tyid b)%Z.
    - inversion H; subst. destruct (sum_flat_ok a b ltac:(lia) Db) as [r [Er Dr]]. rewrite Er. simpl.
      eexists. split; [reflexivity|]. simpl. lia.
    - destruct (replace_first_tid rec alts b) as [o'|] eqn:E; [|discriminate]. inversion H; subst.
      destruct (IH b o' ltac:(lia) Db E) as [l [El Dl]]. subst. simpl. eexists. split; [reflexivity|]. simpl. lia.
  Qed.

  Lemma sum_union_single_ok : forall alts b, tdepth (TUnion alts) <= f -> tdepth b <= f ->
    exists r, sum_union_single rec alts b = Ok r /\ tdepth r <= Nat.max (tdepth (TUnion alts)) (tdepth b).
  Proof.
    intros alts b Da Db. unfold sum_union_single. simpl in Da.
    destruct (replace_first_tid rec alts b) as [o|] eqn:E.
    - destruct (replace_first_ok alts b o Da Db E) as [l [El Dl]]. subst. simpl. eexists. split; [reflexivity|]. simpl. exact Dl.
    - eexists. split; [reflexivity|]. change (tdepth (TUnion ?l)) with (list_max (map tdepth l)).
      rewrite depth_sort, depth_app. simpl. lia.
  Qed.

  Lemma type_sum_level_ok : forall b a, tdepth a <= f -> tdepth b <= f ->
    exists r, type_sum_level rec a b = Ok r /\ tdepth r <= Nat.max (tdepth a) (tdepth b).
  Proof.
    induction b as [ | | | | | | | |e IHe|fs IH|es IH|alts2 IH| ] using ty_ind'; intros a Da Db; rewrite type_sum_level_eq;
      (destruct (is_Is (is_rel a _)); [eexists; split; [reflexivity|lia]|]);
      (destruct (is_Is (is_rel _ a)); [eexists; split; [reflexivity|lia]|]).
    12: { (* b is a union *)
      destruct a as [ | | | | | | | e1 | fs1 | es1 | alts1 | ];
        try (destruct (sum_union_single_ok alts2 _ Db Da) as [r [Er Dr]]; rewrite Er; eexists; split; [reflexivity|lia]).
      (* both unions: fold *)
      set (M := Nat.max (tdepth (TUnion alts1)) (tdepth (TUnion alts2))).
      assert (G : forall l out, (forall x, In x l -> In x alts2) ->
                  (exists o, out = Ok o /\ tdepth o <= M) ->
                  exists r, (fix fold (l : list ty) (out : outcome ty) : outcome ty :=
                     match l with [] => out | bk :: rest => fold rest (obind out (fun o => type_sum_level rec o bk)) end) l out = Ok r
                    /\ tdepth r <= M).
      { induction l as [|bk l IHl]; intros out Hl [o [Eo Do]]; subst out; [exists o; auto|].
        apply IHl; [intros x Hx; apply Hl; right; exact Hx|].
        simpl. rewrite Forall_forall in IH.
        assert (Dbk : tdepth bk <= tdepth (TUnion alts2)).
        { simpl. apply lm_in. apply in_map. apply Hl. left. reflexivity. }
        destruct (IH bk (Hl bk (or_introl eq_refl)) o) as [r [Er Dr]]; [unfold M in Do; lia | lia |].
        exists r. split; [exact Er|]. unfold M in *. lia. }
      apply G; [auto|]. exists (TUnion alts1). split; [reflexivity|]. unfold M. lia. }
    all: destruct a as [ | | | | | | | e1 | fs1 | es1 | alts1 | ];
      try (apply sum_flat_ok; assumption);
      try (destruct (sum_union_single_ok alts1 _ Da Db) as [r [Er Dr]]; rewrite Er; eexists; split; [reflexivity|lia]).
  Qed.
End Level.

Theorem sum_fuel_enough_gen : forall f a b, tdepth a < f -> tdepth b < f ->
  exists r, type_sum f a b = Ok r /\ tdepth r <= Nat.max (tdepth a) (tdepth b).
Proof.
  induction f as [|f IH]; intros a b Da Db; [lia|].
  simpl. apply (type_sum_level_ok (type_sum f) f IH); lia.
Qed.

(* TypeSum at the fuel the model uses never runs out of fuel (and never panics) *)
Theorem sum_fuel_enough : forall a b, exists r, tsum a b = Ok r /\ tdepth r <= Nat.max (tdepth a) (tdepth b).
Proof. intros a b. unfold tsum, sum_fuel. apply sum_fuel_enough_gen; lia. Qed.
