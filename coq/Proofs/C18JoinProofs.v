(* Proofs/C18JoinProofs.v — C18's two clauses stated and proved on the join model of C19 (Model/Joins.v, read
   only): the watermarks a join forwards never decrease (both joins, every receiveRecord, every schedule),
   in the two-input phase each is the minimum of the two inputs' watermarks; and the inner join creates no
   late data when every input record carries an event time. *)
From Octo Require Import Joins.
From Octo Require Buffer BufferProofs ChangelogLemmas.
Local Arguments zero_ns : simpl never.
Local Arguments max_wm : simpl never.

(* the watermark messages of one input never decrease, from [w] on *)
Fixpoint wm_mono_from (w : Z) (l : list msg) : bool :=
  match l with
  | [] => true
  | MWM w' :: l' => (w <=? w') && wm_mono_from w' l'
  | _ :: l' => wm_mono_from w l'
  end.

Lemma well_timed_wm_mono l : forall w, well_timed_from w l = true -> wm_mono_from w l = true.
Proof.
  induction l as [|m l IH]; intros w H; [reflexivity|]. destruct m; cbn [well_timed_from wm_mono_from] in *.
  - apply andb_true_iff in H. apply IH. tauto.
  - apply andb_true_iff in H. destruct H as [A B]. rewrite A. apply IH. exact B.
  - apply IH. exact H.
  - apply IH. exact H.
Qed.

Section AnyJoin.
  Variable recv : recv_fn.
  Variables switch_flag use_mark : bool.
  Notation receive := (receive recv).
  Notation receive_all := (receive_all recv).
  Notation flush_side := (flush_side recv).
  Notation process_up_to := (process_up_to recv).
  Notation jstep := (jstep recv switch_flag use_mark).
  Notation jrun_steps := (jrun_steps recv switch_flag use_mark).
  Notation jrun := (jrun recv switch_flag use_mark).

  (* what record processing can do to the state: trees and buffers change, the watermark fields do not, and
     the phase either stays or becomes a stopped one *)
  Definition keeps (st st' : jstate) : Prop :=
    lwm st' = lwm st /\ rwm st' = rwm st /\ minwm st' = minwm st /\ (phase st' = phase st \/ stopped st' = true).
  Lemma keeps_refl st : keeps st st. Proof. repeat split; auto. Qed.
  Lemma keeps_trans a b c : keeps a b -> keeps b c -> keeps a c.
  Proof.
    intros [A1 [A2 [A3 A4]]] [B1 [B2 [B3 B4]]]. repeat split; try congruence.
    destruct B4 as [B4|B4]; [|right; exact B4]. destruct A4 as [A4|A4]; [left; congruence|].
    right. unfold stopped in *. rewrite B4. exact A4.
  Qed.

  Definition only_recs (o : list event) : Prop := watermarks o = [].
  Lemma only_recs_map l : only_recs (map Rec l).
  Proof. unfold only_recs. induction l; [reflexivity|assumption]. Qed.
  Lemma only_recs_app a b : only_recs a -> only_recs b -> only_recs (a ++ b).
  Proof. unfold only_recs. intros A B. unfold watermarks in *. rewrite flat_map_app, A, B. reflexivity. Qed.

  Lemma set_tree_keeps s t st : keeps st (set_tree s t st).
  Proof. destruct s; repeat split; auto. Qed.
  Lemma set_buf_keeps s b st : keeps st (set_buf s b st).
  Proof. destruct s; repeat split; auto. Qed.

  Lemma receive_keeps s r flag st st' o : receive s r flag st = (st', o) -> keeps st st' /\ only_recs o.
  Proof.
    unfold Joins.receive. destruct (stopped st) eqn:S; [intro H; inversion H; subst; split; [apply keeps_refl|reflexivity]|].
    destruct (recv s r flag (tree_of s st) (tree_of (other s) st)) as [[t' out]| |]; intro H; inversion H; subst.
    - split; [apply set_tree_keeps | apply only_recs_map].
    - split; [|reflexivity]. repeat split; auto.
    - split; [|reflexivity]. repeat split; auto.
  Qed.

  Lemma receive_all_keeps s flag : forall rs st st' o, receive_all s flag rs st = (st', o) -> keeps st st' /\ only_recs o.
  Proof.
    induction rs as [|r rs IH]; intros st st' o H; cbn [Joins.receive_all] in H.
    - inversion H; subst. split; [apply keeps_refl|reflexivity].
    - destruct (receive s r flag st) as [st1 o1] eqn:E1. destruct (receive_all s flag rs st1) as [st2 o2] eqn:E2.
      inversion H; subst. destruct (receive_keeps _ _ _ _ _ _ E1) as [K1 R1]. destruct (IH _ _ _ E2) as [K2 R2].
      split; [eapply keeps_trans; eassumption | apply only_recs_app; assumption].
  Qed.

  Lemma flush_side_keeps s w flag st st' o : flush_side s w flag st = (st', o) -> keeps st st' /\ only_recs o.
  Proof.
    unfold Joins.flush_side. destruct (tree_nil (other s) st); [intro H; inversion H; subst; split; [apply keeps_refl|reflexivity]|].
    destruct (buf_emit w (buf_of s st)) as [out rest]. intro H. destruct (receive_all_keeps _ _ _ _ _ _ H) as [K R].
    split; [|exact R]. eapply keeps_trans; [apply (set_buf_keeps s rest st)|exact K].
  Qed.

  Lemma process_keeps w flag st st' o : process_up_to w flag st = (st', o) -> keeps st st' /\ only_recs o.
  Proof.
    unfold Joins.process_up_to. destruct (flush_side SL w flag st) as [st1 o1] eqn:E1.
    destruct (flush_side SR w flag st1) as [st2 o2] eqn:E2. intro H; inversion H; subst.
    destruct (flush_side_keeps _ _ _ _ _ _ E1) as [K1 R1]. destruct (flush_side_keeps _ _ _ _ _ _ E2) as [K2 R2].
    split; [eapply keeps_trans; eassumption | apply only_recs_app; assumption].
  Qed.

  Lemma on_record_keeps s r flag st st' o : on_record recv s r flag st = (st', o) -> keeps st st' /\ only_recs o.
  Proof.
    unfold on_record. destruct (et r =? zero_ns); [apply receive_keeps|].
    intro H; inversion H; subst. split; [apply set_buf_keeps|reflexivity].
  Qed.

  (* ---- one step: what it emits and how the watermark fields move ---- *)
  Definition inv (st : jstate) (sigma : list (side * msg)) : Prop :=
    match phase st with
    | Both => minwm st <= lwm st /\ minwm st <= rwm st /\
              wm_mono_from (lwm st) (proj_side SL sigma) = true /\ wm_mono_from (rwm st) (proj_side SR sigma) = true
    | OneOpen o _ => wm_mono_from (minwm st) (proj_side o sigma) = true
    | _ => True
    end.

  Lemma stopped_inv st sigma : stopped st = true -> inv st sigma.
  Proof. unfold stopped, inv. destruct (phase st); try discriminate; auto. Qed.

  Lemma proj_side_cons s s' m sigma :
    proj_side s ((s', m) :: sigma) = (if side_eqb s' s then [m] else []) ++ proj_side s sigma.
  Proof. reflexivity. Qed.

  Lemma wm_mono_skip w m l : (forall x, m <> MWM x) -> wm_mono_from w (m :: l) = wm_mono_from w l.
  Proof. intro H. destruct m; try reflexivity. exfalso. apply (H w0). reflexivity. Qed.

  (* the step emits records and at most one watermark, last; that watermark is the new minwm and not below
     the old one; minwm never decreases; the invariant is handed on *)
  Lemma jstep_char st sm sigma st' o :
    inv st (sm :: sigma) -> jstep st sm = (st', o) ->
    inv st' sigma /\ minwm st <= minwm st' /\
    (watermarks o = [] \/ watermarks o = [minwm st']).
  Proof.
    destruct sm as [s m]. intros I H. unfold Joins.jstep in H. unfold inv in I.
    destruct (phase st) as [|op flg| | |site] eqn:P.
    - (* Both *)
      destruct I as [I1 [I2 [I3 I4]]].
      destruct m as [r|w| |].
      + (* record *)
        destruct (on_record_keeps _ _ _ _ _ _ H) as [[K1 [K2 [K3 K4]]] R].
        split; [|split; [lia|left; exact R]].
        destruct K4 as [K4|K4]; [|apply stopped_inv; exact K4].
        unfold inv. rewrite K4, P, K1, K2, K3. repeat split; try assumption.
        * rewrite proj_side_cons in I3. destruct (side_eqb s SL); cbn [app wm_mono_from] in I3; exact I3.
        * rewrite proj_side_cons in I4. destruct (side_eqb s SR); cbn [app wm_mono_from] in I4; exact I4.
      + (* watermark *)
        set (st0 := set_wm s w st) in *.
        assert (Hs : wm_of s st0 = w) by (destruct s; reflexivity).
        assert (Ho : wm_of (other s) st0 = wm_of (other s) st) by (destruct s; reflexivity).
        assert (Hm0 : minwm st0 = minwm st) by (destruct s; reflexivity).
        assert (Hp0 : phase st0 = Both) by (destruct s; exact P).
        (* the new watermark of side s is not below the old one; the tail is monotone from it *)
        assert (Hw : wm_of s st <= w /\ wm_mono_from w (proj_side s sigma) = true /\
                     wm_mono_from (wm_of (other s) st) (proj_side (other s) sigma) = true).
        { destruct s; cbn [wm_of other] in *; rewrite proj_side_cons in I3, I4; cbn [side_eqb app wm_mono_from] in I3, I4.
          - apply andb_true_iff in I3. destruct I3 as [A B]. apply Z.leb_le in A. auto.
          - apply andb_true_iff in I4. destruct I4 as [A B]. apply Z.leb_le in A. auto. }
        destruct Hw as [Hw1 [Hw2 Hw3]].
        assert (Hinv0 : forall stx, lwm stx = lwm st0 -> rwm stx = rwm st0 -> phase stx = Both ->
                                    minwm stx <= lwm st0 -> minwm stx <= rwm st0 -> inv stx sigma).
        { intros stx A B C D E. unfold inv. rewrite C, A, B. repeat split; try assumption.
          - destruct s; cbn [set_wm lwm wm_of other] in *; unfold st0; cbn [set_wm lwm]; assumption.
          - destruct s; cbn [set_wm rwm wm_of other] in *; unfold st0; cbn [set_wm rwm]; assumption. }
        assert (Hl0 : minwm st <= lwm st0 /\ minwm st <= rwm st0).
        { destruct s; unfold st0; cbn [set_wm lwm rwm wm_of] in *; lia. }
        set (mn := if wm_of (other s) st0 <? wm_of s st0 then wm_of (other s) st0 else wm_of s st0) in *.
        assert (Hmn : mn <= lwm st0 /\ mn <= rwm st0).
        { unfold mn. destruct s; cbn [wm_of other]; destruct (Z.ltb_spec (rwm st0) (lwm st0)); destruct (Z.ltb_spec (lwm st0) (rwm st0)); lia. }
        destruct (Z.ltb_spec (minwm st0) mn) as [L|L].
        * destruct (process_up_to mn false (set_minwm mn st0)) as [st1 o1] eqn:E.
          destruct (process_keeps _ _ _ _ _ E) as [[K1 [K2 [K3 K4]]] R]. cbn [set_minwm lwm rwm minwm phase] in K1, K2, K3, K4.
          destruct (stopped st1) eqn:S; inversion H; subst st' o.
          -- split; [apply stopped_inv; exact S|]. split; [rewrite K3; lia|left; exact R].
          -- destruct K4 as [K4|K4]; [|congruence].
             split; [apply Hinv0; try congruence; rewrite K3; lia|]. split; [rewrite K3; lia|].
             right. rewrite ChangelogLemmas.watermarks_app, R, K3. reflexivity.
        * inversion H; subst st' o. split; [apply Hinv0; auto; lia|]. split; [lia|left; reflexivity].
      + (* error *) inversion H; subst. split; [apply stopped_inv; reflexivity|]. split; [cbn; lia|left; reflexivity].
      + (* close of side s: the other side stays open *)
        set (o' := other s) in *.
        destruct (process_up_to (wm_of o' st) switch_flag (set_minwm (wm_of o' st) st)) as [st1 o1] eqn:E.
        destruct (process_keeps _ _ _ _ _ E) as [[K1 [K2 [K3 K4]]] R]. cbn [set_minwm lwm rwm minwm phase] in K1, K2, K3, K4.
        assert (Hge : minwm st <= wm_of o' st) by (unfold o'; destruct s; cbn [other wm_of]; lia).
        assert (Htail : wm_mono_from (wm_of o' st) (proj_side o' sigma) = true).
        { unfold o'. destruct s; cbn [other wm_of]; [rewrite proj_side_cons in I4; exact I4 | rewrite proj_side_cons in I3; exact I3]. }
        destruct (stopped st1) eqn:S; inversion H; subst st' o.
        * split; [apply stopped_inv; exact S|]. split; [rewrite K3; exact Hge | left; exact R].
        * split; [|split; [cbn [set_phase minwm]; rewrite K3; exact Hge | left; exact R]].
          unfold inv. cbn [set_phase phase minwm]. rewrite K3. exact Htail.
    - (* OneOpen o *)
      destruct (side_eqb s op) eqn:Eso.
      + assert (s = op) by (destruct s, op; try discriminate; reflexivity). subst s.
        rewrite proj_side_cons, Eso in I. cbn [app] in I.
        destruct m as [r|w| |].
        * destruct (on_record_keeps _ _ _ _ _ _ H) as [[K1 [K2 [K3 K4]]] R].
          split; [|split; [lia|left; exact R]].
          destruct K4 as [K4|K4]; [|apply stopped_inv; exact K4].
          unfold inv. rewrite K4, P, K3. cbn [wm_mono_from] in I. exact I.
        * cbn [wm_mono_from] in I. apply andb_true_iff in I. destruct I as [A B]. apply Z.leb_le in A.
          destruct (process_up_to w flg st) as [st1 o1] eqn:E.
          destruct (process_keeps _ _ _ _ _ E) as [[K1 [K2 [K3 K4]]] R].
          destruct (stopped st1) eqn:S; inversion H; subst st' o.
          -- split; [apply stopped_inv; exact S|]. split; [lia|left; exact R].
          -- split; [unfold inv; cbn [set_minwm set_phase phase minwm]; exact B|].
             split; [cbn [set_minwm minwm]; exact A|]. right. rewrite ChangelogLemmas.watermarks_app, R. reflexivity.
        * inversion H; subst. split; [apply stopped_inv; reflexivity|]. split; [cbn; lia|left; reflexivity].
        * destruct (process_up_to max_wm flg st) as [st1 o1] eqn:E.
          destruct (process_keeps _ _ _ _ _ E) as [[K1 [K2 [K3 K4]]] R].
          destruct (stopped st1) eqn:S; inversion H; subst st' o.
          -- split; [apply stopped_inv; exact S|]. split; [lia|left; exact R].
          -- split; [apply stopped_inv; reflexivity|]. split; [cbn [set_phase minwm]; lia|left; exact R].
      + (* a message of the closed side is never taken *)
        inversion H; subst st' o. split; [|split; [lia|left; reflexivity]].
        unfold inv. rewrite P. rewrite proj_side_cons, Eso in I. exact I.
    - inversion H; subst. split; [unfold inv; rewrite P; exact I|]. split; [lia|left; reflexivity].
    - inversion H; subst. split; [unfold inv; rewrite P; exact I|]. split; [lia|left; reflexivity].
    - inversion H; subst. split; [unfold inv; rewrite P; exact I|]. split; [lia|left; reflexivity].
  Qed.

  Lemma monotone_from_weaken l : forall a b, b <= a -> monotone_from a l = true -> monotone_from b l = true.
  Proof.
    destruct l as [|x l]; intros a b L H; [reflexivity|]. cbn [monotone_from] in *.
    apply andb_true_iff in H. destruct H as [A B]. apply Z.leb_le in A. rewrite B, andb_true_r. apply Z.leb_le. lia.
  Qed.

  Lemma stopped_silent : forall sigma st st' os, stopped st = true -> jrun_steps st sigma = (st', os) ->
    st' = st /\ watermarks (concat os) = [] /\ records (concat os) = [].
  Proof.
    induction sigma as [|sm sigma IH]; intros st st' os S H; cbn [Joins.jrun_steps] in H.
    - inversion H; subst. auto.
    - assert (E : jstep st sm = (st, [])).
      { destruct sm as [s m]. unfold Joins.jstep, stopped in *. destruct (phase st); try discriminate; reflexivity. }
      rewrite E in H. destruct (jrun_steps st sigma) as [st2 os2] eqn:E2. inversion H; subst.
      destruct (IH st st' os2 S E2) as [A [B C]]. cbn [concat app]. auto.
  Qed.

  Lemma jrun_steps_monotone : forall sigma st st' os,
    inv st sigma -> jrun_steps st sigma = (st', os) ->
    monotone_from (minwm st) (watermarks (concat os)) = true.
  Proof.
    induction sigma as [|sm sigma IH]; intros st st' os I H; cbn [Joins.jrun_steps] in H.
    - inversion H; subst. reflexivity.
    - destruct (jstep st sm) as [st1 o1] eqn:E1. destruct (jrun_steps st1 sigma) as [st2 os2] eqn:E2. inversion H; subst.
      destruct (jstep_char st sm sigma st1 o1 I E1) as [I1 [L W]].
      specialize (IH st1 st' os2 I1 E2). cbn [concat]. rewrite ChangelogLemmas.watermarks_app.
      destruct W as [W|W]; rewrite W; cbn [app].
      + exact (monotone_from_weaken _ _ _ L IH).
      + cbn [monotone_from]. rewrite IH, andb_true_r. apply Z.leb_le. exact L.
  Qed.

  Lemma inv_init sigma :
    wm_mono_from zero_ns (proj_side SL sigma) = true -> wm_mono_from zero_ns (proj_side SR sigma) = true ->
    inv jinit sigma.
  Proof. intros A B. unfold inv, jinit. cbn [phase minwm lwm rwm]. repeat split; try lia; assumption. Qed.

  Lemma mono_list_from w l : BufferProofs.mono_list (Some w) l = monotone_from w l.
  Proof. revert w. induction l as [|x l IH]; intro w; [reflexivity|]. cbn [BufferProofs.mono_list monotone_from Buffer.wm_le]. rewrite IH. reflexivity. Qed.

  (* the watermarks a join forwards never decrease: every receiveRecord, every schedule *)
  Theorem join_monotone sigma :
    wm_mono_from zero_ns (proj_side SL sigma) = true -> wm_mono_from zero_ns (proj_side SR sigma) = true ->
    Buffer.monotone (snd (jrun jinit sigma)) = true.
  Proof.
    intros A B. unfold Joins.jrun. destruct (jrun_steps jinit sigma) as [st' os] eqn:E. cbn [snd].
    pose proof (jrun_steps_monotone sigma jinit st' os (inv_init sigma A B) E) as M. cbn [jinit minwm] in M.
    unfold Buffer.monotone. rewrite BufferProofs.monotone_via_watermarks.
    destruct (watermarks (concat os)) as [|w l]; [reflexivity|]. cbn [BufferProofs.mono_list Buffer.wm_le andb].
    cbn [monotone_from] in M. apply andb_true_iff in M. rewrite mono_list_from. tauto.
  Qed.

  (* while both inputs are open, a forwarded watermark is the minimum of the two inputs' latest watermarks
     and is strictly above the one forwarded before *)
  Theorem join_forwards_minimum st s w st' o :
    phase st = Both -> jstep st (s, MWM w) = (st', o) ->
    watermarks o = [] \/
    (watermarks o = [Z.min (lwm st') (rwm st')] /\ minwm st < Z.min (lwm st') (rwm st') /\ minwm st' = Z.min (lwm st') (rwm st')).
  Proof.
    intros P H. unfold Joins.jstep in H. rewrite P in H.
    set (st0 := set_wm s w st) in *.
    set (mn := if wm_of (other s) st0 <? wm_of s st0 then wm_of (other s) st0 else wm_of s st0) in *.
    assert (Hmn : mn = Z.min (lwm st0) (rwm st0)).
    { unfold mn. destruct s; cbn [wm_of other]; destruct (Z.ltb_spec (rwm st0) (lwm st0)); destruct (Z.ltb_spec (lwm st0) (rwm st0)); lia. }
    assert (Hm0 : minwm st0 = minwm st) by (destruct s; reflexivity).
    destruct (Z.ltb_spec (minwm st0) mn) as [L|L]; [|inversion H; left; reflexivity].
    destruct (process_up_to mn false (set_minwm mn st0)) as [st1 o1] eqn:E.
    destruct (process_keeps _ _ _ _ _ E) as [[K1 [K2 [K3 K4]]] R]. cbn [set_minwm lwm rwm minwm phase] in K1, K2, K3, K4.
    destruct (stopped st1); inversion H; subst st' o; [left; exact R|].
    right. rewrite ChangelogLemmas.watermarks_app, R, K1, K2, K3, <- Hmn. cbn [app watermarks flat_map]. repeat split; lia.
  Qed.
End AnyJoin.

(* ---- the finding classes: inputs whose records all carry an event time lie outside class 1 ---- *)
Lemma all_timed_not_class_zero_time L R :
  forallb (fun r => negb (Buffer.no_event_time r)) L = true -> forallb (fun r => negb (Buffer.no_event_time r)) R = true ->
  Buffer.class_zero_time L R = false.
Proof.
  intros HL HR. unfold Buffer.class_zero_time, Buffer.pairs_exist.
  apply Bool.not_true_iff_false. intro H. apply existsb_exists in H. destruct H as [a [Ha H]].
  apply existsb_exists in H. destruct H as [b [Hb H]]. apply andb_true_iff in H. destruct H as [_ H].
  rewrite forallb_forall in HL, HR. specialize (HL a Ha). specialize (HR b Hb).
  apply negb_true_iff in HL. apply negb_true_iff in HR. rewrite HL, HR in H. discriminate.
Qed.
