package lib

import (
	"encoding/json"
	"flag"
	"fmt"
	"os"
	"path/filepath"
	"strings"
)

// Check names a boolean function of the model side, applied to every case inside Coq.
// Kind "tie": model output equals the implementation's observation (correspondence).
// Kind "spec": the property's executable oracle accepts the implementation's observation.
type Check struct {
	Name string `json:"name"` // e.g. "tie", "spec_at_watermark"
	Kind string `json:"kind"` // "tie" | "spec"
	Fn   string `json:"fn"`   // Coq term of type case -> bool
}

// Sidecar is what the driver reads next to cases.v.
type Sidecar struct {
	Property           string                 `json:"property"`
	Seed               int64                  `json:"seed"`
	Tier               string                 `json:"tier"`
	Evaluations        int                    `json:"evaluations"`
	DistinctNontrivial int                    `json:"distinct_nontrivial"`
	Rule               string                 `json:"rule"`
	Samples            []interface{}          `json:"samples"`
	Distribution       map[string]interface{} `json:"distribution"`
	Cases              []interface{}          `json:"cases"`           // human-readable case + observation, same index as in cases.v
	Classes            map[string]string      `json:"classes"`         // case index -> known-finding class it falls in
	ImplViolations     []ImplViolation        `json:"impl_violations"` // found by the Go side directly (panics, exit codes, oracles run in Go)
	Checks             []Check                `json:"checks"`
	Notes              []string               `json:"notes"`
}

type ImplViolation struct {
	Index int    `json:"index"`
	What  string `json:"what"`
	Class string `json:"class,omitempty"`
}

// CaseFile accumulates cases and writes cases.v + cases.json.
type CaseFile struct {
	Imports  []string
	Preamble []string // extra Coq lines before the cases
	CaseType string
	Items    []string
	Checks   []Check
	Side     Sidecar
	seen     map[string]bool
	nontriv  map[string]bool
}

func NewCaseFile(property string, seed int64, tier string) *CaseFile {
	return &CaseFile{Side: Sidecar{Property: property, Seed: seed, Tier: tier, Distribution: map[string]interface{}{}, Classes: map[string]string{}},
		seen: map[string]bool{}, nontriv: map[string]bool{}}
}

// Add appends a case. coq is the Coq term; js the readable form; nontrivial per the engine's rule.
func (c *CaseFile) Add(coq string, js interface{}, nontrivial bool) int {
	idx := len(c.Items)
	c.Items = append(c.Items, coq)
	c.Side.Cases = append(c.Side.Cases, js)
	c.seen[coq] = true
	if nontrivial {
		c.nontriv[coq] = true
	}
	if len(c.Side.Samples) < 3 {
		c.Side.Samples = append(c.Side.Samples, js)
	}
	return idx
}

func (c *CaseFile) Count(key string) {
	n, _ := c.Side.Distribution[key].(int)
	c.Side.Distribution[key] = n + 1
}

func (c *CaseFile) SetClass(idx int, class string) { c.Side.Classes[fmt.Sprint(idx)] = class }

func (c *CaseFile) Violation(idx int, what, class string) {
	c.Side.ImplViolations = append(c.Side.ImplViolations, ImplViolation{Index: idx, What: what, Class: class})
}

const chunk = 100

func (c *CaseFile) Write(dir string) error {
	if err := os.MkdirAll(dir, 0o755); err != nil {
		return err
	}
	var b strings.Builder
	for _, imp := range c.Imports {
		fmt.Fprintf(&b, "From Octo Require Import %s.\n", imp)
	}
	b.WriteString("Open Scope Z_scope.\n")
	for _, l := range c.Preamble {
		b.WriteString(l + "\n")
	}
	var names []string
	for i := 0; i < len(c.Items); i += chunk {
		j := i + chunk
		if j > len(c.Items) {
			j = len(c.Items)
		}
		name := fmt.Sprintf("cases_%d", i/chunk)
		names = append(names, name)
		fmt.Fprintf(&b, "Definition %s : list (%s) := [\n  %s\n].\n", name, c.CaseType, strings.Join(c.Items[i:j], ";\n  "))
	}
	if len(names) == 0 {
		fmt.Fprintf(&b, "Definition cases : list (%s) := [].\n", c.CaseType)
	} else {
		fmt.Fprintf(&b, "Definition cases : list (%s) := %s.\n", c.CaseType, strings.Join(names, " ++ "))
	}
	for _, ch := range c.Checks {
		fmt.Fprintf(&b, "Definition %s_bad := Eval vm_compute in bad_indices (%s) cases.\nPrint %s_bad.\n", ch.Name, ch.Fn, ch.Name)
	}
	if err := os.WriteFile(filepath.Join(dir, "cases.v"), []byte(b.String()), 0o644); err != nil {
		return err
	}
	c.Side.Evaluations = len(c.Items)
	c.Side.DistinctNontrivial = len(c.nontriv)
	c.Side.Distribution["distinct_cases"] = len(c.seen)
	c.Side.Checks = c.Checks
	js, err := json.MarshalIndent(c.Side, "", " ")
	if err != nil {
		return err
	}
	return os.WriteFile(filepath.Join(dir, "cases.json"), js, 0o644)
}

// StdFlags parses the flags every engine takes:  run -seed N -tier quick|thorough -out DIR [-n N]
type Flags struct {
	Cmd  string
	Seed int64
	Tier string
	Out  string
	N    int
	Args []string
}

func ParseFlags() Flags {
	if len(os.Args) < 2 {
		fmt.Fprintln(os.Stderr, "usage: <engine> run|gen -seed N -tier quick|thorough -out DIR")
		os.Exit(2)
	}
	f := Flags{Cmd: os.Args[1]}
	fs := flag.NewFlagSet(os.Args[1], flag.ExitOnError)
	fs.Int64Var(&f.Seed, "seed", 1, "seed")
	fs.StringVar(&f.Tier, "tier", "quick", "tier")
	fs.StringVar(&f.Out, "out", ".", "output directory")
	fs.IntVar(&f.N, "n", 0, "number of cases (0 = tier default)")
	fs.Parse(os.Args[2:])
	f.Args = fs.Args()
	return f
}

func (f Flags) Cases(quick, thorough int) int {
	if f.N > 0 {
		return f.N
	}
	if f.Tier == "thorough" {
		return thorough
	}
	return quick
}
