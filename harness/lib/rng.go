// Package lib: shared pieces of the correspondence harness (PRNG, generators, Coq literal printer,
// scripted stream sources, case/evidence files).
package lib

// Rng is splitmix64; every random choice of a run derives from one VERIF_SEED.
type Rng struct{ s uint64 }

// NewRng scrambles the seed first, so that the streams of seeds k and k+1 are unrelated
// (with a linear seeding they would be the same stream shifted by one draw).
func NewRng(seed int64) *Rng {
	z := uint64(seed) + 0x632BE59BD9B4E019
	z = (z ^ (z >> 30)) * 0xBF58476D1CE4E5B9
	z = (z ^ (z >> 27)) * 0x94D049BB133111EB
	z ^= z >> 31
	return &Rng{s: z}
}

func (r *Rng) U64() uint64 {
	r.s += 0x9E3779B97F4A7C15
	z := r.s
	z = (z ^ (z >> 30)) * 0xBF58476D1CE4E5B9
	z = (z ^ (z >> 27)) * 0x94D049BB133111EB
	return z ^ (z >> 31)
}

// Intn returns a value in [0,n).
func (r *Rng) Intn(n int) int {
	if n <= 0 {
		return 0
	}
	return int(r.U64() % uint64(n))
}

func (r *Rng) Bool() bool { return r.U64()&1 == 1 }

// Chance is true with probability num/den.
func (r *Rng) Chance(num, den int) bool { return r.Intn(den) < num }

// Fork derives an independent stream (so case i does not depend on how many draws case i-1 made).
func (r *Rng) Fork() *Rng { return &Rng{s: r.U64()} }
