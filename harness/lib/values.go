package lib

import (
	"fmt"
	"math"
	"strings"
	"time"

	"github.com/cube2222/octosql/octosql"
)

// ZeroNs is the model's name for Go's zero time.Time.
const ZeroNs = "zero_ns"

// Ns renders an instant the way the model holds it.
func Ns(t time.Time) string {
	if t.IsZero() {
		return ZeroNs
	}
	return Z(t.UnixNano())
}

// Z renders an int64 as a Coq Z literal (parenthesised when negative).
func Z(z int64) string {
	if z < 0 {
		return fmt.Sprintf("(%d)", z)
	}
	return fmt.Sprintf("%d", z)
}

func U(z uint64) string { return fmt.Sprintf("%d", z) }

func CoqBool(b bool) string {
	if b {
		return "true"
	}
	return "false"
}

func CoqBytes(s string) string {
	parts := make([]string, len(s))
	for i := 0; i < len(s); i++ {
		parts[i] = fmt.Sprintf("%d", s[i])
	}
	return "[" + strings.Join(parts, ";") + "]"
}

func CoqList(items []string) string { return "[" + strings.Join(items, "; ") + "]" }

// locID gives a small stable identity to *time.Location pointers within one run.
var locIDs = map[*time.Location]int{}

func LocID(t time.Time) int {
	l := t.Location()
	if id, ok := locIDs[l]; ok {
		return id
	}
	id := len(locIDs)
	locIDs[l] = id
	return id
}

// CoqValue renders an octosql.Value as a term of Model/Values.v's [value].
func CoqValue(v octosql.Value) string {
	switch v.TypeID {
	case octosql.TypeIDNull:
		return "VNull"
	case octosql.TypeIDInt:
		return "(VInt " + Z(v.Int) + ")"
	case octosql.TypeIDFloat:
		return "(VFloat " + U(math.Float64bits(v.Float)) + ")"
	case octosql.TypeIDBoolean:
		return "(VBool " + CoqBool(v.Boolean) + ")"
	case octosql.TypeIDString:
		return "(VStr " + CoqBytes(v.Str) + ")"
	case octosql.TypeIDTime:
		return fmt.Sprintf("(VTime %s %d)", Ns(v.Time), LocID(v.Time))
	case octosql.TypeIDDuration:
		return "(VDur " + Z(int64(v.Duration)) + ")"
	case octosql.TypeIDList:
		return "(VList " + CoqValues(v.List) + ")"
	case octosql.TypeIDStruct:
		return "(VStruct " + CoqValues(v.Struct) + ")"
	case octosql.TypeIDTuple:
		return "(VTuple " + CoqValues(v.Tuple) + ")"
	}
	panic(fmt.Sprintf("CoqValue: unexpected type id %v", v.TypeID))
}

func CoqValues(vs []octosql.Value) string {
	parts := make([]string, len(vs))
	for i := range vs {
		parts[i] = CoqValue(vs[i])
	}
	return CoqList(parts)
}

// ---- generators ----

var EdgeInts = []int64{0, 1, -1, 2, 3, 7, -7, 42, math.MaxInt64, math.MinInt64, math.MaxInt64 - 1, math.MinInt64 + 1, 1 << 32, -(1 << 31)}

var EdgeFloats = []float64{0, math.Copysign(0, -1), 1, -1, 2, 0.5, -0.5, 1.5, math.Inf(1), math.Inf(-1), math.NaN(),
	math.Float64frombits(0x7FF8000000000002), math.Float64frombits(0xFFF8000000000001), // NaNs with other payloads / sign
	math.SmallestNonzeroFloat64, -math.SmallestNonzeroFloat64, math.MaxFloat64, -math.MaxFloat64, 1e100, 3.141592653589793}

var EdgeStrings = []string{"", "a", "b", "ab", "A", "aa", "a\x00", "é", "日本", "\xff", "a b", "%_", "\n", "z", "Ab"}

var utcPlus530a = time.FixedZone("", 5*3600+1800)
var utcPlus530b = time.FixedZone("", 5*3600+1800)

// EdgeTimes holds equal instants carried in different locations, the zero time, pre-epoch instants.
func EdgeTimes() []time.Time {
	base := time.Unix(1600000000, 0).UTC()
	return []time.Time{
		{}, time.Unix(0, 0).UTC(), time.Unix(0, 1).UTC(), time.Unix(0, -1).UTC(), time.Unix(-1, -500000000).UTC(),
		base, base.In(utcPlus530a), base.In(utcPlus530b), base.Add(time.Second), base.Add(-time.Second).In(utcPlus530a),
	}
}

var EdgeDurations = []time.Duration{0, 1, -1, time.Second, -time.Second, time.Hour, math.MaxInt64, math.MinInt64}

// ValueProfile selects which kinds a generator may draw.
type ValueProfile struct {
	Null, Int, Float, Bool, Str, Time, Dur, List, Struct, Tuple bool
	NoNaN                                                    bool
	SmallDomain                                              bool // tiny domains so that duplicates and equal keys are frequent
}

var ScalarProfile = ValueProfile{Null: true, Int: true, Float: true, Bool: true, Str: true, Time: true, Dur: true}
var AllProfile = ValueProfile{Null: true, Int: true, Float: true, Bool: true, Str: true, Time: true, Dur: true, List: true, Struct: true, Tuple: true}
var SmallProfile = ValueProfile{Null: true, Int: true, Str: true, Bool: true, SmallDomain: true}

func (p ValueProfile) kinds() []octosql.TypeID {
	var ks []octosql.TypeID
	add := func(ok bool, k octosql.TypeID) {
		if ok {
			ks = append(ks, k)
		}
	}
	add(p.Null, octosql.TypeIDNull)
	add(p.Int, octosql.TypeIDInt)
	add(p.Float, octosql.TypeIDFloat)
	add(p.Bool, octosql.TypeIDBoolean)
	add(p.Str, octosql.TypeIDString)
	add(p.Time, octosql.TypeIDTime)
	add(p.Dur, octosql.TypeIDDuration)
	add(p.List, octosql.TypeIDList)
	add(p.Struct, octosql.TypeIDStruct)
	add(p.Tuple, octosql.TypeIDTuple)
	return ks
}

// GenValue draws an edge-heavy value.
func GenValue(r *Rng, p ValueProfile, depth int) octosql.Value {
	ks := p.kinds()
	k := ks[r.Intn(len(ks))]
	if depth <= 0 {
		for k == octosql.TypeIDList || k == octosql.TypeIDStruct || k == octosql.TypeIDTuple {
			k = ks[r.Intn(len(ks))]
		}
	}
	return GenValueOfKind(r, p, k, depth)
}

func GenValueOfKind(r *Rng, p ValueProfile, k octosql.TypeID, depth int) octosql.Value {
	switch k {
	case octosql.TypeIDNull:
		return octosql.NewNull()
	case octosql.TypeIDInt:
		if p.SmallDomain {
			return octosql.NewInt(int64(r.Intn(3)))
		}
		if r.Chance(3, 4) {
			return octosql.NewInt(EdgeInts[r.Intn(len(EdgeInts))])
		}
		return octosql.NewInt(int64(r.U64()))
	case octosql.TypeIDFloat:
		for {
			var f float64
			if p.SmallDomain {
				f = []float64{0, math.Copysign(0, -1), 1, math.NaN()}[r.Intn(4)]
			} else if r.Chance(3, 4) {
				f = EdgeFloats[r.Intn(len(EdgeFloats))]
			} else {
				f = math.Float64frombits(r.U64())
			}
			if p.NoNaN && f != f {
				continue
			}
			return octosql.NewFloat(f)
		}
	case octosql.TypeIDBoolean:
		return octosql.NewBoolean(r.Bool())
	case octosql.TypeIDString:
		if p.SmallDomain {
			return octosql.NewString([]string{"", "a", "b"}[r.Intn(3)])
		}
		if r.Chance(3, 4) {
			return octosql.NewString(EdgeStrings[r.Intn(len(EdgeStrings))])
		}
		n := r.Intn(6)
		b := make([]byte, n)
		for i := range b {
			b[i] = byte(r.Intn(256))
		}
		return octosql.NewString(string(b))
	case octosql.TypeIDTime:
		ts := EdgeTimes()
		if r.Chance(3, 4) {
			return octosql.NewTime(ts[1+r.Intn(len(ts)-1)]) // never the zero time as a *value* (UnixNano of it is undefined)
		}
		return octosql.NewTime(time.Unix(0, int64(r.U64()>>2)-(1<<60)).UTC())
	case octosql.TypeIDDuration:
		if r.Chance(3, 4) {
			return octosql.NewDuration(EdgeDurations[r.Intn(len(EdgeDurations))])
		}
		return octosql.NewDuration(time.Duration(r.U64()))
	case octosql.TypeIDList, octosql.TypeIDStruct, octosql.TypeIDTuple:
		n := r.Intn(4)
		vs := make([]octosql.Value, n)
		for i := range vs {
			vs[i] = GenValue(r, p, depth-1)
		}
		switch k {
		case octosql.TypeIDList:
			return octosql.NewList(vs)
		case octosql.TypeIDStruct:
			return octosql.NewStruct(vs)
		default:
			return octosql.NewTuple(vs)
		}
	}
	panic("GenValueOfKind")
}

// ValueJSON renders a value for evidence samples / replay files (human readable).
func ValueJSON(v octosql.Value) interface{} {
	switch v.TypeID {
	case octosql.TypeIDNull:
		return nil
	case octosql.TypeIDInt:
		return map[string]interface{}{"int": fmt.Sprint(v.Int)}
	case octosql.TypeIDFloat:
		return map[string]interface{}{"float_bits": fmt.Sprintf("0x%016x", math.Float64bits(v.Float)), "float": fmt.Sprint(v.Float)}
	case octosql.TypeIDBoolean:
		return v.Boolean
	case octosql.TypeIDString:
		return map[string]interface{}{"str": fmt.Sprintf("%q", v.Str)}
	case octosql.TypeIDTime:
		return map[string]interface{}{"time_ns": Ns(v.Time), "loc": LocID(v.Time)}
	case octosql.TypeIDDuration:
		return map[string]interface{}{"dur": fmt.Sprint(int64(v.Duration))}
	case octosql.TypeIDList, octosql.TypeIDStruct, octosql.TypeIDTuple:
		var vs []octosql.Value
		tag := "list"
		switch v.TypeID {
		case octosql.TypeIDList:
			vs = v.List
		case octosql.TypeIDStruct:
			vs, tag = v.Struct, "struct"
		default:
			vs, tag = v.Tuple, "tuple"
		}
		out := make([]interface{}, len(vs))
		for i := range vs {
			out[i] = ValueJSON(vs[i])
		}
		return map[string]interface{}{tag: out}
	}
	return "?"
}

func ValuesJSON(vs []octosql.Value) []interface{} {
	out := make([]interface{}, len(vs))
	for i := range vs {
		out[i] = ValueJSON(vs[i])
	}
	return out
}
