package lib

import (
	"context"
	"errors"
	"fmt"
	"strings"
	"time"

	. "github.com/cube2222/octosql/execution"
	"github.com/cube2222/octosql/octosql"
)

// Event is one element of a scripted stream / of a recorded output.
type Event struct {
	IsWM bool
	Rec  Record
	WM   time.Time
	Fail bool // the source returns an error at this position
}

var ErrInjected = errors.New("verif: injected source failure")

// ScriptSource replays a script as an execution.Node.
type ScriptSource struct{ Events []Event }

func (s *ScriptSource) Run(ctx ExecutionContext, produce ProduceFn, metaSend MetaSendFn) error {
	pctx := ProduceFromExecutionContext(ctx)
	for _, e := range s.Events {
		switch {
		case e.Fail:
			return ErrInjected
		case e.IsWM:
			if err := metaSend(pctx, MetadataMessage{Type: MetadataMessageTypeWatermark, Watermark: e.WM}); err != nil {
				return err
			}
		default:
			// hand the node its own copy of the values slice, as a datasource would
			vals := make([]octosql.Value, len(e.Rec.Values))
			copy(vals, e.Rec.Values)
			if err := produce(pctx, NewRecord(vals, e.Rec.Retraction, e.Rec.EventTime)); err != nil {
				return err
			}
		}
	}
	return nil
}

// RunNode runs a node to completion and records everything it emits, in order.
// A Go panic inside the node is caught and reported.
func RunNode(n Node) (out []Event, err error, panicked interface{}) {
	defer func() {
		if p := recover(); p != nil {
			panicked = p
		}
	}()
	ctx := ExecutionContext{Context: context.Background(), VariableContext: nil}
	err = n.Run(ctx,
		func(ctx ProduceContext, record Record) error {
			vals := make([]octosql.Value, len(record.Values))
			copy(vals, record.Values)
			out = append(out, Event{Rec: NewRecord(vals, record.Retraction, record.EventTime)})
			return nil
		},
		func(ctx ProduceContext, msg MetadataMessage) error {
			if msg.Type == MetadataMessageTypeWatermark {
				out = append(out, Event{IsWM: true, WM: msg.Watermark})
			}
			return nil
		})
	return
}

// CoqEvent renders an event as a term of Model/Changelog.v's [event].
func CoqEvent(e Event) string {
	if e.IsWM {
		return "(WM " + Ns(e.WM) + ")"
	}
	return fmt.Sprintf("(Rec (mkrec %s %s %s))", CoqValues(e.Rec.Values), CoqBool(e.Rec.Retraction), Ns(e.Rec.EventTime))
}

func CoqEvents(es []Event) string {
	parts := make([]string, len(es))
	for i := range es {
		parts[i] = CoqEvent(es[i])
	}
	return CoqList(parts)
}

func EventJSON(e Event) interface{} {
	if e.Fail {
		return "FAIL"
	}
	if e.IsWM {
		return map[string]interface{}{"wm": Ns(e.WM)}
	}
	sign := "+"
	if e.Rec.Retraction {
		sign = "-"
	}
	return map[string]interface{}{"rec": sign, "vals": ValuesJSON(e.Rec.Values), "et": Ns(e.Rec.EventTime)}
}

func EventsJSON(es []Event) []interface{} {
	out := make([]interface{}, len(es))
	for i := range es {
		out[i] = EventJSON(es[i])
	}
	return out
}

func EventsString(es []Event) string {
	var b strings.Builder
	for _, e := range es {
		b.WriteString(CoqEvent(e))
		b.WriteByte(' ')
	}
	return b.String()
}

// T builds an event time from a small integer (0 = Go's zero time, i.e. "no event time").
func T(n int64) time.Time {
	if n == 0 {
		return time.Time{}
	}
	return time.Unix(0, n).UTC()
}
