// Package c18kit: pieces shared by the engines c18, c20 and c21 — exact rendering of instants, construction
// of the real table-valued-function nodes through their Materialize functions, outcome recording.
package c18kit

import (
	"context"
	"fmt"
	"math/big"
	"time"

	"github.com/cube2222/octosql/execution"
	"github.com/cube2222/octosql/execution/nodes"
	"github.com/cube2222/octosql/octosql"
	"github.com/cube2222/octosql/physical"
	tvf "github.com/cube2222/octosql/table_valued_functions"

	"verifharness/lib"
)

// NsExact renders an instant as the model holds it: nanoseconds since the Unix epoch as an unbounded
// integer (UnixNano() would wrap for instants near Go's zero time).
func NsExact(t time.Time) string {
	if t.IsZero() {
		return lib.ZeroNs
	}
	z := new(big.Int).Mul(big.NewInt(t.Unix()), big.NewInt(1000000000))
	z.Add(z, big.NewInt(int64(t.Nanosecond())))
	if z.Sign() < 0 {
		return "(" + z.String() + ")"
	}
	return z.String()
}

func CoqValue(v octosql.Value) string {
	if v.TypeID == octosql.TypeIDTime {
		return fmt.Sprintf("(VTime %s 0)", NsExact(v.Time)) // the location is not part of any property here
	}
	if v.TypeID == octosql.TypeIDList {
		return "(VList " + CoqValues(v.List) + ")"
	}
	return lib.CoqValue(v)
}

func CoqValues(vs []octosql.Value) string {
	parts := make([]string, len(vs))
	for i := range vs {
		parts[i] = CoqValue(vs[i])
	}
	return lib.CoqList(parts)
}

func CoqEvent(e lib.Event) string {
	if e.IsWM {
		return "(WM " + NsExact(e.WM) + ")"
	}
	return fmt.Sprintf("(Rec (mkrec %s %s %s))", CoqValues(e.Rec.Values), lib.CoqBool(e.Rec.Retraction), NsExact(e.Rec.EventTime))
}

func CoqEvents(es []lib.Event) string {
	parts := make([]string, len(es))
	for i := range es {
		parts[i] = CoqEvent(es[i])
	}
	return lib.CoqList(parts)
}

func valueJSON(v octosql.Value) interface{} {
	if v.TypeID == octosql.TypeIDTime {
		return "time:" + NsExact(v.Time)
	}
	return v.String()
}

func EventsJSON(es []lib.Event) []interface{} {
	out := make([]interface{}, len(es))
	for i, e := range es {
		switch {
		case e.Fail:
			out[i] = "FAIL"
		case e.IsWM:
			out[i] = map[string]interface{}{"wm": NsExact(e.WM)}
		default:
			sign := "+"
			if e.Rec.Retraction {
				sign = "-"
			}
			vals := make([]interface{}, len(e.Rec.Values))
			for j := range vals {
				vals[j] = valueJSON(e.Rec.Values[j])
			}
			out[i] = map[string]interface{}{"rec": sign, "vals": vals, "et": NsExact(e.Rec.EventTime)}
		}
	}
	return out
}

// Kind: 0 = returned nil, 1 = returned an error, 2 = panicked.
func Kind(err error, panicked interface{}) int {
	switch {
	case panicked != nil:
		return 2
	case err != nil:
		return 1
	}
	return 0
}

// ---- construction of the real nodes ----

type fixedSource struct{ node execution.Node }

func (f fixedSource) Materialize(ctx context.Context, env physical.Environment, schema physical.Schema, pushedDownPredicates []physical.Expression) (execution.Node, error) {
	return f.node, nil
}
func (f fixedSource) PushDownPredicates(newPredicates, pushedDownPredicates []physical.Expression) (rejected, pushedDown []physical.Expression, changed bool) {
	return newPredicates, pushedDownPredicates, false
}

func fieldName(i int) string { return fmt.Sprintf("f%d", i) }

// tableArg wraps an execution node as the physical TABLE argument of a table valued function, with
// nfields columns named f0..; column timeIdx (if >= 0) is typed Time.
func tableArg(src execution.Node, nfields, timeIdx int) physical.TableValuedFunctionArgument {
	return tableArgSchema(src, nfields, []int{timeIdx}, -1)
}

// tableArgSchema: the columns timeCols are typed Time; schemaTimeField is the TimeField of the source's
// schema (-1: the source has no event time field of its own; >= 0: it has one, as the output of poll,
// max_diff_watermark or another tumble does).
func tableArgSchema(src execution.Node, nfields int, timeCols []int, schemaTimeField int) physical.TableValuedFunctionArgument {
	fields := make([]physical.SchemaField, nfields)
	mapping := map[string]string{}
	for i := range fields {
		t := octosql.Any
		for _, c := range timeCols {
			if i == c {
				t = octosql.Time
			}
		}
		fields[i] = physical.SchemaField{Name: fieldName(i), Type: t}
		mapping["s."+fieldName(i)] = fieldName(i)
	}
	node := physical.Node{
		Schema:   physical.NewSchema(fields, schemaTimeField),
		NodeType: physical.NodeTypeDatasource,
		Datasource: &physical.Datasource{
			Name: "s", Alias: "s", DatasourceImplementation: fixedSource{src}, VariableMapping: mapping,
		},
	}
	return physical.TableValuedFunctionArgument{
		TableValuedFunctionArgumentType: physical.TableValuedFunctionArgumentTypeTable,
		Table:                           &physical.TableValuedFunctionArgumentTable{Table: node},
	}
}

func constArg(v octosql.Value, t octosql.Type) physical.TableValuedFunctionArgument {
	return physical.TableValuedFunctionArgument{
		TableValuedFunctionArgumentType: physical.TableValuedFunctionArgumentTypeExpression,
		Expression: &physical.TableValuedFunctionArgumentExpression{Expression: physical.Expression{
			Type: t, ExpressionType: physical.ExpressionTypeConstant, Constant: &physical.Constant{Value: v},
		}},
	}
}

func descArg(name string) physical.TableValuedFunctionArgument {
	return physical.TableValuedFunctionArgument{
		TableValuedFunctionArgumentType: physical.TableValuedFunctionArgumentTypeDescriptor,
		Descriptor:                      &physical.TableValuedFunctionArgumentDescriptor{Descriptor: name},
	}
}

// Arguments of a table valued function may be constants or variables of the enclosing variable context
// (a correlated subquery: range(start => 0, end => r.i)).  varEnv declares the outer record v0..v3; the
// values are supplied per run through RunInContext.
var env = physical.Environment{VariableContext: &physical.VariableContext{Fields: []physical.SchemaField{
	{Name: "v0", Type: octosql.Any}, {Name: "v1", Type: octosql.Any}, {Name: "v2", Type: octosql.Any}, {Name: "v3", Type: octosql.Any},
}}}

func varArg(i int, t octosql.Type) physical.TableValuedFunctionArgument {
	return physical.TableValuedFunctionArgument{
		TableValuedFunctionArgumentType: physical.TableValuedFunctionArgumentTypeExpression,
		Expression: &physical.TableValuedFunctionArgumentExpression{Expression: physical.Expression{
			Type: t, ExpressionType: physical.ExpressionTypeVariable, Variable: &physical.Variable{Name: fmt.Sprintf("v%d", i), IsLevel0: true},
		}},
	}
}

// MdwVar, TumbleVar, RangeVar: the same nodes with their scalar arguments read from the outer record
// (max_diff = v0, resolution = v1; window_length = v0, offset = v1; start = v0, end = v1).
func MdwVar(src execution.Node, idx, nfields int) (execution.Node, error) {
	return tvf.MaxDiffWatermark.Descriptors[0].Materialize(context.Background(), env, map[string]physical.TableValuedFunctionArgument{
		"source":     tableArg(src, nfields, idx),
		"max_diff":   varArg(0, octosql.Duration),
		"time_field": descArg(fieldName(idx)),
		"resolution": varArg(1, octosql.Duration),
	})
}

func TumbleVar(src execution.Node, idx, nfields int) (execution.Node, error) {
	return tvf.Tumble.Descriptors[0].Materialize(context.Background(), env, map[string]physical.TableValuedFunctionArgument{
		"source":        tableArg(src, nfields, idx),
		"window_length": varArg(0, octosql.Duration),
		"time_field":    descArg(fieldName(idx)),
		"offset":        varArg(1, octosql.Duration),
	})
}

func RangeVar() (execution.Node, error) {
	return tvf.Range.Descriptors[0].Materialize(context.Background(), env, map[string]physical.TableValuedFunctionArgument{
		"start": varArg(0, octosql.Int),
		"end":   varArg(1, octosql.Int),
	})
}

// ResettableSource replays whatever script it currently holds; a node built over it can be run again
// on another script.
type ResettableSource struct{ Events []lib.Event }

func (s *ResettableSource) Run(ctx execution.ExecutionContext, produce execution.ProduceFn, metaSend execution.MetaSendFn) error {
	return (&lib.ScriptSource{Events: s.Events}).Run(ctx, produce, metaSend)
}

// Mdw builds max_diff_watermark(source, max_diff, time_field, resolution) the way the planner does.
func Mdw(src execution.Node, md, res time.Duration, idx, nfields int) (execution.Node, error) {
	return tvf.MaxDiffWatermark.Descriptors[0].Materialize(context.Background(), env, map[string]physical.TableValuedFunctionArgument{
		"source":     tableArg(src, nfields, idx),
		"max_diff":   constArg(octosql.NewDuration(md), octosql.Duration),
		"time_field": descArg(fieldName(idx)),
		"resolution": constArg(octosql.NewDuration(res), octosql.Duration),
	})
}

// Tumble builds tumble(source, window_length, time_field, offset).
func Tumble(src execution.Node, length, offset time.Duration, idx, nfields int) (execution.Node, error) {
	return tvf.Tumble.Descriptors[0].Materialize(context.Background(), env, map[string]physical.TableValuedFunctionArgument{
		"source":        tableArg(src, nfields, idx),
		"window_length": constArg(octosql.NewDuration(length), octosql.Duration),
		"time_field":    descArg(fieldName(idx)),
		"offset":        constArg(octosql.NewDuration(offset), octosql.Duration),
	})
}

// TumbleOverTimedSource builds tumble over a source whose schema already has an event time field
// (column schemaTimeField).  explicit >= 0: time_field => DESCRIPTOR(f<explicit>) is passed and must win;
// explicit < 0: no time_field argument, the source's own time field is used.
func TumbleOverTimedSource(src execution.Node, length, offset time.Duration, nfields int, timeCols []int, schemaTimeField, explicit int) (execution.Node, error) {
	args := map[string]physical.TableValuedFunctionArgument{
		"source":        tableArgSchema(src, nfields, timeCols, schemaTimeField),
		"window_length": constArg(octosql.NewDuration(length), octosql.Duration),
		"offset":        constArg(octosql.NewDuration(offset), octosql.Duration),
	}
	if explicit >= 0 {
		args["time_field"] = descArg(fieldName(explicit))
	}
	return tvf.Tumble.Descriptors[0].Materialize(context.Background(), env, args)
}

// Range builds range(start, end).
func Range(a, b int64) (execution.Node, error) {
	return tvf.Range.Descriptors[0].Materialize(context.Background(), env, map[string]physical.TableValuedFunctionArgument{
		"start": constArg(octosql.NewInt(a), octosql.Int),
		"end":   constArg(octosql.NewInt(b), octosql.Int),
	})
}

// Poll builds poll(source, poll_interval).  The interval argument is built with the argument kind the
// function's own descriptor declares for it (the pinned tree declares a DESCRIPTOR there and then reads an
// expression, a nil dereference in Materialize).
func Poll(src execution.Node, nfields int, interval time.Duration) (execution.Node, error) {
	args := map[string]physical.TableValuedFunctionArgument{"source": tableArg(src, nfields, -1)}
	switch tvf.Poll.Descriptors[0].Arguments["poll_interval"].TableValuedFunctionArgumentMatcherType {
	case physical.TableValuedFunctionArgumentTypeExpression:
		args["poll_interval"] = constArg(octosql.NewDuration(interval), octosql.Duration)
	case physical.TableValuedFunctionArgumentTypeDescriptor:
		args["poll_interval"] = descArg(fieldName(0))
	}
	return tvf.Poll.Descriptors[0].Materialize(context.Background(), env, args)
}

// ---- pass-through nodes, wired as physical/nodes.go does ----
func Filter(src execution.Node, idx int) execution.Node {
	return nodes.NewFilter(src, execution.NewVariable(0, idx))
}
func Map(src execution.Node, idxs []int) execution.Node {
	exprs := make([]execution.Expression, len(idxs))
	for i, ix := range idxs {
		exprs[i] = execution.NewVariable(0, ix)
	}
	return nodes.NewMap(src, exprs)
}
func Unnest(src execution.Node, idx int) execution.Node { return nodes.NewUnnest(src, idx) }
func Limit(src execution.Node, n int64) execution.Node {
	return nodes.NewLimit(src, execution.NewConstant(octosql.NewInt(n)))
}
func Distinct(src execution.Node) execution.Node { return nodes.NewDistinct(src) }

// OrderBy builds OrderSensitiveTransform: keys are columns, desc[i] selects the direction multiplier -1.
func OrderBy(src execution.Node, cols []int, desc []bool, limit *int64, noRetractions bool) execution.Node {
	mult := make([]int, len(cols))
	for i := range cols {
		mult[i] = 1
		if desc[i] {
			mult[i] = -1
		}
	}
	var lim *execution.Expression
	if limit != nil {
		var e execution.Expression = execution.NewConstant(octosql.NewInt(*limit))
		lim = &e
	}
	keys := make([]execution.Expression, len(cols))
	for i, c := range cols {
		keys[i] = execution.NewVariable(0, c)
	}
	return nodes.NewOrderSensitiveTransform(src, keys, mult, lim, noRetractions)
}
func Buffer(src execution.Node) execution.Node { return nodes.NewEventTimeBuffer(src) }

// ---- a source for poll: emits snapshot k on its k-th run and fails after the last one ----
type SnapshotSource struct {
	Rounds   [][]lib.Event
	Calls    int
	Returned bool        // set when a run has just ended normally: the next watermark seen downstream is poll's own
	Starts   []time.Time // when each run began / ended: poll reads its clock between the end of run k-1 and the start of run k
	Ends     []time.Time
}

func (s *SnapshotSource) Run(ctx execution.ExecutionContext, produce execution.ProduceFn, metaSend execution.MetaSendFn) error {
	k := s.Calls
	s.Calls++
	s.Starts = append(s.Starts, time.Now())
	if k >= len(s.Rounds) {
		return lib.ErrInjected
	}
	if err := (&lib.ScriptSource{Events: s.Rounds[k]}).Run(ctx, produce, metaSend); err != nil {
		return err
	}
	s.Returned = true
	s.Ends = append(s.Ends, time.Now())
	return nil
}

var ErrTooManyRecords = fmt.Errorf("verif: the node emitted more records than the case can account for")

// RunRecording is lib.RunNode plus a callback on every watermark (used to tell poll's own watermarks apart).
func RunRecording(n execution.Node, onWM func(index int)) (out []lib.Event, err error, panicked interface{}) {
	return RunLimited(n, onWM, 1<<30)
}

// RunLimited stops a runaway node: produce fails once more than limit events were recorded.
func RunLimited(n execution.Node, onWM func(index int), limit int) (out []lib.Event, err error, panicked interface{}) {
	return RunInContext(n, nil, onWM, limit)
}

// RunInContext runs the node with outer holding the values of the outer record v0.. (nil: no outer record).
func RunInContext(n execution.Node, outer []octosql.Value, onWM func(index int), limit int) (out []lib.Event, err error, panicked interface{}) {
	defer func() {
		if p := recover(); p != nil {
			panicked = p
		}
	}()
	ctx := execution.ExecutionContext{Context: context.Background(), VariableContext: nil}
	if outer != nil {
		ctx.VariableContext = &execution.VariableContext{Values: outer}
	}
	err = n.Run(ctx,
		func(ctx execution.ProduceContext, record execution.Record) error {
			vals := make([]octosql.Value, len(record.Values))
			copy(vals, record.Values)
			if len(out) >= limit {
				return ErrTooManyRecords
			}
			out = append(out, lib.Event{Rec: execution.NewRecord(vals, record.Retraction, record.EventTime)})
			return nil
		},
		func(ctx execution.ProduceContext, msg execution.MetadataMessage) error {
			if msg.Type == execution.MetadataMessageTypeWatermark {
				out = append(out, lib.Event{IsWM: true, WM: msg.Watermark})
				if onWM != nil {
					onWM(len(out) - 1)
				}
			}
			return nil
		})
	return
}
