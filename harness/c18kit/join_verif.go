//go:build verif

package c18kit

import (
	"context"
	"fmt"
	"time"

	"github.com/cube2222/octosql/aggregates"
	"github.com/cube2222/octosql/execution"
	"github.com/cube2222/octosql/execution/nodes"
	"github.com/cube2222/octosql/octosql"

	"verifharness/lib"
)

// Messages of one join input.
const (
	JRec = iota
	JWM
	JClose
)

type JMsg struct {
	Kind int
	Rec  execution.Record
	WM   time.Time
}

// gatedSource hands out one message of its script per token received on gate.
type gatedSource struct {
	msgs []JMsg
	gate chan struct{}
	quit chan struct{}
}

func (g *gatedSource) Run(ctx execution.ExecutionContext, produce execution.ProduceFn, metaSend execution.MetaSendFn) error {
	pctx := execution.ProduceFromExecutionContext(ctx)
	for _, m := range g.msgs {
		select {
		case <-g.gate:
		case <-g.quit:
			return nil
		}
		switch m.Kind {
		case JRec:
			vals := make([]octosql.Value, len(m.Rec.Values))
			copy(vals, m.Rec.Values)
			if err := produce(pctx, execution.NewRecord(vals, m.Rec.Retraction, m.Rec.EventTime)); err != nil {
				return err
			}
		case JWM:
			if err := metaSend(pctx, execution.MetadataMessage{Type: execution.MetadataMessageTypeWatermark, Watermark: m.WM}); err != nil {
				return err
			}
		case JClose:
			return nil
		}
	}
	return nil
}

var joinAck chan [2]int

func init() {
	// the hook of execution/nodes (build tag verif): called after every message a join takes
	nodes.VerifJoinRecv = func(side, kind int) {
		if ch := joinAck; ch != nil {
			ch <- [2]int{side, kind}
		}
	}
}

func vars(cols []int) []execution.Expression {
	out := make([]execution.Expression, len(cols))
	for i, c := range cols {
		out[i] = execution.NewVariable(0, c)
	}
	return out
}

// RunJoin runs StreamJoin (joinKind 0) or OuterJoin (1 left, 2 right, 3 full) over two scripts, each ending
// in JClose, consumed exactly in the order given by schedule (true = next message of the left input).
func RunJoin(joinKind int, left, right []JMsg, nl, nr int, kl, kr []int, schedule []bool) (out []lib.Event, kind int, note string) {
	quit := make(chan struct{})
	srcs := [2]*gatedSource{{msgs: left, gate: make(chan struct{}), quit: quit}, {msgs: right, gate: make(chan struct{}), quit: quit}}
	var node execution.Node
	if joinKind == 0 {
		node = nodes.NewStreamJoin(srcs[0], srcs[1], vars(kl), vars(kr))
	} else {
		node = nodes.NewOuterJoin(srcs[0], srcs[1], nl, nr, vars(kl), vars(kr), joinKind == 1 || joinKind == 3, joinKind == 2 || joinKind == 3)
	}
	ack := make(chan [2]int)
	joinAck = ack
	defer func() { joinAck = nil; close(quit) }()
	type result struct {
		out []lib.Event
		err error
		p   interface{}
	}
	done := make(chan result, 1)
	go func() {
		var res result
		defer func() {
			if p := recover(); p != nil {
				res.p = p
			}
			done <- res
		}()
		res.out, res.err, _ = func() ([]lib.Event, error, interface{}) {
			var o []lib.Event
			ctx := execution.ExecutionContext{Context: context.Background()}
			err := node.Run(ctx,
				func(ctx execution.ProduceContext, record execution.Record) error {
					vals := make([]octosql.Value, len(record.Values))
					copy(vals, record.Values)
					o = append(o, lib.Event{Rec: execution.NewRecord(vals, record.Retraction, record.EventTime)})
					res.out = o
					return nil
				},
				func(ctx execution.ProduceContext, msg execution.MetadataMessage) error {
					if msg.Type == execution.MetadataMessageTypeWatermark {
						o = append(o, lib.Event{IsWM: true, WM: msg.Watermark})
						res.out = o
					}
					return nil
				})
			return o, err, nil
		}()
	}()
	finish := func(res result) ([]lib.Event, int, string) {
		switch {
		case res.p != nil:
			return res.out, 2, fmt.Sprintf("panic: %v", res.p)
		case res.err != nil:
			return res.out, 1, res.err.Error()
		}
		return res.out, 0, note
	}
	timeout := time.After(20 * time.Second)
	pos := [2]int{}
	for _, l := range schedule {
		side := 1
		if l {
			side = 0
		}
		want := map[int]int{JRec: nodes.VerifJoinRecord, JWM: nodes.VerifJoinMetadata, JClose: nodes.VerifJoinClose}[srcs[side].msgs[pos[side]].Kind]
		pos[side]++
		select {
		case srcs[side].gate <- struct{}{}:
		case res := <-done:
			return finish(res)
		case <-timeout:
			return nil, 2, "harness: timeout releasing a message"
		}
		select {
		case a := <-ack:
			if a[0] != side || a[1] != want {
				note = fmt.Sprintf("the join took (side %d, kind %d) where the schedule released (side %d, kind %d)", a[0], a[1], side, want)
			}
		case res := <-done:
			return finish(res)
		case <-timeout:
			return nil, 2, "harness: timeout waiting for the join to take a message"
		}
	}
	select {
	case res := <-done:
		return finish(res)
	case <-timeout:
		return nil, 2, "harness: timeout waiting for the join to return"
	}
}

// ---- group by with triggers, wired as physical/nodes.go does ----
type Trig struct {
	Kind int // 0 counting, 1 watermark, 2 end of stream
	N    uint
}

func trigProto(t Trig, timeKey int) func() execution.Trigger {
	switch t.Kind {
	case 0:
		return execution.NewCountingTriggerPrototype(t.N)
	case 1:
		return execution.NewWatermarkTriggerPrototype(timeKey)
	}
	return execution.NewEndOfStreamTriggerPrototype()
}

// GroupBy builds CustomTriggerGroupBy: keys = the columns keyCols, aggregates COUNT and SUM over column
// valCol, timeKey = index in keyCols of the key that is the stream's time field (-1: none).
func GroupBy(src execution.Node, keyCols []int, valCol, timeKey int, trigs []Trig) execution.Node {
	var proto func() execution.Trigger
	if len(trigs) == 1 {
		proto = trigProto(trigs[0], timeKey)
	} else {
		ps := make([]func() execution.Trigger, len(trigs))
		for i := range trigs {
			ps[i] = trigProto(trigs[i], timeKey)
		}
		proto = execution.NewMultiTriggerPrototype(ps)
	}
	return nodes.NewCustomTriggerGroupBy(
		[]func() nodes.Aggregate{aggregates.NewCountPrototype(), aggregates.NewSumIntPrototype()},
		[]execution.Expression{execution.NewVariable(0, valCol), execution.NewVariable(0, valCol)},
		vars(keyCols), timeKey, src, proto)
}
