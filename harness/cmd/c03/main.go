// c03: GROUP BY and aggregates through the built CLI: 0-3 key expressions, 0-4 aggregates (count, sum, avg, min,
// max, array_agg and the DISTINCT variants), NULL keys and NULL inputs, an outer WHERE over the grouping
// (HAVING), grouping inside subqueries and WITH; plus the two defects of the pinned tree (GROUP BY without an
// aggregate; an aggregate call without arguments).
package main

import (
	"fmt"
	"os"
	"path/filepath"

	"verifharness/cmd/c01/relq"
	"verifharness/lib"
)

func main() {
	f := lib.ParseFlags()
	if f.Cmd != "run" {
		fmt.Fprintln(os.Stderr, "c03: only 'run'")
		os.Exit(2)
	}
	out, _ := filepath.Abs(f.Out)
	work := filepath.Join(out, "work")
	home := filepath.Join(work, "home")
	os.MkdirAll(home, 0o755)
	bin, err := relq.BuildCLI(work)
	if err != nil {
		fmt.Fprintln(os.Stderr, err)
		os.Exit(2)
	}
	rng := lib.NewRng(f.Seed*1000003 + 17) // lib's streams for consecutive seeds are one step apart
	cf := lib.NewCaseFile("C03", f.Seed, f.Tier)
	cf.Imports = []string{"Rel"}
	cf.CaseType = "rel_case"
	cf.Checks = []lib.Check{{Name: "tie", Kind: "tie", Fn: "rel_tie"}, {Name: "spec", Kind: "spec", Fn: "rel_spec"}}
	cf.Side.Rule = "grouping queries (GROUP BY 0-3 key expressions incl. NULL keys, 0-4 aggregates count/sum/avg/min/max/array_agg with and " +
		"without DISTINCT, keys selected or not, outer WHERE over a grouping subquery, grouping under DISTINCT / ORDER BY / WITH) over 1-2 " +
		"generated CSV/JSON tables (0..8 rows, NULL-heavy, duplicates, ints at the int64 limits so that sums wrap), run through the built CLI " +
		"with -o json; select items with a fresh alias, without alias (generated names), with an alias repeating another column's alias or " +
		"generated name; TRIGGER COUNTING 1|2|3 / ON END OF STREAM on about a third of the grouping selects (observed through a top-level " +
		"ORDER BY, i.e. the OrderSensitiveTransform consolidating retractions, and again through -o stream_native and -o batch_table); " +
		"the Coq pipeline model has no triggers and no name generation: for those cases the column names come from the generator's copy of the " +
		"parser's naming rule and the check is the relational oracle (den_top) on the printed rows; " +
		"non-trivial = at least one output row; distinct by full case text."
	n := f.Cases(200, 2000)
	cases, err := relq.Generate(rng, n, relq.Profile{GroupBias: 9, MaxDepth: 1, AllowErrors: true, AliasShapes: true, AllowTriple: true, KeyClass: "c03-key-name", TriggerBias: 2, SimpleEvery: 3, Floats: true}, bin, home, work)
	if err != nil {
		fmt.Fprintln(os.Stderr, err)
		os.Exit(2)
	}
	// the TRIGGER family: keys that fire repeatedly, with unchanged and with changed aggregates
	trig, err := relq.Generate(rng, f.Cases(40, 400), relq.Profile{TrigFamily: true, Simple: true}, bin, home, filepath.Join(work, "trig"))
	if err != nil {
		fmt.Fprintln(os.Stderr, err)
		os.Exit(2)
	}
	cases = append(cases, trig...)
	// three more deterministic families: aggregate columns consumed by an enclosing query; many distinct Float keys
	// with both zeros; aggregates of an enclosing query over a TRIGGER COUNTING subquery
	for _, fam := range []struct {
		p   relq.Profile
		n   int
		dir string
	}{
		{relq.Profile{Having: true, Simple: true}, f.Cases(40, 400), "having"},
		{relq.Profile{ManyKeys: true}, f.Cases(6, 30), "manykeys"},
		{relq.Profile{Mixed: true}, f.Cases(24, 240), "mixed"},
		{relq.Profile{OuterTrig: true, Simple: true}, f.Cases(32, 320), "outertrig"},
	} {
		more, err := relq.Generate(rng, fam.n, fam.p, bin, home, filepath.Join(work, fam.dir))
		if err != nil {
			fmt.Fprintln(os.Stderr, err)
			os.Exit(2)
		}
		cases = append(cases, more...)
	}
	last := 0
	for _, c := range cases {
		last = relq.AddCase(cf, c)
	}
	// an aggregate call without arguments must be reported, not crash the process (pinned: index out of range)
	if len(cases) > 0 {
		c := cases[0]
		for _, q := range []string{"SELECT count() AS c FROM " + c.G.Tables[0].Name, "SELECT a AS k, sum() AS s FROM " + c.G.Tables[0].Name + " GROUP BY a"} {
			res := relq.RunCLI(bin, home, c.Dir, q, "-o", "json")
			cf.Count("aggregate_without_argument")
			if res.Crashed || res.ExitCode == 0 {
				cf.Violation(last, fmt.Sprintf("%q: expected an error message, got exit code %d: %.300s", q, res.ExitCode, res.Stderr), "")
			}
		}
	}
	// TRIGGER cases: the retraction stream of -o stream_native must consolidate to the rows, and the table printer
	// (which consolidates on its own) must show them; every 6th other case runs with the optimizer off
	type job struct {
		i    int
		mode string
	}
	var jobs []job
	for i, c := range cases {
		if len(c.G.Triggers) > 0 {
			jobs = append(jobs, job{i, "native_consolidated"})
			if i%2 == 0 {
				jobs = append(jobs, job{i, "batch_table"})
			}
		} else if i%6 == 0 {
			jobs = append(jobs, job{i, "noopt"})
		}
	}
	diffs := make([]string, len(jobs))
	relq.Parallel(len(jobs), 8, func(k int) { diffs[k] = relq.CrossCheck(cases[jobs[k].i], bin, home, jobs[k].mode) })
	for k, j := range jobs {
		cf.Count("crosscheck_" + j.mode)
		if diffs[k] != "" {
			cf.Violation(j.i, diffs[k], "")
		}
	}
	os.RemoveAll(filepath.Join(work, "home"))
	if err := cf.Write(f.Out); err != nil {
		fmt.Fprintln(os.Stderr, err)
		os.Exit(2)
	}
}
