// c17: when each trigger kind fires. Same node construction and generator as c16 (package gb), biased
// to pure trigger configurations, plus a bounded-exhaustive enumeration of small changelogs.
package main

import (
	"fmt"
	"os"

	"verifharness/cmd/c16/gb"
	"verifharness/lib"
)

// every case up to length 5 (11832 = 986 sequences x 2 event-time modes x 6 trigger kinds) is kept;
// of the 39156 length-6 cases a seeded sample of len6Sample is added (about 13000 cases in all).
const len6Sample = 1200

func main() {
	f := lib.ParseFlags()
	if f.Cmd != "run" {
		fmt.Fprintln(os.Stderr, "c17: only 'run'")
		os.Exit(2)
	}
	gb.Init()
	rng := lib.NewRng(f.Seed)
	cf := lib.NewCaseFile("C17", f.Seed, f.Tier)
	cf.Imports = []string{"TriggerSpec"}
	cf.CaseType = "gb_case"
	cf.Checks = []lib.Check{{Name: "tie", Kind: "tie", Fn: "gb_tie"}, {Name: "spec", Kind: "spec", Fn: "c17_spec"}}
	cf.Side.Rule = "bounded-exhaustive: every valid changelog over {+k1, +k2, -k1, -k2, WM} up to 6 events (k1 = time 2, k2 = time 4, i-th watermark = 2i-1), " +
		"event time = key instant or zero, for [COUNTING 2], [COUNTING 3], [ON WATERMARK], [ON WATERMARK; ON END OF STREAM], [], [COUNTING 2; ON WATERMARK] " +
		"(thorough: all up to length 5 and a seeded sample of length 6; quick: a seeded sample of 200); every valid sequence over {+kNull, -kNull, +k1, WM} up to 3 events (kNull: NULL time key) for [ON WATERMARK] and [COUNTING 2; ON WATERMARK]; plus random cases from the C16 generator, " +
		"2/3 of them with a pure trigger configuration; " + gb.Rule

	// the enumeration
	all := gb.Exhaustive(6)
	var upTo5, len6 []gb.ExCase
	for _, c := range all {
		if c.Len <= 5 {
			upTo5 = append(upTo5, c)
		} else {
			len6 = append(len6, c)
		}
	}
	cf.Side.Distribution["exhaustive_total_up_to_len_6"] = len(all)
	cf.Side.Distribution["exhaustive_total_up_to_len_5"] = len(upTo5)
	cf.Side.Distribution["exhaustive_total_len_6"] = len(len6)
	exr := rng.Fork()
	var chosen []gb.ExCase
	if f.Tier == "thorough" {
		chosen = append(append([]gb.ExCase(nil), upTo5...), gb.Sample(exr, len6, len6Sample)...)
	} else {
		chosen = gb.Sample(exr, all, 200)
	}
	cf.Side.Distribution["exhaustive_run"] = len(chosen)
	for _, c := range chosen {
		gb.RunCase(cf, c.Cfg, "exhaustive", gb.Priming(c.Cfg, c.Script), c.Script)
		cf.Count(fmt.Sprintf("exhaustive_len_%d", c.Len))
	}

	// ON WATERMARK with a NULL time key: the whole small family, every run
	for _, c := range gb.NullTimeFamily() {
		gb.RunCase(cf, c.Cfg, "null_time_key_family", gb.Priming(c.Cfg, c.Script), c.Script)
	}

	// the random stream
	n := f.Cases(300, 1000)
	for i := 0; i < n; i++ {
		r := rng.Fork()
		if i%3 != 2 { // two pure cases, then one from the 20 sets; each list is cycled on its own counter
			gb.RandomCase(cf, r, i/3*2+i%3, true)
		} else {
			gb.RandomCase(cf, r, i/3, false)
		}
	}
	if err := cf.Write(f.Out); err != nil {
		fmt.Fprintln(os.Stderr, err)
		os.Exit(2)
	}
}
