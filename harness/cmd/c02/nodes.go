// Node-level slice of the c02 engine: StreamJoin / OuterJoin run in-process over two gated scripted sources
// (retractions, event times, watermarks) under a prescribed interleaving, as in harness/cmd/c19 (copied: an engine
// owns its package).  The verif hook nodes.VerifJoinRecv acknowledges every message the join takes.
package main

import (
	"context"
	"fmt"
	"math"
	"os"
	"strings"
	"time"

	. "github.com/cube2222/octosql/execution"
	"github.com/cube2222/octosql/execution/nodes"
	"github.com/cube2222/octosql/octosql"

	"verifharness/lib"
)

const (
	kRec = iota
	kWM
	kErr
	kClose
)

type Msg struct {
	Kind int
	Rec  Record
	WM   time.Time
}

// gated replays a script, one message per token received on gate.
type gated struct {
	msgs []Msg
	gate chan struct{}
	quit chan struct{}
}

func (g *gated) Run(ctx ExecutionContext, produce ProduceFn, metaSend MetaSendFn) error {
	pctx := ProduceFromExecutionContext(ctx)
	for _, m := range g.msgs {
		select {
		case <-g.gate:
		case <-g.quit:
			return nil
		}
		switch m.Kind {
		case kRec:
			vals := make([]octosql.Value, len(m.Rec.Values))
			copy(vals, m.Rec.Values)
			if err := produce(pctx, NewRecord(vals, m.Rec.Retraction, m.Rec.EventTime)); err != nil {
				return err
			}
		case kWM:
			if err := metaSend(pctx, MetadataMessage{Type: MetadataMessageTypeWatermark, Watermark: m.WM}); err != nil {
				return err
			}
		case kErr:
			return lib.ErrInjected
		case kClose:
			return nil
		}
	}
	return nil
}

type config struct {
	kind   int // 0 inner, 1 left outer, 2 right outer, 3 full outer
	kl, kr []int
	nl, nr int
}

type observation struct {
	steps  [][]lib.Event
	status int // 0 nil, 1 error, 2 panic
	note   string
}

// the hook talks to the case that is currently running
var (
	curOut    *[]lib.Event
	curStarts *[]int
	curAck    chan [2]int
)

func init() {
	nodes.VerifJoinRecv = func(side, kind int) {
		if curAck == nil {
			return
		}
		*curStarts = append(*curStarts, len(*curOut))
		curAck <- [2]int{side, kind}
	}
}

func keyExprs(cols []int) []Expression {
	out := make([]Expression, len(cols))
	for i, c := range cols {
		out[i] = NewVariable(0, c)
	}
	return out
}

// replay runs the join on the two scripts, consuming them in the order given by choice (true = left).
func replay(cfg config, left, right []Msg, choice []bool) observation {
	quit := make(chan struct{})
	srcs := [2]*gated{{msgs: left, gate: make(chan struct{}), quit: quit}, {msgs: right, gate: make(chan struct{}), quit: quit}}
	var node Node
	if cfg.kind == 0 {
		node = nodes.NewStreamJoin(srcs[0], srcs[1], keyExprs(cfg.kl), keyExprs(cfg.kr))
	} else {
		node = nodes.NewOuterJoin(srcs[0], srcs[1], cfg.nl, cfg.nr, keyExprs(cfg.kl), keyExprs(cfg.kr), cfg.kind == 1 || cfg.kind == 3, cfg.kind == 2 || cfg.kind == 3)
	}
	var out []lib.Event
	var starts []int
	ack := make(chan [2]int)
	curOut, curStarts, curAck = &out, &starts, ack
	type result struct {
		err error
		p   interface{}
	}
	done := make(chan result, 1)
	go func() {
		var res result
		defer func() {
			if p := recover(); p != nil {
				res.p = p
			}
			done <- res
		}()
		ctx := ExecutionContext{Context: context.Background(), VariableContext: nil}
		res.err = node.Run(ctx,
			func(ctx ProduceContext, record Record) error {
				vals := make([]octosql.Value, len(record.Values))
				copy(vals, record.Values)
				out = append(out, lib.Event{Rec: NewRecord(vals, record.Retraction, record.EventTime)})
				return nil
			},
			func(ctx ProduceContext, msg MetadataMessage) error {
				if msg.Type == MetadataMessageTypeWatermark {
					out = append(out, lib.Event{IsWM: true, WM: msg.Watermark})
				}
				return nil
			})
	}()
	var res result
	finished := false
	note := ""
	pos := [2]int{}
	timeout := time.After(20 * time.Second)
loop:
	for _, c := range choice {
		side := 1
		if c {
			side = 0
		}
		want := srcs[side].msgs[pos[side]].Kind
		pos[side]++
		select {
		case srcs[side].gate <- struct{}{}:
		case res = <-done:
			finished = true
			break loop
		case <-timeout:
			fatal("harness: timeout releasing a message")
		}
		select {
		case a := <-ack:
			hk := map[int]int{kRec: nodes.VerifJoinRecord, kWM: nodes.VerifJoinMetadata, kErr: nodes.VerifJoinError, kClose: nodes.VerifJoinClose}[want]
			if a[0] != side || a[1] != hk {
				note = fmt.Sprintf("join took (side %d, kind %d) where the schedule released (side %d, kind %d)", a[0], a[1], side, hk)
			}
		case res = <-done:
			finished = true
			break loop
		case <-timeout:
			fatal("harness: timeout waiting for the join to take a message")
		}
	}
	if !finished {
		select {
		case res = <-done:
		case <-timeout:
			fatal("harness: timeout waiting for the join to return")
		}
	}
	curAck = nil
	close(quit)
	obs := observation{note: note}
	for i := range starts {
		end := len(out)
		if i+1 < len(starts) {
			end = starts[i+1]
		}
		obs.steps = append(obs.steps, out[starts[i]:end])
	}
	switch {
	case res.p != nil:
		obs.status = 2
	case res.err != nil:
		obs.status = 1
	}
	return obs
}

func fatal(s string) {
	fmt.Fprintln(os.Stderr, s)
	os.Exit(2)
}

// ---- generators ----

func genKeyVal(r *lib.Rng) octosql.Value {
	switch r.Intn(12) {
	case 0, 1:
		return octosql.NewNull()
	case 2:
		return octosql.NewFloat(0)
	case 3:
		return octosql.NewFloat(math.Copysign(0, -1))
	case 4:
		return octosql.NewString("a")
	default:
		return octosql.NewInt(int64(r.Intn(2)))
	}
}

func genPayload(r *lib.Rng) octosql.Value {
	switch r.Intn(6) {
	case 0:
		return octosql.NewNull()
	case 1:
		return octosql.NewString("x")
	default:
		return octosql.NewInt(int64(10 + r.Intn(3)))
	}
}

type present struct {
	vals []octosql.Value
	et   int64
}

// genScript draws one side's script: inserts, retractions of present rows (event time not before the
// insertion's), zero event times, monotone watermarks, occasionally a late record, a retraction that
// can overtake its insertion, or a source failure instead of the close.
func genScript(r *lib.Rng, n int, arity int, keyCols []int, allowOdd bool) []Msg {
	var msgs []Msg
	var rows []present
	wm := int64(0)
	isKey := map[int]bool{}
	for _, c := range keyCols {
		isKey[c] = true
	}
	for i := 0; i < n; i++ {
		switch {
		case r.Chance(1, 4):
			wm += int64(1 + r.Intn(4))
			msgs = append(msgs, Msg{Kind: kWM, WM: lib.T(wm)})
		case len(rows) > 0 && r.Chance(1, 3):
			k := r.Intn(len(rows))
			p := rows[k]
			rows = append(rows[:k:k], rows[k+1:]...)
			et := p.et
			if et != 0 && et <= wm {
				et = wm + 1 + int64(r.Intn(2))
			}
			if allowOdd && r.Chance(1, 12) {
				et = 0 // may be processed before its insertion
			}
			msgs = append(msgs, Msg{Kind: kRec, Rec: NewRecord(p.vals, true, lib.T(et))})
		default:
			vals := make([]octosql.Value, arity)
			for j := range vals {
				if isKey[j] {
					vals[j] = genKeyVal(r)
				} else {
					vals[j] = genPayload(r)
				}
			}
			if len(rows) > 0 && r.Chance(1, 4) {
				vals = rows[r.Intn(len(rows))].vals // duplicate row
			}
			et := int64(0)
			if !r.Chance(1, 4) {
				et = wm + 1 + int64(r.Intn(4))
				if allowOdd && wm > 0 && r.Chance(1, 15) {
					et = 1 + int64(r.Intn(int(wm))) // late
				}
			}
			rows = append(rows, present{vals, et})
			msgs = append(msgs, Msg{Kind: kRec, Rec: NewRecord(vals, false, lib.T(et))})
		}
	}
	if allowOdd && r.Chance(1, 25) {
		return append(msgs, Msg{Kind: kErr})
	}
	return append(msgs, Msg{Kind: kClose})
}

func genConfig(r *lib.Rng) config {
	cfg := config{nl: 1 + r.Intn(3), nr: 1 + r.Intn(3)}
	if r.Chance(1, 2) {
		cfg.kind = 1 + r.Intn(3)
	}
	nk := 1
	if r.Chance(1, 3) {
		nk = 2
	}
	for i := 0; i < nk; i++ {
		cfg.kl = append(cfg.kl, r.Intn(cfg.nl))
		cfg.kr = append(cfg.kr, r.Intn(cfg.nr))
	}
	return cfg
}

func randomChoice(r *lib.Rng, nl, nr int) []bool {
	var c []bool
	bias := 1 + r.Intn(3) // 1: left-heavy, 2: even, 3: right-heavy
	for nl > 0 || nr > 0 {
		takeLeft := nr == 0 || (nl > 0 && r.Intn(4) < 4-bias)
		if takeLeft {
			nl--
		} else {
			nr--
		}
		c = append(c, takeLeft)
	}
	return c
}

func allChoices(nl, nr int) [][]bool {
	if nl == 0 && nr == 0 {
		return [][]bool{{}}
	}
	var out [][]bool
	if nl > 0 {
		for _, c := range allChoices(nl-1, nr) {
			out = append(out, append([]bool{true}, c...))
		}
	}
	if nr > 0 {
		for _, c := range allChoices(nl, nr-1) {
			out = append(out, append([]bool{false}, c...))
		}
	}
	return out
}

// overtaking reports whether a script has a retraction with no earlier insertion of an equal row that is certain to be
// processed first (an insertion without event time, or, when both carry one, with an event time not after the retraction's).
func overtaking(ms []Msg) bool {
	type ins struct {
		key string
		et  time.Time
	}
	var seen []ins
	for _, m := range ms {
		if m.Kind != kRec {
			continue
		}
		k := lib.CoqValues(m.Rec.Values)
		if !m.Rec.Retraction {
			seen = append(seen, ins{k, m.Rec.EventTime})
			continue
		}
		safe := false
		for _, i := range seen {
			if i.key == k && (i.et.IsZero() || (!m.Rec.EventTime.IsZero() && !i.et.After(m.Rec.EventTime))) {
				safe = true
			}
		}
		if !safe {
			return true
		}
	}
	return false
}

// ---- rendering ----

func coqMsg(m Msg) string {
	switch m.Kind {
	case kRec:
		return fmt.Sprintf("MRec (mkrec %s %s %s)", lib.CoqValues(m.Rec.Values), lib.CoqBool(m.Rec.Retraction), lib.Ns(m.Rec.EventTime))
	case kWM:
		return "MWM " + lib.Ns(m.WM)
	case kErr:
		return "MErr"
	}
	return "MClose"
}

func coqMsgs(ms []Msg) string {
	parts := make([]string, len(ms))
	for i := range ms {
		parts[i] = coqMsg(ms[i])
	}
	return lib.CoqList(parts)
}

func coqNats(ns []int) string {
	parts := make([]string, len(ns))
	for i, n := range ns {
		parts[i] = fmt.Sprintf("%d%%nat", n)
	}
	return lib.CoqList(parts)
}

func jsonMsgs(ms []Msg) []interface{} {
	out := make([]interface{}, len(ms))
	for i, m := range ms {
		switch m.Kind {
		case kRec:
			out[i] = lib.EventJSON(lib.Event{Rec: m.Rec})
		case kWM:
			out[i] = lib.EventJSON(lib.Event{IsWM: true, WM: m.WM})
		case kErr:
			out[i] = "FAIL"
		default:
			out[i] = "CLOSE"
		}
	}
	return out
}

func choiceString(c []bool) string {
	var b strings.Builder
	for _, x := range c {
		if x {
			b.WriteByte('L')
		} else {
			b.WriteByte('R')
		}
	}
	return b.String()
}

var kindNames = []string{"inner", "left_outer", "right_outer", "full_outer"}


// nodeCase replays one schedule and renders the observation as a term of Model/Joins.v's c19_case.
func nodeCase(cfg config, left, right []Msg, choice []bool) (coq string, js map[string]interface{}, obs observation) {
	obs = replay(cfg, left, right, choice)
	steps := make([]string, len(obs.steps))
	jsteps := make([]interface{}, len(obs.steps))
	for i, s := range obs.steps {
		steps[i] = lib.CoqEvents(s)
		jsteps[i] = lib.EventsJSON(s)
	}
	cb := make([]string, len(choice))
	for i, c := range choice {
		cb[i] = lib.CoqBool(c)
	}
	coq = fmt.Sprintf("(mkc19 %d %s %s %d%%nat %d%%nat %s %s %s %s %d)", cfg.kind, coqNats(cfg.kl), coqNats(cfg.kr), cfg.nl, cfg.nr,
		coqMsgs(left), coqMsgs(right), lib.CoqList(cb), lib.CoqList(steps), obs.status)
	js = map[string]interface{}{"node": kindNames[cfg.kind] + " join", "key_left": cfg.kl, "key_right": cfg.kr,
		"left": jsonMsgs(left), "right": jsonMsgs(right), "schedule": choiceString(choice), "emitted_per_message": jsteps, "status": obs.status}
	return
}
