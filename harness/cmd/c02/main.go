// c02: join queries through the built CLI over generated JSON tables, against the relational join
// computed by the model in Coq (Model/JoinQuery.v rel_join).
package main

import (
	"bytes"
	"encoding/json"
	"fmt"
	"math"
	"os"
	"os/exec"
	"path/filepath"
	"strings"
	"time"

	"github.com/cube2222/octosql/execution"
	"github.com/cube2222/octosql/execution/nodes"
	"github.com/cube2222/octosql/octosql"

	"verifharness/lib"
)

type table struct {
	cols []string // k<i>a, k<i>b: number|null ; p<i>: string|null
	rows [][]octosql.Value
}

type cond struct {
	kind string // eq, lt, gtc, notnull, eqcat
	i, j int    // global column indexes in the concatenated row
	k    int    // eqcat: col_i + col_j = col_k
	c    float64
}

type joinStep struct {
	kind int // 0 inner, 1 left, 2 right, 3 full outer, 4 lookup
	on   []cond
	t    int // table index
}

func genTable(r *lib.Rng, idx int, maxRows int, domain int) table {
	t := table{cols: []string{fmt.Sprintf("k%da", idx), fmt.Sprintf("k%db", idx), fmt.Sprintf("p%d", idx)}}
	// the first row has no NULL, so that the JSON source infers number / string for every column
	// (an empty file has no columns and an all-NULL column has type NULL: schema inference is C24's business)
	n := 1 + r.Intn(maxRows)
	if domain == 2 { // three-table queries: at least three rows per table
		n = 3 + r.Intn(maxRows-2)
	}
	for i := 0; i < n; i++ {
		row := make([]octosql.Value, 3)
		for j := 0; j < 2; j++ {
			if i > 0 && r.Chance(1, 5) {
				row[j] = octosql.NewNull()
			} else {
				row[j] = octosql.NewFloat(float64(r.Intn(domain)))
			}
		}
		if i > 0 && r.Chance(1, 10) { // a row whose key columns are all NULL
			row[0], row[1] = octosql.NewNull(), octosql.NewNull()
		}
		switch {
		case i > 0 && r.Chance(1, 5):
			row[2] = octosql.NewNull()
		case idx == 2 && r.Chance(1, 2): // matches x0.p0 + x1.p1 of a computed join key
			row[2] = octosql.NewString([]string{"u", "v", "w"}[r.Intn(3)] + []string{"u", "v", "w"}[r.Intn(3)])
		default:
			row[2] = octosql.NewString([]string{"u", "v", "w"}[r.Intn(3)])
		}
		if len(t.rows) > 0 && r.Chance(1, 5) {
			row = t.rows[r.Intn(len(t.rows))] // duplicate row
		}
		t.rows = append(t.rows, row)
	}
	return t
}

func (t table) write(path string) error {
	var b bytes.Buffer
	for _, row := range t.rows {
		obj := map[string]interface{}{}
		for i, c := range t.cols {
			switch row[i].TypeID {
			case octosql.TypeIDNull:
				obj[c] = nil
			case octosql.TypeIDFloat:
				obj[c] = row[i].Float
			case octosql.TypeIDString:
				obj[c] = row[i].Str
			}
		}
		js, _ := json.Marshal(obj)
		b.Write(js)
		b.WriteByte('\n')
	}
	return os.WriteFile(path, b.Bytes(), 0o644)
}

var joinSQL = []string{"JOIN", "LEFT JOIN", "RIGHT JOIN", "OUTER JOIN", "LOOKUP JOIN"}

func colName(tabs []table, g int) string {
	for ti, t := range tabs {
		if g < len(t.cols) {
			return fmt.Sprintf("x%d.%s", ti, t.cols[g])
		}
		g -= len(t.cols)
	}
	panic("colName")
}

func condSQL(tabs []table, c cond) string {
	switch c.kind {
	case "eq":
		return colName(tabs, c.i) + " = " + colName(tabs, c.j)
	case "lt":
		return colName(tabs, c.i) + " < " + colName(tabs, c.j)
	case "gtc":
		return fmt.Sprintf("%s > %.1f", colName(tabs, c.i), c.c)
	case "eqcat":
		return colName(tabs, c.i) + " + " + colName(tabs, c.j) + " = " + colName(tabs, c.k)
	}
	return colName(tabs, c.i) + " IS NOT NULL"
}

func condCoq(c cond) string {
	switch c.kind {
	case "eq":
		return fmt.Sprintf("CEq %d%%nat %d%%nat", c.i, c.j)
	case "lt":
		return fmt.Sprintf("CLt %d%%nat %d%%nat", c.i, c.j)
	case "gtc":
		return fmt.Sprintf("CGtC %d%%nat (VFloat %d)", c.i, math.Float64bits(c.c))
	case "eqcat":
		return fmt.Sprintf("CEqCat %d%%nat %d%%nat %d%%nat", c.i, c.j, c.k)
	}
	return fmt.Sprintf("CNotNull %d%%nat", c.i)
}

func condsCoq(cs []cond) string {
	parts := make([]string, len(cs))
	for i := range cs {
		parts[i] = condCoq(cs[i])
	}
	return lib.CoqList(parts)
}

func rowsCoq(rows [][]octosql.Value) string {
	parts := make([]string, len(rows))
	for i := range rows {
		parts[i] = lib.CoqValues(rows[i])
	}
	return lib.CoqList(parts)
}

// parse `-o json`: one object per line; numbers are floats
func parseJSON(out string, names []string) ([]lib.Event, error) {
	var evs []lib.Event
	for _, line := range strings.Split(strings.TrimSpace(out), "\n") {
		if strings.TrimSpace(line) == "" {
			continue
		}
		var obj map[string]interface{}
		if err := json.Unmarshal([]byte(line), &obj); err != nil {
			return nil, fmt.Errorf("bad json line %q: %v", line, err)
		}
		if len(obj) != len(names) {
			return nil, fmt.Errorf("line %q has %d fields, want %d", line, len(obj), len(names))
		}
		vals := make([]octosql.Value, len(names))
		for i, n := range names {
			v, ok := obj[n]
			if !ok {
				return nil, fmt.Errorf("line %q lacks field %s", line, n)
			}
			switch x := v.(type) {
			case nil:
				vals[i] = octosql.NewNull()
			case float64:
				vals[i] = octosql.NewFloat(x)
			case string:
				vals[i] = octosql.NewString(x)
			default:
				return nil, fmt.Errorf("unexpected json value %v", v)
			}
		}
		evs = append(evs, lib.Event{Rec: execution.NewRecord(vals, false, time.Time{})})
	}
	return evs, nil
}

// parse `-o stream_native`: {+<time>| v, v, ... |}  with <null>, 'str', numbers
func parseNative(out string, n int) ([]lib.Event, error) {
	var evs []lib.Event
	for _, line := range strings.Split(strings.TrimSpace(out), "\n") {
		line = strings.TrimSpace(line)
		if line == "" {
			continue
		}
		if !strings.HasPrefix(line, "{") || !strings.HasSuffix(line, " |}") {
			return nil, fmt.Errorf("bad native line %q", line)
		}
		retr := line[1] == '-'
		bar := strings.Index(line, "| ")
		if bar < 0 || (line[1] != '+' && line[1] != '-') {
			return nil, fmt.Errorf("bad native line %q", line)
		}
		body := line[bar+2 : len(line)-3]
		fields := strings.Split(body, ", ")
		if len(fields) != n {
			return nil, fmt.Errorf("native line %q has %d fields, want %d", line, len(fields), n)
		}
		vals := make([]octosql.Value, n)
		for i, f := range fields {
			switch {
			case f == "<null>":
				vals[i] = octosql.NewNull()
			case strings.HasPrefix(f, "'") && strings.HasSuffix(f, "'"):
				vals[i] = octosql.NewString(f[1 : len(f)-1])
			default:
				var x float64
				if _, err := fmt.Sscanf(f, "%g", &x); err != nil {
					return nil, fmt.Errorf("bad native value %q", f)
				}
				vals[i] = octosql.NewFloat(x)
			}
		}
		evs = append(evs, lib.Event{Rec: execution.NewRecord(vals, retr, time.Time{})})
	}
	return evs, nil
}

// fixedQ is one member of the deterministic family of CLI queries (independent of the seed).
type fixedQ struct {
	tabs         []table
	steps        []joinStep // left-deep chain (unused when rn)
	where        []cond
	rn           bool   // right-nested: x0 <nk[0]> (x1 <nk[1]> x2 ON inner) ON outer
	nk           [2]int
	inner, outer []cond
}

// fixedFamily:
//  (A) x0 <k1> x1 ON x0.k0a = x1.k1a <k2> x2 ON x0.p0 + x1.p1 = x2.p2 over fixedTables(), for every inner/outer first
//      join under every second join the grammar allows (computed key over a nested join);
//  (B) right-nested lookup joins whose innermost ON refers to the outermost table, the middle table giving two rows
//      per outer row;
//  (C) an inner join whose key equalities are split between ON and WHERE, with pairs that satisfy only one of them.
func fixedFamily() []fixedQ {
	var out []fixedQ
	for _, k1 := range []int{0, 1, 2, 3} {
		for _, k2 := range []int{0, 1, 2, 3, 4} {
			if k2 == 4 && k1 != 0 {
				continue
			}
			out = append(out, fixedQ{tabs: fixedTables(), steps: []joinStep{
				{t: 1, kind: k1, on: []cond{{kind: "eq", i: 0, j: 3}}},
				{t: 2, kind: k2, on: []cond{{kind: "eqcat", i: 2, j: 5, k: 8}}}}})
		}
	}
	fl := func(x float64) octosql.Value { return octosql.NewFloat(x) }
	st := func(x string) octosql.Value { return octosql.NewString(x) }
	three := func() []table {
		return []table{
			{cols: []string{"k0a", "k0b", "p0"}, rows: [][]octosql.Value{{fl(1), fl(1), st("u")}, {fl(2), fl(2), st("v")}}},
			{cols: []string{"k1a", "k1b", "p1"}, rows: [][]octosql.Value{{fl(1), fl(5), st("u")}, {fl(1), fl(6), st("v")}, {fl(2), fl(5), st("w")}, {fl(2), fl(6), st("w")}}},
			{cols: []string{"k2a", "k2b", "p2"}, rows: [][]octosql.Value{{fl(1), fl(5), st("u")}, {fl(1), fl(6), st("v")}, {fl(2), fl(5), st("w")}, {fl(2), fl(6), st("w")}}},
		}
	}
	for _, nk := range [][2]int{{4, 4}, {4, 0}, {0, 4}, {0, 0}} {
		inner := []cond{{kind: "eq", i: 4, j: 7}}
		outer := []cond{{kind: "eq", i: 3, j: 0}}
		if nk[0] == 4 {
			inner = append(inner, cond{kind: "eq", i: 1, j: 6}) // x0.k0b = x2.k2a: the innermost side refers to the outermost table
		} else {
			outer = append(outer, cond{kind: "eq", i: 1, j: 6})
		}
		out = append(out, fixedQ{tabs: three(), rn: true, nk: nk, inner: inner, outer: outer})
	}
	two := func() []table {
		return []table{
			{cols: []string{"k0a", "k0b", "p0"}, rows: [][]octosql.Value{{fl(1), fl(1), st("u")}, {fl(2), fl(5), st("v")}}},
			{cols: []string{"k1a", "k1b", "p1"}, rows: [][]octosql.Value{{fl(1), fl(1), st("u")}, {fl(1), fl(5), st("v")}}},
		}
	}
	for _, k := range []int{0, 4} {
		out = append(out, fixedQ{tabs: two(), steps: []joinStep{{t: 1, kind: k, on: []cond{{kind: "eq", i: 0, j: 3}}}}, where: []cond{{kind: "eq", i: 1, j: 4}}})
		out = append(out, fixedQ{tabs: two(), steps: []joinStep{{t: 1, kind: k, on: []cond{{kind: "eq", i: 4, j: 1}}}}, where: []cond{{kind: "eq", i: 3, j: 0}}})
	}
	return out
}

// fixedTables: a matched pair, an unmatched row on each side of the first join, and third-table rows equal to the
// concatenation of the matched payloads, to a single payload and to another single payload.
func fixedTables() []table {
	fl := func(x float64) octosql.Value { return octosql.NewFloat(x) }
	st := func(x string) octosql.Value { return octosql.NewString(x) }
	return []table{
		{cols: []string{"k0a", "k0b", "p0"}, rows: [][]octosql.Value{{fl(1), fl(1), st("u")}, {fl(3), fl(3), st("u")}}},
		{cols: []string{"k1a", "k1b", "p1"}, rows: [][]octosql.Value{{fl(1), fl(1), st("v")}, {fl(2), fl(2), st("w")}}},
		{cols: []string{"k2a", "k2b", "p2"}, rows: [][]octosql.Value{{fl(0), fl(0), st("uv")}, {fl(0), fl(0), st("w")}, {fl(0), fl(0), st("u")}}},
	}
}

// nodeTemplates: small script pairs whose every schedule is replayed for every join kind (key = column 0):
// a key inserted, fully retracted and inserted again while the other side holds a row of that key (both orientations);
// a side that ends with a record still in its event-time buffer while the other side sends a lower watermark and then
// a matching record (both orientations); NULL keys; the first-round witness of the phase switch.
func nodeTemplates() [][2][]Msg {
	iv := func(k, p int64) []octosql.Value { return []octosql.Value{octosql.NewInt(k), octosql.NewInt(p)} }
	rec := func(vals []octosql.Value, retr bool, et int64) Msg {
		return Msg{Kind: kRec, Rec: execution.NewRecord(vals, retr, lib.T(et))}
	}
	wm := func(t int64) Msg { return Msg{Kind: kWM, WM: lib.T(t)} }
	cl := Msg{Kind: kClose}
	reins := []Msg{rec(iv(1, 10), false, 0), rec(iv(1, 10), true, 0), rec(iv(1, 10), false, 0), cl}
	one := []Msg{rec(iv(1, 20), false, 0), cl}
	buffered := []Msg{rec(iv(1, 10), false, 9), cl}
	lower := []Msg{wm(3), rec(iv(1, 20), false, 4), cl}
	nullKey := []Msg{rec([]octosql.Value{octosql.NewNull(), octosql.NewInt(10)}, false, 0), cl}
	nullKey2 := []Msg{rec([]octosql.Value{octosql.NewNull(), octosql.NewInt(20)}, false, 0), rec(iv(1, 20), false, 0), cl}
	w5 := []Msg{rec(iv(1, 100), false, 5), cl}
	w7 := []Msg{rec(iv(1, 200), false, 7), wm(10), cl}
	// two distinct rows share a key, one of them is retracted while the other stays, the other side holds the key
	twoRows := []Msg{rec(iv(1, 10), false, 0), rec(iv(1, 11), false, 0), rec(iv(1, 10), true, 0), cl}
	return [][2][]Msg{{reins, one}, {one, reins}, {buffered, lower}, {lower, buffered}, {nullKey, nullKey2}, {twoRows, one}, {one, twoRows}, {w5, w7}, {w7, w5}}
}

func rowsJSON(rows [][]octosql.Value) []interface{} {
	out := make([]interface{}, len(rows))
	for i, row := range rows {
		out[i] = lib.ValuesJSON(row)
	}
	return out
}

// genChangelog draws a valid changelog (inserts, duplicates, retractions of present rows) with zero and non-zero event times.
func genChangelog(r *lib.Rng, arity, n int) []lib.Event {
	var evs []lib.Event
	var present [][]octosql.Value
	for i := 0; i < n; i++ {
		if len(present) > 0 && r.Chance(2, 5) {
			k := r.Intn(len(present))
			vals := present[k]
			present = append(present[:k:k], present[k+1:]...)
			evs = append(evs, lib.Event{Rec: execution.NewRecord(vals, true, lib.T(int64(r.Intn(4))))})
			continue
		}
		vals := make([]octosql.Value, arity)
		for j := range vals {
			vals[j] = lib.GenValue(r, lib.SmallProfile, 0)
		}
		if len(present) > 0 && r.Chance(1, 4) {
			vals = present[r.Intn(len(present))]
		}
		present = append(present, vals)
		evs = append(evs, lib.Event{Rec: execution.NewRecord(vals, false, lib.T(int64(r.Intn(4))))})
	}
	return evs
}

func main() {
	f := lib.ParseFlags()
	if f.Cmd != "run" {
		fmt.Fprintln(os.Stderr, "c02: only 'run'")
		os.Exit(2)
	}
	repo := os.Getenv("VERIF_REPO")
	if repo == "" {
		repo = "/repo"
	}
	work, err := os.MkdirTemp("", "c02-")
	if err != nil {
		fmt.Fprintln(os.Stderr, err)
		os.Exit(2)
	}
	defer os.RemoveAll(work)
	bin := filepath.Join(work, "octosql")
	build := exec.Command("go", "build", "-o", bin, ".")
	build.Dir = repo
	build.Env = os.Environ()
	if out, err := build.CombinedOutput(); err != nil {
		fmt.Fprintf(os.Stderr, "c02: building the CLI failed: %v\n%s\n", err, out)
		os.Exit(2)
	}
	home := filepath.Join(work, "home")
	os.MkdirAll(home, 0o755)
	env := append(os.Environ(), "OCTOSQL_NO_TELEMETRY=1", "HOME="+home)

	rng := lib.NewRng(f.Seed).Fork()
	cf := lib.NewCaseFile("C02", f.Seed, f.Tier)
	cf.Imports = []string{"JoinQuery"}
	cf.CaseType = "c02_case"
	cf.Checks = []lib.Check{{Name: "spec", Kind: "spec", Fn: "c02_spec"}, {Name: "lookup_tie", Kind: "tie", Fn: "c02_lookup_tie"}, {Name: "lookup_spec", Kind: "spec", Fn: "c02_lookup_spec"},
		{Name: "node_tie", Kind: "tie", Fn: "c02_node_tie"}, {Name: "node_spec", Kind: "spec", Fn: "c02_node_spec"}}
	cf.Side.Rule = "the built CLI on SELECT * FROM t0 x0 <JOIN|LEFT JOIN|RIGHT JOIN|OUTER JOIN|LOOKUP JOIN> t1 x1 ON <1-3 equalities [+ theta conjunct for inner/lookup]> " +
		"[<join> t2 x2 ON ...] | right-nested x0 <JOIN|LOOKUP JOIN> (x1 <JOIN|LOOKUP JOIN> x2 ON ... incl. references to x0) ON ... [WHERE conjuncts incl. cross-table equalities that the optimizer moves into an already keyed join] over generated JSON tables (0-6 rows, NULL and duplicate keys, duplicate rows), each query with and without --optimize=false; " +
		"inner/lookup through -o json, queries with an outer join through -o stream_native (retractions visible); oracle = rel_join computed in Coq, rows compared as bags; " +
		"+ a fixed family of computed-key joins (x0.p0 + x1.p1 = x2.p2) over every nested inner/outer first join; + LookupJoin, StreamJoin and OuterJoin nodes in-process over changelogs with retractions, event times and watermarks (every schedule of a fixed family of small script pairs x every join kind, and random scripts/schedules), exact emissions against the node models and the relational oracle on the output; " +
		"non-trivial = the expected result has a matched pair and some key is NULL or duplicated (CLI) / the node returned nil (node cases)"
	n := f.Cases(80, 1200)
	// the pinned-tree witness first: NULL keys on both sides, optimizer on
	queries := 0
	fixedFam := fixedFamily()
	for i := 0; i < n+len(fixedFam); i++ {
		r := rng.Fork()
		fixedIdx := i - n // >= 0: a member of the deterministic family (computed key over a nested outer join)
		ntab := 2
		if r.Chance(2, 5) {
			ntab = 3
		}
		tabs := make([]table, ntab)
		for ti := range tabs {
			// three-table queries draw keys from a two-value domain so that conjunctions over three tables keep matches
			tabs[ti] = genTable(r, ti, 6, 5-ntab)
		}
		if fixedIdx >= 0 {
			tabs = fixedFam[fixedIdx].tabs
			ntab = len(tabs)
		}
		if i == 0 { // witness
			tabs = []table{genTable(r, 0, 1, 3), genTable(r, 1, 1, 3)}
			ntab = 2
			tabs[0].rows = append(tabs[0].rows[:1], []octosql.Value{octosql.NewNull(), octosql.NewFloat(1), octosql.NewString("u")})
			tabs[1].rows = append(tabs[1].rows[:1], []octosql.Value{octosql.NewNull(), octosql.NewFloat(1), octosql.NewString("v")})
		}
		var steps []joinStep
		hasOuter := false
		computedKey := false
		width := 3
		// right-nested family: x0 K1 (x1 K2 x2 ON inner) ON outer, K1/K2 in {JOIN, LOOKUP JOIN}.  The joined side of a
		// lookup join sees the source record, so with K1 = LOOKUP JOIN the inner ON may refer to x0 as well.  All joins
		// being inner, the expected result is the three-way relational join on inner ++ outer.
		rightNested := fixedIdx < 0 && ntab == 3 && i != 0 && r.Chance(1, 2)
		var nestedKinds [2]int
		var innerOn, outerOn []cond
		eqBetween := func(ta, tb int) cond {
			a, b := ta*3+r.Intn(2), tb*3+r.Intn(2)
			if r.Bool() {
				a, b = b, a
			}
			return cond{kind: "eq", i: a, j: b}
		}
		if rightNested {
			nestedKinds = [][2]int{{4, 4}, {4, 4}, {4, 4}, {4, 0}, {0, 4}, {0, 0}}[r.Intn(6)]
			innerOn = append(innerOn, eqBetween(1, 2))
			if nestedKinds[0] == 4 {
				// the innermost side refers to the outermost table
				if r.Chance(5, 6) {
					innerOn = append(innerOn, eqBetween(0, 2))
				}
				if r.Chance(1, 6) {
					innerOn = append(innerOn, eqBetween(0, 1))
				}
			}
			if r.Chance(1, 6) {
				innerOn = append(innerOn, cond{kind: "lt", i: 3 + r.Intn(2), j: 6 + r.Intn(2)})
			}
			outerOn = append(outerOn, eqBetween(0, 1))
			if r.Chance(1, 6) {
				outerOn = append(outerOn, eqBetween(0, 2))
			}
			steps = []joinStep{{t: 1, kind: 0}, {t: 2, kind: 0, on: append(append([]cond{}, innerOn...), outerOn...)}}
			width = 9
		}
		for ti := 1; ti < ntab && !rightNested && fixedIdx < 0; ti++ {
			st := joinStep{t: ti, kind: []int{0, 0, 1, 2, 3, 4}[r.Intn(6)]}
			if i == 0 {
				st.kind = 0
			}
			if ti == 2 && steps[0].kind != 0 && st.kind == 4 {
				st.kind = 0
			}
			if st.kind >= 1 && st.kind <= 3 {
				hasOuter = true
			}
			nk := []int{1, 1, 2, 2, 2, 3}[r.Intn(6)]
			// with two or more equalities the first two cover both key columns of this table and two different
			// key columns on the other side (multi-column keys, where a row can have NULL in several key columns)
			lt0, lc0, rc0 := r.Intn(ti), r.Intn(2), r.Intn(2)
			if i == 0 {
				nk = 1
			}
			for k := 0; k < nk; k++ {
				// equality between a key column of an earlier table and a key column of this table
				li := r.Intn(ti)*3 + r.Intn(2)
				rj := width + r.Intn(2)
				if nk >= 2 && k < 2 {
					li, rj = lt0*3+(lc0+k)%2, width+(rc0+k)%2
				}
				if i == 0 {
					li, rj = 0, 3
				}
				if r.Bool() && i != 0 {
					st.on = append(st.on, cond{kind: "eq", i: rj, j: li})
				} else {
					st.on = append(st.on, cond{kind: "eq", i: li, j: rj})
				}
			}
			if (st.kind == 0 || st.kind == 4) && r.Chance(1, 3) && i != 0 {
				st.on = append(st.on, cond{kind: "lt", i: r.Intn(ti)*3 + r.Intn(2), j: width + r.Intn(2)})
			}
			if ti == 2 && r.Chance(1, 3) {
				// computed key: a strict function over columns of both sides of the nested join
				ck := cond{kind: "eqcat", i: 2, j: 5, k: 8}
				if r.Bool() {
					st.on = []cond{ck}
				} else {
					st.on = append(st.on, ck)
				}
				computedKey = true
			}
			steps = append(steps, st)
			width += 3
		}
		if fixedIdx >= 0 {
			m := fixedFam[fixedIdx]
			steps, rightNested, nestedKinds, innerOn, outerOn = m.steps, m.rn, m.nk, m.inner, m.outer
			if m.rn {
				steps = []joinStep{{t: 1, kind: 0}, {t: 2, kind: 0, on: append(append([]cond{}, m.inner...), m.outer...)}}
			}
			for _, st := range steps {
				if st.kind >= 1 && st.kind <= 3 {
					hasOuter = true
				}
				for _, c := range st.on {
					if c.kind == "eqcat" {
						computedKey = true
					}
				}
			}
			width = 3 * ntab
		}
		var where []cond
		crossWhere := false
		if fixedIdx >= 0 {
			where = fixedFam[fixedIdx].where
			crossWhere = len(where) > 0
		}
		splitOnWhere := !rightNested && len(steps) > 0 && steps[0].kind == 0 // inner stream join: ON gives a key, WHERE adds to it
		if i != 0 && fixedIdx < 0 && (r.Chance(1, ntab) || (splitOnWhere && r.Chance(1, 2))) {
			// an equality (sometimes an inequality) between two different tables in WHERE: the optimizer moves such
			// equalities into the key of the join they span, in a second rewrite when ON already supplied a key
			ta := r.Intn(ntab)
			tb := (ta + 1 + r.Intn(ntab-1)) % ntab
			c := eqBetween(ta, tb)
			if r.Chance(1, 5) {
				c.kind = "lt"
			}
			where = append(where, c)
			crossWhere = c.kind == "eq"
		}
		for k := r.Intn(5 - ntab); k > 0 && i != 0 && fixedIdx < 0; k-- {
			g := r.Intn(width)
			if g%3 == 2 || r.Bool() {
				where = append(where, cond{kind: "notnull", i: g})
			} else {
				where = append(where, cond{kind: "gtc", i: g, c: float64(r.Intn(4 - ntab))})
			}
		}
		// files + query text
		var names []string
		for ti, t := range tabs {
			if err := t.write(filepath.Join(work, fmt.Sprintf("t%d.json", ti))); err != nil {
				fmt.Fprintln(os.Stderr, err)
				os.Exit(2)
			}
			names = append(names, t.cols...)
		}
		q := "SELECT * FROM t0.json x0"
		onSQL := func(cs []cond) string {
			ons := make([]string, len(cs))
			for k := range cs {
				ons[k] = condSQL(tabs, cs[k])
			}
			return strings.Join(ons, " AND ")
		}
		if rightNested {
			q += fmt.Sprintf(" %s (t1.json x1 %s t2.json x2 ON %s) ON %s", joinSQL[nestedKinds[0]], joinSQL[nestedKinds[1]], onSQL(innerOn), onSQL(outerOn))
		}
		for _, st := range steps {
			if rightNested {
				break
			}
			ons := make([]string, len(st.on))
			for k := range st.on {
				ons[k] = condSQL(tabs, st.on[k])
			}
			q += fmt.Sprintf(" %s t%d.json x%d ON %s", joinSQL[st.kind], st.t, st.t, strings.Join(ons, " AND "))
		}
		if len(where) > 0 {
			ws := make([]string, len(where))
			for k := range where {
				ws[k] = condSQL(tabs, where[k])
			}
			q += " WHERE " + strings.Join(ws, " AND ")
		}
		stepsCoq := make([]string, len(steps))
		for k, st := range steps {
			stepsCoq[k] = fmt.Sprintf("mkjs %d %s %s 3%%nat", st.kind, condsCoq(st.on), rowsCoq(tabs[st.t].rows))
		}
		nullOrDup := false
		for _, t := range tabs {
			seen := map[string]bool{}
			for _, row := range t.rows {
				k := lib.CoqValues(row[:2])
				if seen[k] || row[0].TypeID == octosql.TypeIDNull || row[1].TypeID == octosql.TypeIDNull {
					nullOrDup = true
				}
				seen[k] = true
			}
		}
		queries++
		for _, opt := range []bool{true, false} {
			format := "json"
			if hasOuter {
				format = "stream_native"
			}
			args := []string{q, "-o", format}
			if !opt {
				args = append(args, "--optimize=false")
			}
			cmd := exec.Command(bin, args...)
			cmd.Env = env
			cmd.Dir = work
			var stdout, stderr bytes.Buffer
			cmd.Stdout, cmd.Stderr = &stdout, &stderr
			runErr := cmd.Run()
			var evs []lib.Event
			var perr error
			if runErr == nil {
				if hasOuter {
					evs, perr = parseNative(stdout.String(), width)
				} else {
					evs, perr = parseJSON(stdout.String(), names)
				}
			}
			matched := false
			for _, e := range evs {
				nn := 0
				for ti := 0; ti < ntab; ti++ {
					if e.Rec.Values[ti*3].TypeID != octosql.TypeIDNull || e.Rec.Values[ti*3+1].TypeID != octosql.TypeIDNull || e.Rec.Values[ti*3+2].TypeID != octosql.TypeIDNull {
						nn++
					}
				}
				if nn == ntab && !e.Rec.Retraction {
					matched = true
				}
			}
			recs := make([]string, len(evs))
			for k, e := range evs {
				recs[k] = fmt.Sprintf("mkrec %s %s zero_ns", lib.CoqValues(e.Rec.Values), lib.CoqBool(e.Rec.Retraction))
			}
			coq := fmt.Sprintf("mkc02 %s 3%%nat %s %s %s [] [] [] None", rowsCoq(tabs[0].rows), lib.CoqList(stepsCoq), condsCoq(where), lib.CoqList(recs))
			tj := make([]interface{}, len(tabs))
			for k, t := range tabs {
				rj := make([]interface{}, len(t.rows))
				for m, row := range t.rows {
					rj[m] = lib.ValuesJSON(row)
				}
				tj[k] = rj
			}
			js := map[string]interface{}{"query": q, "optimize": opt, "tables": tj, "output_format": format, "observed": lib.EventsJSON(evs)}
			idx := cf.Add(coq, js, matched && nullOrDup)
			cf.Count(fmt.Sprintf("tables_%d", ntab))
			if rightNested {
				cf.Count(fmt.Sprintf("right_nested_%s_(%s)", strings.ReplaceAll(strings.ToLower(joinSQL[nestedKinds[0]]), " ", "_"), strings.ReplaceAll(strings.ToLower(joinSQL[nestedKinds[1]]), " ", "_")))
				for _, c := range innerOn {
					if c.i < 3 || c.j < 3 {
						cf.Count("right_nested_inner_on_refers_to_outermost_table")
						break
					}
				}
			} else {
				for _, st := range steps {
					cf.Count("join_" + strings.ReplaceAll(strings.ToLower(joinSQL[st.kind]), " ", "_"))
				}
			}
			if crossWhere {
				cf.Count("where_cross_table_equality")
			}
			if computedKey {
				cf.Count("computed_join_key")
			}
			if fixedIdx >= 0 {
				cf.Count("fixed_family_cli")
			}
			if opt {
				cf.Count("optimized")
			} else {
				cf.Count("unoptimized")
			}
			if runErr != nil {
				msg := stderr.String()
				if len(msg) > 400 {
					msg = msg[len(msg)-400:]
				}
				cf.Violation(idx, fmt.Sprintf("the CLI failed on a valid join query (%v): %s", runErr, msg), "")
			} else if perr != nil {
				cf.Violation(idx, "unreadable CLI output: "+perr.Error(), "")
			}
		}
	}
	// CLI: joins one of whose inputs RETRACTS — a GROUP BY ... TRIGGER COUNTING 1 subquery (every record of a group
	// replaces the group's previous row) — on the right, on the left, for JOIN and LOOKUP JOIN where the grammar allows,
	// with LIMIT (no ORDER BY), so that the sink and the Limit/OrderSensitiveTransform choice depend on the plan's
	// NoRetractions flag.  Expected = the relational join of the plain table with the final counts per group
	// (the counts are computed here; the join by the model in Coq).  Fixed tables first, then random ones.
	for di := 0; di < 12; di++ {
		r := rng.Fork()
		plain := genTable(r, 0, 6, 3)
		agg := genTable(r, 1, 6, 3)
		if di < 4 { // fixed: groups of three and one record, an unmatched plain row
			plain = fixedFamily()[0].tabs[0]
			agg.rows = nil
			for _, k := range []float64{1, 1, 1, 2} {
				agg.rows = append(agg.rows, []octosql.Value{octosql.NewFloat(k), octosql.NewFloat(0), octosql.NewString("u")})
			}
		}
		// final counts per group of k1a, in order of first appearance (NULL is a group of its own)
		var counts [][]octosql.Value
		pos := map[string]int{}
		for _, row := range agg.rows {
			k := lib.CoqValue(row[0])
			if p, ok := pos[k]; ok {
				counts[p][1] = octosql.NewFloat(counts[p][1].Float + 1)
			} else {
				pos[k] = len(counts)
				counts = append(counts, []octosql.Value{row[0], octosql.NewFloat(1)})
			}
		}
		plain.write(filepath.Join(work, "t0.json"))
		agg.write(filepath.Join(work, "t1.json"))
		sub := "(SELECT y.k1a AS g, COUNT(*) AS c FROM t1.json y GROUP BY y.k1a TRIGGER COUNTING 1) x1"
		aggRight := di%2 == 0
		joinKw := "JOIN"
		if di%4 >= 2 && aggRight {
			joinKw = "LOOKUP JOIN"
		}
		var q, coqCase string
		var names []string
		if aggRight {
			q = fmt.Sprintf("SELECT * FROM t0.json x0 %s %s ON x0.k0a = x1.g LIMIT 1000", joinKw, sub)
			names = []string{"k0a", "k0b", "p0", "g", "c"}
			coqCase = fmt.Sprintf("mkc02 %s 3%%nat [mkjs 0 [CEq 0%%nat 3%%nat] %s 2%%nat] []", rowsCoq(plain.rows), rowsCoq(counts))
		} else {
			q = fmt.Sprintf("SELECT * FROM %s JOIN t0.json x0 ON x0.k0a = x1.g LIMIT 1000", sub)
			names = []string{"g", "c", "k0a", "k0b", "p0"}
			coqCase = fmt.Sprintf("mkc02 %s 2%%nat [mkjs 0 [CEq 0%%nat 2%%nat] %s 3%%nat] []", rowsCoq(counts), rowsCoq(plain.rows))
		}
		for _, opt := range []bool{true, false} {
			args := []string{q, "-o", "json"}
			if !opt {
				args = append(args, "--optimize=false")
			}
			cmd := exec.Command(bin, args...)
			cmd.Env = env
			cmd.Dir = work
			var stdout, stderr bytes.Buffer
			cmd.Stdout, cmd.Stderr = &stdout, &stderr
			runErr := cmd.Run()
			var evs []lib.Event
			var perr error
			if runErr == nil {
				evs, perr = parseJSON(stdout.String(), names)
			}
			recs := make([]string, len(evs))
			for k, e := range evs {
				recs[k] = fmt.Sprintf("mkrec %s false zero_ns", lib.CoqValues(e.Rec.Values))
			}
			js := map[string]interface{}{"query": q, "optimize": opt, "plain_table": rowsJSON(plain.rows), "aggregated_table": rowsJSON(agg.rows), "observed": lib.EventsJSON(evs)}
			idx := cf.Add(coqCase+" "+lib.CoqList(recs)+" [] [] [] None", js, len(evs) > 0)
			cf.Count("retracting_join_input_with_limit")
			if runErr != nil {
				msg := stderr.String()
				if len(msg) > 400 {
					msg = msg[len(msg)-400:]
				}
				cf.Violation(idx, fmt.Sprintf("the CLI failed on a valid join query (%v): %s", runErr, msg), "")
			} else if perr != nil {
				cf.Violation(idx, "unreadable CLI output: "+perr.Error(), "")
			}
		}
	}

	// node level: LookupJoin over changelogs with retractions on the source and on the joined side
	nl := f.Cases(80, 1200)
	for i := 0; i < nl; i++ {
		r := rng.Fork()
		src := genChangelog(r, 1+r.Intn(2), r.Intn(6))
		joined := genChangelog(r, 1+r.Intn(2), r.Intn(5))
		out, err, p := lib.RunNode(nodes.NewLookupJoin(&lib.ScriptSource{Events: src}, &lib.ScriptSource{Events: joined}))
		recsOf := func(evs []lib.Event) string {
			parts := make([]string, len(evs))
			for k, e := range evs {
				parts[k] = fmt.Sprintf("mkrec %s %s %s", lib.CoqValues(e.Rec.Values), lib.CoqBool(e.Rec.Retraction), lib.Ns(e.Rec.EventTime))
			}
			return lib.CoqList(parts)
		}
		hasRetr := func(evs []lib.Event) bool {
			for _, e := range evs {
				if e.Rec.Retraction {
					return true
				}
			}
			return false
		}
		coq := fmt.Sprintf("mkc02 [] 0%%nat [] [] [] %s %s %s None", recsOf(src), recsOf(joined), lib.CoqEvents(out))
		js := map[string]interface{}{"node": "LookupJoin", "source": lib.EventsJSON(src), "joined": lib.EventsJSON(joined), "emitted": lib.EventsJSON(out)}
		idx := cf.Add(coq, js, hasRetr(src) && hasRetr(joined))
		cf.Count("node_lookup_join")
		if hasRetr(src) && hasRetr(joined) {
			cf.Count("node_lookup_join_retractions_on_both_sides")
		}
		if err != nil {
			cf.Violation(idx, "LookupJoin returned an error on error-free sources: "+err.Error(), "")
		}
		if p != nil {
			cf.Violation(idx, fmt.Sprintf("LookupJoin panicked: %v", p), "")
		}
	}
	// node level: StreamJoin / OuterJoin over changelogs with retractions, event times and watermarks, under prescribed
	// schedules; (1) a deterministic family: every schedule of a few small script pairs x every join kind,
	// (2) random scripts and schedules
	addNode := func(cfg config, left, right []Msg, choice []bool, tag string) {
		coq, js, obs := nodeCase(cfg, left, right, choice)
		idx := cf.Add("mkc02 [] 0%nat [] [] [] [] [] [] (Some "+coq+")", js, obs.status == 0)
		cf.Count("node_" + kindNames[cfg.kind] + "_join")
		cf.Count(tag)
		if obs.note != "" {
			cf.Violation(idx, "schedule replay broke: "+obs.note, "")
		}
		if obs.status != 0 {
			cf.Violation(idx, fmt.Sprintf("the join did not return nil (status %d) on a valid changelog", obs.status), "")
		}
	}
	for ti, t := range nodeTemplates() {
		for kind := 0; kind < 4; kind++ {
			if ti >= 7 && kind != 0 { // the phase-switch witness concerns StreamJoin only
				continue
			}
			cfg := config{kind: kind, kl: []int{0}, kr: []int{0}, nl: 2, nr: 2}
			for _, c := range allChoices(len(t[0]), len(t[1])) {
				addNode(cfg, t[0], t[1], c, "node_fixed_family_all_schedules")
			}
		}
	}
	nn := f.Cases(100, 1500)
	for i := 0; i < nn; i++ {
		r := rng.Fork()
		cfg := genConfig(r)
		left := genScript(r, r.Intn(8), cfg.nl, cfg.kl, false)
		right := genScript(r, r.Intn(8), cfg.nr, cfg.kr, false)
		addNode(cfg, left, right, randomChoice(r, len(left), len(right)), "node_random")
	}
	cf.Side.Notes = append(cf.Side.Notes, fmt.Sprintf("%d distinct queries, each run with the optimizer on and off", queries))
	if err := cf.Write(f.Out); err != nil {
		fmt.Fprintln(os.Stderr, err)
		os.Exit(2)
	}
}
