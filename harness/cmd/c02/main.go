// c02: join queries through the built CLI over generated JSON tables, against the relational join
// computed by the model in Coq (Model/JoinQuery.v rel_join).
package main

import (
	"bytes"
	"encoding/json"
	"fmt"
	"math"
	"os"
	"os/exec"
	"path/filepath"
	"strings"
	"time"

	"github.com/cube2222/octosql/execution"
	"github.com/cube2222/octosql/octosql"

	"verifharness/lib"
)

type table struct {
	cols []string // k<i>a, k<i>b: number|null ; p<i>: string|null
	rows [][]octosql.Value
}

type cond struct {
	kind string // eq, lt, gtc, notnull
	i, j int    // global column indexes in the concatenated row
	c    float64
}

type joinStep struct {
	kind int // 0 inner, 1 left, 2 right, 3 full outer, 4 lookup
	on   []cond
	t    int // table index
}

func genTable(r *lib.Rng, idx int, maxRows int) table {
	t := table{cols: []string{fmt.Sprintf("k%da", idx), fmt.Sprintf("k%db", idx), fmt.Sprintf("p%d", idx)}}
	// the first row has no NULL, so that the JSON source infers number / string for every column
	// (an empty file has no columns and an all-NULL column has type NULL: schema inference is C24's business)
	n := 1 + r.Intn(maxRows)
	for i := 0; i < n; i++ {
		row := make([]octosql.Value, 3)
		for j := 0; j < 2; j++ {
			if i > 0 && r.Chance(1, 5) {
				row[j] = octosql.NewNull()
			} else {
				row[j] = octosql.NewFloat(float64(r.Intn(3)))
			}
		}
		switch {
		case i > 0 && r.Chance(1, 5):
			row[2] = octosql.NewNull()
		default:
			row[2] = octosql.NewString([]string{"u", "v", "w"}[r.Intn(3)])
		}
		if len(t.rows) > 0 && r.Chance(1, 5) {
			row = t.rows[r.Intn(len(t.rows))] // duplicate row
		}
		t.rows = append(t.rows, row)
	}
	return t
}

func (t table) write(path string) error {
	var b bytes.Buffer
	for _, row := range t.rows {
		obj := map[string]interface{}{}
		for i, c := range t.cols {
			switch row[i].TypeID {
			case octosql.TypeIDNull:
				obj[c] = nil
			case octosql.TypeIDFloat:
				obj[c] = row[i].Float
			case octosql.TypeIDString:
				obj[c] = row[i].Str
			}
		}
		js, _ := json.Marshal(obj)
		b.Write(js)
		b.WriteByte('\n')
	}
	return os.WriteFile(path, b.Bytes(), 0o644)
}

var joinSQL = []string{"JOIN", "LEFT JOIN", "RIGHT JOIN", "OUTER JOIN", "LOOKUP JOIN"}

func colName(tabs []table, g int) string {
	for ti, t := range tabs {
		if g < len(t.cols) {
			return fmt.Sprintf("x%d.%s", ti, t.cols[g])
		}
		g -= len(t.cols)
	}
	panic("colName")
}

func condSQL(tabs []table, c cond) string {
	switch c.kind {
	case "eq":
		return colName(tabs, c.i) + " = " + colName(tabs, c.j)
	case "lt":
		return colName(tabs, c.i) + " < " + colName(tabs, c.j)
	case "gtc":
		return fmt.Sprintf("%s > %.1f", colName(tabs, c.i), c.c)
	}
	return colName(tabs, c.i) + " IS NOT NULL"
}

func condCoq(c cond) string {
	switch c.kind {
	case "eq":
		return fmt.Sprintf("CEq %d%%nat %d%%nat", c.i, c.j)
	case "lt":
		return fmt.Sprintf("CLt %d%%nat %d%%nat", c.i, c.j)
	case "gtc":
		return fmt.Sprintf("CGtC %d%%nat (VFloat %d)", c.i, math.Float64bits(c.c))
	}
	return fmt.Sprintf("CNotNull %d%%nat", c.i)
}

func condsCoq(cs []cond) string {
	parts := make([]string, len(cs))
	for i := range cs {
		parts[i] = condCoq(cs[i])
	}
	return lib.CoqList(parts)
}

func rowsCoq(rows [][]octosql.Value) string {
	parts := make([]string, len(rows))
	for i := range rows {
		parts[i] = lib.CoqValues(rows[i])
	}
	return lib.CoqList(parts)
}

// parse `-o json`: one object per line; numbers are floats
func parseJSON(out string, names []string) ([]lib.Event, error) {
	var evs []lib.Event
	for _, line := range strings.Split(strings.TrimSpace(out), "\n") {
		if strings.TrimSpace(line) == "" {
			continue
		}
		var obj map[string]interface{}
		if err := json.Unmarshal([]byte(line), &obj); err != nil {
			return nil, fmt.Errorf("bad json line %q: %v", line, err)
		}
		if len(obj) != len(names) {
			return nil, fmt.Errorf("line %q has %d fields, want %d", line, len(obj), len(names))
		}
		vals := make([]octosql.Value, len(names))
		for i, n := range names {
			v, ok := obj[n]
			if !ok {
				return nil, fmt.Errorf("line %q lacks field %s", line, n)
			}
			switch x := v.(type) {
			case nil:
				vals[i] = octosql.NewNull()
			case float64:
				vals[i] = octosql.NewFloat(x)
			case string:
				vals[i] = octosql.NewString(x)
			default:
				return nil, fmt.Errorf("unexpected json value %v", v)
			}
		}
		evs = append(evs, lib.Event{Rec: execution.NewRecord(vals, false, time.Time{})})
	}
	return evs, nil
}

// parse `-o stream_native`: {+<time>| v, v, ... |}  with <null>, 'str', numbers
func parseNative(out string, n int) ([]lib.Event, error) {
	var evs []lib.Event
	for _, line := range strings.Split(strings.TrimSpace(out), "\n") {
		line = strings.TrimSpace(line)
		if line == "" {
			continue
		}
		if !strings.HasPrefix(line, "{") || !strings.HasSuffix(line, " |}") {
			return nil, fmt.Errorf("bad native line %q", line)
		}
		retr := line[1] == '-'
		bar := strings.Index(line, "| ")
		if bar < 0 || (line[1] != '+' && line[1] != '-') {
			return nil, fmt.Errorf("bad native line %q", line)
		}
		body := line[bar+2 : len(line)-3]
		fields := strings.Split(body, ", ")
		if len(fields) != n {
			return nil, fmt.Errorf("native line %q has %d fields, want %d", line, len(fields), n)
		}
		vals := make([]octosql.Value, n)
		for i, f := range fields {
			switch {
			case f == "<null>":
				vals[i] = octosql.NewNull()
			case strings.HasPrefix(f, "'") && strings.HasSuffix(f, "'"):
				vals[i] = octosql.NewString(f[1 : len(f)-1])
			default:
				var x float64
				if _, err := fmt.Sscanf(f, "%g", &x); err != nil {
					return nil, fmt.Errorf("bad native value %q", f)
				}
				vals[i] = octosql.NewFloat(x)
			}
		}
		evs = append(evs, lib.Event{Rec: execution.NewRecord(vals, retr, time.Time{})})
	}
	return evs, nil
}

func main() {
	f := lib.ParseFlags()
	if f.Cmd != "run" {
		fmt.Fprintln(os.Stderr, "c02: only 'run'")
		os.Exit(2)
	}
	repo := os.Getenv("VERIF_REPO")
	if repo == "" {
		repo = "/repo"
	}
	work, err := os.MkdirTemp("", "c02-")
	if err != nil {
		fmt.Fprintln(os.Stderr, err)
		os.Exit(2)
	}
	defer os.RemoveAll(work)
	bin := filepath.Join(work, "octosql")
	build := exec.Command("go", "build", "-o", bin, ".")
	build.Dir = repo
	build.Env = os.Environ()
	if out, err := build.CombinedOutput(); err != nil {
		fmt.Fprintf(os.Stderr, "c02: building the CLI failed: %v\n%s\n", err, out)
		os.Exit(2)
	}
	home := filepath.Join(work, "home")
	os.MkdirAll(home, 0o755)
	env := append(os.Environ(), "OCTOSQL_NO_TELEMETRY=1", "HOME="+home)

	rng := lib.NewRng(f.Seed).Fork()
	cf := lib.NewCaseFile("C02", f.Seed, f.Tier)
	cf.Imports = []string{"JoinQuery"}
	cf.CaseType = "c02_case"
	cf.Checks = []lib.Check{{Name: "spec", Kind: "spec", Fn: "c02_spec"}}
	cf.Side.Rule = "the built CLI on SELECT * FROM t0 x0 <JOIN|LEFT JOIN|RIGHT JOIN|OUTER JOIN|LOOKUP JOIN> t1 x1 ON <1-3 equalities [+ theta conjunct for inner/lookup]> " +
		"[<join> t2 x2 ON ...] [WHERE conjuncts] over generated JSON tables (0-6 rows, NULL and duplicate keys, duplicate rows), each query with and without --optimize=false; " +
		"inner/lookup through -o json, queries with an outer join through -o stream_native (retractions visible); oracle = rel_join computed in Coq, rows compared as bags; " +
		"non-trivial = the expected result has a matched pair and some key is NULL or duplicated"
	n := f.Cases(100, 1200)
	// the pinned-tree witness first: NULL keys on both sides, optimizer on
	queries := 0
	for i := 0; i < n; i++ {
		r := rng.Fork()
		ntab := 2
		if r.Chance(1, 4) {
			ntab = 3
		}
		tabs := make([]table, ntab)
		for ti := range tabs {
			tabs[ti] = genTable(r, ti, 6)
		}
		if i == 0 { // witness
			tabs = []table{genTable(r, 0, 1), genTable(r, 1, 1)}
			ntab = 2
			tabs[0].rows = append(tabs[0].rows[:1], []octosql.Value{octosql.NewNull(), octosql.NewFloat(1), octosql.NewString("u")})
			tabs[1].rows = append(tabs[1].rows[:1], []octosql.Value{octosql.NewNull(), octosql.NewFloat(1), octosql.NewString("v")})
		}
		var steps []joinStep
		hasOuter := false
		width := 3
		for ti := 1; ti < ntab; ti++ {
			st := joinStep{t: ti, kind: []int{0, 0, 1, 2, 3, 4}[r.Intn(6)]}
			if i == 0 {
				st.kind = 0
			}
			if ti == 2 && steps[0].kind != 0 && st.kind == 4 {
				st.kind = 0
			}
			if st.kind >= 1 && st.kind <= 3 {
				hasOuter = true
			}
			nk := 1 + r.Intn(3)
			if i == 0 {
				nk = 1
			}
			for k := 0; k < nk; k++ {
				// equality between a key column of an earlier table and a key column of this table
				li := r.Intn(ti)*3 + r.Intn(2)
				rj := width + r.Intn(2)
				if i == 0 {
					li, rj = 0, 3
				}
				if r.Bool() && i != 0 {
					st.on = append(st.on, cond{kind: "eq", i: rj, j: li})
				} else {
					st.on = append(st.on, cond{kind: "eq", i: li, j: rj})
				}
			}
			if (st.kind == 0 || st.kind == 4) && r.Chance(1, 3) && i != 0 {
				st.on = append(st.on, cond{kind: "lt", i: r.Intn(ti)*3 + r.Intn(2), j: width + r.Intn(2)})
			}
			steps = append(steps, st)
			width += 3
		}
		var where []cond
		for k := r.Intn(3); k > 0 && i != 0; k-- {
			g := r.Intn(width)
			if g%3 == 2 || r.Bool() {
				where = append(where, cond{kind: "notnull", i: g})
			} else {
				where = append(where, cond{kind: "gtc", i: g, c: float64(r.Intn(2))})
			}
		}
		// files + query text
		var names []string
		for ti, t := range tabs {
			if err := t.write(filepath.Join(work, fmt.Sprintf("t%d.json", ti))); err != nil {
				fmt.Fprintln(os.Stderr, err)
				os.Exit(2)
			}
			names = append(names, t.cols...)
		}
		q := "SELECT * FROM t0.json x0"
		for _, st := range steps {
			ons := make([]string, len(st.on))
			for k := range st.on {
				ons[k] = condSQL(tabs, st.on[k])
			}
			q += fmt.Sprintf(" %s t%d.json x%d ON %s", joinSQL[st.kind], st.t, st.t, strings.Join(ons, " AND "))
		}
		if len(where) > 0 {
			ws := make([]string, len(where))
			for k := range where {
				ws[k] = condSQL(tabs, where[k])
			}
			q += " WHERE " + strings.Join(ws, " AND ")
		}
		stepsCoq := make([]string, len(steps))
		for k, st := range steps {
			stepsCoq[k] = fmt.Sprintf("mkjs %d %s %s 3%%nat", st.kind, condsCoq(st.on), rowsCoq(tabs[st.t].rows))
		}
		nullOrDup := false
		for _, t := range tabs {
			seen := map[string]bool{}
			for _, row := range t.rows {
				k := lib.CoqValues(row[:2])
				if seen[k] || row[0].TypeID == octosql.TypeIDNull || row[1].TypeID == octosql.TypeIDNull {
					nullOrDup = true
				}
				seen[k] = true
			}
		}
		queries++
		for _, opt := range []bool{true, false} {
			format := "json"
			if hasOuter {
				format = "stream_native"
			}
			args := []string{q, "-o", format}
			if !opt {
				args = append(args, "--optimize=false")
			}
			cmd := exec.Command(bin, args...)
			cmd.Env = env
			cmd.Dir = work
			var stdout, stderr bytes.Buffer
			cmd.Stdout, cmd.Stderr = &stdout, &stderr
			runErr := cmd.Run()
			var evs []lib.Event
			var perr error
			if runErr == nil {
				if hasOuter {
					evs, perr = parseNative(stdout.String(), width)
				} else {
					evs, perr = parseJSON(stdout.String(), names)
				}
			}
			matched := false
			for _, e := range evs {
				nn := 0
				for ti := 0; ti < ntab; ti++ {
					if e.Rec.Values[ti*3].TypeID != octosql.TypeIDNull || e.Rec.Values[ti*3+1].TypeID != octosql.TypeIDNull || e.Rec.Values[ti*3+2].TypeID != octosql.TypeIDNull {
						nn++
					}
				}
				if nn == ntab && !e.Rec.Retraction {
					matched = true
				}
			}
			recs := make([]string, len(evs))
			for k, e := range evs {
				recs[k] = fmt.Sprintf("mkrec %s %s zero_ns", lib.CoqValues(e.Rec.Values), lib.CoqBool(e.Rec.Retraction))
			}
			coq := fmt.Sprintf("mkc02 %s 3%%nat %s %s %s", rowsCoq(tabs[0].rows), lib.CoqList(stepsCoq), condsCoq(where), lib.CoqList(recs))
			tj := make([]interface{}, len(tabs))
			for k, t := range tabs {
				rj := make([]interface{}, len(t.rows))
				for m, row := range t.rows {
					rj[m] = lib.ValuesJSON(row)
				}
				tj[k] = rj
			}
			js := map[string]interface{}{"query": q, "optimize": opt, "tables": tj, "output_format": format, "observed": lib.EventsJSON(evs)}
			idx := cf.Add(coq, js, matched && nullOrDup)
			cf.Count(fmt.Sprintf("tables_%d", ntab))
			for _, st := range steps {
				cf.Count("join_" + strings.ReplaceAll(strings.ToLower(joinSQL[st.kind]), " ", "_"))
			}
			if opt {
				cf.Count("optimized")
			} else {
				cf.Count("unoptimized")
			}
			if runErr != nil {
				msg := stderr.String()
				if len(msg) > 400 {
					msg = msg[len(msg)-400:]
				}
				cf.Violation(idx, fmt.Sprintf("the CLI failed on a valid join query (%v): %s", runErr, msg), "")
			} else if perr != nil {
				cf.Violation(idx, "unreadable CLI output: "+perr.Error(), "")
			}
		}
	}
	cf.Side.Notes = append(cf.Side.Notes, fmt.Sprintf("%d distinct queries, each run with the optimizer on and off", queries))
	if err := cf.Write(f.Out); err != nil {
		fmt.Fprintln(os.Stderr, err)
		os.Exit(2)
	}
}
