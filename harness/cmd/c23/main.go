// c23: file datasources return exactly the file's rows.
// Runs the real lines / json / csv datasources in-process on generated files, the JSON source under
// GOMAXPROCS 1/2/16 with seeded parser-job delays (hook), and execution/files/stdin.go in child processes
// fed through a real pipe in chunks.  Ties: lines split model, JSON consumer model on the logged job
// arrival order, stdin replay model.  Oracles (Go side): records == reference parse of the file.
package main

import (
	"bytes"
	"context"
	"encoding/csv"
	"encoding/hex"
	"encoding/json"
	"errors"
	"bufio"
	"fmt"
	"io"
	"math"
	"os"
	"os/exec"
	"path/filepath"
	"strconv"
	"strings"
	"sync"
	"sync/atomic"
	"time"

	"github.com/valyala/fastjson/fastfloat"

	"github.com/cube2222/octosql/config"
	csvds "github.com/cube2222/octosql/datasources/csv"
	jsonds "github.com/cube2222/octosql/datasources/json"
	linesds "github.com/cube2222/octosql/datasources/lines"
	"github.com/cube2222/octosql/execution"
	"github.com/cube2222/octosql/execution/files"
	"github.com/cube2222/octosql/octosql"
	"github.com/cube2222/octosql/physical"

	"verifharness/lib"
)

type creator func(ctx context.Context, name string, options map[string]string) (physical.DatasourceImplementation, physical.Schema, error)

func ctxWith(bufSize, maxLine int) context.Context {
	return config.ContextWithConfig(context.Background(), &config.Config{Files: config.FilesConfig{
		BufferSizeBytes: bufSize, JSON: config.JSONConfig{MaxLineSizeBytes: maxLine}}})
}

// runSource creates the datasource for a file and runs its execution node; records in order + error.
func runSource(ctx context.Context, cr creator, path string, options map[string]string) (schema physical.Schema, recs [][]octosql.Value, err error, panicked interface{}) {
	defer func() {
		if p := recover(); p != nil {
			panicked = p
		}
	}()
	impl, schema, err := cr(ctx, path, options)
	if err != nil {
		return schema, nil, fmt.Errorf("creator: %w", err), nil
	}
	node, err := impl.Materialize(ctx, physical.Environment{}, schema, nil)
	if err != nil {
		return schema, nil, fmt.Errorf("materialize: %w", err), nil
	}
	err = node.Run(execution.ExecutionContext{Context: ctx},
		func(pctx execution.ProduceContext, record execution.Record) error {
			vals := make([]octosql.Value, len(record.Values))
			copy(vals, record.Values)
			recs = append(recs, vals)
			atomic.AddInt64(&producedCount, 1)
			return nil
		},
		func(pctx execution.ProduceContext, msg execution.MetadataMessage) error { return nil })
	return
}

// runSourceSubset runs the datasource with a subset of its schema's fields (a pruned field list).
func runSourceSubset(ctx context.Context, cr creator, path string, keep []int) (recs [][]octosql.Value, err error, panicked interface{}) {
	return runSourceSubsetOpts(ctx, cr, path, nil, keep)
}

func runSourceSubsetOpts(ctx context.Context, cr creator, path string, options map[string]string, keep []int) (recs [][]octosql.Value, err error, panicked interface{}) {
	defer func() {
		if p := recover(); p != nil {
			panicked = p
		}
	}()
	impl, schema, err := cr(ctx, path, options)
	if err != nil {
		return nil, fmt.Errorf("creator: %w", err), nil
	}
	var sub []physical.SchemaField
	for _, k := range keep {
		sub = append(sub, schema.Fields[k])
	}
	node, err := impl.Materialize(ctx, physical.Environment{}, physical.NewSchema(sub, -1, physical.WithNoRetractions(true)), nil)
	if err != nil {
		return nil, fmt.Errorf("materialize: %w", err), nil
	}
	err = node.Run(execution.ExecutionContext{Context: ctx},
		func(pctx execution.ProduceContext, record execution.Record) error {
			vals := make([]octosql.Value, len(record.Values))
			copy(vals, record.Values)
			recs = append(recs, vals)
			return nil
		},
		func(pctx execution.ProduceContext, msg execution.MetadataMessage) error { return nil })
	return
}

// ---------- lines ----------

var seps = []string{"\n", ";", "|", "ab", "aa", "aba", "\r\n", "é", "--", "\x00", "日本"}

func genLinesData(r *lib.Rng, sep string, big bool) []byte {
	var b bytes.Buffer
	n := r.Intn(9)
	if big {
		n = 300 + r.Intn(500)
	}
	alphabet := "ab" + sep + "xy \r"
	for i := 0; i < n; i++ {
		l := r.Intn(7)
		if big {
			l = r.Intn(30)
		}
		for j := 0; j < l; j++ {
			switch {
			case r.Chance(1, 6) && len(sep) > 1:
				b.WriteByte(sep[r.Intn(len(sep))]) // partial separators, overlaps
			case r.Chance(1, 12):
				b.WriteString("é")
			default:
				b.WriteByte(alphabet[r.Intn(len(alphabet))])
			}
		}
		if i < n-1 || r.Chance(1, 2) {
			b.WriteString(sep)
		}
	}
	return b.Bytes()
}

func refSplit(data []byte, sep string) [][]byte {
	if len(data) == 0 {
		return nil
	}
	parts := bytes.Split(data, []byte(sep))
	if len(parts[len(parts)-1]) == 0 {
		parts = parts[:len(parts)-1]
	}
	if sep == "\n" {
		for i := range parts {
			if n := len(parts[i]); n > 0 && parts[i][n-1] == '\r' {
				parts[i] = parts[i][:n-1]
			}
		}
	}
	return parts
}

func coqRecs(recs [][]octosql.Value) string {
	items := make([]string, len(recs))
	for i, r := range recs {
		items[i] = fmt.Sprintf("(%s, %s)", lib.Z(r[0].Int), lib.CoqBytes(r[1].Str))
	}
	return lib.CoqList(items)
}

func linesCase(cf *lib.CaseFile, r *lib.Rng, dir string, idx int, data []byte, sep string) {
	path := filepath.Join(dir, fmt.Sprintf("l%d.lines", idx))
	must(os.WriteFile(path, data, 0o644))
	defer os.Remove(path)
	bufs := []int{16, 100, 4096, 5000, 4096 * 1024}
	ctx := ctxWith(bufs[r.Intn(len(bufs))], 1024*1024)
	opts := map[string]string{}
	if sep != "\n" {
		opts["sep"] = sep
	}
	_, recs, err, p := runSource(ctx, linesds.Creator, path, opts)
	errk := 0
	if err != nil {
		errk = 2
		if errors.Is(err, bufio.ErrTooLong) {
			errk = 1
		}
	}
	// chunking handed to the model: arbitrary (the theorem says the result does not depend on it)
	var chunks []string
	for i, n := 0, r.Intn(6); i < n; i++ {
		chunks = append(chunks, fmt.Sprint(r.Intn(9)))
	}
	if len(data) > 400 {
		chunks = []string{"4095", "4095", "8191", "16383", "32767", "65535", "65535", "65535"}
	}
	coq := fmt.Sprintf("CLines (%s, 65536, (%s, %s), %s, %s, %d)", lib.CoqBytes(sep), lib.CoqList(chunks), lib.CoqBool(r.Bool()),
		lib.CoqBytes(string(data)), coqRecs(recs), errk)
	if len(data) > 20000 {
		// too large a literal for coqc: this case is decided by the Go-side oracle only
		coq = "CStdin ([], [], [], [])"
		cf.Count("lines_oracle_only")
	}
	texts := make([]string, len(recs))
	for i := range recs {
		texts[i] = recs[i][1].Str
	}
	js := map[string]interface{}{"kind": "lines", "sep": sep, "data": trunc(string(data)), "texts": truncList(texts), "err": fmt.Sprint(err)}
	ci := cf.Add(coq, js, len(sep) > 1 && bytes.Count(data, []byte(sep)) >= 2)
	cf.Count("lines")
	if len(sep) > 1 {
		cf.Count("lines_multibyte_sep")
	}
	if p != nil {
		cf.Violation(ci, fmt.Sprintf("lines source panicked: %v", p), "")
		return
	}
	// oracle on the Go side: bytes.Split
	if err == nil {
		ref := refSplit(data, sep)
		ok := len(ref) == len(recs)
		for i := 0; ok && i < len(ref); i++ {
			ok = recs[i][0].Int == int64(i) && recs[i][1].Str == string(ref[i])
		}
		if !ok {
			cf.Violation(ci, fmt.Sprintf("lines source with sep %q returned %d records that are not the %d separator-delimited pieces", sep, len(recs), len(ref)), "")
		}
	} else {
		tooLong := false
		for _, piece := range refSplit(data, sep) {
			if len(piece)+len(sep) > 65536 {
				tooLong = true
			}
		}
		if !tooLong {
			cf.Violation(ci, "lines source failed on a file whose lines all fit the buffer: "+err.Error(), "")
		}
	}
	if err == nil {
		for _, piece := range refSplit(data, sep) {
			if len(piece) > 65536 {
				cf.Violation(ci, "lines source ended without an error although a line exceeds the scanner buffer", "")
			}
		}
	}
}

// ---------- json ----------

type jsonFile struct {
	Lines []string
}

var jsonStrings = []string{"", "a", "é日本", "line\\nbreak", "quote\\\"q", "tab\\t", "\\u00e9", "2020-01-02T03:04:05Z", "x y"}

func genJSONLine(r *lib.Rng, i int) string {
	var parts []string
	parts = append(parts, fmt.Sprintf("\"i\":%d", i))
	if r.Chance(4, 5) {
		parts = append(parts, fmt.Sprintf("\"s\":\"%s\"", jsonStrings[r.Intn(len(jsonStrings))]))
	}
	if r.Chance(1, 2) {
		parts = append(parts, fmt.Sprintf("\"f\":%v", []string{"1.5", "-0", "1e3", "12345678901234567890", "0.1"}[r.Intn(5)]))
	}
	if r.Chance(1, 3) {
		parts = append(parts, "\"n\":null")
	}
	if r.Chance(1, 3) {
		parts = append(parts, fmt.Sprintf("\"o\":{\"x\":%d,\"y\":[%d,%d]}", r.Intn(5), r.Intn(3), r.Intn(3)))
	}
	if r.Chance(1, 4) {
		parts = append(parts, fmt.Sprintf("\"l\":[%s]", strings.Repeat("true,", r.Intn(3))+"false"))
	}
	return "{" + strings.Join(parts, ",") + "}"
}

// reference: encoding/json per line, compared field by field with the produced values
func refMatches(t octosql.Type, v octosql.Value, ref interface{}, present bool) bool {
	if !present || ref == nil {
		return v.TypeID == octosql.TypeIDNull
	}
	switch x := ref.(type) {
	case float64:
		return v.TypeID == octosql.TypeIDFloat && (v.Float == x || (math.IsNaN(v.Float) && math.IsNaN(x)))
	case bool:
		return v.TypeID == octosql.TypeIDBoolean && v.Boolean == x
	case string:
		if v.TypeID == octosql.TypeIDTime {
			tm, err := time.Parse(time.RFC3339Nano, x)
			return err == nil && tm.Equal(v.Time)
		}
		return v.TypeID == octosql.TypeIDString && v.Str == x
	case []interface{}:
		if v.TypeID != octosql.TypeIDList || len(v.List) != len(x) {
			return false
		}
		for i := range x {
			var et octosql.Type
			if t.TypeID == octosql.TypeIDList && t.List.Element != nil {
				et = *t.List.Element
			}
			if !refMatches(et, v.List[i], x[i], true) {
				return false
			}
		}
		return true
	case map[string]interface{}:
		st := t
		if st.TypeID == octosql.TypeIDUnion {
			for _, a := range st.Union.Alternatives {
				if a.TypeID == octosql.TypeIDStruct {
					st = a
				}
			}
		}
		if v.TypeID != octosql.TypeIDStruct || st.TypeID != octosql.TypeIDStruct || len(v.Struct) != len(st.Struct.Fields) {
			return false
		}
		for i, f := range st.Struct.Fields {
			val, ok := x[f.Name]
			if !refMatches(f.Type, v.Struct[i], val, ok) {
				return false
			}
		}
		return true
	}
	return false
}

type jsonResult struct {
	N        int    `json:"n"`
	Err      string `json:"err"`
	Panic    string `json:"panic"`
	Produced int    `json:"produced"`
	Mismatch string `json:"mismatch"` // first difference against the reference parse, "" if none
	Sched    []int  `json:"sched"`    // job arrival order (job index)
	DonePos  int    `json:"done_pos"`
	LogBad   string `json:"log_bad"`
	Procs    int    `json:"procs"`
	Delay    uint64 `json:"delay"`
	Pair     bool   `json:"pair"` // two files read concurrently
}

// jsonBatch runs in a child process (GOMAXPROCS fixed by the parent through the environment, because
// the parser worker pool is sized when the package is initialised).
func jsonBatch(seed int64, procs int, ns []int, dir string) []jsonResult {
	rng := lib.NewRng(seed)
	var out []jsonResult
	for ci, n := range ns {
		r := rng.Fork()
		var b bytes.Buffer
		lines := make([]string, n)
		for i := 0; i < n; i++ {
			lines[i] = genJSONLine(r, i)
			b.WriteString(lines[i])
			if i < n-1 || r.Chance(3, 4) {
				if r.Chance(1, 8) {
					b.WriteString("\r\n")
				} else {
					b.WriteString("\n")
				}
			}
		}
		path := filepath.Join(dir, fmt.Sprintf("j%d_%d.json", procs, ci))
		must(os.WriteFile(path, b.Bytes(), 0o644))
		delay := uint64(0)
		if r.Chance(3, 4) {
			delay = r.U64() | 1
		}
		jsonds.VerifSetWorkerDelaySeed(delay)
		jsonds.VerifEnableConsumerLog(true)
		schema, recs, err, p := runSource(ctxWith(4096*1024, 1024*1024), jsonds.Creator, path, map[string]string{})
		log := jsonds.VerifTakeConsumerLog()
		jsonds.VerifEnableConsumerLog(false)
		os.Remove(path)
		res := jsonResult{N: n, Produced: len(recs), Procs: procs, Delay: delay, DonePos: -1}
		if err != nil {
			res.Err = err.Error()
		}
		if p != nil {
			res.Panic = fmt.Sprint(p)
		}
		for _, e := range log {
			if e.Kind == 1 {
				res.DonePos = len(res.Sched)
			} else {
				if e.Line%64 != 0 {
					res.LogBad = fmt.Sprintf("job starting at line %d", e.Line)
				}
				res.Sched = append(res.Sched, e.Line/64)
			}
		}
		// reference parse
		if err == nil && p == nil {
			res.Mismatch = verifyJSON(schema, recs, lines)
		}
		out = append(out, res)
	}
	return out
}

// verifyJSON compares the records with encoding/json's reading of the lines, field by field, in order.
func verifyJSON(schema physical.Schema, recs [][]octosql.Value, lines []string) string {
	if len(recs) != len(lines) {
		return fmt.Sprintf("%d records for %d lines", len(recs), len(lines))
	}
	for i := range lines {
		var ref map[string]interface{}
		if e := json.Unmarshal([]byte(lines[i]), &ref); e != nil {
			return "reference parser rejects generated line: " + e.Error()
		}
		if len(recs[i]) != len(schema.Fields) {
			return fmt.Sprintf("record %d has %d values for %d fields", i, len(recs[i]), len(schema.Fields))
		}
		for fi, f := range schema.Fields {
			val, ok := ref[f.Name]
			if !refMatches(f.Type, recs[i][fi], val, ok) {
				return fmt.Sprintf("record %d field %s = %s but line %d is %s", i, f.Name, recs[i][fi].String(), i, lines[i])
			}
		}
	}
	return ""
}

// a second family of lines with other keys and kinds, for reading two files with different schemas at once
func genJSONLineB(r *lib.Rng, i int) string {
	parts := []string{fmt.Sprintf("\"id\":\"row-%d\"", i), fmt.Sprintf("\"v\":%v", i%3 == 0)}
	if r.Chance(2, 3) {
		parts = append(parts, fmt.Sprintf("\"w\":[\"a%d\",\"b\"]", i))
	}
	if r.Chance(1, 2) {
		parts = append(parts, fmt.Sprintf("\"i\":{\"deep\":%d}", i)) // same key as the other family, another kind
	}
	return "{" + strings.Join(parts, ",") + "}"
}

// jsonPairs reads two JSON files with different schemas concurrently (they share the global parser worker
// pool), with seeded delays so that batches of the two files overtake each other; each must come out as
// its own lines, in order.
func jsonPairs(seed int64, procs int, dir string, pairs int) []jsonResult {
	rng := lib.NewRng(seed ^ 0x5bd1e995)
	var out []jsonResult
	for pi := 0; pi < pairs; pi++ {
		r := rng.Fork()
		sizes := []int{65 + r.Intn(400), 65 + r.Intn(400)}
		gens := []func(*lib.Rng, int) string{genJSONLine, genJSONLineB}
		var lines [2][]string
		var paths [2]string
		for f := 0; f < 2; f++ {
			for i := 0; i < sizes[f]; i++ {
				lines[f] = append(lines[f], gens[f](r, i))
			}
			paths[f] = filepath.Join(dir, fmt.Sprintf("pair%d_%d_%d.json", procs, pi, f))
			must(os.WriteFile(paths[f], []byte(strings.Join(lines[f], "\n")+"\n"), 0o644))
		}
		delay := r.U64() | 1 // slow, reordered batches
		jsonds.VerifSetWorkerDelaySeed(delay)
		var mism [2]string
		var wg sync.WaitGroup
		for f := 0; f < 2; f++ {
			wg.Add(1)
			go func(f int) {
				defer wg.Done()
				schema, recs, err, p := runSource(ctxWith(32*1024, 1024*1024), jsonds.Creator, paths[f], map[string]string{})
				switch {
				case p != nil:
					mism[f] = fmt.Sprintf("panicked: %v", p)
				case err != nil:
					mism[f] = "failed: " + err.Error()
				default:
					mism[f] = verifyJSON(schema, recs, lines[f])
				}
			}(f)
		}
		wg.Wait()
		jsonds.VerifSetWorkerDelaySeed(0)
		res := jsonResult{N: sizes[0] + sizes[1], Produced: sizes[0] + sizes[1], Procs: procs, Delay: delay, DonePos: 0, Pair: true}
		for f := 0; f < 2; f++ {
			os.Remove(paths[f])
			if mism[f] != "" {
				res.Mismatch = fmt.Sprintf("two files read concurrently, file %d of the pair: %s", f, mism[f])
			}
		}
		out = append(out, res)
	}
	return out
}

// ---------- stdin child ----------

type stdinPlan struct {
	Previews [][]int `json:"previews"` // read request sizes
	Final    []int   `json:"final"`    // read request sizes before draining with 512-byte reads
	Mode     string  `json:"mode"`     // "raw" | "lines" | "json" | "jsonpause"
	First    int     `json:"first"`    // jsonpause: lines written before the reader stalls
	Rest     int     `json:"rest"`     // jsonpause: lines written after every handed-over batch has been produced
}

func pauseLine(j int) string { return fmt.Sprintf("{\"i\":%d,\"s\":\"row %d\"}", j, j) }

var producedCount int64 // records handed to produce() by runSource in this process

func stdinChild(planJSON string) {
	var plan stdinPlan
	must(json.Unmarshal([]byte(planJSON), &plan))
	ctx := ctxWith(4096*1024, 1024*1024)
	out := map[string]interface{}{}
	switch plan.Mode {
	case "raw":
		for _, pv := range plan.Previews {
			f, err := files.OpenLocalFile(ctx, "stdin.x", files.WithPreview())
			must(err)
			for _, n := range pv {
				buf := make([]byte, n)
				if _, err := f.Read(buf); err != nil {
					break
				}
			}
			f.Close()
		}
		f, err := files.OpenLocalFile(ctx, "stdin.x")
		must(err)
		var seen []byte
		sizes := append(append([]int{}, plan.Final...), 512)
		for i := 0; ; i++ {
			n := sizes[len(sizes)-1]
			if i < len(sizes) {
				n = sizes[i]
			}
			buf := make([]byte, n)
			k, err := f.Read(buf)
			seen = append(seen, buf[:k]...)
			if err != nil {
				break
			}
		}
		f.Close()
		out["seen"] = hex.EncodeToString(seen)
	case "jsonpause":
		// A reader that stalls mid-stream: stdin is a pipe whose writer hands over the first lines, then blocks
		// until every full batch of them has been produced (or 3 s), and only then writes the rest.
		pr, pw, err := os.Pipe()
		must(err)
		os.Stdin = pr
		go func() {
			for j := 0; j < plan.First; j++ {
				fmt.Fprintln(pw, pauseLine(j))
			}
			want := int64(plan.First / 64 * 64)
			for deadline := time.Now().Add(3 * time.Second); atomic.LoadInt64(&producedCount) < want && time.Now().Before(deadline); {
				time.Sleep(2 * time.Millisecond)
			}
			time.Sleep(40 * time.Millisecond)
			for j := 0; j < plan.Rest; j++ {
				fmt.Fprintln(pw, pauseLine(plan.First+j))
			}
			pw.Close()
		}()
		_, recs, rerr, p := runSource(ctx, jsonds.Creator, "stdin.json", map[string]string{})
		var texts []string
		for _, r := range recs {
			var parts []string
			for _, v := range r {
				parts = append(parts, v.String())
			}
			texts = append(texts, strings.Join(parts, "\x1f"))
		}
		out["records"] = texts
		if rerr != nil {
			out["err"] = rerr.Error()
		}
		if p != nil {
			out["panic"] = fmt.Sprint(p)
		}
	default:
		cr := creator(linesds.Creator)
		name := "stdin.lines"
		if plan.Mode == "json" {
			cr, name = jsonds.Creator, "stdin.json"
		}
		if plan.Mode == "csv" {
			cr, name = csvds.Creator(','), "stdin.csv"
		}
		// the typecheck phase creates the datasource once per mention of the table
		for i := 1; i < len(plan.Previews); i++ {
			_, _, err := cr(ctx, name, map[string]string{})
			must(err)
		}
		_, recs, err, p := runSource(ctx, cr, name, map[string]string{})
		var texts []string
		for _, r := range recs {
			var parts []string
			for _, v := range r {
				parts = append(parts, v.String())
			}
			texts = append(texts, strings.Join(parts, "\x1f"))
		}
		out["records"] = texts
		if err != nil {
			out["err"] = err.Error()
		}
		if p != nil {
			out["panic"] = fmt.Sprint(p)
		}
	}
	must(json.NewEncoder(os.Stdout).Encode(out))
}

func runStdinChild(plan stdinPlan, input []byte, chunks []int) (map[string]interface{}, error) {
	pj, _ := json.Marshal(plan)
	cmd := exec.Command(os.Args[0], "stdinchild", "-plan", string(pj))
	cmd.Env = append(os.Environ(), "OCTOSQL_NO_TELEMETRY=1")
	w, err := cmd.StdinPipe()
	if err != nil {
		return nil, err
	}
	var stdout, stderr bytes.Buffer
	cmd.Stdout, cmd.Stderr = &stdout, &stderr
	if err := cmd.Start(); err != nil {
		return nil, err
	}
	go func() {
		rest := input
		for i := 0; len(rest) > 0; i++ {
			n := 1 << 16
			if i < len(chunks) {
				n = chunks[i]
			}
			if n > len(rest) {
				n = len(rest)
			}
			w.Write(rest[:n])
			rest = rest[n:]
			if i < len(chunks) {
				time.Sleep(300 * time.Microsecond)
			}
		}
		w.Close()
	}()
	done := make(chan error, 1)
	go func() { done <- cmd.Wait() }()
	select {
	case err := <-done:
		if err != nil {
			return nil, fmt.Errorf("child failed: %v: %s", err, stderr.String())
		}
	case <-time.After(20 * time.Second):
		cmd.Process.Kill()
		return nil, fmt.Errorf("child timed out")
	}
	var out map[string]interface{}
	if err := json.Unmarshal(stdout.Bytes(), &out); err != nil {
		return nil, fmt.Errorf("child output: %v: %s", err, stdout.String())
	}
	return out, nil
}

// ---------- csv (oracle only: encoding/csv reference, header handling, column order) ----------

func csvCase(cf *lib.CaseFile, r *lib.Rng, dir string, idx int) {
	ncols := 1 + r.Intn(4)
	nrows := r.Intn(12)
	header := r.Chance(3, 4)
	cells := []string{"a", "", "x,y", "line\nbreak", "q\"uote", "é", " pad ", "zz", "日本", "a b"}
	var rows [][]string
	if header {
		h := make([]string, ncols)
		for i := range h {
			h[i] = fmt.Sprintf("c%d", i)
		}
		rows = append(rows, h)
	}
	for i := 0; i < nrows; i++ {
		row := make([]string, ncols)
		for j := range row {
			row[j] = cells[r.Intn(len(cells))]
		}
		if ncols == 1 && row[0] == "" {
			row[0] = "a" // encoding/csv skips empty lines
		}
		rows = append(rows, row)
	}
	var b bytes.Buffer
	w := csv.NewWriter(&b)
	w.UseCRLF = r.Chance(1, 4)
	w.WriteAll(rows)
	path := filepath.Join(dir, fmt.Sprintf("c%d.csv", idx))
	must(os.WriteFile(path, b.Bytes(), 0o644))
	defer os.Remove(path)
	opts := map[string]string{}
	if !header {
		opts["header"] = "false"
	}
	schema, recs, err, p := runSource(ctxWith(4096*1024, 1024*1024), csvds.Creator(','), path, opts)
	ci := cf.Add("CStdin ([], [], [], [])", map[string]interface{}{"kind": "csv", "file": trunc(b.String()), "header": header, "err": fmt.Sprint(err)}, nrows > 1 && ncols > 1)
	cf.Count("csv_oracle_only")
	if p != nil {
		cf.Violation(ci, fmt.Sprintf("csv source panicked: %v", p), "")
		return
	}
	if len(rows) == 0 {
		return // empty file: header=true reports an error for the missing header row, header=false yields no columns
	}
	if err != nil {
		cf.Violation(ci, "csv source failed on a well-formed file: "+err.Error(), "")
		return
	}
	data := rows
	if header {
		data = rows[1:]
	}
	if len(recs) != len(data) {
		cf.Violation(ci, fmt.Sprintf("csv source returned %d records for %d rows", len(recs), len(data)), "")
		return
	}
	for j, f := range schema.Fields {
		want := fmt.Sprintf("column_%d", j)
		if header {
			want = rows[0][j]
		}
		if f.Name != want {
			cf.Violation(ci, fmt.Sprintf("csv column %d is named %q, expected %q", j, f.Name, want), "")
			return
		}
	}
	for i := range data {
		for j := range data[i] {
			v := recs[i][j]
			okv := (data[i][j] == "" && v.TypeID == octosql.TypeIDNull) || (v.TypeID == octosql.TypeIDString && v.Str == data[i][j])
			if !okv {
				cf.Violation(ci, fmt.Sprintf("csv row %d column %d: cell %q produced as %s", i, j, data[i][j], v.String()), "")
				return
			}
		}
	}
}

// ---------- csv with pruned field lists: tied to Model/SourcesCsvProj.v ----------

func coqTimeOpt(s string) string {
	t, err := time.Parse(time.RFC3339Nano, s)
	if err != nil {
		return "None"
	}
	return fmt.Sprintf("(Some (%s, %d))", lib.Ns(t), lib.LocID(t))
}

func coqCell(s string) string {
	opt := func(ok bool, bits uint64) string {
		if ok {
			return fmt.Sprintf("(Some %d)", bits)
		}
		return "None"
	}
	fs, errs := strconv.ParseFloat(s, 64)
	ff, errf := fastfloat.Parse(s)
	return fmt.Sprintf("(mkcell %s %s %s %s)", lib.CoqBytes(s), opt(errs == nil, math.Float64bits(fs)), opt(errf == nil, math.Float64bits(ff)), coqTimeOpt(s))
}

var projCells = []string{"1", "2", "-7", "2.5", "abc", "", "true", "é", "x y", "2020-01-02T03:04:05Z", "+5", "q\"uote", "a,b"}
var projNames = []string{"a", "b", "c", "id", "Name", "é", "column_0", "x y", "0"}

func csvProjCase(cf *lib.CaseFile, r *lib.Rng, dir string, idx int, fixed [][]string) {
	ncols := 1 + r.Intn(4)
	header := r.Chance(2, 3)
	nrows := r.Intn(7)
	var records [][]string
	if fixed != nil {
		header, ncols, nrows = true, len(fixed[0]), 0
		records = fixed
	} else if header {
		perm := append([]string{}, projNames...)
		for i := range perm {
			j := i + r.Intn(len(perm)-i)
			perm[i], perm[j] = perm[j], perm[i]
		}
		records = append(records, perm[:ncols])
	}
	colPool := make([][]string, ncols)
	for j := range colPool {
		k := 1 + r.Intn(3)
		for a := 0; a < k; a++ {
			colPool[j] = append(colPool[j], projCells[r.Intn(len(projCells))])
		}
	}
	for i := 0; i < nrows && fixed == nil; i++ {
		row := make([]string, ncols)
		for j := range row {
			row[j] = colPool[j][r.Intn(len(colPool[j]))]
		}
		if ncols == 1 && row[0] == "" {
			row[0] = "z" // encoding/csv skips empty lines
		}
		records = append(records, row)
	}
	var b bytes.Buffer
	w := csv.NewWriter(&b)
	w.WriteAll(records)
	path := filepath.Join(dir, fmt.Sprintf("cp%d.csv", idx))
	must(os.WriteFile(path, b.Bytes(), 0o644))
	defer os.Remove(path)
	opts := map[string]string{}
	if !header {
		opts["header"] = "false"
	}
	ctx := ctxWith(32*1024, 1024*1024)
	schema, fullRecs, ferr, fp := runSource(ctx, csvds.Creator(','), path, opts)
	names := make([]string, len(schema.Fields))
	for j, f := range schema.Fields {
		names[j] = lib.CoqBytes(f.Name)
	}
	recItems := make([]string, len(records))
	for i, rec := range records {
		cells := make([]string, len(rec))
		for j := range rec {
			cells[j] = coqCell(rec[j])
		}
		recItems[i] = lib.CoqList(cells)
	}
	// the full field list and every proper non-empty subset of it
	n := len(schema.Fields)
	masks := []int{(1 << n) - 1}
	for m := 1; m < (1<<n)-1; m++ {
		masks = append(masks, m)
	}
	if n == 0 {
		masks = []int{0}
	}
	for _, mask := range masks {
		var keep []int
		keepBits := make([]string, n)
		for j := 0; j < n; j++ {
			keepBits[j] = "false"
			if mask&(1<<j) != 0 {
				keep = append(keep, j)
				keepBits[j] = "true"
			}
		}
		recs, err, p := fullRecs, ferr, fp
		if mask != (1<<n)-1 {
			recs, err, p = runSourceSubsetOpts(ctx, csvds.Creator(','), path, opts, keep)
		}
		rows := make([]string, len(recs))
		for i := range recs {
			rows[i] = lib.CoqValues(recs[i])
		}
		js := map[string]interface{}{"kind": "csv-projection", "file": trunc(b.String()), "header": header, "used_columns": keep, "records": len(recs), "err": fmt.Sprint(err)}
		ci := cf.Add(fmt.Sprintf("CCsv (%s, %s, %s, %s, %s, %s)", lib.CoqBool(header), lib.CoqList(recItems), lib.CoqList(keepBits), lib.CoqList(names), lib.CoqList(rows), lib.CoqBool(err == nil)),
			js, len(keep) < n && (nrows > 0 || fixed != nil))
		cf.Count("csv_projection_reads")
		if len(keep) < n {
			cf.Count("csv_projection_pruned_reads")
		}
		if p != nil {
			cf.Violation(ci, fmt.Sprintf("csv source with the field list %v panicked: %v", keep, p), "")
		}
	}
}

// ---------- main ----------

func must(err error) {
	if err != nil {
		fmt.Fprintln(os.Stderr, "c23:", err)
		os.Exit(2)
	}
}

func trunc(s string) string {
	if len(s) > 300 {
		return s[:300] + fmt.Sprintf("...(%d bytes)", len(s))
	}
	return s
}

func truncList(l []string) []string {
	if len(l) > 20 {
		return append(append([]string{}, l[:20]...), fmt.Sprintf("...(%d items)", len(l)))
	}
	return l
}

func coqInts(l []int) string {
	s := make([]string, len(l))
	for i := range l {
		s[i] = fmt.Sprint(l[i])
	}
	return lib.CoqList(s)
}

func main() {
	if len(os.Args) > 1 && os.Args[1] == "stdinchild" {
		stdinChild(os.Args[3])
		return
	}
	if len(os.Args) > 1 && os.Args[1] == "jsonbatch" {
		// jsonbatch <seed> <procs> <dir> <n>...
		var seed int64
		var procs int
		fmt.Sscan(os.Args[2], &seed)
		fmt.Sscan(os.Args[3], &procs)
		var ns []int
		for _, a := range os.Args[5:] {
			var n int
			fmt.Sscan(a, &n)
			ns = append(ns, n)
		}
		results := jsonBatch(seed, procs, ns, os.Args[4])
		results = append(results, jsonPairs(seed, procs, os.Args[4], 3)...)
		must(json.NewEncoder(os.Stdout).Encode(results))
		return
	}
	f := lib.ParseFlags()
	if f.Cmd != "run" {
		fmt.Fprintln(os.Stderr, "c23: only 'run'")
		os.Exit(2)
	}
	rng := lib.NewRng(f.Seed)
	cf := lib.NewCaseFile("C23", f.Seed, f.Tier)
	cf.Imports = []string{"SourcesCases"}
	cf.CaseType = "c23_case"
	cf.Checks = []lib.Check{{Name: "tie", Kind: "tie", Fn: "c23_tie"}, {Name: "spec", Kind: "spec", Fn: "c23_spec"}}
	cf.Side.Rule = "generated files through the real lines/json/csv datasources in-process (json: child processes with GOMAXPROCS 1/2/16 and seeded parser-job delays; " +
		"stdin: child processes fed through a pipe in chunks); non-trivial = lines: multi-byte separator occurring at least twice; json: more than one job and a job arrival order that is not the file order; " +
		"stdin: at least one preview read and input longer than one chunk; csv: more than one row and column; distinct by full case text"
	dir, err := os.MkdirTemp("", "c23")
	must(err)
	defer os.RemoveAll(dir)

	// lines: fixed corpus first (the pinned failures), then random
	corpus := []struct{ data, sep string }{
		{"xabyabz", "ab"}, {"", ";"}, {"a", "\n"}, {"a\r\n\r\nb\r", "\n"}, {"a\r\nb\r\n", "\r\n"}, {"aaa", "aa"}, {"ababa", "aba"},
		{"x;;y;", ";"}, {"é日本é", "é"}, {";", ";"}, {"a--b---c--", "--"},
	}
	idx := 0
	for _, c := range corpus {
		linesCase(cf, rng.Fork(), dir, idx, []byte(c.data), c.sep)
		idx++
	}
	nLines := f.Cases(220, 2000)
	for i := 0; i < nLines; i++ {
		r := rng.Fork()
		sep := seps[r.Intn(len(seps))]
		linesCase(cf, r, dir, idx, genLinesData(r, sep, false), sep)
		idx++
	}
	for i, n := 0, f.Cases(3, 12); i < n; i++ { // files larger than the scanner's first buffer: separators straddle read boundaries
		r := rng.Fork()
		sep := []string{"ab", "aba", "\r\n", "日本"}[r.Intn(4)]
		linesCase(cf, r, dir, idx, genLinesData(r, sep, true), sep)
		idx++
	}
	{ // an over-long line: must be an error (bufio.ErrTooLong), after the lines before it
		data := append([]byte("first;"), bytes.Repeat([]byte("x"), 70000)...)
		data = append(data, []byte(";last")...)
		linesCase(cf, rng.Fork(), dir, idx, data, ";")
		idx++
	}

	// json: row counts around the 64-line batch and the 128-job window
	sizes := []int{0, 1, 2, 63, 64, 65, 127, 128, 129, 200, 640, 8191, 8192, 8193, 8300}
	for i, n := 0, f.Cases(9, 60); i < n; i++ {
		sizes = append(sizes, rng.Intn(700))
	}
	for _, procs := range []int{1, 2, 16} {
		args := []string{"jsonbatch", fmt.Sprint(rng.U64() >> 1), fmt.Sprint(procs), dir}
		for _, n := range sizes {
			args = append(args, fmt.Sprint(n))
		}
		cmd := exec.Command(os.Args[0], args...)
		cmd.Env = append(os.Environ(), fmt.Sprintf("GOMAXPROCS=%d", procs))
		var stderr bytes.Buffer
		cmd.Stderr = &stderr
		outb, err := cmd.Output()
		var results []jsonResult
		if err == nil {
			err = json.Unmarshal(outb, &results)
		}
		if err != nil {
			ci := cf.Add("CStdin ([], [], [], [])", map[string]interface{}{"kind": "json-batch", "procs": procs}, false)
			cf.Violation(ci, fmt.Sprintf("json batch under GOMAXPROCS=%d crashed: %v: %s", procs, err, trunc(stderr.String())), "")
			continue
		}
		for _, res := range results {
			if res.Pair {
				ci := cf.Add("CStdin ([], [], [], [])", map[string]interface{}{"kind": "json-two-files-concurrently", "lines": res.N, "procs": res.Procs, "delay_seed": res.Delay}, true)
				cf.Count("json_concurrent_pairs")
				if res.Mismatch != "" {
					cf.Violation(ci, res.Mismatch, "")
				}
				continue
			}
			// model case: real batch size for small files, job granularity (one line per job) for big ones
			nModel, batch := res.N, 64
			if res.N > 400 {
				nModel, batch = (res.N+63)/64, 1
			}
			produced := res.Produced
			if res.N > 400 && res.Produced == res.N {
				produced = nModel
			}
			dpos := res.DonePos
			if dpos < 0 {
				dpos = len(res.Sched)
			}
			inOrder := true
			for i := range res.Sched {
				if res.Sched[i] != i {
					inOrder = false
				}
			}
			coq := fmt.Sprintf("CQueue (%d, %d, %s, %d, %d)", nModel, batch, coqInts(res.Sched), dpos, produced)
			js := map[string]interface{}{"kind": "json", "n": res.N, "procs": res.Procs, "delay_seed": res.Delay, "job_arrival_order": res.Sched, "done_pos": res.DonePos,
				"produced": res.Produced, "err": res.Err}
			ci := cf.Add(coq, js, len(res.Sched) > 1 && !inOrder)
			cf.Count(fmt.Sprintf("json_procs_%d", procs))
			if !inOrder {
				cf.Count("json_out_of_order_arrival")
			}
			switch {
			case res.Panic != "":
				cf.Violation(ci, "json source panicked: "+res.Panic, "")
			case res.Err != "":
				cf.Violation(ci, "json source failed on a well-formed file: "+res.Err, "")
			case res.Mismatch != "":
				cf.Violation(ci, "json source output differs from the reference parse: "+res.Mismatch, "")
			case res.LogBad != "" || res.DonePos < 0:
				cf.Violation(ci, "consumer log is not a run of the model's protocol: "+res.LogBad, "")
			}
		}
	}

	// stdin, wide rows: the schema preview (json: 100 lines, csv: header + 100 rows) needs several reads of the
	// previewing consumer's 4 KiB buffer, and the previewed part has to be replayed intact
	for _, mode := range []string{"json", "csv", "lines"} {
		for _, shape := range [][2]int{{150, 120}, {101, 60}, {400, 45}} {
			nrows, width := shape[0], shape[1]
			var in bytes.Buffer
			var want []string
			if mode == "csv" {
				in.WriteString("a,b\n")
			}
			for j := 0; j < nrows; j++ {
				text := fmt.Sprintf("row-%d-%s", j, strings.Repeat(string(rune('a'+j%26)), width))
				switch mode {
				case "json":
					fmt.Fprintf(&in, "{\"i\":%d,\"s\":\"%s\"}\n", j, text)
					want = append(want, fmt.Sprintf("%v\x1f'%s'", octosql.NewFloat(float64(j)).String(), text))
				case "csv":
					fmt.Fprintf(&in, "%d,%s\n", j, text)
					want = append(want, fmt.Sprintf("%d\x1f'%s'", j, text))
				default:
					fmt.Fprintf(&in, "%s\n", text)
					want = append(want, fmt.Sprintf("%d\x1f'%s'", j, text))
				}
			}
			plan := stdinPlan{Mode: mode, Previews: [][]int{{1}, {1}}[:1+(nrows%2)]}
			out, err := runStdinChild(plan, in.Bytes(), []int{3000, 5000})
			js := map[string]interface{}{"kind": "stdin-wide-rows-" + mode, "rows": nrows, "row_width": width, "input_bytes": in.Len()}
			ci := cf.Add("CStdin ([], [], [], [])", js, true)
			cf.Count("stdin_wide_rows")
			if err != nil {
				cf.Violation(ci, "stdin run failed: "+err.Error(), "")
				continue
			}
			if e, ok := out["err"]; ok {
				cf.Violation(ci, fmt.Sprintf("%s source over stdin (%d rows of %d bytes) failed: %v", mode, nrows, width, e), "")
				continue
			}
			var recs []string
			if l, ok := out["records"].([]interface{}); ok {
				for _, x := range l {
					recs = append(recs, x.(string))
				}
			}
			if len(recs) != len(want) {
				cf.Violation(ci, fmt.Sprintf("%s source over stdin returned %d records for %d rows of %d bytes", mode, len(recs), nrows, width), "")
				continue
			}
			for j := range want {
				if recs[j] != want[j] {
					cf.Violation(ci, fmt.Sprintf("%s source over stdin (%d rows of %d bytes): record %d is %q, expected %q", mode, nrows, width, j, trunc(recs[j]), trunc(want[j])), "")
					break
				}
			}
		}
	}

	// stdin, a reader that stalls: (lines before the stall, lines after it) around the 64-line batch
	for _, fr := range [][2]int{{64, 1}, {64, 64}, {130, 70}, {200, 200}, {128, 5}, {63, 10}} {
		plan := stdinPlan{Mode: "jsonpause", First: fr[0], Rest: fr[1]}
		out, err := runStdinChild(plan, nil, nil)
		js := map[string]interface{}{"kind": "stdin-json-stalling-reader", "lines_before_stall": fr[0], "lines_after_stall": fr[1]}
		ci := cf.Add("CStdin ([], [], [], [])", js, true)
		cf.Count("stdin_json_stalling_reader")
		if err != nil {
			cf.Violation(ci, "stdin run with a stalling reader failed: "+err.Error(), "")
			continue
		}
		if e, ok := out["err"]; ok {
			cf.Violation(ci, fmt.Sprintf("json source over a stalling stdin failed: %v", e), "")
			continue
		}
		var recs []string
		if l, ok := out["records"].([]interface{}); ok {
			for _, x := range l {
				recs = append(recs, x.(string))
			}
		}
		total := fr[0] + fr[1]
		if len(recs) != total {
			cf.Violation(ci, fmt.Sprintf("json source over stdin: the reader stalled after %d lines and then delivered %d more; %d records came out of %d", fr[0], fr[1], len(recs), total), "")
			continue
		}
		for j := range recs {
			want := fmt.Sprintf("%v\x1f'row %d'", octosql.NewFloat(float64(j)).String(), j)
			if recs[j] != want {
				cf.Violation(ci, fmt.Sprintf("json source over a stalling stdin: record %d is %q, expected %q", j, recs[j], want), "")
				break
			}
		}
	}

	// stdin
	for i, n := 0, f.Cases(40, 300); i < n; i++ {
		r := rng.Fork()
		mode := []string{"raw", "raw", "lines", "json"}[r.Intn(4)]
		var input []byte
		var lines []string
		switch mode {
		case "raw":
			input = make([]byte, r.Intn(300))
			for j := range input {
				input[j] = byte(r.Intn(256))
			}
			if r.Chance(1, 6) {
				input = bytes.Repeat([]byte("0123456789abcdef"), 600) // longer than the preview ever reads
			}
		case "lines":
			for j, k := 0, r.Intn(40); j < k; j++ {
				lines = append(lines, fmt.Sprintf("row %d é %s", j, strings.Repeat("x", r.Intn(20))))
			}
			input = []byte(strings.Join(lines, "\n"))
			if len(lines) > 0 && r.Chance(1, 2) {
				input = append(input, '\n')
			}
		case "json":
			for j, k := 0, 1+r.Intn(250); j < k; j++ {
				lines = append(lines, fmt.Sprintf("{\"i\":%d,\"s\":\"%s\"}", j, strings.Repeat("y", r.Intn(30))))
			}
			input = []byte(strings.Join(lines, "\n") + "\n")
		}
		plan := stdinPlan{Mode: mode}
		for j, k := 0, r.Intn(4); j < k; j++ {
			var pv []int
			for a, b := 0, r.Intn(5); a < b; a++ {
				pv = append(pv, 1+r.Intn(1+len(input)/2+3))
			}
			plan.Previews = append(plan.Previews, pv)
		}
		for a, b := 0, r.Intn(6); a < b; a++ {
			plan.Final = append(plan.Final, 1+r.Intn(40))
		}
		var chunks []int
		for a, b := 0, r.Intn(8); a < b; a++ {
			chunks = append(chunks, 1+r.Intn(1+len(input)/3+2))
		}
		out, err := runStdinChild(plan, input, chunks)
		js := map[string]interface{}{"kind": "stdin-" + mode, "input": trunc(string(input)), "plan": plan, "pipe_chunks": chunks}
		nontrivial := len(plan.Previews) > 0 && len(chunks) > 0 && len(input) > chunks[0]
		cf.Count("stdin_" + mode)
		if err != nil {
			ci := cf.Add("CStdin ([], [], [], [])", js, nontrivial)
			cf.Violation(ci, "stdin run failed: "+err.Error(), "")
			continue
		}
		if mode == "raw" {
			seen, _ := hex.DecodeString(out["seen"].(string))
			pvs := make([]string, len(plan.Previews))
			for a, pv := range plan.Previews {
				items := make([]string, len(pv))
				for b, q := range pv {
					items[b] = fmt.Sprintf("(%d, %d)", q-1, r.Intn(50))
				}
				pvs[a] = lib.CoqList(items)
			}
			fin := make([]string, len(plan.Final))
			for a, q := range plan.Final {
				fin[a] = fmt.Sprintf("(%d, %d)", q-1, r.Intn(50))
			}
			modelInput, modelSeen := input, seen
			if len(input) > 2000 { // keep the Coq term small: the replayed prefix is what matters
				modelInput, modelSeen = input[:2000], seen
				if len(seen) >= 2000 {
					modelSeen = seen[:2000]
				}
				if !bytes.Equal(seen, input) {
					modelSeen = nil
				}
			}
			js["seen_len"] = len(seen)
			cf.Add(fmt.Sprintf("CStdin (%s, %s, %s, %s)", lib.CoqBytes(string(modelInput)), lib.CoqList(pvs), lib.CoqList(fin), lib.CoqBytes(string(modelSeen))), js, nontrivial)
		} else {
			ci := cf.Add("CStdin ([], [], [], [])", js, nontrivial)
			var recs []string
			if l, ok := out["records"].([]interface{}); ok {
				for _, x := range l {
					recs = append(recs, x.(string))
				}
			}
			js["records"] = len(recs)
			if e, ok := out["err"]; ok {
				cf.Violation(ci, fmt.Sprintf("%s source over stdin failed: %v", mode, e), "")
				continue
			}
			if len(recs) != len(lines) {
				cf.Violation(ci, fmt.Sprintf("%s source over stdin returned %d records for %d rows", mode, len(recs), len(lines)), "")
				continue
			}
			for j := range lines {
				want := fmt.Sprintf("%d\x1f'%s'", j, lines[j])
				if mode == "json" {
					var ref map[string]interface{}
					json.Unmarshal([]byte(lines[j]), &ref)
					want = fmt.Sprintf("%v\x1f'%s'", octosql.NewFloat(ref["i"].(float64)).String(), ref["s"])
				}
				if recs[j] != want {
					cf.Violation(ci, fmt.Sprintf("%s source over stdin: record %d is %q, expected %q", mode, j, recs[j], want), "")
					break
				}
			}
		}
	}

	// parquet: oracle only
	parquetSlice(cf, rng.Fork(), dir, f.Cases(40, 400))

	// csv with pruned field lists, tied to the record-level model
	// the same cell text in two columns of different types, first seen in either of them
	sharedIdx := 0
	kinds := map[string][]string{"Int": {"1", "2"}, "Float": {"2.5", "0.5"}, "String": {"abc", "x y"}, "Boolean": {"true", "false"}, "Time": {"2020-01-02T03:04:05Z"}}
	for _, pr := range [][3]string{{"Int", "Float", "2"}, {"Int", "String", "2"}, {"Float", "String", "2.5"}, {"Boolean", "String", "true"}, {"Time", "String", "2020-01-02T03:04:05Z"}, {"Int", "Float", "-7"}} {
		for _, swap := range []bool{false, true} {
			ka, kb := pr[0], pr[1]
			if swap {
				ka, kb = kb, ka
			}
			recs := [][]string{{"a", "b", "c"}}
			recs = append(recs, []string{kinds[ka][0], kinds[kb][0], "z"})
			recs = append(recs, []string{pr[2], kinds[kb][1%len(kinds[kb])], pr[2]})
			recs = append(recs, []string{kinds[ka][1%len(kinds[ka])], pr[2], "z"})
			recs = append(recs, []string{pr[2], pr[2], pr[2]})
			csvProjCase(cf, rng.Fork(), dir, 100000+sharedIdx, recs)
			cf.Count("csv_shared_cell_text_files")
			sharedIdx++
		}
	}
	for i, n := 0, f.Cases(24, 400); i < n; i++ {
		csvProjCase(cf, rng.Fork(), dir, i, nil)
	}

	// csv: oracle only
	for i, n := 0, f.Cases(60, 600); i < n; i++ {
		csvCase(cf, rng.Fork(), dir, i)
	}

	if err := cf.Write(f.Out); err != nil {
		fmt.Fprintln(os.Stderr, err)
		os.Exit(2)
	}
	_ = io.EOF
}
