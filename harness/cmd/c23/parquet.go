// Parquet slice of c23 (oracle only, no model, no theorem): generated schemas with optional / repeated /
// LIST fields nested in each other, rows shredded by hand into (value, repetition level, definition level)
// triples (Dremel encoding) and written with the vendored parquet-go writer, read back through the real
// parquet datasource in full and with every single column alone (a pruned field list); the records must
// be the values written.
package main

import (
	"fmt"
	"os"
	"path/filepath"
	"strings"

	"github.com/segmentio/parquet-go"

	parquetds "github.com/cube2222/octosql/datasources/parquet"
	"github.com/cube2222/octosql/octosql"

	"verifharness/lib"
)

const (
	pReq = iota
	pOpt
	pRep
)
const (
	kInt = iota
	kStr
	kFloat
	kBool
	kGroup
	kList // parquet.List(of): group { repeated group list { required element } } (the LIST annotation is lost by the vendored writer)
)

type pnode struct {
	name string
	rep  int
	kind int
	kids []*pnode // group: fields sorted by name; list: kids[0] is the element
	col  int      // leaf: column index
}

type gval struct {
	null   bool
	list   []gval // repeated field or LIST
	fields []gval // group
	i      int64
	s      string
	f      float64
	b      bool
}

func (n *pnode) node() parquet.Node {
	var out parquet.Node
	switch n.kind {
	case kInt:
		out = parquet.Leaf(parquet.Int64Type)
	case kStr:
		out = parquet.String()
	case kFloat:
		out = parquet.Leaf(parquet.DoubleType)
	case kBool:
		out = parquet.Leaf(parquet.BooleanType)
	case kGroup:
		g := parquet.Group{}
		for _, k := range n.kids {
			g[k.name] = k.node()
		}
		out = g
	case kList:
		out = parquet.List(n.kids[0].node())
	}
	switch n.rep {
	case pOpt:
		return parquet.Optional(out)
	case pRep:
		return parquet.Repeated(out)
	}
	return parquet.Required(out)
}

func (n *pnode) assignColumns(next int) int {
	switch n.kind {
	case kGroup:
		for _, k := range n.kids {
			next = k.assignColumns(next)
		}
		return next
	case kList:
		return n.kids[0].assignColumns(next)
	}
	n.col = next
	return next + 1
}

func (n *pnode) describe() string {
	rep := []string{"", "optional ", "repeated "}[n.rep]
	switch n.kind {
	case kGroup:
		parts := make([]string, len(n.kids))
		for i, k := range n.kids {
			parts[i] = k.describe()
		}
		return fmt.Sprintf("%s%s{%s}", rep, n.name, strings.Join(parts, "; "))
	case kList:
		return fmt.Sprintf("%s%s LIST<%s>", rep, n.name, n.kids[0].describe())
	}
	return fmt.Sprintf("%s%s:%s", rep, n.name, []string{"int64", "string", "double", "bool"}[n.kind])
}

// nesting of repetition: a repeated/LIST node below another one
func (n *pnode) nestedRepetition(inside bool) bool {
	rep := n.rep == pRep || n.kind == kList
	if rep && inside {
		return true
	}
	for _, k := range n.kids {
		if k.nestedRepetition(inside || rep) {
			return true
		}
	}
	return false
}

// ---- Dremel shredding ----

type shredder struct{ cols [][]parquet.Value }

func (s *shredder) emit(col int, v parquet.Value, rep, def int) {
	s.cols[col] = append(s.cols[col], v.Level(rep, def, col))
}

func (s *shredder) nulls(n *pnode, rep, def int) {
	switch n.kind {
	case kGroup:
		for _, k := range n.kids {
			s.nulls(k, rep, def)
		}
	case kList:
		s.nulls(n.kids[0], rep, def)
	default:
		s.emit(n.col, parquet.Value{}, rep, def)
	}
}

func (s *shredder) write(n *pnode, v gval, rep, def, depth int) {
	switch n.rep {
	case pOpt:
		if v.null {
			s.nulls(n, rep, def)
			return
		}
		s.writeRequired(n, v, rep, def+1, depth)
	case pRep:
		if len(v.list) == 0 {
			s.nulls(n, rep, def)
			return
		}
		for i, e := range v.list {
			r := rep
			if i > 0 {
				r = depth + 1
			}
			s.writeRequired(n, e, r, def+1, depth+1)
		}
	default:
		s.writeRequired(n, v, rep, def, depth)
	}
}

func (s *shredder) writeRequired(n *pnode, v gval, rep, def, depth int) {
	switch n.kind {
	case kGroup:
		for i, k := range n.kids {
			s.write(k, v.fields[i], rep, def, depth)
		}
	case kList:
		if len(v.list) == 0 {
			s.nulls(n.kids[0], rep, def)
			return
		}
		for i, e := range v.list {
			r := rep
			if i > 0 {
				r = depth + 1
			}
			s.writeRequired(n.kids[0], e, r, def+1, depth+1)
		}
	case kInt:
		s.emit(n.col, parquet.ValueOf(v.i), rep, def)
	case kStr:
		s.emit(n.col, parquet.ValueOf(v.s), rep, def)
	case kFloat:
		s.emit(n.col, parquet.ValueOf(v.f), rep, def)
	case kBool:
		s.emit(n.col, parquet.ValueOf(v.b), rep, def)
	}
}

// ---- what the datasource has to return ----

func expectValue(n *pnode, v gval) octosql.Value {
	switch n.rep {
	case pOpt:
		if v.null {
			return octosql.NewNull()
		}
	case pRep:
		out := make([]octosql.Value, len(v.list))
		for i := range v.list {
			out[i] = expectRequired(n, v.list[i])
		}
		return octosql.NewList(out)
	}
	return expectRequired(n, v)
}

func expectRequired(n *pnode, v gval) octosql.Value {
	switch n.kind {
	case kGroup:
		out := make([]octosql.Value, len(n.kids))
		for i, k := range n.kids {
			out[i] = expectValue(k, v.fields[i])
		}
		return octosql.NewStruct(out)
	case kList:
		// The vendored writer does not persist the LIST annotation, so the file's schema reads
		// group { repeated group list { required element } } and that is what the datasource reports:
		// a struct holding a list of one-field structs.
		out := make([]octosql.Value, len(v.list))
		for i := range v.list {
			out[i] = octosql.NewStruct([]octosql.Value{expectRequired(n.kids[0], v.list[i])})
		}
		return octosql.NewStruct([]octosql.Value{octosql.NewList(out)})
	case kInt:
		return octosql.NewInt(v.i)
	case kStr:
		return octosql.NewString(v.s)
	case kFloat:
		return octosql.NewFloat(v.f)
	}
	return octosql.NewBoolean(v.b)
}

func deepEqual(a, b octosql.Value) bool {
	if a.TypeID != b.TypeID {
		return false
	}
	switch a.TypeID {
	case octosql.TypeIDList:
		if len(a.List) != len(b.List) {
			return false
		}
		for i := range a.List {
			if !deepEqual(a.List[i], b.List[i]) {
				return false
			}
		}
		return true
	case octosql.TypeIDStruct:
		if len(a.Struct) != len(b.Struct) {
			return false
		}
		for i := range a.Struct {
			if !deepEqual(a.Struct[i], b.Struct[i]) {
				return false
			}
		}
		return true
	case octosql.TypeIDNull:
		return true
	case octosql.TypeIDInt:
		return a.Int == b.Int
	case octosql.TypeIDString:
		return a.Str == b.Str
	case octosql.TypeIDFloat:
		return a.Float == b.Float
	case octosql.TypeIDBoolean:
		return a.Boolean == b.Boolean
	}
	return false
}

// ---- generators ----

func genNode(r *lib.Rng, name string, depth int, allowRep bool) *pnode {
	n := &pnode{name: name}
	switch {
	case depth <= 0 || r.Chance(2, 5):
		n.kind = r.Intn(4)
	case r.Chance(1, 2):
		n.kind = kGroup
		for i, k := 0, 1+r.Intn(3); i < k; i++ {
			n.kids = append(n.kids, genNode(r, string(rune('a'+i)), depth-1, true))
		}
	default:
		n.kind = kList
		n.kids = []*pnode{genNode(r, "element", depth-1, false)}
	}
	if allowRep {
		n.rep = r.Intn(3)
		if n.kind == kList && n.rep == pRep {
			n.rep = pOpt
		}
	}
	return n
}

// the shapes the reconstruction has to get right, always part of a run
func fixedSchemas() [][]*pnode {
	leaf := func(name string, rep, kind int) *pnode { return &pnode{name: name, rep: rep, kind: kind} }
	group := func(name string, rep int, kids ...*pnode) *pnode { return &pnode{name: name, rep: rep, kind: kGroup, kids: kids} }
	list := func(name string, rep int, elem *pnode) *pnode { return &pnode{name: name, rep: rep, kind: kList, kids: []*pnode{elem}} }
	el := func(kind int) *pnode { return &pnode{name: "element", kind: kind} }
	return [][]*pnode{
		{leaf("a", pReq, kInt), leaf("b", pOpt, kStr), leaf("c", pRep, kStr), leaf("d", pReq, kFloat)},                                             // flat, optional, list of scalars
		{leaf("a", pReq, kInt), group("b", pRep, leaf("name", pReq, kStr), leaf("vals", pRep, kInt)), leaf("c", pReq, kStr)},                       // repeated group with a repeated field
		{list("a", pReq, &pnode{name: "element", kind: kList, kids: []*pnode{el(kInt)}}), leaf("b", pReq, kInt)},                                   // list of lists
		{group("a", pRep, group("g", pOpt, list("l", pReq, el(kStr)), leaf("x", pOpt, kInt))), leaf("z", pReq, kBool)},                             // repeated > optional group > LIST
		{group("a", pOpt, leaf("x", pOpt, kInt), leaf("y", pRep, kFloat)), list("b", pOpt, &pnode{name: "element", kind: kGroup, kids: []*pnode{leaf("p", pRep, kInt), leaf("q", pReq, kStr)}})}, // optional group; optional LIST of groups with a repeated field
		{group("a", pRep, group("b", pRep, leaf("c", pRep, kInt)))},                                                                                // three levels of repetition, the only column
	}
}

func genGval(r *lib.Rng, n *pnode, top bool) gval {
	listLen := func() int { return []int{0, 1, 2, 2, 3}[r.Intn(5)] }
	if top {
		switch n.rep {
		case pOpt:
			if r.Chance(1, 3) {
				return gval{null: true}
			}
		case pRep:
			out := gval{}
			for i, k := 0, listLen(); i < k; i++ {
				out.list = append(out.list, genGval(r, n, false))
			}
			return out
		}
	}
	switch n.kind {
	case kGroup:
		out := gval{}
		for _, k := range n.kids {
			out.fields = append(out.fields, genGval(r, k, true))
		}
		return out
	case kList:
		out := gval{}
		for i, k := 0, listLen(); i < k; i++ {
			out.list = append(out.list, genGval(r, n.kids[0], false))
		}
		return out
	case kInt:
		return gval{i: int64(r.Intn(2000)) - 1000}
	case kStr:
		return gval{s: []string{"", "a", "é日本", "x y", "tag"}[r.Intn(5)] + fmt.Sprint(r.Intn(10))}
	case kFloat:
		return gval{f: float64(r.Intn(100)) / 4}
	}
	return gval{b: r.Bool()}
}

func parquetCase(cf *lib.CaseFile, r *lib.Rng, dir string, idx int, top []*pnode) {
	next := 0
	g := parquet.Group{}
	var descr []string
	nested := false
	for _, n := range top {
		next = n.assignColumns(next)
		g[n.name] = n.node()
		descr = append(descr, n.describe())
		nested = nested || n.nestedRepetition(false)
	}
	nrows := 1 + r.Intn(25)
	rows := make([][]gval, nrows)
	path := filepath.Join(dir, fmt.Sprintf("p%d.parquet", idx))
	js := map[string]interface{}{"kind": "parquet", "schema": descr, "rows": nrows}
	ci := cf.Add("CStdin ([], [], [], [])", js, nested)
	cf.Count("parquet_files_oracle_only")
	if nested {
		cf.Count("parquet_files_with_nested_repetition")
	}
	werr := func() (err error) {
		defer func() {
			if p := recover(); p != nil {
				err = fmt.Errorf("writer panicked: %v", p)
			}
		}()
		f, err := os.Create(path)
		if err != nil {
			return err
		}
		defer f.Close()
		w := parquet.NewWriter(f, parquet.NewSchema("root", g))
		for i := range rows {
			s := &shredder{cols: make([][]parquet.Value, next)}
			for _, n := range top {
				v := genGval(r, n, true)
				rows[i] = append(rows[i], v)
				s.write(n, v, 0, 0, 0)
			}
			var row parquet.Row
			for _, c := range s.cols {
				row = append(row, c...)
			}
			if err := w.WriteRow(row); err != nil {
				return err
			}
		}
		return w.Close()
	}()
	defer os.Remove(path)
	if werr != nil {
		// the harness could not produce the file: not a verdict about the datasource
		cf.Count("parquet_files_not_written")
		js["write_error"] = werr.Error()
		return
	}
	expected := make([][]octosql.Value, nrows)
	for i := range rows {
		for j, n := range top {
			expected[i] = append(expected[i], expectValue(n, rows[i][j]))
		}
	}
	render := func(vs []octosql.Value) string {
		parts := make([]string, len(vs))
		for i := range vs {
			parts[i] = vs[i].String()
		}
		return strings.Join(parts, " | ")
	}
	// full read, then every single column alone (what `SELECT col` makes of it)
	reads := [][]int{nil}
	for j := range top {
		if len(top) > 1 {
			reads = append(reads, []int{j})
		}
	}
	for _, keep := range reads {
		ctx := ctxWith(4096*1024, 1024*1024)
		var recs [][]octosql.Value
		var err error
		var p interface{}
		what := "full read"
		if keep == nil {
			_, recs, err, p = runSource(ctx, parquetds.Creator, path, nil)
			keep = make([]int, len(top))
			for j := range keep {
				keep[j] = j
			}
		} else {
			what = "reading only column " + top[keep[0]].name
			recs, err, p = runSourceSubset(ctx, parquetds.Creator, path, keep)
		}
		cf.Count("parquet_reads")
		switch {
		case p != nil:
			cf.Violation(ci, fmt.Sprintf("parquet %s panicked: %v", what, p), "")
			return
		case err != nil:
			cf.Violation(ci, fmt.Sprintf("parquet %s failed on a well-formed file: %v", what, err), "")
			return
		case len(recs) != nrows:
			cf.Violation(ci, fmt.Sprintf("parquet %s returned %d records for %d rows", what, len(recs), nrows), "")
			return
		}
		for i := range recs {
			want := make([]octosql.Value, len(keep))
			for a, j := range keep {
				want[a] = expected[i][j]
			}
			okRow := len(recs[i]) == len(want)
			for a := 0; okRow && a < len(want); a++ {
				okRow = deepEqual(recs[i][a], want[a])
			}
			if !okRow {
				cf.Violation(ci, fmt.Sprintf("parquet %s, row %d: got %s, the file holds %s", what, i, render(recs[i]), render(want)), "")
				return
			}
		}
	}
}

func parquetSlice(cf *lib.CaseFile, rng *lib.Rng, dir string, n int) {
	idx := 0
	for _, top := range fixedSchemas() {
		for k := 0; k < 2; k++ {
			parquetCase(cf, rng.Fork(), dir, idx, top)
			idx++
		}
	}
	for i := 0; i < n; i++ {
		r := rng.Fork()
		var top []*pnode
		for j, k := 0, 1+r.Intn(3); j < k; j++ {
			top = append(top, genNode(r, string(rune('a'+j)), 3, true))
		}
		parquetCase(cf, r, dir, idx, top)
		idx++
	}
}
