// Package ops: what engines c15 and c05 share — node specifications (rendered both as a real
// execution node and as a term of Model/Operators.v's node_spec), the valid-changelog generator,
// and the in-process runner that records what a node emits.
package ops

import (
	"fmt"
	"io"
	"strings"
	"time"

	"github.com/cube2222/octosql/execution"
	"github.com/cube2222/octosql/execution/nodes"
	"github.com/cube2222/octosql/functions"
	"github.com/cube2222/octosql/octosql"
	"github.com/cube2222/octosql/outputs/batch"
	"github.com/cube2222/octosql/physical"

	"verifharness/lib"
)

// ---- expressions ----

type ExprKind int

const (
	EVar ExprKind = iota
	EConst
	EEqConst
	EAddConst
)

type Expr struct {
	Kind ExprKind
	I    int
	C    octosql.Value
	N    int64
}

func Nat(n int) string { return fmt.Sprintf("%d%%nat", n) }

func (e Expr) Coq() string {
	switch e.Kind {
	case EVar:
		return "(EVar " + Nat(e.I) + ")"
	case EConst:
		return "(EConst " + lib.CoqValue(e.C) + ")"
	case EEqConst:
		return "(EEqConst " + Nat(e.I) + " " + lib.CoqValue(e.C) + ")"
	default:
		return "(EAddConst " + Nat(e.I) + " " + lib.Z(e.N) + ")"
	}
}

func (e Expr) JSON() interface{} {
	switch e.Kind {
	case EVar:
		return fmt.Sprintf("col%d", e.I)
	case EConst:
		return map[string]interface{}{"const": lib.ValueJSON(e.C)}
	case EEqConst:
		return map[string]interface{}{"eq": []interface{}{fmt.Sprintf("col%d", e.I), lib.ValueJSON(e.C)}}
	default:
		return map[string]interface{}{"add": []interface{}{fmt.Sprintf("col%d", e.I), e.N}}
	}
}

var fmap = functions.FunctionMap()

func fn(name string, descriptor int) func([]octosql.Value) (octosql.Value, error) {
	return fmap[name].Descriptors[descriptor].Function
}

// Build makes the execution expression the planner would produce (both functions are Strict:
// every argument is null-checked).
func (e Expr) Build() execution.Expression {
	switch e.Kind {
	case EVar:
		return execution.NewVariable(0, e.I)
	case EConst:
		return execution.NewConstant(e.C)
	case EEqConst:
		return execution.NewFunctionCall(fn("=", 0), []execution.Expression{execution.NewVariable(0, e.I), execution.NewConstant(e.C)}, []int{0, 1})
	default:
		return execution.NewFunctionCall(fn("+", 0), []execution.Expression{execution.NewVariable(0, e.I), execution.NewConstant(octosql.NewInt(e.N))}, []int{0, 1})
	}
}

type Key struct {
	Desc bool
	E    Expr
}

func CoqKeys(ks []Key) string {
	parts := make([]string, len(ks))
	for i, k := range ks {
		parts[i] = "(" + lib.CoqBool(k.Desc) + ", " + k.E.Coq() + ")"
	}
	return lib.CoqList(parts)
}

func keysJSON(ks []Key) interface{} {
	out := []interface{}{}
	for _, k := range ks {
		d := "asc"
		if k.Desc {
			d = "desc"
		}
		out = append(out, []interface{}{k.E.JSON(), d})
	}
	return out
}

func buildKeys(ks []Key) ([]execution.Expression, []int) {
	es := make([]execution.Expression, len(ks))
	ms := make([]int, len(ks))
	for i, k := range ks {
		es[i] = k.E.Build()
		ms[i] = 1
		if k.Desc {
			ms[i] = -1
		}
	}
	return es, ms
}

// ---- node specifications ----

type NodeKind int

const (
	NFilter NodeKind = iota
	NMap
	NUnnest
	NLookup
	NDistinct
	NLimit
	NOst
	NPrinter
	NPipe
)

var KindNames = []string{"filter", "map", "unnest", "lookup_join", "distinct", "limit", "order_sensitive_transform", "batch_printer", "pipeline"}

type Spec struct {
	Kind     NodeKind
	E        Expr        // filter
	Es       []Expr      // map
	I        int         // unnest index
	Table    []lib.Event // lookup: joined table
	A, B     int         // lookup: table column = source column
	N        int64       // limit node
	Keys     []Key       // ost / printer
	HasLimit bool
	Limit    int64
	NoRetr   bool
	Live     bool // printer only: live = true (the default live_table mode); the final frame is observed
	Pipe     []Spec // NPipe: the stages, bottom (next to the source) first
}

func coqOptZ(has bool, n int64) string {
	if !has {
		return "None"
	}
	return "(Some " + lib.Z(n) + ")"
}

func (s Spec) Coq() string {
	switch s.Kind {
	case NFilter:
		return "(NFilter " + s.E.Coq() + ")"
	case NMap:
		parts := make([]string, len(s.Es))
		for i := range s.Es {
			parts[i] = s.Es[i].Coq()
		}
		return "(NMap " + lib.CoqList(parts) + ")"
	case NUnnest:
		return "(NUnnest " + Nat(s.I) + ")"
	case NLookup:
		return "(NLookup " + lib.CoqEvents(s.Table) + " " + Nat(s.A) + " " + Nat(s.B) + ")"
	case NDistinct:
		return "NDistinct"
	case NLimit:
		return "(NLimit " + lib.Z(s.N) + ")"
	case NOst:
		return "(NOst " + CoqKeys(s.Keys) + " " + coqOptZ(s.HasLimit, s.Limit) + " " + lib.CoqBool(s.NoRetr) + ")"
	case NPipe:
		t := s.Pipe[0].Coq()
		for _, st := range s.Pipe[1:] {
			t = "(NPipe " + t + " " + st.Coq() + ")"
		}
		return t
	default:
		return "(NPrinter " + CoqKeys(s.Keys) + " " + coqOptZ(s.HasLimit, s.Limit) + " " + lib.CoqBool(s.NoRetr) + ")"
	}
}

func (s Spec) JSON() interface{} {
	m := map[string]interface{}{"node": KindNames[s.Kind]}
	switch s.Kind {
	case NFilter:
		m["predicate"] = s.E.JSON()
	case NMap:
		var es []interface{}
		for _, e := range s.Es {
			es = append(es, e.JSON())
		}
		m["exprs"] = es
	case NUnnest:
		m["index"] = s.I
	case NLookup:
		m["table"] = lib.EventsJSON(s.Table)
		m["on"] = fmt.Sprintf("table.col%d = source.col%d", s.A, s.B)
	case NLimit:
		m["limit"] = s.N
	case NPipe:
		var st []interface{}
		for _, x := range s.Pipe {
			st = append(st, x.JSON())
		}
		m["stages_bottom_up"] = st
	case NOst, NPrinter:
		m["order_by"] = keysJSON(s.Keys)
		if s.HasLimit {
			m["limit"] = s.Limit
		}
		m["no_retractions_possible"] = s.NoRetr
		if s.Live {
			m["live"] = true
		}
	}
	return m
}

// Observation of one run.
type Obs struct {
	Events   []lib.Event
	Rows     [][]octosql.Value
	IsRows   bool
	Frames   int  // printer: number of frames drawn (1 = only the final table)
	Aliased  bool // a produced record's values changed after it was produced
	Err      error
	Panicked interface{}
}

func (o Obs) Coq() string {
	switch {
	case o.Panicked != nil:
		return "ObsPanic"
	case o.Err != nil:
		return "ObsErr"
	case o.IsRows:
		parts := make([]string, len(o.Rows))
		for i := range o.Rows {
			parts[i] = lib.CoqValues(o.Rows[i])
		}
		return "(ObsRows " + lib.CoqList(parts) + ")"
	default:
		return "(ObsEvents " + lib.CoqEvents(o.Events) + ")"
	}
}

func (o Obs) JSON() interface{} {
	switch {
	case o.Panicked != nil:
		return map[string]interface{}{"panic": fmt.Sprint(o.Panicked)}
	case o.Err != nil:
		return map[string]interface{}{"error": firstLine(o.Err.Error())}
	case o.IsRows:
		rows := make([]interface{}, len(o.Rows))
		for i := range o.Rows {
			rows[i] = lib.ValuesJSON(o.Rows[i])
		}
		return map[string]interface{}{"rows_written": rows}
	default:
		return map[string]interface{}{"events": lib.EventsJSON(o.Events)}
	}
}

func firstLine(s string) string {
	if i := strings.IndexByte(s, '\n'); i >= 0 {
		s = s[:i]
	}
	if len(s) > 200 {
		s = s[:200]
	}
	return s
}

// recFormat records the rows the batch printer hands to its formatter.
type recFormat struct{ rows *[][]octosql.Value }

func (f recFormat) SetSchema(physical.Schema) {}
func (f recFormat) Write(vs []octosql.Value) error {
	c := make([]octosql.Value, len(vs))
	copy(c, vs)
	*f.rows = append(*f.rows, c)
	return nil
}
func (f recFormat) Close() error { return nil }

// BuildNode constructs the real execution node over the given source, the way
// physical.Node.Materialize / cmd/root.go do.
func (s Spec) BuildNode(src execution.Node) execution.Node {
	switch s.Kind {
	case NFilter:
		return nodes.NewFilter(src, s.E.Build())
	case NMap:
		es := make([]execution.Expression, len(s.Es))
		for i := range s.Es {
			es[i] = s.Es[i].Build()
		}
		return nodes.NewMap(src, es)
	case NUnnest:
		return nodes.NewUnnest(src, s.I)
	case NLookup:
		cond := execution.NewFunctionCall(fn("=", 0), []execution.Expression{execution.NewVariable(0, s.A), execution.NewVariable(1, s.B)}, []int{0, 1})
		return nodes.NewLookupJoin(src, nodes.NewFilter(&lib.ScriptSource{Events: s.Table}, cond))
	case NDistinct:
		return nodes.NewDistinct(src)
	case NLimit:
		return nodes.NewLimit(src, execution.NewConstant(octosql.NewInt(s.N)))
	case NPipe:
		n := src
		for _, st := range s.Pipe {
			n = st.BuildNode(n)
		}
		return n
	case NOst:
		es, ms := buildKeys(s.Keys)
		var limit *execution.Expression
		if s.HasLimit {
			var e execution.Expression = execution.NewConstant(octosql.NewInt(s.Limit))
			limit = &e
		}
		return nodes.NewOrderSensitiveTransform(src, es, ms, limit, s.NoRetr)
	}
	panic("BuildNode: not an execution node")
}

// Run runs the node (or the batch printer) over a scripted source and records what it emits.
func (s Spec) Run(script []lib.Event) Obs {
	return s.RunOver(&lib.ScriptSource{Events: script})
}

func (s Spec) RunOver(src execution.Node) (o Obs) {
	if s.Kind == NPrinter {
		o.IsRows = true
		es, ms := buildKeys(s.Keys)
		var limit *int64
		if s.HasLimit {
			l := s.Limit
			limit = &l
		}
		// every frame (the periodic live refreshes and the final table) asks for a new formatter: the rows of
		// the last one are the final frame
		var frames []*[][]octosql.Value
		p := batch.NewOutputPrinter(src, es, ms, limit, s.NoRetr, physical.Schema{TimeField: -1},
			func(io.Writer) batch.Format {
				rows := [][]octosql.Value{}
				frames = append(frames, &rows)
				return recFormat{rows: &rows}
			}, s.Live)
		func() {
			defer func() {
				if r := recover(); r != nil {
					o.Panicked = r
				}
			}()
			o.Err = p.Run(execution.ExecutionContext{})
		}()
		o.Rows = [][]octosql.Value{}
		if len(frames) > 0 {
			o.Rows = *frames[len(frames)-1]
		}
		o.Frames = len(frames)
		return o
	}
	return RunBuilt(s.BuildNode(src))
}

// RunBuilt runs an already built node once more and records what it emits.  Every record is copied when it is
// received (that copy is the observation); the record as handed over (sharing the node's slice) is kept too and
// compared with the copy when the run is over: a node that rewrites a values slice after producing it would
// corrupt any consumer that keeps records for later (event-time buffers, join inputs, trees).
func RunBuilt(n execution.Node) (o Obs) {
	var raw []execution.Record
	defer func() {
		if p := recover(); p != nil {
			o.Panicked = p
		}
	}()
	ctx := execution.ExecutionContext{}
	o.Err = n.Run(ctx,
		func(ctx execution.ProduceContext, record execution.Record) error {
			vals := make([]octosql.Value, len(record.Values))
			copy(vals, record.Values)
			o.Events = append(o.Events, lib.Event{Rec: execution.NewRecord(vals, record.Retraction, record.EventTime)})
			raw = append(raw, record)
			return nil
		},
		func(ctx execution.ProduceContext, msg execution.MetadataMessage) error {
			if msg.Type == execution.MetadataMessageTypeWatermark {
				o.Events = append(o.Events, lib.Event{IsWM: true, WM: msg.Watermark})
			}
			return nil
		})
	k := 0
	for _, e := range o.Events {
		if e.IsWM {
			continue
		}
		r := raw[k]
		k++
		if len(r.Values) != len(e.Rec.Values) {
			o.Aliased = true
			continue
		}
		for i := range r.Values {
			if lib.CoqValue(r.Values[i]) != lib.CoqValue(e.Rec.Values[i]) {
				o.Aliased = true
			}
		}
	}
	return o
}

// TwoRunSource replays Scripts[0] the first time it is run, Scripts[1] the second time, ... (a node object may be
// run several times: LookupJoin runs its joined side once per source record).
type TwoRunSource struct {
	Scripts [][]lib.Event
	run     int
}

func (s *TwoRunSource) Run(ctx execution.ExecutionContext, produce execution.ProduceFn, metaSend execution.MetaSendFn) error {
	k := s.run
	if k >= len(s.Scripts) {
		k = len(s.Scripts) - 1
	}
	s.run++
	return (&lib.ScriptSource{Events: s.Scripts[k]}).Run(ctx, produce, metaSend)
}

// RunTwice builds the node once over a TwoRunSource and runs the same object twice.
func (s Spec) RunTwice(a, b []lib.Event) (Obs, Obs) {
	n := s.BuildNode(&TwoRunSource{Scripts: [][]lib.Event{a, b}})
	o1 := RunBuilt(n)
	o2 := RunBuilt(n)
	return o1, o2
}

// RunBuffered puts an EventTimeBuffer above the node: a consumer that keeps the records it receives until a
// watermark (or the end of the stream) releases them.
func (s Spec) RunBuffered(script []lib.Event) Obs {
	return RunBuilt(nodes.NewEventTimeBuffer(s.BuildNode(&lib.ScriptSource{Events: script})))
}

// SlowSource replays a script like lib.ScriptSource but sleeps before the events whose index is in Pause,
// so that a live printer (which redraws when more than 250 ms passed since its last frame) draws
// intermediate frames.
type SlowSource struct {
	Events []lib.Event
	Pause  map[int]time.Duration
}

func (s *SlowSource) Run(ctx execution.ExecutionContext, produce execution.ProduceFn, metaSend execution.MetaSendFn) error {
	pctx := execution.ProduceFromExecutionContext(ctx)
	for i, e := range s.Events {
		if d, ok := s.Pause[i]; ok {
			time.Sleep(d)
		}
		if e.IsWM {
			if err := metaSend(pctx, execution.MetadataMessage{Type: execution.MetadataMessageTypeWatermark, Watermark: e.WM}); err != nil {
				return err
			}
			continue
		}
		vals := make([]octosql.Value, len(e.Rec.Values))
		copy(vals, e.Rec.Values)
		if err := produce(pctx, execution.NewRecord(vals, e.Rec.Retraction, e.Rec.EventTime)); err != nil {
			return err
		}
	}
	return nil
}

// ---- generators ----

// GenRow draws a row; column kinds are fixed per column position so that "col + const" mostly sees ints.
func GenRow(r *lib.Rng, arity int, listCol int) []octosql.Value {
	vals := make([]octosql.Value, arity)
	for j := range vals {
		switch {
		case j == listCol:
			n := r.Intn(4)
			l := make([]octosql.Value, n)
			for k := range l {
				l[k] = lib.GenValue(r, lib.SmallProfile, 0)
			}
			if r.Chance(1, 6) {
				vals[j] = octosql.NewNull()
			} else {
				vals[j] = octosql.NewList(l)
			}
		case j == 0:
			// mostly small ints and NULL
			switch r.Intn(8) {
			case 0:
				vals[j] = octosql.NewNull()
			case 1:
				vals[j] = octosql.NewInt(lib.EdgeInts[r.Intn(len(lib.EdgeInts))])
			default:
				vals[j] = octosql.NewInt(int64(r.Intn(4)))
			}
		default:
			p := lib.SmallProfile
			if r.Chance(1, 5) {
				p = lib.ScalarProfile
			}
			if r.Chance(1, 8) {
				p = lib.ValueProfile{Float: true, SmallDomain: true} // 0, -0, 1, NaN: Compare-equal, distinct bits
			}
			vals[j] = lib.GenValue(r, p, 0)
		}
	}
	return vals
}

// GenChangelog draws a changelog over rows of one arity: a random interleaving of inserts and
// retractions with duplicates, NULLs and watermarks. valid=true never retracts an absent row;
// otherwise one retraction of an absent row is slipped in. insertOnly suppresses retractions.
func GenChangelog(r *lib.Rng, arity, listCol, maxLen int, insertOnly, valid bool) []lib.Event {
	n := r.Intn(maxLen + 1)
	var evs []lib.Event
	var present [][]octosql.Value
	var pool [][]octosql.Value
	wm := int64(0)
	badAt := -1
	if !valid {
		badAt = r.Intn(n + 1)
	}
	for i := 0; i < n || i == badAt; i++ {
		et := int64(0)
		if r.Chance(1, 3) {
			et = wm + int64(r.Intn(4))
		}
		switch {
		case i == badAt:
			vals := GenRow(r, arity, listCol)
			// make sure it is absent
			absent := true
			for _, p := range present {
				if compareRows(p, vals) == 0 {
					absent = false
				}
			}
			if absent {
				evs = append(evs, lib.Event{Rec: execution.NewRecord(vals, true, lib.T(et))})
			}
		case r.Chance(1, 7):
			wm += int64(1 + r.Intn(3))
			evs = append(evs, lib.Event{IsWM: true, WM: lib.T(wm)})
		case !insertOnly && len(present) > 0 && r.Chance(2, 5):
			k := r.Intn(len(present))
			vals := present[k]
			present = append(present[:k:k], present[k+1:]...)
			evs = append(evs, lib.Event{Rec: execution.NewRecord(vals, true, lib.T(et))})
		default:
			var vals []octosql.Value
			if len(pool) > 0 && r.Chance(2, 5) {
				vals = pool[r.Intn(len(pool))] // duplicate of an earlier row (possibly retracted since)
			} else {
				vals = GenRow(r, arity, listCol)
				pool = append(pool, vals)
			}
			present = append(present, vals)
			evs = append(evs, lib.Event{Rec: execution.NewRecord(vals, false, lib.T(et))})
		}
	}
	return evs
}

func compareRows(a, b []octosql.Value) int {
	for i := range a {
		if i >= len(b) {
			return 1
		}
		if c := a[i].Compare(b[i]); c != 0 {
			return c
		}
	}
	if len(a) < len(b) {
		return -1
	}
	return 0
}

// GenExpr draws one of the four expression shapes over the given arity.
func GenExpr(r *lib.Rng, arity int, pred bool) Expr {
	i := r.Intn(arity)
	if pred {
		switch r.Intn(8) {
		case 0:
			return Expr{Kind: EVar, I: i}
		case 1:
			return Expr{Kind: EConst, C: []octosql.Value{octosql.NewBoolean(true), octosql.NewBoolean(false), octosql.NewNull()}[r.Intn(3)]}
		default:
			return Expr{Kind: EEqConst, I: i, C: genConst(r, i)}
		}
	}
	switch r.Intn(5) {
	case 0:
		return Expr{Kind: EConst, C: genConst(r, i)}
	case 1:
		return Expr{Kind: EEqConst, I: i, C: genConst(r, i)}
	case 2:
		c := int64(r.Intn(5)) - 2
		if r.Chance(1, 4) {
			c = lib.EdgeInts[r.Intn(len(lib.EdgeInts))]
		}
		return Expr{Kind: EAddConst, I: 0, N: c}
	default:
		return Expr{Kind: EVar, I: i}
	}
}

func genConst(r *lib.Rng, col int) octosql.Value {
	if col == 0 {
		if r.Chance(1, 8) {
			return octosql.NewNull()
		}
		return octosql.NewInt(int64(r.Intn(4)))
	}
	return lib.GenValue(r, lib.SmallProfile, 0)
}

func GenKeys(r *lib.Rng, arity int) []Key {
	n := r.Intn(3)
	ks := make([]Key, n)
	for i := range ks {
		ks[i] = Key{Desc: r.Bool(), E: GenExpr(r, arity, false)}
	}
	return ks
}

// Summary facts of a script, for the non-triviality rules.
func ScriptFacts(script []lib.Event) (recs, retr, wms, dups int) {
	var seen [][]octosql.Value
	for _, e := range script {
		if e.IsWM {
			wms++
			continue
		}
		recs++
		if e.Rec.Retraction {
			retr++
		} else {
			for _, s := range seen {
				if compareRows(s, e.Rec.Values) == 0 {
					dups++
					break
				}
			}
			seen = append(seen, e.Rec.Values)
		}
	}
	return
}
