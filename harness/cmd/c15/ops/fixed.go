// fixed.go: the deterministic case families that are part of every run (independent of the seed), next to the
// random ones.  Each family is the systematic version of a shape that a class of changes needs in order to
// show: rows crossing the LIMIT boundary by retraction, equal duplicate rows at the boundary, a row inserted
// several times and then retracted, ...
package ops

import (
	"github.com/cube2222/octosql/execution"
	"github.com/cube2222/octosql/octosql"

	"verifharness/lib"
)

// FixedCase is one deterministic in-process case.
type FixedCase struct {
	Family string
	Arity  int
	Spec   Spec
	Script []lib.Event
}

func row1(v int64) []octosql.Value { return []octosql.Value{octosql.NewInt(v)} }
func row2(v int64, p string) []octosql.Value {
	return []octosql.Value{octosql.NewInt(v), octosql.NewString(p)}
}
func insEv(vals []octosql.Value) lib.Event {
	return lib.Event{Rec: execution.NewRecord(vals, false, lib.T(0))}
}
func retEv(vals []octosql.Value) lib.Event {
	return lib.Event{Rec: execution.NewRecord(vals, true, lib.T(0))}
}

// FixedLimitCases: ORDER BY + LIMIT n (OrderSensitiveTransform and the batch printer), n in 1..3.
//   retraction_below_limit: more than n distinct rows are inserted (ascending, descending and middle-out arrival),
//     then one of the n first rows of the sort order is retracted (every position), with and without a second copy
//     of a row; noRetractionsPossible = false.  The row that was beyond the limit belongs to the result.
//   duplicates_at_boundary: equal duplicate rows sit on the LIMIT boundary (n-th and (n+1)-th row equal, one more
//     larger row), three arrival orders; noRetractionsPossible true and false.
func FixedLimitCases() []FixedCase {
	var out []FixedCase
	key := func(desc bool) []Key { return []Key{{Desc: desc, E: Expr{Kind: EVar, I: 0}}} }
	for _, kind := range []NodeKind{NOst, NPrinter} {
		for n := 1; n <= 3; n++ {
			for _, desc := range []bool{false, true} {
				// values in sort order: position p (0-based) holds value val(p)
				val := func(p int) int64 {
					if desc {
						return int64(10 - p)
					}
					return int64(1 + p)
				}
				total := n + 2
				orders := [][]int{}
				asc, dsc, mid := []int{}, []int{}, []int{}
				for p := 0; p < total; p++ {
					asc = append(asc, p)
					dsc = append(dsc, total-1-p)
				}
				for lo, hi := 0, total-1; lo <= hi; lo, hi = lo+1, hi-1 { // largest, smallest, second largest, ...
					mid = append(mid, hi)
					if lo != hi {
						mid = append(mid, lo)
					}
				}
				orders = append(orders, asc, dsc, mid)
				for oi, ord := range orders {
					for _, dup := range []bool{false, true} {
						for victim := 0; victim < n; victim++ {
							if oi != 0 && victim != 0 && victim != n-1 {
								continue // all positions for the ascending arrival, first and last of the top n otherwise
							}
							var script []lib.Event
							for _, p := range ord {
								script = append(script, insEv(row2(val(p), "p")))
							}
							if dup {
								script = append(script, insEv(row2(val((victim+1)%n), "p")))
							}
							script = append(script, retEv(row2(val(victim), "p")))
							out = append(out, FixedCase{Family: "retraction_below_limit", Arity: 2,
								Spec: Spec{Kind: kind, Keys: key(desc), HasLimit: true, Limit: int64(n), NoRetr: false}, Script: script})
						}
					}
				}
				// duplicates on the boundary: n-1 smaller rows, the boundary row twice (three times for dup3), one larger
				for _, noretr := range []bool{true, false} {
					for _, copies := range []int{2, 3} {
						var rows []int64
						for p := 0; p < n-1; p++ {
							rows = append(rows, val(p))
						}
						for c := 0; c < copies; c++ {
							rows = append(rows, val(n-1))
						}
						rows = append(rows, val(n))
						arrivals := [][]int64{rows, {}, {}}
						for i := len(rows) - 1; i >= 0; i-- {
							arrivals[1] = append(arrivals[1], rows[i])
						}
						arrivals[2] = append([]int64{rows[len(rows)-1]}, rows[:len(rows)-1]...) // the larger row first
						for _, arr := range arrivals {
							var script []lib.Event
							for _, v := range arr {
								script = append(script, insEv(row1(v)))
							}
							out = append(out, FixedCase{Family: "duplicates_at_boundary", Arity: 1,
								Spec: Spec{Kind: kind, Keys: key(desc), HasLimit: true, Limit: int64(n), NoRetr: noretr}, Script: script})
						}
					}
				}
			}
		}
	}
	return out
}

// FixedDistinctCases: a row inserted several times and then retracted, alone and interleaved with another row.
func FixedDistinctCases() []FixedCase {
	r, s := row2(1, "r"), row2(2, "s")
	scripts := [][]lib.Event{
		{insEv(r), insEv(r), retEv(r)},
		{insEv(r), insEv(r), retEv(r), retEv(r)},
		{insEv(r), insEv(r), insEv(r), retEv(r), retEv(r), insEv(r), retEv(r), retEv(r)},
		{insEv(r), insEv(s), insEv(r), retEv(r), retEv(s), retEv(r)},
		{insEv(r), retEv(r), insEv(r), insEv(r), retEv(r)},
	}
	var out []FixedCase
	for _, sc := range scripts {
		out = append(out, FixedCase{Family: "distinct_multiplicity_then_retraction", Arity: 2, Spec: Spec{Kind: NDistinct}, Script: sc})
	}
	return out
}

// FixedJoinCases: one input is consumed to its end while its records (with event times) are still in the event-time
// buffer, the other input then sends the matching records and a watermark; both orientations, inner and outer joins.
func FixedJoinCases(cf *lib.CaseFile) {
	rec := func(k, p int64, et int64, retr bool) Msg {
		return Msg{Kind: kRec, Rec: execution.NewRecord([]octosql.Value{octosql.NewInt(k), octosql.NewInt(p)}, retr, lib.T(et))}
	}
	first := []Msg{rec(1, 100, 7, false), rec(2, 101, 8, false), {Kind: kClose}}
	second := []Msg{rec(1, 200, 5, false), rec(2, 201, 6, false), {Kind: kWM, WM: lib.T(10)}, rec(2, 201, 11, true), {Kind: kWM, WM: lib.T(12)}, {Kind: kClose}}
	for kind := 0; kind < 4; kind++ {
		cfg := config{kind: kind, kl: []int{0}, kr: []int{0}, nl: 2, nr: 2}
		// left ends first
		var c1, c2 []bool
		for range first {
			c1 = append(c1, true)
			c2 = append(c2, false)
		}
		for range second {
			c1 = append(c1, false)
			c2 = append(c2, true)
		}
		addJoinCase(cf, cfg, first, second, c1, "fixed_closed_side_still_buffered")
		addJoinCase(cf, cfg, second, first, c2, "fixed_closed_side_still_buffered")
		cf.Count("node_join")
		cf.Count("node_join")
		cf.Count("join_schedule_fixed_closed_side_still_buffered")
		cf.Count("join_schedule_fixed_closed_side_still_buffered")
	}
}
