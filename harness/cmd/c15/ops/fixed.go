// fixed.go: the deterministic case families that are part of every run (independent of the seed), next to the
// random ones.  Each family is the systematic version of a shape that a class of changes needs in order to
// show: rows crossing the LIMIT boundary by retraction, equal duplicate rows at the boundary, a row inserted
// several times and then retracted, ...
package ops

import (
	"github.com/cube2222/octosql/execution"
	"github.com/cube2222/octosql/octosql"

	"verifharness/lib"
)

// FixedCase is one deterministic in-process case.
type FixedCase struct {
	Family string
	Arity  int
	Spec   Spec
	Script []lib.Event
}

func row1(v int64) []octosql.Value { return []octosql.Value{octosql.NewInt(v)} }
func row2(v int64, p string) []octosql.Value {
	return []octosql.Value{octosql.NewInt(v), octosql.NewString(p)}
}
func insEv(vals []octosql.Value) lib.Event {
	return lib.Event{Rec: execution.NewRecord(vals, false, lib.T(0))}
}
func retEv(vals []octosql.Value) lib.Event {
	return lib.Event{Rec: execution.NewRecord(vals, true, lib.T(0))}
}

// FixedLimitCases: ORDER BY + LIMIT n (OrderSensitiveTransform and the batch printer), n in 1..3.
//   retraction_below_limit: more than n distinct rows are inserted (ascending, descending and middle-out arrival),
//     then one of the n first rows of the sort order is retracted (every position), with and without a second copy
//     of a row; noRetractionsPossible = false.  The row that was beyond the limit belongs to the result.
//   duplicates_at_boundary: equal duplicate rows sit on the LIMIT boundary (n-th and (n+1)-th row equal, one more
//     larger row), three arrival orders; noRetractionsPossible true and false.
func FixedLimitCases() []FixedCase {
	var out []FixedCase
	key := func(desc bool) []Key { return []Key{{Desc: desc, E: Expr{Kind: EVar, I: 0}}} }
	for _, kind := range []NodeKind{NOst, NPrinter} {
		for n := 1; n <= 3; n++ {
			for _, desc := range []bool{false, true} {
				// values in sort order: position p (0-based) holds value val(p)
				val := func(p int) int64 {
					if desc {
						return int64(10 - p)
					}
					return int64(1 + p)
				}
				total := n + 2
				orders := [][]int{}
				asc, dsc, mid := []int{}, []int{}, []int{}
				for p := 0; p < total; p++ {
					asc = append(asc, p)
					dsc = append(dsc, total-1-p)
				}
				for lo, hi := 0, total-1; lo <= hi; lo, hi = lo+1, hi-1 { // largest, smallest, second largest, ...
					mid = append(mid, hi)
					if lo != hi {
						mid = append(mid, lo)
					}
				}
				orders = append(orders, asc, dsc, mid)
				for oi, ord := range orders {
					for _, dup := range []bool{false, true} {
						for victim := 0; victim < n; victim++ {
							if oi != 0 && victim != 0 && victim != n-1 {
								continue // all positions for the ascending arrival, first and last of the top n otherwise
							}
							var script []lib.Event
							for _, p := range ord {
								script = append(script, insEv(row2(val(p), "p")))
							}
							if dup {
								script = append(script, insEv(row2(val((victim+1)%n), "p")))
							}
							script = append(script, retEv(row2(val(victim), "p")))
							out = append(out, FixedCase{Family: "retraction_below_limit", Arity: 2,
								Spec: Spec{Kind: kind, Keys: key(desc), HasLimit: true, Limit: int64(n), NoRetr: false}, Script: script})
						}
					}
				}
				// duplicates on the boundary: n-1 smaller rows, the boundary row twice (three times for dup3), one larger
				for _, noretr := range []bool{true, false} {
					for _, copies := range []int{2, 3} {
						var rows []int64
						for p := 0; p < n-1; p++ {
							rows = append(rows, val(p))
						}
						for c := 0; c < copies; c++ {
							rows = append(rows, val(n-1))
						}
						rows = append(rows, val(n))
						arrivals := [][]int64{rows, {}, {}}
						for i := len(rows) - 1; i >= 0; i-- {
							arrivals[1] = append(arrivals[1], rows[i])
						}
						arrivals[2] = append([]int64{rows[len(rows)-1]}, rows[:len(rows)-1]...) // the larger row first
						for _, arr := range arrivals {
							var script []lib.Event
							for _, v := range arr {
								script = append(script, insEv(row1(v)))
							}
							out = append(out, FixedCase{Family: "duplicates_at_boundary", Arity: 1,
								Spec: Spec{Kind: kind, Keys: key(desc), HasLimit: true, Limit: int64(n), NoRetr: noretr}, Script: script})
						}
					}
				}
			}
		}
	}
	return out
}

// FixedDistinctCases: a row inserted several times and then retracted, alone and interleaved with another row.
func FixedDistinctCases() []FixedCase {
	r, s := row2(1, "r"), row2(2, "s")
	scripts := [][]lib.Event{
		{insEv(r), insEv(r), retEv(r)},
		{insEv(r), insEv(r), retEv(r), retEv(r)},
		{insEv(r), insEv(r), insEv(r), retEv(r), retEv(r), insEv(r), retEv(r), retEv(r)},
		{insEv(r), insEv(s), insEv(r), retEv(r), retEv(s), retEv(r)},
		{insEv(r), retEv(r), insEv(r), insEv(r), retEv(r)},
	}
	var out []FixedCase
	for _, sc := range scripts {
		out = append(out, FixedCase{Family: "distinct_multiplicity_then_retraction", Arity: 2, Spec: Spec{Kind: NDistinct}, Script: sc})
	}
	return out
}

// FixedJoinCases: one input is consumed to its end while its records (with event times) are still in the event-time
// buffer, the other input then sends the matching records and a watermark; both orientations, inner and outer joins.
func FixedJoinCases(cf *lib.CaseFile) {
	rec := func(k, p int64, et int64, retr bool) Msg {
		return Msg{Kind: kRec, Rec: execution.NewRecord([]octosql.Value{octosql.NewInt(k), octosql.NewInt(p)}, retr, lib.T(et))}
	}
	first := []Msg{rec(1, 100, 7, false), rec(2, 101, 8, false), {Kind: kClose}}
	second := []Msg{rec(1, 200, 5, false), rec(2, 201, 6, false), {Kind: kWM, WM: lib.T(10)}, rec(2, 201, 11, true), {Kind: kWM, WM: lib.T(12)}, {Kind: kClose}}
	for kind := 0; kind < 4; kind++ {
		cfg := config{kind: kind, kl: []int{0}, kr: []int{0}, nl: 2, nr: 2}
		// left ends first
		var c1, c2 []bool
		for range first {
			c1 = append(c1, true)
			c2 = append(c2, false)
		}
		for range second {
			c1 = append(c1, false)
			c2 = append(c2, true)
		}
		addJoinCase(cf, cfg, first, second, c1, "fixed_closed_side_still_buffered")
		addJoinCase(cf, cfg, second, first, c2, "fixed_closed_side_still_buffered")
		cf.Count("node_join")
		cf.Count("node_join")
		cf.Count("join_schedule_fixed_closed_side_still_buffered")
		cf.Count("join_schedule_fixed_closed_side_still_buffered")
		// a key is emptied and refilled on one side (insert, full retraction, re-insert, and once more with a second
		// row) while the other side holds a row with that key; no event times, so every record is processed at once
		keeper := []Msg{rec(1, 100, 0, false), rec(2, 300, 0, false), {Kind: kClose}}
		churn := []Msg{rec(1, 200, 0, false), rec(1, 200, 0, true), rec(1, 201, 0, false), rec(1, 202, 0, false), rec(1, 201, 0, true), rec(1, 202, 0, true), rec(1, 203, 0, false), {Kind: kClose}}
		var d1, d2 []bool
		d1 = append(d1, true, true) // the keeper's two records first
		d2 = append(d2, false, false)
		for range churn[:len(churn)-1] {
			d1 = append(d1, false)
			d2 = append(d2, true)
		}
		d1 = append(d1, true, false) // then both ends
		d2 = append(d2, false, true)
		addJoinCase(cf, cfg, keeper, churn, d1, "fixed_key_emptied_and_refilled")
		addJoinCase(cf, cfg, churn, keeper, d2, "fixed_key_emptied_and_refilled")
		cf.Count("node_join")
		cf.Count("node_join")
	}
}

// ---- round 2: every node object is run twice, nodes are composed, and a deferring consumer sits on top ----

// GenStage draws one pipeline stage for rows of the given arity and returns the arity of what it emits.
func GenStage(r *lib.Rng, arity int) (Spec, int) {
	switch r.Intn(6) {
	case 0:
		return Spec{Kind: NFilter, E: GenExpr(r, arity, true)}, arity
	case 1:
		n := 1 + r.Intn(3)
		s := Spec{Kind: NMap}
		for i := 0; i < n; i++ {
			s.Es = append(s.Es, GenExpr(r, arity, false))
		}
		return s, n
	case 2:
		return Spec{Kind: NDistinct}, arity
	case 3:
		return Spec{Kind: NLimit, N: int64(r.Intn(5))}, arity
	case 4:
		return Spec{Kind: NOst, Keys: GenKeys(r, arity)}, arity
	default:
		return Spec{Kind: NOst, Keys: GenKeys(r, arity), HasLimit: true, Limit: int64(r.Intn(4))}, arity
	}
}

// GenPipe draws a pipeline of 2..3 stages.
func GenPipe(r *lib.Rng, arity int) Spec {
	p := Spec{Kind: NPipe}
	for k := 2 + r.Intn(2); k > 0; k-- {
		var st Spec
		st, arity = GenStage(r, arity)
		p.Pipe = append(p.Pipe, st)
	}
	return p
}

func col(i int) Expr { return Expr{Kind: EVar, I: i} }

// FixedPipelines: LIMIT above ORDER BY (an outer LIMIT over an ordered subquery) and the other orders of stacking
// Map / Filter / Limit / OrderBy / Distinct, over a script with duplicates and a retraction.
func FixedPipelines() []FixedCase {
	var out []FixedCase
	ins := []lib.Event{insEv(row2(3, "c")), insEv(row2(1, "a")), insEv(row2(2, "b")), insEv(row2(1, "a")), insEv(row2(5, "e")), insEv(row2(4, "d"))}
	withRetr := append(append([]lib.Event{}, ins...), retEv(row2(2, "b")), retEv(row2(1, "a")))
	asc := []Key{{Desc: false, E: col(0)}}
	desc := []Key{{Desc: true, E: col(0)}}
	add := func(script []lib.Event, stages ...Spec) {
		out = append(out, FixedCase{Family: "pipeline", Arity: 2, Spec: Spec{Kind: NPipe, Pipe: stages}, Script: script})
	}
	for n := int64(0); n <= 3; n++ {
		for _, ks := range [][]Key{asc, desc} {
			add(ins, Spec{Kind: NOst, Keys: ks}, Spec{Kind: NLimit, N: n})      // LIMIT above ORDER BY
			add(withRetr, Spec{Kind: NOst, Keys: ks}, Spec{Kind: NLimit, N: n}) // ... over a source that retracts
			add(ins, Spec{Kind: NLimit, N: n + 1}, Spec{Kind: NOst, Keys: ks})  // ORDER BY above LIMIT
			add(ins, Spec{Kind: NOst, Keys: ks, HasLimit: true, Limit: n + 1}, Spec{Kind: NLimit, N: n})
			add(ins, Spec{Kind: NOst, Keys: ks}, Spec{Kind: NMap, Es: []Expr{col(1), col(0)}}, Spec{Kind: NLimit, N: n})
		}
		add(ins, Spec{Kind: NLimit, N: n + 2}, Spec{Kind: NLimit, N: n})
		add(ins, Spec{Kind: NLimit, N: n}, Spec{Kind: NLimit, N: n + 2})
		add(ins, Spec{Kind: NFilter, E: Expr{Kind: EEqConst, I: 0, C: octosql.NewInt(1)}}, Spec{Kind: NMap, Es: []Expr{col(0)}}, Spec{Kind: NLimit, N: n})
		add(withRetr, Spec{Kind: NMap, Es: []Expr{col(0)}}, Spec{Kind: NOst, Keys: asc, HasLimit: true, Limit: n + 1})
	}
	add(withRetr, Spec{Kind: NMap, Es: []Expr{col(0)}}, Spec{Kind: NDistinct})
	add(withRetr, Spec{Kind: NDistinct}, Spec{Kind: NOst, Keys: desc})
	add(withRetr, Spec{Kind: NFilter, E: Expr{Kind: EEqConst, I: 1, C: octosql.NewString("a")}}, Spec{Kind: NMap, Es: []Expr{col(1), {Kind: EAddConst, I: 0, N: 1}}})
	return out
}

// FixedTwoRuns: scripts for running one node object twice: the second input differs from the first in length and
// content, and both are longer and shorter than the limits used.
func FixedTwoRuns() (specs []Spec, first, second []lib.Event) {
	first = []lib.Event{insEv(row2(1, "a")), insEv(row2(2, "b")), insEv(row2(1, "a")), retEv(row2(2, "b"))}
	second = []lib.Event{insEv(row2(7, "x")), insEv(row2(6, "y")), insEv(row2(7, "x")), insEv(row2(5, "z")), insEv(row2(8, "w"))}
	asc := []Key{{Desc: false, E: col(0)}}
	specs = []Spec{
		{Kind: NFilter, E: Expr{Kind: EEqConst, I: 0, C: octosql.NewInt(7)}},
		{Kind: NMap, Es: []Expr{col(1), col(0)}},
		{Kind: NDistinct},
		{Kind: NOst, Keys: asc},
		{Kind: NPipe, Pipe: []Spec{{Kind: NOst, Keys: asc}, {Kind: NLimit, N: 2}}},
	}
	for n := int64(0); n <= 5; n++ {
		specs = append(specs, Spec{Kind: NLimit, N: n}, Spec{Kind: NOst, Keys: asc, HasLimit: true, Limit: n})
	}
	return
}

// FixedBuffered: a node below an EventTimeBuffer; several retractions of different rows wait in the buffer for the
// same watermark, one more waits for the end of the stream.
func FixedBuffered() []FixedCase {
	at := func(vals []octosql.Value, retr bool, et int64) lib.Event {
		return lib.Event{Rec: execution.NewRecord(vals, retr, lib.T(et))}
	}
	wm := func(w int64) lib.Event { return lib.Event{IsWM: true, WM: lib.T(w)} }
	a, b, c := row2(1, "a"), row2(2, "b"), row2(3, "c")
	script := []lib.Event{at(a, false, 1), at(b, false, 1), at(c, false, 1), wm(2), at(a, true, 5), at(b, true, 5), wm(6), at(c, true, 9), at(a, false, 9)}
	specs := []Spec{
		{Kind: NMap, Es: []Expr{col(0), col(1)}},
		{Kind: NMap, Es: []Expr{col(1)}},
		{Kind: NFilter, E: Expr{Kind: EConst, C: octosql.NewBoolean(true)}},
		{Kind: NPipe, Pipe: []Spec{{Kind: NFilter, E: Expr{Kind: EConst, C: octosql.NewBoolean(true)}}, {Kind: NMap, Es: []Expr{col(0), {Kind: EAddConst, I: 0, N: 1}}}}},
		{Kind: NUnnest, I: 0},
	}
	var out []FixedCase
	for _, s := range specs {
		sc := script
		if s.Kind == NUnnest {
			l := func(v ...int64) []octosql.Value {
				var vs []octosql.Value
				for _, x := range v {
					vs = append(vs, octosql.NewInt(x))
				}
				return []octosql.Value{octosql.NewList(vs), octosql.NewString("u")}
			}
			sc = []lib.Event{at(l(1, 2), false, 1), at(l(3), false, 1), wm(2), at(l(1, 2), true, 5), at(l(3), true, 5), wm(6)}
		}
		out = append(out, FixedCase{Family: "buffered_consumer", Arity: 2, Spec: s, Script: sc})
	}
	return out
}

// AddCase records one in-process case; wrap is the Coq constructor ("XNode", "InProc", "XBuffered").
// A record whose values changed after it was produced is reported as a violation.
func AddCase(cf *lib.CaseFile, wrap, family string, arity int, spec Spec, script []lib.Event, obs Obs, nontrivial bool) int {
	js := map[string]interface{}{"kind": "in-process", "family": family, "arity": arity, "node": spec.JSON(), "input": lib.EventsJSON(script), "observed": obs.JSON()}
	if wrap == "XBuffered" {
		js["consumer"] = "EventTimeBuffer above the node"
	}
	idx := cf.Add(wrap+" ("+Nat(arity)+", "+spec.Coq()+", "+lib.CoqEvents(script)+", "+obs.Coq()+")", js, nontrivial)
	cf.Count("family_" + family)
	if obs.Aliased {
		cf.Violation(idx, KindNames[spec.Kind]+" changed the values of a record after producing it (a consumer that keeps records sees the later contents)", "")
	}
	if obs.Panicked != nil {
		cf.Violation(idx, KindNames[spec.Kind]+" panicked on a valid changelog", "")
	}
	return idx
}

// Round2Families adds the deterministic families of round 2 (every seed) and their random counterparts.
func Round2Families(cf *lib.CaseFile, wrap string, r *lib.Rng, nRandom int, buffered bool) {
	for _, fc := range FixedPipelines() {
		AddCase(cf, wrap, "fixed_pipeline", fc.Arity, fc.Spec, fc.Script, fc.Spec.Run(fc.Script), true)
	}
	specs, first, second := FixedTwoRuns()
	for _, sp := range specs {
		o1, o2 := sp.RunTwice(first, second)
		AddCase(cf, wrap, "fixed_first_run", 2, sp, first, o1, true)
		AddCase(cf, wrap, "fixed_second_run_of_the_same_node", 2, sp, second, o2, true)
		o1, o2 = sp.RunTwice(second, first)
		AddCase(cf, wrap, "fixed_second_run_of_the_same_node", 2, sp, first, o2, true)
	}
	if buffered {
		for _, fc := range FixedBuffered() {
			AddCase(cf, "XBuffered", "fixed_buffered_consumer", fc.Arity, fc.Spec, fc.Script, fc.Spec.RunBuffered(fc.Script), true)
		}
	}
	for i := 0; i < nRandom; i++ {
		rr := r.Fork()
		arity := 1 + rr.Intn(3)
		switch i % 3 {
		case 0: // a random pipeline
			sp := GenPipe(rr, arity)
			script := GenChangelog(rr, arity, -1, 10, rr.Chance(1, 3), true)
			AddCase(cf, wrap, "random_pipeline", arity, sp, script, sp.Run(script), true)
		case 1: // one node or pipeline object, two runs
			var sp Spec
			if rr.Bool() {
				sp, _ = GenStage(rr, arity)
			} else {
				sp = GenPipe(rr, arity)
			}
			a := GenChangelog(rr, arity, -1, 8, rr.Chance(1, 3), true)
			b := GenChangelog(rr, arity, -1, 8, rr.Chance(1, 3), true)
			_, o2 := sp.RunTwice(a, b)
			AddCase(cf, wrap, "random_second_run_of_the_same_node", arity, sp, b, o2, true)
		default: // a linear node or pipeline below the buffer
			if !buffered {
				sp := GenPipe(rr, arity)
				script := GenChangelog(rr, arity, -1, 10, false, true)
				AddCase(cf, wrap, "random_pipeline", arity, sp, script, sp.Run(script), true)
				continue
			}
			var sp Spec
			switch rr.Intn(3) {
			case 0:
				sp = Spec{Kind: NFilter, E: GenExpr(rr, arity, true)}
			case 1:
				sp = Spec{Kind: NMap, Es: []Expr{GenExpr(rr, arity, false), GenExpr(rr, arity, false)}}
			default:
				sp = Spec{Kind: NPipe, Pipe: []Spec{{Kind: NFilter, E: GenExpr(rr, arity, true)}, {Kind: NMap, Es: []Expr{GenExpr(rr, arity, false)}}}}
			}
			script := GenChangelog(rr, arity, -1, 12, false, true)
			AddCase(cf, "XBuffered", "random_buffered_consumer", arity, sp, script, sp.RunBuffered(script), true)
		}
	}
}
