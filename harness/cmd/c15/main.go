// c15: every single-input execution node (and the batch printer's record handling) run in-process over
// generated valid changelogs; the exact emitted events are compared with Model/Operators.v and the
// property's oracle (output validity, consolidated output = batch meaning of the consolidated input)
// is evaluated in Coq on the implementation's output.
package main

import (
	"fmt"
	"os"

	"github.com/cube2222/octosql/execution"
	"github.com/cube2222/octosql/octosql"

	"verifharness/cmd/c15/ops"
	"verifharness/cmd/c16/gb"
	"verifharness/lib"
)

func genSpec(r *lib.Rng, kind ops.NodeKind, arity, listCol int) ops.Spec {
	s := ops.Spec{Kind: kind}
	switch kind {
	case ops.NFilter:
		s.E = ops.GenExpr(r, arity, true)
	case ops.NMap:
		n := 1 + r.Intn(3)
		for i := 0; i < n; i++ {
			s.Es = append(s.Es, ops.GenExpr(r, arity, false))
		}
	case ops.NUnnest:
		s.I = listCol
	case ops.NLookup:
		tarity := 1 + r.Intn(2)
		insertOnly := r.Chance(1, 2)
		s.Table = ops.GenChangelog(r, tarity, -1, 5, insertOnly, true)
		s.A = r.Intn(tarity)
		s.B = r.Intn(arity)
		if r.Chance(2, 3) {
			s.A, s.B = 0, 0 // column 0 is the small-int column on both sides: frequent matches
		}
	case ops.NLimit:
		s.N = int64(r.Intn(7))
		if r.Chance(1, 12) {
			s.N = -1
		}
	case ops.NOst, ops.NPrinter:
		s.Keys = ops.GenKeys(r, arity)
		s.NoRetr = r.Chance(1, 3)
		if r.Chance(1, 2) {
			// ORDER BY ... LIMIT n: small n, so that rows beyond the limit exist and retractions reach below it
			s.HasLimit = true
			s.Limit = int64(r.Intn(5))
		}
	}
	return s
}

func main() {
	f := lib.ParseFlags()
	if f.Cmd != "run" {
		fmt.Fprintln(os.Stderr, "c15: only 'run'")
		os.Exit(2)
	}
	rng := lib.NewRng(f.Seed)
	cf := lib.NewCaseFile("C15", f.Seed, f.Tier)
	cf.Imports = []string{"GroupBy", "Joins", "C15Cases"}
	cf.CaseType = "c15x_case"
	cf.Checks = []lib.Check{{Name: "tie", Kind: "tie", Fn: "c15x_tie"}, {Name: "spec", Kind: "spec", Fn: "c15x_spec"}}
	cf.Side.Rule = "each of Filter, Map, Unnest, LookupJoin (joined side = Filter(table, t.col = s.col)), Distinct, Limit, OrderSensitiveTransform and " +
		"batch.OutputPrinter (each half of the time with a LIMIT 0..4) built with its exported constructor over lib.ScriptSource replaying a generated changelog (0..12 events, arity 1..3, " +
		"duplicates, NULLs, -0/NaN floats, list column for Unnest, watermarks, event times; 1 in 10 scripts retracts an absent row and is used for the tie only); " +
		"non-trivial = valid script with at least one retraction and one duplicate insertion (Limit/insert-only nodes: at least 3 records); distinct by full case text. " +
		"GROUP BY: SimpleGroupBy / CustomTriggerGroupBy built through the planner path by harness/cmd/c16/gb (all trigger sets, COUNT/SUM, watermarks) and judged by validity of the output + c16_spec; " +
		"JOIN: StreamJoin / OuterJoin over two gated plain scripts (valid changelogs, event times, watermarks) consumed in a prescribed order (random merges and " +
		"one-input-ends-before-the-other-starts), judged by validity of the output + c19_spec_final. " +
		"Round 2: pipelines of 2-3 nodes (fixed: LIMIT above/below ORDER BY, Map, Filter, Distinct; random), every node object run twice over different inputs, " +
		"nodes below an EventTimeBuffer (records kept until a watermark), and a check that no produced record changes afterwards. " +
		"Deterministic families in every run: ORDER BY + LIMIT 1..3 with a retraction among the first n rows / equal duplicates on the boundary (OST and printer), " +
		"Distinct with multiplicity > 1 then retractions, a group emitted by a counting trigger and then emptied, a join input that ends while its records are still buffered"
	n := f.Cases(900, 9000)
	nGroup := f.Cases(250, 2500)
	nJoin := f.Cases(300, 3000)
	kinds := []ops.NodeKind{ops.NFilter, ops.NMap, ops.NUnnest, ops.NLookup, ops.NLookup, ops.NDistinct, ops.NDistinct, ops.NLimit, ops.NOst, ops.NOst, ops.NPrinter}
	for i := 0; i < n; i++ {
		r := rng.Fork()
		kind := kinds[i%len(kinds)]
		arity := 1 + r.Intn(3)
		listCol := -1
		if kind == ops.NUnnest {
			listCol = r.Intn(arity)
		}
		spec := genSpec(r, kind, arity, listCol)
		valid := !r.Chance(1, 10)
		insertOnly := (kind == ops.NOst || kind == ops.NPrinter) && spec.NoRetr
		if kind == ops.NLimit && r.Chance(1, 2) {
			insertOnly = true
		}
		if insertOnly {
			valid = true
		}
		script := ops.GenChangelog(r, arity, listCol, 12, insertOnly, valid)
		obs := spec.Run(script)
		if spec.HasLimit {
			cf.Count("node_" + ops.KindNames[kind] + "_with_limit")
		}
		recs, retr, wms, dups := ops.ScriptFacts(script)
		nontrivial := valid && ((retr > 0 && dups > 0) || (insertOnly && recs >= 3))
		js := map[string]interface{}{"arity": arity, "node": spec.JSON(), "input": lib.EventsJSON(script), "observed": obs.JSON()}
		idx := cf.Add(fmt.Sprintf("XNode (%s, %s, %s, %s)", ops.Nat(arity), spec.Coq(), lib.CoqEvents(script), obs.Coq()), js, nontrivial)
		cf.Count("node_" + ops.KindNames[kind])
		if !valid {
			cf.Count("invalid_script_tie_only")
		}
		if retr > 0 {
			cf.Count("with_retraction")
		}
		if wms > 0 {
			cf.Count("with_watermark")
		}
		if dups > 0 {
			cf.Count("with_duplicate")
		}
		if obs.Aliased {
			cf.Violation(idx, ops.KindNames[kind]+" changed the values of a record after producing it", "")
		}
		if valid && obs.Panicked != nil {
			cf.Violation(idx, fmt.Sprintf("%s panicked on a valid changelog: %v", ops.KindNames[kind], obs.Panicked), "")
		}
		if valid && obs.Err != nil && !(kind == ops.NOst && spec.HasLimit && spec.Limit < 0) {
			cf.Violation(idx, fmt.Sprintf("%s failed on a valid changelog with an error-free source: %v", ops.KindNames[kind], obs.Err), "")
		}
	}
	// ---- deterministic families (every seed): rows crossing the LIMIT boundary by retraction, duplicates on the
	// boundary, a row inserted several times and then retracted ----
	for _, fc := range append(ops.FixedLimitCases(), ops.FixedDistinctCases()...) {
		obs := fc.Spec.Run(fc.Script)
		js := map[string]interface{}{"arity": fc.Arity, "family": fc.Family, "node": fc.Spec.JSON(), "input": lib.EventsJSON(fc.Script), "observed": obs.JSON()}
		idx := cf.Add(fmt.Sprintf("XNode (%s, %s, %s, %s)", ops.Nat(fc.Arity), fc.Spec.Coq(), lib.CoqEvents(fc.Script), obs.Coq()), js, true)
		cf.Count("fixed_" + fc.Family)
		if obs.Panicked != nil {
			cf.Violation(idx, fmt.Sprintf("%s panicked on a valid changelog: %v", ops.KindNames[fc.Spec.Kind], obs.Panicked), "")
		}
	}
	// ---- round 2: pipelines of nodes, every node object run twice, a deferring consumer (EventTimeBuffer) on top ----
	ops.Round2Families(cf, "XNode", rng.Fork(), f.Cases(150, 1500), true)
	// ---- GROUP BY (nodes and generator of harness/cmd/c16/gb; the case term is a gb_case) ----
	gb.Init()
	// deterministic: a group is emitted by a counting trigger, then all its rows are retracted (it stays empty, it
	// shrinks first, or it is refilled), next to a group that stays
	{
		rec := func(k, v int64, retr bool) lib.Event {
			return lib.Event{Rec: execution.NewRecord([]octosql.Value{octosql.NewInt(k), octosql.NewString("x"), octosql.NewInt(v)}, retr, lib.T(0))}
		}
		scripts := [][]lib.Event{
			{rec(1, 5, false), rec(2, 7, false), rec(1, 5, true)},
			{rec(1, 5, false), rec(1, 6, false), rec(2, 7, false), rec(1, 5, true), rec(1, 6, true)},
			{rec(2, 7, false), rec(1, 5, false), rec(1, 5, true), rec(1, 9, false)},
			{rec(1, 5, false), rec(1, 5, true)},
		}
		trigSets := [][]gb.Trig{
			{{Kind: gb.Counting, N: 1}},
			{{Kind: gb.Counting, N: 1}, {Kind: gb.EndOfStream}},
			{{Kind: gb.Counting, N: 2}, {Kind: gb.EndOfStream}},
			{{Kind: gb.Counting, N: 3}},
		}
		for _, ts := range trigSets {
			for _, sc := range scripts {
				from := len(cf.Items)
				gb.RunCase(cf, gb.Config{NK: 1, Aggs: []gb.Agg{gb.Count, gb.Sum}, KTI: -1, Trigs: ts}, "fixed_group_emptied_after_trigger", sc)
				for k := from; k < len(cf.Items); k++ {
					cf.Items[k] = "XGroup " + cf.Items[k]
				}
				cf.Count("fixed_group_emptied_after_trigger")
			}
		}
	}
	for i := 0; i < nGroup; i++ {
		r := rng.Fork()
		from := len(cf.Items)
		gb.RandomCase(cf, r, i, false) // may add several cases (the same node object run more than once)
		for k := from; k < len(cf.Items); k++ {
			cf.Items[k] = "XGroup " + cf.Items[k]
		}
	}
	// ---- StreamJoin / OuterJoin ----
	ops.InitJoins()
	ops.FixedJoinCases(cf)
	for i := 0; i < nJoin; i++ {
		ops.RandomJoinCase(cf, rng.Fork())
	}
	if err := cf.Write(f.Out); err != nil {
		fmt.Fprintln(os.Stderr, err)
		os.Exit(2)
	}
}
