// c22: the internally-consistent output stream wrapper, run on generated changelogs with watermarks.
package main

import (
	"fmt"
	"os"

	"github.com/cube2222/octosql/execution"
	"github.com/cube2222/octosql/octosql"
	"github.com/cube2222/octosql/outputs/stream"

	"verifharness/lib"
)

// genScript draws a changelog with watermarks: duplicates, retractions (mostly of present rows),
// out-of-order event times, late records, zero event times, monotone watermarks.
func genScript(r *lib.Rng, arity int) []lib.Event {
	n := r.Intn(14)
	var evs []lib.Event
	var present [][]octosql.Value
	wm := int64(0)
	prof := lib.SmallProfile
	if r.Chance(1, 4) {
		prof = lib.ScalarProfile
	}
	for i := 0; i < n; i++ {
		switch {
		case r.Chance(1, 4):
			wm += int64(r.Intn(4))
			if wm == 0 {
				wm = 1
			}
			evs = append(evs, lib.Event{IsWM: true, WM: lib.T(wm)})
		case len(present) > 0 && r.Chance(2, 5):
			k := r.Intn(len(present))
			vals := present[k]
			if r.Chance(4, 5) {
				present = append(present[:k:k], present[k+1:]...)
			}
			evs = append(evs, lib.Event{Rec: execution.NewRecord(vals, true, lib.T(wm+int64(r.Intn(5))-1))})
		default:
			vals := make([]octosql.Value, arity)
			for j := range vals {
				vals[j] = lib.GenValue(r, prof, 0)
			}
			if len(present) > 0 && r.Chance(1, 3) {
				vals = present[r.Intn(len(present))] // duplicate row
			}
			present = append(present, vals)
			et := wm + int64(r.Intn(6)) - 1 // sometimes late, sometimes 0 (= no event time)
			if et < 0 {
				et = 0
			}
			evs = append(evs, lib.Event{Rec: execution.NewRecord(vals, false, lib.T(et))})
		}
	}
	return evs
}

func main() {
	f := lib.ParseFlags()
	if f.Cmd != "run" {
		fmt.Fprintln(os.Stderr, "c22: only 'run'")
		os.Exit(2)
	}
	rng := lib.NewRng(f.Seed)
	cf := lib.NewCaseFile("C22", f.Seed, f.Tier)
	cf.Imports = []string{"Wrapper"}
	cf.CaseType = "c22_case"
	cf.Checks = []lib.Check{{Name: "tie", Kind: "tie", Fn: "c22_tie"}, {Name: "spec", Kind: "spec", Fn: "c22_spec"}}
	cf.Side.Rule = "random valid-leaning changelogs (0..13 events, arity 1..2, duplicates, retractions, late and zero event times, monotone watermarks) " +
		"through stream.InternallyConsistentOutputStreamWrapper; non-trivial = at least one retraction, one watermark and one record above a watermark when it is forwarded; distinct by full case text"
	n := f.Cases(400, 4000)
	for i := 0; i < n; i++ {
		r := rng.Fork()
		arity := 1 + r.Intn(2)
		script := genScript(r, arity)
		out, err, p := lib.RunNode(&stream.InternallyConsistentOutputStreamWrapper{Source: &lib.ScriptSource{Events: script}})
		hasRetr, hasWM, hasLater := false, false, false
		lastWM := int64(-1)
		for _, e := range script {
			if e.IsWM {
				hasWM = true
				lastWM = e.WM.UnixNano()
			} else {
				if e.Rec.Retraction {
					hasRetr = true
				}
			}
		}
		for _, e := range script {
			if !e.IsWM && !e.Rec.EventTime.IsZero() && e.Rec.EventTime.UnixNano() > lastWM && lastWM >= 0 {
				hasLater = true
			}
		}
		js := map[string]interface{}{"arity": arity, "input": lib.EventsJSON(script), "output": lib.EventsJSON(out)}
		idx := cf.Add(fmt.Sprintf("(%d, %s, %s)", arity, lib.CoqEvents(script), lib.CoqEvents(out)), js, hasRetr && hasWM && hasLater)
		cf.Count(fmt.Sprintf("len_%02d", len(script)))
		if hasRetr {
			cf.Count("with_retraction")
		}
		if hasWM {
			cf.Count("with_watermark")
		}
		if err != nil {
			cf.Violation(idx, "wrapper returned an error on an error-free source: "+err.Error(), "")
		}
		if p != nil {
			cf.Violation(idx, fmt.Sprintf("wrapper panicked: %v", p), "")
		}
	}
	if err := cf.Write(f.Out); err != nil {
		fmt.Fprintln(os.Stderr, err)
		os.Exit(2)
	}
}
