// c22: the internally-consistent output stream wrapper, run on generated changelogs with watermarks.
package main

import (
	"fmt"
	"os"

	"github.com/cube2222/octosql/execution"
	"github.com/cube2222/octosql/octosql"
	"github.com/cube2222/octosql/outputs/stream"

	"verifharness/lib"
)

// genScript draws a changelog with watermarks: duplicates, retractions (mostly of present rows),
// out-of-order event times, late records, zero event times, monotone watermarks.
func genScript(r *lib.Rng, arity int) []lib.Event {
	n := r.Intn(14)
	var evs []lib.Event
	var present [][]octosql.Value
	wm := int64(0)
	prof := lib.SmallProfile
	if r.Chance(1, 4) {
		prof = lib.ScalarProfile
	}
	for i := 0; i < n; i++ {
		switch {
		case r.Chance(1, 4):
			wm += int64(r.Intn(4))
			if wm == 0 {
				wm = 1
			}
			evs = append(evs, lib.Event{IsWM: true, WM: lib.T(wm)})
		case len(present) > 0 && r.Chance(2, 5):
			k := r.Intn(len(present))
			vals := present[k]
			if r.Chance(4, 5) {
				present = append(present[:k:k], present[k+1:]...)
			}
			evs = append(evs, lib.Event{Rec: execution.NewRecord(vals, true, lib.T(wm+int64(r.Intn(5))-1))})
		default:
			vals := make([]octosql.Value, arity)
			for j := range vals {
				vals[j] = lib.GenValue(r, prof, 0)
			}
			if len(present) > 0 && r.Chance(1, 3) {
				vals = present[r.Intn(len(present))] // duplicate row
			}
			present = append(present, vals)
			et := wm + int64(r.Intn(6)) - 1 // sometimes late, sometimes 0 (= no event time)
			if et < 0 {
				et = 0
			}
			evs = append(evs, lib.Event{Rec: execution.NewRecord(vals, false, lib.T(et))})
		}
	}
	return evs
}

func main() {
	f := lib.ParseFlags()
	if f.Cmd != "run" {
		fmt.Fprintln(os.Stderr, "c22: only 'run'")
		os.Exit(2)
	}
	rng := lib.NewRng(f.Seed)
	cf := lib.NewCaseFile("C22", f.Seed, f.Tier)
	cf.Imports = []string{"Wrapper"}
	cf.CaseType = "c22_case"
	cf.Checks = []lib.Check{{Name: "tie", Kind: "tie", Fn: "c22_tie"}, {Name: "spec", Kind: "spec", Fn: "c22_spec"}}
	cf.Side.Rule = "random valid-leaning changelogs (0..13 events, arity 1..2, duplicates, retractions, late and zero event times, monotone watermarks) " +
		"through stream.InternallyConsistentOutputStreamWrapper; non-trivial = at least one retraction, one watermark and one record above a watermark when it is forwarded; distinct by full case text"
	n := f.Cases(400, 3000)
	// corpus first: the minimised inputs on which the pinned tree failed, then (thorough tier) every
	// script up to length 5 over a 7-event alphabet, then the random stream.
	va, vb := []octosql.Value{octosql.NewInt(1)}, []octosql.Value{octosql.NewInt(2)}
	ins := func(v []octosql.Value, t int64) lib.Event { return lib.Event{Rec: execution.NewRecord(v, false, lib.T(t))} }
	del := func(v []octosql.Value, t int64) lib.Event { return lib.Event{Rec: execution.NewRecord(v, true, lib.T(t))} }
	wm := func(t int64) lib.Event { return lib.Event{IsWM: true, WM: lib.T(t)} }
	fixed := [][]lib.Event{
		{ins(va, 5), wm(3)},
		{ins(va, 1), ins(va, 1), del(va, 1), wm(3)},
		{ins(va, 1), del(va, 5), wm(3), wm(6)},
		{ins(va, 4), ins(va, 0), del(va, 1)},
		{ins(va, 3), wm(3), ins(vb, 3), wm(3), del(va, 4)},
	}
	if f.Tier == "thorough" {
		alphabet := []lib.Event{ins(va, 1), ins(va, 3), del(va, 1), del(va, 3), ins(vb, 2), wm(2), wm(3)}
		var rec func(prefix []lib.Event, depth int)
		rec = func(prefix []lib.Event, depth int) {
			if len(prefix) > 0 {
				fixed = append(fixed, append([]lib.Event(nil), prefix...))
			}
			if depth == 0 {
				return
			}
			for _, e := range alphabet {
				// keep watermarks non-decreasing (the wrapper's stated input condition)
				if e.IsWM {
					okWM := true
					for _, p := range prefix {
						if p.IsWM && p.WM.After(e.WM) {
							okWM = false
						}
					}
					if !okWM {
						continue
					}
				}
				rec(append(prefix, e), depth-1)
			}
		}
		rec(nil, 5)
	}
	cf.Side.Distribution["fixed_and_exhaustive_scripts"] = len(fixed)
	for i := 0; i < n+len(fixed); i++ {
		r := rng.Fork()
		arity := 1 + r.Intn(2)
		var script []lib.Event
		if i < len(fixed) {
			arity, script = 1, fixed[i]
		} else {
			script = genScript(r, arity)
		}
		out, err, p := lib.RunNode(&stream.InternallyConsistentOutputStreamWrapper{Source: &lib.ScriptSource{Events: script}})
		hasRetr, hasWM, hasLater := false, false, false
		lastWM := int64(-1)
		for _, e := range script {
			if e.IsWM {
				hasWM = true
				lastWM = e.WM.UnixNano()
			} else {
				if e.Rec.Retraction {
					hasRetr = true
				}
			}
		}
		for _, e := range script {
			if !e.IsWM && !e.Rec.EventTime.IsZero() && e.Rec.EventTime.UnixNano() > lastWM && lastWM >= 0 {
				hasLater = true
			}
		}
		js := map[string]interface{}{"arity": arity, "input": lib.EventsJSON(script), "output": lib.EventsJSON(out)}
		idx := cf.Add(fmt.Sprintf("(%d, %s, %s)", arity, lib.CoqEvents(script), lib.CoqEvents(out)), js, hasRetr && hasWM && hasLater)
		cf.Count(fmt.Sprintf("len_%02d", len(script)))
		if hasRetr {
			cf.Count("with_retraction")
		}
		if hasWM {
			cf.Count("with_watermark")
		}
		if err != nil {
			cf.Violation(idx, "wrapper returned an error on an error-free source: "+err.Error(), "")
		}
		if p != nil {
			cf.Violation(idx, fmt.Sprintf("wrapper panicked: %v", p), "")
		}
	}
	if err := cf.Write(f.Out); err != nil {
		fmt.Fprintln(os.Stderr, err)
		os.Exit(2)
	}
}
